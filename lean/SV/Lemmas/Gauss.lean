import SV.Model.C08
import SV.Lemmas.Subst
import Mathlib.Tactic.Ring
import Mathlib.Tactic.FieldSimp
import Mathlib.Tactic.Linarith
import Mathlib.Tactic.LinearCombination
import Mathlib.Algebra.BigOperators.Intervals
import Mathlib.Algebra.BigOperators.Ring.Finset
import Mathlib.Algebra.Order.Field.Basic
import Mathlib.LinearAlgebra.Matrix.ToLinearEquiv
/-!
Lemmas about the elimination model `SV.C08`.

* shape part (any scalar type): every step keeps the `n × n` / length-`n` shapes, so the final
  back substitution is inside its precondition and the model never produces `panic`;
* algebraic part (ordered field): the *conceptual* system after `k` steps — the stored matrix with
  zeros below the diagonal in the finished columns — has exactly the solutions of the original
  system (`Inv`); a pivot that passes the tolerance test with `0 < tol` is non-zero.
-/
set_option linter.unusedSectionVars false
set_option linter.unusedSimpArgs false

namespace SV.Gauss
open SV SV.C08 Finset

/-- invariant-style reasoning about a left fold -/
theorem foldl_inv {α β : Type} (P : β → Prop) (f : β → α → β) (l : List α) (init : β)
    (h0 : P init) (hs : ∀ b a, a ∈ l → P b → P (f b a)) : P (l.foldl f init) := by
  induction l generalizing init with
  | nil => exact h0
  | cons a l ih =>
    rw [List.foldl_cons]
    apply ih
    · exact hs init a (by simp) h0
    · intro b a' ha' hb
      exact hs b a' (by simp [ha']) hb

/-! ### shapes (any scalar) -/
section shape
variable {S : Type} [Inhabited S] [Add S] [Sub S] [Mul S] [Div S] [Neg S] [OfNat S 0]
  [LT S] [DecidableRel (α := S) (· < ·)]

/-- the three containers have the sizes the loops index -/
def Shape (n : Nat) (st : St S) : Prop :=
  st.m.h = n ∧ st.m.w = n ∧ st.r.size = n ∧ st.s.size = n

/-- the pivot row found by the search is `k` itself or a later row inside the matrix -/
theorem pivotSearch_range (M : Mat S) (s : Array S) (n k : Nat) :
    (pivotSearch M s n k).1 = k ∨ (k < (pivotSearch M s n k).1 ∧ (pivotSearch M s n k).1 < n) := by
  unfold pivotSearch
  apply foldl_inv (fun pb : Nat × S => pb.1 = k ∨ (k < pb.1 ∧ pb.1 < n))
  · exact Or.inl rfl
  · intro pb ii hii hpb
    rw [List.mem_range'_1] at hii
    dsimp only
    split
    · right; dsimp only; omega
    · exact hpb

theorem vswap_size (v : Array S) (p q : Nat) : (vswap v p q).size = v.size := by
  simp [vswap]

theorem vget_vswap (v : Array S) (p q : Nat) {i : Nat} (hi : i < v.size) :
    vget (vswap v p q) i = if i = p then vget v q else if i = q then vget v p else vget v i := by
  unfold vswap
  rw [vget_vtab _ hi]

theorem get_swapRows (M : Mat S) (p q : Nat) {i j : Nat} (hi : i < M.h) (hj : j < M.w) :
    (M.swapRows p q).get i j
      = if i = p then M.get q j else if i = q then M.get p j else M.get i j := by
  unfold Mat.swapRows
  rw [Mat.get_tab _ hi hj]

theorem partialPivot_shape {n : Nat} {st : St S} (k : Nat) (h : Shape n st) :
    Shape n (partialPivot st n k) := by
  unfold partialPivot
  dsimp only
  split
  · exact h
  · obtain ⟨h1, h2, h3, h4⟩ := h
    exact ⟨by simp [Mat.swapRows, h1], by simp [Mat.swapRows, h2], by rw [vswap_size, h3],
      by rw [vswap_size, h4]⟩

theorem elimStep_shape {n : Nat} {st : St S} (k : Nat) (h : Shape n st) :
    Shape n (elimStep st n k) := by
  obtain ⟨_, _, _, h4⟩ := h
  exact ⟨by simp [elimStep], by simp [elimStep], by simp [elimStep], by simpa [elimStep] using h4⟩

/-- induction principle for the elimination loop: a property indexed by the step number that every
unflagged step carries forward holds for the state the loop returns -/
theorem feLoop_ind (tol : S) (n m : Nat) (P : Nat → St S → Prop)
    (hstep : ∀ k st, k < m → P k st → pivotSmall (partialPivot st n k) tol k = false →
      P (k + 1) (elimStep (partialPivot st n k) n k)) :
    ∀ (t k : Nat) (st st' : St S), k + t ≤ m → P k st →
      feLoop tol n t k st = some st' → P (k + t) st' := by
  intro t
  induction t with
  | zero =>
    intro k st st' _ hP h
    simp only [feLoop, Option.some.injEq] at h
    subst h
    exact hP
  | succ t ih =>
    intro k st st' hk hP h
    simp only [feLoop] at h
    split at h
    · cases h
    · rename_i hsmall
      have := ih (k + 1) _ st' (by omega)
        (hstep k st (by omega) hP (by simpa using hsmall)) h
      have e : k + 1 + t = k + (t + 1) := by omega
      rw [e] at this
      exact this

theorem forwardElim_shape (tol : S) {n : Nat} {st st' : St S} (h : Shape n st)
    (hfe : forwardElim tol n st = some st') : Shape n st' := by
  unfold forwardElim at hfe
  split at hfe
  · cases hfe
  · rename_i st1 hloop
    split at hfe
    · cases hfe
    · simp only [Option.some.injEq] at hfe
      subst hfe
      exact feLoop_ind tol n (n - 1) (fun _ s => Shape n s)
        (fun k s _ hs _ => elimStep_shape k (partialPivot_shape k hs))
        (n - 1) 0 st st1 (by omega) h hloop

/-- what a successful run of the solver went through -/
theorem gaussSolve_ok [BEq S] {A : Mat S} {b : Array S} {tol : S} {x : Array S}
    (h : gaussSolve A b tol = .ok x) :
    A.h = A.w ∧ A.h = b.size ∧ A.h ≠ 0 ∧
      ∃ st, forwardElim tol A.h { m := A, r := b, s := vtab A.h (rowScale A A.h) } = some st ∧
        Subst.backSubst st.m A.h st.r (vtab A.h fun _ => 0) = .ok x := by
  unfold gaussSolve at h
  split at h
  · cases h
  · rename_i h1
    split at h
    · cases h
    · rename_i h2
      split at h
      · cases h
      · rename_i h3
        dsimp only at h
        split at h
        · cases h
        · split at h
          · cases h
          · rename_i st hst
            refine ⟨by simpa using h1, by simpa using h2, h3, st, hst, ?_⟩
            split at h
            · rename_i y hy
              injection h with h
              rw [← h]; exact hy
            · cases h

/-- the square, matching, non-empty system: the solver answers with a vector or refuses as
singular — it never panics -/
theorem gaussSolve_cases [BEq S] (A : Mat S) (b : Array S) (tol : S)
    (h1 : A.h = A.w) (h2 : A.h = b.size) (h3 : A.h ≠ 0) :
    gaussSolve A b tol = .err .singular ∨ ∃ x, gaussSolve A b tol = .ok x := by
  unfold gaussSolve
  rw [if_neg (by simpa using h1), if_neg (by simpa using h2), if_neg h3]
  dsimp only
  split
  · exact Or.inl rfl
  · split
    · exact Or.inl rfl
    · rename_i st hst
      have hs : Shape A.h st :=
        forwardElim_shape tol ⟨rfl, h1.symm, h2.symm, by simp⟩ hst
      obtain ⟨s1, s2, s3, _⟩ := hs
      rw [Subst.backSubst_eq_ok st.m A.h st.r _ (by omega) (by omega) (by omega) (by omega)
        (by simp)]
      exact Or.inr ⟨_, rfl⟩

end shape

/-! ### the elimination step on function-valued matrices -/
section fn
variable {K : Type} [Field K]

/-- one elimination step at column `k`: only entries right of column `k` in rows below `k` change;
column `k` below the diagonal keeps its garbage -/
def elimA (k : ℕ) (A : ℕ → ℕ → K) : ℕ → ℕ → K :=
  fun i j => if k < i ∧ k < j then A i j - A i k / A k k * A k j else A i j
def elimB (k : ℕ) (A : ℕ → ℕ → K) (b : ℕ → K) : ℕ → K :=
  fun i => if k < i then b i - A i k / A k k * b k else b i

/-- the matrix the algorithm *means* after `k` finished columns: zeros below the diagonal there -/
def conc (k : ℕ) (A : ℕ → ℕ → K) : ℕ → ℕ → K :=
  fun i j => if j < k ∧ j < i then 0 else A i j

/-- `x` satisfies the `n` row equations of `(A, b)` -/
def Solves (n : ℕ) (A : ℕ → ℕ → K) (b : ℕ → K) (x : ℕ → K) : Prop :=
  ∀ i, i < n → ∑ j ∈ range n, A i j * x j = b i

theorem Solves_congr {n : ℕ} {A A' : ℕ → ℕ → K} {b b' : ℕ → K} (x : ℕ → K)
    (hA : ∀ i j, i < n → j < n → A' i j = A i j) (hb : ∀ i, i < n → b' i = b i) :
    Solves n A' b' x ↔ Solves n A b x := by
  have e : ∀ i, i < n → ∑ j ∈ range n, A' i j * x j = ∑ j ∈ range n, A i j * x j := by
    intro i hi
    apply Finset.sum_congr rfl
    intro j hj
    rw [hA i j hi (by simpa using hj)]
  constructor
  · intro h i hi
    rw [← e i hi, ← hb i hi]; exact h i hi
  · intro h i hi
    rw [e i hi, hb i hi]; exact h i hi

/-- row i (> k) of the new conceptual matrix is (old row i) − f·(old row k), entrywise -/
theorem conc_elim_row (k : ℕ) (A : ℕ → ℕ → K) (hp : A k k ≠ 0) (i j : ℕ) (hi : k < i) :
    conc (k+1) (elimA k A) i j = conc k A i j - A i k / A k k * conc k A k j := by
  unfold conc elimA
  by_cases h1 : j < k
  · have h5 : j < k + 1 := by omega
    have h2 : j < i := by omega
    have h6 : ¬ k < j := by omega
    simp [h1, h2, h5, h6]
  · by_cases h2 : j = k
    · subst h2
      have : j < j + 1 := by omega
      simp [hi, this]
      field_simp
      ring
    · have h3 : k < j := by omega
      have h4 : ¬ j < k + 1 := by omega
      simp [h1, h3, h4, hi]

theorem conc_elim_row_le (k : ℕ) (A : ℕ → ℕ → K) (i j : ℕ) (hi : i ≤ k) :
    conc (k+1) (elimA k A) i j = conc k A i j := by
  unfold conc elimA
  have h1 : ¬ k < i := by omega
  by_cases h2 : j < i
  · have : j < k := by omega
    have : j < k + 1 := by omega
    simp [h1, h2, *]
  · simp [h1, h2]

/-- the step preserves the solution set -/
theorem elim_preserves (n k : ℕ) (hk : k < n) (A : ℕ → ℕ → K) (b x : ℕ → K) (hp : A k k ≠ 0) :
    Solves n (conc k A) b x ↔ Solves n (conc (k+1) (elimA k A)) (elimB k A b) x := by
  have rowk : ∑ j ∈ range n, conc (k+1) (elimA k A) k j * x j = ∑ j ∈ range n, conc k A k j * x j := by
    apply sum_congr rfl; intro j _; rw [conc_elim_row_le k A k j (le_refl k)]
  constructor
  · intro h i hi
    by_cases hik : k < i
    · have e : ∑ j ∈ range n, conc (k+1) (elimA k A) i j * x j
            = ∑ j ∈ range n, conc k A i j * x j - A i k / A k k * ∑ j ∈ range n, conc k A k j * x j := by
        rw [mul_sum, ← sum_sub_distrib]
        apply sum_congr rfl; intro j _
        rw [conc_elim_row k A hp i j hik]; ring
      rw [e, h i hi, h k hk]; simp [elimB, hik]
    · have e : ∑ j ∈ range n, conc (k+1) (elimA k A) i j * x j = ∑ j ∈ range n, conc k A i j * x j := by
        apply sum_congr rfl; intro j _; rw [conc_elim_row_le k A i j (by omega)]
      rw [e, h i hi]; simp [elimB, hik]
  · intro h i hi
    have hkk := h k hk
    rw [rowk] at hkk
    have hbk : elimB k A b k = b k := by simp [elimB]
    rw [hbk] at hkk
    by_cases hik : k < i
    · have e : ∑ j ∈ range n, conc (k+1) (elimA k A) i j * x j
            = ∑ j ∈ range n, conc k A i j * x j - A i k / A k k * ∑ j ∈ range n, conc k A k j * x j := by
        rw [mul_sum, ← sum_sub_distrib]
        apply sum_congr rfl; intro j _
        rw [conc_elim_row k A hp i j hik]; ring
      have hi' := h i hi
      rw [e, hkk] at hi'
      simp only [elimB, hik, if_true] at hi'
      linear_combination hi'
    · have e : ∑ j ∈ range n, conc (k+1) (elimA k A) i j * x j = ∑ j ∈ range n, conc k A i j * x j := by
        apply sum_congr rfl; intro j _; rw [conc_elim_row_le k A i j (by omega)]
      have hi' := h i hi
      rw [e] at hi'
      simpa [elimB, hik] using hi'

/-- exchanging rows `p` and `k` -/
def sw (p k i : ℕ) : ℕ := if i = p then k else if i = k then p else i

theorem sw_sw (p k i : ℕ) : sw p k (sw p k i) = i := by
  unfold sw
  by_cases h1 : i = p
  · by_cases h2 : k = p
    · simp [h1, h2]
    · simp [h1, h2]
  · by_cases h2 : i = k
    · simp [h1, h2]
    · simp [h1, h2]

theorem sw_lt {n p k i : ℕ} (hp : p < n) (hk : k < n) (hi : i < n) : sw p k i < n := by
  unfold sw; split
  · exact hk
  · split
    · exact hp
    · exact hi

/-- exchanging two rows at or below the current step — of matrix and right-hand side alike — does
not change the solutions of the conceptual system -/
theorem swap_preserves (n k p : ℕ) (hkp : k < p) (hp : p < n) (M M' : ℕ → ℕ → K) (r r' : ℕ → K)
    (hM : ∀ i j, i < n → j < n → M' i j = M (sw p k i) j)
    (hr : ∀ i, i < n → r' i = r (sw p k i)) (x : ℕ → K) :
    Solves n (conc k M') r' x ↔ Solves n (conc k M) r x := by
  have hk : k < n := by omega
  have hc : ∀ i j, i < n → j < n → conc k M' i j = conc k M (sw p k i) j := by
    intro i j hi hj
    unfold conc
    rw [hM i j hi hj]
    unfold sw
    by_cases h1 : i = p
    · subst h1
      simp only [if_true]
      by_cases hjk : j < k
      · have : j < i := by omega
        simp [hjk, this]
      · simp [hjk]
    · by_cases h2 : i = k
      · subst h2
        simp only [h1, if_false, if_true]
        by_cases hjk : j < i
        · have : j < p := by omega
          simp [hjk, this]
        · simp [hjk]
      · simp [h1, h2]
  have hrow : ∀ i, i < n →
      (∑ j ∈ range n, conc k M' i j * x j = r' i ↔
        ∑ j ∈ range n, conc k M (sw p k i) j * x j = r (sw p k i)) := by
    intro i hi
    have e : ∑ j ∈ range n, conc k M' i j * x j = ∑ j ∈ range n, conc k M (sw p k i) j * x j := by
      apply Finset.sum_congr rfl
      intro j hj
      rw [hc i j hi (by simpa using hj)]
    rw [e, hr i hi]
  constructor
  · intro h i hi
    have := (hrow (sw p k i) (sw_lt hp hk hi)).mp (h _ (sw_lt hp hk hi))
    rwa [sw_sw] at this
  · intro h i hi
    exact (hrow i hi).mpr (h _ (sw_lt hp hk hi))

end fn

/-! ### the invariant of the elimination (ordered field) -/
section field
variable {K : Type} [Field K] [LinearOrder K] [IsStrictOrderedRing K] [Inhabited K]

theorem sabs_eq_abs (x : K) : sabs x = |x| := by
  unfold sabs
  split
  · rename_i h; rw [abs_of_neg h]
  · rename_i h; rw [abs_of_nonneg (not_lt.mp h)]

/-- the stored matrix / right-hand side as functions -/
def fnM (st : St K) : ℕ → ℕ → K := fun i j => st.m.get i j
def fnR (st : St K) : ℕ → K := fun i => vget st.r i

/-- a pivot that passes the scaled tolerance test with a positive tolerance is not zero
(whatever the scale entry is) -/
theorem pivot_ne_zero {st : St K} {tol : K} {k : ℕ} (htol : 0 < tol)
    (h : pivotSmall st tol k = false) : st.m.get k k ≠ 0 := by
  intro h0
  unfold pivotSmall at h
  rw [h0, zero_div, sabs_eq_abs, abs_zero] at h
  simp [htol] at h

/-- after `k` steps: shapes, the conceptual system is equivalent to the original one, the finished
pivots are non-zero -/
structure Inv (n : ℕ) (A : ℕ → ℕ → K) (b : ℕ → K) (k : ℕ) (st : St K) : Prop where
  shape : Shape n st
  sol : ∀ x, Solves n (conc k (fnM st)) (fnR st) x ↔ Solves n A b x
  ker : ∀ v, Solves n (conc k (fnM st)) (fun _ => 0) v ↔ Solves n A (fun _ => 0) v
  diag : ∀ i, i < k → st.m.get i i ≠ 0

theorem partialPivot_inv {n : ℕ} {A : ℕ → ℕ → K} {b : ℕ → K} {k : ℕ} {st : St K} (hk : k < n)
    (h : Inv n A b k st) : Inv n A b k (partialPivot st n k) := by
  have hrange := pivotSearch_range st.m st.s n k
  unfold partialPivot
  dsimp only
  split
  · exact h
  · rename_i hpk
    obtain ⟨s1, s2, s3, s4⟩ := h.shape
    have hp : k < (pivotSearch st.m st.s n k).1 ∧ (pivotSearch st.m st.s n k).1 < n := by
      rcases hrange with h' | h'
      · exact absurd h' hpk
      · exact h'
    generalize (pivotSearch st.m st.s n k).1 = p at hp hpk
    have hMsw : ∀ i j, i < n → j < n →
        (st.m.swapRows p k).get i j = st.m.get (sw p k i) j := by
      intro i j hi hj
      rw [get_swapRows st.m p k (by omega) (by omega)]
      unfold sw
      split
      · rfl
      · split <;> rfl
    refine ⟨?_, ?_, ?_, ?_⟩
    · exact ⟨by simp [Mat.swapRows, s1], by simp [Mat.swapRows, s2], by rw [vswap_size, s3],
        by rw [vswap_size, s4]⟩
    · intro x
      rw [← h.sol x]
      apply swap_preserves n k p hp.1 hp.2
      · exact hMsw
      · intro i hi
        show vget (vswap st.r p k) i = vget st.r (sw p k i)
        rw [vget_vswap st.r p k (by omega)]
        unfold sw
        split
        · rfl
        · split <;> rfl
    · intro v
      rw [← h.ker v]
      apply swap_preserves n k p hp.1 hp.2
      · exact hMsw
      · intro i _; rfl
    · intro i hi
      show (st.m.swapRows p k).get i i ≠ 0
      rw [get_swapRows st.m p k (by omega) (by omega), if_neg (by omega), if_neg (by omega)]
      exact h.diag i hi

theorem elimStep_inv {n : ℕ} {A : ℕ → ℕ → K} {b : ℕ → K} {k : ℕ} {st : St K} (hk : k < n)
    (hp : st.m.get k k ≠ 0) (h : Inv n A b k st) : Inv n A b (k + 1) (elimStep st n k) := by
  have hMe : ∀ i j, i < n → j < n →
      conc (k + 1) (fnM (elimStep st n k)) i j = conc (k + 1) (elimA k (fnM st)) i j := by
    intro i j hi hj
    unfold conc
    have e : fnM (elimStep st n k) i j = elimA k (fnM st) i j := by
      show (elimStep st n k).m.get i j = _
      unfold elimStep
      dsimp only
      rw [Mat.get_tab _ hi hj]
      rfl
    rw [e]
  refine ⟨elimStep_shape k h.shape, ?_, ?_, ?_⟩
  · intro x
    rw [← h.sol x, elim_preserves n k hk (fnM st) (fnR st) x hp]
    apply Solves_congr
    · exact hMe
    · intro i hi
      show vget (elimStep st n k).r i = _
      unfold elimStep
      dsimp only
      rw [vget_vtab _ hi]
      rfl
  · intro v
    rw [← h.ker v, elim_preserves n k hk (fnM st) (fun _ => 0) v hp]
    apply Solves_congr
    · exact hMe
    · intro i _
      unfold elimB
      split <;> simp
  · intro i hi
    show (elimStep st n k).m.get i i ≠ 0
    unfold elimStep
    dsimp only
    rw [Mat.get_tab _ (by omega) (by omega), if_neg (by omega)]
    by_cases hik : i = k
    · rw [hik]; exact hp
    · exact h.diag i (by omega)

/-- before the first step the conceptual system is the system itself -/
theorem inv_init {n : ℕ} {st : St K} (hs : Shape n st) : Inv n (fnM st) (fnR st) 0 st := by
  refine ⟨hs, ?_, ?_, fun i hi => absurd hi (Nat.not_lt_zero _)⟩
  · intro x
    apply Solves_congr
    · intro i j _ _; simp [conc]
    · intro i _; rfl
  · intro x
    apply Solves_congr
    · intro i j _ _; simp [conc]
    · intro i _; rfl

/-- the state `forward_elimination` hands to back substitution (when it does not flag): the
conceptual upper-triangular system is equivalent to the original one and all pivots are non-zero -/
theorem forwardElim_inv {n : ℕ} {tol : K} (htol : 0 < tol) (hn : 0 < n) {st st' : St K}
    (hs : Shape n st) (hfe : forwardElim tol n st = some st') :
    Shape n st' ∧
      (∀ x, Solves n (conc (n - 1) (fnM st')) (fnR st') x ↔ Solves n (fnM st) (fnR st) x) ∧
      ∀ i, i < n → st'.m.get i i ≠ 0 := by
  have h0 : Inv n (fnM st) (fnR st) 0 st := inv_init hs
  unfold forwardElim at hfe
  split at hfe
  · cases hfe
  · rename_i st1 hloop
    split at hfe
    · cases hfe
    · rename_i hlast
      simp only [Option.some.injEq] at hfe
      subst hfe
      have hInv : Inv n (fnM st) (fnR st) (0 + (n - 1)) st1 :=
        feLoop_ind tol n (n - 1) (fun k s => Inv n (fnM st) (fnR st) k s)
          (fun k s hk hI hsm =>
            elimStep_inv (by omega) (pivot_ne_zero htol hsm) (partialPivot_inv (by omega) hI))
          (n - 1) 0 st st1 (by omega) h0 hloop
      rw [Nat.zero_add] at hInv
      refine ⟨hInv.shape, hInv.sol, ?_⟩
      intro i hi
      by_cases hil : i < n - 1
      · exact hInv.diag i hil
      · have : i = n - 1 := by omega
        rw [this]
        exact pivot_ne_zero htol (by simpa using hlast)

/-- on `[0,n)²` the conceptual matrix after `n-1` steps is the upper-triangular part -/
theorem conc_last {n : ℕ} (M : ℕ → ℕ → K) {i j : ℕ} (hi : i < n) :
    conc (n - 1) M i j = if j < i then 0 else M i j := by
  unfold conc
  by_cases h : j < i
  · have : j < n - 1 := by omega
    simp [h, this]
  · simp [h]

/-- a row of the conceptual matrix after `n-1` steps against a vector: the diagonal term plus the
strictly upper part — exactly what back substitution solves -/
theorem upper_sum {n : ℕ} (M : ℕ → ℕ → K) (x : ℕ → K) {i : ℕ} (hi : i < n) :
    ∑ j ∈ range n, conc (n - 1) M i j * x j
      = M i i * x i + ∑ j ∈ Ico (i + 1) n, M i j * x j := by
  rw [Subst.sum_range_split n i hi]
  have e1 : ∑ j ∈ range i, conc (n - 1) M i j * x j = 0 := by
    apply Finset.sum_eq_zero
    intro j hj
    rw [conc_last M hi, if_pos (by simpa using hj), zero_mul]
  have e2 : ∑ j ∈ Ico (i + 1) n, conc (n - 1) M i j * x j = ∑ j ∈ Ico (i + 1) n, M i j * x j := by
    apply Finset.sum_congr rfl
    intro j hj
    rw [Finset.mem_Ico] at hj
    rw [conc_last M hi, if_neg (by omega)]
  rw [e1, e2, conc_last M hi, if_neg (lt_irrefl i), zero_add]


/-- what a successful run provides: the final state, equivalent to the original system, with
non-zero pivots, and the rows back substitution solved -/
theorem gauss_ok_facts {A : Mat K} {b : Array K} {tol : K} {x : Array K} (htol : 0 < tol)
    (h : gaussSolve A b tol = .ok x) :
    x.size = A.h ∧ ∃ st : St K,
      (∀ y, Solves A.h (conc (A.h - 1) (fnM st)) (fnR st) y ↔
        Solves A.h (fun i j => A.get i j) (fun i => vget b i) y) ∧
      (∀ i, i < A.h → st.m.get i i ≠ 0) ∧
      Solves A.h (conc (A.h - 1) (fnM st)) (fnR st) (fun i => vget x i) := by
  obtain ⟨h1, h2, h3, st, hfe, hbs⟩ := gaussSolve_ok h
  have hn : 0 < A.h := Nat.pos_of_ne_zero h3
  obtain ⟨_, hsol, hdiag⟩ :=
    forwardElim_inv htol hn (st := { m := A, r := b, s := vtab A.h (rowScale A A.h) })
      ⟨rfl, h1.symm, h2.symm, by simp⟩ hfe
  obtain ⟨⟨h0, _, _, _, h4⟩, hxe⟩ := (Subst.backSubst_ok_iff st.m A.h st.r _ x).mp hbs
  obtain ⟨hsize, hrows, _⟩ := Subst.backCore_rows st.m A.h st.r _ h0 h4 hdiag
  rw [← hxe] at hsize hrows
  refine ⟨by simpa using hsize, st, hsol, hdiag, ?_⟩
  intro i hi
  rw [upper_sum (fnM st) (fun i => vget x i) hi]
  exact hrows i hi


/-! ### regular matrices are accepted (for every tolerance below the smallest scaled pivot) -/

/-- all scale entries are non-zero (what `gaussian_elimination` checks before eliminating) -/
def ScaleNZ (n : ℕ) (st : St K) : Prop := ∀ i, i < n → vget st.s i ≠ 0

/-- entries of the state after `partial_pivot`: rows `p` and `k` exchanged (`p` = the row found) -/
theorem partialPivot_get {n k : ℕ} {st : St K} (hs : Shape n st) {i j : ℕ} (hi : i < n)
    (hj : j < n) :
    (partialPivot st n k).m.get i j = st.m.get (sw (pivotSearch st.m st.s n k).1 k i) j ∧
    vget (partialPivot st n k).s i = vget st.s (sw (pivotSearch st.m st.s n k).1 k i) := by
  obtain ⟨s1, s2, _, s4⟩ := hs
  unfold partialPivot
  dsimp only
  split
  · rename_i hpk
    rw [hpk]
    have : sw k k i = i := by unfold sw; split <;> simp_all
    rw [this]
    exact ⟨rfl, rfl⟩
  · generalize (pivotSearch st.m st.s n k).1 = p
    constructor
    · show (st.m.swapRows p k).get i j = _
      rw [get_swapRows st.m p k (by omega) (by omega)]
      unfold sw
      split
      · rfl
      · split <;> rfl
    · show vget (vswap st.s p k) i = _
      rw [vget_vswap st.s p k (by omega)]
      unfold sw
      split
      · rfl
      · split <;> rfl

theorem partialPivot_scaleNZ {n k : ℕ} {st : St K} (hs : Shape n st) (hk : k < n)
    (h : ScaleNZ n st) : ScaleNZ n (partialPivot st n k) := by
  intro i hi
  rw [(partialPivot_get hs hi hi).2]
  apply h
  have hr := pivotSearch_range st.m st.s n k
  apply sw_lt _ hk hi
  omega

theorem elimStep_scaleNZ {n k : ℕ} {st : St K} (h : ScaleNZ n st) : ScaleNZ n (elimStep st n k) :=
  h

/-- the search returns a row whose scaled entry is the largest of column `k` from row `k` down -/
theorem pivotSearch_max (M : Mat K) (s : Array K) (n k : ℕ) :
    (pivotSearch M s n k).2
        = sabs (M.get (pivotSearch M s n k).1 k / vget s (pivotSearch M s n k).1) ∧
      ∀ i, k ≤ i → i < n → sabs (M.get i k / vget s i) ≤ (pivotSearch M s n k).2 := by
  unfold pivotSearch
  have key : ∀ len : ℕ,
      ((List.range' (k + 1) len).foldl
        (fun (pb : ℕ × K) ii =>
          let temp := sabs (M.get ii k / vget s ii)
          if pb.2 < temp then (ii, temp) else pb)
        (k, sabs (M.get k k / vget s k))).2
        = sabs (M.get ((List.range' (k + 1) len).foldl
            (fun (pb : ℕ × K) ii =>
              let temp := sabs (M.get ii k / vget s ii)
              if pb.2 < temp then (ii, temp) else pb)
            (k, sabs (M.get k k / vget s k))).1 k
          / vget s ((List.range' (k + 1) len).foldl
            (fun (pb : ℕ × K) ii =>
              let temp := sabs (M.get ii k / vget s ii)
              if pb.2 < temp then (ii, temp) else pb)
            (k, sabs (M.get k k / vget s k))).1) ∧
      ∀ i, k ≤ i → i < k + 1 + len → sabs (M.get i k / vget s i) ≤
        ((List.range' (k + 1) len).foldl
          (fun (pb : ℕ × K) ii =>
            let temp := sabs (M.get ii k / vget s ii)
            if pb.2 < temp then (ii, temp) else pb)
          (k, sabs (M.get k k / vget s k))).2 := by
    intro len
    induction len with
    | zero =>
      refine ⟨rfl, ?_⟩
      intro i h1 h2
      have : i = k := by omega
      subst this
      exact le_refl _
    | succ len ih =>
      rw [List.range'_1_concat, List.foldl_append]
      generalize (List.range' (k + 1) len).foldl
          (fun (pb : ℕ × K) ii =>
            let temp := sabs (M.get ii k / vget s ii)
            if pb.2 < temp then (ii, temp) else pb)
          (k, sabs (M.get k k / vget s k)) = pb at ih
      obtain ⟨ih1, ih2⟩ := ih
      simp only [List.foldl_cons, List.foldl_nil]
      split
      · rename_i hlt
        refine ⟨rfl, ?_⟩
        intro i h1 h2
        by_cases hi : i = k + 1 + len
        · rw [hi]
        · exact le_trans (ih2 i h1 (by omega)) (le_of_lt hlt)
      · rename_i hlt
        refine ⟨ih1, ?_⟩
        intro i h1 h2
        by_cases hi : i = k + 1 + len
        · rw [hi]; exact not_lt.mp hlt
        · exact ih2 i h1 (by omega)
  obtain ⟨h1, h2⟩ := key (n - (k + 1))
  exact ⟨h1, fun i hi1 hi2 => h2 i hi1 (by omega)⟩

/-- a zero pivot after the search (with non-zero scales) means the whole column is zero from row `k` down -/
theorem pivot_zero_col {n k : ℕ} {st : St K} (hs : Shape n st) (hk : k < n) (hsc : ScaleNZ n st)
    (h0 : (partialPivot st n k).m.get k k = 0) : ∀ i, k ≤ i → i < n → st.m.get i k = 0 := by
  have hpk : sw (pivotSearch st.m st.s n k).1 k k = (pivotSearch st.m st.s n k).1 := by
    unfold sw; split
    · rename_i h; exact h
    · simp
  rw [(partialPivot_get hs hk hk).1, hpk] at h0
  obtain ⟨hbig, hmax⟩ := pivotSearch_max st.m st.s n k
  rw [h0, zero_div, sabs_eq_abs, abs_zero] at hbig
  intro i hi1 hi2
  have := hmax i hi1 hi2
  rw [hbig, sabs_eq_abs, abs_nonpos_iff, div_eq_zero_iff] at this
  rcases this with h | h
  · exact h
  · exact absurd h (hsc i hi2)

/-- an upper-triangular system with non-zero diagonal has a solution (the one back substitution computes) -/
theorem upper_exists (U : ℕ → ℕ → K) (m : ℕ) (c : ℕ → K) (hd : ∀ i, i < m → U i i ≠ 0) :
    ∃ w : ℕ → K, ∀ i, i < m → U i i * w i + ∑ j ∈ Ico (i + 1) m, U i j * w j = c i := by
  rcases Nat.eq_zero_or_pos m with h0 | hpos
  · exact ⟨fun _ => 0, fun i hi => by omega⟩
  · have hT : ∀ i j, i < m → j < m → (Mat.tab m m U).get i j = U i j :=
      fun i j hi hj => Mat.get_tab U hi hj
    obtain ⟨_, hrows, _⟩ := Subst.backCore_rows (Mat.tab m m U) m (vtab m c) (vtab m fun _ => 0) hpos
      (by simp) (fun i hi => by rw [hT i i hi hi]; exact hd i hi)
    refine ⟨fun i => vget (Subst.backCore (Mat.tab m m U) m (vtab m c) (vtab m fun _ => 0)) i, ?_⟩
    intro i hi
    have := hrows i hi
    unfold Subst.BackRow at this
    rw [hT i i hi hi, vget_vtab _ hi] at this
    rw [← this]
    congr 1
    apply Finset.sum_congr rfl
    intro j hj
    rw [Finset.mem_Ico] at hj
    rw [hT i j hi hj.2]

/-- if column `k` of the state after `k` steps is zero from the diagonal down, the original matrix
has a kernel vector with `k`-th component 1 -/
theorem col_zero_kernel {n k : ℕ} {A : ℕ → ℕ → K} {b : ℕ → K} {st : St K} (hI : Inv n A b k st)
    (hk : k < n) (hcol : ∀ i, k ≤ i → i < n → st.m.get i k = 0) :
    ∃ v : ℕ → K, v k = 1 ∧ Solves n A (fun _ => 0) v := by
  obtain ⟨w, hw⟩ := upper_exists (fnM st) k (fun i => - st.m.get i k) hI.diag
  let v : ℕ → K := fun j => if j < k then w j else if j = k then 1 else 0
  have hvk : v k = 1 := by simp [v]
  have hvlt : ∀ j, j < k → v j = w j := by intro j hj; simp [v, hj]
  have hvgt : ∀ j, k < j → v j = 0 := by
    intro j hj
    have h1 : ¬ j < k := by omega
    have h2 : j ≠ k := by omega
    simp [v, h1, h2]
  refine ⟨v, hvk, (hI.ker v).mp ?_⟩
  intro i hi
  rw [Subst.sum_range_split n k hk]
  have e3 : ∑ j ∈ Ico (k + 1) n, conc k (fnM st) i j * v j = 0 := by
    apply Finset.sum_eq_zero
    intro j hj
    rw [Finset.mem_Ico] at hj
    rw [hvgt j (by omega), mul_zero]
  have e2 : conc k (fnM st) i k = st.m.get i k := by
    unfold conc; rw [if_neg (by omega)]; rfl
  rw [e3, add_zero, hvk, mul_one, e2]
  by_cases hik : i < k
  · -- a finished row: the triangular system
    have e1 : ∑ j ∈ range k, conc k (fnM st) i j * v j
        = fnM st i i * w i + ∑ j ∈ Ico (i + 1) k, fnM st i j * w j := by
      rw [Subst.sum_range_split k i hik]
      have z : ∑ j ∈ range i, conc k (fnM st) i j * v j = 0 := by
        apply Finset.sum_eq_zero
        intro j hj
        rw [Finset.mem_range] at hj
        unfold conc
        rw [if_pos ⟨by omega, hj⟩, zero_mul]
      have d : conc k (fnM st) i i = fnM st i i := by
        unfold conc; rw [if_neg (by omega)]
      have u : ∑ j ∈ Ico (i + 1) k, conc k (fnM st) i j * v j
          = ∑ j ∈ Ico (i + 1) k, fnM st i j * w j := by
        apply Finset.sum_congr rfl
        intro j hj
        rw [Finset.mem_Ico] at hj
        unfold conc
        rw [if_neg (by omega), hvlt j hj.2]
      rw [z, zero_add, d, u, hvlt i hik]
    rw [e1, hw i hik]
    simp
  · -- an unfinished row: zeros left of column k, zero in column k
    have e1 : ∑ j ∈ range k, conc k (fnM st) i j * v j = 0 := by
      apply Finset.sum_eq_zero
      intro j hj
      rw [Finset.mem_range] at hj
      unfold conc
      rw [if_pos ⟨hj, by omega⟩, zero_mul]
    rw [e1, zero_add, hcol i (by omega) hi]

/-- `det ≠ 0`: the kernel is trivial -/
theorem kernel_trivial_of_det_ne_zero (A : Mat K) (n : ℕ) (hdet : (A.toMatrix n n).det ≠ 0)
    (v : ℕ → K) (hv : Solves n (fun i j => A.get i j) (fun _ => 0) v) : ∀ i, i < n → v i = 0 := by
  intro i hi
  by_contra hne
  apply hdet
  apply Matrix.exists_mulVec_eq_zero_iff.mp
  refine ⟨fun j => v j.val, ?_, ?_⟩
  · intro h
    exact hne (congrFun h ⟨i, hi⟩)
  · funext r
    simp only [Matrix.mulVec, dotProduct, Mat.toMatrix, Pi.zero_apply]
    have := hv r.val r.isLt
    rw [Finset.sum_range] at this
    exact this

/-- the scale of a row bounds every entry of the row -/
theorem rowScale_ge (A : Mat K) (n i : ℕ) : ∀ j, j < n → sabs (A.get i j) ≤ rowScale A n i := by
  unfold rowScale
  have key : ∀ len : ℕ, ∀ j, j < 1 + len → sabs (A.get i j) ≤
      (List.range' 1 len).foldl
        (fun sc j => if sc < sabs (A.get i j) then sabs (A.get i j) else sc) (sabs (A.get i 0)) := by
    intro len
    induction len with
    | zero =>
      intro j hj
      have : j = 0 := by omega
      subst this
      exact le_refl _
    | succ len ih =>
      intro j hj
      rw [List.range'_1_concat, List.foldl_append]
      simp only [List.foldl_cons, List.foldl_nil]
      split
      · rename_i hlt
        by_cases hjl : j = 1 + len
        · rw [hjl]
        · exact le_trans (ih j (by omega)) (le_of_lt hlt)
      · rename_i hlt
        by_cases hjl : j = 1 + len
        · rw [hjl]; exact not_lt.mp hlt
        · exact ih j (by omega)
  intro j hj
  exact key (n - 1) j (by omega)

theorem rowScale_ne_zero (A : Mat K) (n : ℕ) (hdet : (A.toMatrix n n).det ≠ 0) {i : ℕ}
    (hi : i < n) : rowScale A n i ≠ 0 := by
  intro h0
  apply hdet
  apply Matrix.det_eq_zero_of_row_eq_zero ⟨i, hi⟩
  intro j
  have := rowScale_ge A n i j.val j.isLt
  rw [h0, sabs_eq_abs, abs_nonpos_iff] at this
  exact this

/-- the states of the elimination when no step is flagged -/
def iter (n : ℕ) (st : St K) : ℕ → St K
  | 0 => st
  | k + 1 => elimStep (partialPivot (iter n st k) n k) n k

/-- the scaled pivot of step `k` -/
def rho (n : ℕ) (st : St K) (k : ℕ) : K :=
  sabs ((partialPivot (iter n st k) n k).m.get k k / vget (partialPivot (iter n st k) n k).s k)

theorem partialPivot_last {n k : ℕ} (st : St K) (hk : n ≤ k + 1) : partialPivot st n k = st := by
  have hr := pivotSearch_range st.m st.s n k
  unfold partialPivot
  dsimp only
  rw [if_pos (by omega)]

/-- with a tolerance below all scaled pivots the loop runs through the unflagged states -/
theorem feLoop_iter (tol : K) (n : ℕ) (st : St K) :
    ∀ t k, (∀ j, k ≤ j → j < k + t → tol ≤ rho n st j) →
      feLoop tol n t k (iter n st k) = some (iter n st (k + t)) := by
  intro t
  induction t with
  | zero => intro k _; rfl
  | succ t ih =>
    intro k h
    simp only [feLoop]
    have hk : pivotSmall (partialPivot (iter n st k) n k) tol k = false := by
      unfold pivotSmall
      have := h k (le_refl k) (by omega)
      unfold rho at this
      simpa using this
    rw [hk]
    have := ih (k + 1) (fun j h1 h2 => h j (by omega) (by omega))
    have e : k + 1 + t = k + (t + 1) := by omega
    rw [e] at this
    simpa [iter] using this

/-- on a regular matrix every unflagged state satisfies the invariant and every scaled pivot is positive -/
theorem regular_run (A : Mat K) (n : ℕ) (hdet : (A.toMatrix n n).det ≠ 0) (st : St K)
    (hm : st.m = A) (hs : Shape n st) (hsc : ScaleNZ n st) :
    ∀ k, k < n → Inv n (fnM st) (fnR st) k (iter n st k) ∧ ScaleNZ n (iter n st k) ∧
      0 < rho n st k := by
  have hpiv : ∀ k, k < n → Inv n (fnM st) (fnR st) k (iter n st k) → ScaleNZ n (iter n st k) →
      (partialPivot (iter n st k) n k).m.get k k ≠ 0 := by
    intro k hk hI hS h0
    obtain ⟨v, hvk, hv⟩ := col_zero_kernel hI hk (pivot_zero_col hI.shape hk hS h0)
    have hA : fnM st = fun i j => A.get i j := by rw [← hm]; rfl
    rw [hA] at hv
    have := kernel_trivial_of_det_ne_zero A n hdet v hv k hk
    rw [hvk] at this
    exact one_ne_zero this
  have hrho : ∀ k, k < n → Inv n (fnM st) (fnR st) k (iter n st k) → ScaleNZ n (iter n st k) →
      0 < rho n st k := by
    intro k hk hI hS
    unfold rho
    rw [sabs_eq_abs, abs_pos]
    exact div_ne_zero (hpiv k hk hI hS) (partialPivot_scaleNZ hI.shape hk hS k hk)
  intro k
  induction k with
  | zero =>
    intro hk
    exact ⟨inv_init hs, hsc, hrho 0 hk (inv_init hs) hsc⟩
  | succ k ih =>
    intro hk
    obtain ⟨hI, hS, _⟩ := ih (by omega)
    have hI' : Inv n (fnM st) (fnR st) (k + 1) (iter n st (k + 1)) :=
      elimStep_inv (by omega) (hpiv k (by omega) hI hS) (partialPivot_inv (by omega) hI)
    have hS' : ScaleNZ n (iter n st (k + 1)) :=
      elimStep_scaleNZ (partialPivot_scaleNZ hI.shape (by omega) hS)
    exact ⟨hI', hS', hrho (k + 1) hk hI' hS'⟩

/-- finitely many positive numbers have a positive lower bound -/
theorem exists_pos_le (n : ℕ) (f : ℕ → K) (h : ∀ k, k < n → 0 < f k) :
    ∃ τ, 0 < τ ∧ ∀ k, k < n → τ ≤ f k := by
  induction n with
  | zero => exact ⟨1, one_pos, fun k hk => by omega⟩
  | succ n ih =>
    obtain ⟨τ, hτ, hle⟩ := ih (fun k hk => h k (by omega))
    refine ⟨min τ (f n), lt_min hτ (h n (by omega)), ?_⟩
    intro k hk
    by_cases hkn : k = n
    · rw [hkn]; exact min_le_right _ _
    · exact le_trans (min_le_left _ _) (hle k (by omega))

/-- a regular matrix is not flagged by `forward_elimination` when the tolerance is at most the
smallest scaled pivot -/
theorem forwardElim_regular (A : Mat K) (n : ℕ) (hn : 0 < n) (hdet : (A.toMatrix n n).det ≠ 0)
    (st : St K) (hm : st.m = A) (hs : Shape n st) (hsc : ScaleNZ n st) :
    ∃ τ, 0 < τ ∧ ∀ tol, tol ≤ τ → forwardElim tol n st = some (iter n st (n - 1)) := by
  have hrun := regular_run A n hdet st hm hs hsc
  obtain ⟨τ, hτ, hle⟩ := exists_pos_le n (rho n st) (fun k hk => (hrun k hk).2.2)
  refine ⟨τ, hτ, ?_⟩
  intro tol htol
  unfold forwardElim
  have hloop := feLoop_iter tol n st (n - 1) 0
    (fun j _ h2 => le_trans htol (hle j (by omega)))
  rw [Nat.zero_add] at hloop
  have e0 : iter n st 0 = st := rfl
  rw [e0] at hloop
  rw [hloop]
  dsimp only
  have hlast : pivotSmall (iter n st (n - 1)) tol (n - 1) = false := by
    have h1 := le_trans htol (hle (n - 1) (by omega))
    unfold rho at h1
    rw [partialPivot_last (iter n st (n - 1)) (by omega)] at h1
    unfold pivotSmall
    simpa using h1
  rw [hlast]
  rfl

/-- a run that is not flagged, on non-zero scales, ends in `Ok` -/
theorem gaussSolve_of_forwardElim (A : Mat K) (b : Array K) (tol : K) (st : St K)
    (h1 : A.h = A.w) (h2 : A.h = b.size) (h3 : A.h ≠ 0)
    (hsc : ∀ i, i < A.h → rowScale A A.h i ≠ 0)
    (hfe : forwardElim tol A.h { m := A, r := b, s := vtab A.h (rowScale A A.h) } = some st) :
    ∃ x, gaussSolve A b tol = .ok x := by
  rcases gaussSolve_cases A b tol h1 h2 h3 with h | h
  · exfalso
    unfold gaussSolve at h
    rw [if_neg (by simpa using h1), if_neg (by simpa using h2), if_neg h3] at h
    dsimp only at h
    have hany : ¬ ((List.range A.h).any
        (fun i => vget (vtab A.h (rowScale A A.h)) i == 0) = true) := by
      rw [Bool.not_eq_true, List.any_eq_false]
      intro i hi
      rw [List.mem_range] at hi
      rw [vget_vtab _ hi]
      simpa using hsc i hi
    rw [if_neg hany, hfe] at h
    dsimp only at h
    split at h <;> cases h
  · exact h

end field
end SV.Gauss
