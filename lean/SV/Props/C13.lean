import SV.Model.C13
import SV.Lemmas.C13
import Mathlib.Data.Matrix.Mul
import Mathlib.Tactic.LinearCombination
import Mathlib.Data.Real.Basic
/-!
# C13 — the power method returns, never panics, and returns a normalised Rayleigh pair

Property theorems only (helper lemmas: `SV.Lemmas.C13`), about `SV.C13.power`/`powerCap`/`loop`/
`pass`/`rayleigh`/`maxOf` — the generic definitions the driver runs at `Float` and compares bit for bit
with `power_method` on every run of the check.  `power = powerCap SV.Gen.powerMethodCap`, where the
cap is re-read from the source (`MAX_ITERATIONS`) on every run; every theorem is for an arbitrary
cap, so a change of the constant cannot break them.

What is proved: termination and totality for every input and *every scalar type* (so also for the
`Float` instance: no algebraic law is used), the shape/normalisation/Rayleigh/stopping facts of a
returned pair over every linearly ordered field, and the algebraic residual identity.
The analytic accuracy clause is stated here as `PowerAccuracy` (a `def … : Prop`, kept as the fixed
statement) and **proved** in `SV.Props.C13Accuracy.power_accuracy` (exact real arithmetic; with
sharper constants in `power_accuracy_sharp`); rounding is outside that theorem and rests on the
oracle of the check on symmetric `Q D Qᵀ` inputs.
-/
set_option linter.unusedSectionVars false

namespace SV.Props.C13
open SV SV.C11 SV.C13 Finset Matrix

/-! ### totality — any scalar type -/
section total
variable {S : Type} [Inhabited S] [Add S] [Sub S] [Mul S] [Div S] [Neg S] [OfNat S 0] [OfNat S 1]
  [LT S] [DecidableRel (α := S) (· < ·)] [BEq S]

/-- **Every product of the loop is conforming and the scalar extraction sees a 1×1 array**: for a
well-formed `n × n` matrix and an `n × 1` iterate, `A·x` succeeds as a checked product and is
`n × 1`; `xᵀ·(A·x)` and `xᵀ·x` succeed and are `1 × 1` (so `as_scalar_unchecked` reads a present
element); hence the `*` operator never falls back to the empty array. -/
theorem power_products_conform (n : Nat) (A x : Mat S) (hA : A.h = n ∧ A.w = n ∧ A.WF)
    (hx : x.h = n ∧ x.w = 1 ∧ x.WF) :
    (∃ ax, dot A x = .ok ax ∧ ax.h = n ∧ ax.w = 1 ∧ ax.WF) ∧
    (∃ num, dot x.transpose (mulOp A x) = .ok num ∧ num.h = 1 ∧ num.w = 1 ∧ num.WF) ∧
    (∃ den, dot x.transpose x = .ok den ∧ den.h = 1 ∧ den.w = 1 ∧ den.WF) :=
  rayleigh_shapes n A x hA hx

/-- **Totality.**  For every well-formed input and every cap:
non-square and empty input is `NonSquareMatrix`; a square input of size `n ≥ 1` gives either
`Ok` — from a pass `2 ≤ p ≤ cap` (the first pass is never a stopping pass), with an `n × 1`
eigenvector — or `NoConvergence`; the panic outcome (an `unwrap` of `max()` on an empty array, an
index panic in `as_scalar_unchecked`) is unreachable.  The cap bounds the number of passes, so
the call cannot spin forever.  No algebraic law is used: this holds for every scalar type with
the operations of the model, in particular for the `Float` instance the driver runs. -/
theorem powerCap_total (cap : Nat) (A : Mat S) (es : S) (hA : A.WF) :
    (A.h ≠ A.w ∨ A.h = 0 ∨ A.w = 0 → powerCap cap A es = .err .nonSquare) ∧
    (A.h = A.w → 0 < A.h →
      (∃ lam v p, powerCap cap A es = .ok (lam, v, p) ∧ v.h = A.h ∧ v.w = 1 ∧ v.WF ∧
          2 ≤ p ∧ p ≤ cap) ∨ powerCap cap A es = .err .noConvergence) ∧
    powerCap cap A es ≠ .panic := by
  have hbad : A.h ≠ A.w ∨ A.h = 0 ∨ A.w = 0 → powerCap cap A es = .err .nonSquare := by
    intro h; unfold powerCap; rw [if_pos h]
  have hgood : A.h = A.w → 0 < A.h →
      (∃ lam v p, powerCap cap A es = .ok (lam, v, p) ∧ v.h = A.h ∧ v.w = 1 ∧ v.WF ∧
          2 ≤ p ∧ p ≤ cap) ∨ powerCap cap A es = .err .noConvergence := by
    intro hsq hpos
    have hSq : Square A.h A := ⟨rfl, hsq.symm, hA⟩
    obtain ⟨_, h1, w1, f1⟩ := mulOp_conform A (ones A.h) (by rw [← hsq]; rfl)
    obtain ⟨lam0, hl⟩ := normaliser_some (mulOp A (ones A.h)) f1 (by rw [h1]; exact hpos)
      (by rw [w1]; exact Nat.one_pos)
    have hev : ColVec A.h (divS (mulOp A (ones A.h)) lam0) :=
      divS_colVec _ _ _ ⟨h1, w1, f1⟩
    unfold powerCap
    rw [if_neg (by omega)]
    simp only [hl]
    by_cases hz : (lam0 == 0) = true
    · rw [if_pos hz]; right; rfl
    rw [if_neg hz]
    rcases loop_total A.h hpos A es hSq cap 0 _ lam0 hev with ⟨l, v, p, hp, hv, _, h2, h3⟩ | hn
    · left; exact ⟨l, v, p, hp, hv.1, hv.2.1, hv.2.2, h3, by omega⟩
    · right; exact hn
  refine ⟨hbad, hgood, ?_⟩
  by_cases hb : A.h ≠ A.w ∨ A.h = 0 ∨ A.w = 0
  · rw [hbad hb]; intro h; cases h
  · have hsq : A.h = A.w := by
      by_contra hne; exact hb (Or.inl hne)
    rcases hgood hsq (by omega) with ⟨l, v, p, hp, _⟩ | hn
    · rw [hp]; intro h; cases h
    · rw [hn]; intro h; cases h

/-- `power_total`: the same for `power_method` itself, i.e. with the cap the source declares -/
theorem power_total (A : Mat S) (es : S) (hA : A.WF) :
    (A.h ≠ A.w ∨ A.h = 0 ∨ A.w = 0 → power A es = .err .nonSquare) ∧
    (A.h = A.w → 0 < A.h →
      (∃ lam v p, power A es = .ok (lam, v, p) ∧ v.h = A.h ∧ v.w = 1 ∧ v.WF ∧
          2 ≤ p ∧ p ≤ SV.Gen.powerMethodCap) ∨ power A es = .err .noConvergence) ∧
    power A es ≠ .panic :=
  powerCap_total SV.Gen.powerMethodCap A es hA

end total

/-- non-vacuity / sanity, evaluated by the kernel: over `ℤ` (truncating division — totality needs no
field) a 2×2 matrix that returns from pass 2, the zero matrix (normaliser 0 ⇒ `NoConvergence`), a
matrix that runs into the cap; over `ℚ` a 1×1 matrix; a non-square and an empty input -/
example : (match powerCap 50 (⟨2, 2, #[2, 0, 0, 1]⟩ : Mat Int) 1 with
    | .ok (lam, v, p) => lam == 2 && v.a == #[1, 0] && p == 2 | _ => false) = true := by decide
example : (match powerCap 50 (⟨2, 2, #[0, 0, 0, 0]⟩ : Mat Int) 1 with
    | .err .noConvergence => true | _ => false) = true := by decide
example : (match powerCap 8 (⟨2, 2, #[0, 1, -1, 0]⟩ : Mat Int) 1 with
    | .err .noConvergence => true | _ => false) = true := by decide
example : (match powerCap 50 (⟨1, 1, #[2]⟩ : Mat Rat) (1 / 10) with
    | .ok (lam, v, p) => lam == 2 && v.a == #[1] && p == 2 | _ => false) = true := by
  decide +kernel
example : (match powerCap 50 (⟨1, 2, #[1, 2]⟩ : Mat Rat) (1 / 10) with
    | .err .nonSquare => true | _ => false) = true := by decide
example : (match powerCap 50 (⟨0, 0, #[]⟩ : Mat Rat) (1 / 10) with
    | .err .nonSquare => true | _ => false) = true := by decide

/-! ### the returned pair — any linearly ordered field -/
section field
variable {K : Type} [Field K] [LinearOrder K] [IsStrictOrderedRing K] [Inhabited K]

/-- the Rayleigh quotient `xᵀAx / xᵀx` of a column vector, written as sums (specification) -/
def rq (n : Nat) (A x : Mat K) : K :=
  (∑ i ∈ range n, x.get i 0 * ∑ k ∈ range n, A.get i k * x.get k 0)
    / (∑ i ∈ range n, x.get i 0 * x.get i 0)

/-- scaling a vector does not change its Rayleigh quotient -/
theorem rq_scale (n : Nat) (A w : Mat K) (c : K) (hc : c ≠ 0) (hw : w.h = n ∧ w.w = 1) :
    rq n A (divS w c) = rq n A w := by
  have hg : ∀ i, i < n → (divS w c).get i 0 = w.get i 0 / c := fun i hi =>
    Mat.get_tab _ (by rw [hw.1]; exact hi) (by rw [hw.2]; exact Nat.one_pos)
  have hnum : ∑ i ∈ range n, (divS w c).get i 0 * ∑ k ∈ range n, A.get i k * (divS w c).get k 0
      = (∑ i ∈ range n, w.get i 0 * ∑ k ∈ range n, A.get i k * w.get k 0) * (c * c)⁻¹ := by
    rw [Finset.sum_mul]
    apply Finset.sum_congr rfl
    intro i hi
    have hin : ∑ k ∈ range n, A.get i k * (divS w c).get k 0
        = (∑ k ∈ range n, A.get i k * w.get k 0) * c⁻¹ := by
      rw [Finset.sum_mul]
      apply Finset.sum_congr rfl
      intro k hk
      rw [hg k (Finset.mem_range.mp hk), div_eq_mul_inv, mul_assoc]
    rw [hg i (Finset.mem_range.mp hi), hin, div_eq_mul_inv, mul_inv]
    ring
  have hden : ∑ i ∈ range n, (divS w c).get i 0 * (divS w c).get i 0
      = (∑ i ∈ range n, w.get i 0 * w.get i 0) * (c * c)⁻¹ := by
    rw [Finset.sum_mul]
    apply Finset.sum_congr rfl
    intro i hi
    rw [hg i (Finset.mem_range.mp hi), div_eq_mul_inv, mul_inv]
    ring
  unfold rq
  rw [hnum, hden, mul_div_mul_right _ _ (inv_ne_zero (mul_ne_zero hc hc))]

/-- **The returned pair.**  If the call returns `Ok (λ, v)` (after `p` passes) then
* `v` is `n × 1`, its largest component is **exactly 1** and every component is `≤ 1`;
* `λ` is the Rayleigh quotient `vᵀAv / vᵀv` of the returned vector, a genuine quotient
  (`vᵀv > 0`), and `λ ≠ 0`;
* `2 ≤ p ≤ cap`;
* there are the previous normalised iterate `x` and the last one `w = (A·x) / normaliser(A·x)` (with
  `normaliser(A·x) ≠ 0`) such that `λ` is also the Rayleigh quotient of `w`, the last relative
  change `|(λ − rq x)/λ| < es` is measured against the Rayleigh quotient of `x` (never against the
  estimate from the start vector, since `p ≥ 2`), `max(w) = 1` already — also when no component
  of `A·x` is positive — and `v = w / 1`: the final renormalisation changes nothing.
(A zero normaliser or a zero eigenvalue estimate never leads to `Ok`: the model's IEEE rules,
see `SV.Model.C13`.  The theorem is for every cap, in particular for `power = powerCap
SV.Gen.powerMethodCap`.) -/
theorem power_result_shape (cap : Nat) (A : Mat K) (es lam : K) (v : Mat K) (p : Nat)
    (hA : A.WF) (h : powerCap cap A es = .ok (lam, v, p)) :
    (v.h = A.h ∧ v.w = 1 ∧ v.WF) ∧ (2 ≤ p ∧ p ≤ cap) ∧
    (∃ i, i < A.h ∧ v.get i 0 = 1) ∧ (∀ i, i < A.h → v.get i 0 ≤ 1) ∧
    lam = rq A.h A v ∧ 0 < ∑ i ∈ range A.h, v.get i 0 * v.get i 0 ∧ lam ≠ 0 ∧
    ∃ (x w : Mat K) (cw : K),
      (x.h = A.h ∧ x.w = 1 ∧ x.WF) ∧
      normaliser (mulOp A x) = some cw ∧ cw ≠ 0 ∧ w = divS (mulOp A x) cw ∧
      lam = rq A.h A w ∧ |(lam - rq A.h A x) / lam| < es ∧
      maxOf w = some 1 ∧ v = divS w 1 := by
  -- the guard must have passed
  have hsq : ¬(A.h ≠ A.w ∨ A.h = 0 ∨ A.w = 0) := by
    intro hb
    rw [(powerCap_total cap A es hA).1 hb] at h
    cases h
  have hw : A.h = A.w := by by_contra hne; exact hsq (Or.inl hne)
  have hpos : 0 < A.h := by omega
  have hSq : Square A.h A := ⟨rfl, hw.symm, hA⟩
  -- shape and pass count from totality
  have htot := (powerCap_total cap A es hA).2.1 hw hpos
  rw [h] at htot
  rcases htot with ⟨l', v', p', e, hv1, hv2, hv3, hp2, hpc⟩ | e
  swap
  · cases e
  cases e
  refine ⟨⟨hv1, hv2, hv3⟩, ⟨hp2, hpc⟩, ?_⟩
  -- open the call up to the loop
  obtain ⟨_, h1, w1, f1⟩ := mulOp_conform A (ones A.h) (by rw [← hw]; rfl)
  obtain ⟨lam0, hl⟩ := normaliser_some (mulOp A (ones A.h)) f1 (by rw [h1]; exact hpos)
    (by rw [w1]; exact Nat.one_pos)
  have hev : ColVec A.h (divS (mulOp A (ones A.h)) lam0) := divS_colVec _ _ _ ⟨h1, w1, f1⟩
  unfold powerCap at h
  rw [if_neg hsq] at h
  simp only [hl] at h
  by_cases hz : (lam0 == 0) = true
  · rw [if_pos hz] at h; cases h
  rw [if_neg hz] at h
  obtain ⟨x, lamPrev, ps, c, hx, hrx, hps, hcw0, hnext0, hea, hc, hlam, hv⟩ :=
    loop_ok A.h hpos A es hSq cap 0 _ lam0 hev (fun h0 => absurd h0 (lt_irrefl 0)) lam v p h
  obtain ⟨hcw, hnv, hrn, heaeq⟩ := pass_spec A x lamPrev ps hps
  have hnvC : ColVec A.h ps.nv := by
    obtain ⟨ps', hps', hC⟩ := pass_some A.h hpos A x lamPrev hSq hx
    rw [hps] at hps'
    cases hps'
    exact hC
  -- values of the two Rayleigh quotients
  have hlp : lamPrev = rq A.h A x := by
    have := rayleigh_value A.h A x hSq hx
    rw [hrx] at this
    exact Option.some.inj this
  have hln : ps.next = rq A.h A ps.nv := by
    have := rayleigh_value A.h A ps.nv hSq hnvC
    rw [hrn] at this
    exact Option.some.inj this
  -- the normalised iterate has an entry equal to 1 and none above 1, so its maximum is 1
  obtain ⟨_, hax1, hax2, hax3⟩ := mulOp_conform A x (by rw [hSq.2.1, hx.1])
  have haxC : ColVec A.h (mulOp A x) := ⟨by rw [hax1], by rw [hax2, hx.2.1], hax3⟩
  obtain ⟨⟨j0, hj0, hj0max⟩, hdiv⟩ := normaliser_col A.h (mulOp A x) haxC ps.c hcw hcw0
  have hwg : ∀ i, i < A.h → ps.nv.get i 0 = (mulOp A x).get i 0 / ps.c := fun i hi => by
    rw [hnv]
    exact Mat.get_tab _ (by rw [haxC.1]; exact hi) (by rw [haxC.2.1]; exact Nat.one_pos)
  have hwj0 : ps.nv.get j0 0 = 1 := by rw [hwg j0 hj0, hj0max, div_self hcw0]
  have hwle : ∀ i, i < A.h → ps.nv.get i 0 ≤ 1 := fun i hi => by rw [hwg i hi]; exact hdiv i hi
  obtain ⟨⟨i0, hi0, hmax⟩, hle⟩ := maxOf_col A.h ps.nv hnvC c hc
  have hc1 : c = 1 := le_antisymm (by rw [← hmax]; exact hwle i0 hi0)
    (by rw [← hwj0]; exact hle j0 hj0)
  subst hc1
  have hg : ∀ i, i < A.h → v.get i 0 = ps.nv.get i 0 := fun i hi => by
    rw [hv]
    show (divS ps.nv 1).get i 0 = ps.nv.get i 0
    unfold divS
    rw [Mat.get_tab _ (by rw [hnvC.1]; exact hi) (by rw [hnvC.2.1]; exact Nat.one_pos), div_one]
  have hvj0 : v.get j0 0 = 1 := by rw [hg j0 hj0, hwj0]
  refine ⟨⟨j0, hj0, hvj0⟩, ?_, ?_, ?_, by rw [hlam]; exact hnext0, ?_⟩
  · intro i hi
    rw [hg i hi]
    exact hwle i hi
  · rw [hv, rq_scale A.h A ps.nv 1 one_ne_zero ⟨hnvC.1, hnvC.2.1⟩, hlam, hln]
  · have h1le : v.get j0 0 * v.get j0 0 ≤ ∑ i ∈ range A.h, v.get i 0 * v.get i 0 :=
      Finset.single_le_sum (f := fun i => v.get i 0 * v.get i 0)
        (fun i _ => mul_self_nonneg _) (Finset.mem_range.mpr hj0)
    rw [hvj0] at h1le
    linarith
  · refine ⟨x, ps.nv, ps.c, hx, hcw, hcw0, hnv, by rw [hlam, hln], ?_, hc, hv⟩
    rw [hlam, ← hlp, ← sabs_eq_abs, ← heaeq]
    exact hea

/-- `rq` is the Rayleigh quotient of Mathlib's `Matrix`/`dotProduct` vocabulary -/
theorem rq_eq_matrix (n : Nat) (A x : Mat K) :
    rq n A x = ((fun i : Fin n => x.get i 0) ⬝ᵥ (A.toMatrix n n) *ᵥ (fun i : Fin n => x.get i 0))
      / ((fun i : Fin n => x.get i 0) ⬝ᵥ (fun i : Fin n => x.get i 0)) := by
  unfold rq dotProduct Matrix.mulVec dotProduct Mat.toMatrix
  rw [Finset.sum_range, Finset.sum_range]
  congr 2
  funext i
  rw [Finset.sum_range]

end field

/-- **Residual identity** (any field): for `λ` the Rayleigh quotient of `v`,
`‖Av − λv‖² = ‖Av‖² − λ²‖v‖²` — the algebraic half of the a-posteriori error bound (with
`power_result_shape` and `rq_eq_matrix`: it applies to the returned `λ` and the last iterate). -/
theorem rayleigh_residual_identity {F : Type} [Field F] {n : Nat} (A : Matrix (Fin n) (Fin n) F)
    (v : Fin n → F) :
    (A *ᵥ v - ((v ⬝ᵥ A *ᵥ v) / (v ⬝ᵥ v)) • v) ⬝ᵥ (A *ᵥ v - ((v ⬝ᵥ A *ᵥ v) / (v ⬝ᵥ v)) • v)
      = (A *ᵥ v) ⬝ᵥ (A *ᵥ v) - ((v ⬝ᵥ A *ᵥ v) / (v ⬝ᵥ v)) ^ 2 * (v ⬝ᵥ v) := by
  generalize hlam : (v ⬝ᵥ A *ᵥ v) / (v ⬝ᵥ v) = lam
  have e : (A *ᵥ v - lam • v) ⬝ᵥ (A *ᵥ v - lam • v)
      = (A *ᵥ v) ⬝ᵥ (A *ᵥ v) - 2 * lam * (v ⬝ᵥ A *ᵥ v) + lam ^ 2 * (v ⬝ᵥ v) := by
    simp only [sub_dotProduct, dotProduct_sub, smul_dotProduct, dotProduct_smul, smul_eq_mul,
      dotProduct_comm (A *ᵥ v) v]
    ring
  rw [e]
  by_cases h : v ⬝ᵥ v = 0
  · have h0 : lam = 0 := by rw [← hlam, h, div_zero]
    rw [h0]; ring
  · have key : lam * (v ⬝ᵥ v) = v ⬝ᵥ A *ᵥ v := by rw [← hlam]; exact div_mul_cancel₀ _ h
    linear_combination (2 * lam) * key

/-- **Proved in `SV.Props.C13Accuracy.power_accuracy`** (this file only fixes the statement; the S
half of `./check C13` tests the same clause on the implementation with the same constant `C = 8`).
The analytic accuracy clause: for a real symmetric matrix with an orthonormal eigenbasis `q`,
eigenvalues `d`, a dominant one `d i₁` with all others at most half its modulus, and the all-ones
start vector at cosine at least `3/10` to the dominant eigenvector, every tolerance in
`[1e-12, 1e-4]` makes the call return a pair with `‖Av − λv‖ ≤ C√tol·|λ|·‖v‖` and
`|λ − λ₁| ≤ C·tol·|λ₁|`.  The proof (Lemmas/C13AccSeq, C13AccSpec, C13AccLoop) goes through the
spectral decomposition and a contraction argument for the Rayleigh quotients of the iterates. -/
def PowerAccuracy : Prop :=
  ∀ (n : Nat) (A : Mat ℝ) (tol : ℝ), 0 < n → A.h = n → A.w = n → A.WF →
    (∀ i j, i < n → j < n → A.get i j = A.get j i) →
    ∀ (q : Fin n → Fin n → ℝ) (d : Fin n → ℝ) (i₁ : Fin n),
      (∀ a b, ∑ i, q a i * q b i = if a = b then 1 else 0) →
      (∀ a (i : Fin n), ∑ j : Fin n, A.get i j * q a j = d a * q a i) →
      d i₁ ≠ 0 → (∀ a, a ≠ i₁ → |d a| ≤ |d i₁| / 2) →
      (3 / 10 : ℝ) ^ 2 * n ≤ (∑ i, q i₁ i) ^ 2 →
      (1 / 10 ^ 12 : ℝ) ≤ tol → tol ≤ 1 / 10 ^ 4 →
      ∃ lam v p, power A tol = .ok (lam, v, p) ∧
        (∑ i ∈ range n, ((∑ k ∈ range n, A.get i k * v.get k 0) - lam * v.get i 0) ^ 2)
          ≤ 8 ^ 2 * tol * lam ^ 2 * (∑ i ∈ range n, v.get i 0 ^ 2) ∧
        |lam - d i₁| ≤ 8 * tol * |d i₁|

end SV.Props.C13
