import SV.Lemmas.C03
import SV.Lemmas.C04
import Mathlib.Analysis.SpecialFunctions.Pow.Deriv
import Mathlib.Algebra.Order.Floor.Semiring
/-!
Helper lemmas for the "natural domain" extension of C03 / C04 (`SV.Props.C03Natural`,
`SV.Props.C04Natural`): sparse polynomials all of whose exponents (of the variable of interest) are
natural numbers, analysed on the whole real line — at `0`, at negative points, on intervals containing
`0` — where `SV.Props.C03.inter_deriv_correct` / `SV.Props.C04.analytical_is_integral_inter` assume
`x ≠ 0` (or a power `≥ 1`) resp. positive bounds.

* `hasDerivAt_varsVal_ext`, `hasDerivAt_polyVal_ext`, `hasDerivAt_partialDeriv_ext`
  the power rule of `SV.Lemmas.C03` with the extra admissible case "power `= 0`" (the term does not
  depend on the variable; the code's multiplier is `0`)
* `NatIn`, `NatAll`                natural exponents (as reals: `∃ n : ℕ, q = n`)
* `integTerm_power`, `integInter_power`, `integInter_other`   the exponents of an integral
* `varsVal_eq_zero_of_factor`      a term with a factor `0^q`, `q ≠ 0`, vanishes
* `polyVal_natural_eq_pow`         on natural exponents `Real.rpow` is the ordinary power
-/
set_option linter.unusedSectionVars false
namespace SV.C04Nat
open SV SV.Poly SV.C03 SV.C04

/-! ### natural exponents -/

/-- every power the variable `v` carries in the term list is a natural number (as a real) -/
def NatIn (ts : List (Term ℝ)) (v : String) : Prop :=
  ∀ t ∈ ts, ∀ q, (v, q) ∈ t.vars → ∃ n : ℕ, q = n

/-- every power of every variable in the term list is a natural number (as a real) -/
def NatAll (ts : List (Term ℝ)) : Prop :=
  ∀ t ∈ ts, ∀ w q, (w, q) ∈ t.vars → ∃ n : ℕ, q = n

theorem NatAll.natIn {ts : List (Term ℝ)} (h : NatAll ts) (v : String) : NatIn ts v :=
  fun t ht q hq => h t ht v q hq

/-- the admissible points of the extended power rule: away from `0`, or power `≥ 1`, or power `0` -/
theorem natIn_dom {ts : List (Term ℝ)} {v : String} (h : NatIn ts v) (x : ℝ) :
    ∀ t ∈ ts, ∀ p, (v, p) ∈ t.vars → x ≠ 0 ∨ 1 ≤ p ∨ p = 0 := by
  intro t ht p hp
  obtain ⟨n, rfl⟩ := h t ht p hp
  cases n with
  | zero => exact Or.inr (Or.inr (by simp))
  | succ n => exact Or.inr (Or.inl (by push_cast; linarith [Nat.cast_nonneg (α := ℝ) n]))

/-! ### the only occurrence of a variable in a `NodupVars` term -/

theorem power_unique {K : Type} {v : String} {pre post : List (String × K)} {m r : K}
    (hpre : v ∉ names pre) (hpost : v ∉ names post) (hr : (v, r) ∈ pre ++ (v, m) :: post) :
    r = m := by
  rw [List.mem_append, List.mem_cons] at hr
  rcases hr with hr | hr | hr
  · exact absurd (List.mem_map.2 ⟨(v, r), hr, rfl⟩) hpre
  · exact (Prod.mk.inj hr).2
  · exact absurd (List.mem_map.2 ⟨(v, r), hr, rfl⟩) hpost

theorem other_mem_iff {K : Type} {v w : String} {pre post : List (String × K)} {m m' q : K}
    (hw : w ≠ v) : (w, q) ∈ pre ++ (v, m') :: post ↔ (w, q) ∈ pre ++ (v, m) :: post := by
  have h1 : (w, q) ≠ (v, m) := fun e => hw (Prod.mk.inj e).1
  have h2 : (w, q) ≠ (v, m') := fun e => hw (Prod.mk.inj e).1
  simp [List.mem_append, List.mem_cons, h1, h2]

/-! ### the power rule, extended by the case "power 0" -/
section real
open Real

/-- power rule for one term over ℝ (`powf = Real.rpow`): at every `x ≠ 0`, at `0` when the power of
`v` is at least 1, **and at every `x` when the power of `v` is `0`** — then the term does not depend
on `v` (`t^0 = 1` for every real `t`, `0` included) and the code's multiplier is that power, `0`, so
the value `0 · (v^(-1) · …)` it produces is the true derivative `0`, whatever real number `v^(-1)`
denotes. -/
theorem hasDerivAt_varsVal_ext (σ : String → ℝ) (v : String) (x : ℝ)
    {vs vs' : List (String × ℝ)} {m : ℝ}
    (hnd : (names vs).Nodup) (hd : derivVars v vs = some (m, vs'))
    (hdom : ∀ p, (v, p) ∈ vs → x ≠ 0 ∨ 1 ≤ p ∨ p = 0) :
    HasDerivAt (fun t => varsVal Real.rpow (Function.update σ v t) vs)
      (m * varsVal Real.rpow (Function.update σ v x) vs') x := by
  have hv : v ∈ names vs := derivVars_isSome_iff.1 (by simp [hd])
  obtain ⟨pre, p, post, hvs, hpre, hpost⟩ := split_at hnd hv
  have hd' := derivVars_append (post := post) p hpre
  rw [← hvs, hd] at hd'
  simp only [Option.some.injEq, Prod.mk.injEq] at hd'
  obtain ⟨hm, _⟩ := hd'
  have huniq : ∀ r, (v, r) ∈ vs → r = p := fun r hr => power_unique hpre hpost (hvs ▸ hr)
  rcases hdom p (by rw [hvs]; simp) with h | h | h
  · exact hasDerivAt_varsVal σ v x hnd hd (fun r _ => Or.inl h)
  · exact hasDerivAt_varsVal σ v x hnd hd (fun r hr => Or.inr (by rw [huniq r hr]; exact h))
  · have hfun : (fun t => varsVal Real.rpow (Function.update σ v t) vs)
        = fun _ => varsVal Real.rpow σ pre * varsVal Real.rpow σ post := by
      funext t
      rw [hvs, varsVal_append, varsVal_cons, varsVal_update_of_not_mem _ _ _ _ hpre,
        varsVal_update_of_not_mem _ _ _ _ hpost, h]
      simp
    rw [hfun, hm, h, zero_mul]
    exact hasDerivAt_const x _

/-- the sum rule over the extended domain -/
theorem hasDerivAt_polyVal_ext (σ : String → ℝ) (v : String) (x : ℝ) (ts : List (Term ℝ))
    (hnd : ∀ t ∈ ts, (names t.vars).Nodup)
    (hdom : ∀ t ∈ ts, ∀ p, (v, p) ∈ t.vars → x ≠ 0 ∨ 1 ≤ p ∨ p = 0) :
    HasDerivAt (fun t => polyVal Real.rpow (Function.update σ v t) ts)
      (polyVal Real.rpow (Function.update σ v x) (derivTerms v ts)) x := by
  induction ts with
  | nil => simpa [derivTerms] using hasDerivAt_const x (0 : ℝ)
  | cons t ts ih =>
    have ih' := ih (fun u hu => hnd u (List.mem_cons_of_mem _ hu))
      (fun u hu => hdom u (List.mem_cons_of_mem _ hu))
    simp only [polyVal_cons]
    cases hd : derivVars v t.vars with
    | none =>
      have hv : v ∉ names t.vars := fun h => by
        have := derivVars_isSome_iff.2 h; simp [hd] at this
      have hc : (fun s => termVal Real.rpow (Function.update σ v s) t
            + polyVal Real.rpow (Function.update σ v s) ts)
          = fun s => termVal Real.rpow σ t + polyVal Real.rpow (Function.update σ v s) ts := by
        funext s; simp only [termVal, varsVal_update_of_not_mem _ _ _ _ hv]
      rw [hc]
      simp only [derivTerms, hd]
      exact ih'.const_add _
    | some r =>
      obtain ⟨m, vs'⟩ := r
      simp only [derivTerms, hd, polyVal_cons]
      have h1 := (hasDerivAt_varsVal_ext σ v x (hnd t (List.mem_cons_self ..)) hd
        (hdom t (List.mem_cons_self ..))).const_mul t.coef
      refine (h1.add ih').congr_deriv ?_
      simp only [termVal]
      ring

/-- `partial_derivative` (sorted terms) denotes the partial derivative, extended domain -/
theorem hasDerivAt_partialDeriv_ext (σ : String → ℝ) (v : String) (x : ℝ) (ts : List (Term ℝ))
    (hwf : TermsWF ts) (hdom : ∀ t ∈ ts, ∀ p, (v, p) ∈ t.vars → x ≠ 0 ∨ 1 ≤ p ∨ p = 0) :
    HasDerivAt (fun t => polyVal Real.rpow (Function.update σ v t) ts)
      (polyVal Real.rpow (Function.update σ v x) (partialDeriv ts v).terms) x := by
  unfold partialDeriv
  simp only [polyVal_sortVars]
  exact hasDerivAt_polyVal_ext σ v x ts (fun t ht => strictSorted_nodup (hwf t ht)) hdom

end real

/-! ### what differentiation does with a literal `v^0` -/
section powerzero
variable {K : Type} [Field K] [LinearOrder K]

/-- a term carrying a literal `v^0` is *kept* by `partial_derivative`, with multiplier `0` and the
variable at power `-1` (not removed: the new power is not `0`) -/
theorem derivVars_power_zero {v : String} {vs : List (String × K)} (hnd : (names vs).Nodup)
    (h0 : (v, (0 : K)) ∈ vs) :
    ∃ pre post, vs = pre ++ (v, 0) :: post ∧ v ∉ names pre ∧ v ∉ names post ∧
      derivVars v vs = some (0, pre ++ (v, -1) :: post) := by
  have hv : v ∈ names vs := List.mem_map.2 ⟨(v, 0), h0, rfl⟩
  obtain ⟨pre, p, post, hvs, hpre, hpost⟩ := split_at hnd hv
  have hp : p = 0 := (power_unique hpre hpost (hvs ▸ h0)).symm
  subst hp
  refine ⟨pre, post, hvs, hpre, hpost, ?_⟩
  rw [hvs, derivVars_append _ hpre]
  have hz : ¬ isZero ((0 : K) - 1) = true := fun h => by
    have := (isZero_iff _).1 h
    rw [zero_sub] at this
    exact one_ne_zero (neg_eq_zero.1 this)
  rw [if_neg hz, zero_sub]

end powerzero

/-! ### the exponents of an indefinite integral -/
section integ
variable {K : Type} [Field K] [LinearOrder K]

/-- the power the integration variable carries in an integrated term: the old power plus one, or `1`
when the term did not contain the variable -/
theorem integTerm_power {v : String} {t : Term K} (hnd : (names t.vars).Nodup) {q : K}
    (hq : (v, q) ∈ (integTerm v t).vars) :
    (∃ p, (v, p) ∈ t.vars ∧ q = p + 1) ∨ (v ∉ names t.vars ∧ q = 1) := by
  by_cases hv : v ∈ names t.vars
  · obtain ⟨pre, p, post, hvs, hpre, hpost⟩ := split_at hnd hv
    have hint : integTerm v t = ⟨t.coef / (p + 1), pre ++ (v, p + 1) :: post⟩ := by
      unfold integTerm; rw [hvs, integVars_append p hpre]
    rw [hint] at hq
    exact Or.inl ⟨p, by rw [hvs]; simp, power_unique hpre hpost hq⟩
  · have hint : integTerm v t = ⟨t.coef, t.vars ++ [(v, 1)]⟩ := by
      unfold integTerm; rw [integVars_none hv]
    rw [hint] at hq
    simp only [List.mem_append, List.mem_singleton] at hq
    rcases hq with hq | hq
    · exact absurd (List.mem_map.2 ⟨(v, q), hq, rfl⟩) hv
    · exact Or.inr ⟨hv, (Prod.mk.inj hq).2⟩

/-- the other variables keep their powers -/
theorem integTerm_other {v w : String} {t : Term K} (hnd : (names t.vars).Nodup) (hw : w ≠ v) (q : K) :
    (w, q) ∈ (integTerm v t).vars ↔ (w, q) ∈ t.vars := by
  by_cases hv : v ∈ names t.vars
  · obtain ⟨pre, p, post, hvs, hpre, _⟩ := split_at hnd hv
    have hint : integTerm v t = ⟨t.coef / (p + 1), pre ++ (v, p + 1) :: post⟩ := by
      unfold integTerm; rw [hvs, integVars_append p hpre]
    rw [hint, hvs]
    exact other_mem_iff hw
  · have hint : integTerm v t = ⟨t.coef, t.vars ++ [(v, 1)]⟩ := by
      unfold integTerm; rw [integVars_none hv]
    rw [hint]
    have h1 : (w, q) ≠ (v, (1 : K)) := fun e => hw (Prod.mk.inj e).1
    simp [List.mem_append, h1]

/-- a term of `indefinite_integral_intermediate` is a sorted integrated source term -/
theorem mem_integInter {v : String} {ts : List (Term K)} {t' : Term K}
    (h : t' ∈ (integInter ts v).terms) :
    ∃ t ∈ ts, t'.coef = (integTerm v t).coef ∧ t'.vars = sortVars (integTerm v t).vars := by
  unfold integInter at h
  simp only [List.map_map, List.mem_map, Function.comp] at h
  obtain ⟨t, ht, rfl⟩ := h
  exact ⟨t, ht, rfl, rfl⟩

theorem integInter_power {v : String} {ts : List (Term K)} (hwf : TermsWF ts) {t' : Term K}
    (h : t' ∈ (integInter ts v).terms) {q : K} (hq : (v, q) ∈ t'.vars) :
    ∃ t ∈ ts, (∃ p, (v, p) ∈ t.vars ∧ q = p + 1) ∨ (v ∉ names t.vars ∧ q = 1) := by
  obtain ⟨t, ht, _, hvars⟩ := mem_integInter h
  rw [hvars] at hq
  exact ⟨t, ht, integTerm_power (strictSorted_nodup (hwf t ht)) ((sortVars_perm _).mem_iff.1 hq)⟩

theorem integInter_other {v w : String} {ts : List (Term K)} (hwf : TermsWF ts) {t' : Term K}
    (h : t' ∈ (integInter ts v).terms) (hw : w ≠ v) {q : K} (hq : (w, q) ∈ t'.vars) :
    ∃ t ∈ ts, (w, q) ∈ t.vars := by
  obtain ⟨t, ht, _, hvars⟩ := mem_integInter h
  rw [hvars] at hq
  exact ⟨t, ht, (integTerm_other (strictSorted_nodup (hwf t ht)) hw q).1
    ((sortVars_perm _).mem_iff.1 hq)⟩

/-- every term of the integral contains the integration variable -/
theorem integInter_mem_var {v : String} {ts : List (Term K)} {t' : Term K}
    (h : t' ∈ (integInter ts v).terms) : ∃ q, (v, q) ∈ t'.vars := by
  obtain ⟨t, _, _, hvars⟩ := mem_integInter h
  have hm : v ∈ names t'.vars := by
    rw [hvars]; exact (names_sortVars_perm _).mem_iff.2 (integTerm_mem v t)
  obtain ⟨⟨w, q⟩, hwq, rfl⟩ := List.mem_map.1 hm
  exact ⟨q, hwq⟩

end integ

/-! ### natural exponents and integrals -/

/-- in the integral of a polynomial with natural powers of `v`, every power of `v` is a natural
number `≥ 1` -/
theorem integInter_natIn {v : String} {ts : List (Term ℝ)} (hwf : TermsWF ts) (hnat : NatIn ts v)
    {t' : Term ℝ} (h : t' ∈ (integInter ts v).terms) {q : ℝ} (hq : (v, q) ∈ t'.vars) :
    ∃ n : ℕ, q = n ∧ 1 ≤ n := by
  obtain ⟨t, ht, ⟨p, hp, rfl⟩ | ⟨_, rfl⟩⟩ := integInter_power hwf h hq
  · obtain ⟨n, rfl⟩ := hnat t ht p hp
    exact ⟨n + 1, by push_cast; rfl, by omega⟩
  · exact ⟨1, by simp, le_refl _⟩

theorem integInter_one_le {v : String} {ts : List (Term ℝ)} (hwf : TermsWF ts) (hnat : NatIn ts v)
    {t' : Term ℝ} (h : t' ∈ (integInter ts v).terms) {q : ℝ} (hq : (v, q) ∈ t'.vars) : 1 ≤ q := by
  obtain ⟨n, rfl, hn⟩ := integInter_natIn hwf hnat h hq
  exact_mod_cast hn

/-- natural exponents never are `-1` -/
theorem natIn_ne {ts : List (Term ℝ)} {v : String} (hnat : NatIn ts v) :
    ∀ t ∈ ts, ∀ q, (v, q) ∈ t.vars → q + 1 ≠ 0 := by
  intro t ht q hq
  obtain ⟨n, rfl⟩ := hnat t ht q hq
  exact_mod_cast Nat.succ_ne_zero n

/-- the integral of a polynomial with natural exponents has natural exponents -/
theorem integInter_natAll {v : String} {ts : List (Term ℝ)} (hwf : TermsWF ts) (hnat : NatAll ts) :
    NatAll (integInter ts v).terms := by
  intro t' ht' w q hq
  by_cases hw : w = v
  · subst hw
    obtain ⟨n, hn, _⟩ := integInter_natIn hwf (hnat.natIn w) ht' hq
    exact ⟨n, hn⟩
  · obtain ⟨t, ht, hq'⟩ := integInter_other hwf ht' hw hq
    exact hnat t ht w q hq'

/-! ### values -/
section values
open Real

/-- a product with a factor `0^q`, `q ≠ 0`, vanishes -/
theorem varsVal_eq_zero_of_factor (σ : String → ℝ) {vs : List (String × ℝ)} {v : String} {q : ℝ}
    (hq : (v, q) ∈ vs) (hσ : σ v = 0) (hne : q ≠ 0) : varsVal Real.rpow σ vs = 0 := by
  unfold varsVal
  apply List.prod_eq_zero
  refine List.mem_map.2 ⟨(v, q), hq, ?_⟩
  simp only [hσ]
  exact Real.zero_rpow hne

/-- zero constant of integration, as a value: with natural powers of `v`, the integral vanishes
where `v = 0` -/
theorem polyVal_integInter_zero (σ : String → ℝ) {v : String} {ts : List (Term ℝ)} (hwf : TermsWF ts)
    (hnat : NatIn ts v) (hσ : σ v = 0) : polyVal Real.rpow σ (integInter ts v).terms = 0 := by
  unfold polyVal
  apply List.sum_eq_zero
  intro y hy
  obtain ⟨t', ht', rfl⟩ := List.mem_map.1 hy
  obtain ⟨q, hq⟩ := integInter_mem_var ht'
  have h1 : 1 ≤ q := integInter_one_le hwf hnat ht' hq
  unfold termVal
  rw [varsVal_eq_zero_of_factor σ hq hσ (by linarith), mul_zero]

/-- on natural exponents the real power is the ordinary power: the value of a term list all of whose
names are `v`, with `v ↦ x`, is `Σ c · Π x^n` -/
theorem polyVal_natural_eq_pow (σ : String → ℝ) (v : String) (x : ℝ) {ts : List (Term ℝ)}
    (hnames : ∀ w ∈ termNames ts, w = v) (hnat : NatAll ts) :
    polyVal Real.rpow (Function.update σ v x) ts
      = (ts.map fun t => t.coef * (t.vars.map fun vp => x ^ ⌊vp.2⌋₊).prod).sum := by
  unfold polyVal
  congr 1
  apply List.map_congr_left
  intro t ht
  unfold termVal varsVal
  congr 2
  apply List.map_congr_left
  intro vp hvp
  obtain ⟨w, q⟩ := vp
  have hw : w = v := hnames w (mem_termNames.2 ⟨t, ht, List.mem_map.2 ⟨(w, q), hvp, rfl⟩⟩)
  obtain ⟨n, rfl⟩ := hnat t ht w q hvp
  subst hw
  simp only [Function.update_self, Nat.floor_natCast]
  exact Real.rpow_natCast x n

end values

/-! ### the integral is an antiderivative at every real point -/

/-- **d/dv ∫ p dv = p at every real point, natural powers of `v`**: every power of `v` in the integral
is `≥ 1`, so the power rule holds everywhere (`hasDerivAt_partialDeriv`), and differentiating the
integral gives back the value of the source (`roundtrip_terms`) -/
theorem hasDerivAt_integInter (σ : String → ℝ) (v : String) (x : ℝ) (ts : List (Term ℝ))
    (hwf : TermsWF ts) (hnat : NatIn ts v) :
    HasDerivAt (fun t => polyVal Real.rpow (Function.update σ v t) (integInter ts v).terms)
      (polyVal Real.rpow (Function.update σ v x) ts) x := by
  have hFwf := integInter_wf ts v hwf
  have hd := hasDerivAt_partialDeriv σ v x (integInter ts v).terms hFwf.1.1
    (fun t ht q hq => Or.inr (integInter_one_le hwf hnat ht hq))
  refine hd.congr_deriv ?_
  have hrt := (roundtrip_terms Real.rpow (fun y => Real.rpow_zero y) (Function.update σ v x) v ts hwf
    (natIn_ne hnat)).1
  unfold partialDeriv integInter
  simp only [polyVal_sortVars]
  exact hrt

/-! ### the univariate wrapper -/

/-- the integration variable `indefinite_integral_univariate` chooses (the listed variable, `"x"` for a
constant polynomial), what it returns, and that the result is again usable with at most one variable
whose names all are that variable.  (`Usable p ∧ p.variables.length ≤ 1` is `SV.Props.C03.UniOK p`.) -/
theorem uni_var (p : IPoly ℝ) (h : Usable p ∧ p.variables.length ≤ 1) :
    ∃ v, (∀ w ∈ termNames p.terms, w = v) ∧ integUni p = .ok (integInter p.terms v) ∧
      (Usable (integInter p.terms v) ∧ (integInter p.terms v).variables.length ≤ 1) ∧
      (∀ w ∈ termNames (integInter p.terms v).terms, w = v) := by
  obtain ⟨hu, h1⟩ := h
  obtain ⟨v, hv, hF⟩ : ∃ v, (∀ w ∈ termNames p.terms, w = v) ∧
      integUni p = .ok (integInter p.terms v) := by
    cases hvs : p.variables with
    | nil =>
      exact ⟨"x", fun w hw => by have := hu.2.2 w hw; simp [hvs] at this, by simp [integUni, hvs]⟩
    | cons w r =>
      rw [hvs] at h1
      have hr : r = [] := by cases r with | nil => rfl | cons _ _ => simp at h1
      subst hr
      exact ⟨w, fun u hmu => by have := hu.2.2 u hmu; rw [hvs] at this; simpa using this,
        by simp [integUni, hvs]⟩
  have hFwf := integInter_wf p.terms v hu.1
  have hFnames : ∀ w ∈ termNames (integInter p.terms v).terms, w = v := fun w hw => by
    rcases integInter_names p.terms v w hw with h' | h'
    · exact hv w h'
    · exact h'
  exact ⟨v, hv, hF, ⟨hFwf.1, length_le_one_of_subset_singleton hFwf.1.2.1 v
    (fun w hw => hFnames w (hFwf.2 w hw))⟩, hFnames⟩

/-! ### a concrete polynomial for the non-vacuity examples -/

/-- `"3x^2 - x + 2"` as `IntermediatePolynomial::parse` returns it -/
noncomputable def quad : IPoly ℝ := ⟨[⟨3, [("x", 2)]⟩, ⟨-1, [("x", 1)]⟩, ⟨2, []⟩], ["x"]⟩

/-- it is usable with one variable (`SV.Props.C03.UniOK quad`, unfolded) -/
theorem quad_usable : Usable quad ∧ quad.variables.length ≤ 1 := by
  refine ⟨⟨?_, by decide, ?_⟩, by simp [quad]⟩
  · intro t ht
    simp only [quad, List.mem_cons, List.not_mem_nil, or_false] at ht
    rcases ht with rfl | rfl | rfl <;> decide
  · intro w hw
    simp only [quad, termNames, names, List.flatMap_cons, List.flatMap_nil, List.map_cons,
      List.map_nil, List.append_nil, List.cons_append, List.nil_append, List.mem_cons,
      List.not_mem_nil, or_false, or_self] at hw
    simp [quad, hw]

theorem quad_natural : NatAll quad.terms := by
  intro t ht w q hq
  simp only [quad, List.mem_cons, List.not_mem_nil, or_false] at ht
  rcases ht with rfl | rfl | rfl
  · simp only [List.mem_singleton, Prod.mk.injEq] at hq
    exact ⟨2, by rw [hq.2]; norm_num⟩
  · simp only [List.mem_singleton, Prod.mk.injEq] at hq
    exact ⟨1, by rw [hq.2]; norm_num⟩
  · simp at hq

end SV.C04Nat
