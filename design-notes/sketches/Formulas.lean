import Mathlib.Tactic.Ring
import Mathlib.Tactic.FieldSimp
import Mathlib.Tactic.Linarith
import Mathlib.Algebra.Order.Field.Basic

namespace F
variable {K : Type} [Field K] [LinearOrder K] [IsStrictOrderedRing K] [CharZero K]

/-- quartic and its antiderivative -/
def f (c0 c1 c2 c3 c4 x : K) : K := c0 + c1*x + c2*x^2 + c3*x^3 + c4*x^4
def Fi (c0 c1 c2 c3 c4 x : K) : K := c0*x + c1*x^2/2 + c2*x^3/3 + c3*x^4/4 + c4*x^5/5
def f' (c1 c2 c3 x : K) : K := c1 + 2*c2*x + 3*c3*x^2

theorem simpson13_panel (c0 c1 c2 c3 c4 x h : K) :
    h/3 * (f c0 c1 c2 c3 c4 x + 4 * f c0 c1 c2 c3 c4 (x+h) + f c0 c1 c2 c3 c4 (x+2*h))
      = Fi c0 c1 c2 c3 c4 (x+2*h) - Fi c0 c1 c2 c3 c4 x + h^5/90 * (24*c4) := by
  unfold f Fi; ring

theorem simpson38_panel (c0 c1 c2 c3 c4 x h : K) :
    3*h/8 * (f c0 c1 c2 c3 c4 x + 3 * f c0 c1 c2 c3 c4 (x+h) + 3 * f c0 c1 c2 c3 c4 (x+2*h)
        + f c0 c1 c2 c3 c4 (x+3*h))
      = Fi c0 c1 c2 c3 c4 (x+3*h) - Fi c0 c1 c2 c3 c4 x + 3*h^5/80 * (24*c4) := by
  unfold f Fi; ring

theorem trapezoid_panel (c0 c1 c2 c3 x h : K) :
    h/2 * (f c0 c1 c2 c3 0 x + f c0 c1 c2 c3 0 (x+h))
      = Fi c0 c1 c2 c3 0 (x+h) - Fi c0 c1 c2 c3 0 x + h^2/12 * (f' c1 c2 c3 (x+h) - f' c1 c2 c3 x) := by
  unfold f Fi f'; ring

/-- Householder coefficients as in hessenberg.rs: x0 first entry, r = Σ_{i≥1} x_i², nrm = ‖x‖ -/
theorem reflector_tau (x0 r nrm sign : K) (hn : nrm * nrm = x0*x0 + r) (hnpos : 0 < nrm)
    (hs : sign = if 0 ≤ x0 then -1 else 1) :
    let u1 := x0 - sign * nrm
    let tau := -sign * u1 / nrm
    let vtv := 1 + r / (u1*u1)
    u1 ≠ 0 ∧ tau * vtv = 2 := by
  intro u1 tau vtv
  have hu1 : u1 ≠ 0 := by
    simp only [u1]
    split_ifs at hs with h
    · subst hs; intro e; nlinarith
    · subst hs; push_neg at h; intro e; nlinarith
  refine ⟨hu1, ?_⟩
  have hss : sign * sign = 1 := by
    split_ifs at hs <;> subst hs <;> ring
  simp only [tau, vtv]
  field_simp
  -- goal: -(sign * u1 * (u1*u1 + r)) = 2 * nrm * (u1*u1)   (up to arrangement)
  have hr : r = nrm*nrm - x0*x0 := by linarith
  simp only [u1, hr]
  ring_nf
  have : sign^2 = 1 := by rw [pow_two]; exact hss
  have h3 : sign^3 = sign := by rw [pow_succ, this, one_mul]
  rw [h3, this]
  ring

end F
