//! C20 — compile-time polynomial macros produce exactly what the runtime parsers produce.
//!
//!   m1 <text> / m2 <text>       a text the runtime parser accepts: the macro invocation must compile and its value
//!                               must equal the runtime value field for field, bit for bit
//!   bad1 <text> / bad2 <text>   a text the runtime parser rejects: the invocation must be a compile error at
//!                               that invocation
//!
//! The whole batch is written into two throw-away crates under /verif/.work/c20 (path-depending on the
//! repository with `--cfg spindalis_verif`): `ok` is built and run, `bad` is only checked and its diagnostics
//! are matched to invocation lines.  Observation: the macro's value in the format of the C01/C02 `parse`
//! answers (or `err <Kind>` / `compiled` for the bad ones), so the Lean parser models answer the same requests.
//! The token text each macro actually received is obtained through the `verif_token_text!` hook and must
//! differ from the source text in white space only.
use crate::util::*;
use spindalis_core::polynomials::structs::{IntermediatePolynomial, PolynomialTraits, SimplePolynomial};
use std::fmt::Write as _;
use std::path::PathBuf;
use std::process::Command;

const KINDS: &[&str] = &[
    "InvalidCoefficient", "InvalidConstant", "InvalidExponent", "InvalidFractionalExponent", "InvalidFraction",
    "InvalidNumber", "PolynomialSyntaxError", "MissingVariable", "TooManyVariables", "TooFewVariables",
    "UnexpectedChar", "VariableNotFound", "UnexpectedToken", "UnexpectedEndOfTokens",
];

fn repo() -> String {
    std::env::var("VERIF_REPO").unwrap_or_else(|_| "/repo".to_string())
}

fn work_root() -> PathBuf {
    // /verif/harness/target/release/svharness -> /verif
    let exe = std::env::current_exe().expect("exe path");
    let root = exe.ancestors().nth(4).expect("verif root").to_path_buf();
    root.join(".work").join("c20")
}

const VIA_MACROS: &str = "macro_rules! via1 { ($($t:tt)*) => { spindalis_macros::parse_simple_polynomial!($($t)*) } }\nmacro_rules! via2 { ($($t:tt)*) => { spindalis::polynomials::parse_intermediate_polynomial!($($t)*) } }\nmacro_rules! viat { ($($t:tt)*) => { spindalis_macros::verif_token_text!($($t)*) } }\n";

const SHOW_FNS: &str = r#"
fn fb(x: f64) -> String { format!("f{}", x.to_bits()) }
fn cps(s: &str) -> String { let v: Vec<u32> = s.chars().map(|c| c as u32).collect(); let mut o = format!("{}", v.len()); for c in v { o.push_str(&format!(" {c}")); } o }
fn show1(p: &spindalis_core::polynomials::structs::SimplePolynomial) -> String {
    let mut s = String::from("ok ");
    match p.variable { Some(c) => s.push_str(&format!("{}", c as u32)), None => s.push('-') }
    s.push_str(&format!(" {}", p.coefficients.len()));
    for c in &p.coefficients { s.push(' '); s.push_str(&fb(*c)); }
    s
}
fn show2(p: &spindalis_core::polynomials::structs::IntermediatePolynomial) -> String {
    let mut s = format!("ok I {}", p.terms.len());
    for t in &p.terms {
        s.push_str(&format!(" {} {}", fb(t.coefficient), t.variables.len()));
        for (v, e) in &t.variables { s.push_str(&format!(" {} {}", cps(v), fb(*e))); }
    }
    s.push_str(&format!(" {}", p.variables.len()));
    for v in &p.variables { s.push(' '); s.push_str(&cps(v)); }
    s
}
"#;

fn write_crate(dir: &PathBuf, main_rs: &str) {
    std::fs::create_dir_all(dir.join("src")).unwrap();
    std::fs::create_dir_all(dir.join(".cargo")).unwrap();
    let r = repo();
    // one package name per job: concurrent jobs share the target directory (dependencies are built once) and
    // must not overwrite each other's binary
    let pid = std::process::id();
    std::fs::write(
        dir.join("Cargo.toml"),
        format!(
            "[package]\nname = \"c20case{pid}\"\nversion = \"0.1.0\"\nedition = \"2024\"\n\n[dependencies]\nspindalis = {{ path = \"{r}/spindalis\" }}\nspindalis_core = {{ path = \"{r}/spindalis_core\" }}\nspindalis_macros = {{ path = \"{r}/spindalis_macros\" }}\n\n[workspace]\n"
        ),
    )
    .unwrap();
    std::fs::write(
        dir.join(".cargo").join("config.toml"),
        "[net]\noffline = true\n\n[build]\nrustflags = [\"--cfg\", \"spindalis_verif\", \"-Awarnings\"]\n",
    )
    .unwrap();
    let _ = std::fs::copy(format!("{r}/Cargo.lock"), dir.join("Cargo.lock"));
    std::fs::write(dir.join("src").join("main.rs"), main_rs).unwrap();
}

fn cargo(dir: &PathBuf, target: &PathBuf, args: &[&str]) -> (bool, String) {
    let out = Command::new("cargo")
        .args(args)
        .arg("--offline")
        .arg("--message-format=json")
        .current_dir(dir)
        .env("CARGO_TARGET_DIR", target)
        .env("CARGO_NET_OFFLINE", "true")
        .output()
        .expect("cargo");
    (out.status.success(), String::from_utf8_lossy(&out.stdout).to_string())
}

/// (line, error kind mentioned) for every error-level compiler message
fn error_lines(json: &str) -> Vec<(usize, Option<&'static str>)> {
    let mut out = Vec::new();
    for l in json.lines() {
        if !l.contains("\"reason\":\"compiler-message\"") || !l.contains("\"level\":\"error\"") {
            continue;
        }
        let kind = KINDS.iter().find(|k| l.contains(**k)).copied();
        // only spans inside the generated file (macro definition sites have their own line numbers)
        let mut rest = l;
        while let Some(p) = rest.find("\"file_name\":\"src/main.rs\"") {
            rest = &rest[p + 10..];
            if let Some(q) = rest.find("\"line_start\":") {
                let tail = &rest[q + 13..];
                let n: String = tail.chars().take_while(|c| c.is_ascii_digit()).collect();
                if let Ok(n) = n.parse::<usize>() {
                    out.push((n, kind));
                }
            }
        }
    }
    out
}

struct Case {
    parser: u8,
    bad: bool,
    text: String,
}

fn runtime(parser: u8, text: &str) -> String {
    if parser == 1 {
        crate::c01::show_parsed(&SimplePolynomial::parse(text))
    } else {
        crate::c02::show_parsed(&IntermediatePolynomial::parse(text))
    }
}

fn fnv(s: &str) -> u64 {
    let mut h: u64 = 0xcbf29ce484222325;
    for b in s.bytes() {
        h = (h ^ b as u64).wrapping_mul(0x100000001b3);
    }
    h
}

/// an answer shortened for a failure message: the head (variable, LENGTH, first coefficients) and the number of tokens
fn brief(s: &str) -> String {
    if s.len() <= 400 {
        return s.to_string();
    }
    let head: String = s.chars().take(160).collect();
    format!("{head} ... [{} tokens in all]", s.split_whitespace().count())
}

fn strip_ws(s: &str) -> String {
    s.chars().filter(|c| !c.is_whitespace()).collect()
}

pub fn run_batch(lines: &[String]) -> Vec<Obs> {
    let cases: Vec<Case> = lines
        .iter()
        .map(|l| {
            let mut t = Toks::new(l);
            let cmd = t.tok();
            let text = t.string();
            Case { parser: if cmd.ends_with('1') { 1 } else { 2 }, bad: cmd.starts_with("bad"), text }
        })
        .collect();
    let root = work_root();
    let job = root.join(format!("job-{}", std::process::id()));
    let target = root.join("target");
    let _ = std::fs::remove_dir_all(&job);
    // both macros are reachable under three paths: the proc-macro crate itself, the re-export in
    // `spindalis::polynomials`, and the re-exported crate `spindalis::polynomials::macros`; the path is a function of
    // the text, so that a request always compiles the same program
    let mac = |p: u8, text: &str| {
        let name = if p == 1 { "parse_simple_polynomial" } else { "parse_intermediate_polynomial" };
        match fnv(text) % 5 {
            0 | 1 => format!("spindalis_macros::{name}"),
            2 => format!("spindalis::polynomials::{name}"),
            3 => format!("spindalis::polynomials::macros::{name}"),
            // forwarded token by token through a declarative macro of the generated crate
            _ => format!("via{p}"),
        }
    };
    let hook = |text: &str| if fnv(text) % 5 == 4 { "viat" } else { "spindalis_macros::verif_token_text" };

    // ---- the invocations that must compile: build and run (excluding, on failure, the lines that did not compile)
    let ok_idx: Vec<usize> = (0..cases.len()).filter(|k| !cases[*k].bad).collect();
    let mut macro_value: Vec<Option<String>> = vec![None; cases.len()];
    let mut token_text: Vec<Option<String>> = vec![None; cases.len()];
    let mut compile_err: Vec<Option<String>> = vec![None; cases.len()];
    let mut active = ok_idx.clone();
    for _round in 0..4 {
        if active.is_empty() {
            break;
        }
        // one invocation per block; the block's first line is recorded
        let mut src = String::from(VIA_MACROS);
        src.push_str(SHOW_FNS);
        src.push_str("fn main() {\n");
        let mut line_of: Vec<(usize, usize, usize)> = Vec::new(); // (case, first line, last line)
        let mut line = src.lines().count();
        for &k in &active {
            let c = &cases[k];
            let block = format!(
                "{{ let v = {m}!({t}\n); let t = {h}!({t}\n); println!(\"{k}\\t{{}}\\t{{}}\", show{p}(&v), cps(t)); }}\n",
                m = mac(c.parser, &c.text),
                h = hook(&c.text),
                t = c.text,
                p = c.parser
            );
            let n = block.lines().count();
            line_of.push((k, line + 1, line + n));
            line += n;
            src.push_str(&block);
        }
        src.push_str("}\n");
        let dir = job.join("ok");
        write_crate(&dir, &src);
        let (built, json) = cargo(&dir, &target, &["build"]);
        if built {
            let out = Command::new(target.join("debug").join(format!("c20case{}", std::process::id()))).output().expect("run c20case");
            for l in String::from_utf8_lossy(&out.stdout).lines() {
                let mut it = l.split('\t');
                if let (Some(k), Some(v), Some(t)) = (it.next(), it.next(), it.next()) {
                    let k: usize = k.parse().unwrap();
                    macro_value[k] = Some(v.to_string());
                    let mut tk = Toks::new(t);
                    token_text[k] = Some(tk.string());
                }
            }
            break;
        }
        let errs = error_lines(&json);
        let mut failed: Vec<usize> = Vec::new();
        for (ln, kind) in &errs {
            for (k, a, b) in &line_of {
                if ln >= a && ln <= b {
                    compile_err[*k] = Some(kind.unwrap_or("other").to_string());
                    failed.push(*k);
                }
            }
        }
        if failed.is_empty() {
            // the build failed for a reason that is not one of the invocations
            for &k in &active {
                compile_err[k] = Some("build-failed".into());
            }
            break;
        }
        active.retain(|k| !failed.contains(k));
    }

    // ---- the invocations that must NOT compile: `cargo check`, diagnostics matched to lines.  Each bad invocation
    //      stands between two correct ones on the adjacent lines of the same function: the error must be reported at
    //      the bad one and only there
    let bad_idx: Vec<usize> = (0..cases.len()).filter(|k| cases[*k].bad).collect();
    let mut bad_err: Vec<Option<String>> = vec![None; cases.len()];
    let mut neighbour_err: Vec<bool> = vec![false; cases.len()];
    const PER: usize = 5;
    // a diagnostic that is not the macro's own (a lexer error, a panic inside the macro) can be fatal for the whole
    // file and hide the errors of the other invocations: those cases keep their verdict and the rest is checked again
    let mut active_bad = bad_idx.clone();
    for _round in 0..4 {
        if active_bad.is_empty() {
            break;
        }
        let mut src = String::from(VIA_MACROS);
        src.push_str("fn main() {}\n");
        let header = src.lines().count();
        for (j, &k) in active_bad.iter().enumerate() {
            let c = &cases[k];
            let one_line: String = c.text.chars().map(|ch| if ch == '\n' || ch == '\r' { ' ' } else { ch }).collect();
            let (g1, g2) = match j % 3 {
                0 => ("spindalis_macros::parse_simple_polynomial!(2x^2 - 3.5x + 1)", "spindalis::polynomials::parse_intermediate_polynomial!(x^2y - 1/2y^-1 + 4)"),
                1 => ("spindalis::polynomials::parse_intermediate_polynomial!(3xy^0.5 - z)", "spindalis::polynomials::macros::parse_simple_polynomial!(t^3 - 0.125)"),
                _ => ("spindalis::polynomials::parse_simple_polynomial!(-x + 7)", "spindalis_macros::parse_intermediate_polynomial!(a^2 + 2ab + b^2)"),
            };
            let _ = writeln!(src, "fn bad_{j}() {{\n    let _a = {g1};\n    let _b = {}!({});\n    let _c = {g2};\n}}", mac(c.parser, &c.text), one_line);
        }
        let dir = job.join("bad");
        write_crate(&dir, &src);
        let (_built, json) = cargo(&dir, &target, &["check"]);
        let mut foreign: Vec<usize> = Vec::new();
        for (ln, kind) in error_lines(&json) {
            if ln > header && (ln - header - 1) / PER < active_bad.len() {
                let k = active_bad[(ln - header - 1) / PER];
                match (ln - header - 1) % PER {
                    2 => {
                        if bad_err[k].is_none() || kind.is_some() {
                            bad_err[k] = Some(kind.unwrap_or("other").to_string());
                        }
                        if kind.is_none() {
                            foreign.push(k);
                        }
                    }
                    1 | 3 => neighbour_err[k] = true,
                    _ => {}
                }
            }
        }
        let silent = active_bad.iter().any(|k| bad_err[*k].is_none());
        foreign.retain(|k| bad_err[*k].as_deref() == Some("other"));
        if foreign.is_empty() || !silent {
            break;
        }
        active_bad.retain(|k| bad_err[*k].is_none());
    }
    if std::env::var("VERIF_C20_KEEP").is_err() {
        let _ = std::fs::remove_dir_all(&job);
    }
    // this job's own artefacts in the shared target directory
    let mine = format!("c20case{}", std::process::id());
    for sub in ["debug", "debug/deps", "debug/incremental", "debug/.fingerprint"] {
        if let Ok(rd) = std::fs::read_dir(target.join(sub)) {
            for e in rd.flatten() {
                if e.file_name().to_string_lossy().starts_with(&mine) {
                    let p = e.path();
                    let _ = if p.is_dir() { std::fs::remove_dir_all(&p) } else { std::fs::remove_file(&p) };
                }
            }
        }
    }

    // ---- observations and verdicts
    let mut out = Vec::new();
    for (k, c) in cases.iter().enumerate() {
        let rt = catch(|| runtime(c.parser, &c.text)).unwrap_or_else(|| "panic".into());
        if c.bad {
            let (obs, verdict) = match &bad_err[k] {
                Some(kind) => {
                    let obs = format!("err {kind}");
                    let v = if neighbour_err[k] {
                        Err("a correct invocation on the line next to the rejected one was reported as an error too".to_string())
                    } else if rt.starts_with("err") {
                        // "a compile error at that invocation": the statement does not say which error the diagnostic
                        // names (the kind in the observation is informational)
                        Ok(())
                    } else {
                        Err(format!("the macro rejects a text the runtime parser accepts ({rt})"))
                    };
                    (obs, v)
                }
                None => ("compiled".to_string(), if rt.starts_with("err") { Err(format!("text rejected at run time ({rt}) compiled without an error at its invocation{}", lrm_note(&c.text))) } else { Ok(()) }),
            };
            out.push(Obs::with(obs, verdict));
        } else {
            match (&macro_value[k], &compile_err[k]) {
                (Some(v), _) => {
                    let mut verdict = if *v == rt {
                        Ok(())
                    } else {
                        Err(format!("macro value {} differs from the runtime value {}{}", brief(v), brief(&rt), if rt.starts_with("err") { lrm_note(&c.text) } else { String::new() }))
                    };
                    if let Some(t) = &token_text[k] {
                        if strip_ws(t) != strip_ws(&c.text) && verdict.is_ok() {
                            verdict = Err(format!("the macro received {t:?}, which differs from the source text in more than white space"));
                        }
                    }
                    out.push(Obs::with(v.clone(), verdict));
                }
                (None, Some(kind)) => {
                    let obs = format!("err {kind}");
                    let v = if rt.starts_with("ok") { Err(format!("a text the runtime parser accepts ({}) is a compile error: {kind}", &rt[..rt.len().min(60)])) } else { Ok(()) };
                    out.push(Obs::with(obs, v));
                }
                (None, None) => out.push(Obs::with("no-output".into(), Err("the generated program printed nothing for this invocation".into()))),
            }
        }
    }
    out
}

pub fn run(line: &str) -> Obs {
    run_batch(&[line.to_string()]).pop().unwrap()
}

// ------------------------------------------------------------------------------------ generators

/// White space of the Rust tokenizer (Unicode Pattern_White_Space): the tokenizer drops these characters of the source
/// text, and the macro receives the token printer's text with a plain space or a line break in their place.
pub const PATTERN_WS: &[char] = &['\t', '\n', '\u{b}', '\u{c}', '\r', ' ', '\u{85}', '\u{200e}', '\u{200f}', '\u{2028}', '\u{2029}'];
/// ... those of them that are white space to `char::is_whitespace` (Unicode White_Space) as well.  U+200E / U+200F (the
/// left-to-right / right-to-left marks) are not: see the finding F-C20-lrm in corpus/C20.txt - they are never generated.
pub const SOURCE_WS: &[char] = &['\t', '\n', '\u{b}', '\u{c}', '\r', ' ', '\u{85}', '\u{2028}', '\u{2029}'];

/// the fixed phrase by which known_findings.json recognises F-C20-lrm
const LRM_PHRASE: &str = "Pattern_White_Space character that is not White_Space";

/// the source text contains white space of the tokenizer that `char::is_whitespace` does not know
fn has_lrm(text: &str) -> bool {
    text.chars().any(|c| PATTERN_WS.contains(&c) && !c.is_whitespace())
}

fn lrm_note(text: &str) -> String {
    if has_lrm(text) {
        format!(" [the source text contains a {LRM_PHRASE} (U+200E / U+200F): the tokenizer drops it, the runtime parser does not]")
    } else {
        String::new()
    }
}

/// does the text tokenize as Rust?  (no literal starting with 0x / 0b / 0o, no digit directly followed by e/E)
fn tokenizes(text: &str) -> bool {
    // comment openers, and the prefixes reserved since Rust 2021 (`x#`, `x"`, `x'`): a lexer error is fatal for the
    // whole generated file, so such a text would hide every other diagnostic
    if text.contains("//") || text.contains("/*") {
        return false;
    }
    let cs: Vec<char> = text.chars().collect();
    for w in cs.windows(2) {
        if (w[0].is_alphanumeric() || w[0] == '_') && (w[1] == '#' || w[1] == '"' || w[1] == '\'') {
            return false;
        }
    }
    for i in 0..cs.len() {
        let c = cs[i];
        if i + 1 < cs.len() {
            let d = cs[i + 1];
            if c.is_ascii_digit() && (d == 'e' || d == 'E' || d == '_') {
                return false;
            }
            if c == '0' && (d == 'x' || d == 'b' || d == 'o') {
                // start of a literal?  only if the 0 is not preceded by a digit or by `digit.`
                let prev_digit = i > 0 && cs[i - 1].is_ascii_digit();
                let prev_frac = i > 1 && cs[i - 1] == '.' && cs[i - 2].is_ascii_digit();
                if !prev_digit && !prev_frac {
                    return false;
                }
            }
            // `1.x` is fine, `1..` is a range token: still tokenizes
        }
        if !(c.is_ascii_alphanumeric() || " \t\n.+-^/*#".contains(c) || c.is_alphabetic() || SOURCE_WS.contains(&c)) {
            return false;
        }
    }
    true
}

fn ascii_ws(rng: &mut Rng) -> &'static str {
    *rng.pick(&[" ", " ", "  ", "\t", "\n", " \n "])
}

fn gen_simple(rng: &mut Rng, target_len: usize) -> String {
    let var = *rng.pick(&['x', 'y', 't', 'z', 'a', 'λ', 'é', 'я', 'ß', 'Ω', 'X', 'Q', 'k', 'w', 'R', 'u']);
    let mut s = String::new();
    let mut first = true;
    while s.len() < target_len || first {
        let t = crate::c01::gen_term(rng, var, 15);
        if t.neg {
            s.push('-');
        } else if !first {
            s.push('+');
        }
        if rng.chance(1, 3) {
            s.push_str(ascii_ws(rng));
        }
        for tk in &t.text {
            s.push_str(tk);
            if rng.chance(1, 4) {
                s.push_str(ascii_ws(rng));
            }
        }
        first = false;
    }
    s
}

fn gen_inter(rng: &mut Rng, target_len: usize) -> String {
    let all = ['x', 'y', 'z', 'a', 'c', 'd', 'k', 'm', 'n', 'p', 'q', 'r', 's', 't', 'u', 'v', 'w', 'A', 'B', 'C', 'X', 'Y', 'Z', 'f', 'i', 'l'];
    let mut pool = ['x', 'y', 'z', 'a'];
    if rng.chance(1, 2) {
        for slot in pool.iter_mut() {
            *slot = *rng.pick(&all);
        }
        // distinct letters only
        for i in 0..pool.len() {
            while pool[..i].contains(&pool[i]) {
                pool[i] = *rng.pick(&all);
            }
        }
    }
    let mut terms = Vec::new();
    let mut len = 0;
    while len < target_len || terms.is_empty() {
        let t = crate::c02::gen_iterm(rng, &pool, false);
        len += 6 + 5 * t.vars.len();
        terms.push(t);
    }
    // ASCII spacing only
    let mut s = crate::c02::render(rng, &terms, 0);
    if rng.chance(1, 2) {
        s = s.replace('+', " + ").replace("-", " -");
    }
    s
}

fn gen_bad(rng: &mut Rng, parser: u8) -> String {
    let base = if parser == 1 { gen_simple(rng, 12) } else { gen_inter(rng, 12) };
    let base: String = base.chars().map(|c| if c == '\n' { ' ' } else { c }).collect();
    match rng.below(7) {
        0 => format!("{base} +"),
        1 => format!("{base} - - 4"),
        2 => format!("{base} * 3"),
        3 => format!("2 {} 3", if parser == 1 { "xy" } else { "x #" }),
        4 => format!("{base} ^ ^ 2"),
        5 => format!("+ + {base}"),
        _ => format!("{base} / /"),
    }
}

pub fn generate(seed: u64, thorough: bool, emit: &mut dyn FnMut(String)) {
    let mut rng = Rng::new(seed ^ 0xC20);
    let n = if thorough { 3000 } else { 260 };
    for i in 0..n {
        let target = match i % 5 {
            0 => 5,
            1 => 40,
            2 => 120,
            3 => 250,
            _ => 600,
        };
        let parser = 1 + (i % 2) as u8;
        let text = loop {
            let t = if parser == 1 { gen_simple(&mut rng, target) } else { gen_inter(&mut rng, target) };
            if tokenizes(&t) {
                break t;
            }
        };
        emit(format!("m{parser} {}", req_string(&text)));
    }
    // literals at the edges of binary64: subnormal and smallest-normal magnitudes (a decimal with 300+ zeros), the
    // largest finite values, 17-significant-digit neighbours of 1
    let zeros = |n: usize| "0".repeat(n);
    let edge: Vec<(u8, String)> = vec![
        (1, format!("0.{}7x^2 + 1", zeros(310))),
        (1, format!("0.{}25x - 0.{}3", zeros(307), zeros(320))),
        (1, format!("17976931348623157{}x + 2", zeros(292))),
        (1, "1.0000000000000002x^3 - 0.99999999999999989x".to_string()),
        (2, format!("0.{}7xy^2 + 1", zeros(310))),
        (2, format!("0.5/1{}x + y", zeros(309))),
        (2, format!("2x^0.{}4 - y^-0.{}9", zeros(311), zeros(305))),
        (2, format!("17976931348623157{}x/3 + 2", zeros(292))),
        (2, "1.0000000000000002x^0.99999999999999989 - y".to_string()),
    ];
    for (parser, text) in edge {
        if tokenizes(&text) {
            emit(format!("m{parser} {}", req_string(&text)));
        }
    }
    generate_hardening(seed, thorough, emit);
    let m = if thorough { 600 } else { 60 };
    for i in 0..m {
        let parser = 1 + (i % 2) as u8;
        let text = loop {
            let t = gen_bad(&mut rng, parser);
            if tokenizes(&t) {
                break t;
            }
        };
        // only texts the runtime parser really rejects are "bad" requests
        let rejected = runtime(parser, &text).starts_with("err");
        emit(format!("{}{parser} {}", if rejected { "bad" } else { "m" }, req_string(&text)));
    }
}

// ------------------------------------------------------------------------------------ hardening families

fn digits(rng: &mut Rng, lo: usize, extra: u64) -> String {
    let n = lo + if extra > 0 { rng.below(extra) as usize } else { 0 };
    let mut d: String = (0..n).map(|_| char::from(b'0' + rng.below(10) as u8)).collect();
    if d.starts_with('0') {
        d.replace_range(0..1, "3");
    }
    d
}

/// a decimal with many significant digits (never beyond the binary64 range: see the note in `generate_hardening`)
fn long_decimal(rng: &mut Rng) -> String {
    match rng.below(5) {
        0 => digits(rng, 15, 12),
        1 => format!("{}.{}", digits(rng, 1, 4), digits(rng, 15, 10)),
        2 => format!("0.{}{}", "0".repeat(rng.below(40) as usize), digits(rng, 15, 6)),
        3 => format!("{}{}", digits(rng, 17, 0), "0".repeat(rng.below(200) as usize)),
        _ => format!("{}.{}", digits(rng, 16, 40), digits(rng, 3, 0)),
    }
}

fn emit_case(emit: &mut dyn FnMut(String), parser: u8, text: &str) {
    if !tokenizes(text) {
        return;
    }
    // only texts the runtime parser really rejects are "bad" requests
    let rejected = runtime(parser, text).starts_with("err");
    emit(format!("{}{parser} {}", if rejected { "bad" } else { "m" }, req_string(text)));
}

fn generate_hardening(seed: u64, thorough: bool, emit: &mut dyn FnMut(String)) {
    let mut rng = Rng::new(seed ^ 0xC20_5CA1E);
    // ---- (1) inputs of 700..2000 characters (the token printer re-flows them over many lines)
    let n = if thorough { 120 } else { 12 };
    for i in 0..n {
        let target = [700usize, 1000, 1400, 2000][i % 4];
        let parser = 1 + ((i / 4) % 2) as u8;
        let text = loop {
            let t = if parser == 1 { gen_simple(&mut rng, target) } else { gen_inter(&mut rng, target) };
            if tokenizes(&t) {
                break t;
            }
        };
        emit(format!("m{parser} {}", req_string(&text)));
    }
    // ---- (2) numbers with 15 and more digits in every position: coefficients, both parts of a fraction, exponents, both
    //      parts of a fractional exponent; exponents of extreme magnitude (1e-300 .. 1e300); the largest power of the dense
    //      univariate form.
    //      NOT generated: literals beyond the binary64 range ("1" followed by 400 zeros).  The runtime parsers return
    //      +-inf (NaN for inf/inf) for them while the macros print `inf` / `NaN` into the expansion, which does not
    //      compile — a genuine deviation of the unchanged repository from the statement, reported separately.
    let n = if thorough { 400 } else { 48 };
    for i in 0..n {
        let v = *rng.pick(&['x', 'y', 'q', 'T', 'k']);
        let w = *rng.pick(&['a', 'b', 'z', 'N']);
        let sign = |rng: &mut Rng| if rng.chance(1, 2) { "-" } else { "" };
        if i % 3 == 0 {
            // univariate
            let mut s = String::new();
            for t in 0..(2 + rng.below(4)) {
                s.push_str(if rng.chance(1, 2) { " - " } else if t > 0 { " + " } else { "" });
                s.push_str(&long_decimal(&mut rng));
                match rng.below(4) {
                    0 => {}
                    1 => s.push(v),
                    _ => s.push_str(&format!("{v}^{}{}", "0".repeat(rng.below(25) as usize), rng.below(40))),
                }
            }
            emit_case(emit, 1, &s);
        } else {
            let mut s = String::new();
            for t in 0..(2 + rng.below(4)) {
                s.push_str(if rng.chance(1, 2) { " - " } else if t > 0 { " + " } else { "" });
                match rng.below(4) {
                    0 => s.push_str(&long_decimal(&mut rng)),
                    1 => s.push_str(&format!("{}/{}", digits(&mut rng, 15, 8), digits(&mut rng, 15, 8))),
                    2 => s.push_str(&format!("{}/{}", long_decimal(&mut rng), long_decimal(&mut rng))),
                    _ => s.push_str(&format!("{}/{}", rng.range(1, 9), digits(&mut rng, 18, 0))),
                }
                let e1 = match rng.below(7) {
                    0 => format!("^{}{}", sign(&mut rng), digits(&mut rng, 15, 25)),
                    1 => format!("^{}0.{}{}", sign(&mut rng), "0".repeat(20 + rng.below(280) as usize), rng.range(1, 9)),
                    2 => format!("^{}{}{}", sign(&mut rng), rng.range(1, 9), "0".repeat(20 + rng.below(280) as usize)),
                    3 => format!("^{}{}/{}", sign(&mut rng), digits(&mut rng, 15, 6), digits(&mut rng, 15, 6)),
                    4 => format!("^{}{}", sign(&mut rng), long_decimal(&mut rng)),
                    5 => String::new(),
                    _ => format!("^{}", rng.range(2, 9)),
                };
                s.push_str(&format!("{v}{e1}"));
                if rng.chance(1, 2) {
                    s.push_str(&format!("{w}^{}{}.{}", sign(&mut rng), rng.below(4), digits(&mut rng, 17, 0)));
                }
            }
            emit_case(emit, 2, &s);
        }
    }
    for text in ["x^65536 + 1", "3y^65535 - y", "2t^0065536", "x^4096 - x^4095", "x^65537", "x^65536x", "x^4294967296", "x^18446744073709551616"] {
        if thorough || !text.contains("6553") || text == "x^65537" || text == "x^65536 + 1" {
            emit_case(emit, 1, text);
        }
    }
    // ---- (2b) signed zeros and cancelling sums; one coefficient / exponent per decade 1e-320 .. 1e308 (the Debug
    //      spelling of a float changes form at 1e-5 and 1e16)
    for (parser, text) in [
        (1u8, "-0x + 0"), (1, "-0.0x^2 - 0"), (1, "x - x"), (1, "-x + x - 0"), (1, "0 - 0x^3"), (1, "-0"), (1, "2.5x^2 - 2.5x^2 + 0x"),
        (2, "-0x + 0y"), (2, "-0.0x^2y - 0"), (2, "x - x"), (2, "-0/5x"), (2, "0/7xy^-0"), (2, "x^-0 + y^0.0 - z^-0.0"), (2, "-0"), (2, "x^0/5"),
    ] {
        emit_case(emit, parser, text);
    }
    // ---- (2d) round 5, category M: ALL-ZERO / CANCELLING RESULTS AT EVERY SIZE.  Every coefficient of the result exactly 0
    //      - zero written as a coefficient (`0 x^N`, `0.0x^N`, `-0 x^N`: `0x` is the hex prefix and does not tokenize) or terms
    //      that cancel (`x^N - x^N`, `p - p`) - and results with a single non-zero coefficient (at the top, at the bottom, next
    //      to the top), at every degree 0..40 and at 65, 129, 257, 513, 1023, 1024, 1025, 1500, 4096, 65536 (the largest dense power): the
    //      runtime parser keeps the formal degree (N + 1 coefficients), so the macro has to as well - S compares the vector
    //      LENGTH along with every coefficient.  The same texts go to the multivariate macro (term lists that cancel to
    //      nothing or to a zero term), with two-variable variants.
    {
        let zero_forms = |v: char, d: usize| -> Vec<String> {
            vec![
                format!("0 {v}^{d}"),
                format!("0.0{v}^{d}"),
                format!("0.0{v}^{d} + 0"),
                format!("-0 {v}^{d}"),
                format!("0 {v}^{d} - 0.0{v}"),
                format!("0.000{v}^{d} + 0 {v}^2 - 0"),
                format!("{v}^{d} - {v}^{d}"),
                format!("-{v}^{d} + {v}^{d}"),
                format!("2.5{v}^{d} - 2.5{v}^{d} + 0"),
                format!("3{v}^{d} + {v}^2 - 7 - 3{v}^{d} - {v}^2 + 7"),
                format!("{v}^{d} + {v}^{d} - 2{v}^{d}"),
            ]
        };
        let single_forms = |v: char, d: usize| -> Vec<String> {
            vec![
                format!("{v}^{d}"),
                format!("0 {v}^{d} + 4{v}^2"),
                format!("{v}^{d} - {v}^{d} + {v}"),
                format!("0.0{v}^{d} + 1"),
                format!("-0.5{v}^{d}"),
                format!("{v}^{d} - {v}^{d} + 3{v}^{}", d.saturating_sub(1)),
                format!("0.1{v}^{d} + 0.2{v}^{d} - 0.3{v}^{d}"),
                format!("7 - 7 + 0 {v}^{d} - 0.25{v}^{}", d / 2),
            ]
        };
        let multi_forms = |v: char, w: char, d: usize| -> Vec<String> {
            vec![
                format!("{v}^{d}{w} - {v}^{d}{w}"),
                format!("0 {v}^{d}{w}^2"),
                format!("0.0{v}^{d}{w} + 0"),
                format!("{v}^{d}{w} - {w}{v}^{d}"),
                format!("{v}^{d}{w}^{d} - {v}^{d}{w}^{d} + 0 {w}"),
                format!("0 {v}^{d} + 0 {w}^{d} + 2{v}{w}"),
            ]
        };
        let vars = ['x', 'y', 't', 'z', 'k', 'λ', 'Q', 'u'];
        let seconds = ['a', 'n', 'w'];
        let sd = seed as usize;
        for d in 0..=40usize {
            let v = vars[(d + sd) % vars.len()];
            let w = seconds[(d + sd) % seconds.len()];
            let (z, s, m) = (zero_forms(v, d), single_forms(v, d), multi_forms(v, w, d));
            if thorough {
                for t in z.iter().chain(s.iter()) {
                    emit_case(emit, 1, t);
                    emit_case(emit, 2, t);
                }
                for t in &m {
                    emit_case(emit, 2, t);
                }
            } else {
                emit_case(emit, 1, &z[(d + sd) % z.len()]);
                emit_case(emit, 1, &z[(3 * d + sd + 5) % z.len()]);
                emit_case(emit, 1, &s[(d + sd) % s.len()]);
                emit_case(emit, 2, &z[(d + sd + 2) % z.len()]);
                emit_case(emit, 2, &s[(d + sd + 3) % s.len()]);
                emit_case(emit, 2, &m[(d + sd) % m.len()]);
            }
        }
        // (between 40 and 1023: just over the powers of two - a length threshold anywhere shows at every larger degree)
        let mut big: Vec<usize> = vec![1023, 1024, 1025, 1500, 4096, 65, 129, 257, 513];
        if thorough {
            big.extend([41, 63, 64, 100, 127, 128, 255, 256, 300, 511, 512, 777]);
            big.extend([1000, 1022, 1026, 2047, 2048, 2049, 3000, 8192, 10000, 30000, 32767, 32768, 65535]);
            for _ in 0..6 {
                big.push(1024 + rng.below(64512) as usize);
            }
        }
        for (bi, &d) in big.iter().enumerate() {
            let v = vars[(bi + sd) % vars.len()];
            let w = seconds[(bi + sd) % seconds.len()];
            let (z, s, m) = (zero_forms(v, d), single_forms(v, d), multi_forms(v, w, d));
            // quick: every all-zero form at 1024 / 1025 / 1500 and four of them elsewhere; half of the single-coefficient forms
            // (thorough: every form up to 5000, a third of them beyond - 65537 coefficients cost a second of compilation)
            let all = thorough && d <= 5000;
            for (k, t) in z.iter().enumerate() {
                if all || d <= 1500 && d >= 1024 || (k + bi + sd) % 3 == 0 {
                    emit_case(emit, 1, t);
                }
                if all || (k + bi + sd) % 4 == 0 {
                    emit_case(emit, 2, t);
                }
            }
            for (k, t) in s.iter().enumerate() {
                if all || (k + bi + sd) % (if thorough { 3 } else { 2 }) == 0 {
                    emit_case(emit, 1, t);
                }
                if all || (k + bi + sd) % 4 == 1 {
                    emit_case(emit, 2, t);
                }
            }
            for (k, t) in m.iter().enumerate() {
                if thorough || (k + bi + sd) % 3 == 0 {
                    emit_case(emit, 2, t);
                }
            }
        }
        // the largest dense power (65537 coefficients: about a second of compilation each)
        {
            let d = 65536usize;
            let v = vars[(sd + 1) % vars.len()];
            let (z, s, m) = (zero_forms(v, d), single_forms(v, d), multi_forms(v, 'a', d));
            if thorough {
                for t in z.iter().chain(s.iter()) {
                    emit_case(emit, 1, t);
                    emit_case(emit, 2, t);
                }
                for t in &m {
                    emit_case(emit, 2, t);
                }
            } else {
                // one zero written as a coefficient, one cancellation, one single coefficient
                emit_case(emit, 1, &z[sd % 6]);
                emit_case(emit, 1, &z[6 + sd % 5]);
                emit_case(emit, 1, &s[1 + sd % 7]);
                emit_case(emit, 2, &z[(sd + 3) % z.len()]);
                emit_case(emit, 2, &m[sd % m.len()]);
            }
        }
    }
    let decades: Vec<i32> = (-320..=308).collect();
    let per = if thorough { 1 } else { 4 };
    for chunk in decades.chunks(16) {
        let mut t1 = String::new();
        let mut t2 = String::new();
        for (j, e) in chunk.iter().enumerate() {
            if j % per != (seed as usize) % per {
                continue;
            }
            // (9e308 is beyond the binary64 range: see the note above)
            let d = if *e == 308 { 1 } else { rng.range(1, 9) };
            let lit = if *e < 0 { format!("0.{}{d}", "0".repeat((-e - 1) as usize)) } else { format!("{d}{}", "0".repeat(*e as usize)) };
            let sg = if rng.chance(1, 2) { "-" } else { "+" };
            t1.push_str(&format!(" {sg} {lit}x^{}", j + 1));
            t2.push_str(&format!(" {sg} {lit}x^{}{lit}y", if rng.chance(1, 2) { "-" } else { "" }));
        }
        emit_case(emit, 1, t1.trim_start_matches(" +"));
        emit_case(emit, 2, t2.trim_start_matches(" +"));
    }
    // ---- (2c) every white-space character of the Rust tokenizer in the SOURCE text of the invocation (raw characters in the
    //      generated main.rs; the runtime parser gets the same text): between terms, inside a term, around '^' and '/',
    //      inside a number, leading and trailing; one character throughout, then mixtures and runs.  The macro sees a plain
    //      space or a line break wherever the source had any of them, so the runtime parser has to ignore every one of them.
    let slots1: [&str; 9] = [
        "2x^2@+@3x@-@4", "@2x^2 - x + 1", "2x^2 - x + 1@", "2@x^2 + 3@x - 0.5@x^3", "2x@^@2 - x@^3 + x^@4", "-@x^3 + 1@.5x -@7", "2x^1@0 + 1@2x - 3@.@5",
        "@-@é@^@2@+@3@é@", "7@", 
    ];
    let slots2: [&str; 11] = [
        "x^2y@-@1/2y^-1@+@4", "@3xy^0.5 - z", "3xy^0.5 - z@", "2@x@y + 3@x^2@y^3", "x@^@2y@^-1 - z^@1/2", "1@/@2x - 3@/4y + 5/@6", "x^1@/@2 + y^-3@/@4",
        "x^@-@2 + y^-@0.5", "1@2x^1@2 - 0@.@5y^1@.@5", "@-@a@b@^@-@1@/@2@+@1@/@3@", "1/3@",
    ];
    let fill = |t: &str, f: &mut dyn FnMut() -> String| -> String {
        let mut s = String::new();
        for c in t.chars() {
            if c == '@' { s.push_str(&f()) } else { s.push(c) }
        }
        s
    };
    for (parser, slots) in [(1u8, &slots1[..]), (2u8, &slots2[..])] {
        for &w in SOURCE_WS {
            for t in slots {
                emit_case(emit, parser, &fill(t, &mut || w.to_string()));
            }
        }
        // mixtures: each slot gets a run of 0..3 characters drawn from the whole set
        let n = if thorough { 300 } else { 30 };
        for i in 0..n {
            let t = slots[i % slots.len()];
            let text = fill(t, &mut || (0..rng.below(4)).map(|_| *rng.pick(SOURCE_WS)).collect());
            emit_case(emit, parser, &text);
        }
        // a long text (the printer re-flows it) with unusual white space around every sign
        for i in 0..(if thorough { 12 } else { 2 }) {
            let base = loop {
                let t = if parser == 1 { gen_simple(&mut rng, 300 + 200 * (i % 3)) } else { gen_inter(&mut rng, 300 + 200 * (i % 3)) };
                if tokenizes(&t) {
                    break t;
                }
            };
            let mut text = String::new();
            for c in base.chars() {
                if (c == '+' || c == ' ') && rng.chance(1, 2) {
                    text.push(*rng.pick(&['\u{b}', '\u{c}', '\r', '\u{85}', '\u{2028}', '\u{2029}']));
                }
                text.push(c);
            }
            emit_case(emit, parser, &text);
        }
    }
    // ---- (3) invalid texts of every error KIND the runtime parsers can produce; each alone and inside a longer correct
    //      polynomial.  Each must be a compile error at its own line (the kind the diagnostic names is recorded in the
    //      observation but not demanded: the statement says "a compile error at that invocation").
    let bad1: [&str; 30] = [
        // PolynomialSyntaxError
        "x + + 1", "2x - - 4", "2x^2 +", "- - x", "x + 1 -", "+ + x",
        // InvalidCoefficient
        "2*x + 1", "2/3x - 1", "1.2.3x^2", "..5x", "2 3 . . x", "4.x.x",
        // InvalidExponent
        "x^2.5", "x^65537", "x^ + 1", "x^y", "3x^-2", "x^99999999999999999999", "x^1/2",
        // UnexpectedChar
        "x2 + 1", "2xy - 1", "x*2", "x.5", "xx", "2x x",
        // InvalidConstant
        "x + 3/4", "x - 1.2.3", "2 * 3 + x", "7/2", "x^2 + 5.5.5",
    ];
    let bad2: [&str; 34] = [
        // PolynomialSyntaxError
        "x + + y", "2xy - - 4", "2x^2 +", "- - xy", "x + y -", "+ + x",
        // InvalidFraction
        "1/2/3x", "1/0x + y", "/2x", "3/x", "1/ /2y", "5/0.0z",
        // InvalidCoefficient
        "1.2.3xy", "..5x", "4..x", "0.1.y + 2", "1.5.2", "2.2.x^2y",
        // InvalidFractionalExponent
        "x^1/0", "x^1/2/3", "xy^3/0.0", "2x^/2", "x^1/ /2", "x^2/",
        // InvalidExponent
        "x^ + 1", "x^1.2.3", "xy^.", "2x^..", "x^-", "x^-.-",
        // UnexpectedChar
        "x*y", "x 5", "2x^2^3", "x.y",
    ];
    let goods1 = ["2x^2 - 3.5x + 1", "x^3", "0.125 - x", "7"];
    let goods2 = ["x^2y - 1/2y^-1 + 4", "xy", "3.25a^0.5 - b", "1/3"];
    for (parser, frags, goods) in [(1u8, &bad1[..], &goods1[..]), (2u8, &bad2[..], &goods2[..])] {
        for (fi, f) in frags.iter().enumerate() {
            emit_case(emit, parser, f);
            if thorough || fi % 2 == seed as usize % 2 {
                let g = goods[fi % goods.len()];
                let h = goods[(fi + 1) % goods.len()];
                emit_case(emit, parser, &format!("{g} + {f}"));
                emit_case(emit, parser, &format!("{f} - {h}"));
                emit_case(emit, parser, &format!("{g} - {f} + {h}"));
            }
        }
    }
}
