import SV.Model.Wire
/-!
# C12 — literal model of `Arr2D<T>` (spindalis/src/utils/arr2D.rs) and the grid it must behave like

* `Arr α`  — the three fields of the Rust struct: the hidden row-major buffer `inner`, and the public
  `height`, `width`.  Nothing ties `inner.length` to `height * width` in the type; that consistency
  is what the property is about (`SV.Props.C12.inv_run`).
* every operation is written the way the Rust code performs it (bound checks, slicing, `split_at`,
  pushes in loop order) and returns the new state together with an outcome `ok | err e | panic`.
  A Rust panic (explicit `panic!`, `Vec`/slice index, `split_at`, `copy_from_slice`, `unwrap`) is an
  explicit `none`/`panic`; no Lean default value ever stands in for one.
* `Grid α` — the specification: a plain `h × w` grid as a function `cell : Nat → Nat → α`; every spec
  operation is one line and every spec observer is a tabulation of `cell`.

No Mathlib import: this file is compiled into `svdriver`.
-/
namespace SV.C12

structure Arr (α : Type) where
  inner : List α
  height : Nat
  width : Nat
deriving Repr

structure Grid (α : Type) where
  h : Nat
  w : Nat
  cell : Nat → Nat → α

/-- `Arr2DError` variants an `Arr2D` operation of this property can return (with their payloads). -/
inductive Err where
  | inconsistentRowLengths
  | invalidReshape (size newHeight : Nat)
  | invalidShape (inputSize outputSize : Nat)
  | conversionFailed
deriving Repr, DecidableEq

/-- outcome of a mutating operation -/
inductive Out where
  | ok
  | err (e : Err)
  | panic
deriving Repr, DecidableEq

/-- result of a constructor -/
inductive Res (σ : Type) where
  | ok (s : σ)
  | err (e : Err)
  | panic

/-- value of an observer -/
inductive Val (α : Type) where
  | pair (a b : Nat)
  | nat (n : Nat)
  | bool (b : Bool)
  | elem (x : α)
  | row (xs : List α)
  | rows (xs : List (List α))
  | opt (o : Option α)
  | text (s : List Char)
  | panic
deriving Repr, DecidableEq

variable {α : Type}

/-! ## small helpers shared by model and spec -/

/-- run a list of partial steps in order; the first `none` (panic / failed conversion) wins -/
def collect : List (Option α) → Option (List α)
  | [] => some []
  | none :: _ => none
  | some x :: r =>
    match collect r with
    | some l => some (x :: l)
    | none => none

/-- `Iterator::reduce` -/
def reduce? (f : α → α → α) : List α → Option α
  | [] => none
  | x :: xs => some (xs.foldl f x)

/-- the closure of `Arr2D::max`: `if a > b { a } else { b }` -/
def pickMax [LT α] [DecidableRel (α := α) (· < ·)] (a b : α) : α := if b < a then a else b
/-- the closure of `Arr2D::min`: `if a < b { a } else { b }` -/
def pickMin [LT α] [DecidableRel (α := α) (· < ·)] (a b : α) : α := if a < b then a else b

/-- `{:>width$}` -/
def padLeft (n : Nat) (s : List Char) : List Char := List.replicate (n - s.length) ' ' ++ s

/-- widest printed item of column `c` -/
def colWidth (fmt : α → List Char) (t : List (List α)) (c : Nat) : Nat :=
  t.foldl (fun m row => max m (match row[c]? with | some x => (fmt x).length | none => 0)) 0

/-- the text `Display` writes for an `h × w` table of items -/
def layout (fmt : α → List Char) (h w : Nat) (t : List (List α)) : List Char :=
  if h = 0 ∨ w = 0 then "[]\n".toList
  else
    (t.mapIdx fun r row =>
      (if r = 0 then "[[ ".toList else " [ ".toList)
      ++ (row.mapIdx fun c x =>
            padLeft (colWidth fmt t c) (fmt x) ++ (if c + 1 ≠ w then ", ".toList else [])).flatten
      ++ (if r + 1 = h then " ]]".toList else " ]\n".toList)).flatten

/-- the comparison loop of `PartialEq<Vec<Vec<T>>>`: pairs in loop order; the first unequal pair
returns `false`, an access that panics before that panics -/
def eqLoop [DecidableEq α] : List (Option α × Option α) → Val α
  | [] => .bool true
  | (some a, some b) :: rest => if a ≠ b then .bool false else eqLoop rest
  | _ :: _ => .panic

/-! ## the flat model -/

/-- `Index<(usize, usize)>` / `IndexMut`: explicit bound panic, then `Vec` indexing (which panics by
itself past the end of the buffer).  `none` = panic. -/
def Arr.at? (s : Arr α) (r c : Nat) : Option α :=
  if r ≥ s.height ∨ c ≥ s.width then none else s.inner[r * s.width + c]?

/-- `Index<usize>` / `IndexMut<usize>`: row bound panic, then the slice
`inner[row * width .. (row + 1) * width]` (panics when the range leaves the buffer). -/
def Arr.rowSlice? (s : Arr α) (r : Nat) : Option (List α) :=
  if r ≥ s.height then none
  else if (r + 1) * s.width > s.inner.length then none
  else some ((s.inner.take ((r + 1) * s.width)).drop (r * s.width))

/-- `arr[r][c]`: row index, then slice index (panics when `c` is not inside the row) -/
def Arr.at2? (s : Arr α) (r c : Nat) : Option α :=
  match s.rowSlice? r with
  | none => none
  | some row => row[c]?

/-! ### constructors -/

def Arr.new : Arr α := ⟨[], 0, 0⟩

def Arr.full (v : α) (h w : Nat) : Arr α := ⟨List.replicate (h * w) v, h, w⟩

/-- `arr[r][c] = v` -/
def Arr.setRowCol (s : Arr α) (r c : Nat) (v : α) : Arr α × Out :=
  if r ≥ s.height then (s, .panic)
  else if (r + 1) * s.width > s.inner.length then (s, .panic)
  else if c ≥ s.width then (s, .panic)  -- the row slice has exactly `width` elements
  else ({ s with inner := s.inner.set (r * s.width + c) v }, .ok)

/-- `identity(size)`: `full(T::from(0), size, size)`, then `m[i][i] = T::from(1)` for `i in 0..size` -/
def Arr.identity (zero one : α) (n : Nat) : Res (Arr α) :=
  match (List.range n).foldl
      (fun (acc : Option (Arr α)) i =>
        match acc with
        | none => none
        | some a =>
          match a.setRowCol i i one with
          | (a', .ok) => some a'
          | _ => none)
      (some (Arr.full zero n n)) with
  | some a => .ok a
  | none => .panic

/-- the loop of `TryFrom<Vec<Vec<T>>>`: check the row length, then `inner.extend(row)` -/
def fromNestedGo (width : Nat) : List (List α) → List α → Option (List α)
  | [], acc => some acc
  | row :: rest, acc =>
    if row.length ≠ width then none else fromNestedGo width rest (acc ++ row)

def Arr.fromNested (rows : List (List α)) : Res (Arr α) :=
  match rows with
  | [] => .ok ⟨[], 0, 0⟩
  | first :: _ =>
    match fromNestedGo first.length rows [] with
    | none => .err .inconsistentRowLengths
    | some inner => .ok ⟨inner, rows.length, first.length⟩

/-- the loop of `TryFrom<&Vec<Vec<T>>>`: per row the length check first, then the elements are
converted and pushed one by one (`conv x = none`: `U::try_from` failed) -/
def fromNestedRefGo (conv : α → Option α) (width : Nat) : List (List α) → List α → Except Err (List α)
  | [], acc => .ok acc
  | row :: rest, acc =>
    if row.length ≠ width then .error .inconsistentRowLengths
    else
      match collect (row.map conv) with
      | none => .error .conversionFailed
      | some r => fromNestedRefGo conv width rest (acc ++ r)

def Arr.fromNestedRef (conv : α → Option α) (rows : List (List α)) : Res (Arr α) :=
  match rows with
  | [] => .ok ⟨[], 0, 0⟩
  | first :: _ =>
    match fromNestedRefGo conv first.length rows [] with
    | .error e => .err e
    | .ok inner => .ok ⟨inner, rows.length, first.length⟩

/-- `From<&[[T; N]; M]>`: the array literal is the function `f` on `M × N`; rows are appended with
`extend_from_slice` -/
def Arr.fromArray (m n : Nat) (f : Nat → Nat → α) : Arr α :=
  ⟨((List.range m).map fun r => (List.range n).map (f r)).flatten, m, n⟩

/-- `from_flat(data, default, height, width)` -/
def Arr.fromFlat (data : List α) (dflt : α) (h w : Nat) : Res (Arr α) :=
  let vecLen := data.length
  let size := h * w
  if vecLen > size ∨ size = 0 then .err (.invalidShape vecLen size)
  else if vecLen < size then .ok ⟨data ++ List.replicate (size - vecLen) dflt, h, w⟩
  else .ok ⟨data, h, w⟩

/-! ### mutating operations (each returns the state afterwards and the outcome) -/

/-- `reshape(height)` -/
def Arr.reshape (s : Arr α) (h' : Nat) : Arr α × Out :=
  let size := s.height * s.width
  if h' = 0 ∨ size % h' ≠ 0 then (s, .err (.invalidReshape size h'))
  else ({ s with height := h', width := size / h' }, .ok)

/-- the buffer `transpose`/`transpose_mut` build: `for col in 0..width { for row in 0..height
{ push(self[(row, col)]) } }` -/
def Arr.transposeInner (s : Arr α) : Option (List α) :=
  match collect ((List.range s.width).map fun col =>
      collect ((List.range s.height).map fun row => s.at? row col)) with
  | none => none
  | some cols => some cols.flatten

/-- `arr = arr.transpose()` (nothing is assigned when the call panics) -/
def Arr.transpose (s : Arr α) : Arr α × Out :=
  match s.transposeInner with
  | none => (s, .panic)
  | some l => (⟨l, s.width, s.height⟩, .ok)

/-- `arr.transpose_mut()`: the new buffer is complete before `self.inner` is assigned and the two
dimensions are swapped -/
def Arr.transposeMut (s : Arr α) : Arr α × Out :=
  match s.transposeInner with
  | none => (s, .panic)
  | some l => ({ s with inner := l, height := s.width, width := s.height }, .ok)

/-- `swap_rows(a, b)`: row bound panic; equal rows return; order the rows; `split_at_mut(b*w)`,
`right[..w]`, `left[a*w .. (a+1)*w]`, `swap_with_slice` -/
def Arr.swapRows (s : Arr α) (a b : Nat) : Arr α × Out :=
  if a ≥ s.height ∨ b ≥ s.height then (s, .panic)
  else if a = b then (s, .ok)
  else
    let lo := if a > b then b else a
    let hi := if a > b then a else b
    let w := s.width
    if hi * w > s.inner.length then (s, .panic)          -- split_at_mut: mid > len
    else
      let left := s.inner.take (hi * w)
      let right := s.inner.drop (hi * w)
      if w > right.length then (s, .panic)               -- right[..w]
      else if (lo + 1) * w > left.length then (s, .panic) -- left[lo*w .. (lo+1)*w]
      else
        let rowB := right.take w
        let rowA := (left.take ((lo + 1) * w)).drop (lo * w)
        ({ s with inner := left.take (lo * w) ++ rowB ++ left.drop ((lo + 1) * w) ++ rowA ++ right.drop w }, .ok)

/-- `arr[(r, c)] = v` -/
def Arr.setIdx (s : Arr α) (r c : Nat) (v : α) : Arr α × Out :=
  if r ≥ s.height ∨ c ≥ s.width then (s, .panic)
  else if r * s.width + c ≥ s.inner.length then (s, .panic)   -- Vec index
  else ({ s with inner := s.inner.set (r * s.width + c) v }, .ok)

/-- `arr[r].copy_from_slice(&vs)` (panics when the lengths differ) -/
def Arr.setRow (s : Arr α) (r : Nat) (vs : List α) : Arr α × Out :=
  if r ≥ s.height then (s, .panic)
  else if (r + 1) * s.width > s.inner.length then (s, .panic)
  else if vs.length ≠ s.width then (s, .panic)
  else ({ s with inner := s.inner.take (r * s.width) ++ vs ++ s.inner.drop ((r + 1) * s.width) }, .ok)

/-- `arr[r].fill(v)` -/
def Arr.fillRow (s : Arr α) (r : Nat) (v : α) : Arr α × Out :=
  if r ≥ s.height then (s, .panic)
  else if (r + 1) * s.width > s.inner.length then (s, .panic)
  else ({ s with inner := s.inner.take (r * s.width) ++ List.replicate s.width v
                          ++ s.inner.drop ((r + 1) * s.width) }, .ok)

/-- `Arr2DRowsMut::next` driven to exhaustion, each yielded row slice rewritten in place by `F idx`:
`remaining == 0` ends; otherwise `split_at_mut(width)` (panics when fewer than `width` items are
left).  `acc` is the part of the buffer already passed; what is never yielded stays as it is. -/
def rowsMutGo (F : Nat → List α → List α) (width : Nat) :
    (remaining : Nat) → (idx : Nat) → (data acc : List α) → Option (List α)
  | 0, _, data, acc => some (acc ++ data)
  | rem + 1, idx, data, acc =>
    if width > data.length then none
    else rowsMutGo F width rem (idx + 1) (data.drop width) (acc ++ F idx (data.take width))

/-- `for (i, row) in arr.rows_mut().enumerate() { rewrite row by F i }` (also `for row in &mut arr`).
A `&mut [T]` cannot change its length: `F` is length preserving (`Op.rowsMut` carries the proof). -/
def Arr.rowsMut (s : Arr α) (F : Nat → List α → List α) : Arr α × Out :=
  match rowsMutGo F s.width s.height 0 s.inner [] with
  | none => (s, .panic)
  | some l => ({ s with inner := l }, .ok)

/-- `arr = arr.map(f)` -/
def Arr.map (s : Arr α) (f : α → α) : Arr α × Out :=
  (⟨s.inner.map f, s.height, s.width⟩, .ok)

/-- `arr = arr.clone()` -/
def Arr.clone (s : Arr α) : Arr α × Out := (⟨s.inner, s.height, s.width⟩, .ok)

/-- `arr = Arr2D::try_from(&arr)?`: every buffer element converted in order, the first failure is
`ConversionFailed`; height and width are copied -/
def Arr.convert (s : Arr α) (conv : α → Option α) : Arr α × Out :=
  match collect (s.inner.map conv) with
  | none => (s, .err .conversionFailed)
  | some l => (⟨l, s.height, s.width⟩, .ok)

/-! ### observers -/

/-- `Arr2DRows::next` driven to exhaustion: `remaining == 0` ends; width 0 yields `&data[..0]`;
otherwise `split_at(width)` (panics when fewer than `width` items are left) -/
def rowsGo (width : Nat) : (remaining : Nat) → (data : List α) → Option (List (List α))
  | 0, _ => some []
  | rem + 1, data =>
    if width = 0 then
      match rowsGo width rem data with
      | some l => some ([] :: l)
      | none => none
    else if width > data.length then none
    else
      match rowsGo width rem (data.drop width) with
      | some l => some (data.take width :: l)
      | none => none

def Arr.rows? (s : Arr α) : Option (List (List α)) := rowsGo s.width s.height s.inner

def Arr.isEmpty (s : Arr α) : Bool := s.height = 0 ∨ s.width = 0

/-- `max`/`min`: `None` on an empty shape, else `inner.iter().reduce(..).unwrap()` -/
def Arr.extreme (s : Arr α) (f : α → α → α) : Val α :=
  if s.isEmpty then .opt none
  else
    match reduce? f s.inner with
    | none => .panic
    | some m => .opt (some m)

/-- `arr == other` for a nested vector -/
def Arr.eqNested [DecidableEq α] (s : Arr α) (other : List (List α)) : Val α :=
  if s.height ≠ other.length then .bool false
  else if s.height = 0 then .bool true
  else if other.any (fun row => row.length ≠ s.width) then .bool false
  else
    eqLoop ((List.range s.height).flatMap fun r => (List.range s.width).map fun c =>
      (s.at2? r c, (other[r]?).bind (·[c]?)))

/-- the items `Display` reads, all through `self[(r, c)]` -/
def Arr.table? (s : Arr α) : Option (List (List α)) :=
  collect ((List.range s.height).map fun r => collect ((List.range s.width).map fun c => s.at? r c))

def Arr.display (s : Arr α) (fmt : α → List Char) : Val α :=
  if s.height = 0 ∨ s.width = 0 then .text "[]\n".toList
  else
    match s.table? with
    | none => .panic
    | some t => .text (layout fmt s.height s.width t)

def Arr.asScalar (s : Arr α) : Val α :=
  if s.height = 1 ∧ s.width = 1 then
    match s.inner[0]? with
    | some x => .opt (some x)
    | none => .panic
  else .opt none

/-! ## the specification: a plain grid -/

def Grid.row (g : Grid α) (r : Nat) : List α := (List.range g.w).map (g.cell r)
def Grid.rows (g : Grid α) : List (List α) := (List.range g.h).map g.row
/-- all cells in row-major order -/
def Grid.flat (g : Grid α) : List α := g.rows.flatten

def Grid.new [Inhabited α] : Grid α := ⟨0, 0, fun _ _ => default⟩
def Grid.full (v : α) (h w : Nat) : Grid α := ⟨h, w, fun _ _ => v⟩
def Grid.identity (zero one : α) (n : Nat) : Grid α := ⟨n, n, fun r c => if r = c then one else zero⟩
/-- the grid whose rows are the given lists (all of length `w`) -/
def Grid.ofRows [Inhabited α] (rows : List (List α)) (w : Nat) : Grid α :=
  ⟨rows.length, w, fun r c => (rows.getD r []).getD c default⟩

def Grid.fromNested [Inhabited α] (rows : List (List α)) : Res (Grid α) :=
  match rows with
  | [] => .ok Grid.new
  | first :: _ =>
    if rows.all (fun row => row.length = first.length) then .ok (Grid.ofRows rows first.length)
    else .err .inconsistentRowLengths

/-- rows converted one after the other; the first row that is ragged or holds an inconvertible item
decides the error -/
def convRows (conv : α → Option α) (w : Nat) : List (List α) → Except Err (List (List α))
  | [] => .ok []
  | row :: rest =>
    if row.length ≠ w then .error .inconsistentRowLengths
    else
      match collect (row.map conv) with
      | none => .error .conversionFailed
      | some r =>
        match convRows conv w rest with
        | .ok l => .ok (r :: l)
        | .error e => .error e

def Grid.fromNestedRef [Inhabited α] (conv : α → Option α) (rows : List (List α)) : Res (Grid α) :=
  match rows with
  | [] => .ok Grid.new
  | first :: _ =>
    match convRows conv first.length rows with
    | .error e => .err e
    | .ok rows' => .ok (Grid.ofRows rows' first.length)

def Grid.fromArray (m n : Nat) (f : Nat → Nat → α) : Grid α := ⟨m, n, f⟩

/-- row-major filling, missing items are the default value -/
def Grid.fromFlat (data : List α) (dflt : α) (h w : Nat) : Res (Grid α) :=
  if data.length > h * w ∨ h * w = 0 then .err (.invalidShape data.length (h * w))
  else .ok ⟨h, w, fun r c => (data[r * w + c]?).getD dflt⟩

/-- row-major reflow to `h'` rows -/
def Grid.reshape (g : Grid α) (h' : Nat) : Grid α × Out :=
  let size := g.h * g.w
  if h' = 0 ∨ size % h' ≠ 0 then (g, .err (.invalidReshape size h'))
  else (⟨h', size / h', fun r c => g.cell ((r * (size / h') + c) / g.w) ((r * (size / h') + c) % g.w)⟩, .ok)

def Grid.transpose (g : Grid α) : Grid α × Out := (⟨g.w, g.h, fun r c => g.cell c r⟩, .ok)

def Grid.swapRows (g : Grid α) (a b : Nat) : Grid α × Out :=
  if a ≥ g.h ∨ b ≥ g.h then (g, .panic)
  else (⟨g.h, g.w, fun r c => g.cell (if r = a then b else if r = b then a else r) c⟩, .ok)

def Grid.set (g : Grid α) (r c : Nat) (v : α) : Grid α × Out :=
  if r ≥ g.h ∨ c ≥ g.w then (g, .panic)
  else (⟨g.h, g.w, fun r' c' => if r' = r ∧ c' = c then v else g.cell r' c'⟩, .ok)

def Grid.setRow (g : Grid α) (r : Nat) (vs : List α) : Grid α × Out :=
  if r ≥ g.h ∨ vs.length ≠ g.w then (g, .panic)
  else (⟨g.h, g.w, fun r' c => if r' = r then (vs[c]?).getD (g.cell r' c) else g.cell r' c⟩, .ok)

def Grid.fillRow (g : Grid α) (r : Nat) (v : α) : Grid α × Out :=
  if r ≥ g.h then (g, .panic)
  else (⟨g.h, g.w, fun r' c => if r' = r then v else g.cell r' c⟩, .ok)

/-- every row `r` replaced by `F r (row r)` -/
def Grid.rowsMut (g : Grid α) (F : Nat → List α → List α) : Grid α × Out :=
  (⟨g.h, g.w, fun r c => ((F r (g.row r))[c]?).getD (g.cell r c)⟩, .ok)

def Grid.map (g : Grid α) (f : α → α) : Grid α × Out := (⟨g.h, g.w, fun r c => f (g.cell r c)⟩, .ok)

def Grid.convert (g : Grid α) (conv : α → Option α) : Grid α × Out :=
  if g.flat.all (fun x => (conv x).isSome) then
    (⟨g.h, g.w, fun r c => (conv (g.cell r c)).getD (g.cell r c)⟩, .ok)
  else (g, .err .conversionFailed)

/-! ## operations, observers, runs -/

inductive Init (α : Type) where
  | new
  | full (v : α) (h w : Nat)
  | identity (zero one : α) (n : Nat)
  | fromNested (rows : List (List α))
  | fromNestedRef (conv : α → Option α) (rows : List (List α))
  | fromArray (m n : Nat) (f : Nat → Nat → α)
  | fromFlat (data : List α) (dflt : α) (h w : Nat)

inductive Op (α : Type) where
  | reshape (h : Nat)
  | transpose
  | transposeMut
  | swapRows (a b : Nat)
  | setIdx (r c : Nat) (v : α)
  | setRowCol (r c : Nat) (v : α)
  | setRow (r : Nat) (vs : List α)
  | fillRow (r : Nat) (v : α)
  | rowsMut (F : Nat → List α → List α) (hF : ∀ r row, (F r row).length = row.length)
  | map (f : α → α)
  | clone
  | convert (conv : α → Option α)

inductive Obs (α : Type) where
  | shape
  | size
  | isEmpty
  | getIdx (r c : Nat)
  | getRowCol (r c : Nat)
  | getRow (r : Nat)
  | rows
  | forRows
  | max
  | min
  | eqNested (other : List (List α))
  | eqNestedRev (other : List (List α))
  | display (fmt : α → List Char)
  | asScalar

def init : Init α → Res (Arr α)
  | .new => .ok Arr.new
  | .full v h w => .ok (Arr.full v h w)
  | .identity z o n => Arr.identity z o n
  | .fromNested rows => Arr.fromNested rows
  | .fromNestedRef conv rows => Arr.fromNestedRef conv rows
  | .fromArray m n f => .ok (Arr.fromArray m n f)
  | .fromFlat d v h w => Arr.fromFlat d v h w

def Grid.init [Inhabited α] : Init α → Res (Grid α)
  | .new => .ok Grid.new
  | .full v h w => .ok (Grid.full v h w)
  | .identity z o n => .ok (Grid.identity z o n)
  | .fromNested rows => Grid.fromNested rows
  | .fromNestedRef conv rows => Grid.fromNestedRef conv rows
  | .fromArray m n f => .ok (Grid.fromArray m n f)
  | .fromFlat d v h w => Grid.fromFlat d v h w

def step (s : Arr α) : Op α → Arr α × Out
  | .reshape h => s.reshape h
  | .transpose => s.transpose
  | .transposeMut => s.transposeMut
  | .swapRows a b => s.swapRows a b
  | .setIdx r c v => s.setIdx r c v
  | .setRowCol r c v => s.setRowCol r c v
  | .setRow r vs => s.setRow r vs
  | .fillRow r v => s.fillRow r v
  | .rowsMut F _ => s.rowsMut F
  | .map f => s.map f
  | .clone => s.clone
  | .convert conv => s.convert conv

def Grid.step (g : Grid α) : Op α → Grid α × Out
  | .reshape h => g.reshape h
  | .transpose => g.transpose
  | .transposeMut => g.transpose
  | .swapRows a b => g.swapRows a b
  | .setIdx r c v => g.set r c v
  | .setRowCol r c v => g.set r c v
  | .setRow r vs => g.setRow r vs
  | .fillRow r v => g.fillRow r v
  | .rowsMut F _ => g.rowsMut F
  | .map f => g.map f
  | .clone => (g, .ok)
  | .convert conv => g.convert conv

section observers
variable [DecidableEq α] [LT α] [DecidableRel (α := α) (· < ·)]

def optVal {β : Type} (f : β → Val α) : Option β → Val α
  | some x => f x
  | none => .panic

def obs (s : Arr α) : Obs α → Val α
  | .shape => .pair s.height s.width
  | .size => .nat s.inner.length
  | .isEmpty => .bool s.isEmpty
  | .getIdx r c => optVal .elem (s.at? r c)
  | .getRowCol r c => optVal .elem (s.at2? r c)
  | .getRow r => optVal .row (s.rowSlice? r)
  | .rows => optVal .rows s.rows?
  | .forRows => optVal .rows s.rows?
  | .max => s.extreme pickMax
  | .min => s.extreme pickMin
  | .eqNested other => s.eqNested other
  | .eqNestedRev other => s.eqNested other
  | .display fmt => s.display fmt
  | .asScalar => s.asScalar

def Grid.obs (g : Grid α) : Obs α → Val α
  | .shape => .pair g.h g.w
  | .size => .nat (g.h * g.w)
  | .isEmpty => .bool (g.h = 0 ∨ g.w = 0)
  | .getIdx r c => if r < g.h ∧ c < g.w then .elem (g.cell r c) else .panic
  | .getRowCol r c => if r < g.h ∧ c < g.w then .elem (g.cell r c) else .panic
  | .getRow r => if r < g.h then .row (g.row r) else .panic
  | .rows => .rows g.rows
  | .forRows => .rows g.rows
  | .max => .opt (reduce? pickMax g.flat)
  | .min => .opt (reduce? pickMin g.flat)
  | .eqNested other => .bool (g.rows = other)
  | .eqNestedRev other => .bool (other = g.rows)
  | .display fmt => .text (layout fmt g.h g.w g.rows)
  | .asScalar => if g.h = 1 ∧ g.w = 1 then .opt (some (g.cell 0 0)) else .opt none

/-- one script item: an operation and the observers evaluated after it -/
abbrev Item (α : Type) := Op α × List (Obs α)

/-- the trace of a script: per item the outcome and the observed values; and the final state -/
def run (s : Arr α) : List (Item α) → List (Out × List (Val α)) × Arr α
  | [] => ([], s)
  | (op, os) :: rest =>
    let (s', out) := step s op
    let (tr, fin) := run s' rest
    ((out, os.map (obs s')) :: tr, fin)

def Grid.run (g : Grid α) : List (Item α) → List (Out × List (Val α)) × Grid α
  | [] => ([], g)
  | (op, os) :: rest =>
    let (g', out) := Grid.step g op
    let (tr, fin) := Grid.run g' rest
    ((out, os.map (Grid.obs g')) :: tr, fin)

end observers

end SV.C12

/-! ### driver: `svdriver C12` runs the flat model at `Int` -/
namespace SV.C12.Driver
open SV SV.Wire SV.C12

def fmtInt (x : Int) : List Char := (toString x).toList

/-- `i32::try_from(i64)` -/
def conv32 (x : Int) : Option Int := if -2147483648 ≤ x ∧ x ≤ 2147483647 then some x else none

/-- element functions of `map` requests -/
def mapFn (code : Nat) (a b : Int) : Int → Int :=
  match code with
  | 0 => fun x => x + a
  | 1 => fun x => -x
  | 2 => fun x => Int.tmod (a * x + b) 1000
  | _ => fun _ => a

/-- row rewriters of `rowsmut` requests (all length preserving) -/
def rowFn (code : Nat) (a b : Int) : Nat → List Int → List Int :=
  match code with
  | 0 => fun r row => if (r : Int) = a then row.map (· + b) else row
  | 1 => fun r row => row.mapIdx fun c x => x + a * r + b * c
  | 2 => fun _ row => row.reverse
  | _ => fun r row => row.drop ((r + a.toNat) % row.length) ++ row.take ((r + a.toNat) % row.length)

theorem rowFn_length (code : Nat) (a b : Int) (r : Nat) (row : List Int) :
    (rowFn code a b r row).length = row.length := by
  unfold rowFn
  split
  · simp only; split <;> simp
  · simp
  · simp
  · simp only [List.length_append, List.length_drop, List.length_take]
    omega

def pRows : P (List (List Int)) := do
  let n ← nat
  many n (vec int)

/-- constructor; the flag asks for the `Arr2D<i32> → Arr2D<i64>` conversion the harness applies
after a `TryFrom<&Vec<Vec<i64>>> for Arr2D<i32>` -/
def pInit : P (Init Int × Bool) := do
  let c ← tok
  match c with
  | "new" => return (.new, false)
  | "full" => do
    let v ← int; let h ← nat; let w ← nat
    return (.full v h w, false)
  | "ident" => do
    let n ← nat
    return (.identity 0 1 n, false)
  | "nested" => do
    let rows ← pRows
    return (.fromNested rows, false)
  | "nestedref" => do
    let mode ← nat
    let rows ← pRows
    return if mode = 0 then (.fromNestedRef some rows, false) else (.fromNestedRef conv32 rows, true)
  | "array" => do
    let m ← nat; let n ← nat
    let xs ← many (m * n) int
    return (.fromArray m n fun r c => xs.getD (r * n + c) 0, false)
  | "flat" => do
    let d ← vec int
    let v ← int; let h ← nat; let w ← nat
    return (.fromFlat d v h w, false)
  | _ => fail

def pOp : P (Op Int) := do
  let c ← tok
  match c with
  | "reshape" => do let h ← nat; return .reshape h
  | "transpose" => return .transpose
  | "transposemut" => return .transposeMut
  | "swap" => do let a ← nat; let b ← nat; return .swapRows a b
  | "set" => do let r ← nat; let c ← nat; let v ← int; return .setIdx r c v
  | "set2" => do let r ← nat; let c ← nat; let v ← int; return .setRowCol r c v
  | "setrow" => do let r ← nat; let vs ← vec int; return .setRow r vs
  | "fillrow" => do let r ← nat; let v ← int; return .fillRow r v
  | "rowsmut" => do
    let _via ← nat
    let code ← nat; let a ← int; let b ← int
    return .rowsMut (rowFn code a b) (rowFn_length code a b)
  | "map" => do
    let code ← nat; let a ← int; let b ← int
    return .map (mapFn code a b)
  | "clone" => return .clone
  | "convert" => do
    let mode ← nat
    return .convert (if mode = 0 then some else conv32)
  | _ => fail

def fnv (s : List Char) : UInt64 :=
  s.foldl (fun h c => (h ^^^ c.toNat.toUInt64) * 1099511628211) 14695981039346656037

def fmtRow (xs : List Int) : String := fmtList fmtI xs

def fmtVal : Val Int → String
  | .pair a b => s!"{a} {b}"
  | .nat n => toString n
  | .bool b => if b then "1" else "0"
  | .elem x => fmtI x
  | .row xs => fmtRow xs
  | .rows xs => " ".intercalate (toString xs.length :: xs.map fmtRow)
  | .opt none => "none"
  | .opt (some x) => fmtI x
  | .text s => s!"{s.length} {(fnv s).toNat}"
  | .panic => "P"

def errKind : Err → String
  | .inconsistentRowLengths => "rows"
  | .invalidReshape _ _ => "reshape"
  | .invalidShape _ _ => "shape"
  | .conversionFailed => "conv"

def fmtOut : Out → String
  | .ok => "ok"
  | .err e => "err:" ++ errKind e
  | .panic => "panic"

/-- nested vectors that must differ from `t` -/
def perturb1 (t : List (List Int)) : List (List Int) :=
  match t.getLast? with
  | some row =>
    match row.getLast? with
    | some x => t.dropLast ++ [row.dropLast ++ [x + 1]]
    | none => t ++ [[]]
  | none => t ++ [[]]
def perturb2 (t : List (List Int)) : List (List Int) :=
  match t.getLast? with
  | some row => t.dropLast ++ [row ++ [0]]
  | none => [[0]]
def perturb3 (t : List (List Int)) : List (List Int) :=
  if t.isEmpty then [[], []] else t.dropLast

/-- the observers evaluated after every step (the harness evaluates the same ones on `Arr2D`) -/
def observers (s : Arr Int) : List (String × List (Obs Int)) :=
  let h := min s.height 64
  let w := min s.width 64
  let cells := (List.range h).flatMap fun r => (List.range w).map fun c => (r, c)
  let t : List (List Int) := match obs s .rows with | .rows t => t | _ => []
  [ ("S", [.shape, .size, .isEmpty]),
    ("A", cells.map fun (r, c) => .getIdx r c),
    ("B", cells.map fun (r, c) => .getRowCol r c),
    ("G", (List.range h).map .getRow),
    ("R", [.rows]),
    ("I", [.forRows]),
    ("M", [.max, .min]),
    ("Q", [.eqNested t, .eqNestedRev t, .eqNested (perturb1 t), .eqNestedRev (perturb2 t), .eqNested (perturb3 t)]),
    ("D", [.display fmtInt]),
    ("C", [.asScalar]),
    ("X", [.getIdx s.height 0, .getIdx 0 s.width, .getRowCol s.height 0, .getRowCol 0 s.width, .getRow s.height]) ]

def observe (s : Arr Int) : String :=
  " ".intercalate ((observers s).map fun (tag, os) =>
    " ".intercalate (tag :: os.map fun o => fmtVal (obs s o)))

/-- `[last] <constructor> <n> <op>*`; with `last` only the outcomes are printed for all but the final
operation -/
def handle (line : String) : String :=
  let p : P String := do
    let lastOnly ← (fun ts => match ts with
      | "last" :: r => some (true, r)
      | _ => some (false, ts) : P Bool)
    let (i, back) ← pInit
    let n ← nat
    let ops ← many n pOp
    match init i with
    | .err e => return "err:" ++ errKind e
    | .panic => return "panic"
    | .ok s0 =>
      let s0 := if back then (step s0 (.convert some)).1 else s0
      let (parts, _, _) := ops.foldl (fun (acc : List String × Arr Int × Nat) op =>
        let (s', out) := step acc.2.1 op
        let k := acc.2.2 + 1
        let part := if lastOnly && k != n then fmtOut out else fmtOut out ++ " " ++ observe s'
        (part :: acc.1, s', k)) ([], s0, 0)
      let first := if lastOnly && n != 0 then "ok" else "ok " ++ observe s0
      return " | ".intercalate (first :: parts.reverse)
  match Wire.run p line with
  | some s => s
  | none => "bad-request"

end SV.C12.Driver
