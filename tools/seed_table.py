#!/usr/bin/env python3
"""prints the markdown tables of seeded changes from seeded/*/meta.json:
 breaking seeds (-s1, -s2, -s3): first measurement (check as it was when the seed arrived) and current result
 (tools/reeval_seeds.py: meta["current"]); property-preserving changes (-b1..-b5): alarm or quiet."""
import json, glob, os, re
ROOT = os.path.dirname(os.path.dirname(os.path.abspath(__file__)))


def first_line(d):
    p = os.path.join(d, "notes.md")
    notes = open(p).read() if os.path.exists(p) else ""
    for line in notes.split("\n"):
        l = line.strip()
        if l and not l.startswith("#") and not l.startswith("```") and len(l) > 40:
            return re.sub(r"\s+", " ", l).replace("|", "/")[:150]
    return ""


def verdict(q, t=None):
    """q/t: dicts with alarm|caught, no_failing_input or a tail"""
    def one(x):
        if x is None:
            return None
        al = x.get("alarm", x.get("caught"))
        nfi = x.get("no_failing_input")
        if nfi is None:
            nfi = "no-failing-input-found" in x.get("tail", "")
        return (bool(al), bool(nfi))
    a, b = one(q), one(t)
    if a and a[0]:
        return "quick: correspondence only" if a[1] else "quick: failing input"
    if b and b[0]:
        return "thorough only" + (" (correspondence only)" if b[1] else "")
    return "MISSED"


rows_s, rows_b = [], []
for d in sorted(glob.glob(os.path.join(ROOT, "seeded", "*"))):
    mp = os.path.join(d, "meta.json")
    if not os.path.exists(mp):
        continue
    m = json.load(open(mp))
    sid = os.path.basename(d)
    cur = m.get("current")
    if "-s" in sid:
        hist = m.get("history", "")
        first = verdict(m.get("check_quick", {}), m.get("check_thorough"))
        if hist.startswith("MISSED by the first version of the quick tier"):
            first = "thorough only (first version)"
        elif hist.startswith("MISSED by the first version"):
            first = "MISSED (first version)"
        elif "MISSED" in hist.upper() and "first version" in hist.lower():
            mm = re.search(r"quick (MISSED|caught[^,.;]*)[,;]? thorough (MISSED|caught)", hist)
            first = ("MISSED" if mm and mm.group(1) == "MISSED" and mm.group(2) == "MISSED" else
                     "thorough only" if mm and mm.group(1) == "MISSED" else first) + " (first version)"
        elif "correspondence only" in hist.lower() and "first version" in hist.lower():
            first = "quick: correspondence only (first version)"
        now = "—"
        if cur:
            now = "ERROR: " + cur["error"][:60] if "error" in cur else verdict(cur.get("quick", {}), cur.get("thorough"))
        rows_s.append(f"| {sid} | {first_line(d)} | {first} | {now} |")
    else:
        q = m.get("check_quick", {})
        first = ("alarm" + (" (correspondence only)" if q.get("no_failing_input") else " WITH a 'failing input'")) if q.get("alarm") else "quiet"
        now = "—"
        if cur:
            cq = cur.get("quick", {})
            now = "ERROR" if "error" in cur else (("alarm" + (" (correspondence only)" if cq.get("no_failing_input") else " WITH a 'failing input'")) if cq.get("alarm") else "quiet")
        rows_b.append(f"| {sid} | {first_line(d)} | {first} | {now} |")

print("| seed | what the change is (from notes.md) | when it arrived | current checks |")
print("|---|---|---|---|")
print("\n".join(rows_s))
print()
print("| property-preserving change | what it is (from notes.md) | when it arrived | current checks |")
print("|---|---|---|---|")
print("\n".join(rows_b))
