"""C12 plug-in: evidence tags, non-triviality rule, whole-run notes and a shrinker for failing scripts.
Comparison is the default token-wise one (all fields are discrete)."""
import re

RULE = ("request = [last] one constructor + a list of <= 40 operations; the answer lists the outcome and the full "
        "observation vector (shape, size, every element through both index forms, every row through the row index and "
        "both iterators, max/min, == against the nested vector in both directions and against three perturbed vectors, "
        "Display length+hash, as_scalar, five out-of-range accesses) after the constructor and after EVERY operation. "
        "Generators: (1) every constructor on every shape 0..4 x 0..4 incl. padded/empty/oversized flat data, ragged rows "
        "and inconvertible items; (2) breadth-first over ALL operation sequences to depth 3 (quick) / 4 (thorough) from "
        "the shapes 0..3 x 0..3 with every parameter value 0..4, de-duplicated on the structural state of the "
        "implementation (shape, buffer length, arrangement of the items in the hidden buffer): every (state, operation) "
        "pair is one request = canonical path to the state + the operation (breadth-first requests of two or more "
        "operations carry the prefix `last`: the path they extend is itself a request of the generator, so by induction "
        "every prefix is observed in full by an earlier request and only outcomes are printed for the prefix; the harness "
        "oracle still checks every step in full); (2b) the same exploration run to a FIXPOINT of the structural state space "
        "(no depth bound: until no new arrangement appears) under the shape-changing and rearranging operations from "
        "every shape with at most 4 (quick) / 6 (thorough) cells; (3) 3000 (quick) / 30000 (thorough) random scripts of 40 "
        "operations on shapes up to 6 x 6 from all constructors; (4) shapes with a dimension of 7..65 (every value 7..40 as "
        "height and as width, squares 7..20, 32x33, 17x34, 40x40): a chain of every rearranging operation on a labelled array, a "
        "chain of invalid arguments, 350/4000 random scripts (requests on more than 150 cells carry `last`: the model prints "
        "the full observation after the last step only; the harness oracle judges every step); (5) text layout with items of "
        "1..20 characters of both signs; (6) ragged nested vectors of 2..12 rows with one or two deviating rows (also "
        "compensating ones). ORACLE-ONLY observers after every step (not printed, judged against the plain grid): iterator "
        "protocol (size_hint before/after a row, count, nth, last, skip; rows_mut and `for row in &mut arr` row counts, writes "
        "through nth/last), == in both directions against nested vectors with one item changed (corners, middle), one row "
        "longer/shorter, the same items with a row boundary moved, the transposed / flattened vector, one row more/less and "
        "(shapes up to 3 x 3) EVERY tuple of row lengths 0..w+1; the array mapped to f64 and to String (shape, both index "
        "forms, rows, max/min, Display, ==, as_scalar, transpose, reshape), converted to u8 / i128; copying transpose and its "
        "involution; as_scalar_unchecked; per constructor: identity at f64/i32/i128, from_flat from Vec/&Vec/slice/Box/Rc and at "
        "String items, nested constructors at String/i128/f64 items incl. their refusal of ragged rows; NON-ASCII item texts "
        "(hardening 4): the array mapped to &str / String / char items of 0..4 characters with 2-, 3- and 4-byte characters "
        "(value-dependent and position-dependent texts; through map, writes with both index forms and rows_mut, the nested "
        "and the padded flat constructor; transposed and reshaped): rows, both index forms, max/min, == both ways and "
        "against a vector with one other item, clone, and Display against the grid layout - every column right-aligned "
        "to its widest item, padding counted in CHARACTERS; the widest item counted in characters (the model's layout) "
        "or in bytes (what the pinned tree does: still a rectangle) are both accepted, see BYTE_COUNTED_WIDTH_ACCEPTED in "
        "harness/src/c12.rs; (7) arrays with SPARE CAPACITY (from_flat with more than half of the items, shapes 1..4 x 1..4): "
        "every operation of the alphabet, and every rearranging operation followed by the operations that rebuild or re-read "
        "the buffer; `clone` requests alternate between clone() and clone_from into an existing larger array. non-trivial = the constructor succeeds, at least one "
        "operation succeeds and the array is non-empty after some step; distinct = distinct request lines")

ARITY = {"reshape": 1, "transpose": 0, "transposemut": 0, "swap": 2, "set": 3, "set2": 3, "fillrow": 2,
         "rowsmut": 4, "map": 3, "clone": 0, "convert": 1}


def _split(req):
    """-> (prefix tokens incl. constructor, [op token lists])"""
    t = req.split()
    i = 0
    pre = []
    if t[0] == "last":
        i = 1
    c = t[i]
    j = i + 1
    if c == "new":
        pass
    elif c == "full":
        j += 3
    elif c == "ident":
        j += 1
    elif c in ("nested", "nestedref"):
        if c == "nestedref":
            j += 1
        n = int(t[j]); j += 1
        for _ in range(n):
            j += 1 + int(t[j])
    elif c == "array":
        j += 2 + int(t[i + 1]) * int(t[i + 2])
    elif c == "flat":
        j += 1 + int(t[j]) + 3
    pre = t[i:j]
    n = int(t[j]); j += 1
    ops = []
    for _ in range(n):
        name = t[j]
        if name == "setrow":
            k = 3 + int(t[j + 2])
        else:
            k = 1 + ARITY[name]
        ops.append(t[j:j + k]); j += k
    return pre, ops


def _join(pre, ops):
    return " ".join(pre + [str(len(ops))] + [x for o in ops for x in o])


def nontrivial(req, model):
    parts = model.split(" | ")
    if not parts or not parts[0].startswith("ok"):
        return False
    some_ok = any(p.startswith("ok") for p in parts[1:])
    nonempty = any(re.search(r"S \d+ \d+ [1-9]", p) for p in parts)
    return some_ok and nonempty


def tag(req, model):
    try:
        pre, ops = _split(req)
    except Exception:
        return "unparsed"
    parts = model.split(" | ")
    if not ops:
        return f"{pre[0]}:-:{parts[0].split()[0] if parts and parts[0] else 'empty'}"
    last = parts[-1].split()[0] if len(parts) == len(ops) + 1 else "ctor-" + (parts[0].split()[0] if parts[0] else "?")
    return f"{pre[0]}:{ops[-1][0]}:{last}"


def finish(rows, tier):
    steps = {"ok": 0, "panic": 0, "err": 0}
    ctor_fail = 0
    for (req, impl, horc, model) in rows:
        parts = model.split(" | ")
        if not parts[0].startswith("ok"):
            ctor_fail += 1
        for p in parts[1:]:
            k = p.split(" ", 1)[0]
            steps["err" if k.startswith("err") else k if k in steps else "ok"] += 1
    return [f"operation outcomes in the model over all steps: {steps['ok']} ok, {steps['err']} error values, "
            f"{steps['panic']} panics; {ctor_fail} failing constructors"]


def shrink(f, rerun):
    """greedy: cut the script after the first failing step, then drop earlier operations one by one"""
    req, impl, model, reason = f
    try:
        pre, ops = _split(req)
    except Exception:
        return f
    best = (req, impl, model, reason)

    def fails(cand_ops):
        r = _join(pre, cand_ops)
        i, m, k, s = rerun(r)
        return (r, i, m, s) if s is not None else None

    m = re.match(r"step (\d+) ", reason or "")
    if m and int(m.group(1)) < len(ops):
        got = fails(ops[:int(m.group(1))])
        if got:
            best, ops = got, ops[:int(m.group(1))]
    elif (reason or "").startswith("after `") and ops:
        got = fails([])
        if got:
            return got
    budget = 60
    i = 0
    while i < len(ops) - 1 and budget > 0:
        budget -= 1
        cand = ops[:i] + ops[i + 1:]
        got = fails(cand)
        if got:
            best, ops = got, cand
        else:
            i += 1
    return best
