import Mathlib.Algebra.Polynomial.Derivative
import Mathlib.Algebra.Polynomial.Eval.Defs
import Mathlib.Tactic.Ring

/-! bridge between coefficient lists (SimplePolynomial) and Mathlib polynomials -/
namespace PB
open Polynomial

variable {R : Type} [CommRing R]

/-- dense coefficient list, index = power, as a Mathlib polynomial (offset `k`) -/
noncomputable def ofCoeffsFrom : ℕ → List R → R[X]
  | _, [] => 0
  | k, c :: cs => C c * X ^ k + ofCoeffsFrom (k+1) cs

noncomputable def ofCoeffs (cs : List R) : R[X] := ofCoeffsFrom 0 cs

/-- model of eval_simple_polynomial: Σ c_i * x^i accumulated left to right from 0 -/
def evalFrom (x : R) : ℕ → List R → R → R
  | _, [], acc => acc
  | k, c :: cs, acc => evalFrom x (k+1) cs (acc + c * x ^ k)
def evalSimple (x : R) (cs : List R) : R := evalFrom x 0 cs 0

/-- model of simple_derivative: skip(1), c * power -/
def derivFrom : ℕ → List R → List R
  | _, [] => []
  | k, c :: cs => (c * (k : R)) :: derivFrom (k+1) cs
def simpleDeriv : List R → List R
  | [] => []
  | _ :: cs => derivFrom 1 cs

theorem evalFrom_eq (x : R) (k : ℕ) (cs : List R) (acc : R) :
    evalFrom x k cs acc = acc + (ofCoeffsFrom k cs).eval x := by
  induction cs generalizing k acc with
  | nil => simp [evalFrom, ofCoeffsFrom]
  | cons c cs ih => simp [evalFrom, ofCoeffsFrom, ih]; ring

theorem evalSimple_eq (x : R) (cs : List R) : evalSimple x cs = (ofCoeffs cs).eval x := by
  simp [evalSimple, ofCoeffs, evalFrom_eq]

theorem derivFrom_correct (k : ℕ) (cs : List R) :
    ofCoeffsFrom k (derivFrom (k+1) cs) = derivative (ofCoeffsFrom (k+1) cs) := by
  induction cs generalizing k with
  | nil => simp [derivFrom, ofCoeffsFrom]
  | cons c cs ih =>
    simp only [derivFrom, ofCoeffsFrom, derivative_add, derivative_C_mul, derivative_X_pow, ih]
    simp only [Nat.add_sub_cancel, Nat.cast_add, Nat.cast_one, map_mul, map_add, map_natCast, map_one]
    ring

theorem simple_deriv_correct (cs : List R) :
    ofCoeffs (simpleDeriv cs) = derivative (ofCoeffs cs) := by
  cases cs with
  | nil => simp [simpleDeriv, ofCoeffs, ofCoeffsFrom]
  | cons c cs =>
    simp only [simpleDeriv, ofCoeffs, ofCoeffsFrom, derivative_add, derivFrom_correct]
    simp

end PB
