import SV.Model.C12
import SV.Lemmas.C12
import SV.Props.C12
/-!
# C12 — algebraic laws of the flat-buffer model `Arr` of `Arr2D<T>`, for every shape at once

The laws are statements about the CONCRETE model (`step`, `obs` on `Arr`, the functions tied to the
Rust code), for every array whose hidden buffer has `height * width` items (`R s g` for some grid `g`;
`consistent_iff_exists_grid` says that this is exactly the invariant `inv_run` proves of every
reachable array), of every shape — `0 × n`, `n × 0`, `1 × n`, heights and widths in the hundreds or
millions, no size bound — and for every element type:

1. `transpose` / `transpose_mut` applied twice (in any of the four combinations) give back the very
   same array: same height, width and buffer (`transpose_involution`), hence the same value of every
   observer (`transpose_involution_obs`), after every script prefix (`transpose_twice_run`);
2. `transpose` really transposes: the shape is swapped and element `(r, c)` afterwards is element
   `(c, r)` before, through both index forms (`transpose_shape`, `transpose_at2`, `transpose_at`,
   `transpose_getRowCol`);
3. `swap_rows(a, b)` twice is the identity, and `swap_rows(a, b) = swap_rows(b, a)`;
4. `reshape` never touches the buffer, and `reshape(h')` followed by `reshape(original height)` is
   the identity;
5. `map f` then `map g` is `map (g ∘ f)`, and `map` commutes with `transpose`.

A transpose that is correct for heights up to 64 and wrong above (a blocked variant with a faulty
block boundary, say) contradicts (1) and (2) at every height above 64; no finite test settles them.

Proof route: the laws are one-liners on the abstract `Grid`; `R_step` transfers them to `Arr`, and two
arrays related to grids with the same cells are the same array (`arr_eq_of_R`, because the buffer
*is* the row-major listing of the grid, `R_flat`).
-/
namespace SV.Props.C12Laws
open SV.C12 SV.Props.C12

variable {α : Type}

/-! ### the bridge: related to some grid = buffer of `height * width` items -/

/-- the grid a consistent array shows (`d` only fills the cells outside the buffer, which `R` never
looks at) -/
def gridOf (d : α) (s : Arr α) : Grid α :=
  ⟨s.height, s.width, fun r c => (s.inner[r * s.width + c]?).getD d⟩

/-- An array whose buffer has `height * width` items is related to the grid read off its buffer. -/
theorem R_gridOf (d : α) (s : Arr α) (hc : s.inner.length = s.height * s.width) : R s (gridOf d s) := by
  refine ⟨rfl, rfl, hc, ?_⟩
  intro r c hr hcw
  have hlt : r * s.width + c < s.inner.length := by rw [hc]; exact idx_lt hr hcw
  simp only [gridOf]
  rw [List.getElem?_eq_getElem hlt]
  rfl

/-- The hypothesis `R s g` of all the laws below says no more than the invariant of `Arr2D` (the
buffer has `height * width` items; `SV.Props.C12.inv_run`: true after every constructor and every
operation sequence): every such array is related to a grid, for every non-empty element type. -/
theorem consistent_iff_exists_grid [Nonempty α] (s : Arr α) :
    s.inner.length = s.height * s.width ↔ ∃ g, R s g :=
  ⟨fun hc => ⟨gridOf (Classical.choice ‹Nonempty α›) s, R_gridOf _ s hc⟩, fun ⟨_, h⟩ => h.2.2.1⟩

/-- Two arrays related to grids of the same shape with the same cells inside the shape are the same
array: same height, same width, same buffer. -/
theorem arr_eq_of_R {s s' : Arr α} {g g' : Grid α} (h : R s g) (h' : R s' g')
    (hh : g'.h = g.h) (hw : g'.w = g.w)
    (hc : ∀ r c, r < g.h → c < g.w → g'.cell r c = g.cell r c) : s' = s := by
  have h2 : R s g' := R_congr h hh hw hc
  have e1 := h2.flat
  have e2 := h'.flat
  have a1 := h2.1
  have a2 := h'.1
  have b1 := h2.2.1
  have b2 := h'.2.1
  rcases s with ⟨i, a, b⟩
  rcases s' with ⟨i', a', b'⟩
  simp only at e1 e2 a1 a2 b1 b2
  rw [e1, e2, a1, a2, b1, b2]

/-- `op` is one of the two transposes of `Arr2D`: the copying `transpose()` or `transpose_mut()` -/
def IsTranspose (op : Op α) : Prop := op = .transpose ∨ op = .transposeMut

private theorem gstep_transpose {op : Op α} (ht : IsTranspose op) (g : Grid α) :
    Grid.step g op = (⟨g.w, g.h, fun r c => g.cell c r⟩, .ok) := by
  rcases ht with rfl | rfl <;> rfl

/-! ### (1) transpose is an involution -/

/-- **Transpose twice is the identity, structurally.**  For every consistent array of every shape
(no bound on height or width, empty shapes included) and every element type: a transpose
(`transpose()` or `transpose_mut()`) does not panic, and a second transpose (either one again)
returns exactly the original array — same `height`, same `width`, same hidden buffer — with outcome
`ok`.  All four combinations `transpose/transpose`, `mut/mut`, `transpose/mut`, `mut/transpose`. -/
theorem transpose_involution {s : Arr α} {g : Grid α} (h : R s g) {op1 op2 : Op α}
    (h1 : IsTranspose op1) (h2 : IsTranspose op2) :
    (step s op1).2 = .ok ∧ step (step s op1).1 op2 = (s, .ok) := by
  have a := R_step s g op1 h
  have b := R_step _ _ op2 a.1
  rw [gstep_transpose h1] at a
  rw [gstep_transpose h1, gstep_transpose h2] at b
  refine ⟨a.2, Prod.ext ?_ b.2⟩
  exact arr_eq_of_R h b.1 rfl rfl (fun _ _ _ _ => rfl)

section observers
variable [DecidableEq α] [LT α] [DecidableRel (α := α) (· < ·)]

/-- **Transpose twice is the identity, observationally**: every observer of `Arr2D` (`shape`,
`size`, both index forms, rows, iterators, `max`/`min`, `==`, `Display`, `as_scalar`) returns after
two transposes what it returned before them. -/
theorem transpose_involution_obs {s : Arr α} {g : Grid α} (h : R s g) {op1 op2 : Op α}
    (h1 : IsTranspose op1) (h2 : IsTranspose op2) (o : Obs α) :
    obs (step (step s op1).1 op2).1 o = obs s o := by
  rw [(transpose_involution h h1 h2).2]

/-- `run` of a concatenated script: the trace is the concatenation, the second part starts where the
first one ended. -/
theorem run_append (s : Arr α) (p q : List (Item α)) :
    run s (p ++ q) = ((run s p).1 ++ (run (run s p).2 q).1, (run (run s p).2 q).2) := by
  induction p generalizing s with
  | nil => rfl
  | cons item rest ih =>
    obtain ⟨op, os⟩ := item
    simp only [List.cons_append, run, ih, List.cons_append]

/-- **Transferred form, every history.**  From every consistent initial array and after every script
prefix `pre` (any operations, any length), appending two transposes (any combination, observers
`os1` after the first and `os2` after the second) ends in exactly the state `pre` alone ends in; both
transposes succeed, and the observers `os2` see what they see at the end of `pre`.  So the scripts
`pre ++ [transpose, transpose]` and `pre` are indistinguishable by anything that follows. -/
theorem transpose_twice_run {s : Arr α} {g : Grid α} (h : R s g) (pre : List (Item α))
    {op1 op2 : Op α} (h1 : IsTranspose op1) (h2 : IsTranspose op2) (os1 os2 : List (Obs α)) :
    (run s (pre ++ [(op1, os1), (op2, os2)])).2 = (run s pre).2 ∧
    (run s (pre ++ [(op1, os1), (op2, os2)])).1 =
      (run s pre).1 ++ [(.ok, os1.map (obs (step (run s pre).2 op1).1)),
                        (.ok, os2.map (obs (run s pre).2))] := by
  have hfin := (refines_run pre s g h).2
  obtain ⟨e1, e2⟩ := transpose_involution hfin h1 h2
  rw [run_append]
  simp only [run, e1, e2]
  exact ⟨trivial, trivial⟩

/-- The same for any continuation: after `pre ++ [transpose, transpose]` every further script `post`
produces the trace it produces after `pre`. -/
theorem transpose_twice_run_post {s : Arr α} {g : Grid α} (h : R s g) (pre post : List (Item α))
    {op1 op2 : Op α} (h1 : IsTranspose op1) (h2 : IsTranspose op2) (os1 os2 : List (Obs α)) :
    run (run s (pre ++ [(op1, os1), (op2, os2)])).2 post = run (run s pre).2 post := by
  rw [(transpose_twice_run h pre h1 h2 os1 os2).1]

/-- **From every constructor.**  Whatever constructor built the array (`new`, `full`, `identity`,
the `TryFrom` conversions, `from_flat`, an array literal) and whatever script `pre` ran on it since,
two transposes put it back exactly where it was, and both succeed. -/
theorem transpose_twice_from_init [Inhabited α] (i : Init α) (s : Arr α) (hs : init i = .ok s)
    (pre : List (Item α)) {op1 op2 : Op α} (h1 : IsTranspose op1) (h2 : IsTranspose op2)
    (os1 os2 : List (Obs α)) :
    (run s (pre ++ [(op1, os1), (op2, os2)])).2 = (run s pre).2 ∧
    (run s (pre ++ [(op1, os1), (op2, os2)])).1 =
      (run s pre).1 ++ [(.ok, os1.map (obs (step (run s pre).2 op1).1)),
                        (.ok, os2.map (obs (run s pre).2))] := by
  rcases refines_from_init i [] with ⟨e, he, _⟩ | ⟨s', g, hs', _, _, hR⟩
  · rw [hs] at he; cases he
  · rw [hs] at hs'; cases hs'
    exact transpose_twice_run hR pre h1 h2 os1 os2

end observers

/-! #### the empty element type (no grid exists there, but the array is then `⟨[], h, w⟩` with
`h = 0 ∨ w = 0` and the code can be run by hand) -/

private theorem list_nil_of_empty (hE : ¬ Nonempty α) (l : List α) : l = [] := by
  cases l with
  | nil => rfl
  | cons x _ => exact absurd ⟨x⟩ hE

private theorem transposeInner_some_of_zero (s : Arr α) (h0 : s.height = 0 ∨ s.width = 0) :
    ∃ l, s.transposeInner = some l := by
  unfold Arr.transposeInner
  rcases h0 with h0 | h0
  · have e : collect ((List.range s.width).map fun col =>
        collect ((List.range s.height).map fun row => s.at? row col)) =
        some ((List.range s.width).map fun _ => []) := by
      apply collect_map_some
      intro col _
      rw [h0]
      rfl
    rw [e]
    exact ⟨_, rfl⟩
  · rw [h0]
    exact ⟨_, rfl⟩

private theorem step_transpose_empty (hE : ¬ Nonempty α) (s : Arr α)
    (hc : s.inner.length = s.height * s.width) {op : Op α} (ht : IsTranspose op) :
    step s op = (⟨[], s.width, s.height⟩, .ok) := by
  have h0 : s.height = 0 ∨ s.width = 0 := by
    rw [list_nil_of_empty hE s.inner] at hc
    exact Nat.mul_eq_zero.mp hc.symm
  obtain ⟨l, hl⟩ := transposeInner_some_of_zero s h0
  have hl0 := list_nil_of_empty hE l
  subst hl0
  rcases ht with rfl | rfl <;> simp only [step, Arr.transpose, Arr.transposeMut, hl]

/-- (1) stated with the invariant of `Arr2D` itself instead of a grid, for EVERY element type (the
empty type included): for every array whose buffer has `height * width` items, a transpose succeeds
and two transposes (any combination of `transpose()` / `transpose_mut()`) return exactly that
array. -/
theorem transpose_involution_consistent (s : Arr α)
    (hc : s.inner.length = s.height * s.width) {op1 op2 : Op α}
    (h1 : IsTranspose op1) (h2 : IsTranspose op2) :
    (step s op1).2 = .ok ∧ step (step s op1).1 op2 = (s, .ok) := by
  by_cases hN : Nonempty α
  · obtain ⟨g, h⟩ := (consistent_iff_exists_grid s).mp hc
    exact transpose_involution h h1 h2
  · rw [step_transpose_empty hN s hc h1]
    refine ⟨rfl, ?_⟩
    have hc' : (⟨[], s.width, s.height⟩ : Arr α).inner.length =
        (⟨[], s.width, s.height⟩ : Arr α).height * (⟨[], s.width, s.height⟩ : Arr α).width := by
      simp only
      rw [Nat.mul_comm, ← hc, list_nil_of_empty hN s.inner]
    rw [step_transpose_empty hN _ hc' h2]
    rcases s with ⟨i, a, b⟩
    simp only
    rw [list_nil_of_empty hN i]

/-! ### (2) transpose really transposes -/

/-- A transpose swaps the shape: the new height is the old width and the new width the old height;
the buffer length is unchanged. -/
theorem transpose_shape {s : Arr α} {g : Grid α} (h : R s g) {op : Op α} (ht : IsTranspose op) :
    (step s op).1.height = s.width ∧ (step s op).1.width = s.height ∧
    (step s op).1.inner.length = s.inner.length := by
  have a := R_step s g op h
  rw [gstep_transpose ht] at a
  have a1 := a.1.1
  have a2 := a.1.2.1
  have a3 := a.1.2.2.1
  simp only at a1 a2
  refine ⟨by rw [a1, h.2.1], by rw [a2, h.1], ?_⟩
  rw [a3, a1, a2, h.2.2.1, h.1, h.2.1, Nat.mul_comm]

/-- **Element `(r, c)` of the transposed array is element `(c, r)` of the original**, through the
row-then-column index form `arr[r][c]` — for every `r`, `c` (outside the shape both sides panic),
every shape, every element type. -/
theorem transpose_at2 {s : Arr α} {g : Grid α} (h : R s g) {op : Op α} (ht : IsTranspose op)
    (r c : Nat) : (step s op).1.at2? r c = s.at2? c r := by
  have a := R_step s g op h
  rw [gstep_transpose ht] at a
  rw [a.1.at2?, h.at2?]
  simp only [and_comm]

/-- The same through the tuple index form `arr[(r, c)]`. -/
theorem transpose_at {s : Arr α} {g : Grid α} (h : R s g) {op : Op α} (ht : IsTranspose op)
    (r c : Nat) : (step s op).1.at? r c = s.at? c r := by
  have a := R_step s g op h
  rw [gstep_transpose ht] at a
  by_cases hb : c < g.h ∧ r < g.w
  · rw [h.at? hb.1 hb.2, a.1.at? (g := ⟨g.w, g.h, fun r c => g.cell c r⟩) hb.2 hb.1]
  · rw [h.at?_none hb, a.1.at?_none (g := ⟨g.w, g.h, fun r c => g.cell c r⟩) (by
      simp only; intro hb'; exact hb ⟨hb'.2, hb'.1⟩)]

/-- Inside the (swapped) shape the read does not panic: it is an element, the one at `(c, r)` of the
original. -/
theorem transpose_at2_in_range {s : Arr α} {g : Grid α} (h : R s g) {op : Op α}
    (ht : IsTranspose op) {r c : Nat} (hr : r < s.width) (hc : c < s.height) :
    ∃ x, (step s op).1.at2? r c = some x ∧ s.at2? c r = some x ∧ s.inner[c * s.width + r]? = some x := by
  refine ⟨g.cell c r, ?_, ?_, ?_⟩
  · rw [transpose_at2 h ht, h.at2?, if_pos ⟨by rw [← h.1]; exact hc, by rw [← h.2.1]; exact hr⟩]
  · rw [h.at2?, if_pos ⟨by rw [← h.1]; exact hc, by rw [← h.2.1]; exact hr⟩]
  · rw [h.2.1]
    exact h.2.2.2 c r (by rw [← h.1]; exact hc) (by rw [← h.2.1]; exact hr)

/-- (2) stated with the invariant of `Arr2D` itself and directly on the buffer: for every array whose
buffer has `height * width` items, a transpose succeeds, swaps `height` and `width`, and the item at
offset `r * new_width + c` of the new buffer is the item at offset `c * old_width + r` of the old one,
for all `r < old_width`, `c < old_height` — no bound on either. -/
theorem transpose_buffer_consistent (s : Arr α)
    (hc : s.inner.length = s.height * s.width) {op : Op α} (ht : IsTranspose op) :
    (step s op).2 = .ok ∧ (step s op).1.height = s.width ∧ (step s op).1.width = s.height ∧
    ∀ r c, r < s.width → c < s.height →
      (step s op).1.inner[r * s.height + c]? = s.inner[c * s.width + r]? ∧
      (s.inner[c * s.width + r]?).isSome := by
  by_cases hN : Nonempty α
  case neg =>
    rw [step_transpose_empty hN s hc ht]
    refine ⟨rfl, rfl, rfl, ?_⟩
    intro r c hr hcc
    have h0 : s.height * s.width = 0 := by
      rw [← hc, list_nil_of_empty hN s.inner]; rfl
    rcases Nat.mul_eq_zero.mp h0 with h0 | h0 <;> omega
  obtain ⟨g, h⟩ := (consistent_iff_exists_grid s).mp hc
  have a := R_step s g op h
  rw [gstep_transpose ht] at a
  refine ⟨a.2, (transpose_shape h ht).1, (transpose_shape h ht).2.1, ?_⟩
  intro r c hr hcc
  have hr' : r < g.w := by rw [← h.2.1]; exact hr
  have hc' : c < g.h := by rw [← h.1]; exact hcc
  have e1 := a.1.2.2.2 r c hr' hc'
  have e2 := h.2.2.2 c r hc' hr'
  simp only at e1
  rw [h.1, h.2.1, e1, e2]
  exact ⟨rfl, rfl⟩

section observers
variable [DecidableEq α] [LT α] [DecidableRel (α := α) (· < ·)]

/-- Observer form of (2): `getRowCol r c` after a transpose = `getRowCol c r` before, `getIdx r c`
after = `getIdx c r` before, and `shape` after is the swapped `shape` before. -/
theorem transpose_getRowCol {s : Arr α} {g : Grid α} (h : R s g) {op : Op α} (ht : IsTranspose op)
    (r c : Nat) :
    obs (step s op).1 (.getRowCol r c) = obs s (.getRowCol c r) ∧
    obs (step s op).1 (.getIdx r c) = obs s (.getIdx c r) ∧
    obs (step s op).1 .shape = .pair s.width s.height := by
  refine ⟨?_, ?_, ?_⟩
  · simp only [obs, transpose_at2 h ht]
  · simp only [obs, transpose_at h ht]
  · simp only [obs, (transpose_shape h ht).1, (transpose_shape h ht).2.1]

end observers

section observers
variable [DecidableEq α] [LT α] [DecidableRel (α := α) (· < ·)]

/-- The rows the row iterator yields after a transpose are the columns of the grid before it, in
order — `width` rows of `height` items each, for every shape. -/
theorem transpose_rows {s : Arr α} {g : Grid α} (h : R s g) {op : Op α} (ht : IsTranspose op) :
    obs (step s op).1 .rows =
      .rows ((List.range s.width).map fun c => (List.range s.height).map fun r => g.cell r c) := by
  have a := R_step s g op h
  rw [gstep_transpose ht] at a
  rw [R_obs _ _ .rows a.1, h.1, h.2.1]
  rfl

end observers

/-! ### (3) row swaps -/

private theorem grid_swap_ok {g : Grid α} {a b : Nat} (hb : ¬(a ≥ g.h ∨ b ≥ g.h)) :
    Grid.step g (.swapRows a b) =
      (⟨g.h, g.w, fun r c => g.cell (if r = a then b else if r = b then a else r) c⟩, .ok) := by
  simp only [Grid.step, Grid.swapRows]
  rw [if_neg hb]

private theorem grid_swap_bad {g : Grid α} {a b : Nat} (hb : a ≥ g.h ∨ b ≥ g.h) :
    Grid.step g (.swapRows a b) = (g, .panic) := by
  simp only [Grid.step, Grid.swapRows]
  rw [if_pos hb]

/-- `swap_rows(a, b)` succeeds exactly when both rows exist; otherwise it panics and leaves the array
as it is. -/
theorem swapRows_outcome {s : Arr α} {g : Grid α} (h : R s g) (a b : Nat) :
    (a < s.height ∧ b < s.height → (step s (.swapRows a b)).2 = .ok) ∧
    (¬(a < s.height ∧ b < s.height) → step s (.swapRows a b) = (s, .panic)) := by
  have e := R_step s g (.swapRows a b) h
  constructor
  · intro hab
    rw [grid_swap_ok (by rw [← h.1]; omega)] at e
    exact e.2
  · intro hab
    rw [grid_swap_bad (by rw [← h.1]; omega)] at e
    exact Prod.ext (arr_eq_of_R h e.1 rfl rfl (fun _ _ _ _ => rfl)) e.2

/-- **`swap_rows(a, b)` is `swap_rows(b, a)`**: same resulting array (height, width, buffer), same
outcome (`ok`, or the same panic when a row does not exist) — although the code orders the two rows
and treats the lower and the higher one differently (`split_at_mut`). -/
theorem swapRows_comm {s : Arr α} {g : Grid α} (h : R s g) (a b : Nat) :
    step s (.swapRows a b) = step s (.swapRows b a) := by
  have e1 := R_step s g (.swapRows a b) h
  have e2 := R_step s g (.swapRows b a) h
  by_cases hb : a ≥ g.h ∨ b ≥ g.h
  · rw [grid_swap_bad hb] at e1
    rw [grid_swap_bad (Or.symm hb)] at e2
    refine Prod.ext (arr_eq_of_R e2.1 e1.1 rfl rfl (fun _ _ _ _ => rfl)) (by rw [e1.2, e2.2])
  · rw [grid_swap_ok hb] at e1
    rw [grid_swap_ok (fun hb' => hb (Or.symm hb'))] at e2
    refine Prod.ext (arr_eq_of_R e2.1 e1.1 rfl rfl ?_) (by rw [e1.2, e2.2])
    intro r c _ _
    simp only
    congr 1
    by_cases ha : r = a <;> by_cases hbb : r = b <;> simp [ha, hbb] <;> omega

/-- **`swap_rows(a, b)` twice is the identity** whenever it does not panic (i.e. both rows exist):
the second swap succeeds too and returns exactly the original array. -/
theorem swapRows_involution {s : Arr α} {g : Grid α} (h : R s g) (a b : Nat)
    (hok : (step s (.swapRows a b)).2 = .ok) :
    step (step s (.swapRows a b)).1 (.swapRows a b) = (s, .ok) := by
  have e1 := R_step s g (.swapRows a b) h
  by_cases hb : a ≥ g.h ∨ b ≥ g.h
  · rw [grid_swap_bad hb, hok] at e1
    exact absurd e1.2 (by simp)
  · simp only [grid_swap_ok hb] at e1
    have e2 := R_step _ _ (.swapRows a b) e1.1
    rw [grid_swap_ok
      (g := ⟨g.h, g.w, fun r c => g.cell (if r = a then b else if r = b then a else r) c⟩) hb] at e2
    refine Prod.ext (arr_eq_of_R h e2.1 rfl rfl ?_) e2.2
    intro r c _ _
    simp only
    congr 1
    by_cases ha : r = a <;> by_cases hbb : r = b <;> simp [ha, hbb]

section observers
variable [DecidableEq α] [LT α] [DecidableRel (α := α) (· < ·)]

/-- Transferred form of the swap law: from every consistent initial array and after every script
prefix, a successful `swap_rows(a, b)` followed by `swap_rows(a, b)` or by `swap_rows(b, a)` ends in
the state the prefix alone ends in. -/
theorem swapRows_twice_run {s : Arr α} {g : Grid α} (h : R s g) (pre : List (Item α)) (a b : Nat)
    (os1 os2 : List (Obs α)) (hok : (step (run s pre).2 (.swapRows a b)).2 = .ok) :
    (run s (pre ++ [(.swapRows a b, os1), (.swapRows a b, os2)])).2 = (run s pre).2 ∧
    (run s (pre ++ [(.swapRows a b, os1), (.swapRows b a, os2)])).2 = (run s pre).2 := by
  have hfin := (refines_run pre s g h).2
  have e := swapRows_involution hfin a b hok
  have e1 := R_step _ _ (.swapRows a b) hfin
  have e' : step (step (run s pre).2 (.swapRows a b)).1 (.swapRows b a) = ((run s pre).2, .ok) := by
    rw [← swapRows_comm e1.1 a b]; exact e
  rw [run_append, run_append]
  simp only [run, e, e']
  exact ⟨trivial, trivial⟩

end observers

/-! ### (4) reshape -/

/-- **`reshape` never changes the buffer** — whatever the array (consistent or not) and whatever the
requested height, valid or not. -/
theorem reshape_inner (s : Arr α) (h' : Nat) : (step s (.reshape h')).1.inner = s.inner := by
  simp only [step, Arr.reshape]
  split <;> rfl

/-- **`reshape(h')` followed by `reshape(original height)` is the identity** (for every array with at
least one row, consistent or not): when the first reshape succeeds, the second succeeds and returns
exactly the original array. -/
theorem reshape_roundtrip (s : Arr α) (h' : Nat) (hpos : 0 < s.height)
    (hok : (step s (.reshape h')).2 = .ok) :
    step (step s (.reshape h')).1 (.reshape s.height) = (s, .ok) := by
  rcases s with ⟨inner, sh, sw⟩
  simp only [step, Arr.reshape] at hok ⊢
  simp only at hpos
  by_cases hb : h' = 0 ∨ sh * sw % h' ≠ 0
  · rw [if_pos hb] at hok
    exact absurd hok (by simp)
  · rw [if_neg hb]
    simp only
    have hdiv : sh * sw % h' = 0 := by omega
    have hsz : h' * (sh * sw / h') = sh * sw := Nat.mul_div_cancel' (Nat.dvd_of_mod_eq_zero hdiv)
    rw [hsz]
    have h3 : ¬(sh = 0 ∨ sh * sw % sh ≠ 0) := by
      rw [Nat.mul_mod_right]; omega
    rw [if_neg h3]
    rw [Nat.mul_div_cancel_left sw hpos]

/-- The form "when both succeed": if `reshape(h')` and then `reshape(original height)` both return
`Ok`, the array is exactly the original one. -/
theorem reshape_roundtrip_of_ok (s : Arr α) (h' : Nat)
    (hok : (step s (.reshape h')).2 = .ok)
    (hok2 : (step (step s (.reshape h')).1 (.reshape s.height)).2 = .ok) :
    (step (step s (.reshape h')).1 (.reshape s.height)).1 = s := by
  rcases Nat.eq_zero_or_pos s.height with h0 | hpos
  · rw [h0] at hok2
    simp only [step, Arr.reshape, true_or, if_true] at hok2
    exact absurd hok2 (by simp)
  · rw [reshape_roundtrip s h' hpos hok]

/-! ### (5) map -/

/-- **`map f` then `map g` is `map (g ∘ f)`** — for every array, consistent or not. -/
theorem map_map (s : Arr α) (f k : α → α) :
    step (step s (.map f)).1 (.map k) = step s (.map (k ∘ f)) := by
  simp only [step, Arr.map, List.map_map]

/-- `map id` is the identity. -/
theorem map_id (s : Arr α) : step s (.map id) = (s, .ok) := by
  simp only [step, Arr.map, List.map_id]

/-- **`map` commutes with transpose**: mapping and then transposing gives exactly the array (height,
width, buffer) and the outcome that transposing and then mapping gives. -/
theorem map_transpose_comm {s : Arr α} {g : Grid α} (h : R s g) (f : α → α) {op : Op α}
    (ht : IsTranspose op) :
    step (step s (.map f)).1 op = step (step s op).1 (.map f) := by
  have a1 := R_step s g (.map f) h
  have a2 := R_step _ _ op a1.1
  have b1 := R_step s g op h
  have b2 := R_step _ _ (.map f) b1.1
  rw [gstep_transpose ht] at a2 b2
  refine Prod.ext (arr_eq_of_R b2.1 a2.1 rfl rfl (fun _ _ _ _ => rfl)) ?_
  rw [a2.2, b2.2]
  rfl

/-! ### non-vacuity -/

/-- the hypothesis `R s g` is satisfiable at a height above 64: the 70×3 array with `3 r + c` at `(r, c)` -/
example : R (Arr.fromArray 70 3 fun r c => 3 * r + c) (Grid.fromArray 70 3 fun r c => 3 * r + c) :=
  R_fromArray 70 3 _

/-- instance of (1) at height 70 -/
example : step (step (Arr.fromArray 70 3 fun r c => 3 * r + c) .transpose).1 .transposeMut =
    (Arr.fromArray 70 3 fun r c => 3 * r + c, .ok) :=
  (transpose_involution (R_fromArray 70 3 _) (Or.inl rfl) (Or.inr rfl)).2

/-- instance of (2): element (2, 65) of the transposed 70×3 array is element (65, 2) = 197 -/
example : (step (Arr.fromArray 70 3 fun r c => 3 * r + c) .transpose).1.at2? 2 65 = some 197 := by
  rw [transpose_at2 (R_fromArray 70 3 _) (Or.inl rfl)]
  decide +kernel

/-- instance of (3) at rows 0 and 69 of the 70×3 array -/
example : step (step (Arr.fromArray 70 3 fun r c => 3 * r + c) (.swapRows 0 69)).1 (.swapRows 0 69) =
    (Arr.fromArray 70 3 fun r c => 3 * r + c, .ok) :=
  swapRows_involution (R_fromArray 70 3 _) 0 69
    ((swapRows_outcome (R_fromArray 70 3 _) 0 69).1 (by decide))

/-- instance of (4): 70×3 reshaped to 105 rows and back -/
example : step (step (Arr.fromArray 70 3 fun r c => 3 * r + c) (.reshape 105)).1 (.reshape 70) =
    (Arr.fromArray 70 3 fun r c => 3 * r + c, .ok) :=
  reshape_roundtrip (Arr.fromArray 70 3 fun r c => 3 * r + c) 105 (by decide) (by decide)

/-- a concrete small run: transpose of `[[1,2,3],[4,5,6]]` is `[[1,4],[2,5],[3,6]]` -/
example : (step (⟨[1, 2, 3, 4, 5, 6], 2, 3⟩ : Arr Nat) .transpose).1.inner = [1, 4, 2, 5, 3, 6] ∧
    (step (⟨[1, 2, 3, 4, 5, 6], 2, 3⟩ : Arr Nat) .transpose).1.height = 3 := by
  decide

end SV.Props.C12Laws
