import SV.Model.C17
/-!
# C17 — printed polynomials read back as the same polynomial, at every precision

Property theorems only.  This file: the zero-trimming rule of the precision formatters.  Trimming
acts on the fractional part only — a text without a decimal point is left alone (the repaired defect:
`"10"` stayed `"10"`), and a text with a point loses only trailing `0`s and then the point, so the
integer digits are never touched.  The round-trip theorems (`simple_display_roundtrip`, …) are added in
`SV.Props.C17Roundtrip`.
-/
namespace SV.Props.C17
open SV SV.C17

/-- Without a decimal point nothing is trimmed. -/
theorem trim_no_point (s : List Char) (h : '.' ∉ s) : trimFraction s = s := by
  unfold trimFraction
  have : s.contains '.' = false := by
    simpa [List.contains_eq_mem] using h
  rw [this]; rfl

private theorem dropWhile_split (c : Char) (r : List Char) :
    ∃ k, r = List.replicate k c ++ r.dropWhile (· = c) := by
  induction r with
  | nil => exact ⟨0, rfl⟩
  | cons d ds ih =>
    by_cases hd : d = c
    · subst hd
      obtain ⟨k, hk⟩ := ih
      refine ⟨k + 1, ?_⟩
      simp only [List.dropWhile_cons, decide_true, if_true, List.replicate_succ, List.cons_append]
      rw [← hk]
    · exact ⟨0, by simp [List.dropWhile_cons, hd]⟩

private theorem trimEnd_append_self (c : Char) (s : List Char) :
    ∃ k, s = trimEnd c s ++ List.replicate k c := by
  obtain ⟨k, hk⟩ := dropWhile_split c s.reverse
  refine ⟨k, ?_⟩
  unfold trimEnd
  have h2 := congrArg List.reverse hk
  rw [List.reverse_reverse, List.reverse_append, List.reverse_replicate] at h2
  exact h2

/-- With a decimal point, trimming removes only a block of trailing `0`s followed by at most a block
of trailing `.`: the text is `trimmed ++ dots ++ zeros` — no other character is lost, in particular
no integer digit. -/
theorem trim_shape (s : List Char) :
    ∃ j k, s = trimFraction s ++ List.replicate j '.' ++ List.replicate k '0' := by
  unfold trimFraction
  by_cases h : s.contains '.' = true
  · simp only [h, if_true]
    obtain ⟨k, hk⟩ := trimEnd_append_self '0' s
    obtain ⟨j, hj⟩ := trimEnd_append_self '.' (trimEnd '0' s)
    exact ⟨j, k, by rw [← hj, ← hk]⟩
  · simp only [h]
    exact ⟨0, 0, by simp⟩

/-- Concrete instances (the repaired defect and the intended trimming). -/
example : trimFraction "10".toList = "10".toList := by decide
example : trimFraction "2.50".toList = "2.5".toList := by decide
example : trimFraction "3.000".toList = "3".toList := by decide
example : trimFraction "^-0.50".toList = "^-0.5".toList := by decide

end SV.Props.C17
