import SV.Model.Text
import Mathlib.Data.Rat.Defs
import Mathlib.Algebra.Order.Field.Rat
import Mathlib.Tactic.Ring
/-!
Lemmas about the text toolkit `SV.Text` (the `str` methods used by the parsers):

* `Dec.val`, `Num.val`        exact rational value of a decimal spelling / of a coefficient expression
* `CharClass.Sane`            the disjointness facts about the Unicode classes the proofs use; `stdClass_sane`
* `splitOn`                   `splitOn_join` (pieces joined by the separator split back into the pieces) and
                              `joinSep_splitOn` (the pieces joined by the separator are the text: nothing is lost)
* `dashToPlusDash`            distributes over `++`, identity on dash-free text, injective (`undash` is a left inverse)
* `splitAtChar`               finds the first occurrence
* `UDec`                      unsigned plain decimal spelling `digits[.digits]`; `parseUDec`/`parseDec` accept exactly
                              the renderings of well-formed spellings and return their value
* `parseUsizeCapped`          accepts exactly non-empty ASCII-digit texts with value `≤ cap`
-/
namespace SV.Text

/-! ### values -/

/-- exact value `(-1)^neg · mant / 10^scale` of a decimal spelling -/
def Dec.val (d : Dec) : ℚ := (if d.neg then -1 else 1) * (d.mant : ℚ) / (10 : ℚ) ^ d.scale

/-- exact value of a coefficient expression (the `f64` operations read as exact operations) -/
def Num.val : Num → ℚ
  | .dec d => d.val
  | .div a b => a.val / b.val
  | .add a b => a.val + b.val

@[simp] theorem Num.val_zero : Num.zero.val = 0 := by simp [Num.zero, Num.val, Dec.val]
@[simp] theorem Num.val_one : Num.one.val = 1 := by simp [Num.one, Num.val, Dec.val]
@[simp] theorem Num.val_negOne : Num.negOne.val = -1 := by simp [Num.negOne, Num.val, Dec.val]
@[simp] theorem Num.val_add (a b : Num) : (Num.add a b).val = a.val + b.val := rfl
@[simp] theorem Num.val_dec (d : Dec) : (Num.dec d).val = d.val := rfl

/-! ### character classes -/

/-- The disjointness facts about the Unicode predicates that the parser proofs rely on (true of
Rust's `char::is_alphabetic` / `is_whitespace`): an alphabetic character is not an ASCII digit, not
one of `. + - ^` and not white space; ASCII digits and `. + - ^` are not white space. -/
structure CharClass.Sane (cc : CharClass) : Prop where
  alpha_not_digit : ∀ c, cc.isAlpha c = true → isAsciiDigit c = false
  alpha_not_sym : ∀ c, cc.isAlpha c = true → c ≠ '.' ∧ c ≠ '+' ∧ c ≠ '-' ∧ c ≠ '^'
  alpha_not_ws : ∀ c, cc.isAlpha c = true → cc.isWs c = false
  digit_not_ws : ∀ c, isAsciiDigit c = true → cc.isWs c = false
  sym_not_ws : cc.isWs '.' = false ∧ cc.isWs '+' = false ∧ cc.isWs '-' = false ∧ cc.isWs '^' = false

theorem isAsciiDigit_iff (c : Char) : isAsciiDigit c = true ↔ 48 ≤ c.toNat ∧ c.toNat ≤ 57 := by
  simp only [isAsciiDigit, Bool.and_eq_true, decide_eq_true_eq, Char.le_def]
  rfl

theorem isAsciiLetter_iff (c : Char) :
    isAsciiLetter c = true ↔ (97 ≤ c.toNat ∧ c.toNat ≤ 122) ∨ (65 ≤ c.toNat ∧ c.toNat ≤ 90) := by
  simp only [isAsciiLetter, Bool.or_eq_true, Bool.and_eq_true, decide_eq_true_eq, Char.le_def]
  rfl

theorem mem_tableAlpha (c : Char) (h : tableAlpha.contains c = true) :
    c = 'é' ∨ c = 'λ' ∨ c = 'я' ∨ c = 'ß' ∨ c = 'Ω' := by
  simpa only [tableAlpha, List.contains_eq_mem, List.mem_cons, List.not_mem_nil, or_false,
    decide_eq_true_eq] using h

theorem stdClass_isAlpha (c : Char) (h : stdClass.isAlpha c = true) :
    ((97 ≤ c.toNat ∧ c.toNat ≤ 122) ∨ (65 ≤ c.toNat ∧ c.toNat ≤ 90)) ∨
      (c = 'é' ∨ c = 'λ' ∨ c = 'я' ∨ c = 'ß' ∨ c = 'Ω') := by
  simp only [stdClass, Bool.or_eq_true] at h
  rcases h with h | h
  · exact Or.inl ((isAsciiLetter_iff c).1 h)
  · exact Or.inr (mem_tableAlpha c h)

theorem stdClass_isWs (c : Char) (h : stdClass.isWs c = true) :
    c.toNat ≤ 32 ∨ c.toNat > 127 := by
  simp only [stdClass, asciiWs, tableWs, Bool.or_eq_true, decide_eq_true_eq, List.contains_eq_mem,
    List.mem_cons, List.not_mem_nil, or_false] at h
  rcases h with ((((((rfl | rfl) | rfl) | rfl) | rfl) | rfl) | rfl) | rfl | rfl | rfl | rfl <;> decide

theorem stdClass_sane : stdClass.Sane where
  alpha_not_digit c h := by
    cases hd : isAsciiDigit c with
    | false => rfl
    | true =>
      have hd := (isAsciiDigit_iff c).1 hd
      rcases stdClass_isAlpha c h with h1 | h1
      · omega
      · rcases h1 with rfl | rfl | rfl | rfl | rfl <;> revert hd <;> decide
  alpha_not_sym c h := by
    have h1 := stdClass_isAlpha c h
    refine ⟨?_, ?_, ?_, ?_⟩ <;> rintro rfl <;> revert h1 <;> decide
  alpha_not_ws c h := by
    rcases stdClass_isAlpha c h with h1 | h1
    · cases hd : stdClass.isWs c with
      | false => rfl
      | true => have := stdClass_isWs c hd; omega
    · rcases h1 with rfl | rfl | rfl | rfl | rfl <;> decide
  digit_not_ws c h := by
    have h1 := (isAsciiDigit_iff c).1 h
    cases hd : stdClass.isWs c with
    | false => rfl
    | true => have := stdClass_isWs c hd; omega
  sym_not_ws := by decide

/-! ### `splitOn` -/

theorem splitOn_ne_nil (sep : Char) (s : List Char) : splitOn sep s ≠ [] := by
  induction s with
  | nil => simp [splitOn]
  | cons c cs ih =>
    unfold splitOn
    split
    · simp
    · split <;> simp

theorem splitOn_of_not_mem {sep : Char} {q : List Char} (h : sep ∉ q) : splitOn sep q = [q] := by
  induction q with
  | nil => rfl
  | cons c cs ih =>
    have hc : c ≠ sep := by intro e; apply h; simp [e]
    have hcs : sep ∉ cs := by intro e; apply h; simp [e]
    simp [splitOn, hc, ih hcs]

theorem splitOn_append {sep : Char} {q : List Char} (r : List Char) (h : sep ∉ q) :
    splitOn sep (q ++ sep :: r) = q :: splitOn sep r := by
  induction q with
  | nil => simp [splitOn]
  | cons c cs ih =>
    have hc : c ≠ sep := by intro e; apply h; simp [e]
    have hcs : sep ∉ cs := by intro e; apply h; simp [e]
    simp [splitOn, hc, ih hcs]

/-- pieces free of the separator, joined by it, split back into exactly those pieces -/
theorem splitOn_join {sep : Char} (q : List Char) (qs : List (List Char)) (hq : sep ∉ q)
    (h : ∀ r ∈ qs, sep ∉ r) :
    splitOn sep (q ++ qs.flatMap fun r => sep :: r) = q :: qs := by
  induction qs generalizing q with
  | nil => simpa using splitOn_of_not_mem hq
  | cons r rs ih =>
    have hr : sep ∉ r := h r (by simp)
    have hrs : ∀ r' ∈ rs, sep ∉ r' := fun r' hr' => h r' (by simp [hr'])
    rw [List.flatMap_cons, List.cons_append, splitOn_append _ hq, ih r hr hrs]

/-- the pieces joined by the separator -/
def joinSep (sep : Char) : List (List Char) → List Char
  | [] => []
  | q :: qs => q ++ qs.flatMap fun r => sep :: r

/-- splitting loses nothing: the pieces joined by the separator are the text -/
theorem joinSep_splitOn (sep : Char) (s : List Char) : joinSep sep (splitOn sep s) = s := by
  induction s with
  | nil => rfl
  | cons c cs ih =>
    unfold splitOn
    rcases hsp : splitOn sep cs with _ | ⟨p, ps⟩
    · exact absurd hsp (splitOn_ne_nil sep cs)
    · rw [hsp] at ih
      by_cases hc : c = sep
      · rw [if_pos hc]
        simp only [joinSep, List.nil_append, List.flatMap_cons, List.cons_append] at ih ⊢
        rw [ih, hc]
      · rw [if_neg hc]
        simp only [joinSep, List.cons_append] at ih ⊢
        rw [ih]

theorem not_mem_of_mem_splitOn {sep : Char} {s q : List Char} (h : q ∈ splitOn sep s) : sep ∉ q := by
  induction s generalizing q with
  | nil => simp [splitOn] at h; subst h; simp
  | cons c cs ih =>
    unfold splitOn at h
    rcases hsp : splitOn sep cs with _ | ⟨p, ps⟩
    · exact absurd hsp (splitOn_ne_nil sep cs)
    · rw [hsp] at h ih
      by_cases hc : c = sep
      · rw [if_pos hc] at h
        rcases List.mem_cons.1 h with rfl | h
        · simp
        · exact ih h
      · rw [if_neg hc] at h
        simp only [List.mem_cons] at h
        rcases h with rfl | h
        · have := ih (q := p) (by simp)
          simp only [List.mem_cons, not_or]
          exact ⟨fun e => hc e.symm, this⟩
        · exact ih (by simp [h])

/-! ### `dashToPlusDash` -/

theorem dashToPlusDash_append (a b : List Char) :
    dashToPlusDash (a ++ b) = dashToPlusDash a ++ dashToPlusDash b := by
  simp [dashToPlusDash]

theorem dashToPlusDash_of_not_mem {q : List Char} (h : '-' ∉ q) : dashToPlusDash q = q := by
  induction q with
  | nil => rfl
  | cons c cs ih =>
    have hc : c ≠ '-' := by intro e; apply h; simp [e]
    have hcs : '-' ∉ cs := by intro e; apply h; simp [e]
    have := ih hcs
    simp only [dashToPlusDash, List.flatMap_cons, if_neg hc] at this ⊢
    rw [this]; rfl

theorem dashToPlusDash_cons_dash (w : List Char) :
    dashToPlusDash ('-' :: w) = '+' :: '-' :: dashToPlusDash w := by
  simp [dashToPlusDash]

theorem dashToPlusDash_cons_of_ne {c : Char} (hc : c ≠ '-') (w : List Char) :
    dashToPlusDash (c :: w) = c :: dashToPlusDash w := by
  simp [dashToPlusDash, hc]

/-- the normalised text never starts with `-` (a `+` was put in front of it) -/
theorem dashToPlusDash_head? (w : List Char) : (dashToPlusDash w).head? ≠ some '-' := by
  cases w with
  | nil => simp [dashToPlusDash]
  | cons c cs =>
    by_cases hc : c = '-'
    · subst hc; rw [dashToPlusDash_cons_dash]; simp
    · rw [dashToPlusDash_cons_of_ne hc]; simpa using hc

/-- remove the `+` in front of every `-` -/
def undash : List Char → List Char
  | [] => []
  | c :: r => if c = '+' ∧ r.head? = some '-' then undash r else c :: undash r

theorem undash_dashToPlusDash (w : List Char) : undash (dashToPlusDash w) = w := by
  induction w with
  | nil => rfl
  | cons c cs ih =>
    by_cases hc : c = '-'
    · subst hc
      rw [dashToPlusDash_cons_dash]
      simp [undash, ih]
    · rw [dashToPlusDash_cons_of_ne hc, undash, if_neg, ih]
      rintro ⟨_, h⟩
      exact dashToPlusDash_head? cs h

/-- `.replace("-", "+-")` loses nothing -/
theorem dashToPlusDash_injective {a b : List Char} (h : dashToPlusDash a = dashToPlusDash b) : a = b := by
  rw [← undash_dashToPlusDash a, h, undash_dashToPlusDash]

/-! ### `stripWs` -/

theorem stripWs_eq_self {cc : CharClass} {s : List Char} (h : ∀ c ∈ s, cc.isWs c = false) :
    stripWs cc s = s := by
  unfold stripWs
  rw [List.filter_eq_self]
  intro c hc
  simp [h c hc]

theorem stripWs_idem (cc : CharClass) (s : List Char) : stripWs cc (stripWs cc s) = stripWs cc s := by
  simp [stripWs]

/-! ### `splitAtChar` -/

theorem splitAtChar_append {c : Char} {pre : List Char} (post : List Char) (h : c ∉ pre) :
    splitAtChar c (pre ++ c :: post) = some (pre, post) := by
  induction pre with
  | nil => simp [splitAtChar]
  | cons d ds ih =>
    have hd : d ≠ c := by intro e; apply h; simp [e]
    have hds : c ∉ ds := by intro e; apply h; simp [e]
    simp [splitAtChar, hd, ih hds]

theorem splitAtChar_of_not_mem {c : Char} {s : List Char} (h : c ∉ s) : splitAtChar c s = none := by
  induction s with
  | nil => rfl
  | cons d ds ih =>
    have hd : d ≠ c := by intro e; apply h; simp [e]
    have hds : c ∉ ds := by intro e; apply h; simp [e]
    simp [splitAtChar, hd, ih hds]

/-- `splitAtChar` cuts at the first occurrence -/
theorem splitAtChar_some {c : Char} {s pre post : List Char} (h : splitAtChar c s = some (pre, post)) :
    s = pre ++ c :: post ∧ c ∉ pre := by
  induction s generalizing pre with
  | nil => simp [splitAtChar] at h
  | cons d ds ih =>
    unfold splitAtChar at h
    by_cases hd : d = c
    · rw [if_pos hd] at h
      simp only [Option.some.injEq, Prod.mk.injEq] at h
      rcases h with ⟨rfl, rfl⟩
      simp [hd]
    · rw [if_neg hd] at h
      rcases hsp : splitAtChar c ds with _ | ⟨pre', post'⟩
      · rw [hsp] at h; simp at h
      · rw [hsp] at h
        simp only [Option.some.injEq, Prod.mk.injEq] at h
        rcases h with ⟨rfl, rfl⟩
        obtain ⟨h1, h2⟩ := ih hsp
        refine ⟨by rw [h1]; rfl, ?_⟩
        simp only [List.mem_cons, not_or]
        exact ⟨fun e => hd e.symm, h2⟩


/-! ### plain decimal spellings -/

theorem digit_ne_dot {c : Char} (h : isAsciiDigit c = true) : c ≠ '.' := by
  rintro rfl; revert h; decide

theorem digit_ne_dash {c : Char} (h : isAsciiDigit c = true) : c ≠ '-' := by
  rintro rfl; revert h; decide

theorem digit_ne_plus {c : Char} (h : isAsciiDigit c = true) : c ≠ '+' := by
  rintro rfl; revert h; decide

theorem digit_ne_caret {c : Char} (h : isAsciiDigit c = true) : c ≠ '^' := by
  rintro rfl; revert h; decide

theorem digitsVal_foldl (x : Nat) (b : List Char) :
    List.foldl (fun acc c => acc * 10 + digitVal c) x b = x * 10 ^ b.length + digitsVal b := by
  unfold digitsVal
  induction b generalizing x with
  | nil => simp
  | cons c cs ih =>
    rw [List.foldl_cons, ih, List.foldl_cons, ih (0 * 10 + digitVal c), List.length_cons]
    ring

theorem digitsVal_append (a b : List Char) :
    digitsVal (a ++ b) = digitsVal a * 10 ^ b.length + digitsVal b := by
  rw [digitsVal, List.foldl_append, digitsVal_foldl]
  rfl

/-- unsigned plain decimal spelling: integer digits, optionally a `.` and fraction digits -/
structure UDec where
  ip : List Char
  fp : List Char
  dot : Bool

/-- the spelling is `digits`, `digits.`, `.digits` or `digits.digits` with at least one digit -/
structure UDec.WF (u : UDec) : Prop where
  ip_digits : ∀ c ∈ u.ip, isAsciiDigit c = true
  fp_digits : ∀ c ∈ u.fp, isAsciiDigit c = true
  some_digit : u.ip ≠ [] ∨ u.fp ≠ []
  no_dot : u.dot = false → u.fp = []

def UDec.render (u : UDec) : List Char := u.ip ++ (if u.dot then '.' :: u.fp else [])

def UDec.mant (u : UDec) : Nat := digitsVal (u.ip ++ u.fp)

/-- the number the spelling denotes: all digits read as one integer, over `10^(number of fraction digits)` -/
def UDec.value (u : UDec) : ℚ := (u.mant : ℚ) / (10 : ℚ) ^ u.fp.length

/-- … which is integer part + fraction part -/
theorem UDec.value_eq (u : UDec) :
    u.value = (digitsVal u.ip : ℚ) + (digitsVal u.fp : ℚ) / (10 : ℚ) ^ u.fp.length := by
  unfold UDec.value UDec.mant
  rw [digitsVal_append]
  have : ((10 : ℚ) ^ u.fp.length) ≠ 0 := pow_ne_zero _ (by norm_num)
  push_cast
  rw [add_div, mul_div_assoc, div_self this, mul_one]

theorem UDec.render_ne_nil {u : UDec} (hu : u.WF) : u.render ≠ [] := by
  unfold UDec.render
  rcases hu.some_digit with h | h
  · simp [h]
  · have : u.dot = true := by
      cases hd : u.dot with
      | true => rfl
      | false => exact absurd (hu.no_dot hd) h
    simp [this]

/-- every character of the spelling is an ASCII digit or `.` -/
theorem UDec.mem_render {u : UDec} (hu : u.WF) {c : Char} (hc : c ∈ u.render) :
    isAsciiDigit c = true ∨ c = '.' := by
  unfold UDec.render at hc
  rcases List.mem_append.1 hc with h | h
  · exact Or.inl (hu.ip_digits c h)
  · cases hd : u.dot with
    | false => rw [hd] at h; simp at h
    | true =>
      rw [hd] at h
      simp only [if_true, List.mem_cons] at h
      rcases h with h | h
      · exact Or.inr h
      · exact Or.inl (hu.fp_digits c h)

theorem all_digits {s : List Char} (h : ∀ c ∈ s, isAsciiDigit c = true) : s.all isAsciiDigit = true :=
  List.all_eq_true.2 h

theorem parseUDec_render {u : UDec} (hu : u.WF) : parseUDec u.render = some (u.mant, u.fp.length) := by
  have hip : '.' ∉ u.ip := fun h => digit_ne_dot (hu.ip_digits _ h) rfl
  have hfp : '.' ∉ u.fp := fun h => digit_ne_dot (hu.fp_digits _ h) rfl
  unfold parseUDec UDec.render UDec.mant
  cases hd : u.dot with
  | false =>
    have hfp0 := hu.no_dot hd
    have hne : u.ip ≠ [] := by
      rcases hu.some_digit with h | h
      · exact h
      · exact absurd hfp0 h
    simp only [Bool.false_eq_true, if_false, List.append_nil, splitOn_of_not_mem hip, hfp0]
    rw [if_pos ⟨hne, all_digits hu.ip_digits⟩]
    rfl
  | true =>
    simp only [if_true, splitOn_append _ hip, splitOn_of_not_mem hfp]
    rw [if_pos ⟨hu.some_digit, all_digits hu.ip_digits, all_digits hu.fp_digits⟩]

/-- `parseUDec` accepts only renderings of well-formed spellings -/
theorem parseUDec_some {s : List Char} {m sc : Nat} (h : parseUDec s = some (m, sc)) :
    ∃ u : UDec, u.WF ∧ s = u.render ∧ m = u.mant ∧ sc = u.fp.length := by
  have hj := joinSep_splitOn '.' s
  unfold parseUDec at h
  split at h
  · rename_i ip heq
    rw [heq] at hj
    simp only [joinSep, List.flatMap_nil, List.append_nil] at hj
    split at h
    · rename_i hc
      simp only [Option.some.injEq, Prod.mk.injEq] at h
      refine ⟨⟨ip, [], false⟩, ⟨List.all_eq_true.1 hc.2, by simp, Or.inl hc.1, fun _ => rfl⟩, ?_, ?_, ?_⟩
      · simp [UDec.render, hj]
      · simp [UDec.mant, h.1]
      · simp [h.2]
    · simp at h
  · rename_i ip fp heq
    rw [heq] at hj
    simp only [joinSep, List.flatMap_cons, List.flatMap_nil, List.append_nil] at hj
    split at h
    · rename_i hc
      simp only [Option.some.injEq, Prod.mk.injEq] at h
      refine ⟨⟨ip, fp, true⟩, ⟨List.all_eq_true.1 hc.2.1, List.all_eq_true.1 hc.2.2, hc.1, by simp⟩, ?_, ?_, ?_⟩
      · simp [UDec.render, hj]
      · simp [UDec.mant, h.1]
      · simp [h.2]
    · simp at h
  · simp at h

theorem parseDec_dash (rest : List Char) :
    parseDec ('-' :: rest) =
      if rest = [] ∨ !(rest.all fun c => isAsciiDigit c || c = '.') then none
      else match parseUDec rest with
        | some (m, sc) => some ⟨true, m, sc⟩
        | none => none := rfl

theorem parseDec_of_head {s : List Char} (hs : s.head? ≠ some '-') :
    parseDec s =
      if s = [] ∨ !(s.all fun c => isAsciiDigit c || c = '.') then none
      else match parseUDec s with
        | some (m, sc) => some ⟨false, m, sc⟩
        | none => none := by
  unfold parseDec
  split
  rename_i neg body heq
  split at heq
  · simp at hs
  · simp only [Prod.mk.injEq] at heq
    obtain ⟨rfl, rfl⟩ := heq
    rfl

theorem parseDec_render {u : UDec} (hu : u.WF) (neg : Bool) :
    parseDec ((if neg then ['-'] else []) ++ u.render) = some ⟨neg, u.mant, u.fp.length⟩ := by
  have hall : (u.render.all fun c => isAsciiDigit c || c = '.') = true := by
    rw [List.all_eq_true]
    intro c hc
    rcases UDec.mem_render hu hc with h | h <;> simp [h]
  cases neg with
  | true =>
    simp only [if_true, List.cons_append, List.nil_append]
    rw [parseDec_dash, if_neg, parseUDec_render hu]
    simp [hall, UDec.render_ne_nil hu]
  | false =>
    simp only [Bool.false_eq_true, if_false, List.nil_append]
    rw [parseDec_of_head, if_neg, parseUDec_render hu]
    · simp [hall, UDec.render_ne_nil hu]
    · intro h
      have hmem : '-' ∈ u.render := List.mem_of_mem_head? h
      rcases UDec.mem_render hu hmem with h | h
      · exact digit_ne_dash h rfl
      · revert h; decide

/-- `parseDec` accepts only an optional `-` followed by the rendering of a well-formed spelling -/
theorem parseDec_some {s : List Char} {d : Dec} (h : parseDec s = some d) :
    ∃ u : UDec, u.WF ∧ s = (if d.neg then ['-'] else []) ++ u.render ∧ d.mant = u.mant ∧
      d.scale = u.fp.length := by
  by_cases hs : s.head? = some '-'
  · obtain ⟨rest, rfl⟩ : ∃ rest, s = '-' :: rest := by
      cases s with
      | nil => simp at hs
      | cons c r => simp at hs; exact ⟨r, by rw [hs]⟩
    rw [parseDec_dash] at h
    split at h
    · simp at h
    · split at h
      · rename_i m sc heq
        obtain ⟨u, hu, h1, h2, h3⟩ := parseUDec_some heq
        simp only [Option.some.injEq] at h
        subst h
        exact ⟨u, hu, by simp [h1], h2, h3⟩
      · simp at h
  · rw [parseDec_of_head hs] at h
    split at h
    · simp at h
    · split at h
      · rename_i m sc heq
        obtain ⟨u, hu, h1, h2, h3⟩ := parseUDec_some heq
        simp only [Option.some.injEq] at h
        subst h
        exact ⟨u, hu, by simp [h1], h2, h3⟩
      · simp at h

theorem Dec.val_mk (neg : Bool) (u : UDec) :
    Dec.val ⟨neg, u.mant, u.fp.length⟩ = (if neg then -1 else 1) * u.value := by
  simp only [Dec.val, UDec.value, mul_div_assoc]

/-- `str::parse::<usize>` + the MAX_POWER guard accept exactly the non-empty ASCII-digit texts of value `≤ cap` -/
theorem parseUsizeCapped_eq_some {cap : Nat} {s : List Char} {k : Nat} :
    parseUsizeCapped cap s = some k ↔
      s ≠ [] ∧ (∀ c ∈ s, isAsciiDigit c = true) ∧ digitsVal s ≤ cap ∧ k = digitsVal s := by
  unfold parseUsizeCapped
  constructor
  · intro h
    split at h
    · rename_i hc
      simp only at h
      split at h
      · rename_i hle
        simp only [Option.some.injEq] at h
        exact ⟨hc.1, List.all_eq_true.1 hc.2, hle, h.symm⟩
      · simp at h
    · simp at h
  · rintro ⟨h1, h2, h3, rfl⟩
    rw [if_pos ⟨h1, all_digits h2⟩]
    simp [h3]


end SV.Text
