//! C10 — `Arr2D::inverse`: the returned matrix inverts on both sides, or the call says why it cannot.
//!
//! Requests
//!   `inverse <ty> <h> <w> <bits…>`   ty ∈ f64 f32 i8 i16 i32 u8 u16 u32 bool — every element type `T` with
//!                                    `f64: From<T>` (the bound of `inverse` is `Arr2D<f64>: TryFrom<&Arr2D<T>>`);
//!                                    the entries travel as f64 bit patterns of values representable in `T`
//!   `inv2 <h> <w> <bits…>`           `Arr2D<f64>`: the inverse and the inverse of the inverse
//!   `inv3 <a00> … <a12>`             the 125 integer 3×3 matrices over −2..2 whose first two rows are given
//! Observations
//!   `ok <h> <w> f…` | `err nonsquare|singular|other_…` | `panic`
//!   `ok <h> <w> f… back <observation of inverse(B)>`                                  (inv2)
//!   per matrix `ok <digest> <mask>` | `sing` | …                                           (inv3)
//!
//! The oracle here (exact dyadic arithmetic, `c09::Big`) is written from the property's statement and is
//! independent of the Lean model; tools/props/c10.py evaluates the same clauses a second time with Python
//! `fractions` on every per-matrix request and adds the exact rational inverse as reference.
use crate::c09::Big;
use crate::util::*;
use spindalis::utils::{Arr2D, Arr2DError};

#[derive(Clone, Debug)]
pub struct G {
    pub h: usize,
    pub w: usize,
    pub v: Vec<f64>,
}
impl G {
    fn at(&self, i: usize, j: usize) -> f64 {
        self.v[i * self.w + j]
    }
    fn of_arr(a: &Arr2D<f64>) -> G {
        let (h, w) = (a.height, a.width);
        let mut v = Vec::with_capacity(h * w);
        for i in 0..h {
            for j in 0..w {
                v.push(a[(i, j)]);
            }
        }
        G { h, w, v }
    }
    fn show(&self) -> String {
        let mut s = format!("{} {}", self.h, self.w);
        for x in &self.v {
            s.push(' ');
            s.push_str(&fbits(*x));
        }
        s
    }
    fn arr<T: Copy>(&self, zero: T, f: impl Fn(f64) -> T) -> Arr2D<T> {
        let mut a = Arr2D::full(zero, self.h, self.w);
        for i in 0..self.h {
            for j in 0..self.w {
                a[(i, j)] = f(self.at(i, j));
            }
        }
        a
    }
}

pub enum Out {
    Ok(G),
    NonSquare,
    Singular,
    OtherErr(String),
    Panic,
}

fn of_result(r: Option<Result<Arr2D<f64>, Arr2DError>>) -> Out {
    match r {
        None => Out::Panic,
        Some(Ok(b)) => Out::Ok(G::of_arr(&b)),
        Some(Err(Arr2DError::NonSquareMatrix)) => Out::NonSquare,
        Some(Err(Arr2DError::SingularMatrix)) => Out::Singular,
        Some(Err(e)) => Out::OtherErr(format!("{e:?}")),
    }
}

/// `Arr2D<T>::inverse` for the element type named `ty`; the request's values must be representable in `T`
/// (a request that is not is a harness error, not an observation)
fn call(ty: &str, g: &G) -> Out {
    macro_rules! go {
        ($t:ty, $zero:expr, $conv:expr, $back:expr) => {{
            let conv = $conv;
            let back = $back;
            for x in &g.v {
                let y: $t = conv(*x);
                let z: f64 = back(y);
                assert!(z == *x || (z.is_nan() && x.is_nan()), "request value {x} is not representable in {}", ty);
            }
            let a: Arr2D<$t> = g.arr($zero, conv);
            of_result(catch(move || a.inverse()))
        }};
    }
    match ty {
        "f64" => go!(f64, 0.0f64, |x: f64| x, |y: f64| y),
        "f32" => go!(f32, 0.0f32, |x: f64| x as f32, |y: f32| f64::from(y)),
        "i8" => go!(i8, 0i8, |x: f64| x as i8, |y: i8| f64::from(y)),
        "i16" => go!(i16, 0i16, |x: f64| x as i16, |y: i16| f64::from(y)),
        "i32" => go!(i32, 0i32, |x: f64| x as i32, |y: i32| f64::from(y)),
        "u8" => go!(u8, 0u8, |x: f64| x as u8, |y: u8| f64::from(y)),
        "u16" => go!(u16, 0u16, |x: f64| x as u16, |y: u16| f64::from(y)),
        "u32" => go!(u32, 0u32, |x: f64| x as u32, |y: u32| f64::from(y)),
        "bool" => go!(bool, false, |x: f64| x != 0.0, |y: bool| f64::from(y)),
        _ => panic!("unknown element type {ty}"),
    }
}

fn show(o: &Out) -> String {
    match o {
        Out::Ok(b) => format!("ok {}", b.show()),
        Out::NonSquare => "err nonsquare".into(),
        Out::Singular => "err singular".into(),
        Out::OtherErr(e) => format!("err other_{}", e.replace(' ', "_")),
        Out::Panic => "panic".into(),
    }
}

// ------------------------------------------------------------------------------------------------
// the oracle (from the statement; exact)

/// exact determinant of an integer matrix (Bareiss, i128)
fn det_int(n: usize, v: &[i128]) -> i128 {
    if n == 0 {
        return 1;
    }
    let mut m = v.to_vec();
    let mut sign = 1i128;
    let mut prev = 1i128;
    for k in 0..n - 1 {
        if m[k * n + k] == 0 {
            let Some(r) = (k + 1..n).find(|&r| m[r * n + k] != 0) else { return 0 };
            for c in 0..n {
                m.swap(k * n + c, r * n + c);
            }
            sign = -sign;
        }
        for i in k + 1..n {
            for j in k + 1..n {
                m[i * n + j] = (m[i * n + j] * m[k * n + k] - m[i * n + k] * m[k * n + j]) / prev;
            }
        }
        prev = m[k * n + k];
    }
    sign * m[n * n - 1]
}

fn is_small_int(a: &G) -> bool {
    a.v.iter().all(|x| x.fract() == 0.0 && x.abs() <= 2.0)
}

/// strictly diagonally dominant by rows or by columns with margin ≥ 1/4, entries ≤ 2^8: must be inverted
fn diag_dominant(a: &G) -> bool {
    let n = a.h;
    if !a.v.iter().all(|x| x.is_finite() && x.abs() <= 256.0) {
        return false;
    }
    let by_rows = (0..n).all(|i| {
        let off: f64 = (0..n).filter(|&j| j != i).map(|j| a.at(i, j).abs()).sum();
        a.at(i, i).abs() >= off * 1.0000001 + 0.25
    });
    let by_cols = (0..n).all(|j| {
        let off: f64 = (0..n).filter(|&i| i != j).map(|i| a.at(i, j).abs()).sum();
        a.at(j, j).abs() >= off * 1.0000001 + 0.25
    });
    by_rows || by_cols
}

/// what the statement demands of the outcome kind: Some(true) = must be inverted, Some(false) = must be refused
/// as singular, None = either (then only the clauses about a returned matrix apply)
pub fn expectation(a: &G) -> (Option<bool>, &'static str) {
    let n = a.h;
    if n == 0 {
        return (Some(true), "the empty matrix (its inverse is the empty matrix)");
    }
    if (0..n).any(|i| (0..n).all(|j| a.at(i, j) == 0.0)) {
        return (Some(false), "zero row");
    }
    if (0..n).any(|j| (0..n).all(|i| a.at(i, j) == 0.0)) {
        return (Some(false), "zero column");
    }
    if (0..n).any(|i| (0..i).any(|k| (0..n).all(|j| a.at(i, j) == a.at(k, j)))) {
        return (Some(false), "repeated row");
    }
    if is_small_int(a) {
        let v: Vec<i128> = a.v.iter().map(|x| *x as i128).collect();
        let d = det_int(n, &v);
        if d == 0 && n <= 3 {
            return (Some(false), "singular matrix with entries in -2..2");
        }
        if d == 0 {
            return (Some(false), "singular matrix with entries in -2..2 of order >= 4 (rounding hides the singularity from the absolute pivot test)");
        }
        return (Some(true), "non-singular matrix with entries in -2..2");
    }
    if diag_dominant(a) {
        return (Some(true), "strictly diagonally dominant, well scaled");
    }
    (None, "")
}

/// Both products against the identity, exactly.  Tolerance (see tools/props/c10.py for the justification):
/// `|A B - I|_ij <= 2^8 n u max((|A||B|)_ij, max|A| max_k|B_kj|)` and
/// `|B A - I|_ij <= 2^8 n u k max((|B||A|)_ij, max_k|B_ik| max|A|)`, `k = max(1, |A|_inf |B|_inf)`, `u = 2^-53`.
const SAFE_LO: f64 = 4.464794497196387e-103; // 2^-340
const SAFE_HI: f64 = 2.2397447421778042e102; // 2^340

fn check_products(a: &G, b: &G) -> Result<(), String> {
    let n = a.h;
    if b.h != n || b.w != n {
        return Err(format!("the inverse of a {n}x{n} matrix is {}x{}", b.h, b.w));
    }
    // NaN / infinite entries are outside the property; entries outside 2^-340 .. 2^340 can under- or overflow in a
    // product of three, where the (purely relative) rounding model below does not apply and the floor max|A| max|B_kj| is
    // astronomically large: such inputs (subnormal / near-overflow, mixed extremes inside one matrix) are judged by the
    // plug-in's clause 4b, which needs the exact rational |L||U| of partial pivoting (no division in `Big`)
    if !a.v.iter().all(|x| x.is_finite() && (*x == 0.0 || (x.abs() >= SAFE_LO && x.abs() <= SAFE_HI))) {
        return Ok(());
    }
    if let Some(k) = b.v.iter().position(|x| !x.is_finite()) {
        return Err(format!("B[{}][{}] is not finite", k / n.max(1), k % n.max(1)));
    }
    let ab: Vec<Big> = a.v.iter().map(|x| Big::of_f64(*x)).collect();
    let bb: Vec<Big> = b.v.iter().map(|x| Big::of_f64(*x)).collect();
    let amax = a.v.iter().fold(0.0f64, |m, x| m.max(x.abs()));
    let tol = Big::int(n as i64).mul(&Big::pow2(8 - 53));
    let one = Big::int(1);
    // k = max(1, |A|_inf |B|_inf), exactly
    let norm_inf = |m: &Vec<Big>| {
        let mut best = Big::zero();
        for i in 0..n {
            let mut s = Big::zero();
            for j in 0..n {
                s = s.add(&m[i * n + j].abs());
            }
            if best.le(&s) {
                best = s;
            }
        }
        best
    };
    let mut kappa = norm_inf(&ab).mul(&norm_inf(&bb));
    if kappa.le(&one) {
        kappa = one.clone();
    }
    for (name, x, y, left) in [("A B", &ab, &bb, false), ("B A", &bb, &ab, true)] {
        for i in 0..n {
            for j in 0..n {
                let mut s = Big::zero();
                let mut sa = Big::zero();
                for k in 0..n {
                    let t = x[i * n + k].mul(&y[k * n + j]);
                    sa = sa.add(&t.abs());
                    s = s.add(&t);
                }
                // floor of the scale: max|A| times the largest entry of the column (row) of B involved
                let bmax = if left {
                    (0..n).fold(0.0f64, |m, k| m.max(b.at(i, k).abs()))
                } else {
                    (0..n).fold(0.0f64, |m, k| m.max(b.at(k, j).abs()))
                };
                let floor = Big::of_f64(amax).mul(&Big::of_f64(bmax));
                let mut scale = if sa.le(&floor) { floor } else { sa };
                if left {
                    scale = scale.mul(&kappa);
                }
                let r = if i == j { s.sub(&one).abs() } else { s.abs() };
                if !r.le(&tol.mul(&scale)) {
                    return Err(format!("|{name} - I| exceeds 2^8 n u |A||B|-scaled rounding at ({i},{j})"));
                }
            }
        }
    }
    Ok(())
}

pub fn oracle(a: &G, out: &Out) -> Result<(), String> {
    if let Out::Panic = out {
        return Err("inverse panicked".into());
    }
    if let Out::OtherErr(e) = out {
        return Err(format!("unexpected error {e}"));
    }
    if a.h != a.w {
        return match out {
            Out::NonSquare => Ok(()),
            _ => Err(format!("non-square {}x{} input was not rejected as NonSquareMatrix", a.h, a.w)),
        };
    }
    if let Out::NonSquare = out {
        return Err("square input rejected as NonSquareMatrix".into());
    }
    if a.v.iter().any(|x| !x.is_finite()) {
        return Ok(());
    }
    let (expect, why) = expectation(a);
    match out {
        Out::NonSquare => Err("square input rejected as NonSquareMatrix".into()),
        Out::Singular => {
            if expect == Some(true) {
                Err(format!("refused as singular: {why}"))
            } else {
                Ok(())
            }
        }
        Out::Ok(b) => {
            if expect == Some(false) {
                return Err(format!("inverted although it cannot be: {why}"));
            }
            check_products(a, b)
        }
        Out::OtherErr(_) | Out::Panic => unreachable!(),
    }
}

/// the digest of the C09 sweeps (weighted sum of magnitudes + mask of negative entries)
fn digest(g: &G) -> String {
    // as in c09.rs: entries below 2^-30 of the largest one do not enter the sign mask
    let mut big = 0.0f64;
    for x in &g.v {
        if big < x.abs() {
            big = x.abs();
        }
    }
    let thr = big * 2f64.powi(-30);
    let mut s = 0.0f64;
    let mut mask = 0u64;
    let mut k = 0u32;
    for x in &g.v {
        k += 1;
        s += (k as f64) * x.abs();
        if *x < 0.0 && thr <= x.abs() {
            mask |= 1u64 << (k - 1);
        }
    }
    format!("{} {}", fbits(s), mask)
}

const SWEEP_TYPES: [&str; 5] = ["i32", "f64", "i8", "f32", "i16"];

fn run_sweep(t: &mut Toks) -> Obs {
    let first: Vec<f64> = (0..6).map(|_| t.i64() as f64).collect();
    let mut obs = String::new();
    let mut verdict: Result<(), String> = Ok(());
    for c in 0..125 {
        let third = [(c / 25) as i64 - 2, ((c / 5) % 5) as i64 - 2, (c % 5) as i64 - 2];
        let mut v = first.clone();
        v.extend(third.iter().map(|x| *x as f64));
        let g = G { h: 3, w: 3, v };
        let out = call(SWEEP_TYPES[c % 5], &g);
        if verdict.is_ok() {
            if let Err(e) = oracle(&g, &out) {
                verdict = Err(format!("third row {} {} {}: {e}", third[0], third[1], third[2]));
            }
        }
        if !obs.is_empty() {
            obs.push(' ');
        }
        match &out {
            Out::Ok(b) => obs.push_str(&format!("ok {}", digest(b))),
            Out::Singular => obs.push_str("sing"),
            other => obs.push_str(&show(other).replace(' ', "_")),
        }
    }
    Obs::with(obs, verdict)
}

pub fn run(line: &str) -> Obs {
    let mut t = Toks::new(line);
    let cmd = t.tok();
    match cmd {
        "inv3" => run_sweep(&mut t),
        "inverse" => {
            let ty = t.tok();
            let (h, w, v) = t.mat_f64();
            let g = G { h, w, v };
            let out = call(ty, &g);
            let verdict = oracle(&g, &out);
            Obs::with(show(&out), verdict)
        }
        "inv2" => {
            let (h, w, v) = t.mat_f64();
            let g = G { h, w, v };
            let out = call("f64", &g);
            let verdict = oracle(&g, &out);
            match &out {
                Out::Ok(b) => {
                    let back = call("f64", b);
                    // the second call is an `inverse` call like any other: its own clauses apply to it
                    // (the return to A is judged by the plug-in, which knows the exact condition number)
                    let verdict = verdict.and_then(|_| match &back {
                        Out::Panic => Err("inverse of the inverse panicked".to_string()),
                        Out::NonSquare => Err("inverse of the inverse: NonSquareMatrix".to_string()),
                        Out::OtherErr(e) => Err(format!("inverse of the inverse: unexpected error {e}")),
                        Out::Ok(a2) => check_products(b, a2).map_err(|e| format!("inverse of the inverse: {e}")),
                        Out::Singular => Ok(()),
                    });
                    Obs::with(format!("{} back {}", show(&out), show(&back)), verdict)
                }
                _ => Obs::with(show(&out), verdict),
            }
        }
        _ => panic!("unknown C10 request {cmd}"),
    }
}

// ------------------------------------------------------------------------------------------------
// generators

const INT_TYPES: [&str; 5] = ["i32", "f64", "i8", "i16", "f32"];
const UINT_TYPES: [&str; 8] = ["u8", "i32", "u16", "f64", "u32", "i8", "f32", "i16"];
const ALL_TYPES: [&str; 9] = ["f64", "f32", "i8", "i16", "i32", "u8", "u16", "u32", "bool"];

/// an element type that can hold these integer values, rotating with `k`
fn int_type(v: &[f64], k: usize) -> &'static str {
    if v.iter().all(|x| *x == 0.0 || *x == 1.0) && k % 4 == 3 {
        "bool"
    } else if v.iter().all(|x| *x >= 0.0) {
        UINT_TYPES[k % 8]
    } else {
        INT_TYPES[k % 5]
    }
}

fn emit_inv(emit: &mut dyn FnMut(String), ty: &str, h: usize, w: usize, v: &[f64]) {
    emit(format!("inverse {ty} {}", req_mat_f(h, w, v)));
}

fn int_mat(rng: &mut Rng, n: usize, lo: i64, hi: i64) -> Vec<f64> {
    (0..n * n).map(|_| rng.range(lo, hi) as f64).collect()
}

fn matmul(n: usize, a: &[f64], b: &[f64]) -> Vec<f64> {
    let mut c = vec![0.0; n * n];
    for i in 0..n {
        for j in 0..n {
            for k in 0..n {
                c[i * n + j] += a[i * n + k] * b[k * n + j];
            }
        }
    }
    c
}

fn shuffle(rng: &mut Rng, n: usize) -> Vec<usize> {
    let mut p: Vec<usize> = (0..n).collect();
    for i in (1..n).rev() {
        let j = rng.below(i as u64 + 1) as usize;
        p.swap(i, j);
    }
    p
}

/// a random (nearly) orthogonal matrix: a product of Givens rotations in random planes
fn rotation(rng: &mut Rng, n: usize) -> Vec<f64> {
    let mut q = vec![0.0; n * n];
    for i in 0..n {
        q[i * n + i] = 1.0;
    }
    if n < 2 {
        return q;
    }
    for _ in 0..3 * n {
        let p = rng.below(n as u64) as usize;
        let mut r = rng.below(n as u64 - 1) as usize;
        if r >= p {
            r += 1;
        }
        let th = rng.uniform(0.0, std::f64::consts::TAU);
        let (s, c) = th.sin_cos();
        for j in 0..n {
            let (x, y) = (q[p * n + j], q[r * n + j]);
            q[p * n + j] = c * x - s * y;
            q[r * n + j] = s * x + c * y;
        }
    }
    q
}

/// `Q1 diag(s) Q2` with singular values between 1 and `kappa` (log-uniform, both ends attained), scaled by a
/// power of two: the 2-norm condition number is `kappa` up to rounding, by construction
fn conditioned(rng: &mut Rng, n: usize, kappa: f64) -> Vec<f64> {
    let q1 = rotation(rng, n);
    let q2 = rotation(rng, n);
    let mut d = vec![0.0; n * n];
    for i in 0..n {
        let s = if i == 0 {
            kappa
        } else if i == n - 1 {
            1.0
        } else {
            kappa.powf(rng.unit())
        };
        d[i * n + i] = if rng.chance(1, 2) { -s } else { s };
    }
    let scale = 2f64.powi(rng.range(-6, 6) as i32) / kappa.sqrt();
    let m = matmul(n, &matmul(n, &q1, &d), &q2);
    m.iter().map(|x| x * scale).collect()
}

/// a matrix whose pivoting permutation is the given one: row `i` carries its dominant entry in column `tau[i]`
/// (size 1/2 … 3), the rest is noise of relative size `noise`; elimination then picks, in column `c`, the row `i`
/// with `tau[i] = c`, so `P` is the permutation matrix of `tau^-1` — a 3-cycle `tau` gives a `P` with `P != P^T`
fn perm_matrix(rng: &mut Rng, n: usize, tau: &[usize], noise: f64) -> Vec<f64> {
    let mut v = vec![0.0; n * n];
    for i in 0..n {
        for j in 0..n {
            v[i * n + j] = if tau[i] == j {
                let s = *rng.pick(&[0.5, 1.0, 2.0, 1.5, 3.0]);
                if rng.chance(1, 2) { -s } else { s }
            } else if noise == 0.0 {
                0.0
            } else {
                rng.uniform(-noise, noise) / n as f64
            };
        }
    }
    v
}

fn is_f32(v: &[f64]) -> bool {
    v.iter().all(|x| (*x as f32) as f64 == *x)
}

pub fn generate(seed: u64, thorough: bool, emit: &mut dyn FnMut(String)) {
    let mut rng = Rng::new(seed ^ 0xC10);
    let scale = if thorough { 20 } else { 1 };

    // 1. every 2x2 with entries -2..2: every element type that can hold it (thorough) or a rotating one
    for c in 0..625usize {
        let v: Vec<f64> = [c / 125, (c / 25) % 5, (c / 5) % 5, c % 5].iter().map(|x| *x as f64 - 2.0).collect();
        if thorough {
            for ty in ALL_TYPES {
                let ok = match ty {
                    "bool" => v.iter().all(|x| *x == 0.0 || *x == 1.0),
                    "u8" | "u16" | "u32" => v.iter().all(|x| *x >= 0.0),
                    _ => true,
                };
                if ok {
                    emit_inv(emit, ty, 2, 2, &v);
                }
            }
        } else {
            emit_inv(emit, int_type(&v, c), 2, 2, &v);
        }
        if c % 7 == 0 {
            emit(format!("inv2 {}", req_mat_f(2, 2, &v)));
        }
    }
    // the empty matrix and every 1x1 with entry -2..2, every element type that can hold it
    for ty in ALL_TYPES {
        emit_inv(emit, ty, 0, 0, &[]);
        for x in -2..=2i64 {
            let ok = match ty {
                "bool" => x == 0 || x == 1,
                "u8" | "u16" | "u32" => x >= 0,
                _ => true,
            };
            if ok {
                emit_inv(emit, ty, 1, 1, &[x as f64]);
            }
        }
    }
    emit("inv2 0 0".to_string());
    // around the pivot threshold
    let e = f64::EPSILON;
    for x in [e, -e, e * (1.0 - e / 2.0), e / 2.0, e * (1.0 + e), 5e-324, -0.0, 1e300, -1e-300] {
        emit_inv(emit, "f64", 1, 1, &[x]);
        emit_inv(emit, "f64", 2, 2, &[x, 1.0, x / 2.0, 1.0]);
        emit_inv(emit, "f64", 2, 2, &[1.0, 1.0, 1.0, 1.0 + x]);
        emit_inv(emit, "f64", 2, 2, &[1.0, 0.5, x, 1.0]);
    }
    for x in [e as f32 as f64, 1.1920929e-7f32 as f64, f32::MIN_POSITIVE as f64, -0.0] {
        emit_inv(emit, "f32", 1, 1, &[x]);
        emit_inv(emit, "f32", 2, 2, &[1.0, 0.5, x, 1.0]);
    }

    // 2. 3x3 with entries -2..2: a sample as full requests (exact rational inverse as reference in the plug-in);
    // the thorough tier also sweeps all 5^9 (request inv3: first two rows given, 125 third rows each)
    let n3 = if thorough { 40000 } else { 2500 };
    for k in 0..n3 {
        let v = int_mat(&mut rng, 3, -2, 2);
        emit_inv(emit, int_type(&v, k), 3, 3, &v);
        if k % 10 == 0 {
            emit(format!("inv2 {}", req_mat_f(3, 3, &v)));
        }
    }
    if thorough {
        for c in 0..15625usize {
            let mut d = Vec::new();
            let mut x = c;
            for _ in 0..6 {
                d.push((x % 5) as i64 - 2);
                x /= 5;
            }
            let s: Vec<String> = d.iter().map(|x| x.to_string()).collect();
            emit(format!("inv3 {}", s.join(" ")));
        }
    } else {
        for _ in 0..60 {
            let s: Vec<String> = (0..6).map(|_| rng.range(-2, 2).to_string()).collect();
            emit(format!("inv3 {}", s.join(" ")));
        }
    }

    // 3. random well-conditioned, n <= 8: condition number 1 … 1000 by construction
    for k in 0..300 * scale {
        let n = 1 + rng.below(8) as usize;
        let kappa = [1.0, 10.0, 100.0, 1000.0, 3.0, 30.0][k % 6];
        let v = conditioned(&mut rng, n, kappa);
        if k % 3 == 0 {
            emit(format!("inv2 {}", req_mat_f(n, n, &v)));
        } else if k % 3 == 1 {
            let w: Vec<f64> = v.iter().map(|x| *x as f32 as f64).collect();
            emit_inv(emit, "f32", n, n, &w);
        } else {
            emit_inv(emit, "f64", n, n, &v);
        }
    }
    // random dense (condition unknown: the plug-in computes it exactly and applies the conditioned clauses only
    // below 1e3), dyadic, small integers of every order
    for k in 0..300 * scale {
        let n = 1 + rng.below(8) as usize;
        match k % 4 {
            0 => {
                let v: Vec<f64> = (0..n * n).map(|_| rng.uniform(-1.0, 1.0)).collect();
                emit(format!("inv2 {}", req_mat_f(n, n, &v)));
            }
            1 => {
                let v: Vec<f64> = (0..n * n).map(|_| rng.dyadic(64, 6)).collect();
                emit_inv(emit, if is_f32(&v) && k % 8 == 1 { "f32" } else { "f64" }, n, n, &v);
            }
            2 => {
                let v = int_mat(&mut rng, n, -2, 2);
                emit_inv(emit, int_type(&v, k / 4), n, n, &v);
            }
            _ => {
                let v = int_mat(&mut rng, n, 0, if k % 8 == 3 { 1 } else { 9 });
                emit_inv(emit, int_type(&v, k / 4), n, n, &v);
            }
        }
    }
    // diagonally dominant (must be inverted)
    for k in 0..100 * scale {
        let n = 1 + rng.below(8) as usize;
        let mut v: Vec<f64> = (0..n * n).map(|_| rng.uniform(-1.0, 1.0)).collect();
        for i in 0..n {
            let off: f64 = (0..n).filter(|&j| j != i).map(|j| if k % 2 == 0 { v[i * n + j].abs() } else { v[j * n + i].abs() }).sum();
            let d = off + rng.uniform(0.5, 2.0);
            v[i * n + i] = if rng.chance(1, 2) { -d } else { d };
        }
        if k % 2 == 0 {
            emit_inv(emit, "f64", n, n, &v);
        } else {
            emit(format!("inv2 {}", req_mat_f(n, n, &v)));
        }
    }

    // 4. pivoting patterns.  Cyclic shifts of the rows (one n-cycle: for n >= 3 the permutation matrix is not
    // symmetric, so a transposed P gives a wrong inverse), every permutation of 3 and of 4 rows, random
    // permutations up to 8; pure scaled permutations (integers: every element type) and with noise
    for n in 3..=8usize {
        for shift in 1..n {
            let tau: Vec<usize> = (0..n).map(|i| (i + shift) % n).collect();
            for noise in [0.0, 0.125, 0.5] {
                let v = perm_matrix(&mut rng, n, &tau, noise);
                emit_inv(emit, "f64", n, n, &v);
            }
            // 0/1 and small-integer versions
            let v: Vec<f64> = (0..n * n).map(|k| if tau[k / n] == k % n { 1.0 } else { 0.0 }).collect();
            emit_inv(emit, ALL_TYPES[(n + shift) % 9], n, n, &v);
            let w: Vec<f64> = (0..n * n).map(|k| if tau[k / n] == k % n { 4.0 } else if (k / n + k % n) % 3 == 0 { 1.0 } else { 0.0 }).collect();
            emit_inv(emit, UINT_TYPES[(n + shift) % 8], n, n, &w);
            emit(format!("inv2 {}", req_mat_f(n, n, &w)));
        }
    }
    for n in [3usize, 4] {
        let mut perms: Vec<Vec<usize>> = vec![vec![]];
        for _ in 0..n {
            let mut next = Vec::new();
            for p in &perms {
                for x in 0..n {
                    if !p.contains(&x) {
                        let mut q = p.clone();
                        q.push(x);
                        next.push(q);
                    }
                }
            }
            perms = next;
        }
        for (k, tau) in perms.iter().enumerate() {
            let v = perm_matrix(&mut rng, n, tau, 0.25);
            emit_inv(emit, "f64", n, n, &v);
            let w: Vec<f64> = (0..n * n)
                .map(|t| if tau[t / n] == t % n { 2.0 } else { rng.range(-1, 1) as f64 })
                .collect();
            emit_inv(emit, INT_TYPES[k % 5], n, n, &w);
        }
    }
    for k in 0..200 * scale {
        let n = 2 + rng.below(7) as usize;
        let tau = shuffle(&mut rng, n);
        let noise = [0.0, 2f64.powi(-30), 2f64.powi(-10), 0.125, 0.5][k % 5];
        let v = perm_matrix(&mut rng, n, &tau, noise);
        if k % 4 == 0 {
            emit(format!("inv2 {}", req_mat_f(n, n, &v)));
        } else {
            emit_inv(emit, "f64", n, n, &v);
        }
    }
    // entries +-1 and 0: every pivot search meets ties (the first maximum must win)
    for k in 0..80 * scale {
        let n = 2 + rng.below(7) as usize;
        let v: Vec<f64> = (0..n * n).map(|_| *rng.pick(&[-1.0, 1.0, 1.0, -1.0, 0.0])).collect();
        emit_inv(emit, INT_TYPES[k % 5], n, n, &v);
    }
    // mild row scalings
    for _ in 0..60 * scale {
        let n = 2 + rng.below(7) as usize;
        let mut v = conditioned(&mut rng, n, 10.0);
        for i in 0..n {
            let s = 2f64.powi(rng.range(-4, 4) as i32);
            for j in 0..n {
                v[i * n + j] *= s;
            }
        }
        emit_inv(emit, "f64", n, n, &v);
    }

    // 5. singular: zero row, zero column, repeated row (floats and integers, every order), thin integer products
    for k in 0..240 * scale {
        let n = 2 + rng.below(7) as usize;
        let mut v: Vec<f64> = if k % 2 == 0 {
            int_mat(&mut rng, n, -5, 5)
        } else {
            (0..n * n).map(|_| rng.uniform(-1.0, 1.0)).collect()
        };
        let r = rng.below(n as u64) as usize;
        match k % 5 {
            0 => (0..n).for_each(|j| v[r * n + j] = 0.0),
            1 => (0..n).for_each(|i| v[i * n + r] = 0.0),
            2 | 3 => {
                let q = (r + 1 + rng.below(n as u64 - 1) as usize) % n;
                for j in 0..n {
                    v[q * n + j] = v[r * n + j];
                }
            }
            _ => {
                let rk = 1 + rng.below(n as u64 - 1) as usize;
                let b: Vec<f64> = (0..n * rk).map(|_| rng.range(-2, 2) as f64).collect();
                let c: Vec<f64> = (0..rk * n).map(|_| rng.range(-2, 2) as f64).collect();
                for i in 0..n {
                    for j in 0..n {
                        v[i * n + j] = (0..rk).map(|t| b[i * rk + t] * c[t * n + j]).sum();
                    }
                }
            }
        }
        let ints = v.iter().all(|x| x.fract() == 0.0);
        emit_inv(emit, if ints { int_type(&v, k / 5) } else { "f64" }, n, n, &v);
    }

    // 6. non-square and empty shapes, every element type
    for h in 0..=4usize {
        for w in 0..=4usize {
            if h == w {
                continue;
            }
            for (k, ty) in ALL_TYPES.iter().enumerate() {
                let v: Vec<f64> = (0..h * w).map(|_| if *ty == "bool" { rng.range(0, 1) } else if ty.starts_with('u') { rng.range(0, 2) } else { rng.range(-2, 2) } as f64).collect();
                if thorough || (h + w + k) % 3 == 0 || h == 0 || w == 0 {
                    emit_inv(emit, ty, h, w, &v);
                }
            }
        }
    }
    for (h, w) in [(8usize, 7usize), (7, 8), (1, 8), (8, 1), (7, 3)] {
        let v: Vec<f64> = (0..h * w).map(|_| rng.uniform(-1.0, 1.0)).collect();
        emit_inv(emit, "f64", h, w, &v);
        emit(format!("inv2 {}", req_mat_f(h, w, &v)));
    }
    harden(&mut rng, thorough, emit);
}

// ------------------------------------------------------------------------------------------------
// families added after the seeded-change rounds (scale, size, zeros/signs/ties, NaN)

fn dense(rng: &mut Rng, n: usize) -> Vec<f64> {
    (0..n * n).map(|_| rng.uniform(-1.0, 1.0)).collect()
}

fn sgn(rng: &mut Rng) -> f64 {
    if rng.chance(1, 2) { -1.0 } else { 1.0 }
}

fn p2(e: i64) -> f64 {
    // exact for every exponent: `powi` computes the positive power first, so it gives 0 below 2^-1023
    let e = e as i32;
    if e > 1023 {
        f64::INFINITY
    } else if e >= -1022 {
        f64::from_bits(((e + 1023) as u64) << 52)
    } else if e >= -1074 {
        f64::from_bits(1u64 << (e + 1074))
    } else {
        0.0
    }
}

fn shuffle_rows(rng: &mut Rng, n: usize, v: &mut [f64]) {
    for i in (1..n).rev() {
        let j = rng.below(i as u64 + 1) as usize;
        for c in 0..n {
            v.swap(i * n + c, j * n + c);
        }
    }
}

fn emit_f(emit: &mut dyn FnMut(String), k: usize, n: usize, v: &[f64]) {
    if k % 5 == 4 {
        emit(format!("inv2 {}", req_mat_f(n, n, v)));
    } else if k % 5 == 3 && is_f32(v) {
        emit_inv(emit, "f32", n, n, v);
    } else {
        emit_inv(emit, "f64", n, n, v);
    }
}

fn harden(rng: &mut Rng, thorough: bool, emit: &mut dyn FnMut(String)) {
    let reps = if thorough { 20 } else { 1 };

    // ---- SIZE: every order 9..=40 once (48, 64 in the thorough tier): well conditioned by construction, random
    // permutations with noise, small integers through an integer element type
    for n in (9..=40usize).chain([48, 64]) {
        if n > 40 && !thorough {
            continue;
        }
        let v = conditioned(rng, n, [3.0, 30.0, 300.0][n % 3]);
        emit_f(emit, n, n, &v);
        let tau = shuffle(rng, n);
        let w = perm_matrix(rng, n, &tau, 0.25);
        emit_inv(emit, "f64", n, n, &w);
        let mut z: Vec<f64> = (0..n * n).map(|_| rng.range(-1, 1) as f64).collect();
        for i in 0..n {
            z[i * n + tau[i]] = (n as f64 + 1.0) * sgn(rng);
        }
        emit_inv(emit, INT_TYPES[n % 5], n, n, &z);
    }

    for (h, w) in [(17usize, 16usize), (16, 17), (40, 39), (39, 40), (1, 40), (40, 1)] {
        let v: Vec<f64> = (0..h * w).map(|_| rng.uniform(-1.0, 1.0)).collect();
        emit_inv(emit, "f64", h, w, &v);
        let z: Vec<f64> = (0..h * w).map(|_| rng.range(0, 1) as f64).collect();
        emit_inv(emit, ALL_TYPES[(h + w) % 9], h, w, &z);
    }

    // ---- SCALE
    for k in 0..480 * reps {
        let n = 1 + rng.below(8) as usize;
        let mut v = conditioned(rng, n, [1.0, 10.0, 100.0, 1000.0][k / 8 % 4]);
        match k % 8 {
            // the whole matrix at magnitude 2^e: e = -70..60 (below about 2^-52 everything is refused: the pivot
            // test is absolute), around the threshold, and up to 2^300
            0 => {
                let e = rng.range(-70, 60);
                v.iter_mut().for_each(|x| *x *= p2(e));
            }
            1 => {
                let e = rng.range(-56, -44);
                v.iter_mut().for_each(|x| *x *= p2(e));
            }
            2 => {
                let e = rng.range(60, 300);
                v.iter_mut().for_each(|x| *x *= p2(e));
            }
            // norm >= 1e12: every entry of the inverse is below 1e-12 (2^40 .. 2^70: the inverse crosses EPSILON)
            3 => {
                let e = rng.range(40, 70);
                v.iter_mut().for_each(|x| *x *= p2(e));
            }
            // one huge row / column (2^40 .. 2^70): one column / row of the inverse is tiny
            4 => {
                let t = rng.below(n as u64) as usize;
                let s = p2(rng.range(40, 70));
                for j in 0..n {
                    if k % 16 < 8 {
                        v[t * n + j] *= s;
                    } else {
                        v[j * n + t] *= s;
                    }
                }
            }
            // rows and / or columns scaled by 2^-40 .. 2^40
            5 | 6 => {
                for i in 0..n {
                    let (sr, sc) = (p2(rng.range(-40, 40)), p2(rng.range(-40, 40)));
                    for j in 0..n {
                        if k % 16 != 5 {
                            v[i * n + j] *= sr;
                        }
                        if k % 16 != 6 {
                            v[j * n + i] *= sc;
                        }
                    }
                }
            }
            // single entries 2^-60 .. 2^-20 below the rest
            _ => {
                for (t, x) in v.iter_mut().enumerate() {
                    if t / n != t % n && rng.chance(1, 3) {
                        *x *= p2(-rng.range(20, 60));
                    }
                }
            }
        }
        emit_f(emit, k / 8, n, &v);
    }
    // graded columns (the part below the diagonal is 10^-t of the head, or exactly zero), rows in order / shuffled
    for k in 0..136 * reps {
        let n = 2 + rng.below(7) as usize;
        let t = (k % 17 + 1) as i32;
        let mut v = dense(rng, n);
        for j in 0..n {
            let mode = rng.below(3);
            for i in j + 1..n {
                match mode {
                    0 => v[i * n + j] *= 10f64.powi(-t),
                    1 => v[i * n + j] = if rng.chance(1, 2) { 0.0 } else { -0.0 },
                    _ => {}
                }
            }
            v[j * n + j] = rng.uniform(0.5, 1.0) * sgn(rng);
        }
        if k % 2 == 1 {
            shuffle_rows(rng, n, &mut v);
        }
        emit_f(emit, k, n, &v);
    }
    // subnormal and near-overflow matrices (outside the oracle's rounding model: compared with the model only)
    for k in 0..24 * reps {
        let n = 1 + rng.below(4) as usize;
        let e = if k % 2 == 0 { -rng.range(1000, 1070) } else { rng.range(900, 1020) };
        let v: Vec<f64> = dense(rng, n).iter().map(|x| x * p2(e)).collect();
        emit_inv(emit, "f64", n, n, &v);
    }

    // ---- ZEROS / SIGNS / TIES
    for k in 0..320 * reps {
        let n = 1 + rng.below(8) as usize;
        let mut v = dense(rng, n);
        match k % 8 {
            // every entry negative
            0 => v.iter_mut().for_each(|x| *x = -x.abs() - 0.01),
            // in every column the entry of largest magnitude is negative, the others small and positive
            1 | 2 => {
                let p = shuffle(rng, n);
                for j in 0..n {
                    for i in 0..n {
                        v[i * n + j] = if p[j] == i { -rng.uniform(2.0, 4.0) } else { rng.uniform(0.01, 0.4) / n as f64 };
                    }
                }
            }
            // the same in integers (every element type that has a sign)
            3 => {
                let p = shuffle(rng, n);
                for j in 0..n {
                    for i in 0..n {
                        v[i * n + j] = if p[j] == i { -(n as f64) - rng.range(1, 3) as f64 } else { rng.range(0, 1) as f64 };
                    }
                }
            }
            // triangular / diagonal, with signed zeros, rows possibly shuffled
            4 => (0..n * n).for_each(|t| if t / n > t % n { v[t] = 0.0 } else if t / n == t % n { v[t] = rng.uniform(0.5, 2.0) * sgn(rng) }),
            5 => (0..n * n).for_each(|t| if t / n < t % n { v[t] = -0.0 } else if t / n == t % n { v[t] = rng.uniform(0.5, 2.0) * sgn(rng) }),
            6 => (0..n * n).for_each(|t| v[t] = if t / n != t % n { if t % 2 == 0 { 0.0 } else { -0.0 } } else { rng.uniform(0.5, 2.0) * sgn(rng) }),
            // exact ties in every pivot column: +-1 and +-1/2 only
            _ => v.iter_mut().for_each(|x| *x = if x.abs() < 0.5 { 0.5 } else { 1.0 } * x.signum()),
        }
        if (4..=6).contains(&(k % 8)) && rng.chance(1, 2) {
            shuffle_rows(rng, n, &mut v);
        }
        if k % 8 == 3 {
            emit_inv(emit, INT_TYPES[k / 8 % 5], n, n, &v);
        } else {
            emit_f(emit, k / 8, n, &v);
        }
    }
    // near ties in the pivot column: candidates within 1 +- 10^-t (t = 1..17) of each other
    for k in 0..102 * reps {
        let n = 2 + rng.below(7) as usize;
        let d = 10f64.powi(-((k % 17) as i32 + 1));
        let mut v = dense(rng, n);
        for j in 0..n {
            for i in 0..n {
                if rng.chance(2, 3) {
                    v[i * n + j] = (1.0 + d * rng.range(-2, 2) as f64) * sgn(rng);
                }
            }
        }
        emit_inv(emit, "f64", n, n, &v);
    }

    // ---- NaN / infinities in the input (correspondence only)
    for k in 0..48 * reps {
        let n = 1 + rng.below(4) as usize;
        let mut v = dense(rng, n);
        let t = rng.below((n * n) as u64) as usize;
        v[t] = [f64::NAN, f64::INFINITY, f64::NEG_INFINITY, 1e308, -1.7e308, 5e-324][k % 6];
        emit_inv(emit, "f64", n, n, &v);
        if k % 6 < 3 {
            emit_inv(emit, "f32", n, n, &v.iter().map(|x| *x as f32 as f64).collect::<Vec<f64>>());
        }
    }
    threshold_scales(rng, thorough, emit);
    mixed_extremes(rng, thorough, emit);
    block_boundaries(rng, thorough, emit);
    resonant(rng, thorough, emit);
}

/// BLOCK BOUNDARIES (sixth seeded round, category O): a blocked / panelled / unrolled factorisation, pivot search, row
/// exchange, permuted right-hand side, substitution or column store changes behaviour exactly when the order passes 16, 32,
/// 64 (128 in the thorough tier): every order blk-1, blk, blk+1, blk+2, 2 blk+1 with non-constant, NON-symmetric data:
///  * exact bidiagonal products `P L0 U0` (unit lower bidiagonal with multipliers +-1, +-1/2, upper bidiagonal with dyadic
///    diagonal and a smaller super-diagonal: every elimination step is exact, the exact inverse is dyadic and moderate),
///    rows in order and shuffled (an exchange at nearly every step, across blocks);
///  * small-integer row-dominant matrices through an integer element type, and the same with shuffled rows scaled by powers
///    of two;
///  * one well-conditioned real dense matrix `Q1 D Q2`;
///  * singular ones the statement names, with the defect AT the boundary: a zero row / zero column at index blk-1, blk, n-1
///    and a row repeated across the boundary (must be refused).
/// Judged exactly by `check_products` (both products, `Big`) and `expectation`; the plug-in judges the products (clause 4)
/// at these orders and leaves the exact-inverse clauses to orders <= 12.
fn block_boundaries(rng: &mut Rng, thorough: bool, emit: &mut dyn FnMut(String)) {
    const ITYPES: [&str; 4] = ["i32", "f64", "i16", "f32"];
    for &blk in &[16usize, 32, 64, 128] {
        for n in [blk - 1, blk, blk + 1, blk + 2, 2 * blk + 1] {
            if n > 130 || (n > 66 && !thorough) {
                continue;
            }
            // exact bidiagonal product
            let mut l0 = vec![0.0; n * n];
            let mut u0 = vec![0.0; n * n];
            for i in 0..n {
                l0[i * n + i] = 1.0;
                if i > 0 {
                    l0[i * n + i - 1] = *rng.pick(&[1.0, -1.0, 0.5, -0.5, 1.0, -1.0]);
                }
                let d = *rng.pick(&[1.0, 2.0, 4.0, 1.5, 3.0]) * sgn(rng);
                u0[i * n + i] = d;
                if i + 1 < n {
                    u0[i * n + i + 1] = *rng.pick(&[0.0, 0.5, -0.5, 1.0, -1.0, 0.25]) * if d.abs() >= 2.0 { 2.0 } else { 1.0 };
                }
            }
            u0[0] = 3.0;
            let a = matmul(n, &l0, &u0);
            emit_f(emit, n, n, &a);
            let mut b = a.clone();
            shuffle_rows(rng, n, &mut b);
            emit_f(emit, n + 1, n, &b);
            // small-integer row-dominant, non-symmetric
            let mut v = int_mat(rng, n, -2, 2);
            for i in 0..n {
                let off: f64 = (0..n).filter(|&j| j != i).map(|j| v[i * n + j].abs()).sum();
                v[i * n + i] = (off + 1.0 + rng.below(3) as f64) * sgn(rng);
            }
            emit_inv(emit, ITYPES[n % 4], n, n, &v);
            let mut w = v.clone();
            shuffle_rows(rng, n, &mut w);
            for i in 0..n {
                let s = p2(rng.range(-6, 6));
                for j in 0..n {
                    w[i * n + j] *= s;
                }
            }
            emit_inv(emit, "f64", n, n, &w);
            if n % 2 == 1 || thorough {
                let c = conditioned(rng, n, [3.0, 30.0, 300.0][n % 3]);
                emit_inv(emit, "f64", n, n, &c);
            }
            // the singular matrices of the statement, with the defect at the boundary
            for (t, z) in [(blk - 1).min(n - 2), blk.min(n - 1), n - 1].into_iter().enumerate() {
                let mut s = if t == 1 { b.clone() } else { v.clone() };
                match (n + t) % 3 {
                    0 => (0..n).for_each(|j| s[z * n + j] = 0.0),
                    1 => (0..n).for_each(|i| s[i * n + z] = 0.0),
                    _ => {
                        let src = if z == 0 { n - 1 } else { rng.below(z as u64) as usize };
                        for j in 0..n {
                            s[z * n + j] = s[src * n + j];
                        }
                    }
                }
                emit_inv(emit, "f64", n, n, &s);
            }
        }
    }
}

/// RESONANT / EXACT-RELATION DATA (sixth seeded round, category P): A = (P) L0 U0 with multipliers exactly +-1, +-1/2, 0 and
/// exact zeros in U0, so that every update a_ij - l_ik u_kj is exact and many cancel to exactly 0 (also on the diagonal: an
/// exactly vanishing pivot - refused); column-maximum TIES (|l| = 1) at every step; a last pivot exactly equal to EPSILON
/// (the pivot test is `<`), one ulp below / above it; substitution sums that cancel to exactly 0 or 1; and each of these
/// relations missed by one ulp, 2^-50, 2^-40, 2^-30 relative in one entry; whole matrix scaled by a power of two.
fn resonant(rng: &mut Rng, thorough: bool, emit: &mut dyn FnMut(String)) {
    let reps = if thorough { 10 } else { 1 };
    for k in 0..400 * reps {
        let n = rng.range(2, 8) as usize;
        let mut l0 = vec![0.0; n * n];
        let mut u0 = vec![0.0; n * n];
        for i in 0..n {
            for j in 0..n {
                if i == j {
                    l0[i * n + j] = 1.0;
                    u0[i * n + j] = *rng.pick(&[-4.0, -2.0, -1.0, 1.0, 2.0, 4.0]);
                } else if i > j {
                    l0[i * n + j] = *rng.pick(&[-1.0, 1.0, 0.0, -1.0, 1.0, 0.5, -0.5]);
                } else {
                    u0[i * n + j] = if rng.chance(1, 3) { 0.0 } else { rng.range(-3, 3) as f64 };
                }
            }
        }
        let singular = k % 6 == 5;
        if singular {
            let z = if rng.chance(1, 2) { n - 1 } else { rng.below(n as u64) as usize };
            u0[z * n + z] = 0.0;
        }
        if k % 7 == 3 {
            // last pivot exactly EPSILON, or one ulp off
            u0[n * n - 1] = f64::EPSILON * *rng.pick(&[1.0, 1.0 + f64::EPSILON, 1.0 - f64::EPSILON / 2.0, -1.0]);
        }
        let mut v = matmul(n, &l0, &u0);
        if k % 2 == 1 {
            shuffle_rows(rng, n, &mut v);
        }
        if k % 5 == 1 && !singular {
            let t = rng.below((n * n) as u64) as usize;
            let d = *rng.pick(&[f64::EPSILON, -f64::EPSILON / 2.0, p2(-50), -p2(-40), p2(-40), p2(-30), -p2(-45)]);
            v[t] = if v[t] == 0.0 { d } else { v[t] * (1.0 + d) };
        }
        if k % 5 == 3 {
            let s = p2(rng.range(-40, 40));
            for x in v.iter_mut() {
                *x *= s;
            }
        }
        let integral = v.iter().all(|x| x.fract() == 0.0 && x.abs() <= 100.0);
        if integral && k % 3 == 0 {
            emit_inv(emit, int_type(&v, k), n, n, &v);
        } else {
            emit_f(emit, k, n, &v);
        }
    }
}

/// MIXED EXTREMES INSIDE ONE OBJECT (fourth seeded round): entries near the bottom of the range (subnormal, down to a
/// few significant bits) and near the top (2^900 .. 2^1018) in the SAME matrix, placed so that their product is an
/// ordinary number: `[[P, H], [E, D]]` with an ordinary well-conditioned block `P` (magnitude 2^-6 .. 2^6), `q x m` huge
/// entries `H` in the rows of `P`, `m x q` tiny entries `E` below `P`, and a block `D` of the magnitude of `E P^-1 H` times
/// 2^delta - the elimination multiplies a tiny multiplier `e / p` by a huge pivot-row entry and subtracts an ordinary
/// number from an ordinary number.  Every pivot stays far above EPSILON; `delta` is kept large enough for the inverse
/// (entries up to `1 / (e 2^delta)`) to stay below 2^1016.  Orders 2..6, 1..n-1 tiny rows, rows in order or shuffled, exact
/// zeros among the tiny entries, real and small-dyadic units; the same construction with the tiny entries in the normal
/// range (2^-1022 .. 2^-60: guards written `< 1e-300`, `< 1e-100`, ...) and the huge ones to match; one inversion and (rows
/// in order) inverse-of-the-inverse.  Judged by the plug-in's clause 4b (exact |L||U| of partial pivoting, underflow allowance).
fn mixed_extremes(rng: &mut Rng, thorough: bool, emit: &mut dyn FnMut(String)) {
    let reps = if thorough { 10 } else { 1 };
    let unit = |rng: &mut Rng, exact: bool| -> f64 {
        if exact { *rng.pick(&[1.0, -1.0, 0.5, -0.5, 1.5, -1.5, 0.75, 1.25]) } else { rng.uniform(0.5, 1.0) * sgn(rng) }
    };
    for k in 0..360 * reps {
        let n = 2 + k % 5;
        let m = 1 + rng.below(n as u64 - 1) as usize;
        let q = n - m;
        let exact = k % 4 == 3;
        // the tiny exponent: subnormal (barely / deep), the bottom of the normal range, anywhere below 2^-60
        let e_eps = match k % 6 {
            0 | 1 => -rng.range(1023, 1030),
            2 | 3 => -rng.range(1030, 1052),
            4 => -rng.range(960, 1022),
            _ => -rng.range(60, 960),
        };
        let delta_min = (-1016 - e_eps).max(0);
        let delta = delta_min + if rng.chance(1, 4) { rng.range(0, 20) } else { rng.range(0, 6) };
        let e_p = rng.range(-6, 6);
        let e_d_hi = (1018 + e_eps - e_p + delta).min(30);
        let e_d = rng.range((-40i64).min(e_d_hi), e_d_hi);
        let e_h = e_d - e_eps + e_p - delta;
        let mut v = vec![0.0; n * n];
        // P: diagonally dominant by rows, then (below) rows shuffled
        for i in 0..q {
            let mut off = 0.0;
            for j in 0..q {
                if i != j {
                    let x = if exact { rng.range(-2, 2) as f64 * 0.5 } else { rng.uniform(-1.0, 1.0) };
                    v[i * n + j] = x * p2(e_p);
                    off += x.abs();
                }
            }
            let d = if exact { off.max(1.0) + 1.0 } else { off + rng.uniform(0.5, 1.0) };
            v[i * n + i] = d * sgn(rng) * p2(e_p);
            for j in q..n {
                v[i * n + j] = if rng.chance(1, 6) && m * q > 1 { 0.0 } else { unit(rng, exact) * p2(e_h) };
            }
        }
        let mut any = false;
        for i in q..n {
            for j in 0..q {
                let x = if rng.chance(1, 4) { 0.0 } else { unit(rng, exact) * p2(e_eps) };
                any |= x != 0.0;
                v[i * n + j] = x;
            }
            for j in q..n {
                v[i * n + j] = if i == j { (2 * n) as f64 * sgn(rng) } else { unit(rng, exact) } * p2(e_d);
            }
        }
        if !any {
            v[q * n] = unit(rng, exact) * p2(e_eps);
        }
        if q * m > 0 && (0..q).all(|i| (q..n).all(|j| v[i * n + j] == 0.0)) {
            v[q] = p2(e_h);
        }
        if k % 2 == 1 {
            shuffle_rows(rng, n, &mut v);
        }
        // inverse-of-the-inverse only with the rows in order: the inverse of a row-shuffled matrix of this kind has its huge
        // columns in the middle, and its own elimination then meets pivots that are pure rounding noise (2^950 out of
        // cancelling 2^1005s) - whether it is refused depends on the last bit of B, not on the property
        if k % 6 == 0 {
            emit(format!("inv2 {}", req_mat_f(n, n, &v)));
        } else {
            emit_inv(emit, "f64", n, n, &v);
        }
    }
    // the smallest instances, spelled out: [[p, h], [e, d]] with e h / p = d 2^-delta, every tiny exponent -1022 .. -1074
    // (below about 2^-1050 the inverse leaves no room for a visible product: those are for the comparison with the model)
    for t in 0..=52i64 {
        let e_eps = -1022 - t;
        for (c, delta) in [(1.0, 1i64), (-1.5, 0), (0.75, 4)] {
            let delta = delta + (-1016 - e_eps).max(0);
            let e_h = 1016 - t / 2;
            let e_d = e_eps + e_h + delta;
            if e_d < -44 {
                continue;
            }
            let v = [1.0, c * p2(e_h), p2(e_eps), 2.0 * p2(e_d)];
            if t % 2 == 0 {
                emit_inv(emit, "f64", 2, 2, &v);
            } else {
                emit(format!("inv2 {}", req_mat_f(2, 2, &v)));
            }
            // rows exchanged, and the 3 x 3 with an ordinary row in between
            emit_inv(emit, "f64", 2, 2, &[v[2], v[3], v[0], v[1]]);
            let w = [2.0, 0.5, c * p2(e_h), 0.25, 1.0, 0.0, p2(e_eps), -p2(e_eps), 2.0 * p2(e_d)];
            emit_inv(emit, "f64", 3, 3, &w);
        }
    }
    // decimal spellings around the bottom of the normal range (2.2250738585072014e-308) and the top
    for (e, h, d) in [(2e-308, 1e300, 4e-8), (2.3e-308, 1e300, 4e-8), (1.5e-308, 3e299, 1e-8), (1e-310, 1e302, 1e-5), (5e-309, 1.5e300, 1e-7), (1e-300, 1e292, 2e-8), (1e-200, 1e192, 2e-8)] {
        emit_inv(emit, "f64", 2, 2, &[1.0, h, e, d]);
        emit(format!("inv2 {}", req_mat_f(2, 2, &[1.0, h, e, d])));
        emit_inv(emit, "f64", 3, 3, &[1.0, 0.0, h, 0.0, 2.0, -h, e, -e, d]);
    }
}

/// TWO RARE THINGS AT ONCE (third seeded round): well-conditioned matrices that FORCE ROW EXCHANGES - permutation
/// matrices (cyclic shifts: `P != P^T`), signed / scaled permutations, permutations plus small-integer or real noise,
/// small-integer matrices with zeros on the diagonal, the dense `[[1/2, 4], [1, 1/4]]` kind - times EVERY power of two
/// 2^-60 .. 2^60, so that the largest entry of a pivot column is exactly 2^-52 (= EPSILON, the refusal threshold),
/// 2^-53, 2^-51, ... at the moment a row exchange is due; and through `inv2` the same for the inverse (A = 2^52 P has the
/// inverse 2^-52 P^T, whose inversion meets pivots exactly EPSILON).  Multiplication by a power of two is exact, so the
/// condition number does not change with the scale.  Also one ulp on either side of the threshold.
fn threshold_scales(rng: &mut Rng, thorough: bool, emit: &mut dyn FnMut(String)) {
    let base = |rng: &mut Rng, kind: usize, n: usize| -> Vec<f64> {
        let tau = if kind % 2 == 0 {
            let shift = 1 + rng.below(n as u64 - 1) as usize;
            (0..n).map(|i| (i + shift) % n).collect::<Vec<usize>>()
        } else {
            let mut t = shuffle(rng, n);
            if (0..n).all(|i| t[i] == i) {
                t.swap(0, n - 1);
            }
            t
        };
        match kind % 6 {
            // a permutation matrix
            0 => (0..n * n).map(|t| if tau[t / n] == t % n { 1.0 } else { 0.0 }).collect(),
            // a signed permutation with entries 1, 2, 1/2, 3/2
            1 => (0..n * n).map(|t| if tau[t / n] == t % n { *rng.pick(&[1.0, -1.0, 2.0, -0.5, 1.5]) } else { 0.0 }).collect(),
            // permutation (entries 2 or 4) plus small-integer noise: exact elimination for most of them
            2 => (0..n * n)
                .map(|t| if tau[t / n] == t % n { *rng.pick(&[2.0, -2.0, 4.0]) } else if rng.chance(1, 3) { rng.range(-1, 1) as f64 } else { 0.0 })
                .collect(),
            // permutation plus real noise
            3 => {
                let noise = *rng.pick(&[0.0078125, 0.125, 0.25]);
                perm_matrix(rng, n, &tau, noise)
            }
            // small integers with a zero diagonal where the permutation is not the identity
            4 => {
                let mut v: Vec<f64> = (0..n * n).map(|_| rng.range(-1, 1) as f64).collect();
                for i in 0..n {
                    v[i * n + i] = 0.0;
                }
                for i in 0..n {
                    v[i * n + tau[i]] = (n as f64) * sgn(rng);
                }
                v
            }
            // dyadic, dense: every column has its largest entry off the diagonal
            _ => {
                let mut v: Vec<f64> = (0..n * n).map(|_| rng.dyadic(4, 3)).collect();
                for i in 0..n {
                    v[i * n + tau[i]] = *rng.pick(&[4.0, -4.0, 8.0]);
                }
                v
            }
        }
    };
    let scaled = |v: &[f64], e: i64| -> Vec<f64> { v.iter().map(|x| x * p2(e)).collect() };
    let reps = if thorough { 8 } else { 1 };
    let mut k = 0usize;
    for _ in 0..reps {
        for e in -60..=60i64 {
            let near = [-54, -53, -52, -51, -50, 50, 51, 52, 53, 54].contains(&e);
            let count = if near { 18 } else { 5 };
            for c in 0..count {
                let n = if c % 3 == 0 { 2 + rng.below(2) as usize } else { 2 + rng.below(7) as usize };
                let v = scaled(&base(rng, k, n), e);
                k += 1;
                match c % 3 {
                    0 | 1 => emit(format!("inv2 {}", req_mat_f(n, n, &v))),
                    _ => emit_inv(emit, if is_f32(&v) && k % 2 == 0 { "f32" } else { "f64" }, n, n, &v),
                }
            }
        }
    }
    // every cyclic shift and the transposition of 2..5 rows at the threshold exponents, both directions
    for e in [-53i64, -52, -51, 51, 52, 53] {
        for n in 2..=5usize {
            for shift in 1..n {
                let v: Vec<f64> = (0..n * n).map(|t| if (t / n + shift) % n == t % n { p2(e) } else { 0.0 }).collect();
                emit(format!("inv2 {}", req_mat_f(n, n, &v)));
                emit_inv(emit, if (n + shift) % 2 == 0 { "f32" } else { "f64" }, n, n, &v);
            }
        }
        // dense, well conditioned, every pivot found below the diagonal
        let v = [0.5 * p2(e), 4.0 * p2(e), p2(e), 0.25 * p2(e)];
        emit(format!("inv2 {}", req_mat_f(2, 2, &v)));
        let w = [0.0, 1.0 * p2(e), 0.5 * p2(e), 2.0 * p2(e), 0.0, p2(e), p2(e), p2(e), 4.0 * p2(e)];
        emit(format!("inv2 {}", req_mat_f(3, 3, &w)));
    }
    // one ulp on either side of the threshold (below: refused by the documented rule; compared with the model)
    let e = f64::EPSILON;
    for x in [e * (1.0 + e), e * (1.0 - e / 2.0), -e * (1.0 + e), 2.0 * e, e / 2.0, 1.0 / e, (1.0 / e) * (1.0 + e), (1.0 / e) * (1.0 - e / 2.0)] {
        for n in 2..=4usize {
            let v: Vec<f64> = (0..n * n).map(|t| if (t / n + 1) % n == t % n { x } else { 0.0 }).collect();
            emit(format!("inv2 {}", req_mat_f(n, n, &v)));
        }
        emit_inv(emit, "f64", 2, 2, &[x / 2.0, x, x, 0.0]);
    }
}
