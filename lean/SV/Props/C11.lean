import SV.Model.C11
import SV.Lemmas.Mat
/-!
# C11 — matrix, vector and scalar products follow the algebraic definition, any shape

Property theorems only (helper lemmas live in `SV.Lemmas.*`).  `R` is any commutative semiring,
so `ℤ` ("exactly, for integer elements"), `ℚ`, `ℝ` are instances; the same `SV.C11.dot` runs at
`Int` and `Float` in the driver and is compared with `Arr2D::dot` on every run of the check.
-/
namespace SV.Props.C11
open SV SV.C11 Finset

variable {R : Type} [CommSemiring R] [Inhabited R]

/-- The outcome of the checked product as a function of the four dimensions: exactly the table
of the statement.  (`Except` has no panic constructor: every read of the model is inside the
operand's shape, which `dot_entry` makes precise.) -/
theorem dot_shape_table (a b : Mat R) :
    (a.w = b.h → ∃ m, dot a b = .ok m ∧ m.h = a.h ∧ m.w = b.w ∧ m.WF) ∧
    (a.w ≠ b.h → (a.h = 1 ∧ a.w = 1) → ∃ m, dot a b = .ok m ∧ m.h = b.h ∧ m.w = b.w ∧ m.WF) ∧
    (a.w ≠ b.h → ¬(a.h = 1 ∧ a.w = 1) → (b.h = 1 ∧ b.w = 1) →
        ∃ m, dot a b = .ok m ∧ m.h = a.h ∧ m.w = a.w ∧ m.WF) ∧
    (a.w ≠ b.h → ¬(a.h = 1 ∧ a.w = 1) → ¬(b.h = 1 ∧ b.w = 1) →
        dot a b = .error (.invalidDotShape a.w b.h)) := by
  refine ⟨?_, ?_, ?_, ?_⟩
  · intro hc
    unfold dot
    by_cases ha : a.h = 1 ∧ a.w = 1
    · simp only [ha, and_self, if_true]
      exact ⟨_, rfl, by simp [ha.1, ← hc, ha.2], by simp, Mat.tab_WF _ _ _⟩
    · by_cases hb : b.h = 1 ∧ b.w = 1
      · simp only [ha, if_false, hb, and_self, if_true]
        exact ⟨_, rfl, by simp, by simp [hc, hb.1, hb.2], Mat.tab_WF _ _ _⟩
      · rw [if_neg ha, if_neg hb, if_neg (not_not.mpr hc)]
        exact ⟨_, rfl, by simp, by simp, Mat.tab_WF _ _ _⟩
  · intro _ ha
    unfold dot
    simp only [ha, and_self, if_true]
    exact ⟨_, rfl, by simp, by simp, Mat.tab_WF _ _ _⟩
  · intro _ ha hb
    unfold dot
    simp only [ha, if_false, hb, and_self, if_true]
    exact ⟨_, rfl, by simp, by simp, Mat.tab_WF _ _ _⟩
  · intro hc ha hb
    unfold dot
    rw [if_neg ha, if_neg hb, if_pos hc]

/-- Conforming shapes: every entry is the row-by-column sum (including when a 1×1 factor makes
the code take its scalar shortcut). -/
theorem dot_entry (a b m : Mat R) (hc : a.w = b.h) (hm : dot a b = .ok m) :
    ∀ i j, i < a.h → j < b.w → m.get i j = ∑ k ∈ range a.w, a.get i k * b.get k j := by
  intro i j hi hj
  unfold dot at hm
  by_cases ha : a.h = 1 ∧ a.w = 1
  · simp only [ha, and_self, if_true, Except.ok.injEq] at hm
    subst hm
    have hi0 : i = 0 := by omega
    subst hi0
    rw [Mat.get_tab _ (by omega) hj, ha.2]
    simp
  · by_cases hb : b.h = 1 ∧ b.w = 1
    · simp only [ha, if_false, hb, and_self, if_true, Except.ok.injEq] at hm
      subst hm
      have hj0 : j = 0 := by omega
      subst hj0
      rw [Mat.get_tab _ hi (by omega), hc, hb.1]
      simp [mul_comm]
    · rw [if_neg ha, if_neg hb, if_neg (not_not.mpr hc)] at hm
      cases hm
      rw [Mat.get_tab _ hi hj, sumFrom_zero]

/-- The same fact through Mathlib's `Matrix`: the product of the denoted matrices. -/
theorem dot_toMatrix (a b m : Mat R) (hc : a.w = b.h) (hm : dot a b = .ok m) :
    m.toMatrix a.h b.w = a.toMatrix a.h a.w * b.toMatrix a.w b.w := by
  funext i j
  simp only [Mat.toMatrix, Matrix.mul_apply]
  rw [dot_entry a b m hc hm i.val j.val i.isLt j.isLt, Finset.sum_range]

/-- A non-conforming 1×1 left operand acts as a scalar. -/
theorem dot_scalar_left (a b m : Mat R) (ha : a.h = 1 ∧ a.w = 1) (hm : dot a b = .ok m) :
    m.h = b.h ∧ m.w = b.w ∧ ∀ i j, i < b.h → j < b.w → m.get i j = a.get 0 0 * b.get i j := by
  unfold dot at hm
  simp only [ha, and_self, if_true, Except.ok.injEq] at hm
  subst hm
  exact ⟨rfl, rfl, fun i j hi hj => Mat.get_tab _ hi hj⟩

/-- A 1×1 right operand (left one not 1×1) acts as a scalar as well — the code's choice. -/
theorem dot_scalar_right (a b m : Mat R) (ha : ¬(a.h = 1 ∧ a.w = 1)) (hb : b.h = 1 ∧ b.w = 1)
    (hm : dot a b = .ok m) :
    m.h = a.h ∧ m.w = a.w ∧ ∀ i j, i < a.h → j < a.w → m.get i j = a.get i j * b.get 0 0 := by
  unfold dot at hm
  simp only [ha, if_false, hb, and_self, if_true, Except.ok.injEq] at hm
  subst hm
  exact ⟨rfl, rfl, fun i j hi hj => by rw [Mat.get_tab _ hi hj, mul_comm]⟩

/-- shape facts for a successful conforming product, used by the laws below -/
private theorem dot_ok_shape (a b m : Mat R) (hc : a.w = b.h) (hm : dot a b = .ok m) :
    m.h = a.h ∧ m.w = b.w ∧ m.WF := by
  obtain ⟨m', hm', h1, h2, h3⟩ := (dot_shape_table a b).1 hc
  rw [hm] at hm'
  cases hm'
  exact ⟨h1, h2, h3⟩

/-- Associativity, as an equality of the returned arrays. -/
theorem dot_assoc (a b c ab bc l r : Mat R) (h1 : a.w = b.h) (h2 : b.w = c.h)
    (hab : dot a b = .ok ab) (hl : dot ab c = .ok l) (hbc : dot b c = .ok bc)
    (hr : dot a bc = .ok r) : l = r := by
  obtain ⟨abh, abw, _⟩ := dot_ok_shape a b ab h1 hab
  obtain ⟨bch, bcw, _⟩ := dot_ok_shape b c bc h2 hbc
  have c1 : ab.w = c.h := by rw [abw, h2]
  have c2 : a.w = bc.h := by rw [bch, h1]
  obtain ⟨lh, lw, lwf⟩ := dot_ok_shape ab c l c1 hl
  obtain ⟨rh, rw', rwf⟩ := dot_ok_shape a bc r c2 hr
  apply Mat.ext_get lwf rwf (by rw [lh, rh, abh]) (by rw [lw, rw', bcw])
  intro i j hi hj
  rw [lh, abh] at hi
  rw [lw] at hj
  rw [dot_entry ab c l c1 hl i j (by rw [abh]; exact hi) hj,
    dot_entry a bc r c2 hr i j hi (by rw [bcw]; exact hj), abw]
  have e1 : ∀ k ∈ range b.w, ab.get i k * c.get k j
      = ∑ t ∈ range a.w, a.get i t * b.get t k * c.get k j := by
    intro k hk
    rw [dot_entry a b ab h1 hab i k hi (by simpa using hk), Finset.sum_mul]
  have e2 : ∀ t ∈ range a.w, a.get i t * bc.get t j
      = ∑ k ∈ range b.w, a.get i t * b.get t k * c.get k j := by
    intro t ht
    rw [dot_entry b c bc h2 hbc t j (by rw [← h1]; simpa using ht) hj, Finset.mul_sum]
    apply Finset.sum_congr rfl; intro k _; rw [mul_assoc]
  rw [Finset.sum_congr rfl e1, Finset.sum_congr rfl e2, Finset.sum_comm]

/-- Transpose of a product. -/
theorem dot_transpose (a b ab r : Mat R) (h1 : a.w = b.h) (hab : dot a b = .ok ab)
    (hr : dot b.transpose a.transpose = .ok r) : ab.transpose = r := by
  obtain ⟨abh, abw, _⟩ := dot_ok_shape a b ab h1 hab
  have c : b.transpose.w = a.transpose.h := by simp [h1]
  obtain ⟨rh, rw', rwf⟩ := dot_ok_shape _ _ r c hr
  apply Mat.ext_get (Mat.transpose_WF _) rwf (by simp [rh, abw]) (by simp [rw', abh])
  intro i j hi hj
  rw [Mat.transpose_h, abw] at hi
  rw [Mat.transpose_w, abh] at hj
  rw [Mat.get_transpose _ (by rw [abw]; exact hi) (by rw [abh]; exact hj),
    dot_entry a b ab h1 hab j i hj hi,
    dot_entry _ _ r c hr i j (by simpa using hi) (by simpa using hj),
    Mat.transpose_w, ← h1]
  apply Finset.sum_congr rfl
  intro k hk
  have hk' : k < a.w := by simpa using hk
  rw [Mat.get_transpose _ hi (by rw [← h1]; exact hk'), Mat.get_transpose _ hk' hj, mul_comm]

/-- Left and right identity. -/
theorem dot_ident (a m : Mat R) (ha : a.WF) :
    (dot (Mat.ident a.h) a = .ok m → m = a) ∧ (dot a (Mat.ident a.w) = .ok m → m = a) := by
  constructor
  · intro hm
    have c : (Mat.ident (S := R) a.h).w = a.h := by simp
    obtain ⟨mh, mw, mwf⟩ := dot_ok_shape _ _ m c hm
    apply Mat.ext_get mwf ha (by simpa using mh) mw
    intro i j hi hj
    rw [mh, Mat.ident_h] at hi; rw [mw] at hj
    rw [dot_entry _ _ m c hm i j (by simpa using hi) hj, Mat.ident_w, Finset.sum_eq_single i]
    · rw [Mat.get_ident hi hi]; simp
    · intro k hk hne
      rw [Mat.get_ident hi (by simpa using hk)]; simp [Ne.symm hne]
    · intro h; exact absurd (by simpa using hi) h
  · intro hm
    have c : a.w = (Mat.ident (S := R) a.w).h := by simp
    obtain ⟨mh, mw, mwf⟩ := dot_ok_shape _ _ m c hm
    apply Mat.ext_get mwf ha mh (by simpa using mw)
    intro i j hi hj
    rw [mh] at hi; rw [mw, Mat.ident_w] at hj
    rw [dot_entry _ _ m c hm i j hi (by simpa using hj), Finset.sum_eq_single j]
    · rw [Mat.get_ident hj hj]; simp
    · intro k hk hne
      rw [Mat.get_ident (by simpa using hk) hj]; simp [hne]
    · intro h; exact absurd (by simpa using hj) h

/-- The `*` operator returns exactly what the checked product returns when it succeeds (all four
ownership forms call the same `dot`; that they do is what the correspondence run checks). -/
theorem mulOp_agrees (a b m : Mat R) (hm : dot a b = .ok m) : mulOp a b = m := by
  simp [mulOp, hm]

/-- Scalar multiply acts elementwise. -/
theorem smul_entry (a : Mat R) (s : R) :
    (smul a s).h = a.h ∧ (smul a s).w = a.w ∧
      ∀ i j, i < a.h → j < a.w → (smul a s).get i j = a.get i j * s := by
  exact ⟨rfl, rfl, fun i j hi hj => Mat.get_tab _ hi hj⟩

/-- Scalar divide acts elementwise wherever the element type's division is defined. -/
theorem sdiv_entry (dv : R → R → Option R) (a m : Mat R) (s : R) (hm : sdiv dv a s = some m) :
    m.h = a.h ∧ m.w = a.w ∧
      ∀ i j, i < a.h → j < a.w → ∀ q, dv (a.get i j) s = some q → m.get i j = q := by
  unfold sdiv at hm
  by_cases h0 : a.h * a.w = 0
  · simp only [h0, if_true, Option.some.injEq] at hm
    subst hm
    refine ⟨rfl, rfl, ?_⟩
    intro i j hi hj
    have := idx_lt hi hj
    omega
  · simp only [h0, if_false] at hm
    split at hm
    · cases hm
    · simp only [Option.some.injEq] at hm
      subst hm
      refine ⟨rfl, rfl, ?_⟩
      intro i j hi hj q hq
      rw [Mat.get_tab _ hi hj, hq]; rfl

/-- Non-vacuity: a concrete outer product and a concrete rejected pair (over `ℤ`). -/
example : (dot (⟨2, 1, #[1, 2]⟩ : Mat Int) ⟨1, 2, #[3, 4]⟩).toOption.map (·.a) = some #[3, 4, 6, 8] := by
  decide
example : (match dot (⟨2, 2, #[1, 2, 3, 4]⟩ : Mat Int) ⟨1, 2, #[3, 4]⟩ with
    | .error (.invalidDotShape 2 1) => true | _ => false) = true := by
  decide

end SV.Props.C11
