import SV.Lemmas.C02Render
/-!
Converse of the grammar half of C02, part 1: **one part**.  If the multivariate parser model accepts a
`+`-free part of the normalised text, that part is — character for character — the piece of a written
term of the documented grammar, except that a letter may occur more than once (`TermSyn.WF'`), and the
returned term is the one the parser builds for that written term (`TermSyn.read`: exponents of a
repeated letter added to its first occurrence, then sorted by name).

* `splitOn_eq_cons`        a text is its `splitOn` pieces joined by the separator
* `parseUDec_inv`, `parseSignedDec_inv`, `parseFraction_inv`   the number readers accept only
                           `[-]digits[.digits]` resp. `[-]udec/udec`
* `DashOK`                 every `-` of the text directly follows `+` or `^` (true of the normalised text)
* `coeffValue_inv`, `expValue_inv`, `scanVars_inv`, `parsePart_inv`

No fact about the Unicode classes is needed in this direction: whatever `is_numeric` says, a coefficient
that is accepted consists of ASCII digits, `.`, `/` and a leading `-`.
-/
namespace SV.C02

/-- well-formed written term **without** the distinctness requirement of `TermSyn.WF`: the same letter
may be written several times in one term (`xx`, `xyx^2`) -/
structure TermSyn.WF' (t : TermSyn) : Prop where
  coef_wf : t.coef.WF
  letters : ∀ f ∈ t.factors, SV.Text.isAsciiLetter f.letter = true
  exps_wf : ∀ f ∈ t.factors, ∀ e, f.exp = some e → e.WF
  /-- a term has a coefficient or at least one variable -/
  nonempty : t.coef ≠ .none ∨ t.factors ≠ []

theorem TermSyn.WF.wf' {t : TermSyn} (h : t.WF) : t.WF' :=
  ⟨h.coef_wf, h.letters, h.exps_wf, h.nonempty⟩

theorem TermSyn.WF'.wf {t : TermSyn} (h : t.WF') (hd : (t.factors.map (·.letter)).Nodup) : t.WF :=
  ⟨h.coef_wf, h.letters, h.exps_wf, hd, h.nonempty⟩

/-- the variable list the parser builds from the written factors, before sorting: a repeated letter
adds its exponent to the first occurrence -/
def mergeFactors (fs : List Factor) (acc : List (String × SV.Text.Num)) : List (String × SV.Text.Num) :=
  fs.foldl (fun acc f => addVar acc (String.singleton f.letter) f.num) acc

/-- the term the parser returns for a written term (letters may repeat) -/
def TermSyn.read (t : TermSyn) : ITerm :=
  ⟨t.coef.num t.neg, (mergeFactors t.factors []).mergeSort leName⟩

end SV.C02

namespace SV.C16Inter
open SV SV.Text SV.C02

/-! ### `splitOn` read backwards -/

/-- a text is its pieces joined by the separator -/
theorem splitOn_eq_cons {sep : Char} {s : List Char} : ∀ {q : List Char} {qs : List (List Char)},
    splitOn sep s = q :: qs → s = q ++ qs.flatMap (fun r => sep :: r) := by
  induction s with
  | nil =>
    intro q qs h
    simp only [splitOn, List.cons.injEq] at h
    obtain ⟨rfl, rfl⟩ := h
    rfl
  | cons c cs ih =>
    intro q qs h
    unfold splitOn at h
    split at h
    · rename_i hc
      obtain ⟨hq, hqs⟩ := List.cons.inj h
      subst hq
      cases hs : splitOn sep cs with
      | nil => exact absurd hs (splitOn_ne_nil sep cs)
      | cons q' qs' =>
        rw [hs] at hqs
        subst hqs
        have := ih hs
        simp only [List.nil_append, List.flatMap_cons, List.cons_append]
        rw [← this, hc]
    · split at h
      · rename_i p ps hs
        obtain ⟨hq, hqs⟩ := List.cons.inj h
        subst hq hqs
        rw [List.cons_append, ← ih hs]
      · rename_i hs
        exact absurd hs (splitOn_ne_nil sep cs)

theorem splitOn_single {sep : Char} {s a : List Char} (h : splitOn sep s = [a]) : s = a := by
  simpa using splitOn_eq_cons h

theorem splitOn_pair {sep : Char} {s a b : List Char} (h : splitOn sep s = [a, b]) :
    s = a ++ sep :: b := by
  simpa using splitOn_eq_cons h

/-! ### the number readers accept only the documented spellings -/

theorem parseUDec_inv {s : List Char} {m sc : Nat} (h : parseUDec s = some (m, sc)) :
    ∃ u : UDec, u.WF ∧ s = u.render ∧ m = u.mant ∧ sc = u.fp.length := by
  unfold parseUDec at h
  split at h
  · rename_i ip hs
    split at h
    · rename_i hc
      simp only [Option.some.injEq, Prod.mk.injEq] at h
      refine ⟨⟨ip, [], false⟩, ⟨List.all_eq_true.1 hc.2, by simp, Or.inl hc.1, fun _ => rfl⟩, ?_, ?_, ?_⟩
      · simpa [UDec.render] using splitOn_single hs
      · simp [UDec.mant, h.1]
      · simp [h.2]
    · cases h
  · rename_i ip fp hs
    split at h
    · rename_i hc
      simp only [Option.some.injEq, Prod.mk.injEq] at h
      refine ⟨⟨ip, fp, true⟩,
        ⟨List.all_eq_true.1 hc.2.1, List.all_eq_true.1 hc.2.2, hc.1, fun e => by cases e⟩, ?_, ?_, ?_⟩
      · simpa [UDec.render] using splitOn_pair hs
      · simp [UDec.mant, h.1]
      · simp [h.2]
    · cases h
  · cases h

theorem parseSignedDec_inv {s : List Char} {d : Dec} (h : parseSignedDec s = some d) :
    ∃ (neg : Bool) (u : UDec), u.WF ∧ s = signChars neg ++ u.render ∧
      d = ⟨neg, u.mant, u.fp.length⟩ := by
  unfold parseSignedDec at h
  split at h
  rename_i neg body heq
  cases hu : parseUDec body with
  | none => rw [hu] at h; cases h
  | some ms =>
    obtain ⟨m, sc⟩ := ms
    rw [hu] at h
    simp only [Option.some.injEq] at h
    obtain ⟨u, hwf, hb, hm, hsc⟩ := parseUDec_inv hu
    split at heq
    · rename_i rest
      cases heq
      exact ⟨true, u, hwf, by simp [signChars, hb], by rw [← h, hm, hsc]⟩
    · cases heq
      exact ⟨false, u, hwf, by simp [signChars, hb], by rw [← h, hm, hsc]⟩

/-- no `-` directly after a `/` -/
def NoSlashDash (s : List Char) : Prop := ∀ a b, s ≠ a ++ '/' :: '-' :: b

theorem parseFraction_inv {s : List Char} {v : Num} (h : parseFraction s = some v)
    (hsd : NoSlashDash s) :
    ∃ (neg : Bool) (a b : UDec), a.WF ∧ b.WF ∧ b.mant ≠ 0 ∧
      s = signChars neg ++ a.render ++ '/' :: b.render ∧
      v = .div (.dec ⟨neg, a.mant, a.fp.length⟩) (.dec ⟨false, b.mant, b.fp.length⟩) := by
  unfold parseFraction at h
  split at h
  · rename_i a b hs
    have hs' := splitOn_pair hs
    cases ha : parseSignedDec a with
    | none => rw [ha] at h; cases h
    | some x =>
      cases hb : parseSignedDec b with
      | none => rw [ha, hb] at h; cases h
      | some y =>
        rw [ha, hb] at h
        simp only at h
        split at h
        · cases h
        · rename_i hz
          simp only [Option.some.injEq] at h
          obtain ⟨na, ua, hua, rfl, rfl⟩ := parseSignedDec_inv ha
          obtain ⟨nb, ub, hub, rfl, rfl⟩ := parseSignedDec_inv hb
          cases nb with
          | true =>
            exfalso
            apply hsd (signChars na ++ ua.render) ub.render
            rw [hs']
            simp [signChars]
          | false =>
            refine ⟨na, ua, ub, hua, hub, ?_, ?_, h.symm⟩
            · simpa [Dec.isZero] using hz
            · rw [hs']
              simp [signChars]
  · cases h

theorem contains_slash_iff (s : List Char) : s.contains '/' = true ↔ '/' ∈ s := by
  simp

/-- an accepted coefficient text is `[-]` followed by nothing, a decimal or a fraction of decimals -/
theorem coeffValue_inv {coeff : List Char} {c : Num} (h : coeffValue coeff = .ok c)
    (hsd : NoSlashDash coeff) :
    ∃ (neg : Bool) (k : Coef), k.WF ∧ coeff = signChars neg ++ k.render ∧ c = k.num neg := by
  unfold coeffValue at h
  split at h
  · rename_i h0
    cases h
    exact ⟨false, .none, trivial, by simp [signChars, Coef.render, h0], rfl⟩
  · split at h
    · rename_i h1
      cases h
      exact ⟨true, .none, trivial, by simp [signChars, Coef.render, h1], rfl⟩
    · split at h
      · cases hf : parseFraction coeff with
        | none => rw [hf] at h; cases h
        | some v =>
          rw [hf] at h
          cases h
          obtain ⟨neg, a, b, ha, hb, hb0, hs, hv⟩ := parseFraction_inv hf hsd
          exact ⟨neg, .frac a b, ⟨ha, hb, hb0⟩, by rw [hs]; simp [Coef.render], hv⟩
      · cases hf : parseSignedDec coeff with
        | none => rw [hf] at h; cases h
        | some d =>
          rw [hf] at h
          cases h
          obtain ⟨neg, u, hu, hs, hd⟩ := parseSignedDec_inv hf
          exact ⟨neg, .dec u, hu, by rw [hs]; rfl, by rw [hd]; rfl⟩

/-- an accepted exponent text is `[-]decimal` or `[-]decimal/decimal` -/
theorem expValue_inv {pow : List Char} {p : Num} (h : expValue pow = .ok p)
    (hsd : NoSlashDash pow) : ∃ e : Expo, e.WF ∧ pow = e.render ∧ p = e.num := by
  unfold expValue at h
  split at h
  · cases hf : parseFraction pow with
    | none => rw [hf] at h; cases h
    | some v =>
      rw [hf] at h
      cases h
      obtain ⟨neg, a, b, ha, hb, hb0, hs, hv⟩ := parseFraction_inv hf hsd
      exact ⟨.frac neg a b, ⟨ha, hb, hb0⟩, by rw [hs]; simp [Expo.render], hv⟩
  · cases hf : parseSignedDec pow with
    | none => rw [hf] at h; cases h
    | some d =>
      rw [hf] at h
      cases h
      obtain ⟨neg, u, hu, hs, hd⟩ := parseSignedDec_inv hf
      exact ⟨.dec neg u, hu, by rw [hs]; rfl, by rw [hd]; rfl⟩

/-! ### where a `-` may stand -/

/-- every `-` of the text directly follows a `+` or a `^` (`prev` = the character before the text) -/
def DashOK : Option Char → List Char → Prop
  | _, [] => True
  | prev, c :: cs => (c = '-' → prev = some '+' ∨ prev = some '^') ∧ DashOK (some c) cs

theorem DashOK.suffix {a l : List Char} : ∀ {p : Option Char}, DashOK p (a ++ l) → ∃ p', DashOK p' l := by
  induction a with
  | nil => exact fun {p} h => ⟨p, h⟩
  | cons c cs ih => exact fun {p} h => ih h.2

theorem DashOK.no_bad {a b : List Char} {x : Char} :
    ∀ {p : Option Char}, DashOK p (a ++ x :: '-' :: b) → x = '+' ∨ x = '^' := by
  induction a with
  | nil =>
    intro p h
    have := h.2.1 rfl
    simpa using this
  | cons c cs ih => exact fun {p} h => ih h.2

theorem DashOK.noSlashDash {pow rest : List Char} {p : Option Char} (h : DashOK p (pow ++ rest)) :
    NoSlashDash pow := by
  intro a b e
  rw [e] at h
  have h' : DashOK p (a ++ '/' :: '-' :: (b ++ rest)) := by simpa using h
  rcases h'.no_bad with h1 | h1 <;> exact absurd h1 (by decide)

/-- the state only matters for the first character -/
theorem DashOK.weaken {l : List Char} (h : DashOK none l) (p : Option Char) : DashOK p l := by
  cases l with
  | nil => trivial
  | cons c cs =>
    refine ⟨fun hc => ?_, h.2⟩
    rcases h.1 hc with h1 | h1 <;> cases h1

/-! ### the scans return a split of their input -/

theorem scanCoeff_eq (cc : CharClass) : ∀ (first : Bool) (s : List Char),
    s = (scanCoeff cc first s).1 ++ (scanCoeff cc first s).2 := by
  intro first s
  induction s generalizing first with
  | nil => rfl
  | cons c cs ih =>
    unfold scanCoeff
    split
    · simp only [List.cons_append]
      rw [← ih false]
    · rfl

theorem scanExp_eq : ∀ (s : List Char), s = (scanExp s).1 ++ (scanExp s).2 := by
  intro s
  induction s with
  | nil => rfl
  | cons c cs ih =>
    unfold scanExp
    split
    · simp only [List.cons_append]
      rw [← ih]
    · rfl

/-! ### the variable loop read backwards -/

theorem renderFactors_cons (f : Factor) (fs : List Factor) :
    renderFactors (f :: fs) = f.render ++ renderFactors fs := by
  simp [renderFactors]

/-- **The variable loop accepts only `letter[^exponent]` sequences** and returns the exponents merged
into the accumulator in the order written. -/
theorem scanVars_inv : ∀ (fuel : Nat) (s : List Char) (vars out : List (String × Num)),
    scanVars fuel s vars = .ok out → s.length ≤ fuel → (∃ p, DashOK p s) →
    ∃ fs : List Factor, (∀ f ∈ fs, isAsciiLetter f.letter = true) ∧
      (∀ f ∈ fs, ∀ e, f.exp = some e → e.WF) ∧ s = renderFactors fs ∧
      out = mergeFactors fs vars := by
  intro fuel
  induction fuel with
  | zero =>
    intro s vars out h hl _
    have hs : s = [] := List.eq_nil_of_length_eq_zero (Nat.le_zero.1 hl)
    subst hs
    unfold scanVars at h
    cases h
    exact ⟨[], by simp, by simp, rfl, rfl⟩
  | succ fuel ih =>
    intro s vars out h hl hd
    cases s with
    | nil =>
      unfold scanVars at h
      cases h
      exact ⟨[], by simp, by simp, rfl, rfl⟩
    | cons c cs =>
      unfold scanVars at h
      by_cases hc : isAsciiLetter c = true
      · rw [if_pos hc] at h
        obtain ⟨p0, hd⟩ := hd
        split at h
        · rename_i rest
          have hsplit := scanExp_eq rest
          cases hs : scanExp rest with
          | mk pow rest' =>
            rw [hs] at h hsplit
            simp only at h hsplit
            cases he : expValue pow with
            | error e => rw [he] at h; cases h
            | ok p =>
              rw [he] at h
              simp only at h
              have hd2 : DashOK (some '^') (pow ++ rest') := by
                rw [← hsplit]; exact hd.2.2
              obtain ⟨e, hewf, hpow, hp⟩ := expValue_inv he hd2.noSlashDash
              have hlen : rest'.length ≤ fuel := by
                have : rest.length = pow.length + rest'.length := by
                  rw [hsplit, List.length_append]
                simp only [List.length_cons] at hl
                omega
              obtain ⟨fs, h1, h2, h3, h4⟩ := ih rest' _ out h hlen hd2.suffix
              refine ⟨⟨c, some e⟩ :: fs, ?_, ?_, ?_, ?_⟩
              · intro f hf
                rcases List.mem_cons.1 hf with rfl | hf
                · exact hc
                · exact h1 f hf
              · intro f hf e' he'
                rcases List.mem_cons.1 hf with rfl | hf
                · cases he'; exact hewf
                · exact h2 f hf e' he'
              · rw [renderFactors_cons, ← h3, hsplit, hpow]
                simp [Factor.render]
              · rw [h4, hp]
                rfl
        · rename_i hnc
          have hlen : cs.length ≤ fuel := by
            simp only [List.length_cons] at hl
            omega
          obtain ⟨fs, h1, h2, h3, h4⟩ := ih cs _ out h hlen ⟨_, hd.2⟩
          refine ⟨⟨c, none⟩ :: fs, ?_, ?_, ?_, ?_⟩
          · intro f hf
            rcases List.mem_cons.1 hf with rfl | hf
            · exact hc
            · exact h1 f hf
          · intro f hf e' he'
            rcases List.mem_cons.1 hf with rfl | hf
            · cases he'
            · exact h2 f hf e' he'
          · rw [renderFactors_cons, ← h3]
            simp [Factor.render]
          · rw [h4]
            rfl
      · rw [if_neg hc] at h
        cases h

/-! ### one part -/

theorem piece_eq (t : TermSyn) :
    t.piece = signChars t.neg ++ t.coef.render ++ renderFactors t.factors := by
  simp [TermSyn.piece, TermSyn.body]

/-- **One accepted part is the piece of a written term** (letters may repeat), and the returned term
is what the parser builds for it.  Hypotheses: the part is neither empty nor a lone `-` (checked by
`parse` before `parsePart` runs) and every `-` in it stands first or directly after `^` (true of every
part of a normalised text, `dashOK_parts`). -/
theorem parsePart_inv {cc : CharClass} {part : List Char} {it : ITerm}
    (h : parsePart cc part = .ok it) (hd : DashOK (some '+') part) (hne : part ≠ [])
    (hnd : part ≠ ['-']) : ∃ t : TermSyn, t.WF' ∧ part = t.piece ∧ it = t.read := by
  unfold parsePart at h
  have hsplit := scanCoeff_eq cc true part
  cases hs : scanCoeff cc true part with
  | mk coeff rest =>
    rw [hs] at h hsplit
    simp only at h hsplit
    cases hc : coeffValue coeff with
    | error e => rw [hc] at h; cases h
    | ok c =>
      rw [hc] at h
      simp only at h
      cases hv : scanVars (rest.length + 1) rest [] with
      | error e => rw [hv] at h; cases h
      | ok vars =>
        rw [hv] at h
        simp only [Except.ok.injEq] at h
        rw [hsplit] at hd
        obtain ⟨neg, k, hk, hcoeff, hcv⟩ := coeffValue_inv hc hd.noSlashDash
        obtain ⟨fs, h1, h2, h3, h4⟩ := scanVars_inv _ rest [] vars hv (Nat.le_succ _) hd.suffix
        refine ⟨⟨neg, k, fs⟩, ⟨hk, h1, h2, ?_⟩, ?_, ?_⟩
        · by_cases hkn : k = .none
          · right
            intro hfs
            simp only at hfs
            subst hkn hfs
            rw [h3, hcoeff] at hsplit
            cases neg with
            | false => exact hne (by simpa [signChars, Coef.render, renderFactors] using hsplit)
            | true => exact hnd (by simpa [signChars, Coef.render, renderFactors] using hsplit)
          · exact Or.inl hkn
        · rw [piece_eq, hsplit, hcoeff, h3]
        · rw [← h, hcv, h4]
          rfl

end SV.C16Inter
