import SV.Lemmas.C13AccSeq
import Mathlib.Data.Matrix.Mul
import Mathlib.LinearAlgebra.Matrix.SemiringInverse
import Mathlib.Algebra.BigOperators.Fin
import Mathlib.Tactic.LinearCombination
/-!
# C13 accuracy, layer 2 — spectral expansion of the exact iterates `Mᵏ·1`

`M` is a real symmetric `n × n` matrix, the rows of `q` an orthonormal family of eigenvectors with
eigenvalues `d` (exactly the hypotheses of `SV.Props.C13.PowerAccuracy`).  No eigen-decomposition of
vectors is needed: with `coef a x = q a ⬝ᵥ x`

* `coef_mulVec`   `coef a (M *ᵥ x) = d a * coef a x`               (symmetry + eigen-equation)
* `parseval`      `x ⬝ᵥ y = Σ_a coef a x * coef a y`               (`Q Qᵀ = 1 ⇒ Qᵀ Q = 1`)
* `coef_iter`     `coef a (iter M k) = d a ^ k * c a`,  `c a = Σ_i q a i`
* `moment0/1/2`   `xₖ ⬝ᵥ xₖ`, `xₖ ⬝ᵥ M xₖ`, `M xₖ ⬝ᵥ M xₖ` are `Σ_a c a ² · d a ^ (2k + 0/1/2)`
* `sum_c_sq`      `Σ_a c a ² = n`

and then, for a dominant index `i₁` (`Dominant`): the Rayleigh quotient of `xₖ` is
`d i₁ * rho k` with `rho` the sequence of layer 1 (`rq_iter`), the squared residual of `xₖ` is
`(xₖ ⬝ᵥ xₖ) · (d i₁)² · (S₂/S₀ − rho²)` (`resid_iter`), and the hypotheses of layer 1 hold
(`Dominant.hw/hr/h₁/hτ`).
-/
set_option linter.unusedSectionVars false

namespace SV.C13.Acc
open Finset Matrix

section spectral
variable {n : ℕ} (M : Matrix (Fin n) (Fin n) ℝ) (q : Fin n → Fin n → ℝ) (d : Fin n → ℝ)

/-- the exact iterates `Mᵏ·1` of the power method (no normalisation) -/
def iter : ℕ → Fin n → ℝ
  | 0 => fun _ => 1
  | k + 1 => M *ᵥ iter k

/-- the coefficient of `x` on the eigenvector `q a` -/
def coef (a : Fin n) (x : Fin n → ℝ) : ℝ := q a ⬝ᵥ x

/-- the coefficient of the all-ones start vector -/
def cc (a : Fin n) : ℝ := ∑ i, q a i

variable (hsym : ∀ i j, M i j = M j i)
  (hq : ∀ a b, ∑ i, q a i * q b i = if a = b then 1 else 0)
  (heig : ∀ a i, ∑ j, M i j * q a j = d a * q a i)

include hq in
/-- a square matrix with orthonormal rows has orthonormal columns -/
theorem col_orth : (Matrix.of q)ᵀ * Matrix.of q = 1 := by
  have h : Matrix.of q * (Matrix.of q)ᵀ = 1 := by
    ext a b
    rw [Matrix.mul_apply, Matrix.one_apply]
    simp only [Matrix.transpose_apply, Matrix.of_apply]
    exact hq a b
  exact mul_eq_one_comm.mp h

include hq in
theorem parseval (x y : Fin n → ℝ) : x ⬝ᵥ y = ∑ a, coef q a x * coef q a y := by
  have e : ∑ a, coef q a x * coef q a y = (Matrix.of q *ᵥ x) ⬝ᵥ (Matrix.of q *ᵥ y) := rfl
  rw [e, Matrix.dotProduct_mulVec, ← Matrix.vecMul_transpose, Matrix.vecMul_vecMul,
    col_orth q hq, Matrix.vecMul_one]

include hsym heig in
theorem coef_mulVec (a : Fin n) (x : Fin n → ℝ) : coef q a (M *ᵥ x) = d a * coef q a x := by
  have hT : Mᵀ = M := by
    ext i j
    rw [Matrix.transpose_apply]
    exact hsym j i
  have he : M *ᵥ q a = d a • q a := by
    funext i
    exact heig a i
  unfold coef
  rw [Matrix.dotProduct_mulVec, ← Matrix.mulVec_transpose, hT, he, smul_dotProduct, smul_eq_mul]

theorem coef_one (a : Fin n) : coef q a (fun _ => 1) = cc q a := by
  unfold coef cc dotProduct
  simp

include hsym heig in
theorem coef_iter (a : Fin n) (k : ℕ) : coef q a (iter M k) = d a ^ k * cc q a := by
  induction k with
  | zero => rw [pow_zero, one_mul]; exact coef_one q a
  | succ k ih =>
    show coef q a (M *ᵥ iter M k) = _
    rw [coef_mulVec M q d hsym heig, ih, pow_succ]
    ring

include hsym hq heig in
theorem moment0 (k : ℕ) : iter M k ⬝ᵥ iter M k = ∑ a, cc q a ^ 2 * d a ^ (2 * k) := by
  rw [parseval q hq]
  apply Finset.sum_congr rfl
  intro a _
  rw [coef_iter M q d hsym heig]
  ring

include hsym hq heig in
theorem moment1 (k : ℕ) :
    iter M k ⬝ᵥ M *ᵥ iter M k = ∑ a, cc q a ^ 2 * d a ^ (2 * k + 1) := by
  rw [parseval q hq]
  apply Finset.sum_congr rfl
  intro a _
  rw [coef_mulVec M q d hsym heig, coef_iter M q d hsym heig]
  ring

include hsym hq heig in
theorem moment2 (k : ℕ) :
    (M *ᵥ iter M k) ⬝ᵥ (M *ᵥ iter M k) = ∑ a, cc q a ^ 2 * d a ^ (2 * k + 2) := by
  rw [parseval q hq]
  apply Finset.sum_congr rfl
  intro a _
  rw [coef_mulVec M q d hsym heig, coef_iter M q d hsym heig]
  ring

include hq in
theorem sum_c_sq : ∑ a, cc q a ^ 2 = n := by
  have h := parseval q hq (fun _ => 1) (fun _ => 1)
  have h1 : (fun _ : Fin n => (1 : ℝ)) ⬝ᵥ (fun _ => 1) = n := by
    unfold dotProduct
    simp
  rw [h1] at h
  rw [h]
  apply Finset.sum_congr rfl
  intro a _
  rw [coef_one]
  ring

end spectral

section dominant
variable {n : ℕ} (q : Fin n → Fin n → ℝ) (d : Fin n → ℝ) (i₁ : Fin n)

/-- the non-dominant indices -/
def rest : Finset (Fin n) := Finset.univ.erase i₁
/-- squared start coefficients -/
def ww (a : Fin n) : ℝ := cc q a ^ 2
/-- eigenvalue ratios -/
noncomputable def rr (a : Fin n) : ℝ := d a / d i₁

/-- splitting a spectral moment into the dominant term and the rest, in units of `d i₁ ^ m` -/
theorem moment_split (hD : d i₁ ≠ 0) (m : ℕ) :
    ∑ a, cc q a ^ 2 * d a ^ m
      = d i₁ ^ m * (ww q i₁ + ∑ a ∈ rest i₁, ww q a * rr d i₁ a ^ m) := by
  unfold rest ww rr
  rw [← Finset.add_sum_erase Finset.univ _ (Finset.mem_univ i₁), mul_add, Finset.mul_sum]
  congr 1
  · ring
  · apply Finset.sum_congr rfl
    intro a _
    rw [div_pow]
    field_simp

/-- the hypotheses of `PowerAccuracy` on the spectrum and the start vector -/
structure Dominant : Prop where
  hq : ∀ a b, ∑ i, q a i * q b i = if a = b then 1 else 0
  hD : d i₁ ≠ 0
  hgap : ∀ a, a ≠ i₁ → |d a| ≤ |d i₁| / 2
  hstart : (3 / 10 : ℝ) ^ 2 * n ≤ (∑ i, q i₁ i) ^ 2
  hn : 0 < n

variable {q d i₁}

theorem Dominant.hw (_h : Dominant q d i₁) : ∀ a ∈ rest i₁, 0 ≤ ww q a :=
  fun _ _ => sq_nonneg _

theorem Dominant.hr (h : Dominant q d i₁) : ∀ a ∈ rest i₁, |rr d i₁ a| ≤ 1 / 2 := by
  intro a ha
  have hne : a ≠ i₁ := (Finset.mem_erase.mp ha).1
  have hpos : 0 < |d i₁| := abs_pos.mpr h.hD
  unfold rr
  rw [abs_div, div_le_iff₀ hpos]
  have := h.hgap a hne
  linarith

theorem Dominant.h₁ (h : Dominant q d i₁) : 0 < ww q i₁ := by
  have hn : (1 : ℝ) ≤ n := by exact_mod_cast h.hn
  have := h.hstart
  unfold ww cc
  nlinarith

theorem Dominant.hτ (h : Dominant q d i₁) :
    U (rest i₁) (ww q) (rr d i₁) 0 ≤ 16 * ww q i₁ := by
  have hs := sum_c_sq q h.hq
  rw [← Finset.add_sum_erase Finset.univ _ (Finset.mem_univ i₁)] at hs
  have h0 : U (rest i₁) (ww q) (rr d i₁) 0 = ∑ a ∈ Finset.univ.erase i₁, cc q a ^ 2 := by
    unfold U rest ww
    apply Finset.sum_congr rfl
    intro a _
    rw [Nat.mul_zero, pow_zero, mul_one]
  rw [h0]
  have := h.hstart
  have hn : (0 : ℝ) ≤ n := Nat.cast_nonneg n
  unfold ww
  unfold cc at this ⊢
  unfold cc at hs
  nlinarith

end dominant

section rayleigh
variable {n : ℕ} (M : Matrix (Fin n) (Fin n) ℝ) {q : Fin n → Fin n → ℝ} {d : Fin n → ℝ}
  {i₁ : Fin n}
  (hsym : ∀ i j, M i j = M j i)
  (heig : ∀ a i, ∑ j, M i j * q a j = d a * q a i)
  (h : Dominant q d i₁)
include hsym heig h

/-- the normalised Rayleigh quotient of layer 1, for this spectrum and start vector -/
noncomputable abbrev rhoOf (_h : Dominant q d i₁) (k : ℕ) : ℝ :=
  rho (rest i₁) (ww q) (rr d i₁) (ww q i₁) k
/-- the relative eigenvalue error of layer 1, for this spectrum and start vector -/
noncomputable abbrev epsOf (_h : Dominant q d i₁) (k : ℕ) : ℝ :=
  eps (rest i₁) (ww q) (rr d i₁) (ww q i₁) k

theorem norm_iter (k : ℕ) : iter M k ⬝ᵥ iter M k
    = d i₁ ^ (2 * k) * (ww q i₁ + U (rest i₁) (ww q) (rr d i₁) k) := by
  rw [moment0 M q d hsym h.hq heig, moment_split q d i₁ h.hD]
  rfl

theorem norm_iter_pos (k : ℕ) : 0 < iter M k ⬝ᵥ iter M k := by
  rw [norm_iter M hsym heig h]
  have h1 : 0 < d i₁ ^ (2 * k) := by
    rw [pow_mul]
    have : 0 < d i₁ ^ 2 := by
      have := h.hD
      positivity
    positivity
  exact mul_pos h1 (den_pos _ _ _ _ h.hw h.hr h.h₁ k)

/-- the Rayleigh quotient of the exact iterate `Mᵏ·1` is `d₁ · rho k` -/
theorem rq_iter (k : ℕ) :
    (iter M k ⬝ᵥ M *ᵥ iter M k) / (iter M k ⬝ᵥ iter M k) = d i₁ * rhoOf h k := by
  have hd := den_pos _ _ _ _ h.hw h.hr h.h₁ k
  have hD := h.hD
  have hDk : d i₁ ^ (2 * k) ≠ 0 := pow_ne_zero _ hD
  rw [norm_iter M hsym heig h, moment1 M q d hsym h.hq heig, moment_split q d i₁ h.hD]
  show _ = d i₁ * ((ww q i₁ + V (rest i₁) (ww q) (rr d i₁) k)
    / (ww q i₁ + U (rest i₁) (ww q) (rr d i₁) k))
  unfold V
  rw [pow_succ]
  field_simp

/-- the squared residual of the exact iterate against its own Rayleigh quotient -/
theorem resid_iter (k : ℕ) :
    (M *ᵥ iter M k) ⬝ᵥ (M *ᵥ iter M k)
        - (d i₁ * rhoOf h k) ^ 2 * (iter M k ⬝ᵥ iter M k)
      = (iter M k ⬝ᵥ iter M k) * d i₁ ^ 2 *
          ((ww q i₁ + U (rest i₁) (ww q) (rr d i₁) (k + 1))
              / (ww q i₁ + U (rest i₁) (ww q) (rr d i₁) k) - rhoOf h k ^ 2) := by
  have hd := den_pos _ _ _ _ h.hw h.hr h.h₁ k
  have e2 : (M *ᵥ iter M k) ⬝ᵥ (M *ᵥ iter M k)
      = d i₁ ^ (2 * k + 2) * (ww q i₁ + U (rest i₁) (ww q) (rr d i₁) (k + 1)) := by
    rw [moment2 M q d hsym h.hq heig, moment_split q d i₁ h.hD]
    rfl
  rw [e2, norm_iter M hsym heig h]
  field_simp
  ring

end rayleigh
end SV.C13.Acc
