//! Shared helpers: PRNG, token reader, panic capture, wire formatting.
#![allow(dead_code)]
use std::panic::{self, AssertUnwindSafe};

/// splitmix64: every random choice of a run derives from one seed.
pub struct Rng(pub u64);

impl Rng {
    pub fn new(seed: u64) -> Self {
        // the splitmix finaliser on the seed: neighbouring seeds give unrelated streams
        let mut z = seed.wrapping_add(0x9E3779B97F4A7C15);
        z = (z ^ (z >> 30)).wrapping_mul(0xBF58476D1CE4E5B9);
        z = (z ^ (z >> 27)).wrapping_mul(0x94D049BB133111EB);
        Rng(z ^ (z >> 31))
    }
    pub fn next(&mut self) -> u64 {
        self.0 = self.0.wrapping_add(0x9E3779B97F4A7C15);
        let mut z = self.0;
        z = (z ^ (z >> 30)).wrapping_mul(0xBF58476D1CE4E5B9);
        z = (z ^ (z >> 27)).wrapping_mul(0x94D049BB133111EB);
        z ^ (z >> 31)
    }
    /// uniform in 0..n (n > 0)
    pub fn below(&mut self, n: u64) -> u64 {
        self.next() % n
    }
    /// uniform in lo..=hi
    pub fn range(&mut self, lo: i64, hi: i64) -> i64 {
        lo + (self.next() % ((hi - lo + 1) as u64)) as i64
    }
    pub fn chance(&mut self, num: u64, den: u64) -> bool {
        self.below(den) < num
    }
    /// uniform in [0,1)
    pub fn unit(&mut self) -> f64 {
        (self.next() >> 11) as f64 / (1u64 << 53) as f64
    }
    pub fn uniform(&mut self, lo: f64, hi: f64) -> f64 {
        lo + (hi - lo) * self.unit()
    }
    pub fn pick<'a, T>(&mut self, xs: &'a [T]) -> &'a T {
        &xs[self.below(xs.len() as u64) as usize]
    }
    /// a small dyadic rational k/2^s with |k| <= kmax, s <= smax
    pub fn dyadic(&mut self, kmax: i64, smax: u32) -> f64 {
        let k = self.range(-kmax, kmax) as f64;
        let s = self.below(smax as u64 + 1) as i32;
        k / 2f64.powi(s)
    }
}

/// Token reader over one request line.
pub struct Toks<'a> {
    it: std::str::SplitAsciiWhitespace<'a>,
}

impl<'a> Toks<'a> {
    pub fn new(line: &'a str) -> Self {
        Toks { it: line.split_ascii_whitespace() }
    }
    pub fn tok(&mut self) -> &'a str {
        self.it.next().expect("request truncated")
    }
    pub fn try_tok(&mut self) -> Option<&'a str> {
        self.it.next()
    }
    pub fn usize(&mut self) -> usize {
        self.tok().parse().expect("usize")
    }
    pub fn i64(&mut self) -> i64 {
        self.tok().parse().expect("i64")
    }
    pub fn f64(&mut self) -> f64 {
        f64::from_bits(self.tok().parse::<u64>().expect("f64 bits"))
    }
    pub fn vec_f64(&mut self) -> Vec<f64> {
        let n = self.usize();
        (0..n).map(|_| self.f64()).collect()
    }
    pub fn vec_i64(&mut self) -> Vec<i64> {
        let n = self.usize();
        (0..n).map(|_| self.i64()).collect()
    }
    /// `h w a…` row-major
    pub fn mat_f64(&mut self) -> (usize, usize, Vec<f64>) {
        let h = self.usize();
        let w = self.usize();
        let v = (0..h * w).map(|_| self.f64()).collect();
        (h, w, v)
    }
    pub fn mat_i64(&mut self) -> (usize, usize, Vec<i64>) {
        let h = self.usize();
        let w = self.usize();
        let v = (0..h * w).map(|_| self.i64()).collect();
        (h, w, v)
    }
    /// `n cp…` code points
    pub fn string(&mut self) -> String {
        let n = self.usize();
        (0..n)
            .map(|_| char::from_u32(self.tok().parse::<u32>().expect("cp")).expect("scalar value"))
            .collect()
    }
}

pub fn fbits(x: f64) -> String {
    format!("f{}", x.to_bits())
}
/// request-side float (no prefix)
pub fn rbits(x: f64) -> String {
    format!("{}", x.to_bits())
}
pub fn fmt_vec_f(xs: &[f64]) -> String {
    let mut s = format!("{}", xs.len());
    for x in xs {
        s.push(' ');
        s.push_str(&fbits(*x));
    }
    s
}
pub fn req_vec_f(xs: &[f64]) -> String {
    let mut s = format!("{}", xs.len());
    for x in xs {
        s.push(' ');
        s.push_str(&rbits(*x));
    }
    s
}
pub fn req_mat_f(h: usize, w: usize, xs: &[f64]) -> String {
    let mut s = format!("{h} {w}");
    for x in xs {
        s.push(' ');
        s.push_str(&rbits(*x));
    }
    s
}
pub fn req_mat_i(h: usize, w: usize, xs: &[i64]) -> String {
    let mut s = format!("{h} {w}");
    for x in xs {
        s.push_str(&format!(" {x}"));
    }
    s
}
pub fn req_string(text: &str) -> String {
    let cps: Vec<u32> = text.chars().map(|c| c as u32).collect();
    let mut s = format!("{}", cps.len());
    for c in cps {
        s.push_str(&format!(" {c}"));
    }
    s
}

/// Run `f`, turning a panic into `None`.
pub fn catch<T>(f: impl FnOnce() -> T) -> Option<T> {
    panic::catch_unwind(AssertUnwindSafe(f)).ok()
}

pub fn silence_panics() {
    panic::set_hook(Box::new(|_| {}));
}

/// What one request produced: the implementation's canonical observation and the verdict of the
/// property's oracle on it (`None` = this request carries no oracle, `Some(Ok)` = holds).
pub struct Obs {
    pub obs: String,
    pub oracle: Option<Result<(), String>>,
}

impl Obs {
    pub fn plain(obs: String) -> Self {
        Obs { obs, oracle: None }
    }
    pub fn with(obs: String, verdict: Result<(), String>) -> Self {
        Obs { obs, oracle: Some(verdict) }
    }
}
