import SV.Model.Text
import SV.Model.PolyWire
import SV.Gen.Consts
/-!
Model of `parse_simple_polynomial` (spindalis_core/src/polynomials/simple.rs), step by step:

1. drop every white-space character, replace `-` by `+-`, split at `+`;
2. drop one leading empty part; any other empty part, or a part that is just `-`, is a syntax error;
3. the varc is the first alphabetic character of the normalised text;
4. per part: text before the varc is the coefficient (`""` → 1, `"-"` → −1, else a plain
   decimal), text after it must be empty or `^digits` (≤ MAX_POWER); a part without the varc is
   a plain decimal constant;
5. dense accumulation `coeffs[power] += coeff` into a vector of length `max power + 1`.

Coefficients are kept as `Text.Num` (decimal literals + the `f64` additions performed), so the
driver's answer determines the `f64` results exactly.
-/
namespace SV.C01
open SV SV.Text SV.Poly

structure SParsed where
  coeffs : List Num
  var : Option Char
deriving Repr

/-- one part → `(coefficient, power)` -/
def parseTerm (cap : Nat) (varc : Option Char) (part : List Char) : Except PErr (Num × Nat) :=
  match varc with
  | some v =>
    match splitAtChar v part with
    | some (coeffStr, rest) =>
      let coeff : Except PErr Num :=
        if coeffStr = [] ∨ coeffStr = ['+'] then .ok Num.one
        else if coeffStr = ['-'] then .ok Num.negOne
        else match parseDec coeffStr with
          | some d => .ok (.dec d)
          | none => .error .invalidCoefficient
      match coeff with
      | .error e => .error e
      | .ok c =>
        match rest with
        | [] => .ok (c, 1)
        | '^' :: powStr =>
          match parseUsizeCapped cap powStr with
          | some p => .ok (c, p)
          | none => .error .invalidExponent
        | _ => .error .unexpectedChar
    | none =>
      match parseDec part with
      | some d => .ok (.dec d, 0)
      | none => .error .invalidConstant
  | none =>
    match parseDec part with
    | some d => .ok (.dec d, 0)
    | none => .error .invalidConstant

def parseTerms (cap : Nat) (varc : Option Char) : List (List Char) → Except PErr (List (Num × Nat))
  | [] => .ok []
  | p :: ps =>
    match parseTerm cap varc p with
    | .error e => .error e
    | .ok t =>
      match parseTerms cap varc ps with
      | .error e => .error e
      | .ok ts => .ok (t :: ts)

/-- `coeffs[power] += coeff` for the terms in order, starting from `vec![0.0; max_power + 1]` -/
def dense (terms : List (Num × Nat)) : List Num :=
  let maxPower := terms.foldl (fun m t => max m t.2) 0
  (List.range (maxPower + 1)).map fun k =>
    terms.foldl (fun acc t => if t.2 = k then Num.add acc t.1 else acc) Num.zero

def normalize (cc : CharClass) (s : List Char) : List Char := dashToPlusDash (stripWs cc s)

def parts (norm : List Char) : List (List Char) :=
  match splitOn '+' norm with
  | [] :: rest => rest
  | ps => ps

def parse (cc : CharClass) (cap : Nat) (s : List Char) : Except PErr SParsed :=
  let norm := normalize cc s
  let ps := parts norm
  if ps.any (fun p => p = [] ∨ p = ['-']) then .error .syntaxError
  else
    let varc := norm.find? cc.isAlpha
    match parseTerms cap varc ps with
    | .error e => .error e
    | .ok ts => .ok ⟨dense ts, varc⟩

end SV.C01

namespace SV.C01.Driver
open SV SV.Wire SV.Text SV.Poly SV.PolyWire SV.C01

def fmtParsed (r : Except PErr SParsed) : String :=
  match r with
  | .error e => fmtErr e
  | .ok p =>
    " ".intercalate (["ok", match p.var with | some c => toString c.toNat | none => "-",
      toString p.coeffs.length] ++ p.coeffs.map Num.show)

/--
    parse <text>            → ok <var> <n> <Num>… | err Kind     (all entry points answer alike)
    eval  <spoly> <x>       → ok f…                              (eval_simple_polynomial & friends)
    evalm <spoly> <k> {<name> <x>}*  → ok f… | err TooManyVariables  (eval_multivariate, k bindings)
-/
def handle (line : String) : String :=
  let p : P String := do
    let cmd ← tok
    match cmd with
    | "parse" => do
      let _entry ← tok
      let s ← chars
      return fmtParsed (parse stdClass SV.Gen.simpleMaxPower s)
    | "eval" => do
      let _entry ← tok
      let _tag ← tok
      let q ← spoly float; let x ← float
      return "ok " ++ fmtF (evalSimple q.coeffs x)
    | "evalm" => do
      -- `eval_multivariate` with k bindings: the bindings go into a map (a repeated name keeps its last
      -- value); exactly one entry is required and its value is the evaluation point, whatever its name
      let _tag ← tok
      let q ← spoly float
      let k ← nat
      let bs ← many k (do let n ← name; let x ← float; return (n, x))
      let m := bs.foldl (fun (acc : List (String × Float)) b => acc.filter (fun a => a.1 ≠ b.1) ++ [b]) []
      match m with
      | [(_, x)] => return "ok " ++ fmtF (evalSimple q.coeffs x)
      | _ => return "err TooManyVariables"
    | "pe" => do
      -- parse then evaluate: decided by the oracle (the answer is not compared)
      let _s ← chars; let _x ← float
      return "-"
    | "class" => do
      let cp ← nat
      let c := Char.ofNat cp
      let b (x : Bool) : String := if x then "1" else "0"
      return " ".intercalate [b (stdClass.isWs c), b (stdClass.isAlpha c), b (stdClass.isNumeric c), b (isAsciiDigit c)]
    | _ => fail
  match run p ((line.splitOn " | ").headD line) with
  | some s => s
  | none => "bad-request"

end SV.C01.Driver
