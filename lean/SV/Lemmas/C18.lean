import SV.Model.C18
import Mathlib.Algebra.BigOperators.Group.List.Basic
import Mathlib.Algebra.Order.BigOperators.Group.List
import Mathlib.Algebra.Order.Field.Basic
import Mathlib.Algebra.Order.Ring.Abs
import Mathlib.Tactic.Ring
import Mathlib.Tactic.FieldSimp
import Mathlib.Tactic.Linarith
/-!
Helper lemmas for C18 (and C15, which reuses `fsum`/`powi`): the accumulation loop is the list sum,
`powi` is the power, and the algebra of the mean and of the sum of squared deviations.
-/
namespace SV.C18

section semiring
variable {R : Type} [CommRing R]

theorem foldl_add_eq (init : R) (xs : List R) :
    xs.foldl (fun acc x => acc + x) init = init + xs.sum := by
  induction xs generalizing init with
  | nil => simp
  | cons x xs ih => rw [List.foldl_cons, ih, List.sum_cons, add_assoc]

/-- `iter().sum()` (a left fold from `-0.0`) is the sum of the list -/
theorem fsum_eq (xs : List R) : fsum xs = xs.sum := by
  unfold fsum
  rw [foldl_add_eq, neg_zero, zero_add]

theorem powiGo_eq (fuel : Nat) (a : R) (b : Nat) (r : R) (h : b < fuel) :
    powiGo fuel a b r = r * a ^ b := by
  induction fuel generalizing a b r with
  | zero => omega
  | succ fuel ih =>
    unfold powiGo
    simp only
    have hb : b = 2 * (b / 2) + b % 2 := (Nat.div_add_mod b 2).symm
    by_cases h0 : b / 2 = 0
    · rw [if_pos h0]
      by_cases h1 : b % 2 = 1
      · rw [if_pos h1]
        have : b = 1 := by omega
        rw [this, pow_one]
      · rw [if_neg h1]
        have : b = 0 := by omega
        rw [this, pow_zero, mul_one]
    · rw [if_neg h0, ih _ _ _ (by omega)]
      by_cases h1 : b % 2 = 1
      · rw [if_pos h1]
        conv_rhs => rw [hb, h1, pow_succ, pow_mul, pow_two]
        ring
      · rw [if_neg h1]
        have h2 : b % 2 = 0 := by omega
        conv_rhs => rw [hb, h2, add_zero, pow_mul, pow_two]

/-- the square-and-multiply loop computes the power -/
theorem powi_eq_pow (a : R) (n : Nat) : powi a n = a ^ n := by
  unfold powi
  rw [powiGo_eq _ _ _ _ (Nat.lt_succ_self n), one_mul]

theorem sum_map_add_const (xs : List R) (c : R) :
    (xs.map fun x => x + c).sum = xs.sum + (xs.length : R) * c := by
  induction xs with
  | nil => simp
  | cons x xs ih =>
    simp only [List.map_cons, List.sum_cons, List.length_cons, Nat.cast_succ]
    rw [ih]; ring

theorem sum_map_mul_left' {ι : Type} (xs : List ι) (f : ι → R) (k : R) :
    (xs.map fun x => k * f x).sum = k * (xs.map f).sum := by
  induction xs with
  | nil => simp
  | cons x xs ih =>
    simp only [List.map_cons, List.sum_cons]
    rw [ih]; ring

theorem sum_map_mul_const (xs : List R) (k : R) :
    (xs.map fun x => k * x).sum = k * xs.sum := by
  have := sum_map_mul_left' xs (fun x => x) k
  simpa using this

end semiring

section field
variable {K : Type} [Field K] [LinearOrder K] [IsStrictOrderedRing K]

omit [LinearOrder K] [IsStrictOrderedRing K] in
theorem meanRaw_eq (xs : List K) : meanRaw xs = xs.sum / (xs.length : K) := by
  unfold meanRaw
  rw [fsum_eq]

theorem length_cast_pos {xs : List K} (h : xs.length ≠ 0) : (0 : K) < (xs.length : K) :=
  Nat.cast_pos.mpr (Nat.pos_of_ne_zero h)

/-- textbook sum of squared deviations from the mean -/
def ssd (xs : List K) : K := (xs.map fun x => (x - xs.sum / (xs.length : K)) ^ 2).sum

theorem ssd_nonneg (xs : List K) : 0 ≤ ssd xs := by
  unfold ssd
  apply List.sum_nonneg
  intro y hy
  obtain ⟨x, _, rfl⟩ := List.mem_map.mp hy
  exact sq_nonneg _

theorem ssd_translate (xs : List K) (c : K) (h : xs.length ≠ 0) :
    ssd (xs.map fun x => x + c) = ssd xs := by
  unfold ssd
  rw [List.map_map, List.length_map, sum_map_add_const]
  congr 1
  apply List.map_congr_left
  intro x _
  have hn : (xs.length : K) ≠ 0 := (length_cast_pos h).ne'
  simp only [Function.comp]
  congr 1
  field_simp
  ring

theorem ssd_scale (xs : List K) (k : K) :
    ssd (xs.map fun x => k * x) = k ^ 2 * ssd xs := by
  unfold ssd
  rw [List.map_map, List.length_map, sum_map_mul_const, ← sum_map_mul_left']
  congr 1
  apply List.map_congr_left
  intro x _
  simp only [Function.comp]
  rw [mul_div_assoc]
  ring

omit [LinearOrder K] [IsStrictOrderedRing K] in
/-- the model's sum of `powi (x - mean) 2` is the textbook sum of squared deviations -/
theorem fsum_dev_eq (xs : List K) :
    fsum (xs.map fun x => powi (x - meanRaw xs) 2) = ssd xs := by
  rw [fsum_eq, meanRaw_eq]
  unfold ssd
  congr 1
  apply List.map_congr_left
  intro x _
  rw [powi_eq_pow]

omit [Field K] [IsStrictOrderedRing K] in
/-- a non-empty list has a least and a greatest element -/
theorem exists_min_max (xs : List K) (h : xs ≠ []) :
    (∃ a ∈ xs, ∀ x ∈ xs, a ≤ x) ∧ (∃ b ∈ xs, ∀ x ∈ xs, x ≤ b) := by
  induction xs with
  | nil => exact absurd rfl h
  | cons y ys ih =>
    by_cases hys : ys = []
    · subst hys
      exact ⟨⟨y, by simp, by simp⟩, ⟨y, by simp, by simp⟩⟩
    · obtain ⟨⟨a, ha, hamin⟩, ⟨b, hb, hbmax⟩⟩ := ih hys
      constructor
      · by_cases hya : y ≤ a
        · refine ⟨y, by simp, ?_⟩
          intro x hx
          rcases List.mem_cons.mp hx with rfl | hx
          · exact le_refl _
          · exact le_trans hya (hamin x hx)
        · refine ⟨a, List.mem_cons_of_mem _ ha, ?_⟩
          intro x hx
          rcases List.mem_cons.mp hx with rfl | hx
          · exact le_of_lt (not_le.mp hya)
          · exact hamin x hx
      · by_cases hyb : b ≤ y
        · refine ⟨y, by simp, ?_⟩
          intro x hx
          rcases List.mem_cons.mp hx with rfl | hx
          · exact le_refl _
          · exact le_trans (hbmax x hx) hyb
        · refine ⟨b, List.mem_cons_of_mem _ hb, ?_⟩
          intro x hx
          rcases List.mem_cons.mp hx with rfl | hx
          · exact le_of_lt (not_le.mp hyb)
          · exact hbmax x hx

theorem mean_ge_of_forall_ge (xs : List K) (h : xs.length ≠ 0) (a : K) (ha : ∀ x ∈ xs, a ≤ x) :
    a ≤ xs.sum / (xs.length : K) := by
  rw [le_div_iff₀ (length_cast_pos h)]
  have := List.card_nsmul_le_sum xs a ha
  rwa [nsmul_eq_mul, mul_comm] at this

theorem mean_le_of_forall_le (xs : List K) (h : xs.length ≠ 0) (b : K) (hb : ∀ x ∈ xs, x ≤ b) :
    xs.sum / (xs.length : K) ≤ b := by
  rw [div_le_iff₀ (length_cast_pos h)]
  have := List.sum_le_card_nsmul xs b hb
  rwa [nsmul_eq_mul, mul_comm] at this

/-- uniqueness of the non-negative square root under the hypotheses put on the `sqrt` parameter -/
theorem eq_of_mul_self_eq {a b : K} (ha : 0 ≤ a) (hb : 0 ≤ b) (h : a * a = b * b) : a = b :=
  (mul_self_inj_of_nonneg ha hb).mp h

end field

end SV.C18
