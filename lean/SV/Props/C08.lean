import SV.Model.C08
import SV.Lemmas.Subst
import SV.Lemmas.Gauss
import Mathlib.LinearAlgebra.Matrix.ToLinearEquiv
/-!
# C08 — linear solve: returned solutions solve the system; singular systems are refused

Property theorems only (helper lemmas live in `SV.Lemmas.Subst`, `SV.Lemmas.Gauss`).  `K` is any
linearly ordered field (ℚ, ℝ, …): "up to rounding" clauses are proved with rounding error 0, i.e. the
algorithm is the right algorithm on every input of every size.  The same definitions
(`SV.C08.gaussSolve`, `SV.Subst.backSubst`, `SV.Subst.forwardSubst`) run at `Float` in the driver and
are compared bit for bit with the Rust code on every run of the check.

Reading guide: a system is `(A : Mat K, b : Array K)`; `A.get i j` is `a[i][j]`, `vget b i` is `b[i]`;
`∑ j ∈ range n, A.get i j * vget x j = vget b i` is row `i` of `A x = b`.
-/
set_option linter.unusedSectionVars false

namespace SV.Props.C08
open SV SV.C08 SV.Subst SV.Gauss Finset

/-! ## panics and shape errors (every scalar type, `Float` included) -/
section anyScalar
variable {S : Type} [Inhabited S] [Add S] [Sub S] [Mul S] [Div S] [Neg S] [OfNat S 0]
  [LT S] [DecidableRel (α := S) (· < ·)] [BEq S]

/-- Non-square ⇒ `NonSquareMatrix`; right-hand side of another length ⇒ `NumArgumentsMismatch`;
the empty system ⇒ an error; and no input whatever — any shape, any entries, any tolerance, at any
scalar type — makes the model panic. -/
theorem gauss_shape_errors (A : Mat S) (b : Array S) (tol : S) :
    (A.h ≠ A.w → gaussSolve A b tol = .err .nonSquare) ∧
    (A.h = A.w → A.h ≠ b.size → gaussSolve A b tol = .err (.numArgs A.h b.size)) ∧
    (A.h = A.w → A.h = b.size → A.h = 0 → gaussSolve A b tol = .err (.numArgs 0 0)) ∧
    gaussSolve A b tol ≠ .panic := by
  refine ⟨?_, ?_, ?_, ?_⟩
  · intro h; unfold gaussSolve; rw [if_pos h]
  · intro h1 h2; unfold gaussSolve; rw [if_neg (by simpa using h1), if_pos h2]
  · intro h1 h2 h3
    unfold gaussSolve
    rw [if_neg (by simpa using h1), if_neg (by simpa using h2), if_pos h3]
  · by_cases h1 : A.h = A.w
    · by_cases h2 : A.h = b.size
      · by_cases h3 : A.h = 0
        · unfold gaussSolve
          rw [if_neg (by simpa using h1), if_neg (by simpa using h2), if_pos h3]
          intro h; cases h
        · rcases gaussSolve_cases A b tol h1 h2 h3 with h | ⟨x, h⟩ <;> rw [h] <;> intro h' <;> cases h'
      · unfold gaussSolve
        rw [if_neg (by simpa using h1), if_pos h2]
        intro h; cases h
    · unfold gaussSolve
      rw [if_pos h1]
      intro h; cases h

/-- A square, matching, non-empty system is either answered with a vector of the right length or
refused as singular: no other error, no panic. -/
theorem gauss_outcomes (A : Mat S) (b : Array S) (tol : S)
    (h1 : A.h = A.w) (h2 : A.h = b.size) (h3 : A.h ≠ 0) :
    gaussSolve A b tol = .err .singular ∨ ∃ x, gaussSolve A b tol = .ok x :=
  gaussSolve_cases A b tol h1 h2 h3

/-- The substitution routines panic exactly outside their preconditions: `back_substitution` needs
`1 ≤ size` (it computes `size - 1`), both need the matrix and the two slices to reach `size`. -/
theorem subst_panic_iff (U : Mat S) (n : Nat) (b sol : Array S) :
    (backSubst U n b sol = .panic ↔ n = 0 ∨ U.h < n ∨ U.w < n ∨ b.size < n ∨ sol.size < n) ∧
    (forwardSubst U n b sol = .panic ↔ U.h < n ∨ U.w < n ∨ b.size < n ∨ sol.size < n) := by
  constructor
  · unfold backSubst
    constructor
    · intro h
      by_contra hc
      rw [if_neg hc] at h
      cases h
    · intro h; rw [if_pos h]
  · unfold forwardSubst
    constructor
    · intro h
      by_contra hc
      rw [if_neg hc] at h
      cases h
    · intro h; rw [if_pos h]

end anyScalar

variable {K : Type} [Field K] [LinearOrder K] [IsStrictOrderedRing K] [Inhabited K]

/-! ## triangular substitution -/

/-- `back_substitution` solves every row of the upper-triangular part of the matrix it is given,
whatever the strictly lower part holds (it never reads it), keeps the length of the solution slice
and leaves the entries beyond `size` alone. -/
theorem backSubst_upper_part (U : Mat K) (n : ℕ) (b sol x : Array K)
    (hx : backSubst U n b sol = .ok x) (hd : ∀ i, i < n → U.get i i ≠ 0) :
    x.size = sol.size ∧
    (∀ i, i < n →
      U.get i i * vget x i + ∑ j ∈ Ico (i + 1) n, U.get i j * vget x j = vget b i) ∧
    (∀ j, n ≤ j → vget x j = vget sol j) := by
  obtain ⟨⟨h0, _, _, _, h4⟩, rfl⟩ := (backSubst_ok_iff U n b sol x).mp hx
  exact backCore_rows U n b sol h0 h4 hd

/-- An upper-triangular system with non-zero diagonal: the vector `back_substitution` returns
satisfies every row equation — for every size. -/
theorem backSubst_sound (U : Mat K) (n : ℕ) (b sol x : Array K)
    (hx : backSubst U n b sol = .ok x) (hd : ∀ i, i < n → U.get i i ≠ 0)
    (htri : ∀ i j, i < n → j < i → U.get i j = 0) :
    ∀ i, i < n → ∑ j ∈ range n, U.get i j * vget x j = vget b i := by
  obtain ⟨_, hrows, _⟩ := backSubst_upper_part U n b sol x hx hd
  intro i hi
  rw [sum_range_split n i hi, ← hrows i hi]
  have e : ∑ j ∈ range i, U.get i j * vget x j = 0 := by
    apply Finset.sum_eq_zero
    intro j hj
    rw [htri i j hi (by simpa using hj), zero_mul]
  rw [e, zero_add]

/-- `forward_substitution` solves every row of the lower-triangular part (diagonal included),
whatever the strictly upper part holds. -/
theorem forwardSubst_lower_part (L : Mat K) (n : ℕ) (b sol x : Array K)
    (hx : forwardSubst L n b sol = .ok x) (hd : ∀ i, i < n → L.get i i ≠ 0) :
    x.size = sol.size ∧
    (∀ i, i < n →
      ∑ j ∈ range i, L.get i j * vget x j + L.get i i * vget x i = vget b i) ∧
    (∀ j, n ≤ j → vget x j = vget sol j) := by
  obtain ⟨⟨_, _, _, h4⟩, rfl⟩ := (forwardSubst_ok_iff L n b sol x).mp hx
  exact fwdCore_rows L b sol n h4 hd

/-- A lower-triangular system with non-zero diagonal: the vector `forward_substitution` returns
satisfies every row equation — for every size. -/
theorem forwardSubst_sound (L : Mat K) (n : ℕ) (b sol x : Array K)
    (hx : forwardSubst L n b sol = .ok x) (hd : ∀ i, i < n → L.get i i ≠ 0)
    (htri : ∀ i j, i < n → i < j → j < n → L.get i j = 0) :
    ∀ i, i < n → ∑ j ∈ range n, L.get i j * vget x j = vget b i := by
  obtain ⟨_, hrows, _⟩ := forwardSubst_lower_part L n b sol x hx hd
  intro i hi
  rw [sum_range_split n i hi, ← hrows i hi]
  have e : ∑ j ∈ Ico (i + 1) n, L.get i j * vget x j = 0 := by
    apply Finset.sum_eq_zero
    intro j hj
    rw [Finset.mem_Ico] at hj
    rw [htri i j hi (by omega) hj.2, zero_mul]
  rw [e, add_zero]

/-! ## Gaussian elimination -/

/-- **Soundness.**  Whenever the solver returns a vector `x` for `(A, b)` with a positive pivot
tolerance, `x` has one component per unknown and satisfies every equation of `A x = b` — for every
size, every row scaling, every right-hand side. -/
theorem gauss_sound (A : Mat K) (b : Array K) (tol : K) (x : Array K) (htol : 0 < tol)
    (h : gaussSolve A b tol = .ok x) :
    x.size = A.h ∧ ∀ i, i < A.h → ∑ j ∈ range A.h, A.get i j * vget x j = vget b i := by
  obtain ⟨hsize, st, hsol, _, hx⟩ := gauss_ok_facts htol h
  exact ⟨hsize, (hsol _).mp hx⟩

/-- Soundness through Mathlib's `Matrix`: the denoted matrix times the returned vector is the
right-hand side. -/
theorem gauss_sound_mulVec (A : Mat K) (b : Array K) (tol : K) (x : Array K) (htol : 0 < tol)
    (h : gaussSolve A b tol = .ok x) :
    (A.toMatrix A.h A.h).mulVec (fun j => vget x j.val) = fun i => vget b i.val := by
  funext i
  simp only [Matrix.mulVec, dotProduct, Mat.toMatrix]
  rw [← (gauss_sound A b tol x htol h).2 i.val i.isLt, Finset.sum_range]

/-- **Uniqueness.**  When the solver returns `x`, the system has no other solution: every `y` with
`A y = b` agrees with `x` on all `n` components. -/
theorem gauss_unique (A : Mat K) (b : Array K) (tol : K) (x : Array K) (htol : 0 < tol)
    (h : gaussSolve A b tol = .ok x) (y : ℕ → K)
    (hy : ∀ i, i < A.h → ∑ j ∈ range A.h, A.get i j * y j = vget b i) :
    ∀ i, i < A.h → y i = vget x i := by
  obtain ⟨_, st, hsol, hdiag, hx⟩ := gauss_ok_facts htol h
  have hy' := (hsol y).mpr hy
  apply upper_unique (fnM st) A.h (fnR st) y (fun i => vget x i) hdiag
  · intro i hi
    rw [← upper_sum (fnM st) y hi]; exact hy' i hi
  · intro i hi
    rw [← upper_sum (fnM st) (fun i => vget x i) hi]; exact hx i hi

/-- **Singular systems are refused.**  With a positive tolerance, a matrix with a non-trivial
kernel (some `v ≠ 0` with `A v = 0`) is never answered with a vector — not with zeros, not with
anything; for a square system with matching right-hand side the answer is `SingularMatrix`. -/
theorem gauss_refuses_singular (A : Mat K) (b : Array K) (tol : K) (htol : 0 < tol)
    (v : ℕ → K) (hv : ∃ i, i < A.h ∧ v i ≠ 0)
    (hker : ∀ i, i < A.h → ∑ j ∈ range A.h, A.get i j * v j = 0) :
    (∀ x, gaussSolve A b tol ≠ .ok x) ∧
    (A.h = A.w → A.h = b.size → gaussSolve A b tol = .err .singular) := by
  have hno : ∀ x, gaussSolve A b tol ≠ .ok x := by
    intro x h
    obtain ⟨_, hx⟩ := gauss_sound A b tol x htol h
    have hy : ∀ i, i < A.h →
        ∑ j ∈ range A.h, A.get i j * (vget x j + v j) = vget b i := by
      intro i hi
      simp only [mul_add, Finset.sum_add_distrib]
      rw [hx i hi, hker i hi, add_zero]
    have := gauss_unique A b tol x htol h (fun j => vget x j + v j) hy
    obtain ⟨i, hi, hvi⟩ := hv
    apply hvi
    have := this i hi
    simpa using this
  refine ⟨hno, ?_⟩
  intro h1 h2
  obtain ⟨i, hi, _⟩ := hv
  rcases gauss_outcomes A b tol h1 h2 (by omega) with h | ⟨x, h⟩
  · exact h
  · exact absurd h (hno x)

/-- The same through Mathlib's determinant: `det A = 0` — in particular a zero row or column, a
repeated row or column — and a positive tolerance give `SingularMatrix`. -/
theorem gauss_refuses_det_zero (A : Mat K) (b : Array K) (tol : K) (htol : 0 < tol)
    (hsq : A.h = A.w) (hb : A.h = b.size) (hdet : (A.toMatrix A.h A.h).det = 0) :
    gaussSolve A b tol = .err .singular := by
  obtain ⟨v, hv0, hv⟩ := Matrix.exists_mulVec_eq_zero_iff.mpr hdet
  let v' : ℕ → K := fun i => if h : i < A.h then v ⟨i, h⟩ else 0
  have hv' : ∃ i, i < A.h ∧ v' i ≠ 0 := by
    by_contra hc
    apply hv0
    funext i
    by_contra hi
    exact hc ⟨i.val, i.isLt, by simpa [v'] using hi⟩
  have hker : ∀ i, i < A.h → ∑ j ∈ range A.h, A.get i j * v' j = 0 := by
    intro i hi
    have := congrFun hv ⟨i, hi⟩
    simp only [Matrix.mulVec, dotProduct, Mat.toMatrix, Pi.zero_apply] at this
    rw [Finset.sum_range]
    rw [← this]
    apply Finset.sum_congr rfl
    intro j _
    simp [v']
  exact (gauss_refuses_singular A b tol htol v' hv' hker).2 hsq hb

/-- zero row ⇒ refused -/
theorem gauss_refuses_zero_row (A : Mat K) (b : Array K) (tol : K) (htol : 0 < tol)
    (hsq : A.h = A.w) (hb : A.h = b.size) (i : ℕ) (hi : i < A.h)
    (hz : ∀ j, j < A.h → A.get i j = 0) : gaussSolve A b tol = .err .singular :=
  gauss_refuses_det_zero A b tol htol hsq hb
    (Matrix.det_eq_zero_of_row_eq_zero ⟨i, hi⟩ fun j => hz j.val j.isLt)

/-- zero column ⇒ refused -/
theorem gauss_refuses_zero_column (A : Mat K) (b : Array K) (tol : K) (htol : 0 < tol)
    (hsq : A.h = A.w) (hb : A.h = b.size) (j : ℕ) (hj : j < A.h)
    (hz : ∀ i, i < A.h → A.get i j = 0) : gaussSolve A b tol = .err .singular :=
  gauss_refuses_det_zero A b tol htol hsq hb
    (Matrix.det_eq_zero_of_column_eq_zero ⟨j, hj⟩ fun i => hz i.val i.isLt)

/-- repeated row ⇒ refused -/
theorem gauss_refuses_repeated_row (A : Mat K) (b : Array K) (tol : K) (htol : 0 < tol)
    (hsq : A.h = A.w) (hb : A.h = b.size) (p q : ℕ) (hp : p < A.h) (hq : q < A.h) (hpq : p ≠ q)
    (heq : ∀ j, j < A.h → A.get p j = A.get q j) : gaussSolve A b tol = .err .singular := by
  apply gauss_refuses_det_zero A b tol htol hsq hb
  apply Matrix.det_zero_of_row_eq (i := (⟨p, hp⟩ : Fin A.h)) (j := ⟨q, hq⟩)
  · intro h; exact hpq (Fin.mk.inj_iff.mp h)
  · funext j; exact heq j.val j.isLt

/-- repeated column ⇒ refused -/
theorem gauss_refuses_repeated_column (A : Mat K) (b : Array K) (tol : K) (htol : 0 < tol)
    (hsq : A.h = A.w) (hb : A.h = b.size) (p q : ℕ) (hp : p < A.h) (hq : q < A.h) (hpq : p ≠ q)
    (heq : ∀ i, i < A.h → A.get i p = A.get i q) : gaussSolve A b tol = .err .singular := by
  apply gauss_refuses_det_zero A b tol htol hsq hb
  apply Matrix.det_zero_of_column_eq (i := (⟨p, hp⟩ : Fin A.h)) (j := ⟨q, hq⟩)
  · intro h; exact hpq (Fin.mk.inj_iff.mp h)
  · intro k; exact heq k.val k.isLt

/-- **Regular systems are accepted** (extension).  A square non-empty system whose matrix has
`det ≠ 0` is solved — not refused — for every tolerance up to a positive threshold `τ` that depends
on the matrix only (the smallest scaled pivot of the exact elimination; nothing is assumed about
the right-hand side).  Together with `gauss_refuses_det_zero`: for `0 < tol ≤ τ` the solver answers
with a vector exactly when `det A ≠ 0`. -/
theorem gauss_accepts_regular (A : Mat K) (b : Array K) (hsq : A.h = A.w) (hb : A.h = b.size)
    (hn : A.h ≠ 0) (hdet : (A.toMatrix A.h A.h).det ≠ 0) :
    ∃ τ, 0 < τ ∧ ∀ tol, tol ≤ τ → ∃ x, gaussSolve A b tol = .ok x := by
  have hsc : ∀ i, i < A.h → rowScale A A.h i ≠ 0 := fun i hi => rowScale_ne_zero A A.h hdet hi
  obtain ⟨τ, hτ, hrun⟩ := forwardElim_regular A A.h (Nat.pos_of_ne_zero hn) hdet
    { m := A, r := b, s := vtab A.h (rowScale A A.h) } rfl ⟨rfl, hsq.symm, hb.symm, by simp⟩
    (fun i hi => by rw [vget_vtab _ hi]; exact hsc i hi)
  exact ⟨τ, hτ, fun tol htol => gaussSolve_of_forwardElim A b tol _ hsq hb hn hsc (hrun tol htol)⟩

/-- For tolerances in `(0, τ]` the outcome is decided by the determinant alone. -/
theorem gauss_ok_iff_det_ne_zero (A : Mat K) (b : Array K) (hsq : A.h = A.w) (hb : A.h = b.size)
    (hn : A.h ≠ 0) :
    ∃ τ, 0 < τ ∧ ∀ tol, 0 < tol → tol ≤ τ →
      ((∃ x, gaussSolve A b tol = .ok x) ↔ (A.toMatrix A.h A.h).det ≠ 0) := by
  by_cases hdet : (A.toMatrix A.h A.h).det = 0
  · refine ⟨1, one_pos, fun tol htol _ => ?_⟩
    constructor
    · rintro ⟨x, hx⟩
      rw [gauss_refuses_det_zero A b tol htol hsq hb hdet] at hx
      cases hx
    · intro h; exact absurd hdet h
  · obtain ⟨τ, hτ, h⟩ := gauss_accepts_regular A b hsq hb hn hdet
    exact ⟨τ, hτ, fun tol _ hle => ⟨fun _ => hdet, fun _ => h tol hle⟩⟩

/-! ## non-vacuity: the model solves / refuses concrete systems over ℚ -/

/-- the second unit test of gaussian_elim.rs: `[[3,6],[5,-8]] x = [12,2]` has the solution `[2,1]` -/
example : gaussSolve (⟨2, 2, #[3, 6, 5, -8]⟩ : Mat ℚ) #[12, 2] (1 / 1000000000000) = .ok #[2, 1] := by
  decide +kernel
/-- a row exchange and a badly scaled row: `[[1/1024, 1/512], [3, 4]] x = [3/1024, 7]`, `x = [1,1]` -/
example : gaussSolve (⟨2, 2, #[1 / 1024, 1 / 512, 3, 4]⟩ : Mat ℚ) #[3 / 1024, 7] (1 / 1000000000)
    = .ok #[1, 1] := by
  decide +kernel
/-- the first unit test (3×3, pivoting in both steps) -/
example : gaussSolve (⟨3, 3, #[8, 2, -2, 10, 2, 4, 12, 2, 2]⟩ : Mat ℚ) #[8, 16, 16]
    (1 / 1000000000000) = .ok #[1, 1, 1] := by
  decide +kernel
/-- D15a's witness is refused, as are a zero row, `[[0]]`, the empty system and a non-square matrix -/
example : gaussSolve (⟨2, 2, #[1, 2, 2, 4]⟩ : Mat ℚ) #[1, 1] (1 / 1000000000000) = .err .singular := by
  decide +kernel
example : gaussSolve (⟨2, 2, #[0, 0, 1, 1]⟩ : Mat ℚ) #[1, 1] (1 / 1000000000000) = .err .singular := by
  decide +kernel
example : gaussSolve (⟨1, 1, #[0]⟩ : Mat ℚ) #[1] (1 / 1000000000000) = .err .singular := by
  decide +kernel
example : gaussSolve (⟨0, 0, #[]⟩ : Mat ℚ) #[] (1 / 1000000000000) = .err (.numArgs 0 0) := by
  decide +kernel
example : gaussSolve (⟨2, 3, #[1, 2, 3, 4, 5, 6]⟩ : Mat ℚ) #[1, 1] (1 / 1000000000000)
    = .err .nonSquare := by
  decide +kernel
/-- triangular solves, with garbage in the triangle that is not read -/
example : backSubst (⟨2, 2, #[2, 1, 99, 4]⟩ : Mat ℚ) 2 #[4, 8] #[0, 0] = .ok #[1, 2] := by
  decide +kernel
example : forwardSubst (⟨2, 2, #[2, 99, 1, 4]⟩ : Mat ℚ) 2 #[4, 10] #[0, 0] = .ok #[2, 2] := by
  decide +kernel
example : backSubst (⟨2, 2, #[2, 1, 0, 4]⟩ : Mat ℚ) 0 #[] #[] = .panic := by
  decide +kernel

end SV.Props.C08
