import SV.Model.C06
import SV.Lemmas.C06
/-!
# C06 — bisection: a returned root is a root in the bracket; bracketed roots are found

Property theorems only (helper lemmas are in `SV.Lemmas.C06`).  `K` is any linearly ordered field;
the same `SV.C06.bisection` runs at `Float` in the driver and is compared with
`spindalis::solvers::bisection` (outcome, returned bits, number of passes) on every run of the check.

Reading guide.  `bisection powf p lo init hi tol itermax mode : Res K` is the call
`bisection(&p, Bounds{lower: lo, init, upper: hi}, tol, itermax, mode)`; `Res.out` is its outcome
(`ok x | err kind | panic`), `Res.passes` the number of loop passes, `Res.lower/upper` the bracket
the loop ended with.  `bisectCore ev …` is the same algorithm for an arbitrary (possibly failing)
evaluation function `ev`; `evOf g` is the evaluation function of a total `g : K → K`.  For a dense
(`SimplePolynomial`) input, `bisection_simple` identifies `bisection … mode` with
`bisectCore (evOf (targetPoly cs mode).eval) …`, `targetPoly` being the polynomial (root mode) or
its formal derivative (extrema mode) as a Mathlib `Polynomial`; for a sparse
(`IntermediatePolynomial`) input in one variable, `bisection_inter_root` identifies root mode with
`bisectCore (evOf (valueAt powf p.terms)) …` (evaluation never fails there).  `gate` is the literal `1e-4` of
the source (regenerated into `SV.Gen.bisectionGate` by every run of `./check`).
-/
set_option linter.unusedSectionVars false
set_option linter.unnecessarySeqFocus false

namespace SV.Props.C06
open SV SV.Poly SV.C06

variable {K : Type} [Field K] [LinearOrder K] [IsStrictOrderedRing K]

/-! ## soundness -/

/-- The residual gate the code uses is (still) at most `1e-4`, and positive. -/
theorem gate_bound : (0 : K) < gate ∧ (gate : K) ≤ 1 / 10 ^ 4 := ⟨gate_pos, gate_le⟩

/-- **Soundness, any evaluation function.**  A returned value lies in the caller's bracket and its
residual, as computed by the evaluation function, is below the gate `≤ 1e-4`. -/
theorem bisection_sound_ev (ev : K → Except PErr K) (lo init hi tol : K) (itermax : Nat) (x : K)
    (h : (bisectCore ev lo init hi tol itermax).out = .ok x) :
    lo ≤ x ∧ x ≤ hi ∧ ∃ y, ev x = .ok y ∧ |y| < gate ∧ (gate : K) ≤ 1 / 10 ^ 4 := by
  unfold bisectCore at h
  split_ifs at h with hout
  push Not at hout
  obtain ⟨a, b, y, hy, hg⟩ :=
    bisectLoop_sound ev tol itermax 0 ⟨lo, hi, init, _⟩ x (le_trans hout.1 hout.2) h
  exact ⟨a, b, y, hy, hg, gate_le⟩

/-- **Soundness, both polynomial kinds and both modes.**  `q` is the polynomial the solver works on
(the input, or its derivative as computed by `derivate_univariate`). -/
theorem bisection_sound (powf : K → K → K) (p : AnyPoly K) (lo init hi tol : K) (itermax : Nat)
    (mode : SolveMode) (x : K) (h : (bisection powf p lo init hi tol itermax mode).out = .ok x) :
    lo ≤ x ∧ x ≤ hi ∧
      ∃ q y, target p mode = .ok q ∧ q.evalUni powf x = .ok y ∧ |y| < gate ∧ (gate : K) ≤ 1 / 10 ^ 4 := by
  cases hq : target p mode with
  | error e =>
    rcases bisection_target_error powf hq lo init hi tol itermax with h' | h' <;> rw [h'] at h <;> cases h
  | ok q =>
    rw [bisection_eq_core powf hq] at h
    obtain ⟨a, b, y, hy, hg, hgate⟩ := bisection_sound_ev _ lo init hi tol itermax x h
    exact ⟨a, b, q, y, rfl, hy, hg, hgate⟩

/-- **Soundness for dense polynomials, through Mathlib's `Polynomial`.**  In root mode the returned
`x` has `|p(x)| < 1e-4`, in extrema mode `|p'(x)| < 1e-4` (`p'` the formal derivative). -/
theorem bisection_sound_simple (powf : K → K → K) (cs : List K) (v : Option Char)
    (lo init hi tol : K) (itermax : Nat) (mode : SolveMode) (x : K)
    (h : (bisection powf (.simple ⟨cs, v⟩) lo init hi tol itermax mode).out = .ok x) :
    lo ≤ x ∧ x ≤ hi ∧ |(targetPoly cs mode).eval x| < 1 / 10 ^ 4 := by
  rw [bisection_simple] at h
  obtain ⟨a, b, y, hy, hg, hgate⟩ := bisection_sound_ev _ lo init hi tol itermax x h
  simp only [evOf, Except.ok.injEq] at hy
  subst hy
  exact ⟨a, b, lt_of_lt_of_le hg hgate⟩

example : (bisectCore (evOf fun x : ℚ => x - 1) 0 0 2 (1 / 1000) 5).out = .ok 1 := by
  norm_num [bisectCore, bisectLoop, bisectPass, midpoint, finiteS, signTest, signumS, evOf, finish, sabs, gate, ratLit, SV.Gen.bisectionGate]

/-! ## the initial guess is checked first -/

/-- An initial guess outside `[lo, hi]` is rejected before anything else happens. -/
theorem bisection_init_checked (powf : K → K → K) (p : AnyPoly K) (lo init hi tol : K)
    (itermax : Nat) (mode : SolveMode) (h : init < lo ∨ hi < init) :
    (bisection powf p lo init hi tol itermax mode).out = .err .xInitOutOfBounds ∧
    (bisection powf p lo init hi tol itermax mode).passes = 0 := by
  unfold bisection
  rw [if_pos h]
  exact ⟨rfl, rfl⟩

/-- … so a reversed bracket is always rejected, whatever the initial guess. -/
theorem bisection_reversed_rejected (powf : K → K → K) (p : AnyPoly K) (lo init hi tol : K)
    (itermax : Nat) (mode : SolveMode) (h : hi < lo) :
    (bisection powf p lo init hi tol itermax mode).out = .err .xInitOutOfBounds := by
  apply (bisection_init_checked powf p lo init hi tol itermax mode _).1
  rcases lt_or_ge init lo with h1 | h1
  · exact Or.inl h1
  · exact Or.inr (lt_of_lt_of_le h h1)

theorem bisection_init_checked_ev (ev : K → Except PErr K) (lo init hi tol : K) (itermax : Nat)
    (h : init < lo ∨ hi < init) :
    (bisectCore ev lo init hi tol itermax).out = .err .xInitOutOfBounds := by
  unfold bisectCore
  rw [if_pos h]

example : (bisection (fun a _ => a) (.simple ⟨[(-1 : ℚ), 1], some 'x'⟩) 3 2 1 1 10 .root).out
    = .err .xInitOutOfBounds :=
  bisection_reversed_rejected _ _ _ _ _ _ _ _ (by norm_num)

/-! ## totality -/

/-- Every call returns a value or an error value — never the `panic` outcome — after at most
`itermax + 1` loop passes. -/
theorem bisection_total (powf : K → K → K) (p : AnyPoly K) (lo init hi tol : K) (itermax : Nat)
    (mode : SolveMode) :
    (bisection powf p lo init hi tol itermax mode).out ≠ .panic ∧
    ((∃ x, (bisection powf p lo init hi tol itermax mode).out = .ok x) ∨
      ∃ e, (bisection powf p lo init hi tol itermax mode).out = .err e) ∧
    (bisection powf p lo init hi tol itermax mode).passes ≤ itermax + 1 := by
  have key : (bisection powf p lo init hi tol itermax mode).out ≠ .panic ∧
      (bisection powf p lo init hi tol itermax mode).passes ≤ itermax + 1 := by
    unfold bisection
    split_ifs
    · exact ⟨by simp, by simp⟩
    · split
      · exact ⟨by simp, by simp⟩
      · rename_i q _
        refine ⟨bisectLoop_no_panic _ _ _ _ _, ?_⟩
        have := (bisectLoop_passes (q.evalUni powf) tol itermax 0 ⟨lo, hi, init, ((100 : Nat) : K)⟩).2
        omega
  refine ⟨key.1, ?_, key.2⟩
  cases h : (bisection powf p lo init hi tol itermax mode).out with
  | ok x => exact Or.inl ⟨x, rfl⟩
  | err e => exact Or.inr ⟨e, rfl⟩
  | panic => exact absurd h key.1

/-- The same for an arbitrary evaluation function. -/
theorem bisection_total_ev (ev : K → Except PErr K) (lo init hi tol : K) (itermax : Nat) :
    (bisectCore ev lo init hi tol itermax).out ≠ .panic ∧
    (bisectCore ev lo init hi tol itermax).passes ≤ itermax + 1 := by
  unfold bisectCore
  split_ifs
  · exact ⟨by simp, by simp⟩
  · refine ⟨bisectLoop_no_panic _ _ _ _ _, ?_⟩
    have := (bisectLoop_passes ev tol itermax 0 ⟨lo, hi, init, ((100 : Nat) : K)⟩).2
    omega

/-! ## the sign change stays inside the bracket -/

/-- **One pass.**  From a bracket `lower ≤ upper` with `g lower · g upper < 0`, one pass of the loop
(`bisectPass` at the total evaluation function of `g`) yields a bracket inside the old one that
still has the strict sign change, and either it is one of the two halves (the width halves) or a
midpoint / the lower end is an exact root: then the bracket is kept, `x_curr` is that root and the
error estimate is set to 0 (which stops the loop as soon as `0 < tol`). -/
theorem bisection_pass_keeps_sign_change (g : K → K) (first : Bool) (st : BState K)
    (hle : st.lower ≤ st.upper) (hs : g st.lower * g st.upper < 0) :
    ∃ st', bisectPass (evOf g) first st = .ok st' ∧
      st.lower ≤ st'.lower ∧ st'.lower ≤ st'.x ∧ st'.x ≤ st'.upper ∧ st'.upper ≤ st.upper ∧
      g st'.lower * g st'.upper < 0 ∧
      ((st'.upper - st'.lower = (st.upper - st.lower) / 2 ∧ st'.x = (st.lower + st.upper) / 2) ∨
       (st'.lower = st.lower ∧ st'.upper = st.upper ∧ g st'.x = 0 ∧ st'.aerr = 0)) := by
  refine ⟨passK g first st, bisectPass_evOf g first st, ?_⟩
  obtain ⟨h1, h2, h3, h4⟩ := bisectPass_bracket (bisectPass_evOf g first st) hle
  obtain ⟨hs', hcase⟩ := passK_spec g first st hs
  refine ⟨h1, h2, h3, h4, hs', ?_⟩
  rcases hcase with ⟨hx, hb, _⟩ | ⟨hl, hu, ha, hroot, _, _⟩
  · left
    refine ⟨?_, hx⟩
    rcases hb with ⟨a, b⟩ | ⟨a, b⟩ <;> rw [a, b] <;> ring
  · exact Or.inr ⟨hl, hu, hroot, ha⟩

/-- **The whole loop.**  If `g lo · g hi < 0` (and the initial guess is accepted), the bracket the
loop ends with lies in `[lo, hi]`, still has `g lower · g upper < 0` (so in particular `≤ 0`), and
its width is `(hi − lo) / 2^h` where `h` is the number of passes — unless a midpoint (or the lower
end) was an exact root of `g`, in which case `h` counts the passes before that and the root lies
in the final bracket. -/
theorem bisection_keeps_sign_change (g : K → K) (lo init hi tol : K) (itermax : Nat)
    (hinit : lo ≤ init ∧ init ≤ hi) (hs : g lo * g hi < 0) :
    let r := bisectCore (evOf g) lo init hi tol itermax
    lo ≤ r.lower ∧ r.lower ≤ r.upper ∧ r.upper ≤ hi ∧ g r.lower * g r.upper < 0 ∧
    ∃ h : Nat, h ≤ r.passes ∧ (r.upper - r.lower) * 2 ^ h = hi - lo ∧
      (h = r.passes ∨ ∃ x, r.lower ≤ x ∧ x ≤ r.upper ∧ g x = 0) := by
  intro r
  have hr : r = bisectLoop (evOf g) tol itermax 0 ⟨lo, hi, init, ((100 : Nat) : K)⟩ := by
    show bisectCore (evOf g) lo init hi tol itermax = _
    unfold bisectCore
    rw [if_neg (by push Not; exact hinit)]
  rw [hr]
  exact bisectLoop_keeps g tol itermax 0 ⟨lo, hi, init, _⟩ (le_trans hinit.1 hinit.2) hs

/-! ## completeness -/

/-- **`NoConvergence` only from a wide bracket.**  With a sign change and an `L`-Lipschitz target
function, the answer `NoConvergence` means that the bracket the loop stopped with is still wider
than `gate / L`: if the tolerance test fires at a width `w` with `L·w < gate`, a value is returned.
No restriction on where the root lies. -/
theorem bisection_noConvergence_wide (g : K → K) (L lo init hi tol : K) (itermax : Nat)
    (hL : LipOn g L lo hi) (hinit : lo ≤ init ∧ init ≤ hi) (hs : g lo * g hi < 0)
    (h : (bisectCore (evOf g) lo init hi tol itermax).out = .err .noConvergence) :
    gate ≤ L * ((bisectCore (evOf g) lo init hi tol itermax).upper -
      (bisectCore (evOf g) lo init hi tol itermax).lower) := by
  have hr : bisectCore (evOf g) lo init hi tol itermax =
      bisectLoop (evOf g) tol itermax 0 ⟨lo, hi, init, ((100 : Nat) : K)⟩ := by
    unfold bisectCore
    rw [if_neg (by push Not; exact hinit)]
  rw [hr] at h ⊢
  exact bisectLoop_noConv hL itermax 0 ⟨lo, hi, init, _⟩ (le_refl _) (le_trans hinit.1 hinit.2)
    (le_refl _) hs h

/-- **Bracketed roots are found (brackets that stay away from 0).**  If `g` changes sign over
`[lo, hi]`, is `L`-Lipschitz there, every point of the bracket has `c ≤ |x| ≤ X` for some `c > 0`,
the tolerance is small for the scale (`L·tol·X/100 < gate`, `0 < tol ≤ 100`) and the budget ample
(`(hi − lo)·100 < tol·c·2^itermax`, `itermax ≥ 2`), a value is returned.

*Partial*: brackets containing 0 are excluded.  In exact arithmetic the statement is false for
them — for `g = X` on `[−1, 2]` consecutive midpoints keep a relative distance ≥ 100 %, so the exact
model runs into `MaxIterationsReached` for every budget; the `f64` code terminates there through
underflow of `f(lower)·f(mid)` (after ≈ 540 passes), which only the `Float` instance exhibits.
That case is covered by the correspondence run and by the oracle (roots at 0, budget ≥ 2000). -/
theorem bisection_complete_partial (g : K → K) (L c X lo init hi tol : K) (itermax : Nat)
    (hL : LipOn g L lo hi) (hinit : lo ≤ init ∧ init ≤ hi) (hs : g lo * g hi < 0)
    (hc : 0 < c) (haway : ∀ x, lo ≤ x → x ≤ hi → c ≤ |x| ∧ |x| ≤ X)
    (htol : 0 < tol) (htol' : tol ≤ 100) (hsmall : L * tol * X < gate * 100)
    (hiter : 2 ≤ itermax) (hbudget : (hi - lo) * 100 < tol * c * 2 ^ itermax) :
    ∃ x, (bisectCore (evOf g) lo init hi tol itermax).out = .ok x := by
  obtain ⟨n, rfl⟩ : ∃ n, itermax = n + 2 := ⟨itermax - 2, by omega⟩
  have hlt : lo < hi := by
    rcases lt_or_eq_of_le (le_trans hinit.1 hinit.2) with h | h
    · exact h
    · rw [h] at hs; nlinarith [mul_self_nonneg (g hi)]
  unfold bisectCore
  rw [if_neg (by push Not; exact hinit), bisectLoop_evOf_succ]
  have hfirst : ((0 : Nat) == 0) = true := rfl
  rw [hfirst]
  obtain ⟨hs', hcase⟩ := passK_spec g true ⟨lo, hi, init, ((100 : Nat) : K)⟩ hs
  obtain ⟨h1, h2, h3, h4⟩ :=
    bisectPass_bracket (bisectPass_evOf g true ⟨lo, hi, init, ((100 : Nat) : K)⟩) (le_of_lt hlt)
  simp only at hs' hcase h1 h2 h3 h4
  rcases hcase with ⟨hx, hb, haerr⟩ | ⟨_, _, haerr, hroot, _, _⟩
  · -- the first pass halves the bracket and leaves the estimate at 100
    have hno : ¬ |(passK g true ⟨lo, hi, init, ((100 : Nat) : K)⟩).aerr| < tol := by
      rw [haerr]
      simp only [nextErr, Bool.true_eq_false, false_and, if_false, Nat.cast_ofNat]
      rw [abs_of_pos (by norm_num : (0 : K) < 100)]
      exact not_lt.mpr htol'
    rw [if_neg hno]
    apply bisectLoop_complete hL hc haway htol hsmall n 1 _ (by omega)
    · exact h1
    · rcases hb with ⟨a, b⟩ | ⟨a, b⟩ <;> rw [a, b] <;> linarith
    · exact h4
    · exact hs'
    · rcases hb with ⟨a, b⟩ | ⟨a, b⟩
      · right; rw [hx, b]
      · left; rw [hx, a]
    · have hw : (passK g true ⟨lo, hi, init, ((100 : Nat) : K)⟩).upper -
          (passK g true ⟨lo, hi, init, ((100 : Nat) : K)⟩).lower = (hi - lo) / 2 := by
        rcases hb with ⟨a, b⟩ | ⟨a, b⟩ <;> rw [a, b] <;> ring
      rw [hw]
      rw [pow_succ] at hbudget
      linarith
  · -- the first midpoint (or the lower end) is an exact root
    have hyes : |(passK g true ⟨lo, hi, init, ((100 : Nat) : K)⟩).aerr| < tol := by
      rw [haerr, abs_zero]; exact htol
    rw [if_pos hyes]
    exact ⟨_, finish_evOf_ok_of_small (by rw [hroot, abs_zero]; exact gate_pos)⟩

/-- the hypotheses of `bisection_complete_partial` are satisfiable: `x − 1` on `[1/2, 2]` -/
example : ∃ x, (bisectCore (evOf fun x : ℚ => x - 1) (1 / 2) 1 2 (1 / 10 ^ 9) 60).out = .ok x := by
  apply bisection_complete_partial (fun x : ℚ => x - 1) 1 (1 / 2) 2
  · intro x y _ _ _ _
    simp
  · norm_num
  · norm_num
  · norm_num
  · intro x h1 h2
    rw [abs_of_pos (by linarith)]
    exact ⟨h1, h2⟩
  · norm_num
  · norm_num
  · simp [gate, ratLit, SV.Gen.bisectionGate]; norm_num
  · norm_num
  · norm_num

/-- **The full-strength completeness clause** of the statement (“wherever the root lies, including
at zero”): not provable for the exact model — see `bisection_complete_partial` — and therefore kept
as a definition only.  `ample` stands for the budget condition.  What is missing for a proof is a
model of `f64` underflow; the clause is checked on the real code by the oracle of this property
(sign-changing, moderately scaled polynomials with roots at 0 and on bracket ends, budget ≥ 2000). -/
def bisection_complete : Prop :=
  ∀ (g : ℚ → ℚ) (L lo init hi tol : ℚ) (itermax : Nat),
    LipOn g L lo hi → lo ≤ init ∧ init ≤ hi → g lo * g hi < 0 →
    0 < tol → tol ≤ 100 → L * tol * max |lo| |hi| < gate * 100 → 2000 ≤ itermax →
    ∃ x, (bisectCore (evOf g) lo init hi tol itermax).out = .ok x

end SV.Props.C06
