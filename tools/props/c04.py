"""C04 plug-in: exact-rational oracle for indefinite integrals and `analytical_integral` (written from the
property statement, independent of the Lean model; shares the wire reader and the exact-polynomial
helpers of c03.py).

Integration steps (`integ`, `pinteg`, the `i` / `J v` steps of `chain` / `chainm`), when no term of the
source carries the integration variable to the power -1:

  * the oracle's own exact symbolic derivative (d/dv) of the returned polynomial equals the source
    coefficient-wise after merging like monomials - exactly in the exponents, within 4u per coefficient
    (the code rounds `c/(p+1)` once; u = 2^-53) - when all exponents are integers; in double precision
    (1e-11 relative at 4 positive points) when some exponent is fractional;
  * zero constant of integration: every term of the result contains the integration variable with a
    non-zero power (dense type: coefficient 0 is exactly 0);
  * the result is a well-formed polynomial of the same kind (sorted duplicate-free terms, variable list =
    sorted names in use; fresh variables inserted in order); the univariate entry point is Ok on <= 1
    variable, none included;
  * when the next step of the chain differentiates in the same variable through the code, the polynomial
    it returns has the value of the original polynomial.

  * EXACT term-wise judgement, whatever the size of the numbers (no sampling): dense type - position 0 is 0 and position
    k + 1 is `c_k / (k + 1)` (one rounding) at every position, every length (65 537 coefficients included); sparse type -
    a term containing the variable with power p becomes coefficient `c / (p + 1)`, power `p + 1`, every other factor
    untouched bit for bit; a term without it keeps its coefficient bit for bit and gains `v^1`; terms of power -1 are
    skipped (outside the domain), the terms beside them are still judged;
  * the univariate entry point (and `analytical_integral`) on a polynomial with several variables must answer with an error;
  * (harness, c04.rs) the duplicated entry points agree: `indefinite_integral_simple` / `indefinite_integral_intermediate`
    (owned / borrowed names, slice / Deref forms) against the trait methods.

`analytical`, `additive`, `swap` (polynomials with <= 1 variable): each returned integral is compared with the
exact integral in rationals, F(b) - F(a) for the exact antiderivative F, within
`max(16, 2(deg + terms + 4)) * u * sum|F-terms|` where sum|F-terms| adds |term of F| at both bounds (one rounding
for c/(p+1), <= deg for the power, one per product and per addition); additivity I(a,c) + I(c,b) = I(a,b) and the
sign change I(b,a) = -I(a,b) are checked within the sum of the bounds of the integrals involved.  Domain:
bounds positive when an exponent is fractional; when an exponent is negative the interval must not contain 0
(the integral does not exist otherwise).  Fractional exponents are checked in double precision (1e-11).  The bound is
relative to the F-terms at the bounds, so a narrow interval is judged as sharply as its bounds are small (a = 2^-40,
b - a = 2^-60: a result 0 is seen); next to 1 the cancellation in F(b) - F(a) itself limits what "up to rounding" can
promise.  The oracle abstains when a power or a partial product leaves [2^-900, 2^900] (the code's `0 * inf` is NaN:
e.g. the zero polynomial `0y^512` at -4.5 - overflow is outside the rounding model; K still decides there).
"""
import os, math, hashlib, random, importlib.util
from fractions import Fraction

_spec = importlib.util.spec_from_file_location("prop_c03_shared", os.path.join(os.path.dirname(os.path.abspath(__file__)), "c03.py"))
c03 = importlib.util.module_from_spec(_spec)
_spec.loader.exec_module(c03)

U = c03.U
Toks, read_poly, skip_txt, parse_request, parse_answer = c03.Toks, c03.read_poly, c03.skip_txt, c03.parse_request, c03.parse_answer
sparse, all_integer, all_vars, finite, own_var = c03.sparse, c03.all_integer, c03.all_vars, c03.finite, c03.own_var

RULE = ("polynomials are obtained by running the real parsers on grammar-generated texts (as for C03) after a fixed list "
        "of corner texts; requests integ / pinteg (variable present, absent, fresh, multi-letter) / analytical / additive / "
        "swap with dyadic bounds (any sign and order, 0 included, when all exponents are natural numbers; positive "
        "otherwise) / chains integrate-then-differentiate; bound pairs: independent, narrow away from 0 (relative width "
        "2^-1..2^-50), both tiny with a gap 2^-54..2^-100, equal, symmetric, a signed zero, tiny-to-huge; split points inside, "
        "outside, on a bound; integration variables that sort before / between / after the names in use and the other case "
        "of a name; the hardening texts of C03 plus powers next to -1; non-trivial = the model's answer contains a polynomial with "
        "at least one term or a numeric integral (not an error); distinct = distinct request lines")


# ----------------------------------------------------------------------------- indefinite integrals

def normalise(sp):
    """monomial (sorted tuple of (var, exponent != 0)) -> [coefficients]"""
    d = {}
    for c, vs in sp:
        key = tuple(sorted((v, e) for v, e in vs.items() if e != 0))
        d.setdefault(key, []).append(c)
    return d


def fmt_mono(key):
    return "*".join(f"{v}^{e}" for v, e in key) or "1"


def coefficientwise(ref, got, what):
    a, b = normalise(ref), normalise(got)
    for key in set(a) | set(b):
        ca, cb = a.get(key, []), b.get(key, [])
        diff = abs(sum(ca) - sum(cb))
        tol = 4 * U * (sum(abs(x) for x in ca) + sum(abs(x) for x in cb))
        if diff > tol:
            return (f"{what}: d/dv of the returned integral has coefficient {float(sum(cb))!r} at {fmt_mono(key)}, "
                    f"the source has {float(sum(ca))!r}")
    return None


def has_minus_one(sp, v):
    return any(e == -1 for e in c03.exponents_of(sp, v))


close = c03.close


def check_dense_integ_exact(src, got, what):
    """dense type, every size: position 0 is 0, position k + 1 is c_k / (k + 1) (one rounding)"""
    cs, gs = src[2], got[2]
    name = own_var(src)
    for k, c in enumerate(cs):
        g = gs[k + 1]
        if g == c / (k + 1):
            continue
        if not close(g, Fraction(c) / (k + 1)):
            return f"{what}: coefficient of {name}^{k + 1} is {g!r}, the rule gives {c!r} / {k + 1} = {c / (k + 1)!r}"
    return None


def check_integ_terms_exact(src, got, v, what):
    """sparse type, term by term: c / (p + 1) and power p + 1 on the variable, or the coefficient untouched and v^1
    added when the term does not contain it; the other factors untouched.  Terms of power -1 are outside the domain."""
    for (c, vs), (gc, gvs) in zip(src[1], got[1]):
        names = [n for n, _ in vs]
        if len(set(names)) != len(names):
            continue                      # a name twice in one term (not parser-made): values only
        gvs = sorted(gvs, key=lambda t: t[0])
        if v in names:
            p = dict(vs)[v]
            if p == -1:
                continue
            want_c, ulps = Fraction(c) / (Fraction(p) + 1), 4
            want = sorted([(n, ("plus1", e)) if n == v else (n, e) for n, e in vs], key=lambda t: t[0])
        else:
            want_c, ulps = Fraction(c), 0
            want = sorted(list(vs) + [(v, 1.0)], key=lambda t: t[0])
        ok = (gc == c if ulps == 0 else close(gc, want_c, ulps)) and [n for n, _ in gvs] == [n for n, _ in want]
        if ok:
            for (_, ge), (_, we) in zip(gvs, want):
                if isinstance(we, tuple):
                    ok = ok and close(ge, Fraction(we[1]) + 1)
                else:
                    ok = ok and ge == we
        if not ok:
            return (f"{what}: source term {c03.fmt_term(c, vs)} should become coefficient {float(want_c)!r} with {v} raised by "
                    f"one (added at power 1 when absent), the result has {c03.fmt_term(gc, gvs)}")
    return None


def check_integ_step(src, step, seg, rnd):
    v, expect = c03.step_variable(src, step)
    what = {"i": "indefinite_integral_univariate", "J": f"indefinite_integral_multivariate({step[1]!r})"}[step[0]]
    if seg[0] == "panic":
        return f"{what} panicked"
    if expect == "err":
        if seg[0] != "err":
            return (f"{what} on a polynomial in {src[2]} returned a polynomial although the variable to integrate in is "
                    f"ambiguous (TooManyVariables expected)")
        return None
    if seg[0] == "err":
        if expect == "ok":
            return f"{what} returned Err({seg[1]}) on a polynomial with {len(src[2]) if src[0]=='I' else 1} variable(s)"
        return None
    got = seg[1]
    if got[0] != src[0]:
        return f"{what} changed the kind of the polynomial"
    if expect == "identity":
        return None
    ssp = sparse(src)
    if ssp is None:
        return None                      # NaN/inf already there
    # exact structure first (it also judges the terms beside a term of power -1)
    if src[0] == "S":
        if got[1] == src[1] and len(got[2]) == len(src[2]) + 1:
            e = check_dense_integ_exact(src, got, what)
            if e:
                return e
    elif len(got[1]) == len(src[1]):
        e = check_integ_terms_exact(src, got, v, what)
        if e:
            return e
    if has_minus_one(ssp, v):
        return None                      # outside the property's domain (power -1)
    gsp = sparse(got)
    if gsp is None:
        return f"{what} produced a non-finite number although no term has power -1 in {v!r}"
    if src[0] == "S":
        if got[1] != src[1]:
            return f"{what} changed the variable of the polynomial"
        if len(got[2]) != len(src[2]) + 1:
            return f"{what}: {len(got[2])} coefficients from {len(src[2])}"
        if got[2][0] != 0:
            return f"{what}: constant of integration {got[2][0]!r}, expected 0"
        if len(src[2]) > c03.BIG:
            return None                   # the coefficient-wise check above is exact and complete
    else:
        e = c03.wf_exact(got)
        if e:
            return f"{what}: result is not well-formed: {e}"
        if len(got[1]) != len(src[1]):
            return f"{what}: {len(got[1])} terms from {len(src[1])}"
        for c, vs in gsp:
            if vs.get(v, 0) == 0:
                return f"{what}: a term of the result does not contain {v!r} (non-zero constant of integration)"
    back = c03.deriv_ref(gsp, v)
    if all_integer(ssp) and all_integer(gsp):
        return coefficientwise(ssp, back, what)
    variables = all_vars(ssp) | all_vars(gsp) | {v}
    return c03.compare_values(ssp, back, variables, rnd, what + " (d/dv of the result vs the source)", extra_domain=[gsp])


def check_roundtrip(orig, back, rnd, v):
    """orig: polynomial before `∫ dv`; back: what the code's derivative in v returned afterwards"""
    osp, bsp = sparse(orig), sparse(back)
    if osp is None or bsp is None or has_minus_one(osp, v):
        return None
    variables = all_vars(osp) | all_vars(bsp) | {v}
    return c03.compare_values(osp, bsp, variables, rnd,
                              f"differentiating the integral in {v!r} (through the code)", rel_exact=8)


# ----------------------------------------------------------------------------- definite integrals

def antiderivative(sp, v):
    out = []
    for c, d in sp:
        e = d.get(v, Fraction(0))
        if e == -1:
            return None
        nd = dict(d)
        nd[v] = e + 1
        out.append((c / (e + 1), nd))
    return out


def exact_integral(p, a, b):
    """-> ('exact', value, scale, deg, nterms) | ('float', value, scale) | None (outside the domain)"""
    sp = sparse(p)
    if sp is None or not (finite(a) and finite(b)):
        return None
    if p[0] == "S":
        v = own_var(p)
    else:
        if len(p[2]) > 1:
            return None
        v = p[2][0] if p[2] else "x"
        if not all_vars(sp) <= {v}:
            return None
    F = antiderivative(sp, v)
    if F is None or len(F) > c03.BIG:
        return None
    exps = c03.exponents_of(sp, v) + c03.exponents_of(F, v)
    fa, fb = Fraction(a), Fraction(b)
    if any(not c03.is_int(e) for e in exps):
        if not (a > 0 and b > 0):
            return None
        try:
            va = c03.term_values_float(F, {v: fa})
            vb = c03.term_values_float(F, {v: fb})
            facs = [math.pow(float(x), float(d[v])) for x in (fa, fb) for _, d in F if v in d] + [float(c) for c, _ in F]
        except (OverflowError, ValueError, ZeroDivisionError):
            return None
        mags = [abs(t) for t in va + vb + facs if t != 0]
        if mags and (max(mags) > 1e250 or min(mags) < 1e-250):
            return None
        val = math.fsum(vb) - math.fsum(va)
        scale = math.fsum(abs(t) for t in va) + math.fsum(abs(t) for t in vb)
        return ("float", val, scale)
    if any(e < 0 for e in exps):
        if a == 0 or b == 0 or (a < 0) != (b < 0):
            return None
    if p[0] == "S" and not c03.top_power_in_range(p, (fa, fb), extra=1):
        return None                       # a zero coefficient times an overflowing power is NaN in the code: out of range
    va = c03.term_values_exact(F, {v: fa}, guard=True)
    vb = c03.term_values_exact(F, {v: fb}, guard=True)
    if va is None or vb is None:
        return None                       # 0 to a negative power, or overflow / underflow on the way
    deg = max([abs(e) for e in exps] + [0])
    return ("exact", sum(vb) - sum(va), sum(abs(t) for t in va) + sum(abs(t) for t in vb), deg, len(F))


def bound_of(ex):
    if ex[0] == "float":
        return 1e-11 * ex[2] + 1e-300
    _, _, scale, deg, n = ex
    return max(16, 2 * (deg + n + 4)) * U * scale


def check_one(p, a, b, seg, label):
    """-> (error | None, exact | None)"""
    if seg[0] == "panic":
        return f"analytical_integral{label} panicked", None
    if p[0] == "I" and len(p[2]) > 1 and seg[0] != "err":
        return (f"analytical_integral{label} on a polynomial in {p[2]} returned {seg[1]!r} although the variable to "
                f"integrate in is ambiguous (an error is expected)"), None
    ex = exact_integral(p, a, b)
    if ex is None:
        return None, None
    if seg[0] == "err":
        return f"analytical_integral{label} returned Err({seg[1]}) on a polynomial with <= 1 variable", None
    got = seg[1]
    if not finite(got):
        return f"analytical_integral{label} returned {got!r}", None
    tol = bound_of(ex)
    diff = abs(Fraction(got) - ex[1]) if ex[0] == "exact" else abs(got - ex[1])
    if diff > tol:
        return (f"analytical_integral{label} returned {got!r}, the exact integral is {float(ex[1])!r} "
                f"(difference {float(diff):.3e} > bound {float(tol):.3e})"), ex
    return None, ex


def oracle(req, impl):
    # polynomials at the parser's exponent limit (65 537 coefficients) are judged coefficient-wise (exact); their definite
    # integrals when the non-zero terms are few and in range
    try:
        t = Toks(req)
        text = skip_txt(t)
        cmd = t.tok()
    except Exception as e:
        return f"oracle could not read the request: {e}"
    if cmd in ("analytical", "additive", "swap"):
        p = read_poly(t)
        xs = []
        while not t.done():
            xs.append(t.flt())
        segs = parse_answer("analytical", impl)
        if any(s[0] == "panic" for s in segs):
            return "analytical_integral panicked"
        if cmd == "analytical":
            return check_one(p, xs[0], xs[1], segs[0], "")[0]
        if cmd == "additive":
            a, c, b = xs
            e1, x1 = check_one(p, a, c, segs[0], f"({a}, {c})")
            e2, x2 = check_one(p, c, b, segs[1], f"({c}, {b})")
            e3, x3 = check_one(p, a, b, segs[2], f"({a}, {b})")
            if e1 or e2 or e3:
                return e1 or e2 or e3
            if x1 and x2 and x3 and all(s[0] == "val" for s in segs):
                tol = bound_of(x1) + bound_of(x2) + bound_of(x3)
                i1, i2, i3 = (Fraction(s[1]) for s in segs)
                if abs(i1 + i2 - i3) > tol:
                    return (f"additivity: I({a},{c}) + I({c},{b}) = {float(i1 + i2)!r} but I({a},{b}) = {float(i3)!r} "
                            f"(bound {float(tol):.3e})")
            return None
        a, b = xs
        e1, x1 = check_one(p, a, b, segs[0], f"({a}, {b})")
        e2, x2 = check_one(p, b, a, segs[1], f"({b}, {a})")
        if e1 or e2:
            return e1 or e2
        if x1 and x2 and all(s[0] == "val" for s in segs):
            tol = bound_of(x1) + bound_of(x2)
            if abs(Fraction(segs[0][1]) + Fraction(segs[1][1])) > tol:
                return f"swap: I({a},{b}) = {segs[0][1]!r} but I({b},{a}) = {segs[1][1]!r}"
        return None
    if cmd not in ("integ", "pinteg", "chain", "chainm"):
        return None
    r = parse_request(req)
    segs = parse_answer(cmd, impl)
    rnd = random.Random(int(hashlib.md5(req.encode()).hexdigest()[:12], 16))
    cur = r["poly"]
    before = None        # (polynomial before the last integration step, its variable)
    i = 0
    for step in r["steps"]:
        if i >= len(segs):
            return "the answer has fewer segments than the request has steps"
        seg = segs[i]
        i += 1
        if step[0] in ("i", "J"):
            err = check_integ_step(cur, step, seg, rnd)
            if err:
                return err
            v, expect = c03.step_variable(cur, step)
            before = (cur, v) if expect == "ok" else None
        else:
            if seg[0] == "panic":
                return "a differentiation step panicked"
            v, expect = c03.step_variable(cur, step)
            if before is not None and expect == "ok" and v == before[1] and seg[0] == "ok":
                err = check_roundtrip(before[0], seg[1], rnd, v)
                if err:
                    return err
            before = None
        if seg[0] != "ok":
            return None
        cur = seg[1]
    if cmd in ("chain", "chainm"):
        if i >= len(segs):
            return "the answer lacks the final evaluation"
        return c03.check_final(cur, r, segs[i])
    return None


# ----------------------------------------------------------------------------- K: model vs implementation

def _underflow_only_bound(p, a, b):
    """The oracle abstains as soon as a power leaves [2^-900, 2^900].  When the only thing that can happen is UNDERFLOW -
    natural-number exponents, |a|, |b| <= 1 (every power is <= 1 in size, no partial product exceeds its coefficient),
    moderate coefficients - the request is still inside the statement and the rounding bound still holds, with an absolute
    slack for the underflowing operations (each loses at most 2^-1074, scaled by the coefficient it is multiplied with).
    -> the bound on |computed - exact| (Fraction), or None when the situation is not of this kind."""
    sp = sparse(p)
    if sp is None or not (finite(a) and finite(b)) or abs(a) > 1 or abs(b) > 1:
        return None
    if p[0] == "S":
        v = own_var(p)
    else:
        if len(p[2]) > 1:
            return None
        v = p[2][0] if p[2] else "x"
        if not all_vars(sp) <= {v}:
            return None
    if len(sp) > c03.BIG:
        return None
    exps = c03.exponents_of(sp, v)
    if any((not c03.is_int(e)) or e < 0 or e > 70000 for e in exps):
        return None
    F = antiderivative(sp, v)
    if F is None or any(not c03.inrange(c) for c, _ in F) or any(not c03.inrange(c) for c, _ in sp):
        return None
    scale = Fraction(0)
    slack = Fraction(0)
    for x in (Fraction(a), Fraction(b)):
        for c, d in F:
            e = int(d.get(v, 0))
            # |x| <= 1: x^e = 0 to working accuracy once it is below 2^-1200 (no need to form the huge rational)
            if x == 0:
                pw = Fraction(0) if e > 0 else Fraction(1)
            elif e * (abs(x).numerator.bit_length() - abs(x).denominator.bit_length() + 1) < -1200:
                pw = Fraction(0)
            else:
                pw = abs(x) ** e
            scale += abs(c) * pw
            slack += max(abs(c), 1) * (e + 4) * Fraction(1, 2 ** 1073)
    deg = max([int(e) + 1 for e in exps] + [0])
    return max(16, 2 * (deg + len(F) + 4)) * U * scale + slack


def compare(req, impl, model):
    """Token-wise as the default rule, except for the VALUES of definite integrals (`analytical`, `additive`, `swap`):
    the statement promises them "up to rounding", and F(b) - F(a) on a narrow interval cancels, so one rounding more or less
    in a coefficient of F (c * (1/(p+1)) instead of c / (p+1)) moves the result by far more than 1e-9 of ITSELF while
    staying inside the rounding bound.  Two values are therefore equal when they differ by at most twice the bound the
    oracle judges each of them against (`bound_of`: a multiple of u * sum |terms of F at both bounds|, exact rationals).
    Requests the statement does not cover - a term of power -1, bounds at which F or a power overflows, so that the
    model's own answer is NaN / infinite - carry no information about a value: any value is accepted against a non-finite
    model value there (Ok vs Err vs panic is still compared; the KIND of an error is not: the statement names none).  Where the oracle abstains only because a power UNDERFLOWS
    (bounds next to 0, high powers) the same bound plus an absolute underflow slack is used (`_underflow_only_bound`).  Everything else (polynomials, error kinds, shapes of the
    answers, finite values outside the oracle's domain) is compared exactly as before."""
    from __main__ import default_compare
    d = default_compare(req, c03.strip_err_kinds(impl), c03.strip_err_kinds(model))     # the statement names no error kind
    if d is None:
        return None
    try:
        t = Toks(req)
        skip_txt(t)
        cmd = t.tok()
        if cmd not in ("analytical", "additive", "swap"):
            return c03.compare(req, impl, model)      # chains: the final evaluation up to its rounding bound (c03.py)
        p = read_poly(t)
        xs = []
        while not t.done():
            xs.append(t.flt())
        si, sm = parse_answer("analytical", impl), parse_answer("analytical", model)
    except Exception:
        return d
    if cmd == "analytical":
        pairs = [(xs[0], xs[1])]
    elif cmd == "additive":
        a, c, b = xs
        pairs = [(a, c), (c, b), (a, b)]
    else:
        a, b = xs
        pairs = [(a, b), (b, a)]
    if len(si) != len(pairs) or len(sm) != len(pairs):
        return d
    for n, ((a, b), x, y) in enumerate(zip(pairs, si, sm)):
        if x[0] != y[0]:
            return f"integral {n}: impl {x[0]} model {y[0]}"
        if x[0] == "err":
            continue
        if x[0] != "val":
            continue
        gi, gm = x[1], y[1]
        if gi == gm or (gi != gi and gm != gm):
            continue
        if not finite(gm):
            continue                       # outside the domain of the statement (see above)
        if finite(gi) and abs(gi - gm) <= 1e-9 * max(abs(gi), abs(gm), 1e-300):
            continue                       # the default rule for float tokens
        ex = exact_integral(p, a, b)
        if ex is not None and finite(gi):
            tol = 2 * bound_of(ex)
        else:
            tol = _underflow_only_bound(p, a, b) if finite(gi) else None
            if tol is None:
                return f"integral {n} over ({a!r}, {b!r}): impl {gi!r} model {gm!r}"
            tol = 2 * tol
        diff = abs(Fraction(gi) - Fraction(gm))
        if diff > tol:
            return (f"integral {n} over ({a!r}, {b!r}): impl {gi!r} model {gm!r} differ by {float(diff):.3e} > twice the "
                    f"rounding bound {float(tol):.3e}")
    return None


# ----------------------------------------------------------------------------- evidence helpers

def nontrivial(req, model):
    if c03.nontrivial(req, model):
        return True
    return any(part.split()[:1] == ["ok"] and len(part.split()) == 2 and part.split()[1].startswith("f")
               for part in model.split(" | "))


def tag(req, model):
    return c03.tag(req, model)
