import SV.Model.C18
import SV.Lemmas.C18
import Mathlib.Analysis.SpecialFunctions.Pow.Real
/-!
# C18 — descriptive statistics equal their textbook definitions

Property theorems only (helper lemmas live in `SV.Lemmas.C18`).  `K` is any linearly ordered
field; `sqrt` is a parameter constrained by `SqrtSpec` (shown satisfiable by `Real.sqrt`); the
geometric mean is over `ℝ` with `Real.exp`/`Real.log`.  The same `SV.C18.arithMean`, `geomMean`,
`stdDev` run at `Float` in the driver (with `Float.exp/log/sqrt`) and are compared bit for bit
with `spindalis::utils::{arith_mean, geom_mean, std_dev}` on every run of the check.
`none` is the NaN the code returns from its guards.
-/
set_option linter.unusedSectionVars false

namespace SV.Props.C18
open SV SV.C18

variable {K : Type} [Field K] [LinearOrder K] [IsStrictOrderedRing K]

/-- what is assumed of the square-root parameter -/
def SqrtSpec (sqrt : K → K) : Prop := ∀ x, 0 ≤ x → sqrt x * sqrt x = x ∧ 0 ≤ sqrt x

/-- the hypothesis is satisfiable: the real square root -/
example : SqrtSpec Real.sqrt := fun x hx => ⟨Real.mul_self_sqrt hx, Real.sqrt_nonneg x⟩

/-- the textbook variance with denominator `d` -/
def variance (d : Nat) (xs : List K) : K :=
  (xs.map fun x => (x - xs.sum / (xs.length : K)) ^ 2).sum / (d : K)

/-! ### defining formulas -/

/-- the arithmetic mean is `Σ x / n` -/
theorem mean_eq_formula (xs : List K) (m : K) (h : arithMean xs = some m) :
    xs.length ≠ 0 ∧ m = xs.sum / (xs.length : K) := by
  unfold arithMean at h
  by_cases h0 : xs.length = 0
  · rw [if_pos h0] at h; cases h
  · rw [if_neg h0] at h
    cases h
    exact ⟨h0, meanRaw_eq xs⟩

/-- the deviation is `sqrt (Σ (x - mean)² / d)`, `d = n` (population) or `n - 1` (sample) -/
theorem std_eq_formula (sqrt : K → K) (k : Kind) (xs : List K) (s : K)
    (h : stdDev sqrt k xs = some s) :
    denom k xs.length ≠ 0 ∧ s = sqrt (variance (denom k xs.length) xs) := by
  unfold stdDev at h
  by_cases h0 : denom k xs.length = 0
  · rw [if_pos h0] at h; cases h
  · rw [if_neg h0] at h
    simp only [Option.some.injEq] at h
    refine ⟨h0, ?_⟩
    rw [← h, fsum_dev_eq]
    rfl

/-! ### undefined cases -/

/-- NaN exactly for the empty sample -/
theorem mean_nan_iff (xs : List K) : arithMean xs = none ↔ xs.length = 0 := by
  unfold arithMean
  by_cases h0 : xs.length = 0 <;> simp [h0]

/-- the geometric mean is NaN exactly for the empty sample (any `exp`, `ln`) -/
theorem geom_nan_iff (exp ln : K → K) (xs : List K) : geomMean exp ln xs = none ↔ xs.length = 0 := by
  unfold geomMean
  by_cases h0 : xs.length = 0 <;> simp [h0]

/-- NaN exactly when the denominator is 0: the empty sample, or one element with the sample kind
(`n.saturating_sub(1) = 0`; the code returns NaN from its guard, it does not compute 0/0) -/
theorem std_nan_iff (sqrt : K → K) (k : Kind) (xs : List K) :
    stdDev sqrt k xs = none ↔ (xs.length = 0 ∨ (k = .sample ∧ xs.length = 1)) := by
  unfold stdDev
  have hd : denom k xs.length = 0 ↔ (xs.length = 0 ∨ (k = .sample ∧ xs.length = 1)) := by
    cases k
    · simp [denom]
    · simp only [denom, true_and]; omega
  by_cases h0 : denom k xs.length = 0
  · simp only [h0, if_true, true_iff]
    exact hd.mp h0
  · simp only [h0, if_false, reduceCtorEq, false_iff]
    exact fun h => h0 (hd.mpr h)

/-! ### order properties -/

/-- `min ≤ mean ≤ max` for every non-empty sample, the minimum and maximum being attained -/
theorem mean_between (xs : List K) (m : K) (h : arithMean xs = some m) :
    (∃ a ∈ xs, (∀ x ∈ xs, a ≤ x) ∧ a ≤ m) ∧ (∃ b ∈ xs, (∀ x ∈ xs, x ≤ b) ∧ m ≤ b) := by
  obtain ⟨hn, rfl⟩ := mean_eq_formula xs m h
  have hne : xs ≠ [] := by intro e; rw [e] at hn; exact hn rfl
  obtain ⟨⟨a, ha, hamin⟩, ⟨b, hb, hbmax⟩⟩ := exists_min_max xs hne
  exact ⟨⟨a, ha, hamin, mean_ge_of_forall_ge xs hn a hamin⟩,
    ⟨b, hb, hbmax, mean_le_of_forall_le xs hn b hbmax⟩⟩

/-- the variance under the root is non-negative whenever the deviation is defined -/
theorem variance_nonneg (k : Kind) (xs : List K) : 0 ≤ variance (denom k xs.length) xs := by
  unfold variance
  exact div_nonneg (ssd_nonneg xs) (Nat.cast_nonneg _)

/-- the standard deviation is non-negative -/
theorem std_nonneg (sqrt : K → K) (hs : SqrtSpec sqrt) (k : Kind) (xs : List K) (s : K)
    (h : stdDev sqrt k xs = some s) : 0 ≤ s := by
  obtain ⟨_, rfl⟩ := std_eq_formula sqrt k xs s h
  exact (hs _ (variance_nonneg k xs)).2

/-- its square is the variance (so "equal to the defining formula" does not depend on which
square root function is used) -/
theorem std_sq (sqrt : K → K) (hs : SqrtSpec sqrt) (k : Kind) (xs : List K) (s : K)
    (h : stdDev sqrt k xs = some s) : s * s = variance (denom k xs.length) xs := by
  obtain ⟨_, rfl⟩ := std_eq_formula sqrt k xs s h
  exact (hs _ (variance_nonneg k xs)).1

/-! ### invariances -/

/-- translation invariance (no hypothesis on `sqrt` is needed: the variances are equal) -/
theorem std_translate (sqrt : K → K) (k : Kind) (xs : List K) (c : K) :
    stdDev sqrt k (xs.map fun x => x + c) = stdDev sqrt k xs := by
  unfold stdDev
  rw [List.length_map]
  by_cases h0 : denom k xs.length = 0
  · rw [if_pos h0, if_pos h0]
  · rw [if_neg h0, if_neg h0]
    have hn : xs.length ≠ 0 := by
      intro e; rw [e] at h0; cases k <;> simp [denom] at h0
    simp only
    rw [fsum_dev_eq, fsum_dev_eq, ssd_translate xs c hn]

/-- the mean moves with the sample -/
theorem mean_translate (xs : List K) (c : K) :
    arithMean (xs.map fun x => x + c) = (arithMean xs).map (· + c) := by
  unfold arithMean
  rw [List.length_map]
  by_cases h0 : xs.length = 0
  · rw [if_pos h0, if_pos h0]; rfl
  · rw [if_neg h0, if_neg h0]
    simp only [Option.map_some, Option.some.injEq]
    rw [meanRaw_eq, meanRaw_eq, List.length_map, sum_map_add_const]
    have hn : (xs.length : K) ≠ 0 := (length_cast_pos h0).ne'
    field_simp

/-- scaling: `std (k·x) = |k| · std x` -/
theorem std_scale (sqrt : K → K) (hs : SqrtSpec sqrt) (kd : Kind) (xs : List K) (k : K) :
    stdDev sqrt kd (xs.map fun x => k * x) = (stdDev sqrt kd xs).map (|k| * ·) := by
  unfold stdDev
  rw [List.length_map]
  by_cases h0 : denom kd xs.length = 0
  · rw [if_pos h0, if_pos h0]; rfl
  · rw [if_neg h0, if_neg h0]
    simp only [Option.map_some, Option.some.injEq]
    rw [fsum_dev_eq, fsum_dev_eq, ssd_scale]
    have hv : 0 ≤ ssd xs / (denom kd xs.length : K) :=
      div_nonneg (ssd_nonneg xs) (Nat.cast_nonneg _)
    have hkv : 0 ≤ k ^ 2 * ssd xs / (denom kd xs.length : K) :=
      div_nonneg (mul_nonneg (sq_nonneg k) (ssd_nonneg xs)) (Nat.cast_nonneg _)
    obtain ⟨e1, p1⟩ := hs _ hv
    obtain ⟨e2, p2⟩ := hs _ hkv
    apply eq_of_mul_self_eq p2 (mul_nonneg (abs_nonneg k) p1)
    rw [e2]
    generalize sqrt (ssd xs / (denom kd xs.length : K)) = r at e1
    have : |k| * r * (|k| * r) = (|k| * |k|) * (r * r) := by ring
    rw [this, e1, abs_mul_abs_self]
    ring

/-- sample versus population: `std_sample = std_population · sqrt (n / (n - 1))` for `n ≥ 2`
(for `n ≤ 1` the sample form is NaN by `std_nan_iff`) -/
theorem std_sample_pop (sqrt : K → K) (hs : SqrtSpec sqrt) (xs : List K) (ss sp : K)
    (h1 : stdDev sqrt .sample xs = some ss) (h2 : stdDev sqrt .population xs = some sp) :
    ss = sp * sqrt ((xs.length : K) / ((xs.length : K) - 1)) := by
  obtain ⟨d1, _⟩ := std_eq_formula sqrt .sample xs ss h1
  have hn : 2 ≤ xs.length := by simp only [denom] at d1; omega
  have hn1 : (0 : K) < (xs.length : K) - 1 := by
    have : ((2 : Nat) : K) ≤ (xs.length : K) := Nat.cast_le.mpr hn
    have h2' : ((2 : Nat) : K) = 2 := by norm_num
    linarith
  have hn0 : (0 : K) < (xs.length : K) := by linarith
  have hr : 0 ≤ (xs.length : K) / ((xs.length : K) - 1) := div_nonneg hn0.le hn1.le
  obtain ⟨er, pr⟩ := hs _ hr
  have q1 := std_sq sqrt hs .sample xs ss h1
  have q2 := std_sq sqrt hs .population xs sp h2
  have p1 := std_nonneg sqrt hs .sample xs ss h1
  have p2 := std_nonneg sqrt hs .population xs sp h2
  apply eq_of_mul_self_eq p1 (mul_nonneg p2 pr)
  have hcast : ((xs.length - 1 : Nat) : K) = (xs.length : K) - 1 := by
    rw [Nat.cast_sub (by omega)]; simp
  rw [q1]
  generalize sqrt ((xs.length : K) / ((xs.length : K) - 1)) = r at er
  have : sp * r * (sp * r) = (sp * sp) * (r * r) := by ring
  rw [this, er, q2]
  show ssd xs / ((xs.length - 1 : Nat) : K) = ssd xs / (xs.length : K) * _
  rw [hcast]
  field_simp

/-! ### geometric mean (ℝ) -/

/-- for positive data `exp (mean (ln xᵢ))` is the `n`-th root of the product -/
theorem geom_def (xs : List ℝ) (g : ℝ) (hpos : ∀ x ∈ xs, 0 < x)
    (h : geomMean Real.exp Real.log xs = some g) :
    g = xs.prod ^ ((1 : ℝ) / (xs.length : ℝ)) := by
  unfold geomMean at h
  by_cases h0 : xs.length = 0
  · rw [if_pos h0] at h; cases h
  · rw [if_neg h0] at h
    simp only [Option.some.injEq] at h
    rw [← h, fsum_eq, ← Real.log_list_prod (fun x hx => (hpos x hx).ne'),
      Real.rpow_def_of_pos (List.prod_pos hpos)]
    congr 1
    ring

/-- hence `gⁿ = Π xᵢ` (what the oracle of the check compares, in exact rationals) -/
theorem geom_pow (xs : List ℝ) (g : ℝ) (hpos : ∀ x ∈ xs, 0 < x)
    (h : geomMean Real.exp Real.log xs = some g) : g ^ xs.length = xs.prod := by
  have h0 : xs.length ≠ 0 := by
    intro e; unfold geomMean at h; rw [if_pos e] at h; cases h
  rw [geom_def xs g hpos h, ← Real.rpow_natCast, ← Real.rpow_mul (List.prod_pos hpos).le]
  have : (1 : ℝ) / (xs.length : ℝ) * (xs.length : ℝ) = 1 := by
    field_simp
  rw [this, Real.rpow_one]

/-! ### non-vacuity: the functions are defined and take the expected values on concrete samples -/

example : arithMean ([1, 2, 3, 6] : List ℚ) = some 3 := by
  norm_num [arithMean, meanRaw, fsum]
example : arithMean ([] : List ℚ) = none := rfl
example (sqrt : ℚ → ℚ) : stdDev sqrt .sample ([5] : List ℚ) = none := rfl
example (sqrt : ℚ → ℚ) : stdDev sqrt .population ([] : List ℚ) = none := rfl
/-- population deviation of 2,4,4,4,5,5,7,9 is `sqrt 4`, sample deviation `sqrt (32/7)` -/
example (sqrt : ℚ → ℚ) :
    stdDev sqrt .population ([2, 4, 4, 4, 5, 5, 7, 9] : List ℚ) = some (sqrt 4) := by
  norm_num [stdDev, denom, meanRaw, fsum, powi, powiGo]
example (sqrt : ℚ → ℚ) :
    stdDev sqrt .sample ([2, 4, 4, 4, 5, 5, 7, 9] : List ℚ) = some (sqrt (32 / 7)) := by
  norm_num [stdDev, denom, meanRaw, fsum, powi, powiGo]
example : ∃ g, geomMean Real.exp Real.log ([2, 8] : List ℝ) = some g ∧ g ^ 2 = 16 := by
  refine ⟨_, rfl, ?_⟩
  have := geom_pow ([2, 8] : List ℝ) _ (by simp) rfl
  norm_num at this ⊢
  exact this

end SV.Props.C18
