import SV.Model.Basic
import Mathlib.Data.Real.Basic
import Mathlib.Algebra.Order.Ring.Abs
import Mathlib.Algebra.Order.Ring.Pow
import Mathlib.Algebra.Order.Field.Basic
import Mathlib.Algebra.BigOperators.Intervals
import Mathlib.Algebra.BigOperators.Ring.Finset
import Mathlib.Algebra.BigOperators.Group.List.Basic
import Mathlib.Algebra.Order.BigOperators.Group.Finset
import Mathlib.Tactic.Ring
import Mathlib.Tactic.Linarith
import Mathlib.Tactic.Positivity
/-!
# The rounding layer: the standard model of floating-point arithmetic

Every numerical model of `SV.Model.*` is written once, generically over its scalar type, is run at
`Float` by the driver (bit-identical to the Rust code) and is reasoned about over fields, i.e. with
rounding error 0.  This file adds a third instantiation of **the same definitions**: a scalar type
`Fl M` whose every arithmetic operation is the exact real operation followed by a rounding
`M.rnd` that obeys the *standard model* (Higham, *Accuracy and Stability of Numerical Algorithms*,
2nd ed., (2.4)):

    fl(x op y) = (x op y)(1 + δ),   |δ| ≤ u.

Theorems proved about `SV.sumFrom`, `SV.C11.dot`, `SV.C18.arithMean`, `SV.Poly.evalSimple` … *at
`Fl M`* are then rounding-error bounds for the very definitions the driver runs.

## Relation to IEEE binary64 (`f64`)

Round-to-nearest binary64 arithmetic satisfies the standard model with unit roundoff
`u = 2⁻⁵³ ≈ 1.11·10⁻¹⁶` for `+ − × ÷` (and `sqrt`), **provided the exact result neither overflows
nor falls into the subnormal range**.  For such an `M` (`M.u = 2⁻⁵³`, `M.rnd` = round to nearest
even) the operations of `Fl M` on representable arguments are exactly the operations of `f64`.
`SV.Lemmas.RoundingNearest` constructs such a model: `FlModel.binary64` is round-to-nearest onto
the numbers with a 53-bit significand and unbounded exponent, proved to satisfy the standard model
with `u = 2⁻⁵³` and to fix every representable number; each property file ends with the bound
specialised to it (`…_binary64`: `γ_n ≤ n·2⁻⁵²` for `n ≤ 2⁵²`).

## What is NOT covered

* **Underflow**: for a subnormal result the relative error bound fails (IEEE gives
  `fl(x) = x(1+δ) + η`, `|η| ≤ 2⁻¹⁰⁷⁵`); the model has no `η` term.  Sums are still fine in IEEE
  (an addition that underflows is exact) but products and quotients are not.
* **Overflow**, `∞`, NaN, signed zeros: `Fl M` carries real numbers only.
* **The decimal→binary conversion of the inputs** (`str::parse::<f64>`): the inputs of every
  theorem are the values the computation *starts* from (arbitrary reals, embedded exactly); the
  error committed when a decimal literal is rounded to binary64 is a separate relative error `≤ u`
  per input, not included.
* Nothing is assumed about `rnd` beyond the model: not monotone, not idempotent, not symmetric.
  Consequently `0 + x`, `1 * x` and `-x` are charged one rounding each (IEEE performs them
  exactly); the bounds are valid for IEEE and pessimistic by at most these few units.

## Contents

* `FlModel`, `FlModel.ideal` (`u = 0`), `FlModel.skew` (`u > 0`: non-vacuity)
* `FlModel.gamma`     `γ_n = n·u / (1 − n·u)`
* `FlModel.Fac M n t` Higham's relative-error counter `⟨n⟩`: `t` lies between `(1−u)ⁿ` and
  `(1−u)⁻ⁿ` — the interval that contains every product of `n` factors `(1+δᵢ)^{±1}`, `|δᵢ| ≤ u`;
  closed under products (`Fac.mul`), inverses (`Fac.inv`), powers, monotone in `n`, and
  `Fac.abs_sub_one_le : M.Fac n t → n·u < 1 → |t − 1| ≤ γ_n`
* `FlModel.higham_lemma_3_1`  Lemma 3.1 of Higham stated literally for a list of factors
* `Fl M` and its instances
* `foldl_add_rounding`, `sumFrom_rounding_weights`, `sumFrom_rounding`, `sumFrom_rounding_abs`
  recursive (left-to-right) summation
* `weighted_sum_bound`  from componentwise weights to the forward bound
-/
namespace SV
open Finset

/-- The standard model of floating-point arithmetic without underflow/overflow: a rounding
function with relative error at most the unit roundoff `u < 1`.  (binary64: `u = 2⁻⁵³`.) -/
structure FlModel where
  u : ℝ
  hu : 0 ≤ u ∧ u < 1
  rnd : ℝ → ℝ
  hrnd : ∀ x, ∃ δ, |δ| ≤ u ∧ rnd x = x * (1 + δ)

namespace FlModel

/-- exact arithmetic is a model (`u = 0`) -/
def ideal : FlModel where
  u := 0
  hu := ⟨le_refl 0, zero_lt_one⟩
  rnd := id
  hrnd := fun x => ⟨0, by simp, by simp⟩

instance : Inhabited FlModel := ⟨ideal⟩

/-- a model with a genuinely non-zero error for every `u ∈ (0,1)`: every result is inflated by the
factor `1 + u/2`.  (Not a sensible arithmetic — it only shows that the structure is inhabited with
`u > 0` and `rnd ≠ id`, so no theorem below holds for the trivial reason `rnd = id`.) -/
noncomputable def skew (u : ℝ) (h : 0 ≤ u ∧ u < 1) : FlModel where
  u := u
  hu := h
  rnd := fun x => x * (1 + u / 2)
  hrnd := fun _ => ⟨u / 2, by rw [abs_of_nonneg (by linarith [h.1])]; linarith [h.1], rfl⟩

/-- non-vacuity: a model with the unit roundoff of binary64 whose rounding is not the identity -/
example : ∃ M : FlModel, M.u = 2⁻¹ ^ 53 ∧ M.rnd 1 ≠ 1 := by
  have h : (0 : ℝ) ≤ 2⁻¹ ^ 53 ∧ (2⁻¹ : ℝ) ^ 53 < 1 :=
    ⟨by positivity, pow_lt_one₀ (by norm_num) (by norm_num) (by norm_num)⟩
  refine ⟨skew (2⁻¹ ^ 53) h, rfl, ?_⟩
  have : (0 : ℝ) < 2⁻¹ ^ 53 := by positivity
  simp only [skew]
  intro h1
  linarith

variable (M : FlModel)

theorem one_sub_pos : 0 < 1 - M.u := by linarith [M.hu.2]
theorem one_sub_le_one : 1 - M.u ≤ 1 := by linarith [M.hu.1]

/-- `γ_n = n·u / (1 − n·u)` -/
noncomputable def gamma (n : ℕ) : ℝ := n * M.u / (1 - n * M.u)

theorem gamma_nonneg {n : ℕ} (hn : n * M.u < 1) : 0 ≤ M.gamma n := by
  unfold gamma
  apply div_nonneg (mul_nonneg (Nat.cast_nonneg n) M.hu.1)
  linarith

theorem gamma_zero : M.gamma 0 = 0 := by simp [gamma]

/-- `n·u ≤ γ_n` -/
theorem mul_u_le_gamma {n : ℕ} (hn : n * M.u < 1) : n * M.u ≤ M.gamma n := by
  unfold gamma
  have hd : 0 < 1 - n * M.u := by linarith
  have h0 : 0 ≤ n * M.u := mul_nonneg (Nat.cast_nonneg n) M.hu.1
  rw [le_div_iff₀ hd]
  nlinarith

/-- `u ≤ γ_1` -/
theorem u_le_gamma_one (h : M.u < 1) : M.u ≤ M.gamma 1 := by
  have := M.mul_u_le_gamma (n := 1) (by simpa using h)
  simpa using this

/-- the usual simplification: `γ_n ≤ 2·n·u` as soon as `n·u ≤ 1/2`
(binary64: for every `n ≤ 2⁵²`) -/
theorem gamma_le_two_mul {n : ℕ} (hn : n * M.u ≤ 1 / 2) : M.gamma n ≤ 2 * (n * M.u) := by
  unfold gamma
  have h0 : 0 ≤ n * M.u := mul_nonneg (Nat.cast_nonneg n) M.hu.1
  rw [div_le_iff₀ (by linarith)]
  nlinarith

theorem hyp_mono {m n : ℕ} (h : m ≤ n) (hn : n * M.u < 1) : m * M.u < 1 :=
  lt_of_le_of_lt (mul_le_mul_of_nonneg_right (Nat.cast_le.mpr h) M.hu.1) hn

/-- `γ` is monotone where it is defined -/
theorem gamma_mono {m n : ℕ} (h : m ≤ n) (hn : n * M.u < 1) : M.gamma m ≤ M.gamma n := by
  unfold gamma
  have hmn : (m : ℝ) * M.u ≤ n * M.u := mul_le_mul_of_nonneg_right (Nat.cast_le.mpr h) M.hu.1
  have hd : 0 < 1 - n * M.u := by linarith
  have hd' : 0 < 1 - m * M.u := by linarith
  rw [div_le_div_iff₀ hd' hd]
  nlinarith

/-! ### the relative-error counter `⟨n⟩` -/

/-- `M.Fac n t`: `t` is an admissible accumulated factor of `n` roundings,
`(1−u)ⁿ ≤ t ≤ (1−u)⁻ⁿ` (the upper bound is written `t·(1−u)ⁿ ≤ 1`).  Every product of `n` factors
`(1+δᵢ)` or `(1+δᵢ)⁻¹` with `|δᵢ| ≤ u` satisfies it (`fac_one_add`, `Fac.mul`, `Fac.inv`). -/
def Fac (n : ℕ) (t : ℝ) : Prop := (1 - M.u) ^ n ≤ t ∧ t * (1 - M.u) ^ n ≤ 1

variable {M}

theorem Fac.pos {n : ℕ} {t : ℝ} (h : M.Fac n t) : 0 < t :=
  lt_of_lt_of_le (pow_pos M.one_sub_pos n) h.1

theorem fac_zero_one : M.Fac 0 1 := by simp [Fac]

theorem fac_zero_iff {t : ℝ} : M.Fac 0 t ↔ t = 1 := by
  simp only [Fac, pow_zero, mul_one]
  exact ⟨fun h => le_antisymm h.2 h.1, fun h => by rw [h]; exact ⟨le_refl 1, le_refl 1⟩⟩

theorem Fac.mul {m n : ℕ} {s t : ℝ} (hs : M.Fac m s) (ht : M.Fac n t) : M.Fac (m + n) (s * t) := by
  have hp : ∀ k : ℕ, 0 ≤ (1 - M.u) ^ k := fun k => (pow_pos M.one_sub_pos k).le
  constructor
  · rw [pow_add]
    exact mul_le_mul hs.1 ht.1 (hp n) hs.pos.le
  · rw [pow_add]
    calc s * t * ((1 - M.u) ^ m * (1 - M.u) ^ n)
        = (s * (1 - M.u) ^ m) * (t * (1 - M.u) ^ n) := by ring
      _ ≤ 1 := mul_le_one₀ hs.2 (mul_nonneg ht.pos.le (hp n)) ht.2

theorem Fac.inv {n : ℕ} {t : ℝ} (ht : M.Fac n t) : M.Fac n t⁻¹ := by
  have h0 := ht.pos
  constructor
  · rw [← one_div, le_div_iff₀ h0, mul_comm]
    exact ht.2
  · rw [inv_mul_le_iff₀ h0, mul_one]
    exact ht.1

theorem Fac.div {m n : ℕ} {s t : ℝ} (hs : M.Fac m s) (ht : M.Fac n t) : M.Fac (m + n) (s / t) := by
  rw [div_eq_mul_inv]
  exact hs.mul ht.inv

theorem Fac.mono {m n : ℕ} {t : ℝ} (ht : M.Fac n t) (h : n ≤ m) : M.Fac m t := by
  have hp : (1 - M.u) ^ m ≤ (1 - M.u) ^ n :=
    pow_le_pow_of_le_one M.one_sub_pos.le M.one_sub_le_one h
  exact ⟨hp.trans ht.1, (mul_le_mul_of_nonneg_left hp ht.pos.le).trans ht.2⟩

theorem Fac.pow {n : ℕ} {t : ℝ} (ht : M.Fac n t) (k : ℕ) : M.Fac (n * k) (t ^ k) := by
  induction k with
  | zero => simpa using fac_zero_one
  | succ k ih => rw [pow_succ, Nat.mul_succ]; exact ih.mul ht

/-- one rounding: `1 + δ` with `|δ| ≤ u` -/
theorem fac_one_add {δ : ℝ} (hδ : |δ| ≤ M.u) : M.Fac 1 (1 + δ) := by
  obtain ⟨h1, h2⟩ := abs_le.mp hδ
  have hu := M.hu
  constructor
  · rw [pow_one]; linarith
  · rw [pow_one]
    nlinarith [mul_nonneg (sub_nonneg.mpr h2) M.one_sub_pos.le, sq_nonneg M.u]

/-- Bernoulli: `1 − n·u ≤ (1−u)ⁿ` -/
theorem one_sub_mul_le_pow (n : ℕ) : 1 - n * M.u ≤ (1 - M.u) ^ n := by
  have := one_add_mul_le_pow (a := -M.u) (by linarith [M.hu.2]) n
  simpa [sub_eq_add_neg] using this

/-- **The counter bound**: an accumulated factor of `n` roundings is `1 + θ`, `|θ| ≤ γ_n`. -/
theorem Fac.abs_sub_one_le {n : ℕ} {t : ℝ} (ht : M.Fac n t) (hn : n * M.u < 1) :
    |t - 1| ≤ M.gamma n := by
  have hb := one_sub_mul_le_pow (M := M) n
  have hd : 0 < 1 - n * M.u := by linarith
  have hg := M.mul_u_le_gamma hn
  rw [abs_le]
  constructor
  · linarith [ht.1]
  · have h1 : t * (1 - n * M.u) ≤ 1 := (mul_le_mul_of_nonneg_left hb ht.pos.le).trans ht.2
    unfold gamma
    rw [le_div_iff₀ hd]
    nlinarith

/-- the same, as an existential `t = 1 + θ` -/
theorem Fac.exists_theta {n : ℕ} {t : ℝ} (ht : M.Fac n t) (hn : n * M.u < 1) :
    ∃ θ, |θ| ≤ M.gamma n ∧ t = 1 + θ :=
  ⟨t - 1, ht.abs_sub_one_le hn, by ring⟩

/-- **Higham, Lemma 3.1**, literally: if `|δᵢ| ≤ u` and `ρᵢ = ±1` for `i = 1..n` and `n·u < 1`
then `∏ (1+δᵢ)^ρᵢ = 1 + θ_n` with `|θ_n| ≤ γ_n`.  (`p.2 = true` stands for `ρ = +1`.) -/
theorem higham_lemma_3_1 (l : List (ℝ × Bool)) (hl : ∀ p ∈ l, |p.1| ≤ M.u)
    (hn : l.length * M.u < 1) :
    ∃ θ, |θ| ≤ M.gamma l.length ∧
      (l.map fun p => if p.2 then 1 + p.1 else (1 + p.1)⁻¹).prod = 1 + θ := by
  have key : M.Fac l.length (l.map fun p => if p.2 then 1 + p.1 else (1 + p.1)⁻¹).prod := by
    clear hn
    induction l with
    | nil => simpa using fac_zero_one
    | cons p l ih =>
      have hp : M.Fac 1 (if p.2 then 1 + p.1 else (1 + p.1)⁻¹) := by
        have h1 := fac_one_add (hl p (List.mem_cons_self ..))
        split
        · exact h1
        · exact h1.inv
      have := hp.mul (ih fun q hq => hl q (List.mem_cons_of_mem _ hq))
      rw [List.map_cons, List.prod_cons, List.length_cons, Nat.add_comm]
      exact this
  exact key.exists_theta hn

variable (M)

/-- the rounding function in counter form -/
theorem rnd_fac (x : ℝ) : ∃ t, M.Fac 1 t ∧ M.rnd x = x * t := by
  obtain ⟨δ, hδ, h⟩ := M.hrnd x
  exact ⟨1 + δ, fac_one_add hδ, h⟩

@[simp] theorem rnd_zero : M.rnd 0 = 0 := by
  obtain ⟨δ, _, h⟩ := M.hrnd 0
  rw [h, zero_mul]

/-- a single rounding in the classical form `|rnd x − x| ≤ u·|x|` -/
theorem abs_rnd_sub_le (x : ℝ) : |M.rnd x - x| ≤ M.u * |x| := by
  obtain ⟨δ, hδ, h⟩ := M.hrnd x
  rw [h, show x * (1 + δ) - x = δ * x by ring, abs_mul]
  exact mul_le_mul_of_nonneg_right hδ (abs_nonneg x)

end FlModel

/-! ### the rounding scalar type -/

/-- A real number seen as a floating-point value of the model `M`: every arithmetic operation is
the exact operation followed by `M.rnd`; comparisons are exact. -/
structure Fl (M : FlModel) where
  val : ℝ

namespace Fl
variable {M : FlModel}

@[ext] theorem ext' {a b : Fl M} (h : a.val = b.val) : a = b := by
  cases a; cases b; cases h; rfl

noncomputable instance : Add (Fl M) := ⟨fun a b => ⟨M.rnd (a.val + b.val)⟩⟩
noncomputable instance : Sub (Fl M) := ⟨fun a b => ⟨M.rnd (a.val - b.val)⟩⟩
noncomputable instance : Mul (Fl M) := ⟨fun a b => ⟨M.rnd (a.val * b.val)⟩⟩
noncomputable instance : Div (Fl M) := ⟨fun a b => ⟨M.rnd (a.val / b.val)⟩⟩
noncomputable instance : Neg (Fl M) := ⟨fun a => ⟨M.rnd (-a.val)⟩⟩
instance : OfNat (Fl M) 0 := ⟨⟨0⟩⟩
instance : OfNat (Fl M) 1 := ⟨⟨1⟩⟩
instance : Inhabited (Fl M) := ⟨⟨0⟩⟩
/-- `n as f64`: the nearest representable value (exact below `2⁵³`) -/
noncomputable instance : NatCast (Fl M) := ⟨fun n => ⟨M.rnd n⟩⟩
instance : LT (Fl M) := ⟨fun a b => a.val < b.val⟩
noncomputable instance : DecidableRel (α := Fl M) (· < ·) := fun _ _ => Classical.propDecidable _

@[simp] theorem add_val (a b : Fl M) : (a + b).val = M.rnd (a.val + b.val) := rfl
@[simp] theorem sub_val (a b : Fl M) : (a - b).val = M.rnd (a.val - b.val) := rfl
@[simp] theorem mul_val (a b : Fl M) : (a * b).val = M.rnd (a.val * b.val) := rfl
@[simp] theorem div_val (a b : Fl M) : (a / b).val = M.rnd (a.val / b.val) := rfl
@[simp] theorem neg_val (a : Fl M) : (-a).val = M.rnd (-a.val) := rfl
@[simp] theorem zero_val : (0 : Fl M).val = 0 := rfl
@[simp] theorem one_val : (1 : Fl M).val = 1 := rfl
@[simp] theorem default_val : (default : Fl M).val = 0 := rfl
@[simp] theorem natCast_val (n : ℕ) : ((n : Fl M)).val = M.rnd n := rfl
theorem lt_iff (a b : Fl M) : a < b ↔ a.val < b.val := Iff.rfl
@[simp] theorem mk_val (x : ℝ) : (Fl.mk x : Fl M).val = x := rfl

/-- `-0.0`, the start value of `Iterator::sum`, is `0` -/
@[simp] theorem neg_zero_val : (-(0 : Fl M)).val = 0 := by simp

theorem add_fac (a b : Fl M) : ∃ t, M.Fac 1 t ∧ (a + b).val = (a.val + b.val) * t := M.rnd_fac _
theorem sub_fac (a b : Fl M) : ∃ t, M.Fac 1 t ∧ (a - b).val = (a.val - b.val) * t := M.rnd_fac _
theorem mul_fac (a b : Fl M) : ∃ t, M.Fac 1 t ∧ (a * b).val = (a.val * b.val) * t := M.rnd_fac _
theorem div_fac (a b : Fl M) : ∃ t, M.Fac 1 t ∧ (a / b).val = (a.val / b.val) * t := M.rnd_fac _
theorem natCast_fac (n : ℕ) : ∃ t, M.Fac 1 t ∧ ((n : Fl M)).val = (n : ℝ) * t := M.rnd_fac _

end Fl

/-! ### lists as position-indexed sums -/

/-- a mapped list sum as a sum over positions -/
theorem sum_map_eq_sum_range {α : Type} (xs : List α) (g : α → ℝ) (d : α) :
    (xs.map g).sum = ∑ i ∈ range xs.length, g (xs.getD i d) := by
  induction xs with
  | nil => simp
  | cons x xs ih =>
    rw [List.map_cons, List.sum_cons, List.length_cons, Finset.sum_range_succ', ih]
    simp only [List.getD_cons_succ, List.getD_cons_zero]
    ring

theorem getD_map_of_lt {α β : Type} (xs : List α) (g : α → β) (d : α) (d' : β) {i : ℕ}
    (h : i < xs.length) : (xs.map g).getD i d' = g (xs.getD i d) := by
  simp [List.getD_eq_getElem?_getD, h]

/-! ### from componentwise weights to a forward bound -/

/-- If every weight `t k` is an accumulated factor of at most `m` roundings and `m·u < 1`, the
weighted sum differs from the plain sum by at most `γ_m · Σ|e k|`. -/
theorem weighted_sum_bound {M : FlModel} (n m : ℕ) (e t : ℕ → ℝ)
    (ht : ∀ k, k < n → M.Fac m (t k)) (hm : m * M.u < 1) :
    |∑ k ∈ range n, e k * t k - ∑ k ∈ range n, e k| ≤ M.gamma m * ∑ k ∈ range n, |e k| := by
  rw [← Finset.sum_sub_distrib, Finset.mul_sum]
  refine (Finset.abs_sum_le_sum_abs _ _).trans (Finset.sum_le_sum fun k hk => ?_)
  rw [show e k * t k - e k = (t k - 1) * e k by ring, abs_mul]
  exact mul_le_mul_of_nonneg_right ((ht k (by simpa using hk)).abs_sub_one_le hm) (abs_nonneg _)

/-- weights `t k` rewritten as `1 + θ k` with `|θ k| ≤ γ_m` (for all `k`, by patching the
irrelevant indices with `0`) -/
theorem weights_to_theta {M : FlModel} (n m : ℕ) (t : ℕ → ℝ)
    (ht : ∀ k, k < n → M.Fac m (t k)) (hm : m * M.u < 1) :
    ∃ θ : ℕ → ℝ, (∀ k, |θ k| ≤ M.gamma m) ∧ ∀ k, k < n → t k = 1 + θ k := by
  refine ⟨fun k => if k < n then t k - 1 else 0, fun k => ?_, fun k hk => ?_⟩
  · by_cases hk : k < n
    · simp only [hk, if_true]; exact (ht k hk).abs_sub_one_le hm
    · simp only [hk, if_false, abs_zero]; exact M.gamma_nonneg hm
  · simp only [hk, if_true]; ring

/-! ### recursive summation -/

section sum
variable {M : FlModel}

/-- Left-to-right accumulation `acc += y` over a list, from `init`: the computed value is
`init·t₀ + Σ yᵢ·tᵢ` where `t₀` carries `n` roundings and the weight of the `i`-th summand carries the
`n − i` additions it takes part in. -/
theorem foldl_add_rounding (ys : List (Fl M)) (init : Fl M) :
    ∃ t0 : ℝ, ∃ t : ℕ → ℝ, M.Fac ys.length t0 ∧ (∀ i, i < ys.length → M.Fac (ys.length - i) (t i)) ∧
      (ys.foldl (fun acc y => acc + y) init).val
        = init.val * t0 + ∑ i ∈ range ys.length, (ys.getD i 0).val * t i := by
  induction ys generalizing init with
  | nil => exact ⟨1, fun _ => 1, FlModel.fac_zero_one, fun i hi => by simp at hi, by simp⟩
  | cons y ys ih =>
    obtain ⟨d, hd, hadd⟩ := Fl.add_fac init y
    obtain ⟨t0, t, ht0, ht, hval⟩ := ih (init + y)
    refine ⟨d * t0, fun i => match i with | 0 => d * t0 | i + 1 => t i, ?_, ?_, ?_⟩
    · rw [List.length_cons, Nat.add_comm]; exact hd.mul ht0
    · intro i hi
      cases i with
      | zero => simp only [List.length_cons, Nat.sub_zero]; rw [Nat.add_comm]; exact hd.mul ht0
      | succ i =>
        simp only [List.length_cons, Nat.add_sub_add_right]
        exact ht i (by simpa using hi)
    · rw [List.foldl_cons, hval, hadd, List.length_cons, Finset.sum_range_succ']
      simp only [List.getD_cons_succ, List.getD_cons_zero]
      ring

/-- the list fold of `sumFrom` -/
theorem sumFrom_eq_foldl_map {S : Type} [Add S] (init : S) (lo hi : Nat) (f : Nat → S) :
    sumFrom init lo hi f = ((List.range' lo (hi - lo)).map f).foldl (fun acc y => acc + y) init := by
  unfold sumFrom
  rw [List.foldl_map]

/-- `sumFrom init lo hi f` at `Fl M`, componentwise backward form -/
theorem sumFrom_rounding_general (init : Fl M) (lo hi : ℕ) (f : ℕ → Fl M) :
    ∃ t0 : ℝ, ∃ t : ℕ → ℝ, M.Fac (hi - lo) t0 ∧ (∀ k, k < hi - lo → M.Fac (hi - lo - k) (t k)) ∧
      (sumFrom init lo hi f).val
        = init.val * t0 + ∑ k ∈ range (hi - lo), (f (lo + k)).val * t k := by
  obtain ⟨t0, t, ht0, ht, hval⟩ := foldl_add_rounding ((List.range' lo (hi - lo)).map f) init
  simp only [List.length_map, List.length_range'] at ht0 ht hval
  refine ⟨t0, t, ht0, ht, ?_⟩
  rw [sumFrom_eq_foldl_map, hval]
  congr 1
  apply Finset.sum_congr rfl
  intro k hk
  have hk' : k < hi - lo := by simpa using hk
  congr 2
  simp [List.getD_eq_getElem?_getD, hk']

/-- **(A), weights form.**  `sumFrom 0 0 n f` run at `Fl M` returns `Σ f k · t k` where `t k` is a
product of the `n − k` rounding factors of the additions the `k`-th term takes part in (the model
starts from `0`, so the first term is charged one addition too). -/
theorem sumFrom_rounding_weights (n : ℕ) (f : ℕ → Fl M) :
    ∃ t : ℕ → ℝ, (∀ k, k < n → M.Fac (n - k) (t k)) ∧
      (sumFrom 0 0 n f).val = ∑ k ∈ range n, (f k).val * t k := by
  obtain ⟨t0, t, _, ht, hval⟩ := sumFrom_rounding_general (0 : Fl M) 0 n f
  refine ⟨t, by simpa using ht, ?_⟩
  rw [hval]
  simp

/-- **(A), backward form.**  If `n·u < 1`, recursive summation of `n` terms computes the exact sum
of perturbed terms `f k · (1 + θ k)` with `|θ k| ≤ γ_n` (Higham (4.2)). -/
theorem sumFrom_rounding (n : ℕ) (f : ℕ → Fl M) (hn : n * M.u < 1) :
    ∃ θ : ℕ → ℝ, (∀ k, |θ k| ≤ M.gamma n) ∧
      (sumFrom 0 0 n f).val = ∑ k ∈ range n, (f k).val * (1 + θ k) := by
  obtain ⟨t, ht, hval⟩ := sumFrom_rounding_weights n f
  obtain ⟨θ, hθ, hte⟩ :=
    weights_to_theta n n t (fun k hk => (ht k hk).mono (Nat.sub_le n k)) hn
  refine ⟨θ, hθ, ?_⟩
  rw [hval]
  exact Finset.sum_congr rfl fun k hk => by rw [hte k (by simpa using hk)]

/-- **(A), forward form.**  `|computed − Σ f k| ≤ γ_n · Σ |f k|` (Higham (4.4)). -/
theorem sumFrom_rounding_abs (n : ℕ) (f : ℕ → Fl M) (hn : n * M.u < 1) :
    |(sumFrom 0 0 n f).val - ∑ k ∈ range n, (f k).val| ≤ M.gamma n * ∑ k ∈ range n, |(f k).val| := by
  obtain ⟨t, ht, hval⟩ := sumFrom_rounding_weights n f
  rw [hval]
  exact weighted_sum_bound n n _ t (fun k hk => (ht k hk).mono (Nat.sub_le n k)) hn

/-- non-vacuity of (A): in the model `rnd t = t·(1 + 1/8)` (`u = 1/4`, `2·u < 1`) the computed sum
of `1, 1` is `((0+1)·r + 1)·r ≠ 2` — the theorems above are not statements about exact
arithmetic -/
example : ∃ (M : FlModel) (f : ℕ → Fl M), 0 < M.u ∧ ((2 : ℕ) : ℝ) * M.u < 1 ∧
    (sumFrom 0 0 2 f).val ≠ ∑ k ∈ range 2, (f k).val := by
  have h4 : (0 : ℝ) ≤ 1 / 4 ∧ (1 / 4 : ℝ) < 1 := by norm_num
  refine ⟨FlModel.skew (1 / 4) h4, fun _ => 1, by norm_num [FlModel.skew],
    by norm_num [FlModel.skew], ?_⟩
  norm_num [sumFrom, List.range', FlModel.skew, Finset.sum_range_succ]

/-- the other scalar-generic kernel functions elaborate at `Fl M` as well -/
noncomputable example (x : Fl M) : Fl M := sabs x
noncomputable example (A : Mat (Fl M)) : Mat (Fl M) := A.transpose

end sum

end SV
