import SV.Model.C13
import SV.Lemmas.C13
import SV.Props.C13
/-!
# C13 — laws of the power method: symmetry, tolerance, cap, first pass, normalisation

Statements about `SV.C13.power` / `powerCap` / `loop` for ALL inputs that a "robustness tweak"
(an early exit keyed on absolute sizes, a stop on the first pass, a result depending on the
tolerance or on the cap) would break:

* `power_transpose_symmetric` — a symmetric matrix and its transposed array give the same outcome;
* `power_tolerance_monotone` — a larger tolerance can only stop the loop earlier, never turn an
  `Ok` into an error (`powerCap_tolerance_same_or_earlier`: the result is identical or comes from a
  strictly earlier pass);
* `power_cap_monotone` — a larger cap never changes an outcome other than `NoConvergence`;
* `power_first_pass_never_stops` — an `Ok` comes from pass 2 or later, for every tolerance;
* `power_eigvec_normalised` — the `max()` of a returned vector is exactly 1.

The cap and first-pass laws use no algebraic law and no well-formedness hypothesis: they hold for
every scalar type with the operations of the model (so also for the `Float` instance).
-/
set_option linter.unusedSectionVars false

namespace SV.Props.C13Laws
open SV SV.C11 SV.C13

/-! ### any scalar type -/
section generic
variable {S : Type} [Inhabited S] [Add S] [Sub S] [Mul S] [Div S] [Neg S] [OfNat S 0] [OfNat S 1]
  [LT S] [DecidableRel (α := S) (· < ·)] [BEq S]

/-- A well-formed square array whose entries are symmetric **is** its own transposed array
(structurally: same shape, same buffer). -/
theorem transpose_eq_self_of_symmetric (A : Mat S) (hA : A.WF) (hsq : A.h = A.w)
    (hsym : ∀ i j, i < A.h → j < A.h → A.get i j = A.get j i) : A.transpose = A := by
  apply Mat.ext_get (Mat.transpose_WF A) hA
  · rw [Mat.transpose_h, hsq]
  · rw [Mat.transpose_w, hsq]
  · intro i j hi hj
    rw [Mat.transpose_h] at hi
    rw [Mat.transpose_w] at hj
    rw [Mat.get_transpose A hi hj]
    exact hsym j i hj (by omega)

/-- **Symmetric input: the transposed array gives the same outcome** (same eigenvalue, vector,
pass count, or the same error), for every cap and tolerance. -/
theorem powerCap_transpose_symmetric (cap : Nat) (A : Mat S) (es : S) (hA : A.WF)
    (hsq : A.h = A.w) (hsym : ∀ i j, i < A.h → j < A.h → A.get i j = A.get j i) :
    powerCap cap A.transpose es = powerCap cap A es := by
  rw [transpose_eq_self_of_symmetric A hA hsq hsym]

/-- the same for `power_method` itself (the cap of the source) -/
theorem power_transpose_symmetric (A : Mat S) (es : S) (hA : A.WF)
    (hsq : A.h = A.w) (hsym : ∀ i j, i < A.h → j < A.h → A.get i j = A.get j i) :
    power A.transpose es = power A es :=
  powerCap_transpose_symmetric _ A es hA hsq hsym

/-- one unfolding of the loop -/
private theorem loop_succ (A : Mat S) (es : S) (fuel done : Nat) (ev : Mat S) (lam : S) :
    loop A es (fuel + 1) done ev lam =
      match pass A ev lam with
      | none => .panic
      | some p =>
        if p.c == 0 then .err .noConvergence
        else if 0 < done ∧ ¬(p.next == 0) ∧ p.ea < es then
          match maxOf p.nv with
          | none => .panic
          | some largest => .ok (p.next, divS p.nv largest, done + 1)
        else loop A es fuel (done + 1) p.nv p.next := rfl

/-- A returned pass count lies strictly after the passes already done and within the fuel — with
no hypothesis on the shapes. -/
theorem loop_passes_bounds (A : Mat S) (es : S) : ∀ fuel done (ev : Mat S) (lam l : S) (v : Mat S)
    (n : Nat), loop A es fuel done ev lam = .ok (l, v, n) → done < n ∧ n ≤ done + fuel := by
  intro fuel
  induction fuel with
  | zero => intro done ev lam l v n h; cases h
  | succ fuel ih =>
    intro done ev lam l v n h
    rw [loop_succ] at h
    cases hp : pass A ev lam with
    | none => rw [hp] at h; cases h
    | some p =>
      rw [hp] at h
      simp only at h
      by_cases hz : (p.c == 0) = true
      · rw [if_pos hz] at h; cases h
      rw [if_neg hz] at h
      by_cases hstop : 0 < done ∧ ¬(p.next == 0) = true ∧ p.ea < es
      · rw [if_pos hstop] at h
        cases hm : maxOf p.nv with
        | none => rw [hm] at h; cases h
        | some c =>
          rw [hm] at h
          cases h
          omega
      · rw [if_neg hstop] at h
        have := ih (done + 1) p.nv p.next l v n h
        omega

/-- **The first pass never stops the loop**: started with no finished pass, an `Ok` comes from
pass 2 or later — whatever the tolerance (however huge), the matrix and the scalar type. -/
theorem loop_first_pass_never_stops (A : Mat S) (es : S) (fuel : Nat) (ev : Mat S) (lam l : S)
    (v : Mat S) (n : Nat) (h : loop A es fuel 0 ev lam = .ok (l, v, n)) : 2 ≤ n ∧ n ≤ fuel := by
  cases fuel with
  | zero => cases h
  | succ fuel =>
    rw [loop_succ] at h
    cases hp : pass A ev lam with
    | none => rw [hp] at h; cases h
    | some p =>
      rw [hp] at h
      simp only at h
      by_cases hz : (p.c == 0) = true
      · rw [if_pos hz] at h; cases h
      rw [if_neg hz, if_neg (fun hs => absurd hs.1 (Nat.lt_irrefl 0))] at h
      have := loop_passes_bounds A es fuel 1 p.nv p.next l v n h
      omega

/-- **`power_method` never returns from its first pass**: an `Ok (λ, v)` after `p` passes has
`2 ≤ p ≤ cap`, for every matrix (no well-formedness needed), every tolerance and every cap. -/
theorem powerCap_first_pass_never_stops (cap : Nat) (A : Mat S) (es lam : S) (v : Mat S) (p : Nat)
    (h : powerCap cap A es = .ok (lam, v, p)) : 2 ≤ p ∧ p ≤ cap := by
  unfold powerCap at h
  by_cases hb : A.h ≠ A.w ∨ A.h = 0 ∨ A.w = 0
  · rw [if_pos hb] at h; cases h
  rw [if_neg hb] at h
  simp only at h
  cases hn : normaliser (mulOp A (ones A.h)) with
  | none => rw [hn] at h; cases h
  | some lam0 =>
    rw [hn] at h
    simp only at h
    by_cases hz : (lam0 == 0) = true
    · rw [if_pos hz] at h; cases h
    rw [if_neg hz] at h
    exact loop_first_pass_never_stops A es cap _ lam0 lam v p h

/-- the same for `power_method` itself -/
theorem power_first_pass_never_stops (A : Mat S) (es lam : S) (v : Mat S) (p : Nat)
    (h : power A es = .ok (lam, v, p)) : 2 ≤ p ∧ p ≤ SV.Gen.powerMethodCap :=
  powerCap_first_pass_never_stops _ A es lam v p h

/-- **More fuel changes nothing but `NoConvergence`**: whenever the loop ends with anything other
than `Err(NoConvergence)`, it ends with the same outcome on every larger fuel. -/
theorem loop_fuel_mono (A : Mat S) (es : S) (k : Nat) : ∀ fuel done (ev : Mat S) (lam : S),
    loop A es fuel done ev lam ≠ .err .noConvergence →
      loop A es (fuel + k) done ev lam = loop A es fuel done ev lam := by
  intro fuel
  induction fuel with
  | zero => intro done ev lam h; exact absurd rfl h
  | succ fuel ih =>
    intro done ev lam h
    rw [show fuel + 1 + k = (fuel + k) + 1 by omega, loop_succ A es (fuel + k), loop_succ A es fuel]
    rw [loop_succ] at h
    cases hp : pass A ev lam with
    | none => rfl
    | some p =>
      rw [hp] at h
      simp only at h ⊢
      by_cases hz : (p.c == 0) = true
      · rw [if_pos hz, if_pos hz]
      rw [if_neg hz] at h
      rw [if_neg hz, if_neg hz]
      by_cases hstop : 0 < done ∧ ¬(p.next == 0) = true ∧ p.ea < es
      · rw [if_pos hstop, if_pos hstop]
      · rw [if_neg hstop] at h
        rw [if_neg hstop, if_neg hstop]
        exact ih (done + 1) p.nv p.next h

/-- **The cap only matters for `NoConvergence`**: an outcome of `power_method` other than
`Err(NoConvergence)` — an `Ok`, `NonSquareMatrix` — is the outcome for every larger cap. -/
theorem powerCap_cap_mono (cap cap' : Nat) (hc : cap ≤ cap') (A : Mat S) (es : S)
    (h : powerCap cap A es ≠ .err .noConvergence) : powerCap cap' A es = powerCap cap A es := by
  obtain ⟨k, rfl⟩ := Nat.exists_eq_add_of_le hc
  unfold powerCap at h ⊢
  by_cases hb : A.h ≠ A.w ∨ A.h = 0 ∨ A.w = 0
  · rw [if_pos hb, if_pos hb]
  rw [if_neg hb] at h
  rw [if_neg hb, if_neg hb]
  simp only at h ⊢
  cases hn : normaliser (mulOp A (ones A.h)) with
  | none => rfl
  | some lam0 =>
    rw [hn] at h
    simp only at h ⊢
    by_cases hz : (lam0 == 0) = true
    · rw [if_pos hz, if_pos hz]
    rw [if_neg hz] at h
    rw [if_neg hz, if_neg hz]
    exact loop_fuel_mono A es k cap 0 _ lam0 h

/-- **A successful result does not depend on the cap**: if the call returns `Ok r` with cap `cap`
it returns the same `Ok r` (eigenvalue, vector, pass count) with every larger cap. -/
theorem power_cap_monotone (cap cap' : Nat) (hc : cap ≤ cap') (A : Mat S) (es : S)
    (r : S × Mat S × Nat) (h : powerCap cap A es = .ok r) : powerCap cap' A es = .ok r := by
  rw [powerCap_cap_mono cap cap' hc A es (by rw [h]; intro e; cases e), h]

/-- **`NoConvergence` is inherited by smaller caps**: if the call runs out of passes (or meets a
zero normaliser) with cap `cap'`, it gives `Err(NoConvergence)` with every smaller cap too. -/
theorem power_cap_noConvergence_antitone (cap cap' : Nat) (hc : cap ≤ cap') (A : Mat S) (es : S)
    (h : powerCap cap' A es = .err .noConvergence) : powerCap cap A es = .err .noConvergence := by
  by_contra hne
  rw [powerCap_cap_mono cap cap' hc A es hne] at h
  exact hne h

/-- a successful pass leaves a vector whose `max()` exists (no `unwrap` panic in the final
renormalisation) — with no hypothesis on the shapes -/
private theorem pass_maxOf_some (A ev : Mat S) (lam : S) (p : Pass S)
    (hp : pass A ev lam = some p) : ∃ c, maxOf p.nv = some c := by
  obtain ⟨hc, hnv, _, _⟩ := pass_spec A ev lam p hp
  have hshape : ¬((mulOp A ev).h = 0 ∨ (mulOp A ev).w = 0) := by
    intro hb
    unfold normaliser maxOf at hc
    rw [if_pos hb] at hc
    cases hc
  rw [hnv]
  have hh : 0 < (divS (mulOp A ev) p.c).h := by
    show 0 < (mulOp A ev).h
    omega
  have hw : 0 < (divS (mulOp A ev) p.c).w := by
    show 0 < (mulOp A ev).w
    omega
  exact maxOf_some _ (Mat.tab_WF _ _ _) hh hw

end generic

/-! ### linearly ordered fields -/
section field
variable {K : Type} [Field K] [LinearOrder K] [IsStrictOrderedRing K] [Inhabited K]

/-- **A larger tolerance can only stop the loop earlier.**  If the loop returns `Ok` after `n`
passes with tolerance `es`, then with every `es' ≥ es` it returns `Ok` too, after `n' ≤ n` passes
(the test `ea < es` can only fire earlier; nothing else looks at the tolerance). -/
theorem loop_tolerance_monotone (A : Mat K) (es es' : K) (hes : es ≤ es') :
    ∀ fuel done (ev : Mat K) (lam l : K) (v : Mat K) (n : Nat),
      loop A es fuel done ev lam = .ok (l, v, n) →
        ∃ l' v' n', loop A es' fuel done ev lam = .ok (l', v', n') ∧ n' ≤ n := by
  intro fuel
  induction fuel with
  | zero => intro done ev lam l v n h; cases h
  | succ fuel ih =>
    intro done ev lam l v n h
    have hb := loop_passes_bounds A es (fuel + 1) done ev lam l v n h
    rw [loop_succ] at h ⊢
    cases hp : pass A ev lam with
    | none => rw [hp] at h; cases h
    | some p =>
      rw [hp] at h
      simp only at h ⊢
      by_cases hz : (p.c == 0) = true
      · rw [if_pos hz] at h; cases h
      rw [if_neg hz] at h
      rw [if_neg hz]
      obtain ⟨c, hc⟩ := pass_maxOf_some A ev lam p hp
      by_cases hstop' : 0 < done ∧ ¬(p.next == 0) = true ∧ p.ea < es'
      · rw [if_pos hstop']
        simp only [hc]
        exact ⟨_, _, _, rfl, by omega⟩
      · have hstop : ¬(0 < done ∧ ¬(p.next == 0) = true ∧ p.ea < es) := fun hs =>
          hstop' ⟨hs.1, hs.2.1, lt_of_lt_of_le hs.2.2 hes⟩
        rw [if_neg hstop] at h
        rw [if_neg hstop']
        exact ih (done + 1) p.nv p.next l v n h

/-- **Tolerance monotonicity of `power_method`**: if the call returns `Ok` after `n` passes with
tolerance `es`, then with every larger tolerance `es' ≥ es` it returns `Ok` as well, after at most
`n` passes — for every matrix and every cap.  (So a larger tolerance never produces an error where
a smaller one succeeded.) -/
theorem powerCap_tolerance_monotone (cap : Nat) (A : Mat K) (es es' : K) (hes : es ≤ es')
    (lam : K) (v : Mat K) (n : Nat) (h : powerCap cap A es = .ok (lam, v, n)) :
    ∃ lam' v' n', powerCap cap A es' = .ok (lam', v', n') ∧ n' ≤ n := by
  unfold powerCap at h ⊢
  by_cases hb : A.h ≠ A.w ∨ A.h = 0 ∨ A.w = 0
  · rw [if_pos hb] at h; cases h
  rw [if_neg hb] at h
  rw [if_neg hb]
  simp only at h ⊢
  cases hn : normaliser (mulOp A (ones A.h)) with
  | none => rw [hn] at h; cases h
  | some lam0 =>
    rw [hn] at h
    simp only at h ⊢
    by_cases hz : (lam0 == 0) = true
    · rw [if_pos hz] at h; cases h
    rw [if_neg hz] at h
    rw [if_neg hz]
    exact loop_tolerance_monotone A es es' hes cap 0 _ lam0 lam v n h

/-- the same for `power_method` itself -/
theorem power_tolerance_monotone (A : Mat K) (es es' : K) (hes : es ≤ es')
    (lam : K) (v : Mat K) (n : Nat) (h : power A es = .ok (lam, v, n)) :
    ∃ lam' v' n', power A es' = .ok (lam', v', n') ∧ n' ≤ n :=
  powerCap_tolerance_monotone _ A es es' hes lam v n h

/-- **A larger tolerance gives the same result or an earlier stop** (sharper form): with `es' ≥ es`
the loop returns either exactly the same `Ok (λ, v, n)` or an `Ok` from a strictly earlier pass —
the tolerance influences the result only through *which pass* stops, never through the values
computed in a pass. -/
theorem loop_tolerance_same_or_earlier (A : Mat K) (es es' : K) (hes : es ≤ es') :
    ∀ fuel done (ev : Mat K) (lam l : K) (v : Mat K) (n : Nat),
      loop A es fuel done ev lam = .ok (l, v, n) →
        loop A es' fuel done ev lam = .ok (l, v, n) ∨
          ∃ l' v' n', loop A es' fuel done ev lam = .ok (l', v', n') ∧ n' < n := by
  intro fuel
  induction fuel with
  | zero => intro done ev lam l v n h; cases h
  | succ fuel ih =>
    intro done ev lam l v n h
    rw [loop_succ] at h ⊢
    cases hp : pass A ev lam with
    | none => rw [hp] at h; cases h
    | some p =>
      rw [hp] at h
      simp only at h ⊢
      by_cases hz : (p.c == 0) = true
      · rw [if_pos hz] at h; cases h
      rw [if_neg hz] at h
      rw [if_neg hz]
      obtain ⟨c, hc⟩ := pass_maxOf_some A ev lam p hp
      by_cases hstop' : 0 < done ∧ ¬(p.next == 0) = true ∧ p.ea < es'
      · rw [if_pos hstop']
        simp only [hc]
        by_cases hstop : 0 < done ∧ ¬(p.next == 0) = true ∧ p.ea < es
        · rw [if_pos hstop] at h
          simp only [hc] at h
          left; exact h
        · rw [if_neg hstop] at h
          have := loop_passes_bounds A es fuel (done + 1) p.nv p.next l v n h
          right
          exact ⟨_, _, _, rfl, by omega⟩
      · have hstop : ¬(0 < done ∧ ¬(p.next == 0) = true ∧ p.ea < es) := fun hs =>
          hstop' ⟨hs.1, hs.2.1, lt_of_lt_of_le hs.2.2 hes⟩
        rw [if_neg hstop] at h
        rw [if_neg hstop']
        exact ih (done + 1) p.nv p.next l v n h

/-- the same for `power_method` with any cap: a larger tolerance gives the identical `Ok` or an
`Ok` from a strictly earlier pass -/
theorem powerCap_tolerance_same_or_earlier (cap : Nat) (A : Mat K) (es es' : K) (hes : es ≤ es')
    (lam : K) (v : Mat K) (n : Nat) (h : powerCap cap A es = .ok (lam, v, n)) :
    powerCap cap A es' = .ok (lam, v, n) ∨
      ∃ lam' v' n', powerCap cap A es' = .ok (lam', v', n') ∧ n' < n := by
  unfold powerCap at h ⊢
  by_cases hb : A.h ≠ A.w ∨ A.h = 0 ∨ A.w = 0
  · rw [if_pos hb] at h; cases h
  rw [if_neg hb] at h
  rw [if_neg hb]
  simp only at h ⊢
  cases hn : normaliser (mulOp A (ones A.h)) with
  | none => rw [hn] at h; cases h
  | some lam0 =>
    rw [hn] at h
    simp only at h ⊢
    by_cases hz : (lam0 == 0) = true
    · rw [if_pos hz] at h; cases h
    rw [if_neg hz] at h
    rw [if_neg hz]
    exact loop_tolerance_same_or_earlier A es es' hes cap 0 _ lam0 lam v n h

/-- **The returned vector is normalised**: whenever the call returns `Ok (λ, v)`, the code's own
`v.max()` is `Some(1)` exactly (not merely "some entry is 1"): the largest entry is exactly 1. -/
theorem power_eigvec_normalised (cap : Nat) (A : Mat K) (es lam : K) (v : Mat K) (p : Nat)
    (hA : A.WF) (h : powerCap cap A es = .ok (lam, v, p)) : maxOf v = some 1 := by
  obtain ⟨_, _, _, _, _, _, _, x, w, cw, _, _, _, hw, _, _, hmax, hv⟩ :=
    SV.Props.C13.power_result_shape cap A es lam v p hA h
  have hwf : w.WF := by rw [hw]; exact Mat.tab_WF _ _ _
  have hww : divS w 1 = w := by
    apply Mat.ext_get (Mat.tab_WF _ _ _) hwf rfl rfl
    intro i j hi hj
    exact (Mat.get_tab _ hi hj).trans (div_one _)
  rw [hv, hww, hmax]

end field

/-! ### non-vacuity (evaluated by the kernel over `ℚ`) -/

/-- a symmetric 2×2 matrix: hypotheses of `power_transpose_symmetric` hold and the call is `Ok` -/
example : (match powerCap 50 (⟨2, 2, #[2, 1, 1, 2]⟩ : Mat Rat).transpose (1 / 10) with
    | .ok (lam, _, p) => lam == 3 && p == 2 | _ => false) = true := by decide +kernel

/-- the hypotheses of `power_transpose_symmetric` are satisfiable: an instance of the theorem -/
example : power (⟨2, 2, #[2, 1, 1, 2]⟩ : Mat Rat).transpose (1 / 10)
    = power (⟨2, 2, #[2, 1, 1, 2]⟩ : Mat Rat) (1 / 10) :=
  power_transpose_symmetric _ _ (show (#[2, 1, 1, 2] : Array Rat).size = 2 * 2 from rfl) rfl (by
    intro i j hi hj
    have hi' : i < 2 := hi
    have hj' : j < 2 := hj
    obtain rfl | rfl : i = 0 ∨ i = 1 := by omega
    all_goals (obtain rfl | rfl : j = 0 ∨ j = 1 := by omega)
    all_goals decide +kernel)

/-- tolerance: `Ok` at pass 3 with a small tolerance, at pass 2 with a larger one -/
example : (match powerCap 50 (⟨2, 2, #[2, 0, 1, 1]⟩ : Mat Rat) (1 / 100),
      powerCap 50 (⟨2, 2, #[2, 0, 1, 1]⟩ : Mat Rat) 100 with
    | .ok (_, _, p), .ok (_, _, p') => decide (p' ≤ p) && p' == 2 | _, _ => false) = true := by
  decide +kernel

/-- cap: the same `Ok` with cap 5 and cap 50; a huge tolerance still does not stop at pass 1 -/
example : (match powerCap 5 (⟨1, 1, #[2]⟩ : Mat Rat) 1000000,
      powerCap 50 (⟨1, 1, #[2]⟩ : Mat Rat) 1000000 with
    | .ok (l, v, p), .ok (l', v', p') =>
      l == l' && v.a == v'.a && p == p' && p == 2 && maxOf v == some 1
    | _, _ => false) = true := by
  decide +kernel

end SV.Props.C13Laws
