import SV.Props.C01
/-!
# C16 (univariate parser) — total, and acceptance implies fidelity

Property theorems about the model `SV.C01.parse` of `parse_simple_polynomial`
(spindalis_core/src/polynomials/simple.rs) on **arbitrary** text:

* `simple_total`                 the parser returns a value or an error, and the vector it allocates has
                                 at most `max cap 1 + 1` entries (`cap` = MAX_POWER): the exponent
                                 guard that replaces the former capacity abort
* `simple_accepts_only_grammar`  whatever is accepted is, after removal of white space, *exactly* the
                                 rendering of a well-formed term list of the documented grammar — no
                                 character is dropped, nothing outside the grammar is accepted
* `simple_accepts_means`         … and (with `C01.parse_render`/`parse_means`) the returned polynomial is
                                 the meaning of that reading: variable, length, every coefficient, and
                                 the value at every point
* `simple_accepted_chars`, `simple_no_dangling_operator`   consequences named in the property: a text
                                 with `*`, `/`, parentheses, `#`, a second letter, a non-ASCII digit … is
                                 rejected, and so is a text that ends in `+`, `-` or `^`

The grammar (`TermSyn`, `render`, `WellFormed`) is the one of C01, defined in `SV.Lemmas.C01`.
The only accepted text without terms is the empty one (white space only), read as the zero
polynomial `[0]` — see `simple_accepts_empty`.
-/
namespace SV.Props.C16Simple
open SV SV.Poly SV.Text SV.C01

/-- **Totality with the allocation bound.**  On every character list the parser answers `error` or
`ok p`, and in the second case the dense vector has at most `max cap 1 + 1` entries (the model has no
other outcome: every Rust operation that could panic — slicing, `unwrap`, the `vec!` allocation — is
guarded, the last one by this bound). -/
theorem simple_total (cc : CharClass) (cap : Nat) (s : List Char) :
    (∃ e, parse cc cap s = .error e) ∨
      (∃ p, parse cc cap s = .ok p ∧ 1 ≤ p.coeffs.length ∧ p.coeffs.length ≤ max cap 1 + 1) := by
  rcases h : parse cc cap s with e | p
  · exact Or.inl ⟨e, rfl⟩
  · refine Or.inr ⟨p, rfl, ?_, parse_length_le h⟩
    unfold parse at h
    simp only at h
    split at h
    · simp at h
    · split at h
      · simp at h
      · simp only [Except.ok.injEq] at h
        subst h
        rw [dense_length]
        omega

/-- the bound for the constant in the source (`MAX_POWER = 1 << 16`, extracted into `SV.Gen`) -/
theorem simple_total_repo (cc : CharClass) (s : List Char) (p : SParsed)
    (h : parse cc SV.Gen.simpleMaxPower s = .ok p) :
    p.coeffs.length ≤ SV.Gen.simpleMaxPower + 1 := by
  have := parse_length_le h
  have h1 : max SV.Gen.simpleMaxPower 1 = SV.Gen.simpleMaxPower := by decide
  rwa [h1] at this

/-- **Nothing outside the grammar is accepted and no character is dropped.**  If the parser accepts
`s`, the white-space-free text is character for character the rendering of a well-formed term list
(the empty list only for the empty text), with a variable letter that is alphabetic whenever it is
written. -/
theorem simple_accepts_only_grammar {cc : CharClass} (hcc : cc.Sane) {cap : Nat} {s : List Char}
    {p : SParsed} (h : parse cc cap s = .ok p) :
    ∃ (v : Char) (lead : Bool) (ts : List TermSyn),
      WellFormed cap ts ∧ stripWs cc s = render v lead ts ∧
      (writesVar ts = true → cc.isAlpha v = true) ∧ (ts = [] ↔ stripWs cc s = []) := by
  obtain ⟨v, lead, ts, _, hva, hts, hs⟩ := parse_ok_inv hcc h
  refine ⟨v, lead, ts, hts, hs, hva, ?_⟩
  rw [hs]
  constructor
  · rintro rfl; rfl
  · intro hnil
    cases ts with
    | nil => rfl
    | cons t ts =>
      exfalso
      obtain ⟨init, c, h1, _⟩ := render_snoc (v := v) lead hts (by simp)
      rw [h1] at hnil
      simp at hnil

/-- **Acceptance implies fidelity.**  If the parser accepts `s` and returns `p`, there is a reading of
the text in the grammar (`stripWs cc s = render v lead ts`, `ts` well-formed) and `p` is the meaning
of that reading: the variable is the letter iff it is written, the vector has `max power + 1`
entries, position `k` is the sum of the signed coefficients of the terms of power `k`, and at every
point the polynomial takes the value `Σ_t value(t)·x^(pow t)`. -/
theorem simple_accepts_means {cc : CharClass} (hcc : cc.Sane) {cap : Nat} {s : List Char}
    {p : SParsed} (h : parse cc cap s = .ok p) :
    ∃ (v : Char) (lead : Bool) (ts : List TermSyn),
      WellFormed cap ts ∧ stripWs cc s = render v lead ts ∧
      p.var = (if writesVar ts then some v else none) ∧
      p.coeffs.length = maxPow ts + 1 ∧
      (∀ k, (p.coeffs.getD k Num.zero).val =
        ((ts.filter fun t => decide (t.pow = k)).map TermSyn.value).sum) ∧
      ∀ x : ℚ, evalSimple (p.coeffs.map Num.val) x = (ts.map fun t => t.value * x ^ t.pow).sum := by
  obtain ⟨v, lead, ts, hv, hva, hts, hs⟩ := parse_ok_inv hcc h
  obtain ⟨p', hp', hvar, hlen, hval⟩ := parse_render_spec hcc hv hts hva hs
  rw [h] at hp'
  simp only [Except.ok.injEq] at hp'
  subst hp'
  refine ⟨v, lead, ts, hts, hs, hvar, hlen, hval, fun x => ?_⟩
  rw [SV.Props.C01.eval_eq_sum]
  exact coeffs_sum hlen hval x

/-- Every character of an accepted text (white space aside) is an ASCII digit, one of `. ^ + -`, or
the returned variable: `*`, `/`, parentheses, `#`, non-ASCII digits, a second letter … make the parser
answer an error instead of being skipped. -/
theorem simple_accepted_chars {cc : CharClass} (hcc : cc.Sane) {cap : Nat} {s : List Char}
    {p : SParsed} (h : parse cc cap s = .ok p) :
    ∀ c ∈ stripWs cc s, isAsciiDigit c = true ∨ c = '.' ∨ c = '^' ∨ c = '+' ∨ c = '-' ∨
      p.var = some c := by
  obtain ⟨v, lead, ts, hv, hva, hts, hs⟩ := parse_ok_inv hcc h
  have hp := parse_render_eq hcc hv hts hva hs
  rw [h] at hp
  simp only [Except.ok.injEq] at hp
  intro c hc
  rw [hs] at hc
  rcases mem_render hts hc with rfl | rfl | hpl
  · exact Or.inr (Or.inr (Or.inr (Or.inl rfl)))
  · exact Or.inr (Or.inr (Or.inr (Or.inr (Or.inl rfl))))
  · rcases hpl with hd | rfl | rfl | rfl
    · exact Or.inl hd
    · exact Or.inr (Or.inl rfl)
    · exact Or.inr (Or.inr (Or.inl rfl))
    · have hw := writesVar_of_mem hv hts hc
      rw [hp, hw]
      simp

/-- A text that ends (white space aside) in `+`, `-` or `^` is never accepted: the last character of
an accepted non-empty text is a digit, `.` or the variable. -/
theorem simple_no_dangling_operator {cc : CharClass} (hcc : cc.Sane) {cap : Nat} {s : List Char}
    {p : SParsed} (h : parse cc cap s = .ok p) (c : Char)
    (hc : (stripWs cc s).getLast? = some c) : c ≠ '+' ∧ c ≠ '-' ∧ c ≠ '^' := by
  obtain ⟨v, lead, ts, hv, _, hts, hs⟩ := parse_ok_inv hcc h
  rw [hs] at hc
  cases ts with
  | nil => simp [render] at hc
  | cons t ts =>
    obtain ⟨init, c', h1, h2⟩ := render_snoc (v := v) lead hts (by simp)
    rw [h1] at hc
    simp only [List.getLast?_append, List.getLast?_singleton, Option.some_or,
      Option.some.injEq] at hc
    subst hc
    rcases h2 with h2 | rfl | rfl
    · exact ⟨digit_ne_plus h2, digit_ne_dash h2, digit_ne_caret h2⟩
    · decide
    · exact ⟨hv.2.2.1, hv.2.2.2.1, hv.2.2.2.2⟩

/-- The one accepted text without any term: nothing but white space, read as the zero polynomial
(`parts` is empty after the leading empty piece is dropped, so the term loop does not run and
`max_power` defaults to 0). -/
theorem simple_accepts_empty (cc : CharClass) (cap : Nat) {s : List Char} (hs : stripWs cc s = []) :
    parse cc cap s = .ok ⟨[Num.zero], none⟩ := by
  simp [parse, normalize, hs, dashToPlusDash, parts, splitOn, parseTerms, dense]

/-! ### non-vacuity: near-miss texts are rejected by the model, grammatical ones accepted -/

example : ∃ e, parse stdClass 65536 "2*x".toList = .error e := ⟨_, rfl⟩
example : ∃ e, parse stdClass 65536 "(x+1)".toList = .error e := ⟨_, rfl⟩
example : ∃ e, parse stdClass 65536 "x^2 - -4".toList = .error e := ⟨_, rfl⟩
example : ∃ e, parse stdClass 65536 "x^2 + +".toList = .error e := ⟨_, rfl⟩
example : ∃ e, parse stdClass 65536 "2x^".toList = .error e := ⟨_, rfl⟩
example : ∃ e, parse stdClass 65536 "2x^a".toList = .error e := ⟨_, rfl⟩
example : ∃ e, parse stdClass 65536 "2x3".toList = .error e := ⟨_, rfl⟩
example : ∃ e, parse stdClass 65536 "xy".toList = .error e := ⟨_, rfl⟩
example : ∃ e, parse stdClass 65536 "x + y".toList = .error e := ⟨_, rfl⟩
example : ∃ e, parse stdClass 65536 "3 + 2x#".toList = .error e := ⟨_, rfl⟩
example : ∃ e, parse stdClass 65536 "x^65537".toList = .error e := ⟨_, rfl⟩
example : ∃ e, parse stdClass 65536 "1e3x".toList = .error e := ⟨_, rfl⟩
example : ∃ p, parse stdClass 65536 "+ 3. - x^02".toList = .ok p ∧ p.var = some 'x' ∧
    p.coeffs.length = 3 := ⟨_, rfl, rfl, rfl⟩

end SV.Props.C16Simple
