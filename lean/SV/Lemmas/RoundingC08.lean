import SV.Model.Subst
import SV.Lemmas.Subst
import SV.Lemmas.Rounding
/-!
Helper lemmas for the rounding analysis of the substitution loops of `SV.Model.Subst`
(`back_substitution`, `forward_substitution`) at the rounding scalar `Fl M`: every processed row
satisfies its row equation **exactly** with relatively perturbed matrix entries
(`BackRowFl`, `FwdRowFl`: the weights form of Higham, *Accuracy and Stability*, Thm 8.5 / (8.2)).

Counting what the loops do in row `i` (`size = n`):

* `sum = 0.0; sum += a[i][j]*x[j]` — the term of column `j` takes one multiplication and every
  later addition, the model charging `0.0 + …` one rounding as well: `n − j + 1` roundings in the
  backward sweep (`j = i+1 … n−1`, left to right), `i − j + 1` in the forward sweep (`j = 0 … i−1`);
* `x[i] = (b[i] − sum) / a[i][i]` — one subtraction and one division: moved to the left-hand side
  they perturb the diagonal entry by two roundings (the right-hand side is not perturbed at all);
* the last row of the backward sweep is `x[n−1] = b[n−1]/a[n−1][n−1]`: one rounding.
-/
namespace SV.Subst
open SV Finset

section anyScalar
variable {S : Type} [Inhabited S] [Add S] [Sub S] [Mul S] [Div S] [OfNat S 0]

@[simp] theorem backStep_size' (U : Mat S) (n : Nat) (b sol : Array S) (i : Nat) :
    (backStep U n b sol i).size = sol.size := by
  simp [backStep]

theorem backStep_ne' (U : Mat S) (n : Nat) (b sol : Array S) {i j : Nat} (h : i ≠ j) :
    vget (backStep U n b sol i) j = vget sol j := by
  unfold backStep; exact vget_set_ne _ _ h

@[simp] theorem fwdStep_size' (L : Mat S) (b sol : Array S) (i : Nat) :
    (fwdStep L b sol i).size = sol.size := by
  simp [fwdStep]

theorem fwdStep_ne' (L : Mat S) (b sol : Array S) {i j : Nat} (h : i ≠ j) :
    vget (fwdStep L b sol i) j = vget sol j := by
  unfold fwdStep; exact vget_set_ne _ _ h

/-- `back_substitution` returns exactly when its precondition holds (any scalar type) -/
theorem backSubst_ok_iff' (U : Mat S) (n : Nat) (b sol x : Array S) :
    backSubst U n b sol = .ok x ↔
      (0 < n ∧ n ≤ U.h ∧ n ≤ U.w ∧ n ≤ b.size ∧ n ≤ sol.size) ∧ x = backCore U n b sol := by
  unfold backSubst
  by_cases h : n = 0 ∨ U.h < n ∨ U.w < n ∨ b.size < n ∨ sol.size < n
  · rw [if_pos h]
    constructor
    · intro h'; cases h'
    · rintro ⟨⟨h0, h1, h2, h3, h4⟩, _⟩
      omega
  · rw [if_neg h]
    constructor
    · intro h'
      injection h' with h'
      exact ⟨by omega, h'.symm⟩
    · rintro ⟨_, rfl⟩; rfl

/-- `forward_substitution` returns exactly when its precondition holds (any scalar type) -/
theorem forwardSubst_ok_iff' (L : Mat S) (n : Nat) (b sol x : Array S) :
    forwardSubst L n b sol = .ok x ↔
      (n ≤ L.h ∧ n ≤ L.w ∧ n ≤ b.size ∧ n ≤ sol.size) ∧ x = fwdCore L n b sol := by
  unfold forwardSubst
  by_cases h : L.h < n ∨ L.w < n ∨ b.size < n ∨ sol.size < n
  · rw [if_pos h]
    constructor
    · intro h'; cases h'
    · rintro ⟨⟨h1, h2, h3, h4⟩, _⟩
      omega
  · rw [if_neg h]
    constructor
    · intro h'
      injection h' with h'
      exact ⟨by omega, h'.symm⟩
    · rintro ⟨_, rfl⟩; rfl

end anyScalar

variable {M : FlModel}

/-- `==` on the rounding scalar is equality of the real values (so that `SV.C08.gaussSolve`, whose
scale test is `s[i] == 0.0`, elaborates at `Fl M`) -/
noncomputable instance : BEq (Fl M) := ⟨fun a b => @decide (a.val = b.val) (Classical.propDecidable _)⟩

/-! ### the backward sweep -/

/-- row `i` of the backward sweep in floating point: with weights `t j` — two roundings on the
diagonal, `n − j + 1` in column `j > i` — the row equation holds exactly:
`a_ii·t_i·x_i + Σ_{i<j<n} a_ij·t_j·x_j = b_i`. -/
def BackRowFl (U : Mat (Fl M)) (n : ℕ) (b x : Array (Fl M)) (i : ℕ) : Prop :=
  ∃ t : ℕ → ℝ, M.Fac 2 (t i) ∧ (∀ j, i < j → j < n → M.Fac (n - j + 1) (t j)) ∧
    (U.get i i).val * t i * (vget x i).val
      + ∑ j ∈ Ico (i + 1) n, (U.get i j).val * t j * (vget x j).val = (vget b i).val

theorem BackRowFl_congr {U : Mat (Fl M)} {n : ℕ} {b x y : Array (Fl M)} {i : ℕ}
    (h : ∀ j, i ≤ j → j < n → vget y j = vget x j) (hi : i < n) (hx : BackRowFl U n b x i) :
    BackRowFl U n b y i := by
  obtain ⟨t, h1, h2, h3⟩ := hx
  refine ⟨t, h1, h2, ?_⟩
  rw [h i (le_refl i) hi, ← h3]
  congr 1
  apply Finset.sum_congr rfl
  intro j hj
  rw [Finset.mem_Ico] at hj
  rw [h j (by omega) hj.2]

/-- the accumulated sum of row `i` of the backward sweep, weights form -/
theorem backSum_weights (U : Mat (Fl M)) (n : ℕ) (sol : Array (Fl M)) (i : ℕ) :
    ∃ t : ℕ → ℝ, (∀ j, i < j → j < n → M.Fac (n - j + 1) (t j)) ∧
      (sumFrom 0 (i + 1) n fun j => U.get i j * vget sol j).val
        = ∑ j ∈ Ico (i + 1) n, (U.get i j).val * t j * (vget sol j).val := by
  obtain ⟨t0, s, _, hs, hval⟩ :=
    sumFrom_rounding_general (0 : Fl M) (i + 1) n fun j => U.get i j * vget sol j
  choose d hd hmul using fun j => Fl.mul_fac (U.get i j) (vget sol j)
  refine ⟨fun j => d j * s (j - (i + 1)), fun j hij hjn => ?_, ?_⟩
  · have := (hd j).mul (hs (j - (i + 1)) (by omega))
    exact this.mono (by omega)
  · rw [hval, Finset.sum_Ico_eq_sum_range]
    simp only [Fl.zero_val, zero_mul, zero_add]
    refine Finset.sum_congr rfl fun k _ => ?_
    rw [hmul, show i + 1 + k - (i + 1) = k by omega]
    ring

/-- one step of the backward sweep solves its row in the perturbed sense -/
theorem backStep_rowFl (U : Mat (Fl M)) (n : ℕ) (b sol : Array (Fl M)) {i : ℕ}
    (hi : i < sol.size) (hd : (U.get i i).val ≠ 0) :
    BackRowFl U n b (backStep U n b sol i) i := by
  obtain ⟨t, ht, hsum⟩ := backSum_weights U n sol i
  obtain ⟨d1, hd1, hsub⟩ :=
    Fl.sub_fac (vget b i) (sumFrom 0 (i + 1) n fun j => U.get i j * vget sol j)
  obtain ⟨d2, hd2, hdiv⟩ :=
    Fl.div_fac (vget b i - sumFrom 0 (i + 1) n fun j => U.get i j * vget sol j) (U.get i i)
  have h1 : d1 ≠ 0 := hd1.pos.ne'
  have h2 : d2 ≠ 0 := hd2.pos.ne'
  refine ⟨fun j => if j = i then (d1 * d2)⁻¹ else t j, ?_, ?_, ?_⟩
  · simp only [if_true]
    exact (hd1.mul hd2).inv
  · intro j hij hjn
    simp only [show j ≠ i by omega, if_false]
    exact ht j hij hjn
  · have e : ∑ j ∈ Ico (i + 1) n,
          (U.get i j).val * (if j = i then (d1 * d2)⁻¹ else t j)
            * (vget (backStep U n b sol i) j).val
        = ∑ j ∈ Ico (i + 1) n, (U.get i j).val * t j * (vget sol j).val := by
      apply Finset.sum_congr rfl
      intro j hj
      rw [Finset.mem_Ico] at hj
      rw [backStep_ne' U n b sol (by omega : i ≠ j), if_neg (by omega)]
    rw [e, ← hsum]
    simp only [if_true]
    unfold backStep
    rw [vget_set_self _ _ _ hi, hdiv, hsub]
    field_simp
    ring

/-- the sweep over rows `t-1, …, 0` keeps the rows already solved, solves the new ones, and touches
nothing at positions `≥ t` -/
theorem backLoop_invFl (U : Mat (Fl M)) (n : ℕ) (b : Array (Fl M))
    (hd : ∀ i, i < n → (U.get i i).val ≠ 0) :
    ∀ (t : ℕ) (sol : Array (Fl M)), t ≤ n → n ≤ sol.size →
      (∀ i, t ≤ i → i < n → BackRowFl U n b sol i) →
      (backLoop U n b t sol).size = sol.size ∧
      (∀ i, i < n → BackRowFl U n b (backLoop U n b t sol) i) ∧
      (∀ j, t ≤ j → vget (backLoop U n b t sol) j = vget sol j) := by
  intro t
  induction t with
  | zero =>
    intro sol _ _ h
    exact ⟨rfl, fun i hi => h i (Nat.zero_le _) hi, fun _ _ => rfl⟩
  | succ t ih =>
    intro sol ht hs h
    have hrow : ∀ i, t ≤ i → i < n → BackRowFl U n b (backStep U n b sol t) i := by
      intro i hti hin
      by_cases hit : i = t
      · subst hit
        exact backStep_rowFl U n b sol (by omega) (hd i hin)
      · apply BackRowFl_congr _ hin (h i (by omega) hin)
        intro j hij _
        exact backStep_ne' U n b sol (by omega)
    obtain ⟨h1, h2, h3⟩ := ih (backStep U n b sol t) (by omega) (by simpa using hs) hrow
    refine ⟨h1.trans (backStep_size' U n b sol t), h2, ?_⟩
    intro j hj
    show vget (backLoop U n b t (backStep U n b sol t)) j = vget sol j
    rw [h3 j (by omega), backStep_ne' U n b sol (by omega)]

/-- `back_substitution` in floating point, inside its precondition: every row of the
upper-triangular part is satisfied in the perturbed sense, the slice keeps its length and its
entries beyond `n` -/
theorem backCore_rowsFl (U : Mat (Fl M)) (n : ℕ) (b sol : Array (Fl M)) (hn : 0 < n)
    (hs : n ≤ sol.size) (hd : ∀ i, i < n → (U.get i i).val ≠ 0) :
    (backCore U n b sol).size = sol.size ∧
    (∀ i, i < n → BackRowFl U n b (backCore U n b sol) i) ∧
    (∀ j, n ≤ j → vget (backCore U n b sol) j = vget sol j) := by
  unfold backCore
  set sol0 := sol.setIfInBounds (n - 1) (vget b (n - 1) / U.get (n - 1) (n - 1)) with hsol0
  have hlast : ∀ i, n - 1 ≤ i → i < n → BackRowFl U n b sol0 i := by
    intro i h1 h2
    have hi : i = n - 1 := by omega
    subst hi
    obtain ⟨d, hd1, hdiv⟩ := Fl.div_fac (vget b (n - 1)) (U.get (n - 1) (n - 1))
    have hne := hd (n - 1) h2
    have hd0 : d ≠ 0 := hd1.pos.ne'
    refine ⟨fun _ => d⁻¹, (hd1.inv).mono (by omega), fun j hj1 hj2 => by omega, ?_⟩
    have hemp : Ico (n - 1 + 1) n = ∅ := by
      apply Finset.Ico_eq_empty; omega
    rw [hemp, Finset.sum_empty, add_zero, hsol0, vget_set_self _ _ _ (by omega), hdiv]
    field_simp
  obtain ⟨h1, h2, h3⟩ :=
    backLoop_invFl U n b hd (n - 1) sol0 (by omega) (by simpa [hsol0] using hs) hlast
  refine ⟨by simpa [hsol0] using h1, h2, ?_⟩
  intro j hj
  rw [h3 j (by omega), hsol0, vget_set_ne _ _ (by omega)]

/-! ### the forward sweep -/

/-- row `i` of the forward sweep in floating point: weights with `i − j + 1` roundings in column
`j < i` and two on the diagonal make the row equation exact -/
def FwdRowFl (L : Mat (Fl M)) (b x : Array (Fl M)) (i : ℕ) : Prop :=
  ∃ t : ℕ → ℝ, M.Fac 2 (t i) ∧ (∀ j, j < i → M.Fac (i - j + 1) (t j)) ∧
    ∑ j ∈ range i, (L.get i j).val * t j * (vget x j).val
      + (L.get i i).val * t i * (vget x i).val = (vget b i).val

theorem FwdRowFl_congr {L : Mat (Fl M)} {b x y : Array (Fl M)} {i : ℕ}
    (h : ∀ j, j ≤ i → vget y j = vget x j) (hx : FwdRowFl L b x i) : FwdRowFl L b y i := by
  obtain ⟨t, h1, h2, h3⟩ := hx
  refine ⟨t, h1, h2, ?_⟩
  rw [h i (le_refl i), ← h3]
  congr 1
  apply Finset.sum_congr rfl
  intro j hj
  rw [Finset.mem_range] at hj
  rw [h j (by omega)]

/-- the accumulated sum of row `i` of the forward sweep, weights form -/
theorem fwdSum_weights (L : Mat (Fl M)) (sol : Array (Fl M)) (i : ℕ) :
    ∃ t : ℕ → ℝ, (∀ j, j < i → M.Fac (i - j + 1) (t j)) ∧
      (sumFrom 0 0 i fun j => L.get i j * vget sol j).val
        = ∑ j ∈ range i, (L.get i j).val * t j * (vget sol j).val := by
  obtain ⟨s, hs, hval⟩ := sumFrom_rounding_weights i fun j => L.get i j * vget sol j
  choose d hd hmul using fun j => Fl.mul_fac (L.get i j) (vget sol j)
  refine ⟨fun j => d j * s j, fun j hj => ?_, ?_⟩
  · have := (hd j).mul (hs j hj)
    exact this.mono (by omega)
  · rw [hval]
    refine Finset.sum_congr rfl fun k _ => ?_
    rw [hmul]
    ring

theorem fwdStep_rowFl (L : Mat (Fl M)) (b sol : Array (Fl M)) {i : ℕ} (hi : i < sol.size)
    (hd : (L.get i i).val ≠ 0) : FwdRowFl L b (fwdStep L b sol i) i := by
  obtain ⟨t, ht, hsum⟩ := fwdSum_weights L sol i
  obtain ⟨d1, hd1, hsub⟩ :=
    Fl.sub_fac (vget b i) (sumFrom 0 0 i fun j => L.get i j * vget sol j)
  obtain ⟨d2, hd2, hdiv⟩ :=
    Fl.div_fac (vget b i - sumFrom 0 0 i fun j => L.get i j * vget sol j) (L.get i i)
  have h1 : d1 ≠ 0 := hd1.pos.ne'
  have h2 : d2 ≠ 0 := hd2.pos.ne'
  refine ⟨fun j => if j = i then (d1 * d2)⁻¹ else t j, ?_, ?_, ?_⟩
  · simp only [if_true]
    exact (hd1.mul hd2).inv
  · intro j hj
    simp only [show j ≠ i by omega, if_false]
    exact ht j hj
  · have e : ∑ j ∈ range i,
          (L.get i j).val * (if j = i then (d1 * d2)⁻¹ else t j)
            * (vget (fwdStep L b sol i) j).val
        = ∑ j ∈ range i, (L.get i j).val * t j * (vget sol j).val := by
      apply Finset.sum_congr rfl
      intro j hj
      rw [Finset.mem_range] at hj
      rw [fwdStep_ne' L b sol (by omega : i ≠ j), if_neg (by omega)]
    rw [e, ← hsum]
    simp only [if_true]
    unfold fwdStep
    rw [vget_set_self _ _ _ hi, hdiv, hsub]
    field_simp
    ring

theorem fwdCore_rowsFl (L : Mat (Fl M)) (b sol : Array (Fl M)) :
    ∀ n : ℕ, n ≤ sol.size → (∀ i, i < n → (L.get i i).val ≠ 0) →
      (fwdCore L n b sol).size = sol.size ∧
      (∀ i, i < n → FwdRowFl L b (fwdCore L n b sol) i) ∧
      (∀ j, n ≤ j → vget (fwdCore L n b sol) j = vget sol j) := by
  intro n
  induction n with
  | zero =>
    intro _ _
    exact ⟨rfl, fun i hi => absurd hi (Nat.not_lt_zero _), fun _ _ => rfl⟩
  | succ n ih =>
    intro hs hd
    obtain ⟨h1, h2, h3⟩ := ih (by omega) (fun i hi => hd i (by omega))
    have e : fwdCore L (n + 1) b sol = fwdStep L b (fwdCore L n b sol) n := by
      unfold fwdCore
      rw [List.range_succ, List.foldl_append]
      rfl
    rw [e]
    refine ⟨by simpa using h1, ?_, ?_⟩
    · intro i hi
      by_cases hin : i = n
      · subst hin
        exact fwdStep_rowFl L b _ (by omega) (hd i (by omega))
      · apply FwdRowFl_congr _ (h2 i (by omega))
        intro j hj
        exact fwdStep_ne' L b _ (by omega)
    · intro j hj
      rw [fwdStep_ne' L b _ (by omega), h3 j (by omega)]

/-! ### from row weights to a perturbation matrix and a residual bound -/

/-- a sum over `[lo, hi)` with weights `t j` that are accumulated factors of at most `m` roundings:
the weighted sum differs from the plain one by at most `γ_m·Σ|e j|` -/
theorem weighted_Ico_bound (lo hi m : ℕ) (e t : ℕ → ℝ)
    (ht : ∀ j, lo ≤ j → j < hi → M.Fac m (t j)) (hm : m * M.u < 1) :
    |∑ j ∈ Ico lo hi, e j * t j - ∑ j ∈ Ico lo hi, e j| ≤ M.gamma m * ∑ j ∈ Ico lo hi, |e j| := by
  rw [← Finset.sum_sub_distrib, Finset.mul_sum]
  refine (Finset.abs_sum_le_sum_abs _ _).trans (Finset.sum_le_sum fun k hk => ?_)
  rw [Finset.mem_Ico] at hk
  rw [show e k * t k - e k = (t k - 1) * e k by ring, abs_mul]
  exact mul_le_mul_of_nonneg_right ((ht k hk.1 hk.2).abs_sub_one_le hm) (abs_nonneg _)

end SV.Subst
