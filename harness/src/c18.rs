//! C18 — descriptive statistics: `arith_mean`, `geom_mean`, `std_dev` (utils/variation.rs).
//!
//! Requests (floats as decimal u64 bit patterns, vectors as `n x0 … x_{n-1}`):
//!   mean <xs>                 -> f<mean>
//!   geom <xs>                 -> f<geom>
//!   std <p|s> <xs>            -> f<std>
//!   translate <p|s> <c> <xs>  -> f<std xs> f<std (xs+c)> f<mean xs> f<mean (xs+c)>
//!   scale <p|s> <k> <xs>      -> f<std xs> f<std (k*xs)> f<mean xs> f<mean (k*xs)>
//!   samplepop <xs>            -> f<std sample> f<std population>
//! A panic of the implementation is the observation `panic` (and an oracle failure: the property
//! demands NaN, not a panic).  The numeric oracle (defining formulas in exact rationals) is the
//! Python plug-in tools/props/c18.py.
use crate::util::*;
use spindalis::utils::{StdDevType, arith_mean, geom_mean, std_dev};

fn kind(t: &str) -> StdDevType {
    match t {
        "p" => StdDevType::Poulation,
        "s" => StdDevType::Sample,
        _ => panic!("kind"),
    }
}

fn guarded(f: impl FnOnce() -> String) -> Obs {
    match catch(f) {
        Some(s) => Obs::plain(s),
        None => Obs::with("panic".into(), Err("the implementation panicked (the property demands NaN in undefined cases)".into())),
    }
}

pub fn run(line: &str) -> Obs {
    let mut t = Toks::new(line);
    let cmd = t.tok();
    match cmd {
        "mean" => {
            let xs = t.vec_f64();
            guarded(|| fbits(arith_mean(&xs)))
        }
        "geom" => {
            let xs = t.vec_f64();
            guarded(|| fbits(geom_mean(&xs)))
        }
        "std" => {
            let k = kind(t.tok());
            let xs = t.vec_f64();
            guarded(|| fbits(std_dev(&xs, k)))
        }
        "translate" | "scale" => {
            let k = kind(t.tok());
            let c = t.f64();
            let xs = t.vec_f64();
            let ys: Vec<f64> = if cmd == "translate" { xs.iter().map(|x| x + c).collect() } else { xs.iter().map(|x| c * x).collect() };
            guarded(|| {
                format!(
                    "{} {} {} {}",
                    fbits(std_dev(&xs, k)),
                    fbits(std_dev(&ys, k)),
                    fbits(arith_mean(&xs)),
                    fbits(arith_mean(&ys))
                )
            })
        }
        "samplepop" => {
            let xs = t.vec_f64();
            guarded(|| format!("{} {}", fbits(std_dev(&xs, StdDevType::Sample)), fbits(std_dev(&xs, StdDevType::Poulation))))
        }
        _ => panic!("unknown C18 request {cmd}"),
    }
}

/// sample lengths: all of 0..=8 often, otherwise anything up to 200
fn length(rng: &mut Rng) -> usize {
    match rng.below(10) {
        0..=3 => rng.below(9) as usize,
        4..=6 => rng.range(9, 40) as usize,
        7..=8 => rng.range(41, 200) as usize,
        _ => *rng.pick(&[0usize, 1, 2, 3, 199, 200]),
    }
}

/// one sample in the property's range (|x| <= 1e6); `style` selects the shape of the data
fn sample(rng: &mut Rng, n: usize, style: u64, positive: bool) -> Vec<f64> {
    let mut v: Vec<f64> = match style {
        // uniform over the whole range
        0 => (0..n).map(|_| rng.uniform(-1e6, 1e6)).collect(),
        // small integers (ties, exact arithmetic)
        1 => (0..n).map(|_| rng.range(-100, 100) as f64).collect(),
        // dyadic rationals: translations by dyadic constants stay exact
        2 => (0..n).map(|_| rng.dyadic(1 << 20, 10)).collect(),
        // constant sample
        3 => {
            let c = match rng.below(6) {
                0 => 0.1,
                1 => 1e6,
                2 => -1e6,
                3 => 0.0,
                4 => rng.uniform(-1e6, 1e6),
                _ => 1.0 / 3.0,
            };
            vec![c; n]
        }
        // a tight cluster far from the origin (cancellation in x - mean)
        4 => {
            let base = *rng.pick(&[1e6, -1e6, 999_999.5, 12345.678, 1.0]);
            let w = *rng.pick(&[1e-6, 1e-3, 1.0, 1e-9]);
            (0..n).map(|_| (base + rng.uniform(-w, w)).clamp(-1e6, 1e6)).collect()
        }
        // huge and small magnitudes mixed: 10^e, e in -12..6 (and a few 1e-300)
        5 => (0..n)
            .map(|_| {
                let e = rng.range(-12, 6) as i32;
                let m = rng.uniform(1.0, 10.0) * 10f64.powi(e);
                let m = if rng.chance(1, 40) { 1e-300 } else { m.min(1e6) };
                if rng.chance(1, 2) { -m } else { m }
            })
            .collect(),
        // log-uniform positive
        6 => (0..n).map(|_| 10f64.powf(rng.uniform(-6.0, 6.0)).min(1e6)).collect(),
        // one outlier among equal values
        _ => {
            let mut v = vec![rng.range(-5, 5) as f64; n];
            if n > 0 {
                let k = rng.below(n as u64) as usize;
                v[k] = rng.uniform(-1e6, 1e6);
            }
            v
        }
    };
    if positive {
        for x in v.iter_mut() {
            *x = x.abs();
            if *x == 0.0 {
                *x = *rng.pick(&[1.0, 1e-6, 1e6, 0.5]);
            }
        }
    }
    v
}

pub fn generate(seed: u64, thorough: bool, emit: &mut dyn FnMut(String)) {
    let mut rng = Rng::new(seed ^ 0xC18);
    // the undefined cases and the smallest defined ones, every request kind
    for n in 0..=3usize {
        for style in [1u64, 0, 3] {
            let xs = sample(&mut rng, n, style, false);
            emit(format!("mean {}", req_vec_f(&xs)));
            emit(format!("std p {}", req_vec_f(&xs)));
            emit(format!("std s {}", req_vec_f(&xs)));
            emit(format!("samplepop {}", req_vec_f(&xs)));
            emit(format!("translate s {} {}", rbits(3.0), req_vec_f(&xs)));
            emit(format!("scale p {} {}", rbits(-2.0), req_vec_f(&xs)));
            let ps = sample(&mut rng, n, style, true);
            emit(format!("geom {}", req_vec_f(&ps)));
        }
    }
    // the repaired overflow and its neighbours
    for n in [1usize, 2, 50, 199, 200] {
        emit(format!("geom {}", req_vec_f(&vec![1e6; n])));
        emit(format!("geom {}", req_vec_f(&vec![1e-6; n])));
        emit(format!("mean {}", req_vec_f(&vec![1e6; n])));
        emit(format!("std s {}", req_vec_f(&vec![1e6; n])));
        emit(format!("std p {}", req_vec_f(&vec![-1e6; n])));
    }
    // data outside the geometric mean's domain: correspondence only (NaN / 0 as IEEE gives them)
    for _ in 0..20 {
        let n = rng.range(1, 6) as usize;
        let mut xs = sample(&mut rng, n, 1, false);
        if rng.chance(1, 2) {
            xs[0] = 0.0;
        }
        emit(format!("geom {}", req_vec_f(&xs)));
    }
    harden(&mut rng, thorough, emit);
    let rounds = if thorough { 30000 } else { 600 };
    for _ in 0..rounds {
        let n = length(&mut rng);
        let style = rng.below(8);
        let xs = sample(&mut rng, n, style, false);
        let k = if rng.chance(1, 2) { "p" } else { "s" };
        emit(format!("mean {}", req_vec_f(&xs)));
        emit(format!("std {k} {}", req_vec_f(&xs)));
        emit(format!("samplepop {}", req_vec_f(&xs)));
        // geometric mean: positive data
        let gs = if rng.chance(1, 2) { 6 } else { style };
        let ps = sample(&mut rng, n, gs, true);
        emit(format!("geom {}", req_vec_f(&ps)));
        // translation: dyadic data and a dyadic shift (exact), or any data and any shift
        if rng.chance(2, 3) {
            let dstyle = if rng.chance(1, 2) { 2 } else { 1 };
            let ds = sample(&mut rng, n, dstyle, false);
            let c = if rng.chance(1, 2) { rng.dyadic(1 << 19, 8) } else { rng.range(-1000, 1000) as f64 };
            emit(format!("translate {k} {} {}", rbits(c), req_vec_f(&ds)));
        } else {
            let c = rng.uniform(-1e3, 1e3);
            emit(format!("translate {k} {} {}", rbits(c), req_vec_f(&xs)));
        }
        // scaling: a signed power of two (exact) most of the time
        let c = if rng.chance(3, 4) {
            let p = 2f64.powi(rng.range(-8, 8) as i32);
            if rng.chance(1, 2) { -p } else { p }
        } else if rng.chance(1, 8) {
            0.0
        } else {
            rng.uniform(-3.0, 3.0)
        };
        // keep the scaled sample inside the range of the property
        let ss: Vec<f64> = xs.iter().map(|x| x / 256.0).collect();
        emit(format!("scale {k} {} {}", rbits(c), req_vec_f(&ss)));
    }
}

/// log-uniform magnitudes around `10^e`
fn around(rng: &mut Rng, e: f64) -> f64 {
    10f64.powf(e) * rng.uniform(0.5, 1.0)
}

fn emit_all(emit: &mut dyn FnMut(String), xs: &[f64], k: usize) {
    emit(format!("mean {}", req_vec_f(xs)));
    emit(format!("std {} {}", if k % 2 == 0 { "p" } else { "s" }, req_vec_f(xs)));
    emit(format!("samplepop {}", req_vec_f(xs)));
}

/// Families added after the seeded-change rounds (scale, size, zeros/signs, NaN); see DESIGN.md §15.
fn harden(rng: &mut Rng, thorough: bool, emit: &mut dyn FnMut(String)) {
    let reps = if thorough { 12 } else { 1 };

    // (a) SIZE: every length 0..=200 at least once per request kind (blocked / unrolled loops: 4, 8, 16, 64,
    // "the 9th element"), the lengths just beyond the quantifier and around powers of two
    for _ in 0..reps {
        for n in (0..=200usize).chain([201, 255, 256, 257, 511, 512, 513, 1000, 1024, 1025]) {
            let style = rng.below(8);
            let xs = sample(rng, n, style, false);
            emit_all(emit, &xs, n);
            let gs = if n % 2 == 0 { 6 } else { style };
            let ps = sample(rng, n, gs, true);
            emit(format!("geom {}", req_vec_f(&ps)));
        }
    }

    // (b) geometric mean: samples whose product over ANY chunk of c consecutive values under- or overflows
    // although the mean itself is an ordinary number (plain products, products by blocks of 4/8/16/64, pairwise
    // products): every value about 10^(-+330/c), lengths c, c+1, 2c+1, 3c and 200
    for &c in &[2usize, 3, 4, 5, 7, 8, 9, 15, 16, 17, 31, 32, 33, 63, 64, 65, 100, 127, 128, 129, 199, 200] {
        for sign in [-1.0f64, 1.0] {
            let e = (sign * 330.0 / c as f64).clamp(-300.0, 300.0);
            for n in [c, c + 1, 2 * c + 1, 3 * c, 200] {
                if n > 1030 {
                    continue;
                }
                for _ in 0..reps {
                    let xs: Vec<f64> = (0..n).map(|_| around(rng, e)).collect();
                    emit(format!("geom {}", req_vec_f(&xs)));
                }
            }
        }
    }
    // tiny and huge values in one sample: the product is ordinary, partial products are not (ascending,
    // descending, alternating, blocks of 8)
    for k in 0..24 * reps {
        let n = *rng.pick(&[2usize, 8, 9, 16, 17, 24, 64, 65, 128, 200]);
        let e = *rng.pick(&[5.9, 20.0, 45.0, 100.0, 150.0, 300.0]);
        let mut xs: Vec<f64> = (0..n).map(|i| around(rng, if i % 2 == 0 { e } else { -e })).collect();
        match k % 4 {
            0 => xs.sort_by(|a, b| a.partial_cmp(b).unwrap()),
            1 => xs.sort_by(|a, b| b.partial_cmp(a).unwrap()),
            2 => {
                // blocks of 8 of one kind
                xs.sort_by(|a, b| a.partial_cmp(b).unwrap());
                let (lo, hi) = xs.split_at(n / 2);
                let mut ys = Vec::new();
                let (mut i, mut j) = (0, 0);
                while i < lo.len() || j < hi.len() {
                    for _ in 0..8 {
                        if i < lo.len() {
                            ys.push(lo[i]);
                            i += 1;
                        }
                    }
                    for _ in 0..8 {
                        if j < hi.len() {
                            ys.push(hi[j]);
                            j += 1;
                        }
                    }
                }
                xs = ys;
            }
            _ => {}
        }
        emit(format!("geom {}", req_vec_f(&xs)));
    }
    // values next to 1 at every distance, constant positive samples of every magnitude, the smallest normal
    // and subnormal numbers (subnormal results are compared with the model only)
    for k in 1..=17 {
        let d = 10f64.powi(-k);
        for n in [1usize, 2, 7, 8, 9, 64, 200] {
            let xs: Vec<f64> = (0..n).map(|i| if i % 2 == 0 { 1.0 + d } else { 1.0 - d / 2.0 }).collect();
            emit(format!("geom {}", req_vec_f(&xs)));
        }
    }
    for e in [-323, -310, -308, -300, -200, -100, -39, -38, -20, -7, -6, 0, 6, 7, 20, 38, 39, 100, 200, 300, 308] {
        let v = if e <= -308 { 10f64.powi(e + 300) * 1e-300 } else { 10f64.powi(e) };
        for n in [1usize, 3, 8, 9, 16, 17, 65, 200] {
            emit(format!("geom {}", req_vec_f(&vec![v; n])));
            if (-150..=150).contains(&e) {
                emit(format!("std p {}", req_vec_f(&vec![v; n])));
                emit(format!("mean {}", req_vec_f(&vec![-v; n])));
            }
        }
    }
    for v in [f64::MIN_POSITIVE, 5e-324, f64::MAX, 1.7976931348623157e308 / 2.0] {
        for n in [1usize, 2, 9, 200] {
            emit(format!("geom {}", req_vec_f(&vec![v; n])));
            emit(format!("mean {}", req_vec_f(&vec![v; n])));
            emit(format!("std s {}", req_vec_f(&vec![v; n])));
        }
    }

    // (c) SCALE, mean and deviation: whole samples of magnitude 10^e, e = -300..300, and mixed exponents
    for k in 0..120 * reps {
        let e = rng.range(-300, 300) as f64;
        let n = *rng.pick(&[1usize, 2, 3, 5, 8, 9, 16, 17, 33, 64, 100, 200]);
        let xs: Vec<f64> = (0..n).map(|_| around(rng, e) * if rng.chance(1, 2) { -1.0 } else { 1.0 }).collect();
        emit_all(emit, &xs, k);
        if e.abs() <= 140.0 {
            let c = 2f64.powi(rng.range(-20, 20) as i32) * if rng.chance(1, 2) { -1.0 } else { 1.0 };
            emit(format!("scale {} {} {}", if k % 2 == 0 { "p" } else { "s" }, rbits(c), req_vec_f(&xs)));
        }
    }
    for k in 0..40 * reps {
        let n = *rng.pick(&[2usize, 5, 8, 9, 17, 64, 200]);
        let span = *rng.pick(&[10.0, 30.0, 100.0, 140.0]);
        let xs: Vec<f64> = (0..n)
            .map(|_| {
                let e = rng.uniform(-span, span);
                around(rng, e) * if rng.chance(1, 2) { -1.0 } else { 1.0 }
            })
            .collect();
        emit_all(emit, &xs, k);
    }
    // a narrow sample at a large offset, at every relative width 10^-1 .. 10^-16 and every offset (a variance
    // computed as E[x^2] - mean^2, a shifted or single-pass formula: cancellation)
    for w in 1..=16 {
        for &base in &[1.0f64, -1.0, 1e3, 999_999.0, -1e6, 0.1, 1e-3, 1e9, 1e15, 1e100, 1e-100] {
            let n = *rng.pick(&[2usize, 3, 4, 8, 9, 20, 64, 200]);
            let width = base.abs() * 10f64.powi(-w);
            let xs: Vec<f64> = (0..n).map(|_| base + rng.uniform(-width, width)).collect();
            emit(format!("std {} {}", if w % 2 == 0 { "p" } else { "s" }, req_vec_f(&xs)));
            if w % 4 == 1 {
                emit(format!("samplepop {}", req_vec_f(&xs)));
                emit(format!("mean {}", req_vec_f(&xs)));
            }
        }
    }
    // exact translations by large offsets: small integers (or dyadics) plus 2^20 .. 2^50
    for k in 0..40 * reps {
        let n = *rng.pick(&[2usize, 3, 8, 9, 16, 17, 64, 200]);
        let xs: Vec<f64> = (0..n).map(|_| if k % 2 == 0 { rng.range(-100, 100) as f64 } else { rng.dyadic(64, 2) }).collect();
        let c = 2f64.powi(rng.range(20, 50) as i32) * if rng.chance(1, 2) { -1.0 } else { 1.0 };
        emit(format!("translate {} {} {}", if k % 4 < 2 { "p" } else { "s" }, rbits(c), req_vec_f(&xs)));
    }

    // (d) ZEROS / SIGNS / TIES
    for k in 0..30 * reps {
        let n = *rng.pick(&[1usize, 2, 3, 4, 8, 9, 33, 200]);
        let xs: Vec<f64> = match k % 10 {
            // all negative
            0 => (0..n).map(|_| -rng.uniform(1e-3, 1e6)).collect(),
            // the maximum is zero, the rest negative
            1 => (0..n).map(|i| if i == n / 2 { 0.0 } else { -rng.uniform(1.0, 1e6) }).collect(),
            // the minimum is zero, the rest positive
            2 => (0..n).map(|i| if i == 0 { 0.0 } else { rng.uniform(1.0, 1e6) }).collect(),
            // symmetric: the mean is exactly 0
            3 => (0..n).map(|i| (if i % 2 == 0 { 1.0 } else { -1.0 }) * ((i / 2 + 1) as f64)).collect(),
            // signed zeros only
            4 => (0..n).map(|i| if i % 2 == 0 { -0.0 } else { 0.0 }).collect(),
            5 => vec![-0.0; n],
            // two values
            6 => (0..n).map(|i| if i % 2 == 0 { 1e6 } else { -1e6 }).collect(),
            7 => (0..n).map(|i| if i < n / 2 { 3.0 } else { 3.0 + f64::EPSILON * 4.0 }).collect(),
            // negative constant, leading zeros then data
            8 => vec![-rng.uniform(1.0, 1e6); n],
            _ => (0..n).map(|i| if i < n / 2 { 0.0 } else { rng.range(-9, 9) as f64 }).collect(),
        };
        emit_all(emit, &xs, k);
        emit(format!("std {} {}", if k % 2 == 0 { "s" } else { "p" }, req_vec_f(&xs)));
        emit(format!("translate p {} {}", rbits(-7.0), req_vec_f(&xs)));
        for c in [0.0, -0.0, -1.0, 1.0, -0.5] {
            emit(format!("scale s {} {}", rbits(c), req_vec_f(&xs)));
        }
    }

    // (e) NaN / infinities / data outside the geometric mean's domain at every position (correspondence only)
    for n in [1usize, 2, 3, 8, 9, 17] {
        for pos in [0, n / 2, n - 1] {
            for bad in [f64::NAN, f64::INFINITY, f64::NEG_INFINITY, 0.0, -0.0, -1.0] {
                let mut xs: Vec<f64> = (0..n).map(|_| rng.uniform(0.5, 9.0)).collect();
                xs[pos] = bad;
                emit(format!("geom {}", req_vec_f(&xs)));
                if bad.is_nan() || bad.is_infinite() {
                    emit_all(emit, &xs, pos);
                }
            }
        }
        let mut xs: Vec<f64> = (0..n.max(2)).map(|_| rng.uniform(-9.0, 9.0)).collect();
        xs[0] = f64::INFINITY;
        xs[1] = f64::NEG_INFINITY;
        emit_all(emit, &xs, n);
    }
    // sums that overflow although every value is finite (correspondence only)
    for n in [2usize, 3, 9, 200] {
        let xs = vec![f64::MAX / 1.5; n];
        emit_all(emit, &xs, n);
        let ys: Vec<f64> = (0..n).map(|i| if i % 2 == 0 { f64::MAX } else { -f64::MAX }).collect();
        emit_all(emit, &ys, n);
    }
    edge_of_range(rng, thorough, emit);
    ordered(rng, thorough, emit);
    round6(rng, thorough, emit);
}

/// x moved by one unit in the last place (1: away from 0, 2: towards 0) or by 2^-40 relative (3); 0: unchanged
fn nudge(x: f64, mode: u64) -> f64 {
    if x == 0.0 || !x.is_finite() {
        return x;
    }
    match mode % 4 {
        0 => x,
        1 => f64::from_bits(x.to_bits() + 1),
        2 => f64::from_bits(x.to_bits() - 1),
        _ => x * (1.0 + 2f64.powi(-40)),
    }
}

/// SIXTH SEEDED ROUND (DESIGN.md section 17).
/// (O) BLOCK BOUNDARIES: lengths blk-1, blk, blk+1, blk+2, 2 blk+1 for blk = 4, 8, 16, 32, 64, 128, 256, 512, 1024 with
///     NON-constant, non-symmetric data in four shapes (distinct integers, dyadics, "a large distinctive value exactly at
///     the block seam / in the tail, the rest small" - a dropped, repeated or overwritten chunk, a remainder loop that
///     starts one element late, an accumulator that is reset per block changes the answer by far more than rounding -
///     and positive log-uniform data), every request kind (mean, both deviations, sample-vs-population, an exact
///     translation, an exact scaling, the geometric mean).
/// (P) RESONANT / EXACT-RELATION DATA: small integers / dyadics (all sums exact in binary64) arranged so that a quantity of
///     the computation is exactly 0 or 1 or two quantities are exactly equal: mean exactly 0, +-1, 2^k, equal to one of the
///     values (a deviation exactly 0), equal to the population deviation (|mean| == sigma), variance exactly 1 (either
///     denominator), n = 2 (the sample denominator is exactly 1), a translation by exactly -mean / -x_0 / -max / 0, a
///     factor exactly +-1, geometric means whose product is exactly 1 / a perfect n-th power / contains a value exactly 1
///     - and each of these relations MISSED by one unit in the last place or by 2^-40 relative in one element (the mean is
///     then 1e-16 .. 1e-12 of the data instead of 0: a quotient by the mean, a "relative deviation", an `if mean == ..`
///     shortcut taken or not taken shows here and nowhere else).
fn round6(rng: &mut Rng, thorough: bool, emit: &mut dyn FnMut(String)) {
    let reps = if thorough { 6 } else { 1 };
    let mut k = 0usize;
    // ---- (O)
    for rep in 0..reps {
        for &blk in &[4usize, 8, 16, 32, 64, 128, 256, 512, 1024] {
            for n in [blk - 1, blk, blk + 1, blk + 2, 2 * blk + 1] {
                for shape in 0..4usize {
                    if blk >= 512 && !thorough && shape == 1 {
                        continue;
                    }
                    k += 1;
                    let xs: Vec<f64> = match shape {
                        // distinct integers, not monotone, not symmetric (all sums exact)
                        0 => (0..n).map(|i| ((i * i + 3 * i + rep) % 211) as f64 - 60.0 + (i % 7) as f64 * 256.0).collect(),
                        // dyadic rationals
                        1 => (0..n).map(|_| rng.dyadic(1 << 16, 8)).collect(),
                        // small values, a large one at the seam(s) and at the very end
                        2 => {
                            let mut v: Vec<f64> = (0..n).map(|i| ((i * 5 + 1) % 9) as f64 / 8.0).collect();
                            let seams = [blk - 1, blk, blk + 1, n - 1, n - 2, 2 * blk - 1, 2 * blk];
                            let pick = seams[k % seams.len()];
                            if pick < n {
                                v[pick] = *rng.pick(&[4096.0, -4096.0, 1e5, -65536.0, 999_999.0]);
                            }
                            if k % 3 == 0 && blk < n {
                                v[blk] = -3000.5;
                            }
                            v
                        }
                        // positive, log-uniform (ordinary product of logs; the arithmetic statistics too)
                        _ => (0..n).map(|_| 10f64.powf(rng.uniform(-3.0, 5.0))).collect(),
                    };
                    let kd = if k % 2 == 0 { "p" } else { "s" };
                    emit(format!("mean {}", req_vec_f(&xs)));
                    emit(format!("std {kd} {}", req_vec_f(&xs)));
                    if shape != 1 {
                        emit(format!("samplepop {}", req_vec_f(&xs)));
                    }
                    if shape == 0 || shape == 2 {
                        // exact: integers / eighths plus an integer, times a power of two
                        let c = *rng.pick(&[1.0, -64.0, 1000.0, 4096.0, -3.0]);
                        emit(format!("translate {kd} {} {}", rbits(c), req_vec_f(&xs)));
                        let f = *rng.pick(&[-1.0, 2.0, -0.5, 0.25, 8.0]);
                        emit(format!("scale {kd} {} {}", rbits(f), req_vec_f(&xs)));
                    }
                    let ps: Vec<f64> = xs.iter().map(|x| if *x == 0.0 { 0.375 } else { x.abs() }).collect();
                    emit(format!("geom {}", req_vec_f(&ps)));
                }
            }
        }
    }
    // ---- (P)
    let lens: [usize; 14] = [2, 2, 3, 4, 5, 6, 8, 9, 15, 16, 17, 33, 64, 200];
    for _ in 0..reps {
        for pattern in 0..12usize {
            for &n in &lens {
                for mode in 0..4u64 {
                    k += 1;
                    let unit = *rng.pick(&[1.0, 1.0, 0.125, 16.0, 2f64.powi(-20), 1024.0]);
                    // integers d_i with sum exactly 0, not symmetric
                    let mut d: Vec<f64> = (0..n - 1).map(|_| rng.range(-40, 40) as f64).collect();
                    let tot: f64 = d.iter().sum();
                    d.push(-tot);
                    let m = *rng.pick(&[1.0, -1.0, 2.0, 0.5, 64.0, -3.0, 7.0, 1000.0]);
                    let mut xs: Vec<f64> = match pattern {
                        // mean exactly 0
                        0 => d.clone(),
                        // mean exactly m
                        1 => d.iter().map(|v| v + m).collect(),
                        // mean exactly m and one value exactly equal to it
                        2 => {
                            let mut v: Vec<f64> = d.iter().map(|x| x + m).collect();
                            if n >= 3 {
                                let (i, j) = (k % n, (k + 1) % n);
                                let mv = v[i] - m;
                                v[i] = m;
                                v[j] += mv;
                            }
                            v
                        }
                        // two-valued: m - 1, m + 1 in equal numbers (even n: mean m, population variance exactly 1)
                        3 => (0..n).map(|i| if (i * 7 + k) % 2 == 0 { m - 1.0 } else { m + 1.0 }).collect(),
                        // 0 and 2 m: mean m, population deviation exactly |m| (even n)
                        4 => (0..n).map(|i| if i % 2 == 0 { 0.0 } else { 2.0 * m }).collect(),
                        // sample variance exactly 1: (n - 1) | sum of squares: m + {1, -1, 0, 0, ...} has sum of squares 2: n = 3
                        5 => (0..n).map(|i| m + if i == 0 { 1.0 } else if i == n - 1 { -1.0 } else { 0.0 }).collect(),
                        // mean exactly 1 / -1 with large deviations (x / mean is x itself)
                        6 => d.iter().map(|v| 25.0 * v + if k % 2 == 0 { 1.0 } else { -1.0 }).collect(),
                        // sum exactly one unit: the mean is 1/n of the unit, tiny against the data
                        7 => {
                            let mut v: Vec<f64> = d.iter().map(|x| x * 1024.0).collect();
                            v[k % n] += 1.0;
                            v
                        }
                        // all but one value equal; the odd one exactly n-1 times as far on the other side of 0: mean 0
                        8 => (0..n).map(|i| if i == k % n { -((n - 1) as f64) * m } else { m }).collect(),
                        // partial sums return to exactly 0 at every block of 4 / 8 (a per-block shortcut on a zero sum)
                        9 => (0..n).map(|i| { let b = if k % 2 == 0 { 4 } else { 8 }; let j = i % b; if j == b - 1 { -(((b - 1) * b / 2) as f64) } else { (j + 1) as f64 } }).collect(),
                        // the first value equals the mean of the rest (running-mean updates with a zero increment)
                        10 => {
                            let mut v = d.clone();
                            v.iter_mut().for_each(|x| *x += m);
                            v[0] = m;
                            let s: f64 = v.iter().skip(1).sum::<f64>() - m * (n - 1) as f64;
                            let last = n - 1;
                            v[last] -= s;
                            v
                        }
                        // squares sum to a power of two and the mean is 0: +-2^j pairs
                        _ => (0..n).map(|i| { let j = (i / 2 % 5) as i32; if n % 2 == 1 && i == n - 1 { 0.0 } else if i % 2 == 0 { 2f64.powi(j) } else { -2f64.powi(j) } }).collect(),
                    };
                    for x in xs.iter_mut() {
                        *x *= unit;
                    }
                    // the relation missed by one ulp / by 2^-40 in one element
                    let at = (k * 5 + 1) % n;
                    let at = if xs[at] == 0.0 { xs.iter().position(|x| *x != 0.0).unwrap_or(at) } else { at };
                    xs[at] = nudge(xs[at], mode);
                    let kd = if k % 2 == 0 { "p" } else { "s" };
                    emit(format!("mean {}", req_vec_f(&xs)));
                    emit(format!("samplepop {}", req_vec_f(&xs)));
                    if k % 3 == 0 {
                        emit(format!("std {kd} {}", req_vec_f(&xs)));
                    }
                    // translations by exactly -mean (integer data: exact), -x_0, -max, 0; factors exactly +-1
                    if mode == 0 {
                        let mean = xs.iter().sum::<f64>() / n as f64;
                        let mx = xs.iter().cloned().fold(f64::MIN, f64::max);
                        let c = match k % 5 { 0 => -mean, 1 => -xs[0], 2 => -mx, 3 => 0.0, _ => mean };
                        emit(format!("translate {kd} {} {}", rbits(c), req_vec_f(&xs)));
                        let f = match k % 6 { 0 => 1.0, 1 => -1.0, 2 => nudge(1.0, 1), 3 => nudge(-1.0, 2), 4 => -0.0, _ => 1.0 + 2f64.powi(-40) };
                        emit(format!("scale {kd} {} {}", rbits(f), req_vec_f(&xs)));
                    }
                }
            }
        }
        // geometric means with exact relations: product exactly 1 (2^j and 2^-j), all ones, a value exactly 1 among
        // others, perfect n-th powers (g^n for small integer / dyadic g, split into factors), each also nudged
        for &n in &[1usize, 2, 3, 4, 5, 8, 9, 16, 17, 33, 64, 65, 128, 200] {
            for pattern in 0..6usize {
                for mode in 0..4u64 {
                    k += 1;
                    let mut xs: Vec<f64> = match pattern {
                        0 => vec![1.0; n],
                        1 => (0..n).map(|i| { let j = (i / 2 % 9 + 1) as i32; if n % 2 == 1 && i == n - 1 { 1.0 } else if i % 2 == 0 { 2f64.powi(j) } else { 2f64.powi(-j) } }).collect(),
                        2 => (0..n).map(|i| if i == k % n { 1.0 } else { rng.range(1, 40) as f64 / 4.0 }).collect(),
                        // g^n as n factors g a_i / a_{i+1} (cyclic): product exactly g^n, exact while the a_i are powers of two
                        3 => {
                            let g = *rng.pick(&[2.0, 3.0, 0.5, 10.0, 1.5, 6.0, 0.75]);
                            let a: Vec<f64> = (0..n).map(|_| 2f64.powi(rng.range(-6, 6) as i32)).collect();
                            (0..n).map(|i| g * a[i] / a[(i + 1) % n]).collect()
                        }
                        // squares / cubes: [a^2, b^2] -> a b
                        4 => (0..n).map(|i| { let a = (i % 5 + 2) as f64; if k % 2 == 0 { a * a } else { a * a * a } }).collect(),
                        // constant sample of a value whose logarithm is tiny: 1 + j 2^-52
                        _ => vec![f64::from_bits(1f64.to_bits() + (k % 5) as u64); n],
                    };
                    let at = (k * 3 + 1) % n;
                    xs[at] = nudge(xs[at], mode);
                    emit(format!("geom {}", req_vec_f(&xs)));
                }
            }
        }
    }
}

/// ORDER / MONOTONICITY OF THE DATA (fifth seeded round): samples that are SORTED in some sense - strictly decreasing
/// magnitude (positive, negative "in rising order", mixed signs), strictly increasing, sorted with one adjacent swap or
/// one tie, ranked integers n..1 and 1..n, decaying / growing geometric signals, sorted by signed value (V-shaped
/// magnitudes), a permutation of a sorted sample, asymmetric data whose sum is exactly zero - at every length 2..=40,
/// 63..=66, 127..=130 and 200, for the mean, both deviations, the geometric mean (of the magnitudes), an exact
/// translation and an exact scaling.  Judged by the exact-rational defining formulas of the plug-in.
fn ordered(rng: &mut Rng, thorough: bool, emit: &mut dyn FnMut(String)) {
    let reps = if thorough { 6 } else { 1 };
    let lengths: Vec<usize> = (2..=40usize).chain(63..=66).chain(127..=130).chain([200]).collect();
    let mut k = 0usize;
    for _ in 0..reps {
        for &n in &lengths {
            for pattern in 0..16usize {
                k += 1;
                // distinct magnitudes, sorted decreasingly
                let mut mags: Vec<f64> = match k % 4 {
                    0 => (0..n).map(|_| rng.uniform(1e-3, 1e6)).collect(),
                    1 => {
                        // distinct integers
                        let mut x = 0i64;
                        (0..n).map(|_| { x += rng.range(1, 9); x as f64 }).collect()
                    }
                    2 => (0..n).map(|_| 10f64.powf(rng.uniform(-6.0, 6.0)).min(1e6)).collect(),
                    _ => {
                        // distinct dyadics
                        let mut x = 0i64;
                        (0..n).map(|_| { x += rng.range(1, 64); x as f64 / 16.0 }).collect()
                    }
                };
                mags.sort_by(|a, b| b.partial_cmp(a).unwrap());
                mags.dedup();
                while mags.len() < n {
                    let last = *mags.last().unwrap();
                    mags.push(last / 2.0);
                }
                let xs: Vec<f64> = match pattern {
                    // strictly decreasing magnitude: positive, negative (rising values), random signs, alternating signs
                    0 => mags.clone(),
                    1 => mags.iter().map(|m| -m).collect(),
                    2 => mags.iter().map(|m| if rng.chance(1, 2) { -m } else { *m }).collect(),
                    3 => mags.iter().enumerate().map(|(i, m)| if i % 2 == 0 { *m } else { -m }).collect(),
                    // strictly increasing magnitude: positive, negative (falling values)
                    4 => mags.iter().rev().cloned().collect(),
                    5 => mags.iter().rev().map(|m| -m).collect(),
                    // sorted by signed value, ascending / descending (V-shaped magnitudes)
                    6 | 7 => {
                        let mut v: Vec<f64> = mags.iter().map(|m| if rng.chance(1, 2) { -m } else { *m }).collect();
                        v.sort_by(|a, b| a.partial_cmp(b).unwrap());
                        if pattern == 7 {
                            v.reverse();
                        }
                        v
                    }
                    // decreasing with one adjacent swap / one tie / one swap of two distant places
                    8 => {
                        let mut v = mags.clone();
                        let i = rng.below(n as u64 - 1) as usize;
                        v.swap(i, i + 1);
                        v
                    }
                    9 => {
                        let mut v = mags.clone();
                        let i = rng.below(n as u64 - 1) as usize;
                        v[i + 1] = v[i];
                        v
                    }
                    10 => {
                        let mut v: Vec<f64> = mags.iter().map(|m| -m).collect();
                        let i = rng.below(n as u64) as usize;
                        let j = rng.below(n as u64) as usize;
                        v.swap(i, j);
                        v
                    }
                    // ranked integers n..1, 1..n
                    11 => (0..n).map(|i| (n - i) as f64).collect(),
                    12 => (0..n).map(|i| (i + 1) as f64 * if k % 2 == 0 { 1.0 } else { -1.0 }).collect(),
                    // a decaying / growing geometric signal a r^i (ratio 0.8, 0.5, 0.9, 0.99)
                    13 => {
                        let r = *rng.pick(&[0.8, 0.5, 0.9, 0.99, 0.75]);
                        let a = *rng.pick(&[1000.0, 1.0, 1e6, -1000.0, 12.5]);
                        let mut v: Vec<f64> = (0..n).map(|i| a * f64::powi(r, i as i32)).collect();
                        if k % 3 == 0 {
                            v.reverse();
                        }
                        v
                    }
                    // strictly decreasing magnitudes whose sum is exactly zero: the first value balances the rest
                    // (integers / dyadics), the rest in decreasing order
                    14 => {
                        let mut x = 0i64;
                        let mut tail: Vec<f64> = (1..n).map(|_| { x += rng.range(1, 9); x as f64 / 4.0 }).collect();
                        tail.reverse();
                        let total: f64 = tail.iter().sum();
                        let mut v = vec![-total];
                        v.extend(tail);
                        v
                    }
                    // a random permutation of the sorted sample
                    _ => {
                        let mut v = mags.clone();
                        for i in (1..n).rev() {
                            let j = rng.below(i as u64 + 1) as usize;
                            v.swap(i, j);
                        }
                        v
                    }
                };
                emit(format!("mean {}", req_vec_f(&xs)));
                emit(format!("std {} {}", if k % 2 == 0 { "p" } else { "s" }, req_vec_f(&xs)));
                match k % 3 {
                    0 => emit(format!("samplepop {}", req_vec_f(&xs))),
                    1 => {
                        // an exact translation (integer / dyadic data) or any translation
                        let c = if k % 2 == 0 { rng.range(-1000, 1000) as f64 } else { rng.dyadic(1 << 19, 8) };
                        emit(format!("translate {} {} {}", if k % 2 == 0 { "s" } else { "p" }, rbits(c), req_vec_f(&xs)));
                    }
                    _ => {
                        let c = 2f64.powi(rng.range(-8, 8) as i32) * if rng.chance(1, 2) { -1.0 } else { 1.0 };
                        let ss: Vec<f64> = xs.iter().map(|x| x / 256.0).collect();
                        emit(format!("scale {} {} {}", if k % 2 == 0 { "s" } else { "p" }, rbits(c), req_vec_f(&ss)));
                    }
                }
                // the geometric mean of the magnitudes (positive data) in the same order
                let ps: Vec<f64> = xs.iter().map(|x| x.abs()).collect();
                if ps.iter().all(|x| *x > 0.0) {
                    emit(format!("geom {}", req_vec_f(&ps)));
                }
            }
        }
    }
}

/// `steps` units in the last place above the positive number `x` (crossing binade boundaries and the
/// subnormal / normal boundary like the reals do)
fn ulps_above(x: f64, steps: u64) -> f64 {
    f64::from_bits(x.to_bits() + steps)
}

/// THE EDGE OF THE NUMBER RANGE (third seeded round).  The statement's range is |x| <= 1e6, so values of every small
/// magnitude are inside it: samples whose values agree to within 1..8 units in the last place at EVERY binade from the
/// smallest subnormal to 1e6 (the largest deviation is then far below the values: below 2^-1024, where a reciprocal
/// overflows, for values below 2^-972), samples of deep subnormals, whole samples of magnitude 1e-323 .. 1e-290, exact
/// translations / scalings down there, geometric means of tiny positive values.
fn edge_of_range(rng: &mut Rng, thorough: bool, emit: &mut dyn FnMut(String)) {
    let reps = if thorough { 12 } else { 1 };
    let mut k = 0usize;
    for _ in 0..reps {
        // (f) spread of 1..8 ulps in every binade 2^-1074 .. 2^19 (1e6 < 2^20)
        for e in -1074..=19i64 {
            let base = if e < -1022 {
                // subnormal: k 2^-1074 with 2^(e+1074) <= k < 2^(e+1075)
                let lo = 1u64 << (e + 1074);
                f64::from_bits(lo + rng.below(lo))
            } else {
                2f64.powi(e as i32) * rng.uniform(1.0, 2.0)
            };
            let spread = 1 + rng.below(8);
            let n = *rng.pick(&[2usize, 2, 3, 4, 5, 8, 9, 17, 40, 200]);
            let neg = rng.chance(1, 3);
            let mut xs: Vec<f64> = (0..n)
                .map(|i| {
                    let j = if i == 0 { 0 } else if i == 1 { spread } else { rng.below(spread + 1) };
                    let x = ulps_above(base, j);
                    if neg { -x } else { x }
                })
                .collect();
            if rng.chance(1, 2) {
                xs.reverse();
            }
            k += 1;
            emit(format!("samplepop {}", req_vec_f(&xs)));
            match k % 4 {
                0 => emit(format!("mean {}", req_vec_f(&xs))),
                1 => emit(format!("std p {}", req_vec_f(&xs))),
                2 => emit(format!("std s {}", req_vec_f(&xs))),
                _ => {}
            }
        }
        // the spelled-out neighbours: [x, next_up(x)] for powers of ten and two
        for x in [1e-300, 1e-308, 1e-292, 1e-293, 1e-200, 1e-162, 1e-154, 1e-100, 1e-16, 0.1, 1.0, 1e6 - 1.0, 999_999.999_999_999_9] {
            for st in [1u64, 2, 4] {
                let xs = [x, ulps_above(x, st)];
                emit(format!("samplepop {}", req_vec_f(&xs)));
                emit(format!("std s {}", req_vec_f(&[-xs[1], -xs[0], -xs[1]])));
            }
        }
        for e in [-1074i32, -1073, -1060, -1030, -1025, -1024, -1023, -1022, -1021, -1000, -973, -972, -971, -970, -600, -540, -538, -537, -536, -512, -500] {
            let x = if e < -1022 { f64::from_bits(1u64 << (e + 1074)) } else { 2f64.powi(e) };
            // 40 values within 4 ulps of a power of two (on both sides of it when it is not the smallest number)
            let xs: Vec<f64> = (0..40).map(|i| if e > -1074 && i % 3 == 0 { f64::from_bits(x.to_bits() - 1 - (i as u64 % 2)) } else { ulps_above(x, i as u64 % 5) }).collect();
            emit(format!("samplepop {}", req_vec_f(&xs)));
            emit(format!("std p {}", req_vec_f(&xs)));
            emit(format!("mean {}", req_vec_f(&xs)));
        }
        // (g) deep subnormals: k 2^-1074 with k < 2^b, b = 1..52, any signs; zeros among them
        for b in 1..=52u32 {
            for style in 0..3 {
                let n = *rng.pick(&[2usize, 3, 5, 8, 9, 33, 200]);
                let mut xs: Vec<f64> = (0..n)
                    .map(|_| {
                        let x = f64::from_bits(rng.below(1u64 << b));
                        match style {
                            0 => x,
                            1 => if rng.chance(1, 2) { -x } else { x },
                            _ => if rng.chance(1, 3) { 0.0 } else { x },
                        }
                    })
                    .collect();
                // not constant
                xs[0] = f64::from_bits((1u64 << b) - 1);
                xs[n - 1] = if style == 1 { -f64::from_bits(1) } else { 0.0 };
                k += 1;
                emit(format!("samplepop {}", req_vec_f(&xs)));
                if k % 2 == 0 {
                    emit(format!("mean {}", req_vec_f(&xs)));
                    emit(format!("std {} {}", if k % 4 == 0 { "p" } else { "s" }, req_vec_f(&xs)));
                }
            }
        }
        let tiny = f64::from_bits(1);
        for xs in [vec![0.0, tiny], vec![tiny, 0.0], vec![tiny, 2.0 * tiny], vec![-tiny, tiny], vec![0.0, 0.0, tiny], vec![tiny, tiny, 2.0 * tiny, tiny], vec![0.0, f64::MIN_POSITIVE], vec![f64::MIN_POSITIVE, ulps_above(f64::MIN_POSITIVE, 1)], vec![f64::MIN_POSITIVE, f64::from_bits(f64::MIN_POSITIVE.to_bits() - 1)], vec![-0.0, tiny, -tiny]] {
            emit(format!("samplepop {}", req_vec_f(&xs)));
            emit(format!("std p {}", req_vec_f(&xs)));
            emit(format!("std s {}", req_vec_f(&xs)));
            emit(format!("mean {}", req_vec_f(&xs)));
        }
        // (h) whole samples of magnitude 10^e, e = -323 .. -290 and -170 .. -150 (squares of deviations underflow below
        // 1e-154), ordinary relative spread
        for e in (-323..=-290i32).chain(-170..=-150) {
            let n = *rng.pick(&[2usize, 3, 5, 8, 9, 17, 64, 200]);
            let scale = if e < -300 { 10f64.powi(e + 300) * 1e-300 } else { 10f64.powi(e) };
            let xs: Vec<f64> = (0..n).map(|_| scale * rng.uniform(0.5, 1.0) * if rng.chance(1, 2) { -1.0 } else { 1.0 }).collect();
            k += 1;
            emit_all(emit, &xs, k);
        }
        // (i) exact translations and scalings down there: integers times 2^e, shift an integer times 2^e, factor +-2^s
        for e in [-1074i32, -1070, -1060, -1030, -1022, -1000, -972, -600, -540, -537, -530] {
            let unit = if e < -1022 { f64::from_bits(1u64 << (e + 1074)) } else { 2f64.powi(e) };
            let n = *rng.pick(&[2usize, 3, 8, 9, 40]);
            let xs: Vec<f64> = (0..n).map(|i| (if i == 0 { 7 } else { rng.range(-100, 100) }) as f64 * unit).collect();
            let c = rng.range(-1000, 1000) as f64 * unit;
            emit(format!("translate {} {} {}", if k % 2 == 0 { "p" } else { "s" }, rbits(c), req_vec_f(&xs)));
            let f = 2f64.powi(rng.range(1, 12) as i32) * if rng.chance(1, 2) { -1.0 } else { 1.0 };
            emit(format!("scale {} {} {}", if k % 2 == 0 { "s" } else { "p" }, rbits(f), req_vec_f(&xs)));
            k += 1;
        }
        // (j) geometric means of tiny positive values: subnormal, around the smallest normal number, mixed with ordinary ones
        for b in [1u32, 2, 3, 8, 20, 40, 52] {
            for n in [1usize, 2, 3, 9, 64, 200] {
                let xs: Vec<f64> = (0..n).map(|_| f64::from_bits(1 + rng.below(1u64 << b))).collect();
                emit(format!("geom {}", req_vec_f(&xs)));
            }
        }
        for _ in 0..30 {
            let n = *rng.pick(&[2usize, 3, 8, 9, 17, 100, 200]);
            let style = rng.below(3);
            let xs: Vec<f64> = (0..n)
                .map(|_| match style {
                    0 => 2f64.powi(-rng.range(1000, 1022) as i32) * rng.uniform(1.0, 2.0),
                    1 => if rng.chance(1, 2) { f64::from_bits(1 + rng.below(1u64 << 30)) } else { rng.uniform(1.0, 1e6) },
                    _ => 10f64.powf(rng.uniform(-323.0, -290.0)).max(f64::from_bits(1)),
                })
                .collect();
            emit(format!("geom {}", req_vec_f(&xs)));
        }
    }
}
