import SV.Model.C18
/-!
Model of the three regressors of `spindalis::regressors::linear` and of `LinearModel`
(least_squares.rs, polynomial.rs, gradient_descent.rs, mod.rs).  Generic in the scalar; `sqrt` is a
function parameter and so is the linear solver used by the polynomial fit (`gaussian_elimination`,
modelled by property C08); the driver instantiates it with `Driver.gauss`, a line-by-line `Float`
transcription of solvers/gaussian_elim.rs + `back_substitution`.

Conventions (DESIGN.md section 3):
* `iter().sum::<f64>()` is `SV.C18.fsum` (left fold from `-0.0`), `powi` is `SV.C18.powi`
  (compiler-rt loop), `n as f64` is the `NatCast`, `zip` is `List.zip` (stops at the shorter list).
* The code divides unguarded.  Where a divisor is 0 IEEE arithmetic yields NaN or ±∞; the model
  branches on `d == 0` and returns `none` ("undefined") there:
    - `lsFit`: `n = 0` or `D = n Σx² − (Σx)² = 0`  ⇒ every coefficient is NaN/±∞ ⇒ `none`;
    - `gdFit`: `n = 0` ⇒ the start value `mean y` is NaN ⇒ `none`;
    - `r2`: `SST = 0` ⇒ `none`;  `std_err`: `n − 2 = 0` ⇒ `none`.
  Both sides of the correspondence print `undef` for a NaN/±∞ value, so these rules are validated
  by K on inputs that hit them.
* `PolynomialRegression::fit` unwraps the solver's result: a refused system is `Outcome.panic`.
-/
namespace SV.C15
open SV SV.C18

/-- `LinearModel` (`std_err`, `r2`: `none` = division by zero, see above) -/
structure Fit (S : Type) where
  coeffs : List S
  stdErr : Option S
  r2 : Option S
deriving Repr

variable {S : Type} [Add S] [Sub S] [Mul S] [Div S] [Neg S] [OfNat S 0] [OfNat S 1] [NatCast S] [BEq S]

/-- the terms `c * x.powi(pow)` of `coefficients.iter().enumerate().map(..)`, powers from `k` -/
def terms (x : S) : Nat → List S → List S
  | _, [] => []
  | k, c :: cs => (c * powi x k) :: terms x (k + 1) cs

/-- `LinearModel::predict` (and the inner `y_pred` of the polynomial fit) -/
def predict (coeffs : List S) (x : S) : S := fsum (terms x 0 coeffs)

/-- `LinearModel::intercept` (`coefficients[0]`; indexing an empty vector panics) -/
def intercept (coeffs : List S) : Option S := coeffs.head?

/-- `LinearModel::slope` -/
def slope (coeffs : List S) : Option S :=
  match coeffs with
  | [_, b] => some b
  | _ => none

/-- `LinearModel::slopes` -/
def slopes (coeffs : List S) : Option (List S) :=
  if coeffs.length > 2 then some coeffs.tail else none

/-- `sq_total` -/
def sqTotal (y : List S) (yMean : S) : S := fsum (y.map fun yi => powi (yi - yMean) 2)

/-- `sq_residual` for a prediction function -/
def sqResidual (pred : S → S) (x y : List S) : S :=
  fsum ((x.zip y).map fun p => powi (p.2 - pred p.1) 2)

/-- `std_err = (sq_residual / (length - 2.0)).sqrt()` -/
def stdErrOf (sqrt : S → S) (sse : S) (len : Nat) : Option S :=
  if len = 2 then none else some (sqrt (sse / ((len : S) - ((2 : Nat) : S))))

/-- `r2 = (sq_total - sq_residual) / sq_total` -/
def r2Of (sst sse : S) : Option S :=
  if sst == 0 then none else some ((sst - sse) / sst)

/-- the tail common to the three `fit`s -/
def mkFit (sqrt : S → S) (coeffs : List S) (pred : S → S) (x y : List S) (yMean : S) (len : Nat) :
    Fit S :=
  let sst := sqTotal y yMean
  let sse := sqResidual pred x y
  { coeffs := coeffs, stdErr := stdErrOf sqrt sse len, r2 := r2Of sst sse }

/-! ### `LeastSquaresRegression::fit` -/

def lsFit (sqrt : S → S) (x y : List S) : Option (Fit S) :=
  let length : S := (x.length : S)
  let sumx := fsum x
  let sumy := fsum y
  let sumxy := fsum ((x.zip y).map fun p => p.1 * p.2)
  let sumx2 := fsum (x.map fun xi => powi xi 2)
  if x.length = 0 then none
  else
    let xMean := sumx / length
    let yMean := sumy / length
    let d := length * sumx2 - sumx * sumx
    if d == 0 then none
    else
      let slope := (length * sumxy - sumx * sumy) / d
      let intercept := yMean - slope * xMean
      some (mkFit sqrt [intercept, slope] (fun xi => intercept + slope * xi) x y yMean x.length)

/-! ### `PolynomialRegression::fit` -/

/-- `matrix[i][j] = matrix[j][i] = Σ x^(i+j)` -/
def momentMatrix (order : Nat) (x : List S) : Mat S :=
  Mat.tab (order + 1) (order + 1) fun i j => fsum (x.map fun xi => powi xi (i + j))

/-- `rhs[i] = Σ y * x^i` over `y.iter().zip(x.iter())` -/
def momentRhs (order : Nat) (x y : List S) : List S :=
  (List.range (order + 1)).map fun i => fsum ((y.zip x).map fun p => p.1 * powi p.2 i)

def polyFit (sqrt : S → S) (solve : Mat S → List S → Option (List S)) (order : Nat)
    (x y : List S) : Outcome Unit (Fit S) :=
  match solve (momentMatrix order x) (momentRhs order x y) with
  | none => .panic
  | some coeffs =>
    let yMean := fsum y / (y.length : S)
    .ok (mkFit sqrt coeffs (predict coeffs) x y yMean y.length)

/-! ### `GradientDescentRegression::fit` -/

/-- one pass of the loop on `(wy, wx)`: both gradients are computed from the old weights -/
def gdStep (alpha : S) (x y : List S) (w : S × S) : S × S :=
  let wy := w.1
  let wx := w.2
  let yPred := x.map fun xi => wy + wx * xi
  let gradWy := fsum ((yPred.zip y).map fun p => p.1 - p.2) / (y.length : S)
  let gradWx := fsum (((yPred.zip y).zip x).map fun p => (p.1.1 - p.1.2) * p.2) / (y.length : S)
  (wy - alpha * gradWy, wx - alpha * gradWx)

def gdLoop (alpha : S) (x y : List S) : Nat → S × S → S × S
  | 0, w => w
  | k + 1, w => gdLoop alpha x y k (gdStep alpha x y w)

def gdFit (sqrt : S → S) (steps : Nat) (alpha : S) (x y : List S) : Option (Fit S) :=
  if y.length = 0 then none
  else
    let yMean := fsum y / (y.length : S)
    let w := gdLoop alpha x y steps (yMean, 0)
    some (mkFit sqrt [w.1, w.2] (fun xi => w.1 + w.2 * xi) x y yMean y.length)

end SV.C15

/-! ### driver -/
namespace SV.C15.Driver
open SV SV.Wire SV.C15

local instance : NatCast Float := ⟨Float.ofNat⟩

/-- `gaussian_elimination(&matrix, &rhs, tol)` followed by `back_substitution`, transcribed line by
line for `f64` (scaled partial pivoting; the scale factors are the row maxima of the original
matrix and travel with their rows; the pivot test is `|a_kk / s_k| < tol`).  `none` = any `Err`. -/
def gauss (tol : Float) (M : Mat Float) (rhs : List Float) : Option (List Float) := Id.run do
  if M.h ≠ M.w then return none
  if M.h ≠ rhs.length then return none
  let n := M.h
  if n = 0 then return none
  let mut a : Array (Array Float) :=
    Array.ofFn (n := n) fun i => Array.ofFn (n := n) fun j => M.get i.val j.val
  let mut b : Array Float := rhs.toArray
  let mut s : Array Float := Array.replicate n 0.0
  -- scaling vector
  for i in [0:n] do
    let mut si := (a[i]![0]!).abs
    for j in [1:n] do
      if (a[i]![j]!).abs > si then
        si := (a[i]![j]!).abs
    s := s.set! i si
    if si == 0.0 then return none
  -- forward elimination
  for k in [0:n - 1] do
    -- partial_pivot
    let mut p := k
    let mut big := (a[k]![k]! / s[k]!).abs
    for ii in [k + 1:n] do
      let temp := (a[ii]![k]! / s[ii]!).abs
      if temp > big then
        big := temp
        p := ii
    if p ≠ k then
      let rp := a[p]!
      let rk := a[k]!
      a := (a.set! p rk).set! k rp
      let bp := b[p]!
      let bk := b[k]!
      b := (b.set! p bk).set! k bp
      let sp := s[p]!
      let sk := s[k]!
      s := (s.set! p sk).set! k sp
    if (a[k]![k]! / s[k]!).abs < tol then return none
    for i in [k + 1:n] do
      let factor := a[i]![k]! / a[k]![k]!
      let mut row := a[i]!
      for j in [k + 1:n] do
        row := row.set! j (row[j]! - factor * a[k]![j]!)
      a := a.set! i row
      b := b.set! i (b[i]! - factor * b[k]!)
  if (a[n - 1]![n - 1]! / s[n - 1]!).abs < tol then return none
  -- back substitution
  let mut sol : Array Float := Array.replicate n 0.0
  sol := sol.set! (n - 1) (b[n - 1]! / a[n - 1]![n - 1]!)
  for t in [0:n - 1] do
    let i := n - 2 - t
    let mut sum := 0.0
    for j in [i + 1:n] do
      sum := sum + a[i]![j]! * sol[j]!
    sol := sol.set! i ((b[i]! - sum) / a[i]![i]!)
  return some sol.toList

/-- `f64::EPSILON`, the tolerance polynomial.rs passes to the solver -/
def epsilon : Float := Float.ofBits 0x3CB0000000000000

def solve (M : Mat Float) (r : List Float) : Option (List Float) := gauss epsilon M r

/-- NaN and ±∞ are printed as `undef` on both sides -/
def fu (v : Float) : String := if v.isFinite then fmtF v else "undef"

def fuO : Option Float → String
  | some v => fu v
  | none => "undef"

def fmtFit (f : Fit Float) (qs : List Float) : String :=
  if f.coeffs.any (fun c => !c.isFinite) then "undef"
  else
    let sl := match slope f.coeffs with
      | some b => fu b
      | none => "none"
    let sls := match slopes f.coeffs with
      | some l => fmtList fu l
      | none => "none"
    let ic := match intercept f.coeffs with
      | some a => fu a
      | none => "panic"
    "coef " ++ fmtList fu f.coeffs ++ " se " ++ fuO f.stdErr ++ " r2 " ++ fuO f.r2
      ++ " int " ++ ic ++ " slope " ++ sl ++ " slopes " ++ sls
      ++ " pred " ++ fmtList fu (qs.map fun q => predict f.coeffs q)

def fmtO (r : Option (Fit Float)) (qs : List Float) : String :=
  match r with
  | some f => fmtFit f qs
  | none => "undef"

def fmtP (r : Outcome Unit (Fit Float)) (qs : List Float) : String :=
  match r with
  | .ok f => fmtFit f qs
  | .err _ => "err"
  | .panic => "panic"

def fmtCoefs (r : Outcome Unit (Fit Float)) : String :=
  match r with
  | .ok f => if f.coeffs.any (fun c => !c.isFinite) then "undef" else "coef " ++ fmtList fu f.coeffs
  | .err _ => "err"
  | .panic => "panic"

def handle (line : String) : String :=
  let p : P String := do
    let cmd ← tok
    match cmd with
    | "fit_ls" => do
      let x ← vec Wire.float; let y ← vec Wire.float; let q ← vec Wire.float
      return fmtO (lsFit Float.sqrt x y) q
    | "fit_poly" => do
      let order ← nat
      let x ← vec Wire.float; let y ← vec Wire.float; let q ← vec Wire.float
      return fmtP (polyFit Float.sqrt solve order x y) q
    | "fit_gd" => do
      let steps ← nat
      let alpha ← Wire.float
      let x ← vec Wire.float; let y ← vec Wire.float; let q ← vec Wire.float
      return fmtO (gdFit Float.sqrt steps alpha x y) q
    | "nest" => do
      let top ← nat
      let x ← vec Wire.float; let y ← vec Wire.float
      return " ".intercalate ((List.range (top + 1)).map fun m =>
        fmtCoefs (polyFit Float.sqrt solve m x y))
    | "line" => do
      let x ← vec Wire.float; let y ← vec Wire.float
      let l := match lsFit Float.sqrt x y with
        | some f => if f.coeffs.any (fun c => !c.isFinite) then "undef" else "coef " ++ fmtList fu f.coeffs
        | none => "undef"
      return l ++ " " ++ fmtCoefs (polyFit Float.sqrt solve 1 x y)
    | _ => fail
  match run p line with
  | some s => s
  | none => "bad-request"

end SV.C15.Driver
