import SV.Model.C04
import SV.Lemmas.C03
/-!
Helper lemmas for C04: integrating a term and differentiating it again.
-/
set_option linter.unusedSectionVars false
namespace SV.C04
open SV SV.Poly SV.C03

section simple
open Polynomial

theorem derivFrom_integFrom {K : Type} [Field K] [CharZero K] (k : ℕ) (cs : List K) :
    derivFrom (k + 1) (integFrom k cs) = cs := by
  induction cs generalizing k with
  | nil => rfl
  | cons c cs ih =>
    simp only [integFrom, derivFrom, ih, List.cons.injEq, and_true]
    have hne : ((k : K) + 1) ≠ 0 := Nat.cast_add_one_ne_zero k
    rw [Nat.cast_add, Nat.cast_one, div_mul_cancel₀ _ hne]

theorem ofCoeffsFrom_eval_zero {K : Type} [Field K] (k : ℕ) (cs : List K) :
    (ofCoeffsFrom (k + 1) cs).eval 0 = 0 := by
  induction cs generalizing k with
  | nil => simp [ofCoeffsFrom]
  | cons c cs ih => simp [ofCoeffsFrom, ih]

end simple

section roundtrip
variable {K : Type} [Field K] [LinearOrder K]

theorem integVars_none {v : String} {vs : List (String × K)} (h : v ∉ names vs) :
    integVars v vs = none := by
  induction vs with
  | nil => rfl
  | cons a vs ih =>
    obtain ⟨w, p⟩ := a
    simp only [names, List.map_cons, List.mem_cons, not_or] at h
    have hw : ¬ w = v := fun e => h.1 e.symm
    simp only [integVars, hw, if_false, ih h.2]

theorem integVars_append {v : String} {pre post : List (String × K)} (p : K) (h : v ∉ names pre) :
    integVars v (pre ++ (v, p) :: post) = some (p + 1, pre ++ (v, p + 1) :: post) := by
  induction pre with
  | nil => simp [integVars]
  | cons a pre ih =>
    obtain ⟨w, q⟩ := a
    simp only [names, List.map_cons, List.mem_cons, not_or] at h
    have hw : ¬ w = v := fun e => h.1 e.symm
    simp only [List.cons_append, integVars, hw, if_false, ih h.2]

theorem derivVars_append {v : String} {pre post : List (String × K)} (p : K) (h : v ∉ names pre) :
    derivVars v (pre ++ (v, p) :: post)
      = some (p, pre ++ (if isZero (p - 1) then post else (v, p - 1) :: post)) := by
  induction pre with
  | nil => simp [derivVars]
  | cons a pre ih =>
    obtain ⟨w, q⟩ := a
    simp only [names, List.map_cons, List.mem_cons, not_or] at h
    have hw : ¬ w = v := fun e => h.1 e.symm
    simp only [List.cons_append, derivVars, hw, if_false, ih h.2]

/-- splitting a `NodupVars` term at the variable -/
theorem split_at {v : String} {vs : List (String × K)} (hnd : (names vs).Nodup) (hv : v ∈ names vs) :
    ∃ pre p post, vs = pre ++ (v, p) :: post ∧ v ∉ names pre ∧ v ∉ names post := by
  obtain ⟨pre, p, post, hvs, hpre, _⟩ := derivVars_split hv
  refine ⟨pre, p, post, hvs, hpre, ?_⟩
  rw [hvs] at hnd
  simp only [names, List.map_append, List.map_cons] at hnd
  exact (List.nodup_cons.1 (List.nodup_append.1 hnd).2.1).1

/-- two lists of pairs, strictly sorted by name, with the same elements are equal -/
theorem sortedPairs_ext {l l' : List (String × K)} (h : strictSorted (names l) = true)
    (h' : strictSorted (names l') = true) (hp : l.Perm l') : l = l' := by
  have h1 := (strictSorted_iff _).1 h
  have h2 := (strictSorted_iff _).1 h'
  rw [names, List.pairwise_map] at h1 h2
  exact List.Perm.eq_of_pairwise (le := fun a b : String × K => a.1 < b.1)
    (fun a b _ _ hab hba => absurd hab (not_lt_of_gt hba)) h1 h2 hp

/-- **Integrate one term, then differentiate it** (`sort_poly` after each step, as in the code).
For a term with sorted duplicate-free variables and no `v^(-1)`: the derivative step finds `v`
(so the term is kept), the coefficient comes back, the value of the variable list comes back
(given `powf x 0 = 1`, needed only for a literal `v^0`), and when the term carries no `v^0` the
variable list itself comes back. -/
theorem roundtrip_term (powf : K → K → K) (hp0 : ∀ x, powf x 0 = 1) (σ : String → K) (v : String)
    (t : Term K) (hs : strictSorted (names t.vars) = true) (hne : ∀ p, (v, p) ∈ t.vars → p + 1 ≠ 0) :
    ∃ m vs', derivVars v (sortVars (integTerm v t).vars) = some (m, vs') ∧
      (integTerm v t).coef * m = t.coef ∧
      varsVal powf σ vs' = varsVal powf σ t.vars ∧
      (∀ w ∈ names vs', w ∈ names t.vars) ∧
      ((∀ p, (v, p) ∈ t.vars → p ≠ 0) → sortVars vs' = t.vars) := by
  have hnd := strictSorted_nodup hs
  by_cases hv : v ∈ names t.vars
  · obtain ⟨pre, p, post, hvs, hpre, hpost⟩ := split_at hnd hv
    have hp1 : p + 1 ≠ 0 := hne p (by rw [hvs]; simp)
    have hint : integTerm v t = ⟨t.coef / (p + 1), pre ++ (v, p + 1) :: post⟩ := by
      unfold integTerm; rw [hvs, integVars_append p hpre]
    have hnames : names (pre ++ (v, p + 1) :: post) = names t.vars := by
      rw [hvs]; simp [names]
    have hsort : sortVars (pre ++ (v, p + 1) :: post) = pre ++ (v, p + 1) :: post :=
      sortVars_of_sorted (by rw [hnames]; exact hs)
    have hpp : p + 1 - 1 = p := by ring
    refine ⟨p + 1, _, by rw [hint]; simp only; rw [hsort, derivVars_append _ hpre], ?_, ?_, ?_, ?_⟩
    · rw [hint]; simp only; exact div_mul_cancel₀ _ hp1
    · rw [hpp, hvs]
      by_cases hz : isZero p = true
      · have : p = 0 := (isZero_iff p).1 hz
        rw [if_pos hz, varsVal_append, varsVal_append, varsVal_cons]
        simp only [this, hp0, one_mul]
      · rw [if_neg hz]
    · intro w hw
      rw [hpp, hvs] at *
      simp only [names, List.map_append, List.map_cons, List.mem_append, List.mem_cons] at hw ⊢
      rcases hw with hw | hw
      · exact Or.inl hw
      · split at hw
        · exact Or.inr (Or.inr hw)
        · exact Or.inr (by simpa [List.map_cons, List.mem_cons] using hw)
    · intro hno
      have hpne : p ≠ 0 := hno p (by rw [hvs]; simp)
      have hz : ¬ isZero p = true := fun h => hpne ((isZero_iff p).1 h)
      rw [hpp, if_neg hz, ← hvs]
      exact sortVars_of_sorted hs
  · have hint : integTerm v t = ⟨t.coef, t.vars ++ [(v, 1)]⟩ := by
      unfold integTerm; rw [integVars_none hv]
    have hperm : (sortVars (t.vars ++ [(v, 1)])).Perm (t.vars ++ [(v, 1)]) := sortVars_perm _
    have hvL : v ∈ names (sortVars (t.vars ++ [(v, 1)])) :=
      (names_sortVars_perm _).mem_iff.2 (by simp [names])
    obtain ⟨pre, q, post, hL, hpre, hd⟩ := derivVars_split hvL
    have hq : q = 1 := by
      have hmem : (v, q) ∈ t.vars ++ [(v, 1)] := hperm.mem_iff.1 (by rw [hL]; simp)
      rw [List.mem_append, List.mem_singleton] at hmem
      rcases hmem with hmem | hmem
      · exact absurd (List.mem_map.2 ⟨(v, q), hmem, rfl⟩) hv
      · exact (Prod.mk.inj hmem).2
    subst hq
    have hz : isZero ((1 : K) - 1) = true := (isZero_iff _).2 (sub_self 1)
    rw [if_pos hz] at hd
    have hpp : (pre ++ post).Perm t.vars := by
      have h1 : ((v, (1 : K)) :: (pre ++ post)).Perm ((v, 1) :: t.vars) := by
        refine (List.perm_middle.symm.trans ?_).trans (List.perm_append_singleton _ _)
        rw [← hL]; exact hperm
      exact List.Perm.cons_inv h1
    refine ⟨1, pre ++ post, by rw [hint]; exact hd, by rw [hint]; simp, varsVal_perm powf σ hpp,
      fun w hw => ((hpp.map _).mem_iff).1 hw, ?_⟩
    intro _
    have hnd' : (names (pre ++ post)).Nodup := ((hpp.map _).nodup_iff).2 hnd
    exact sortedPairs_ext (strictSorted_sortVars hnd') hs ((sortVars_perm _).trans hpp)

/-- the list level: the terms of `partial_derivative (indefinite_integral p v) v` before the final
`sort_poly` -/
theorem roundtrip_terms (powf : K → K → K) (hp0 : ∀ x, powf x 0 = 1) (σ : String → K) (v : String)
    (ts : List (Term K)) (hs : TermsWF ts) (hne : ∀ t ∈ ts, ∀ p, (v, p) ∈ t.vars → p + 1 ≠ 0) :
    polyVal powf σ (derivTerms v ((ts.map (integTerm v)).map fun t => ⟨t.coef, sortVars t.vars⟩))
        = polyVal powf σ ts ∧
    (∀ w ∈ termNames (derivTerms v ((ts.map (integTerm v)).map fun t => ⟨t.coef, sortVars t.vars⟩)),
        w ∈ termNames ts) ∧
    ((∀ t ∈ ts, ∀ p, (v, p) ∈ t.vars → p ≠ 0) →
      (derivTerms v ((ts.map (integTerm v)).map fun t => ⟨t.coef, sortVars t.vars⟩)).map
        (fun t => (⟨t.coef, sortVars t.vars⟩ : Term K)) = ts) := by
  induction ts with
  | nil => simp [derivTerms, termNames]
  | cons t ts ih =>
    obtain ⟨ih1, ih2, ih3⟩ := ih (fun u hu => hs u (List.mem_cons_of_mem _ hu))
      (fun u hu => hne u (List.mem_cons_of_mem _ hu))
    obtain ⟨m, vs', hd, hc, hval, hnm, hstruct⟩ := roundtrip_term powf hp0 σ v t
      (hs t (List.mem_cons_self ..)) (hne t (List.mem_cons_self ..))
    simp only [List.map_cons, derivTerms, hd]
    refine ⟨?_, ?_, ?_⟩
    · rw [polyVal_cons, polyVal_cons, ih1]
      simp only [termVal, hc, hval]
    · intro w hw
      simp only [termNames, List.flatMap_cons, List.mem_append] at hw ⊢
      rcases hw with hw | hw
      · exact Or.inl (hnm w hw)
      · exact Or.inr (ih2 w hw)
    · intro hno
      rw [ih3 (fun u hu => hno u (List.mem_cons_of_mem _ hu)), hc,
        hstruct (hno t (List.mem_cons_self ..))]

/-- every term of an integral contains the integration variable (no constant of integration) -/
theorem integTerm_mem (v : String) (t : Term K) : v ∈ names (integTerm v t).vars := by
  by_cases hv : v ∈ names t.vars
  · rcases integTerm_names v t with h | ⟨h, _⟩
    · rw [h]; exact hv
    · exact absurd hv h
  · unfold integTerm; rw [integVars_none hv]; simp [names]

end roundtrip

end SV.C04
