import SV.Model.C06
import SV.Lemmas.C06
import Mathlib.Algebra.Order.Field.Basic
import Mathlib.Tactic.Ring
import Mathlib.Tactic.Linarith
import Mathlib.Tactic.NormNum
import Mathlib.Tactic.FieldSimp
/-!
# C06 — geometric invariants of the bisection loop

Statements about `SV.C06.bisectLoop` / `bisectCore` / `bisection` that hold for EVERY target
function (also a failing evaluation function), bracket, initial guess, tolerance and iteration cap,
in exact arithmetic over a linearly ordered field `K`:

* `bisect_first_pass_no_test`, `bisectCore_init_irrelevant`, `bisection_init_irrelevant`: the
  initial guess influences nothing but the range check;
* `bisectPass_nested`, `bisect_bracket_nested`, `bisect_root_in_final_bracket`: brackets are
  nested, the candidate of a pass is the midpoint of the previous bracket (or its lower end when
  that is an exact root);
* `bisectPass_halves_or_root`, `bisect_width_halves`, `bisect_width_halves_no_root`,
  `bisect_progress_sign_only`: the width after `k` passes is `(upper − lower) / 2^k` as long as no
  exact root was hit; the passes and brackets depend only on the SIGNS of the function values;
* `bisect_mode_uses_derivative` and corollaries: extrema mode on `p` is root mode on `p'`.
-/
set_option linter.unusedSectionVars false
set_option linter.unnecessarySeqFocus false

namespace SV.Props.C06Bracket
open SV SV.Poly SV.C06

variable {K : Type} [Field K] [LinearOrder K] [IsStrictOrderedRing K]

/-! ## (3) the initial guess is used by the range check only -/

/-- **The first pass does not look at `x_curr`.**  On the pass with `iter == 0` (`first = true`) the
relative-change estimate is not recomputed (the model's guard `iter > 0`), so the pass is the same
function of the bracket and the old estimate, whatever the stored candidate `x` is. -/
theorem bisect_first_pass_no_test (ev : K → Except PErr K) (l u x₁ x₂ a : K) :
    bisectPass ev true ⟨l, u, x₁, a⟩ = bisectPass ev true ⟨l, u, x₂, a⟩ := by
  unfold bisectPass
  simp

/-- … and the estimate it leaves is the one it was given (`100` at the start of a call), unless an
exact root was hit (then `0`): the stopping test after the first pass never sees the initial guess. -/
theorem bisect_first_pass_aerr {ev : K → Except PErr K} {st st' : BState K}
    (h : bisectPass ev true st = .ok st') : st'.aerr = st.aerr ∨ st'.aerr = 0 := by
  unfold bisectPass at h
  cases hl : ev st.lower with
  | error e => simp only [hl] at h; cases h
  | ok fl =>
    cases hm : ev (midpoint st.lower st.upper) with
    | error e => simp only [hl, hm] at h; cases h
    | ok fm =>
      simp only [hl, hm, Bool.not_true, Bool.false_and, Bool.false_eq_true, if_false] at h
      split_ifs at h <;> cases h <;> simp

/-- The loop started at pass 0 is independent of the stored candidate. -/
theorem bisectLoop_init_irrelevant (ev : K → Except PErr K) (tol : K) (rem : Nat) (l u x₁ x₂ a : K) :
    bisectLoop ev tol rem 0 ⟨l, u, x₁, a⟩ = bisectLoop ev tol rem 0 ⟨l, u, x₂, a⟩ := by
  have hf : ((0 : Nat) == 0) = true := rfl
  cases rem with
  | zero =>
    unfold bisectLoop
    rw [hf, bisect_first_pass_no_test ev l u x₁ x₂ a]
  | succ n =>
    unfold bisectLoop
    rw [hf, bisect_first_pass_no_test ev l u x₁ x₂ a]

/-- **The outcome is the same for every in-range initial guess** (any evaluation function): the whole
result — outcome, returned value, number of passes, final bracket — of two calls that differ only in
`init` is equal as soon as both guesses pass the range check.  No "fast path" keyed on the initial
guess (e.g. on its distance to the first midpoint) is compatible with this. -/
theorem bisectCore_init_irrelevant (ev : K → Except PErr K) (lo init₁ init₂ hi tol : K) (itermax : Nat)
    (h₁ : lo ≤ init₁ ∧ init₁ ≤ hi) (h₂ : lo ≤ init₂ ∧ init₂ ≤ hi) :
    bisectCore ev lo init₁ hi tol itermax = bisectCore ev lo init₂ hi tol itermax := by
  unfold bisectCore
  rw [if_neg (by push Not; exact h₁), if_neg (by push Not; exact h₂)]
  exact bisectLoop_init_irrelevant ev tol itermax lo hi init₁ init₂ _

/-- The same for the polynomial entry point, both polynomial kinds and both modes. -/
theorem bisection_init_irrelevant (powf : K → K → K) (p : AnyPoly K) (lo init₁ init₂ hi tol : K)
    (itermax : Nat) (mode : SolveMode)
    (h₁ : lo ≤ init₁ ∧ init₁ ≤ hi) (h₂ : lo ≤ init₂ ∧ init₂ ≤ hi) :
    bisection powf p lo init₁ hi tol itermax mode = bisection powf p lo init₂ hi tol itermax mode := by
  unfold bisection
  rw [if_neg (by push Not; exact h₁), if_neg (by push Not; exact h₂)]
  cases target p mode with
  | error e => rfl
  | ok q => exact bisectLoop_init_irrelevant _ tol itermax lo hi init₁ init₂ _

/-- So the initial guess matters only through the range check: a call is either rejected
(`XInitOutOfBounds`, no pass) or equal to the call with the guess at the lower end. -/
theorem bisection_init_only_range_check (powf : K → K → K) (p : AnyPoly K) (lo init hi tol : K)
    (itermax : Nat) (mode : SolveMode) :
    ((init < lo ∨ hi < init) ∧
      (bisection powf p lo init hi tol itermax mode).out = .err .xInitOutOfBounds) ∨
    ((lo ≤ init ∧ init ≤ hi) ∧
      bisection powf p lo init hi tol itermax mode = bisection powf p lo lo hi tol itermax mode) := by
  by_cases h : init < lo ∨ hi < init
  · left
    refine ⟨h, ?_⟩
    unfold bisection
    rw [if_pos h]
  · right
    push Not at h
    exact ⟨h, bisection_init_irrelevant powf p lo init lo hi tol itermax mode h
      ⟨le_refl _, le_trans h.1 h.2⟩⟩

/-! ## (1) nested brackets -/

/-- **One pass, any evaluation function.**  From `lower ≤ upper` a pass that does not fail leaves a
bracket `[lower', upper']` with `lower ≤ lower' ≤ upper' ≤ upper`; the new bracket is the left half,
the right half, or (exact zero of the sign test) the old bracket; the candidate `x` of the pass is
the midpoint `(lower + upper) / 2` of the previous bracket — or the lower end, when the evaluation
there returned exactly `0` — so `lower ≤ x ≤ upper`, and it lies in the new bracket as well. -/
theorem bisectPass_nested {ev : K → Except PErr K} {first : Bool} {st st' : BState K}
    (h : bisectPass ev first st = .ok st') (hle : st.lower ≤ st.upper) :
    st.lower ≤ st'.lower ∧ st'.lower ≤ st'.upper ∧ st'.upper ≤ st.upper ∧
    (st'.x = (st.lower + st.upper) / 2 ∨ (st'.x = st.lower ∧ ev st.lower = .ok 0)) ∧
    st.lower ≤ st'.x ∧ st'.x ≤ st.upper ∧ st'.lower ≤ st'.x ∧ st'.x ≤ st'.upper ∧
    ((st'.lower = st.lower ∧ st'.upper = (st.lower + st.upper) / 2) ∨
     (st'.lower = (st.lower + st.upper) / 2 ∧ st'.upper = st.upper) ∨
     (st'.lower = st.lower ∧ st'.upper = st.upper)) := by
  obtain ⟨h1, h2, h3, h4⟩ := bisectPass_bracket h hle
  refine ⟨h1, le_trans h2 h3, h4, ?_, le_trans h1 h2, le_trans h3 h4, h2, h3, ?_⟩
  · unfold bisectPass at h
    simp only [midpoint_eq] at h
    split at h
    · cases h
    · rename_i fl hfl
      split at h
      · cases h
      · split_ifs at h with _ _ h0 <;> cases h <;> simp_all
  · unfold bisectPass at h
    simp only [midpoint_eq] at h
    split at h
    · cases h
    · split at h
      · cases h
      · split_ifs at h <;> cases h <;> simp

/-- **The whole loop, any evaluation function.**  The bracket the loop ends with is nested in the
bracket it started from. -/
theorem bisectLoop_nested (ev : K → Except PErr K) (tol : K) :
    ∀ (rem k : Nat) (st : BState K), st.lower ≤ st.upper →
      st.lower ≤ (bisectLoop ev tol rem k st).lower ∧
      (bisectLoop ev tol rem k st).lower ≤ (bisectLoop ev tol rem k st).upper ∧
      (bisectLoop ev tol rem k st).upper ≤ st.upper := by
  intro rem
  induction rem with
  | zero =>
    intro k st hle
    unfold bisectLoop
    split
    · exact ⟨le_refl _, hle, le_refl _⟩
    · rename_i st' hp
      obtain ⟨h1, h2, h3, -⟩ := bisectPass_nested hp hle
      exact ⟨h1, h2, h3⟩
  | succ rem ih =>
    intro k st hle
    unfold bisectLoop
    split
    · exact ⟨le_refl _, hle, le_refl _⟩
    · rename_i st' hp
      obtain ⟨h1, h2, h3, -⟩ := bisectPass_nested hp hle
      split_ifs
      · simp only [finish_lower, finish_upper]
        exact ⟨h1, h2, h3⟩
      · obtain ⟨a, b, c⟩ := ih (k + 1) st' h2
        exact ⟨le_trans h1 a, b, le_trans c h3⟩

/-- A value returned by the loop lies in the bracket the loop ENDED with (which is nested in the
starting one): stronger than "in the caller's bracket". -/
theorem bisectLoop_root_in_final (ev : K → Except PErr K) (tol : K) :
    ∀ (rem k : Nat) (st : BState K) (x : K), st.lower ≤ st.upper →
      (bisectLoop ev tol rem k st).out = .ok x →
      (bisectLoop ev tol rem k st).lower ≤ x ∧ x ≤ (bisectLoop ev tol rem k st).upper := by
  intro rem
  induction rem with
  | zero =>
    intro k st x _ h
    unfold bisectLoop at h
    split at h <;> cases h
  | succ rem ih =>
    intro k st x hle h
    unfold bisectLoop at h ⊢
    split at h
    · cases h
    · rename_i st' hp
      obtain ⟨-, h2, -, -, -, -, h7, h8, -⟩ := bisectPass_nested hp hle
      split_ifs at h ⊢
      · obtain ⟨hx, -⟩ := finish_out_ok h
        subst hx
        simp only [finish_lower, finish_upper]
        exact ⟨h7, h8⟩
      · exact ih (k + 1) st' x h2 h

/-- **Nested brackets for a call** (any evaluation function, any in-range initial guess): the final
bracket satisfies `lo ≤ lower' ≤ upper' ≤ hi`. -/
theorem bisect_bracket_nested (ev : K → Except PErr K) (lo init hi tol : K) (itermax : Nat) :
    (lo ≤ hi →
      lo ≤ (bisectCore ev lo init hi tol itermax).lower ∧
      (bisectCore ev lo init hi tol itermax).lower ≤ (bisectCore ev lo init hi tol itermax).upper ∧
      (bisectCore ev lo init hi tol itermax).upper ≤ hi) := by
  intro hle
  unfold bisectCore
  split_ifs
  · exact ⟨le_refl _, hle, le_refl _⟩
  · exact bisectLoop_nested ev tol itermax 0 ⟨lo, hi, init, _⟩ hle

/-- **Any returned root lies in the final bracket, hence in the caller's bracket** — restated from
the nesting invariant (compare `SV.Props.C06.bisection_sound_ev`). -/
theorem bisect_root_in_final_bracket (ev : K → Except PErr K) (lo init hi tol : K) (itermax : Nat)
    (x : K) (h : (bisectCore ev lo init hi tol itermax).out = .ok x) :
    lo ≤ (bisectCore ev lo init hi tol itermax).lower ∧
    (bisectCore ev lo init hi tol itermax).lower ≤ x ∧
    x ≤ (bisectCore ev lo init hi tol itermax).upper ∧
    (bisectCore ev lo init hi tol itermax).upper ≤ hi ∧ lo ≤ x ∧ x ≤ hi := by
  have hle : lo ≤ hi := by
    unfold bisectCore at h
    split_ifs at h with hout
    push Not at hout
    exact le_trans hout.1 hout.2
  obtain ⟨a, -, c⟩ := bisect_bracket_nested ev lo init hi tol itermax hle
  have hb : (bisectCore ev lo init hi tol itermax).lower ≤ x ∧
      x ≤ (bisectCore ev lo init hi tol itermax).upper := by
    unfold bisectCore at h ⊢
    split_ifs at h ⊢
    exact bisectLoop_root_in_final ev tol itermax 0 ⟨lo, hi, init, _⟩ x hle h
  exact ⟨a, hb.1, hb.2, c, le_trans a hb.1, le_trans hb.2 c⟩

/-! ## (2) the width halves on every pass that does not hit an exact root -/

/-- **One pass of the model on a total function `g`** (`bisectPass (evOf g) first st` returns
`passK g first st`): with `m = (lower + upper) / 2`, either `g lower · g m ≠ 0`, the new bracket is
one of the two halves — its width is exactly half the old width —, the candidate is `m` and the new
error estimate is `nextErr first m st`, an expression in the bracket and the previous candidate in
which NO function value occurs; or `g lower · g m = 0`, the bracket is kept, the estimate is set to
`0` and the candidate (`lower` or `m`) is an exact root.  No hypothesis on the order of the bracket
or on signs. -/
theorem bisectPass_halves_or_root (g : K → K) (first : Bool) (st : BState K) :
    bisectPass (evOf g) first st = .ok (passK g first st) ∧
    ((g st.lower * g ((st.lower + st.upper) / 2) ≠ 0 ∧
        (passK g first st).x = (st.lower + st.upper) / 2 ∧
        (passK g first st).upper - (passK g first st).lower = (st.upper - st.lower) / 2 ∧
        (passK g first st).aerr = nextErr first ((st.lower + st.upper) / 2) st) ∨
     (g st.lower * g ((st.lower + st.upper) / 2) = 0 ∧
        (passK g first st).lower = st.lower ∧ (passK g first st).upper = st.upper ∧
        (passK g first st).aerr = 0 ∧ g (passK g first st).x = 0 ∧
        ((passK g first st).x = st.lower ∨ (passK g first st).x = (st.lower + st.upper) / 2))) := by
  refine ⟨bisectPass_evOf g first st, ?_⟩
  unfold passK
  simp only
  by_cases h1 : g st.lower * g ((st.lower + st.upper) / 2) < 0
  · rw [if_pos h1]
    exact Or.inl ⟨ne_of_lt h1, rfl, by ring, rfl⟩
  · rw [if_neg h1]
    by_cases h2 : 0 < g st.lower * g ((st.lower + st.upper) / 2)
    · rw [if_pos h2]
      exact Or.inl ⟨ne_of_gt h2, rfl, by ring, rfl⟩
    · rw [if_neg h2]
      have h0 : g st.lower * g ((st.lower + st.upper) / 2) = 0 :=
        le_antisymm (not_lt.mp h2) (not_lt.mp h1)
      refine Or.inr ⟨h0, rfl, rfl, rfl, ?_, ?_⟩
      · by_cases h3 : g st.lower = 0
        · simp only [if_pos h3]; exact h3
        · simp only [if_neg h3]
          exact (mul_eq_zero.mp h0).resolve_left h3
      · by_cases h3 : g st.lower = 0
        · simp only [if_pos h3]; exact Or.inl trivial
        · simp only [if_neg h3]; exact Or.inr trivial

/-- **Width after `k` passes, for every `k`** (no bound on `k`, no sign-change or ordering
hypothesis).  For any sequence of loop states `s 0, s 1, …` in which `s (j+1)` is the model's pass
applied to `s j` (with whatever `first` flag), if none of the first `k` passes found
`g lower · g mid = 0`, then `upper_k − lower_k = (upper_0 − lower_0) / 2^k`. -/
theorem bisect_width_halves_seq (g : K → K) (s : Nat → BState K) (fl : Nat → Bool) (k : Nat)
    (hstep : ∀ j, j < k → bisectPass (evOf g) (fl j) (s j) = .ok (s (j + 1)))
    (hnz : ∀ j, j < k → g (s j).lower * g (((s j).lower + (s j).upper) / 2) ≠ 0) :
    (s k).upper - (s k).lower = ((s 0).upper - (s 0).lower) / 2 ^ k := by
  induction k with
  | zero => simp
  | succ k ih =>
    have ih' := ih (fun j hj => hstep j (Nat.lt_succ_of_lt hj)) (fun j hj => hnz j (Nat.lt_succ_of_lt hj))
    have hs := hstep k (Nat.lt_succ_self k)
    obtain ⟨hp, hc⟩ := bisectPass_halves_or_root g (fl k) (s k)
    rw [hp] at hs
    have hsk : s (k + 1) = passK g (fl k) (s k) := (Except.ok.inj hs).symm
    rcases hc with ⟨_, _, hw, _⟩ | ⟨h0, _⟩
    · rw [hsk, hw, ih', pow_succ]
      field_simp
    · exact absurd h0 (hnz k (Nat.lt_succ_self k))

/-- **The whole loop** on a total function, from any state: the final bracket has the starting width
halved `h` times, where `h` is the number of passes the loop made — unless some pass found
`g lower · g mid = 0`; then `h` counts the passes before it, and the lower end or the midpoint of the
final bracket is an exact root of `g`.  (`bisectLoop_keeps` of `SV.Lemmas.C06` without its
sign-change and ordering hypotheses.) -/
theorem bisect_width_halves (g : K → K) (tol : K) :
    ∀ (rem k : Nat) (st : BState K),
      ∃ h : Nat, h ≤ (bisectLoop (evOf g) tol rem k st).passes - k ∧
        ((bisectLoop (evOf g) tol rem k st).upper - (bisectLoop (evOf g) tol rem k st).lower) * 2 ^ h
          = st.upper - st.lower ∧
        (h = (bisectLoop (evOf g) tol rem k st).passes - k ∨
          ∃ x, g x = 0 ∧ (x = (bisectLoop (evOf g) tol rem k st).lower ∨
            x = ((bisectLoop (evOf g) tol rem k st).lower + (bisectLoop (evOf g) tol rem k st).upper) / 2)) := by
  intro rem
  induction rem with
  | zero =>
    intro k st
    rw [bisectLoop_evOf_zero]
    simp only [Nat.add_sub_cancel_left]
    rcases (bisectPass_halves_or_root g (k == 0) st).2 with ⟨_, _, hw, _⟩ | ⟨_, hl, hu, _, hroot, hx⟩
    · exact ⟨1, le_refl _, by rw [hw]; ring, Or.inl rfl⟩
    · refine ⟨0, Nat.zero_le _, by rw [hl, hu]; ring, Or.inr ⟨_, hroot, ?_⟩⟩
      rw [hl, hu]; exact hx
  | succ rem ih =>
    intro k st
    rw [bisectLoop_evOf_succ]
    split_ifs with hstop
    · simp only [finish_lower, finish_upper, finish_passes, Nat.add_sub_cancel_left]
      rcases (bisectPass_halves_or_root g (k == 0) st).2 with ⟨_, _, hw, _⟩ | ⟨_, hl, hu, _, hroot, hx⟩
      · exact ⟨1, le_refl _, by rw [hw]; ring, Or.inl rfl⟩
      · refine ⟨0, Nat.zero_le _, by rw [hl, hu]; ring, Or.inr ⟨_, hroot, ?_⟩⟩
        rw [hl, hu]; exact hx
    · obtain ⟨h, hh, hw', hlast⟩ := ih (k + 1) (passK g (k == 0) st)
      have hp := (bisectLoop_passes (evOf g) tol rem (k + 1) (passK g (k == 0) st)).1
      rcases (bisectPass_halves_or_root g (k == 0) st).2 with ⟨_, _, hw, _⟩ | ⟨h0, hl, hu, _, hroot, hx⟩
      · refine ⟨h + 1, by omega, ?_, ?_⟩
        · rw [pow_succ, ← mul_assoc, hw', hw]; ring
        · rcases hlast with e | e
          · exact Or.inl (by omega)
          · exact Or.inr e
      · have hfr := bisectLoop_frozen g tol rem (k + 1) (passK g (k == 0) st) (by rw [hl, hu]; exact h0)
        refine ⟨0, Nat.zero_le _, ?_, Or.inr ⟨_, hroot, ?_⟩⟩
        · rw [hfr.1, hfr.2, hl, hu]; ring
        · rw [hfr.1, hfr.2, hl, hu]; exact hx

/-- **A call on a function without an exact root in the bracket**: the final width is
`(hi − lo) / 2^passes`, for every tolerance, cap and in-range initial guess — the number of passes
and the final width determine each other, whatever the magnitudes of the function values. -/
theorem bisect_width_halves_no_root (g : K → K) (lo init hi tol : K) (itermax : Nat)
    (hinit : lo ≤ init ∧ init ≤ hi) (hnz : ∀ x, lo ≤ x → x ≤ hi → g x ≠ 0) :
    (bisectCore (evOf g) lo init hi tol itermax).upper - (bisectCore (evOf g) lo init hi tol itermax).lower
      = (hi - lo) / 2 ^ (bisectCore (evOf g) lo init hi tol itermax).passes := by
  have hle : lo ≤ hi := le_trans hinit.1 hinit.2
  obtain ⟨a, b, c⟩ := bisect_bracket_nested (evOf g) lo init hi tol itermax hle
  have hr : bisectCore (evOf g) lo init hi tol itermax =
      bisectLoop (evOf g) tol itermax 0 ⟨lo, hi, init, ((100 : Nat) : K)⟩ := by
    unfold bisectCore
    rw [if_neg (by push Not; exact hinit)]
  obtain ⟨h, _, hw, hlast⟩ := bisect_width_halves g tol itermax 0 ⟨lo, hi, init, ((100 : Nat) : K)⟩
  rw [← hr] at hw hlast
  simp only [Nat.sub_zero] at hlast hw
  rcases hlast with e | ⟨x, hx0, hx⟩
  · rw [← e, ← hw]
    field_simp
  · exfalso
    rcases hx with e | e
    · exact hnz x (by rw [e]; exact a) (by rw [e]; exact le_trans b c) hx0
    · exact hnz x (by rw [e]; linarith) (by rw [e]; linarith) hx0

/-- **Corollary: progress depends on signs only.**  If `g₁` and `g₂` have the same sign at every
point (negative / zero / positive), the loop makes the same passes on both: same number of passes,
same final bracket.  Hence when the relative-change test fires is determined by the bracket, the
tolerance and the sign pattern — not by how large or small the function values are; a threshold on
`|g|` inside the loop is not part of the algorithm (the only magnitude test is the residual gate
after the loop). -/
theorem bisect_progress_sign_only (g₁ g₂ : K → K)
    (hsign : ∀ x, (g₁ x < 0 ↔ g₂ x < 0) ∧ (0 < g₁ x ↔ 0 < g₂ x)) (tol : K) :
    ∀ (rem k : Nat) (st : BState K),
      (bisectLoop (evOf g₁) tol rem k st).passes = (bisectLoop (evOf g₂) tol rem k st).passes ∧
      (bisectLoop (evOf g₁) tol rem k st).lower = (bisectLoop (evOf g₂) tol rem k st).lower ∧
      (bisectLoop (evOf g₁) tol rem k st).upper = (bisectLoop (evOf g₂) tol rem k st).upper := by
  have hzero : ∀ x, g₁ x = 0 ↔ g₂ x = 0 := by
    intro x
    obtain ⟨h1, h2⟩ := hsign x
    constructor
    · intro h
      rcases lt_trichotomy (g₂ x) 0 with c | c | c
      · exact absurd (h1.mpr c) (by rw [h]; exact lt_irrefl _)
      · exact c
      · exact absurd (h2.mpr c) (by rw [h]; exact lt_irrefl _)
    · intro h
      rcases lt_trichotomy (g₁ x) 0 with c | c | c
      · exact absurd (h1.mp c) (by rw [h]; exact lt_irrefl _)
      · exact c
      · exact absurd (h2.mp c) (by rw [h]; exact lt_irrefl _)
  have hpass : ∀ (first : Bool) (st : BState K), passK g₁ first st = passK g₂ first st := by
    intro first st
    unfold passK
    simp only [mul_neg_iff, mul_pos_iff, (hsign _).1, (hsign _).2, hzero]
  intro rem
  induction rem with
  | zero =>
    intro k st
    rw [bisectLoop_evOf_zero, bisectLoop_evOf_zero, hpass]
    exact ⟨rfl, rfl, rfl⟩
  | succ rem ih =>
    intro k st
    rw [bisectLoop_evOf_succ, bisectLoop_evOf_succ, hpass]
    split_ifs
    · simp
    · exact ih _ _

/-! ## (4) extrema mode works on the derivative -/

/-- **Extrema mode on `p` is root mode on `p'`.**  When `derivate_univariate` returns `q`, the
extrema-mode call on `p` IS the root-mode call on `q` (same outcome, value, passes, bracket): every
evaluation the loop makes is of the derivative, never of `p` itself. -/
theorem bisect_mode_uses_derivative (powf : K → K → K) (p q : AnyPoly K) (hq : p.derivUni = .ok q)
    (lo init hi tol : K) (itermax : Nat) :
    bisection powf p lo init hi tol itermax .extrema = bisection powf q lo init hi tol itermax .root := by
  unfold bisection target
  rw [hq]

/-- If the derivative cannot be formed, extrema mode reports that error (or the range error) without
a single loop pass — `p` is not evaluated then either. -/
theorem bisect_extrema_deriv_error (powf : K → K → K) (p : AnyPoly K) (e : PErr)
    (hq : p.derivUni = .error e) (lo init hi tol : K) (itermax : Nat) :
    (bisection powf p lo init hi tol itermax .extrema).passes = 0 ∧
    ((bisection powf p lo init hi tol itermax .extrema).out = .err .xInitOutOfBounds ∨
     (bisection powf p lo init hi tol itermax .extrema).out = .err (.functionError e)) := by
  unfold bisection target
  rw [hq]
  split_ifs
  · exact ⟨rfl, Or.inl rfl⟩
  · exact ⟨rfl, Or.inr rfl⟩

/-- **Extrema mode sees `p` only through `p'`**: two polynomials with the same derivative give the
same extrema-mode result, whatever their own values at the bracket ends or midpoints are. -/
theorem bisect_extrema_same_derivative (powf : K → K → K) (p₁ p₂ : AnyPoly K)
    (hd : p₁.derivUni = p₂.derivUni) (lo init hi tol : K) (itermax : Nat) :
    bisection powf p₁ lo init hi tol itermax .extrema = bisection powf p₂ lo init hi tol itermax .extrema := by
  unfold bisection target
  rw [hd]

/-- In particular the constant coefficient of a dense polynomial is irrelevant in extrema mode — an
end-point test on the polynomial itself (`p(lo) == 0 ⇒ return lo`) would depend on it. -/
theorem bisect_extrema_ignores_constant (powf : K → K → K) (c₁ c₂ : K) (cs : List K) (v : Option Char)
    (lo init hi tol : K) (itermax : Nat) :
    bisection powf (.simple ⟨c₁ :: cs, v⟩) lo init hi tol itermax .extrema =
      bisection powf (.simple ⟨c₂ :: cs, v⟩) lo init hi tol itermax .extrema :=
  bisect_extrema_same_derivative powf _ _ rfl lo init hi tol itermax

/-- Dense polynomials, through Mathlib: extrema mode for coefficients `cs` is the core loop run on the
evaluation of the formal derivative, which is what root mode does for the coefficient list
`simpleDeriv cs` of `p'`. -/
theorem bisect_extrema_simple (powf : K → K → K) (cs : List K) (v : Option Char)
    (lo init hi tol : K) (itermax : Nat) :
    bisection powf (.simple ⟨cs, v⟩) lo init hi tol itermax .extrema =
      bisection powf (.simple ⟨simpleDeriv cs, v⟩) lo init hi tol itermax .root ∧
    bisection powf (.simple ⟨cs, v⟩) lo init hi tol itermax .extrema =
      bisectCore (evOf fun x => (Polynomial.derivative (ofCoeffs cs)).eval x) lo init hi tol itermax :=
  ⟨bisect_mode_uses_derivative powf _ _ rfl lo init hi tol itermax,
   bisection_simple powf cs v .extrema lo init hi tol itermax⟩

/-! ## non-vacuity over `ℚ` -/

/-- the initial guess `0` (an end point) and `1` (the first midpoint itself) give the same call -/
example (tol : ℚ) (n : Nat) :
    bisectCore (evOf fun x : ℚ => x - 1) 0 0 2 tol n = bisectCore (evOf fun x : ℚ => x - 1) 0 1 2 tol n :=
  bisectCore_init_irrelevant _ 0 0 1 2 tol n (by norm_num) (by norm_num)

/-- a function without a root: the final width is `2 / 2^passes` for every tolerance and cap -/
example (tol : ℚ) (n : Nat) :
    (bisectCore (evOf fun x : ℚ => x * x + 1) 0 0 2 tol n).upper -
      (bisectCore (evOf fun x : ℚ => x * x + 1) 0 0 2 tol n).lower
      = (2 - 0) / 2 ^ (bisectCore (evOf fun x : ℚ => x * x + 1) 0 0 2 tol n).passes :=
  bisect_width_halves_no_root _ 0 0 2 tol n (by norm_num) (fun x _ _ => by nlinarith [mul_self_nonneg x])

/-- extrema of `x² − 2x + c` on `[0, 2]`: the answer `1` (root of `2x − 2`), for every constant `c` —
also for `c = 0`, where the polynomial itself vanishes at the lower end -/
example (c : ℚ) :
    (bisection (fun a _ => a) (.simple ⟨[c, -2, 1], some 'x'⟩) 0 0 2 (1 / 1000) 5 .extrema).out = .ok 1 := by
  rw [bisect_extrema_ignores_constant (fun a _ => a) c 0, (bisect_extrema_simple _ _ _ _ _ _ _ _).1]
  rw [bisection_simple]
  norm_num [targetPoly, ofCoeffs, ofCoeffsFrom, simpleDeriv, derivFrom, bisectCore, bisectLoop, bisectPass,
    midpoint, finiteS, signTest, signumS, evOf, finish, sabs, gate, ratLit, SV.Gen.bisectionGate]

end SV.Props.C06Bracket
