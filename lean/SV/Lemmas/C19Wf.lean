import SV.Lemmas.C19Print
import SV.Lemmas.C19Lex
import SV.Props.C19
/-!
Lemmas for C19: the lexer produces well-formed tokens, the parser builds well-formed trees from them,
and folding keeps trees well formed.
-/
namespace SV.C19
open SV SV.Text

/-- tokens the lexer can produce: unsigned literals, single-letter variables other than `e`/`E` -/
def WfTok : Tok Dec → Prop
  | .num d => d.neg = false
  | .var s => VarName s
  | _ => True

/-! ### the parser -/

theorem postfixLoop_wf {l : Expr Dec} (hl : Wf l) (ts : List (Tok Dec)) :
    Wf (postfixLoop l ts).1 ∧ ¬ headFac (postfixLoop l ts).2 := by
  induction ts generalizing l with
  | nil => rw [postfixLoop_not_fac _ _ (by simp)]; exact ⟨hl, fun h => h⟩
  | cons t ts ih =>
    by_cases h : t = .op .fac
    · subst h; rw [postfixLoop_fac]; exact ih (.post hl)
    · rw [postfixLoop_not_fac _ _ (by intro r hr; exact h (List.cons.inj hr).1)]
      refine ⟨hl, ?_⟩
      intro hf
      cases t with
      | op o => cases o <;> first | exact hf | exact h rfl
      | _ => exact hf

theorem wf_setParen {e : Expr Dec} (h : Wf e) : Wf (setParen e) := by
  cases h with
  | bin p h1 h2 h3 h4 => exact .bin true h1 h2 h3 h4
  | num h => exact .num h
  | var h => exact .var h
  | const c => exact .const c
  | func f h => exact .func f h
  | pre h => exact .pre h
  | post h => exact .post h

theorem R_wf {mode : Mode Dec} {ts : List (Tok Dec)} {m : Nat} {e : Expr Dec} {r : List (Tok Dec)}
    (h : R mode ts m e r) (hts : ∀ t ∈ ts, WfTok t) :
    match mode with
    | .pre => Wf e
    | .full => Wf e ∧ ¬ headFac r
    | .loop l => Wf l → ¬ headFac ts → Wf e ∧ ¬ headFac r := by
  induction h with
  | num n rest m => exact .num (hts (.num n) (by simp))
  | var s rest m => exact .var (hts (.var s) (by simp))
  | const c rest m => exact .const c
  | paren m h ih => exact wf_setParen (ih fun t ht => hts t (List.mem_cons_of_mem _ ht)).1
  | func f m h ih =>
    exact .func f (wf_setParen (ih fun t ht => hts t (List.mem_cons_of_mem _ (List.mem_cons_of_mem _ ht))).1)
  | neg h ih => exact .pre (ih fun t ht => hts t (List.mem_cons_of_mem _ ht)).1
  | @full ts m l r e r' h1 h2 ih1 ih2 =>
    have hl := ih1 hts
    have hr : ∀ t ∈ (postfixLoop l r).2, WfTok t := fun t ht =>
      hts t ((R_suffix h1).subset ((postfixLoop_suffix l r).subset ht))
    have hp := postfixLoop_wf hl r
    exact ih2 hr hp.1 hp.2
  | stop l ts m h => exact fun hl hf => ⟨hl, hf⟩
  | low l o rest h => exact fun hl hf => ⟨hl, hf⟩
  | @step l o rest m rhs r' e r h h1 h2 ih1 ih2 =>
    intro hl hf
    have hrest : ∀ t ∈ rest, WfTok t := fun t ht => hts t (List.mem_cons_of_mem _ ht)
    have h1' := ih1 hrest
    have hr' : ∀ t ∈ r', WfTok t := fun t ht => hrest t ((R_suffix h1).subset ht)
    have ho : o ≠ .fac := by rintro rfl; exact hf trivial
    refine ih2 hr' (.bin false ?_ ?_ hl h1'.1) h1'.2
    · split <;> simp_all
    · split <;> simp_all

/-- the parser builds well-formed trees from well-formed tokens -/
theorem parseTokens_wf {ts : List (Tok Dec)} {e : Expr Dec} (h : parseTokens ts = .ok e)
    (hts : ∀ t ∈ ts, WfTok t) : Wf e := by
  have hR := (parseTokens_iff_R ts e).mp h
  have : ∀ t ∈ impliedMul ts, WfTok t := by
    intro t ht
    have := (SV.Props.C19.impliedMul_only_inserts ts).2 t ht
    rcases this with h | rfl
    · exact hts t h
    · trivial
  exact (R_wf hR this).1

/-! ### the lexer -/

theorem of_mem_takeWhile {α : Type} {p : α → Bool} {l : List α} {a : α} (h : a ∈ l.takeWhile p) : p a = true := by
  induction l with
  | nil => simp at h
  | cons b l ih =>
    by_cases hb : p b = true
    · rw [List.takeWhile_cons_of_pos hb] at h
      rcases List.mem_cons.mp h with rfl | h
      · exact hb
      · exact ih h
    · rw [List.takeWhile_cons_of_neg hb] at h; simp at h

theorem constOfName_e : constOfName ['e'] = some .e ∧ constOfName ['E'] = some .e := by decide

theorem letterTok_wf {c : Char} (hc : isAsciiLetter c = true) : WfTok (letterTok c) := by
  unfold letterTok
  split
  · trivial
  · rename_i hn
    refine ⟨c, rfl, hc, ?_, ?_⟩
    · rintro rfl; rw [constOfName_e.1] at hn; cases hn
    · rintro rfl; rw [constOfName_e.2] at hn; cases hn

theorem runToks_wf {run : List Char} (hrun : ∀ c ∈ run, isAsciiLetter c = true) :
    ∀ t ∈ runToks run, WfTok t := by
  intro t ht
  unfold runToks at ht
  split at ht
  · rename_i d
    simp only [List.mem_singleton] at ht; subst ht
    exact letterTok_wf (hrun d (by simp))
  · split at ht
    · simp only [List.mem_singleton] at ht; subst ht; trivial
    · split at ht
      · simp only [List.mem_singleton] at ht; subst ht; trivial
      · obtain ⟨c, hc, rfl⟩ := List.mem_map.mp ht
        exact letterTok_wf (hrun c hc)

theorem lexStep_wf {c : Char} {cs : List Char} {toks : List (Tok Dec)} {rest : List Char}
    (h : lexStep c cs = .ok (toks, rest)) : ∀ t ∈ toks, WfTok t := by
  unfold lexStep at h
  split at h
  · split at h
    · simp only [Except.ok.injEq, Prod.mk.injEq] at h
      obtain ⟨rfl, -⟩ := h
      intro t ht; simp only [List.mem_singleton] at ht; subst ht; rfl
    · simp at h
  · split at h
    · simp only [Except.ok.injEq, Prod.mk.injEq] at h
      obtain ⟨rfl, -⟩ := h
      exact runToks_wf fun c hc => of_mem_takeWhile hc
    · repeat' split at h
      all_goals first
        | (simp only [Except.ok.injEq, Prod.mk.injEq] at h; obtain ⟨rfl, -⟩ := h
           intro t ht; simp only [List.mem_singleton] at ht; subst ht; trivial)
        | simp at h

theorem Lexed.wf {s : List Char} {ts : List (Tok Dec)} (h : Lexed s ts) : ∀ t ∈ ts, WfTok t := by
  induction h with
  | nil => simp
  | step h1 _ ih =>
    intro t ht
    rcases List.mem_append.mp ht with ht | ht
    · exact lexStep_wf h1 t ht
    · exact ih t ht

theorem lex_wf {s : List Char} {ts : List (Tok Dec)} (h : lex s = .ok ts) : ∀ t ∈ ts, WfTok t :=
  ((lex_ok_iff s ts).mp h).wf

/-! ### folding -/

theorem fold_wf {e : Expr Dec} (h : Wf e) : Wf (fold decTests e) := by
  induction h with
  | num h => rw [fold_num]; exact .num h
  | var h => rw [fold_var]; exact .var h
  | const c => rw [fold_const]; exact .const c
  | func f h _ => rw [fold_func]; exact .func f h
  | pre h _ => rw [fold_pre]; exact .pre h
  | post h _ => rw [fold_post]; exact .post h
  | @bin o l r p h1 h2 hl hr ihl ihr =>
    rw [fold_bin]
    rcases foldStep_cases decTests o (fold decTests l) (fold decTests r) p with h | h | h | h | h | h
    · rw [h]; exact .num rfl
    · rw [h]; exact .num rfl
    · rw [h]; exact ihl
    · rw [h]; exact ihr
    · rw [h]; exact .pre ihr
    · rw [h]; exact .bin p h1 h2 ihl ihr

end SV.C19
