import SV.Model.C08
import SV.Lemmas.Subst
import SV.Lemmas.Rounding
import SV.Lemmas.RoundingNearest
import SV.Lemmas.RoundingC08
import SV.Props.C08
/-!
# C08, rounding half — the triangular substitution routines in floating-point arithmetic

`SV.Props.C08.backSubst_sound` / `forwardSubst_sound` prove over every field that the exported
substitution routines solve their triangular systems (rounding error 0).  Here **the same
definitions** `SV.Subst.backSubst`, `SV.Subst.forwardSubst` (the models of `back_substitution`,
`forward_substitution`, operation by operation in the order of the source) are run at the rounding
scalar `Fl M` of `SV.Lemmas.Rounding`, where every `+ − × ÷` is the exact real operation followed by
a rounding of relative error `≤ u`, and the classical componentwise **backward-error theorem** is
proved (Higham, *Accuracy and Stability of Numerical Algorithms*, 2nd ed., Thm 8.5, for the
operation order of this code): the returned vector solves **exactly** a triangular system whose
matrix entries are relative perturbations of the given ones, the right-hand side not being
perturbed at all,

    (T + ΔT)·x = b,     |ΔT_ij| ≤ γ_m·|T_ij|,     m = max(n, 2),   n = size,

equivalently `|b_i − Σ_j T_ij x_j| ≤ γ_m · Σ_j |T_ij|·|x_j|` for every row: "a componentwise backward
error of a few rounding units", whatever the condition number of `T`.

Counting what the loops really do (`n = size`), row `i`:
* `sum = 0.0; sum += a[i][j]*x[j]`: the term of column `j` takes one multiplication and every later
  addition; the model also charges the first addition `0.0 + …` (exact in IEEE) one rounding since
  it assumes nothing about `rnd` but its relative accuracy.  Backward sweep (`j = i+1 … n−1`):
  `n − j + 1 ≤ n` roundings; forward sweep (`j = 0 … i−1`): `i − j + 1 ≤ n` roundings;
* `x[i] = (b[i] − sum)/a[i][i]`: a subtraction and a division — two roundings, carried by the
  diagonal entry (the forward sweep **divides** by the diagonal: no unit diagonal is assumed);
* the last row of the backward sweep is `b[n−1]/a[n−1][n−1]`, one rounding.
The finest statement is the weights form (`backSubst_weights`, `forwardSubst_weights`); the uniform
constant is `γ_{max(n,2)}` (`γ_n` for `n ≥ 2`; Higham has `γ_n` too).

Which calls are covered: **every** call that returns — any `size = n ≥ 1` (`n ≥ 0` forward) not
larger than the matrix and the slices, a matrix with more rows/columns than `size`, any initial
contents of the solution slice (the driver pre-fills it with NaN to show that no entry `< size` is
read before it is written: here the slice is arbitrary and the theorems do not depend on it), any
contents of the other triangle (never read: `…_upper_part` / `…_lower_part`).  The hypothesis is a
non-zero diagonal, as in the exact theorems.  There is no tolerance in these routines.  For
binary64 `u = 2⁻⁵³` and `γ_m ≤ m·2⁻⁵²` (`…_binary64`).

The elimination phase of `gaussian_elimination` is **not** analysed here (its backward error
involves the growth factor of scaled partial pivoting); `gauss_back_phase_rounding` records what
the theorems give for the whole solver: the returned vector is the back substitution of the
eliminated system, with the backward error above *relative to the eliminated matrix*.

NOT covered: overflow, underflow (a subnormal product or quotient loses relative accuracy),
NaN/∞, the decimal→binary conversion of the inputs — see the header of `SV.Lemmas.Rounding`.
-/
namespace SV.Props.C08Rounding
open SV SV.C08 SV.Subst Finset

variable {M : FlModel}

/-- the models elaborate at the rounding scalar with no change -/
noncomputable example (U : Mat (Fl M)) (n : ℕ) (b sol : Array (Fl M)) :
    Outcome Empty (Array (Fl M)) := backSubst U n b sol
noncomputable example (L : Mat (Fl M)) (n : ℕ) (b sol : Array (Fl M)) :
    Outcome Empty (Array (Fl M)) := forwardSubst L n b sol

/-! ## back substitution -/

/-- **Weights form (Higham (8.2) for this operation order).**  Whenever `back_substitution` returns
`x` for a matrix with non-zero diagonal, every row of the upper-triangular part holds **exactly**
with weighted entries: `Σ_{i≤j<n} u_ij·t_ij·x_j = b_i`, where `t_ii` is a product of two rounding
factors and `t_ij` (`j > i`) of `n − j + 1`.  The strictly lower part of the matrix is never read,
the slice keeps its length and its entries beyond `size`. -/
theorem backSubst_weights (U : Mat (Fl M)) (n : ℕ) (b sol x : Array (Fl M))
    (hx : backSubst U n b sol = .ok x) (hd : ∀ i, i < n → (U.get i i).val ≠ 0) :
    x.size = sol.size ∧ (∀ j, n ≤ j → vget x j = vget sol j) ∧
    ∃ t : ℕ → ℕ → ℝ, (∀ i, i < n → M.Fac 2 (t i i)) ∧
      (∀ i j, i < j → j < n → M.Fac (n - j + 1) (t i j)) ∧
      ∀ i, i < n →
        ∑ j ∈ Ico i n, (U.get i j).val * t i j * (vget x j).val = (vget b i).val := by
  obtain ⟨⟨h0, _, _, _, h4⟩, rfl⟩ := (backSubst_ok_iff' U n b sol x).mp hx
  obtain ⟨hsz, hrows, hrest⟩ := backCore_rowsFl U n b sol h0 h4 hd
  refine ⟨hsz, hrest, ?_⟩
  have hex : ∀ i, ∃ t : ℕ → ℝ, i < n → (M.Fac 2 (t i) ∧
      (∀ j, i < j → j < n → M.Fac (n - j + 1) (t j)) ∧
      (U.get i i).val * t i * (vget (backCore U n b sol) i).val
        + ∑ j ∈ Ico (i + 1) n, (U.get i j).val * t j * (vget (backCore U n b sol) j).val
        = (vget b i).val) := by
    intro i
    by_cases hi : i < n
    · obtain ⟨t, ht⟩ := hrows i hi
      exact ⟨t, fun _ => ht⟩
    · exact ⟨fun _ => 1, fun h => absurd h hi⟩
  choose t ht using hex
  refine ⟨t, fun i hi => (ht i hi).1, fun i j hij hjn => (ht i (by omega)).2.1 j hij hjn, ?_⟩
  intro i hi
  rw [Finset.sum_eq_sum_Ico_succ_bot hi]
  exact (ht i hi).2.2

/-- every weight is an accumulated factor of at most `max n 2` roundings -/
theorem backSubst_weights_uniform (U : Mat (Fl M)) (n : ℕ) (b sol x : Array (Fl M))
    (hx : backSubst U n b sol = .ok x) (hd : ∀ i, i < n → (U.get i i).val ≠ 0) :
    ∃ t : ℕ → ℕ → ℝ, (∀ i j, i ≤ j → j < n → M.Fac (max n 2) (t i j)) ∧
      ∀ i, i < n →
        ∑ j ∈ Ico i n, (U.get i j).val * t i j * (vget x j).val = (vget b i).val := by
  obtain ⟨_, _, t, h1, h2, h3⟩ := backSubst_weights U n b sol x hx hd
  refine ⟨t, fun i j hij hjn => ?_, h3⟩
  by_cases h : i = j
  · subst h
    exact (h1 i hjn).mono (le_max_right _ _)
  · exact (h2 i j (by omega) hjn).mono (by have := le_max_left n 2; omega)

/-- **Residual of the upper-triangular part**, no hypothesis on the other triangle:
`|b_i − Σ_{i≤j<n} u_ij x_j| ≤ γ_m · Σ_{i≤j<n} |u_ij|·|x_j|`, `m = max(n, 2)`. -/
theorem backSubst_residual_upper_part (U : Mat (Fl M)) (n : ℕ) (b sol x : Array (Fl M))
    (hx : backSubst U n b sol = .ok x) (hd : ∀ i, i < n → (U.get i i).val ≠ 0)
    (hu : ((max n 2 : ℕ) : ℝ) * M.u < 1) :
    ∀ i, i < n →
      |(vget b i).val - ∑ j ∈ Ico i n, (U.get i j).val * (vget x j).val|
        ≤ M.gamma (max n 2) * ∑ j ∈ Ico i n, |(U.get i j).val| * |(vget x j).val| := by
  obtain ⟨t, ht, hrow⟩ := backSubst_weights_uniform U n b sol x hx hd
  intro i hi
  have h := weighted_Ico_bound (M := M) i n (max n 2)
    (fun j => (U.get i j).val * (vget x j).val) (t i) (fun j h1 h2 => ht i j h1 h2) hu
  have e : ∑ j ∈ Ico i n, (U.get i j).val * (vget x j).val * t i j = (vget b i).val := by
    rw [← hrow i hi]
    exact Finset.sum_congr rfl fun j _ => by ring
  rw [e] at h
  simpa only [abs_mul] using h

/-- **Backward error, the theorem of the statement (Higham, Thm 8.5).**  Let `U` be upper
triangular of order `n` with non-zero diagonal and `max(n,2)·u < 1`.  Whenever `back_substitution`
returns `x`, there is a perturbation `ΔU` — upper triangular, `|ΔU_ij| ≤ γ_m·|U_ij|` with
`m = max(n, 2)` — such that `(U + ΔU)·x = b` **exactly**. -/
theorem backSubst_backward (U : Mat (Fl M)) (n : ℕ) (b sol x : Array (Fl M))
    (hx : backSubst U n b sol = .ok x) (hd : ∀ i, i < n → (U.get i i).val ≠ 0)
    (htri : ∀ i j, i < n → j < i → (U.get i j).val = 0)
    (hu : ((max n 2 : ℕ) : ℝ) * M.u < 1) :
    ∃ ΔU : ℕ → ℕ → ℝ,
      (∀ i j, |ΔU i j| ≤ M.gamma (max n 2) * |(U.get i j).val|) ∧
      (∀ i j, j < i → ΔU i j = 0) ∧
      ∀ i, i < n →
        ∑ j ∈ range n, ((U.get i j).val + ΔU i j) * (vget x j).val = (vget b i).val := by
  obtain ⟨t, ht, hrow⟩ := backSubst_weights_uniform U n b sol x hx hd
  have hg := M.gamma_nonneg hu
  refine ⟨fun i j => if i ≤ j ∧ j < n then (U.get i j).val * (t i j - 1) else 0, ?_, ?_, ?_⟩
  · intro i j
    by_cases h : i ≤ j ∧ j < n
    · simp only [h, and_self, if_true]
      rw [abs_mul, mul_comm]
      exact mul_le_mul_of_nonneg_right ((ht i j h.1 h.2).abs_sub_one_le hu) (abs_nonneg _)
    · simp only [h, if_false, abs_zero]
      exact mul_nonneg hg (abs_nonneg _)
  · intro i j hji
    simp only [show ¬ (i ≤ j ∧ j < n) by omega, if_false]
  · intro i hi
    have hsplit : ∑ j ∈ range n,
          ((U.get i j).val + (if i ≤ j ∧ j < n then (U.get i j).val * (t i j - 1) else 0))
            * (vget x j).val
        = ∑ j ∈ range i,
            ((U.get i j).val + (if i ≤ j ∧ j < n then (U.get i j).val * (t i j - 1) else 0))
              * (vget x j).val
          + ∑ j ∈ Ico i n,
            ((U.get i j).val + (if i ≤ j ∧ j < n then (U.get i j).val * (t i j - 1) else 0))
              * (vget x j).val := by
      exact (Finset.sum_range_add_sum_Ico _ hi.le).symm
    rw [hsplit, ← hrow i hi]
    have e0 : ∑ j ∈ range i,
          ((U.get i j).val + (if i ≤ j ∧ j < n then (U.get i j).val * (t i j - 1) else 0))
            * (vget x j).val = 0 := by
      apply Finset.sum_eq_zero
      intro j hj
      rw [Finset.mem_range] at hj
      rw [htri i j hi hj, if_neg (by omega)]
      ring
    rw [e0, zero_add]
    apply Finset.sum_congr rfl
    intro j hj
    rw [Finset.mem_Ico] at hj
    rw [if_pos ⟨hj.1, hj.2⟩]
    ring

/-- **Componentwise residual — "`A x` reproduces `b` with a componentwise backward error of a few
rounding units".**  For an upper-triangular `U` of order `n` with non-zero diagonal:
`|b_i − Σ_j u_ij x_j| ≤ γ_m · Σ_j |u_ij|·|x_j|` for every row, `m = max(n, 2)`. -/
theorem backSubst_residual (U : Mat (Fl M)) (n : ℕ) (b sol x : Array (Fl M))
    (hx : backSubst U n b sol = .ok x) (hd : ∀ i, i < n → (U.get i i).val ≠ 0)
    (htri : ∀ i j, i < n → j < i → (U.get i j).val = 0)
    (hu : ((max n 2 : ℕ) : ℝ) * M.u < 1) :
    ∀ i, i < n →
      |(vget b i).val - ∑ j ∈ range n, (U.get i j).val * (vget x j).val|
        ≤ M.gamma (max n 2) * ∑ j ∈ range n, |(U.get i j).val| * |(vget x j).val| := by
  intro i hi
  have h := backSubst_residual_upper_part U n b sol x hx hd hu i hi
  have split : ∀ f : ℕ → ℝ, (∀ j, j < i → f j = 0) →
      ∑ j ∈ range n, f j = ∑ j ∈ Ico i n, f j := by
    intro f hf
    rw [← Finset.sum_range_add_sum_Ico f hi.le]
    rw [Finset.sum_eq_zero (fun j hj => hf j (by simpa using hj)), zero_add]
  rw [split (fun j => (U.get i j).val * (vget x j).val)
      (fun j hj => by simp only [htri i j hi hj, zero_mul]),
    split (fun j => |(U.get i j).val| * |(vget x j).val|)
      (fun j hj => by simp only [htri i j hi hj, abs_zero, zero_mul])]
  exact h

/-! ## forward substitution -/

/-- **Weights form.**  Whenever `forward_substitution` returns `x` for a matrix with non-zero
diagonal, every row of the lower-triangular part (diagonal included — the code divides by it) holds
exactly with weighted entries: `Σ_{j≤i} l_ij·t_ij·x_j = b_i`, where `t_ii` is a product of two
rounding factors and `t_ij` (`j < i`) of `i − j + 1`.  The strictly upper part is never read. -/
theorem forwardSubst_weights (L : Mat (Fl M)) (n : ℕ) (b sol x : Array (Fl M))
    (hx : forwardSubst L n b sol = .ok x) (hd : ∀ i, i < n → (L.get i i).val ≠ 0) :
    x.size = sol.size ∧ (∀ j, n ≤ j → vget x j = vget sol j) ∧
    ∃ t : ℕ → ℕ → ℝ, (∀ i, i < n → M.Fac 2 (t i i)) ∧
      (∀ i j, j < i → i < n → M.Fac (i - j + 1) (t i j)) ∧
      ∀ i, i < n →
        ∑ j ∈ range (i + 1), (L.get i j).val * t i j * (vget x j).val = (vget b i).val := by
  obtain ⟨⟨_, _, _, h4⟩, rfl⟩ := (forwardSubst_ok_iff' L n b sol x).mp hx
  obtain ⟨hsz, hrows, hrest⟩ := fwdCore_rowsFl L b sol n h4 hd
  refine ⟨hsz, hrest, ?_⟩
  have hex : ∀ i, ∃ t : ℕ → ℝ, i < n → (M.Fac 2 (t i) ∧
      (∀ j, j < i → M.Fac (i - j + 1) (t j)) ∧
      ∑ j ∈ range i, (L.get i j).val * t j * (vget (fwdCore L n b sol) j).val
        + (L.get i i).val * t i * (vget (fwdCore L n b sol) i).val = (vget b i).val) := by
    intro i
    by_cases hi : i < n
    · obtain ⟨t, ht⟩ := hrows i hi
      exact ⟨t, fun _ => ht⟩
    · exact ⟨fun _ => 1, fun h => absurd h hi⟩
  choose t ht using hex
  refine ⟨t, fun i hi => (ht i hi).1, fun i j hji hin => (ht i hin).2.1 j hji, ?_⟩
  intro i hi
  rw [Finset.sum_range_succ]
  exact (ht i hi).2.2

/-- every weight is an accumulated factor of at most `max n 2` roundings -/
theorem forwardSubst_weights_uniform (L : Mat (Fl M)) (n : ℕ) (b sol x : Array (Fl M))
    (hx : forwardSubst L n b sol = .ok x) (hd : ∀ i, i < n → (L.get i i).val ≠ 0) :
    ∃ t : ℕ → ℕ → ℝ, (∀ i j, j ≤ i → i < n → M.Fac (max n 2) (t i j)) ∧
      ∀ i, i < n →
        ∑ j ∈ range (i + 1), (L.get i j).val * t i j * (vget x j).val = (vget b i).val := by
  obtain ⟨_, _, t, h1, h2, h3⟩ := forwardSubst_weights L n b sol x hx hd
  refine ⟨t, fun i j hji hin => ?_, h3⟩
  by_cases h : j = i
  · subst h
    exact (h1 j hin).mono (le_max_right _ _)
  · exact (h2 i j (by omega) hin).mono (by have := le_max_left n 2; omega)

/-- **Residual of the lower-triangular part**, no hypothesis on the other triangle:
`|b_i − Σ_{j≤i} l_ij x_j| ≤ γ_m · Σ_{j≤i} |l_ij|·|x_j|`, `m = max(n, 2)`. -/
theorem forwardSubst_residual_lower_part (L : Mat (Fl M)) (n : ℕ) (b sol x : Array (Fl M))
    (hx : forwardSubst L n b sol = .ok x) (hd : ∀ i, i < n → (L.get i i).val ≠ 0)
    (hu : ((max n 2 : ℕ) : ℝ) * M.u < 1) :
    ∀ i, i < n →
      |(vget b i).val - ∑ j ∈ range (i + 1), (L.get i j).val * (vget x j).val|
        ≤ M.gamma (max n 2) * ∑ j ∈ range (i + 1), |(L.get i j).val| * |(vget x j).val| := by
  obtain ⟨t, ht, hrow⟩ := forwardSubst_weights_uniform L n b sol x hx hd
  intro i hi
  have h := weighted_sum_bound (M := M) (i + 1) (max n 2)
    (fun j => (L.get i j).val * (vget x j).val) (t i) (fun j hj => ht i j (by omega) hi) hu
  have e : ∑ j ∈ range (i + 1), (L.get i j).val * (vget x j).val * t i j = (vget b i).val := by
    rw [← hrow i hi]
    exact Finset.sum_congr rfl fun j _ => by ring
  rw [e] at h
  simpa only [abs_mul] using h

/-- **Backward error (Higham, Thm 8.5), forward substitution.**  Let `L` be lower triangular of
order `n` with non-zero diagonal (not assumed to be 1: the code divides by it) and
`max(n,2)·u < 1`.  Whenever `forward_substitution` returns `x`, there is a lower-triangular `ΔL`,
`|ΔL_ij| ≤ γ_m·|L_ij|`, `m = max(n, 2)`, with `(L + ΔL)·x = b` **exactly**. -/
theorem forwardSubst_backward (L : Mat (Fl M)) (n : ℕ) (b sol x : Array (Fl M))
    (hx : forwardSubst L n b sol = .ok x) (hd : ∀ i, i < n → (L.get i i).val ≠ 0)
    (htri : ∀ i j, i < n → i < j → j < n → (L.get i j).val = 0)
    (hu : ((max n 2 : ℕ) : ℝ) * M.u < 1) :
    ∃ ΔL : ℕ → ℕ → ℝ,
      (∀ i j, |ΔL i j| ≤ M.gamma (max n 2) * |(L.get i j).val|) ∧
      (∀ i j, i < j → ΔL i j = 0) ∧
      ∀ i, i < n →
        ∑ j ∈ range n, ((L.get i j).val + ΔL i j) * (vget x j).val = (vget b i).val := by
  obtain ⟨t, ht, hrow⟩ := forwardSubst_weights_uniform L n b sol x hx hd
  have hg := M.gamma_nonneg hu
  refine ⟨fun i j => if j ≤ i ∧ i < n then (L.get i j).val * (t i j - 1) else 0, ?_, ?_, ?_⟩
  · intro i j
    by_cases h : j ≤ i ∧ i < n
    · simp only [h, and_self, if_true]
      rw [abs_mul, mul_comm]
      exact mul_le_mul_of_nonneg_right ((ht i j h.1 h.2).abs_sub_one_le hu) (abs_nonneg _)
    · simp only [h, if_false, abs_zero]
      exact mul_nonneg hg (abs_nonneg _)
  · intro i j hij
    simp only [show ¬ (j ≤ i ∧ i < n) by omega, if_false]
  · intro i hi
    have hsplit : ∑ j ∈ range n,
          ((L.get i j).val + (if j ≤ i ∧ i < n then (L.get i j).val * (t i j - 1) else 0))
            * (vget x j).val
        = ∑ j ∈ range (i + 1),
            ((L.get i j).val + (if j ≤ i ∧ i < n then (L.get i j).val * (t i j - 1) else 0))
              * (vget x j).val
          + ∑ j ∈ Ico (i + 1) n,
            ((L.get i j).val + (if j ≤ i ∧ i < n then (L.get i j).val * (t i j - 1) else 0))
              * (vget x j).val := by
      exact (Finset.sum_range_add_sum_Ico _ (by omega : i + 1 ≤ n)).symm
    rw [hsplit, ← hrow i hi]
    have e0 : ∑ j ∈ Ico (i + 1) n,
          ((L.get i j).val + (if j ≤ i ∧ i < n then (L.get i j).val * (t i j - 1) else 0))
            * (vget x j).val = 0 := by
      apply Finset.sum_eq_zero
      intro j hj
      rw [Finset.mem_Ico] at hj
      rw [htri i j hi (by omega) hj.2, if_neg (by omega)]
      ring
    rw [e0, add_zero]
    apply Finset.sum_congr rfl
    intro j hj
    rw [Finset.mem_range] at hj
    rw [if_pos ⟨by omega, hi⟩]
    ring

/-- **Componentwise residual, forward substitution.**  For a lower-triangular `L` of order `n` with
non-zero diagonal: `|b_i − Σ_j l_ij x_j| ≤ γ_m · Σ_j |l_ij|·|x_j|`, `m = max(n, 2)`. -/
theorem forwardSubst_residual (L : Mat (Fl M)) (n : ℕ) (b sol x : Array (Fl M))
    (hx : forwardSubst L n b sol = .ok x) (hd : ∀ i, i < n → (L.get i i).val ≠ 0)
    (htri : ∀ i j, i < n → i < j → j < n → (L.get i j).val = 0)
    (hu : ((max n 2 : ℕ) : ℝ) * M.u < 1) :
    ∀ i, i < n →
      |(vget b i).val - ∑ j ∈ range n, (L.get i j).val * (vget x j).val|
        ≤ M.gamma (max n 2) * ∑ j ∈ range n, |(L.get i j).val| * |(vget x j).val| := by
  intro i hi
  have h := forwardSubst_residual_lower_part L n b sol x hx hd hu i hi
  have split : ∀ f : ℕ → ℝ, (∀ j, i < j → j < n → f j = 0) →
      ∑ j ∈ range n, f j = ∑ j ∈ range (i + 1), f j := by
    intro f hf
    rw [← Finset.sum_range_add_sum_Ico f (by omega : i + 1 ≤ n)]
    rw [Finset.sum_eq_zero (s := Ico (i + 1) n) (fun j hj => by
      rw [Finset.mem_Ico] at hj
      exact hf j (by omega) hj.2), add_zero]
  rw [split (fun j => (L.get i j).val * (vget x j).val)
      (fun j h1 h2 => by simp only [htri i j hi h1 h2, zero_mul]),
    split (fun j => |(L.get i j).val| * |(vget x j).val|)
      (fun j h1 h2 => by simp only [htri i j hi h1 h2, abs_zero, zero_mul])]
  exact h

/-! ## exact arithmetic and binary64 -/

/-- With exact arithmetic (`u = 0`) the residual bound collapses to the identity of
`SV.Props.C08.backSubst_sound`. -/
theorem backSubst_residual_ideal (U : Mat (Fl FlModel.ideal)) (n : ℕ)
    (b sol x : Array (Fl FlModel.ideal)) (hx : backSubst U n b sol = .ok x)
    (hd : ∀ i, i < n → (U.get i i).val ≠ 0)
    (htri : ∀ i j, i < n → j < i → (U.get i j).val = 0) :
    ∀ i, i < n → ∑ j ∈ range n, (U.get i j).val * (vget x j).val = (vget b i).val := by
  intro i hi
  have h := backSubst_residual U n b sol x hx hd htri (by simp [FlModel.ideal]) i hi
  have hg : FlModel.ideal.gamma (max n 2) = 0 := by simp [FlModel.gamma, FlModel.ideal]
  rw [hg, zero_mul] at h
  exact (sub_eq_zero.mp (abs_nonpos_iff.mp h)).symm

/-- … and to `SV.Props.C08.forwardSubst_sound`. -/
theorem forwardSubst_residual_ideal (L : Mat (Fl FlModel.ideal)) (n : ℕ)
    (b sol x : Array (Fl FlModel.ideal)) (hx : forwardSubst L n b sol = .ok x)
    (hd : ∀ i, i < n → (L.get i i).val ≠ 0)
    (htri : ∀ i j, i < n → i < j → j < n → (L.get i j).val = 0) :
    ∀ i, i < n → ∑ j ∈ range n, (L.get i j).val * (vget x j).val = (vget b i).val := by
  intro i hi
  have h := forwardSubst_residual L n b sol x hx hd htri (by simp [FlModel.ideal]) i hi
  have hg : FlModel.ideal.gamma (max n 2) = 0 := by simp [FlModel.gamma, FlModel.ideal]
  rw [hg, zero_mul] at h
  exact (sub_eq_zero.mp (abs_nonpos_iff.mp h)).symm

/-- **binary64, numerically.**  For round-to-nearest with a 53-bit significand
(`FlModel.binary64`, no exponent limits) and `n ≤ 2⁵²` the hypothesis on `u` is automatic and
`|b_i − Σ_j u_ij x_j| ≤ max(n,2)·2⁻⁵² · Σ_j |u_ij|·|x_j|`. -/
theorem backSubst_residual_binary64 (U : Mat (Fl FlModel.binary64)) (n : ℕ)
    (b sol x : Array (Fl FlModel.binary64)) (hx : backSubst U n b sol = .ok x)
    (hd : ∀ i, i < n → (U.get i i).val ≠ 0)
    (htri : ∀ i j, i < n → j < i → (U.get i j).val = 0) (hn : n ≤ 2 ^ 52) :
    ∀ i, i < n →
      |(vget b i).val - ∑ j ∈ range n, (U.get i j).val * (vget x j).val|
        ≤ ((max n 2 : ℕ) : ℝ) * (2⁻¹ : ℝ) ^ 52
          * ∑ j ∈ range n, |(U.get i j).val| * |(vget x j).val| := by
  intro i hi
  obtain ⟨hu, hg⟩ := FlModel.binary64_gamma_le (n := max n 2) (max_le hn (by norm_num))
  refine (backSubst_residual U n b sol x hx hd htri hu i hi).trans
    (mul_le_mul_of_nonneg_right hg (Finset.sum_nonneg fun k _ => ?_))
  positivity

/-- the same for forward substitution -/
theorem forwardSubst_residual_binary64 (L : Mat (Fl FlModel.binary64)) (n : ℕ)
    (b sol x : Array (Fl FlModel.binary64)) (hx : forwardSubst L n b sol = .ok x)
    (hd : ∀ i, i < n → (L.get i i).val ≠ 0)
    (htri : ∀ i j, i < n → i < j → j < n → (L.get i j).val = 0) (hn : n ≤ 2 ^ 52) :
    ∀ i, i < n →
      |(vget b i).val - ∑ j ∈ range n, (L.get i j).val * (vget x j).val|
        ≤ ((max n 2 : ℕ) : ℝ) * (2⁻¹ : ℝ) ^ 52
          * ∑ j ∈ range n, |(L.get i j).val| * |(vget x j).val| := by
  intro i hi
  obtain ⟨hu, hg⟩ := FlModel.binary64_gamma_le (n := max n 2) (max_le hn (by norm_num))
  refine (forwardSubst_residual L n b sol x hx hd htri hu i hi).trans
    (mul_le_mul_of_nonneg_right hg (Finset.sum_nonneg fun k _ => ?_))
  positivity

/-! ## what this gives for `gaussian_elimination` -/

/-- the solver elaborates at the rounding scalar with no change -/
noncomputable example (A : Mat (Fl M)) (b : Array (Fl M)) (tol : Fl M) :
    Outcome GaussErr (Array (Fl M)) := gaussSolve A b tol

/-- Whenever `gaussian_elimination` returns a vector, that vector is the back substitution of the
system `(st.m, st.r)` forward elimination arrived at (computed in floating point). -/
theorem gauss_back_phase (A : Mat (Fl M)) (b : Array (Fl M)) (tol : Fl M) (x : Array (Fl M))
    (h : gaussSolve A b tol = .ok x) :
    ∃ st : St (Fl M),
      forwardElim tol A.h { m := A, r := b, s := vtab A.h (rowScale A A.h) } = some st ∧
      backSubst st.m A.h st.r (vtab A.h fun _ => 0) = .ok x := by
  unfold gaussSolve at h
  split at h
  · cases h
  · split at h
    · cases h
    · split at h
      · cases h
      · dsimp only at h
        split at h
        · cases h
        · split at h
          · cases h
          · rename_i st hst
            refine ⟨st, hst, ?_⟩
            split at h
            · rename_i y hy
              cases h
              exact hy
            · cases h

/-- **The back-substitution phase of the solver** (the elimination phase is NOT analysed, see the
header).  Whenever `gaussian_elimination` returns `x`, and the eliminated matrix `st.m` has a
non-zero diagonal, `x` satisfies the eliminated system `(st.m, st.r)` with a componentwise residual
of `γ_{max(n,2)}` relative to the upper triangle of `st.m` (the entries below the diagonal, which the
code leaves unreduced, are never read). -/
theorem gauss_back_phase_rounding (A : Mat (Fl M)) (b : Array (Fl M)) (tol : Fl M)
    (x : Array (Fl M)) (h : gaussSolve A b tol = .ok x)
    (hu : ((max A.h 2 : ℕ) : ℝ) * M.u < 1) :
    ∃ st : St (Fl M),
      forwardElim tol A.h { m := A, r := b, s := vtab A.h (rowScale A A.h) } = some st ∧
      ((∀ i, i < A.h → (st.m.get i i).val ≠ 0) → ∀ i, i < A.h →
        |(vget st.r i).val - ∑ j ∈ Ico i A.h, (st.m.get i j).val * (vget x j).val|
          ≤ M.gamma (max A.h 2) * ∑ j ∈ Ico i A.h, |(st.m.get i j).val| * |(vget x j).val|) := by
  obtain ⟨st, hst, hback⟩ := gauss_back_phase A b tol x h
  exact ⟨st, hst, fun hd => backSubst_residual_upper_part st.m A.h st.r _ x hback hd hu⟩

/-! ## non-vacuity -/

/-- the hypotheses are satisfiable in a model with `u > 0` whose rounding is not the identity, and
there the computed solution really leaves a residual (so the bounds are not `0 ≤ 0`): the
upper-triangular system `x₀ + x₁ = 1, x₁ = 1` with `rnd t = t·(1 + 1/16)` (`u = 1/8`, `2·u < 1`),
solved into a slice that held `7, 7`. -/
example : ∃ (M : FlModel) (U : Mat (Fl M)) (b sol x : Array (Fl M)), 0 < M.u ∧
    backSubst U 2 b sol = .ok x ∧ (∀ i, i < 2 → (U.get i i).val ≠ 0) ∧
    (∀ i j, i < 2 → j < i → (U.get i j).val = 0) ∧ ((max 2 2 : ℕ) : ℝ) * M.u < 1 ∧
    ∑ j ∈ range 2, (U.get 0 j).val * (vget x j).val ≠ (vget b 0).val := by
  have h8 : (0 : ℝ) ≤ 1 / 8 ∧ (1 / 8 : ℝ) < 1 := by norm_num
  refine ⟨FlModel.skew (1 / 8) h8, ⟨2, 2, #[1, 1, 0, 1]⟩, #[1, 1], #[⟨7⟩, ⟨7⟩], _,
    by norm_num [FlModel.skew], rfl, ?_, ?_, by norm_num [FlModel.skew], ?_⟩
  · intro i hi
    have : i = 0 ∨ i = 1 := by omega
    rcases this with rfl | rfl <;> simp [Mat.get]
  · intro i j hi hji
    have : i = 1 ∧ j = 0 := by omega
    obtain ⟨rfl, rfl⟩ := this
    simp [Mat.get]
  · norm_num [backCore, backLoop, backStep, vget, Mat.get, sumFrom, List.range', FlModel.skew,
      Finset.sum_range_succ]

/-- the same for forward substitution: `x₀ = 1, x₀ + x₁ = 1` -/
example : ∃ (M : FlModel) (L : Mat (Fl M)) (b sol x : Array (Fl M)), 0 < M.u ∧
    forwardSubst L 2 b sol = .ok x ∧ (∀ i, i < 2 → (L.get i i).val ≠ 0) ∧
    (∀ i j, i < 2 → i < j → j < 2 → (L.get i j).val = 0) ∧ ((max 2 2 : ℕ) : ℝ) * M.u < 1 ∧
    ∑ j ∈ range 2, (L.get 1 j).val * (vget x j).val ≠ (vget b 1).val := by
  have h8 : (0 : ℝ) ≤ 1 / 8 ∧ (1 / 8 : ℝ) < 1 := by norm_num
  refine ⟨FlModel.skew (1 / 8) h8, ⟨2, 2, #[1, 0, 1, 1]⟩, #[1, 1], #[⟨7⟩, ⟨7⟩], _,
    by norm_num [FlModel.skew], rfl, ?_, ?_, by norm_num [FlModel.skew], ?_⟩
  · intro i hi
    have : i = 0 ∨ i = 1 := by omega
    rcases this with rfl | rfl <;> simp [Mat.get]
  · intro i j hi hij hj
    have : i = 0 ∧ j = 1 := by omega
    obtain ⟨rfl, rfl⟩ := this
    simp [Mat.get]
  · norm_num [fwdCore, fwdStep, vget, Mat.get, sumFrom, List.range', List.range, List.range.loop,
      FlModel.skew, Finset.sum_range_succ]

end SV.Props.C08Rounding
