import SV.Model.C09
import SV.Lemmas.Mat
import SV.Lemmas.LU
import Mathlib.LinearAlgebra.Matrix.Determinant.Basic
import Mathlib.LinearAlgebra.Matrix.Block
import Mathlib.LinearAlgebra.Matrix.Permutation
import Mathlib.LinearAlgebra.Matrix.ToLinearEquiv
/-!
# C09 — LU and PLU: factors have the advertised shape and multiply back to the input

Property theorems only (helper lemmas: `SV.Lemmas.LU`).  `K` is any linearly ordered field, so the
"to within `n·eps·|L||U|`" clause of the statement is proved with rounding error 0: the algorithms
are the right algorithms on every input of every size.  The same `SV.C09.lu` / `SV.C09.plu` run at
`Float` in the driver (with `eps = 2^-52 = f64::EPSILON`) and are compared bit for bit with
`lu_decomposition` / `lu_pivot_decomposition` on every run of the check.

Reading guide
* `lu_correct`, `plu_correct` — shape of the factors, `L U = A` resp. `L U = P A`, `|l_ij| ≤ 1`,
  pivots `≥ eps`; `lu_toMatrix`, `plu_toMatrix` say the same through Mathlib's `Matrix` (the form
  C10 builds on).
* `*_nonsquare`, `*_never_panics`, `*_square_outcome` — error behaviour.
* `plu_det`, `plu_refuses_singular` (+ zero row / zero column / repeated row / kernel corollaries),
  `lu_refuses_vanishing_minor` — what is *refused*.
* `plu_accepts_regular`, `lu_accepts` — what is *accepted* (completeness).
-/
namespace SV.Props.C09
open SV SV.C09 Finset

variable {K : Type} [Field K] [LinearOrder K] [IsStrictOrderedRing K] [Inhabited K]

/-! ### vocabulary -/

/-- a well-formed `n × n` array -/
def Square (n : Nat) (M : Mat K) : Prop := M.h = n ∧ M.w = n ∧ M.WF

/-- unit lower triangular: ones on the diagonal, zeros above it -/
def UnitLower (n : Nat) (L : Mat K) : Prop :=
  (∀ i, i < n → L.get i i = 1) ∧ ∀ i j, i < n → j < n → i < j → L.get i j = 0

/-- upper triangular: zeros below the diagonal -/
def Upper (n : Nat) (U : Mat K) : Prop := ∀ i j, i < n → j < n → j < i → U.get i j = 0

/-- `P` is the permutation matrix of `σ`: row `i` is the unit vector `e_{σ i}`, so that row `i` of
`P A` is row `σ i` of `A` -/
def IsPermMatrix (n : Nat) (P : Mat K) (σ : Equiv.Perm (Fin n)) : Prop :=
  ∀ i j : Fin n, P.get i j = if j = σ i then 1 else 0

/-! ### plain LU -/

/-- **Plain LU.**  Whenever `lu` returns `(L, U)`: the input was square, both factors are `n × n`,
`L` is unit lower triangular, `U` upper triangular, `L U = A` entry by entry, and every divisor the
run used — `U i i` for the passes `i` with a row below them, `i + 1 < n` — has size at least
`eps`, in particular is not zero (`lu_divisors_ne_zero`). -/
theorem lu_correct {eps : K} (heps : 0 < eps) {A L U : Mat K} (h : lu eps A = .ok (L, U)) :
    A.h = A.w ∧ Square A.h L ∧ Square A.h U ∧ UnitLower A.h L ∧ Upper A.h U ∧
    (∀ i j, i < A.h → j < A.h → ∑ k ∈ range A.h, L.get i k * U.get k j = A.get i j) ∧
    (∀ i, i + 1 < A.h → eps ≤ |U.get i i|) := by
  obtain ⟨hsq, inv⟩ := lu_ok heps h
  refine ⟨hsq, inv.dims.1, inv.dims.2, ⟨?_, ?_⟩, ?_, ?_, ?_⟩
  · intro i hi; exact inv.Ld i hi hi
  · intro i j hi hj hij; exact inv.Lz i j hi hj (Or.inr hij)
  · intro i j hi hj hji; exact inv.Uz i j hi hj (Or.inr hji)
  · intro i j hi hj; exact inv.prod i j hi hj (Or.inl hi)
  · intro i hi; exact inv.piv i hi (by omega)

theorem lu_divisors_ne_zero {eps : K} (heps : 0 < eps) {A L U : Mat K}
    (h : lu eps A = .ok (L, U)) : ∀ i, i + 1 < A.h → U.get i i ≠ 0 := by
  intro i hi h0
  have := (lu_correct heps h).2.2.2.2.2.2 i hi
  rw [h0, abs_zero] at this
  exact absurd (lt_of_lt_of_le heps this) (lt_irrefl _)

/-- `lu_correct` through Mathlib's `Matrix`. -/
theorem lu_toMatrix {eps : K} (heps : 0 < eps) {A L U : Mat K} (h : lu eps A = .ok (L, U)) :
    L.toMatrix A.h A.h * U.toMatrix A.h A.h = A.toMatrix A.h A.h := by
  funext i j
  simp only [Mat.toMatrix, Matrix.mul_apply]
  rw [← (lu_correct heps h).2.2.2.2.2.1 i.val j.val i.isLt j.isLt, Finset.sum_range]

theorem lu_nonsquare (eps : K) (A : Mat K) (h : A.h ≠ A.w) : lu eps A = .err .nonSquare :=
  (lu_outcome eps A).1 h

/-- a square input is either factored or refused as singular — nothing else, in particular no
panic: every index the run reads lies inside the `n × n` arrays it reads from -/
theorem lu_square_outcome (eps : K) (A : Mat K) (h : A.h = A.w) :
    lu eps A = .err .singular ∨ ∃ L U, lu eps A = .ok (L, U) :=
  (lu_outcome eps A).2 h

theorem lu_never_panics (eps : K) (A : Mat K) : lu eps A ≠ .panic := by
  by_cases h : A.h = A.w
  · rcases lu_square_outcome eps A h with h1 | ⟨L, U, h1⟩ <;> rw [h1] <;> simp
  · rw [lu_nonsquare eps A h]; simp

/-! ### LU with partial pivoting -/

/-- **PLU.**  Whenever `plu` returns `(L, U, P)`: the input was square, the three results are
`n × n`, `P` is the permutation matrix of some permutation `σ`, `L` is unit lower triangular, `U`
upper triangular, `L U = P A` entry by entry (row `i` of `P A` is row `σ i` of `A`), every
multiplier satisfies `|l_ij| ≤ 1`, and every pivot `|u_ii| ≥ eps`. -/
theorem plu_correct {eps : K} (heps : 0 < eps) {A L U P : Mat K}
    (h : plu eps A = .ok (L, U, P)) :
    A.h = A.w ∧ Square A.h L ∧ Square A.h U ∧ Square A.h P ∧
    ∃ σ : Equiv.Perm (Fin A.h), IsPermMatrix A.h P σ ∧ UnitLower A.h L ∧ Upper A.h U ∧
      (∀ i j : Fin A.h, ∑ k ∈ range A.h, L.get i k * U.get k j = A.get (σ i) j) ∧
      (∀ i j, i < A.h → j < i → |L.get i j| ≤ 1) ∧
      (∀ i, i < A.h → eps ≤ |U.get i i|) := by
  obtain ⟨hsq, lu, σ, inv, hL, hU⟩ := plu_ok heps h
  subst hL hU
  refine ⟨hsq, ⟨rfl, rfl, Mat.tab_WF _ _ _⟩, ⟨rfl, rfl, Mat.tab_WF _ _ _⟩,
    ⟨inv.ph, inv.pw, inv.pwf⟩, permFin σ A.h inv.fix, ?_, ⟨?_, ?_⟩, ?_, ?_, ?_, ?_⟩
  · intro i j
    have := inv.perm i.val j.val i.isLt j.isLt
    simp only at this
    rw [this]
    by_cases hj : j = permFin σ A.h inv.fix i
    · rw [if_pos hj, if_pos (by rw [hj]; rfl)]
    · rw [if_neg hj, if_neg]
      intro hv
      apply hj
      ext
      rw [permFin_val]; exact hv
  · intro i hi
    rw [splitL_get _ _ hi hi, if_pos rfl]
  · intro i j hi hj hij
    rw [splitL_get _ _ hi hj, if_neg (by omega), if_neg (by omega)]
  · intro i j hi hj hji
    rw [splitU_get _ _ hi hj, if_neg (by omega)]
  · intro i j
    rw [split_prod inv i.isLt j.isLt]
    rfl
  · intro i j hi hji
    rw [splitL_get _ _ hi (by omega), if_neg (by omega), if_pos hji]
    exact inv.mult i j hi (by omega)
  · intro i hi
    rw [splitU_get _ _ hi hi, if_pos (le_refl i)]
    exact inv.piv i hi

/-- `plu_correct` through Mathlib's `Matrix`: `P` denotes `σ.permMatrix`, and `L U = P A`. -/
theorem plu_toMatrix {eps : K} (heps : 0 < eps) {A L U P : Mat K}
    (h : plu eps A = .ok (L, U, P)) :
    ∃ σ : Equiv.Perm (Fin A.h), P.toMatrix A.h A.h = σ.permMatrix K ∧
      L.toMatrix A.h A.h * U.toMatrix A.h A.h = P.toMatrix A.h A.h * A.toMatrix A.h A.h ∧
      L.toMatrix A.h A.h * U.toMatrix A.h A.h = (A.toMatrix A.h A.h).submatrix σ id := by
  obtain ⟨_, _, _, _, σ, hP, _, _, hprod, _, _⟩ := plu_correct heps h
  have e1 : P.toMatrix A.h A.h = σ.permMatrix K := by
    funext i j
    simp only [Mat.toMatrix, Equiv.Perm.permMatrix, PEquiv.toMatrix_apply, Equiv.toPEquiv_apply,
      Option.mem_def, Option.some.injEq]
    rw [hP i j]
    by_cases hj : j = σ i
    · rw [if_pos hj, if_pos hj.symm]
    · rw [if_neg hj, if_neg (fun h' => hj h'.symm)]
  have e3 : L.toMatrix A.h A.h * U.toMatrix A.h A.h = (A.toMatrix A.h A.h).submatrix σ id := by
    funext i j
    simp only [Mat.toMatrix, Matrix.mul_apply, Matrix.submatrix_apply, id_eq]
    rw [← hprod i j, Finset.sum_range]
  refine ⟨σ, e1, ?_, e3⟩
  rw [e1, e3, Equiv.Perm.permMatrix, PEquiv.toMatrix_toPEquiv_mul]

theorem plu_nonsquare (eps : K) (A : Mat K) (h : A.h ≠ A.w) : plu eps A = .err .nonSquare :=
  (plu_outcome eps A).1 h

theorem plu_square_outcome (eps : K) (A : Mat K) (h : A.h = A.w) :
    plu eps A = .err .singular ∨ ∃ L U P, plu eps A = .ok (L, U, P) :=
  (plu_outcome eps A).2 h

theorem plu_never_panics (eps : K) (A : Mat K) : plu eps A ≠ .panic := by
  by_cases h : A.h = A.w
  · rcases plu_square_outcome eps A h with h1 | ⟨L, U, P, h1⟩ <;> rw [h1] <;> simp
  · rw [plu_nonsquare eps A h]; simp

/-! ### what is refused -/

/-- success determines the determinant: `sign σ · det A = ∏ u_ii`, and that product is not zero -/
theorem plu_det {eps : K} (heps : 0 < eps) {A L U P : Mat K} (h : plu eps A = .ok (L, U, P)) :
    ∃ σ : Equiv.Perm (Fin A.h),
      ((Equiv.Perm.sign σ : ℤ) : K) * (A.toMatrix A.h A.h).det = ∏ i : Fin A.h, U.get i i ∧
      ∏ i : Fin A.h, U.get i i ≠ 0 := by
  obtain ⟨_, _, _, _, _, _, hLow, hUp, _, _, hpiv⟩ := plu_correct heps h
  obtain ⟨σ, _, _, e3⟩ := plu_toMatrix heps h
  refine ⟨σ, ?_, ?_⟩
  · have hL : (L.toMatrix A.h A.h).det = 1 := by
      rw [Matrix.det_of_isLowerTriangular]
      · apply Finset.prod_eq_one
        intro i _
        exact hLow.1 i.val i.isLt
      · intro i j hij
        exact hLow.2 i.val j.val i.isLt j.isLt hij
    have hU : (U.toMatrix A.h A.h).det = ∏ i : Fin A.h, U.get i i := by
      rw [Matrix.det_of_isUpperTriangular]
      · rfl
      · intro i j hij
        exact hUp i.val j.val i.isLt j.isLt hij
    have := congrArg Matrix.det e3
    rw [Matrix.det_mul, hL, hU, one_mul, Matrix.det_permute] at this
    rw [this]
  · rw [Finset.prod_ne_zero_iff]
    intro i _ h0
    have := hpiv i.val i.isLt
    rw [h0, abs_zero] at this
    exact absurd (lt_of_lt_of_le heps this) (lt_irrefl _)

/-- success ⇒ the input is non-singular -/
theorem plu_ok_det_ne_zero {eps : K} (heps : 0 < eps) {A L U P : Mat K}
    (h : plu eps A = .ok (L, U, P)) : (A.toMatrix A.h A.h).det ≠ 0 := by
  obtain ⟨σ, h1, h2⟩ := plu_det heps h
  intro h0
  rw [h0, mul_zero] at h1
  exact h2 h1.symm

/-- **A singular matrix is never factored**: a square matrix with zero determinant yields
`SingularMatrix`, for every positive threshold. -/
theorem plu_refuses_singular {eps : K} (heps : 0 < eps) (A : Mat K) (hsq : A.h = A.w)
    (hdet : (A.toMatrix A.h A.h).det = 0) : plu eps A = .err .singular := by
  rcases plu_square_outcome eps A hsq with h | ⟨L, U, P, h⟩
  · exact h
  · exact absurd hdet (plu_ok_det_ne_zero heps h)

/-- the kernel form: a non-zero vector annihilated by `A` -/
theorem plu_refuses_kernel {eps : K} (heps : 0 < eps) (A : Mat K) (hsq : A.h = A.w)
    (x : Fin A.h → K) (hx : x ≠ 0) (hker : (A.toMatrix A.h A.h).mulVec x = 0) :
    plu eps A = .err .singular := by
  apply plu_refuses_singular heps A hsq
  exact Matrix.exists_mulVec_eq_zero_iff.1 ⟨x, hx, hker⟩

theorem plu_refuses_zero_row {eps : K} (heps : 0 < eps) (A : Mat K) (hsq : A.h = A.w)
    (r : Nat) (hr : r < A.h) (hz : ∀ j, j < A.h → A.get r j = 0) : plu eps A = .err .singular := by
  apply plu_refuses_singular heps A hsq
  exact Matrix.det_eq_zero_of_row_eq_zero ⟨r, hr⟩ (fun j => hz j.val j.isLt)

theorem plu_refuses_zero_column {eps : K} (heps : 0 < eps) (A : Mat K) (hsq : A.h = A.w)
    (c : Nat) (hc : c < A.h) (hz : ∀ i, i < A.h → A.get i c = 0) : plu eps A = .err .singular := by
  apply plu_refuses_singular heps A hsq
  exact Matrix.det_eq_zero_of_column_eq_zero ⟨c, hc⟩ (fun i => hz i.val i.isLt)

theorem plu_refuses_repeated_row {eps : K} (heps : 0 < eps) (A : Mat K) (hsq : A.h = A.w)
    (r s : Nat) (hr : r < A.h) (hs : s < A.h) (hne : r ≠ s)
    (heq : ∀ j, j < A.h → A.get r j = A.get s j) : plu eps A = .err .singular := by
  apply plu_refuses_singular heps A hsq
  apply Matrix.det_zero_of_row_eq (i := ⟨r, hr⟩) (j := ⟨s, hs⟩)
  · intro h; exact hne (Fin.mk.inj_iff.1 h)
  · funext j; exact heq j.val j.isLt

/-- **Plain LU refuses a vanishing leading minor**: if a leading principal minor of order
`k < n` (`k ≥ 1` is implied: the empty determinant is 1) is zero, the result is `SingularMatrix`.
(For `k = n` the matrix is singular but *can* be factored with `u_nn = 0`; the code then
succeeds, and `lu_correct` applies.) -/
theorem lu_refuses_vanishing_minor {eps : K} (heps : 0 < eps) (A : Mat K) (hsq : A.h = A.w)
    (k : Nat) (hk : k < A.h) (hminor : (A.toMatrix k k).det = 0) : lu eps A = .err .singular := by
  rcases lu_square_outcome eps A hsq with h | ⟨L, U, h⟩
  · exact h
  · exfalso
    obtain ⟨_, _, _, hLow, hUp, hprod, _⟩ := lu_correct heps h
    have hne := lu_divisors_ne_zero heps h
    have e : A.toMatrix k k = L.toMatrix k k * U.toMatrix k k := by
      funext i j
      simp only [Mat.toMatrix, Matrix.mul_apply]
      rw [← hprod i.val j.val (by omega) (by omega), ← Finset.sum_range
        (f := fun t => L.get i.val t * U.get t j.val)]
      apply sum_range_tail_zero (le_of_lt hk)
      intro t hkt ht
      rw [hLow.2 i.val t (by omega) ht (by omega), zero_mul]
    have hL : (L.toMatrix k k).det = 1 := by
      rw [Matrix.det_of_isLowerTriangular]
      · apply Finset.prod_eq_one
        intro i _
        exact hLow.1 i.val (by omega)
      · intro i j hij
        exact hLow.2 i.val j.val (by omega) (by omega) hij
    have hU : (U.toMatrix k k).det = ∏ i : Fin k, U.get i i := by
      rw [Matrix.det_of_isUpperTriangular]
      · rfl
      · intro i j hij
        exact hUp i.val j.val (by omega) (by omega) hij
    rw [e, Matrix.det_mul, hL, hU, one_mul, Finset.prod_eq_zero_iff] at hminor
    obtain ⟨i, _, h0⟩ := hminor
    exact hne i.val (by omega) h0

/-! ### what is accepted -/

/-- the threshold only decides between success and refusal: a factorisation obtained with one
threshold is obtained, unchanged, with every smaller one -/
theorem plu_threshold_mono {eps eps' : K} (hle : eps' ≤ eps) {A L U P : Mat K}
    (h : plu eps A = .ok (L, U, P)) : plu eps' A = .ok (L, U, P) := by
  unfold plu at h ⊢
  split_ifs at h with hsq
  rw [if_neg hsq]
  dsimp only at h ⊢
  cases hit : iter (pluStep eps A.h) A.h 0 (A, Mat.ident A.h) with
  | none => simp [hit] at h
  | some st =>
    rw [iter_pluStep_mono hle _ _ _ _ hit]
    simpa [hit] using h

/-- **A regular matrix is always factored**, provided the threshold is small enough for its
pivots: if `det A ≠ 0` there is a positive `eps0` and one triple `(L, U, P)` that `plu` returns for
every threshold `0 < eps ≤ eps0` (partial pivoting in exact arithmetic meets a zero pivot column
only on a singular matrix).  With `plu_refuses_singular`: below `eps0`, `plu` succeeds iff
`det A ≠ 0`. -/
theorem plu_accepts_regular (A : Mat K) (hsq : A.h = A.w)
    (hdet : (A.toMatrix A.h A.h).det ≠ 0) :
    ∃ eps0 : K, 0 < eps0 ∧ ∃ L U P, ∀ eps, 0 < eps → eps ≤ eps0 →
      plu eps A = .ok (L, U, P) := by
  obtain ⟨e, he, s, hs⟩ := plu_iter_regular rfl hsq.symm hdet A.h le_rfl
  refine ⟨e, he, splitL A.h s.1, splitU A.h s.1, s.2, ?_⟩
  intro eps h0 hle
  unfold plu
  rw [if_neg (not_not.mpr hsq)]
  dsimp only
  rw [hs eps h0 hle]

theorem lu_threshold_mono {eps eps' : K} (hle : eps' ≤ eps) {A L U : Mat K}
    (h : lu eps A = .ok (L, U)) : lu eps' A = .ok (L, U) := by
  unfold lu at h ⊢
  split_ifs at h with hsq
  rw [if_neg hsq]
  dsimp only at h ⊢
  cases hit : iter (luStep eps A.h A) A.h 0
      (Mat.tab A.h A.h fun _ _ => (0:K), Mat.tab A.h A.h fun _ _ => (0:K)) with
  | none => simp [hit] at h
  | some st =>
    rw [iter_luStep_mono hle _ _ _ _ hit]
    simpa [hit] using h

/-- **Plain LU factors every matrix whose leading minors of order `1 … n-1` are non-zero**, for
every threshold below some positive `eps0` (the converse of `lu_refuses_vanishing_minor`: below
`eps0`, `lu` succeeds iff no leading minor of order `< n` vanishes). -/
theorem lu_accepts (A : Mat K) (hsq : A.h = A.w)
    (hmin : ∀ k, 1 ≤ k → k < A.h → (A.toMatrix k k).det ≠ 0) :
    ∃ eps0 : K, 0 < eps0 ∧ ∃ L U, ∀ eps, 0 < eps → eps ≤ eps0 → lu eps A = .ok (L, U) := by
  obtain ⟨e, he, s, hs⟩ := lu_iter_regular hmin A.h le_rfl
  refine ⟨e, he, s.1, s.2, ?_⟩
  intro eps h0 hle
  unfold lu
  rw [if_neg (not_not.mpr hsq)]
  dsimp only
  rw [hs eps h0 hle]

/-! ### non-vacuity: the hypotheses above are met by concrete runs over `ℚ`

(`decide +kernel` evaluates the model inside the kernel; no axiom is involved.) -/

section examples

/-- `f64::EPSILON` -/
def epsQ : ℚ := 1 / 4503599627370496

/-- the matrices of `plu::tests::test_known_solution` and `lu::tests::test_known_solution` -/
def Aplu : Mat ℚ := ⟨3, 3, #[0, 1, -2, 1, 0, 2, 3, -2, 2]⟩
def Alu : Mat ℚ := ⟨3, 3, #[2, -1, -2, -4, 6, 3, -4, -2, 8]⟩

def arraysLU : Outcome DecompErr (Mat ℚ × Mat ℚ) → Option (Array ℚ × Array ℚ)
  | .ok (l, u) => some (l.a, u.a)
  | _ => none
def arraysPLU : Outcome DecompErr (Mat ℚ × Mat ℚ × Mat ℚ) → Option (Array ℚ × Array ℚ × Array ℚ)
  | .ok (l, u, p) => some (l.a, u.a, p.a)
  | _ => none

/-- the model reproduces the expected factors of the library's own tests, exactly -/
example : arraysPLU (plu epsQ Aplu) =
    some (#[1, 0, 0, 0, 1, 0, 1/3, 2/3, 1], #[3, -2, 2, 0, 1, -2, 0, 0, 8/3],
          #[0, 0, 1, 1, 0, 0, 0, 1, 0]) := by decide +kernel
example : arraysLU (lu epsQ Alu) =
    some (#[1, 0, 0, -2, 1, 0, -2, -1, 1], #[2, -1, -2, 0, 4, -1, 0, 0, 3]) := by decide +kernel

/-- so the hypothesis of `plu_correct` / `lu_correct` is satisfiable … -/
theorem plu_ok_example : ∃ L U P, plu epsQ Aplu = .ok (L, U, P) := by
  have h : (arraysPLU (plu epsQ Aplu)).isSome = true := by decide +kernel
  cases hp : plu epsQ Aplu with
  | ok v => exact ⟨v.1, v.2.1, v.2.2, rfl⟩
  | err e => rw [hp] at h; simp [arraysPLU] at h
  | panic => rw [hp] at h; simp [arraysPLU] at h
theorem lu_ok_example : ∃ L U, lu epsQ Alu = .ok (L, U) := by
  have h : (arraysLU (lu epsQ Alu)).isSome = true := by decide +kernel
  cases hp : lu epsQ Alu with
  | ok v => exact ⟨v.1, v.2, rfl⟩
  | err e => rw [hp] at h; simp [arraysLU] at h
  | panic => rw [hp] at h; simp [arraysLU] at h

/-- … as are those of `plu_accepts_regular` and `lu_accepts` (the determinant / the leading minors
of the test matrices are not zero) … -/
example : (Aplu.toMatrix Aplu.h Aplu.h).det ≠ 0 := by
  obtain ⟨L, U, P, h⟩ := plu_ok_example
  exact plu_ok_det_ne_zero (by norm_num [epsQ]) h
example : ∀ k, 1 ≤ k → k < Alu.h → (Alu.toMatrix k k).det ≠ 0 := by
  obtain ⟨L, U, h⟩ := lu_ok_example
  intro k _ hk h0
  have := lu_refuses_vanishing_minor (eps := epsQ) (by norm_num [epsQ]) Alu rfl k hk h0
  rw [h] at this
  simp at this

/-- … and the error branches are reached: the exchange matrix has a vanishing first minor (the
input of defect D16: infinities before the repair), a repeated row is singular, 2×3 is not square -/
example : lu epsQ ⟨2, 2, #[0, 1, 1, 0]⟩ = .err .singular := by
  apply lu_refuses_vanishing_minor (by norm_num [epsQ]) _ rfl 1 (by decide)
  simp [Mat.toMatrix, Mat.get]
example : arraysPLU (plu epsQ ⟨2, 2, #[0, 1, 1, 0]⟩) = some (#[1, 0, 0, 1], #[1, 0, 0, 1], #[0, 1, 1, 0]) := by
  decide +kernel
example : plu epsQ ⟨3, 3, #[1, 2, -1, 2, 0, 1, 1, 2, -1]⟩ = .err .singular :=
  plu_refuses_repeated_row (by norm_num [epsQ]) _ rfl 0 2 (by decide) (by decide) (by decide)
    (by decide +kernel)
example : plu epsQ ⟨2, 3, #[1, 2, 3, 4, 5, 6]⟩ = .err .nonSquare := plu_nonsquare _ _ (by decide)
example : lu epsQ ⟨2, 3, #[1, 2, 3, 4, 5, 6]⟩ = .err .nonSquare := lu_nonsquare _ _ (by decide)

end examples

end SV.Props.C09
