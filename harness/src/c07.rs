//! C07 — Newton–Raphson: `newton <poly> <x0> <tol> <itermax> <root|extrema>`
//!
//! Observation: `ok f<x> <passes>` | `err <Kind> <passes>` | `panic`; passes are counted from outside
//! through the evaluation-counting wrapper of c06.rs (two evaluations per pass: g and g').
//! The property's oracle is tools/props/c07.py (exact rationals).
#![allow(dead_code)]
use crate::c06::{as_kind, expand_roots, pick_itermax, pick_tol, show_solver, small_root, solver_err_kind, times_quadratic, Counting};
use crate::polyio::*;
use crate::util::*;
use spindalis::solvers::{newton_raphson_method, SolveMode, SolverError};

fn same_result(a: &Result<f64, SolverError>, b: &Result<f64, SolverError>) -> bool {
    match (a, b) {
        (Ok(x), Ok(y)) => x.to_bits() == y.to_bits(),
        (Err(e), Err(f)) => solver_err_kind(e) == solver_err_kind(f),
        _ => false,
    }
}

fn answer(line: &str) -> String {
    let mut t = Toks::new(line);
    assert_eq!(t.tok(), "newton");
    let p = read_any(&mut t);
    let (x0, tol) = (t.f64(), t.f64());
    let itermax = t.usize();
    let mode_tok = t.tok();
    assert!(mode_tok == "root" || mode_tok == "extrema");
    let mk = || if mode_tok == "root" { SolveMode::Root } else { SolveMode::Extrema };
    let direct = with_poly!(&p, q => newton_raphson_method(q, x0, itermax, tol, mk()));
    let (counted, evals) = match p {
        AnyPoly::S(q) => {
            let c = Counting::new(q);
            let r = newton_raphson_method(&c, x0, itermax, tol, mk());
            (r, c.evals.get())
        }
        AnyPoly::I(q) => {
            let c = Counting::new(q);
            let r = newton_raphson_method(&c, x0, itermax, tol, mk());
            (r, c.evals.get())
        }
    };
    if !same_result(&direct, &counted) {
        return format!("wrapper-mismatch {} {}", show_solver(&direct), show_solver(&counted));
    }
    format!("{} {}", show_solver(&direct), (evals + 1) / 2)
}

pub fn run(line: &str) -> Obs {
    match catch(|| answer(line)) {
        Some(s) => Obs::plain(s),
        None => Obs::plain("panic".into()),
    }
}

fn mode_name(extrema: bool) -> &'static str {
    if extrema { "extrema" } else { "root" }
}

fn emit_req(emit: &mut dyn FnMut(String), p: &AnyPoly, x0: f64, tol: f64, itermax: usize, extrema: bool) {
    emit(format!("newton {} {} {} {} {}", req_any(p), rbits(x0), rbits(tol), itermax, mode_name(extrema)));
}

/// distinct roots with gaps of at least `gap`, sorted
fn separated_roots(rng: &mut Rng, n: usize, with_zero: bool, dyadic: bool) -> Vec<f64> {
    let mut roots: Vec<f64> = Vec::new();
    if with_zero {
        roots.push(0.0);
    }
    let mut guard = 0;
    while roots.len() < n && guard < 1000 {
        guard += 1;
        let r = if dyadic { rng.range(-24, 24) as f64 / 4.0 } else { (rng.uniform(-6.0, 6.0) * 1000.0).round() / 1000.0 };
        if roots.iter().all(|q| (q - r).abs() >= 0.5) {
            roots.push(r);
        }
    }
    roots.sort_by(|a, b| a.partial_cmp(b).unwrap());
    roots
}

pub fn generate(seed: u64, thorough: bool, emit: &mut dyn FnMut(String)) {
    let mut rng = Rng::new(seed ^ 0xC07);
    // iteration caps at the limits of usize ("iterate until converged") on inputs that converge in a few steps, for
    // both polynomial kinds and both modes
    {
        use spindalis_core::polynomials::structs::{IntermediatePolynomial, PolynomialTraits, SimplePolynomial};
        for cap in [usize::MAX, usize::MAX - 1, 1usize << 32, 1usize << 63, (1usize << 63) + 1] {
            for (text, x0) in [("x^2 - 4", 5.0), ("x^3 - 3x^2 + 2x", 4.0), ("2x - 3", -7.0), ("x^3 - x", 3.0)] {
                for simple in [true, false] {
                    let p = if simple { AnyPoly::S(SimplePolynomial::parse(text).unwrap()) } else { AnyPoly::I(IntermediatePolynomial::parse(text).unwrap()) };
                    for extrema in [false, true] {
                        // (the derivative of a linear polynomial is a constant: Newton on it never converges)
                        if extrema && text == "2x - 3" {
                            continue;
                        }
                        emit_req(emit, &p, x0, 1e-8, cap, extrema);
                    }
                }
            }
        }
    }
    let n = if thorough { 400000 } else { 12000 };
    for i in 0..n {
        let simple = rng.chance(1, 2);
        let extrema = rng.chance(1, 4);
        match i % 8 {
            // convergence half: real, separated roots (a root at 0 half of the time in sub-family 0),
            // start outside the root interval, ample budget
            0 | 1 | 2 => {
                let deg = rng.range(1, 6) as usize;
                let with_zero = i % 8 == 0 && rng.chance(1, 2);
                let dyadic = rng.chance(1, 2);
                let mut roots = separated_roots(&mut rng, deg, with_zero, dyadic);
                // put 0 at an extreme position sometimes: shift so that the extreme root is 0
                if with_zero && dyadic && rng.chance(1, 2) {
                    let shift = if rng.chance(1, 2) { roots[roots.len() - 1] } else { roots[0] };
                    for r in roots.iter_mut() {
                        *r -= shift;
                    }
                }
                // overall scale of the real line (exact power of two)
                let scale = 2f64.powi(*rng.pick(&[0, 0, 0, 1, -1, 3, -4, 10, -10, 20, -20]));
                for r in roots.iter_mut() {
                    *r *= scale;
                }
                let c = *rng.pick(&[1.0, -1.0, 2.0, -0.5, 3.0, 0.25]);
                let g = expand_roots(c, &roots);
                let cs = if extrema {
                    // an antiderivative: its derivative (as computed by the code) is g up to rounding
                    let mut p = vec![rng.range(-3, 3) as f64];
                    for (k, a) in g.iter().enumerate() {
                        p.push(*a / (k as f64 + 1.0));
                    }
                    p
                } else {
                    g
                };
                let (lo, hi) = (roots[0], roots[roots.len() - 1]);
                let span = (hi - lo).max(scale);
                let x0 = match rng.below(6) {
                    0 => hi + span * rng.uniform(0.01, 0.5),
                    1 => hi + span * rng.uniform(0.5, 20.0),
                    2 => lo - span * rng.uniform(0.01, 0.5),
                    3 => lo - span * rng.uniform(0.5, 20.0),
                    4 => hi + scale * rng.range(1, 9) as f64,
                    _ => lo - scale * rng.range(1, 9) as f64,
                };
                let tol = *rng.pick(&[1e-9, 1e-8, 1e-7, 1e-6, 1e-5, 1e-4, 1e-3, 0.01, 0.1, 1.0, 10.0]);
                let itermax = *rng.pick(&[2000usize, 3000, 5000]);
                let p = as_kind(&cs, simple, &mut rng);
                emit_req(emit, &p, x0, tol, itermax, extrema);
            }
            // soundness half: polynomials from roots of every kind, any start, any tolerance and cap
            3 | 4 | 5 => {
                let deg = rng.below(8) as usize;
                let mut roots = Vec::new();
                let mut left = deg;
                let mut quads = 0;
                while left > 0 {
                    if left >= 2 && rng.chance(1, 5) {
                        quads += 1;
                        left -= 2;
                    } else {
                        let r = small_root(&mut rng);
                        roots.push(r);
                        left -= 1;
                        if left > 0 && rng.chance(1, 7) {
                            roots.push(r);
                            left -= 1;
                        }
                    }
                }
                let c = match rng.below(4) {
                    0 => 1.0,
                    1 => -1.0,
                    2 => rng.dyadic(16, 3),
                    _ => (rng.uniform(-5.0, 5.0) * 100.0).round() / 100.0,
                };
                let mut g = expand_roots(c, &roots);
                for _ in 0..quads {
                    g = times_quadratic(&g, if rng.chance(1, 2) { rng.range(1, 4) as f64 } else { rng.uniform(0.1, 4.0) });
                }
                let x0 = match rng.below(8) {
                    0 => 0.0,
                    1 if !roots.is_empty() => *rng.pick(&roots),
                    2 => rng.range(-9, 9) as f64,
                    3 => rng.dyadic(64, 3),
                    4 => rng.uniform(-100.0, 100.0),
                    _ => rng.uniform(-10.0, 10.0),
                };
                let p = as_kind(&g, simple, &mut rng);
                emit_req(emit, &p, x0, pick_tol(&mut rng, true), pick_itermax(&mut rng), extrema);
            }
            // iterates that land exactly on 0, zero derivatives, cycles, constants (D14 and the NaN rule)
            6 => {
                let a = rng.range(1, 6) as f64 * if rng.chance(1, 2) { 1.0 } else { 0.5 };
                let (cs, x0): (Vec<f64>, f64) = match rng.below(8) {
                    0 => (vec![a * a, 0.0, 1.0], if rng.chance(1, 2) { a } else { -a }), // x^2 + a^2 from ±a: lands on 0
                    1 => (vec![2.0, -2.0, 0.0, 1.0], if rng.chance(1, 2) { 0.0 } else { 1.0 }), // 0 -> 1 -> 0 cycle
                    2 => (vec![-a * a, 0.0, 1.0], 0.0),                                      // start on a critical point
                    3 => (vec![rng.range(-3, 3) as f64], rng.range(-3, 3) as f64),              // constant
                    4 => (vec![0.0, rng.range(1, 5) as f64], rng.range(-4, 4) as f64),          // c·x: one step onto 0
                    5 => (vec![0.0, 0.0, 1.0], rng.range(-4, 4) as f64),                        // x^2: double root at 0
                    6 => (vec![0.0, -a, 0.0, 1.0], rng.uniform(-3.0, 3.0)),                     // x^3 - a x
                    _ => (vec![], rng.range(-2, 2) as f64),                                     // empty polynomial
                };
                let p = as_kind(&cs, simple, &mut rng);
                let tol = *rng.pick(&[1e-9, 1e-4, 1.0, 99.0, 100.0, 101.0, 150.0, 1000.0, 0.0, -1.0, f64::INFINITY]);
                let itermax = *rng.pick(&[0usize, 1, 2, 3, 10, 100, 2000]);
                emit_req(emit, &p, x0, tol, itermax, extrema);
            }
            // arbitrary polynomials of both kinds (several variables, negative / fractional exponents)
            _ => {
                let p = if simple {
                    simple_of(&crate::polyops::rand_coeffs(&mut rng, 7))
                } else {
                    let names: &[&str] = match rng.below(6) {
                        0 => &[],
                        1 => &["x", "y"],
                        _ => &["x"],
                    };
                    let mut q = crate::polyops::rand_inter(&mut rng, names, 5);
                    if rng.chance(1, 8) {
                        q.variables = vec!["t".to_string()];
                    }
                    AnyPoly::I(q)
                };
                let x0 = if rng.chance(1, 8) { 0.0 } else { rng.uniform(-6.0, 6.0) };
                let itermax = pick_itermax(&mut rng).min(if rng.chance(1, 2) { 300 } else { 5000 });
                emit_req(emit, &p, x0, pick_tol(&mut rng, true), itermax, extrema);
            }
        }
    }
}
