import SV.Lemmas.C02
import SV.Lemmas.C02Text
/-!
The documented multivariate language as abstract syntax, its rendering to text and its meaning —
the vocabulary of `SV.Props.C02.parse_render_inter`.

    polynomial ::= [+|-] term { (+|-) term }
    term       ::= coefficient factor*  |  factor+
    coefficient::= udec | udec '/' udec            (denominator ≠ 0)
    factor     ::= letter [ '^' exponent ]          (letter: one ASCII letter; distinct within a term)
    exponent   ::= [-] udec | [-] udec '/' udec     (denominator ≠ 0)
    udec       ::= digits | digits '.' | '.' digits | digits '.' digits

`render` writes a term list without white space; the theorems quantify over every text whose
non-white-space characters are a rendering.  `TermSyn.sem` is the meaning: (signed coefficient value,
list of (letter, exponent value) sorted by letter), in ℚ.
-/
namespace SV.C02
open SV SV.Text

/-! ### syntax -/

/-- coefficient spelling: absent (implicit 1), a decimal, or a fraction of decimals -/
inductive Coef where
  | none
  | dec (u : UDec)
  | frac (a b : UDec)

def Coef.WF : Coef → Prop
  | .none => True
  | .dec u => u.WF
  | .frac a b => a.WF ∧ b.WF ∧ b.mant ≠ 0

def Coef.render : Coef → List Char
  | .none => []
  | .dec u => u.render
  | .frac a b => a.render ++ '/' :: b.render

def Coef.value : Coef → ℚ
  | .none => 1
  | .dec u => u.value
  | .frac a b => a.value / b.value

/-- `-1` or `1` -/
def sgn (neg : Bool) : ℚ := if neg then -1 else 1

/-- explicit exponent spelling: optionally negative decimal or fraction of decimals -/
inductive Expo where
  | dec (neg : Bool) (u : UDec)
  | frac (neg : Bool) (a b : UDec)

def Expo.WF : Expo → Prop
  | .dec _ u => u.WF
  | .frac _ a b => a.WF ∧ b.WF ∧ b.mant ≠ 0

/-- the text after `^` -/
def Expo.render : Expo → List Char
  | .dec neg u => signChars neg ++ u.render
  | .frac neg a b => signChars neg ++ a.render ++ '/' :: b.render

def Expo.value : Expo → ℚ
  | .dec neg u => sgn neg * u.value
  | .frac neg a b => sgn neg * a.value / b.value

/-- a variable factor: an ASCII letter with an optional exponent -/
structure Factor where
  letter : Char
  exp : Option Expo

def Factor.render (f : Factor) : List Char :=
  f.letter :: (match f.exp with | none => [] | some e => '^' :: e.render)

/-- the exponent's value (implicit 1) -/
def Factor.expValue (f : Factor) : ℚ := match f.exp with | none => 1 | some e => e.value

def renderFactors (fs : List Factor) : List Char := fs.flatMap Factor.render

/-- one term: sign, coefficient, variable factors -/
structure TermSyn where
  neg : Bool
  coef : Coef
  factors : List Factor

structure TermSyn.WF (t : TermSyn) : Prop where
  coef_wf : t.coef.WF
  letters : ∀ f ∈ t.factors, isAsciiLetter f.letter = true
  exps_wf : ∀ f ∈ t.factors, ∀ e, f.exp = some e → e.WF
  /-- the property's quantifier: distinct variables within a term -/
  distinct : (t.factors.map (·.letter)).Nodup
  /-- a term has a coefficient or at least one variable -/
  nonempty : t.coef ≠ .none ∨ t.factors ≠ []

/-- the term without its sign -/
def TermSyn.body (t : TermSyn) : List Char := t.coef.render ++ renderFactors t.factors

/-- a term list as text without white space: the first term is written `-t`, `+t` (when `leadPlus`) or
`t`, every later term `-t` or `+t` -/
def render (leadPlus : Bool) : List TermSyn → List Char
  | [] => []
  | t :: ts => (if t.neg then ['-'] else if leadPlus then ['+'] else []) ++ t.body ++
      ts.flatMap fun u => (if u.neg then '-' else '+') :: u.body

/-! ### meaning -/

/-- meaning of a written term: signed coefficient value and the (letter, exponent value) pairs sorted
by letter -/
def TermSyn.sem (t : TermSyn) : ℚ × List (String × ℚ) :=
  (sgn t.neg * t.coef.value,
   (t.factors.map fun f => (String.singleton f.letter, f.expValue)).mergeSort
     (fun a b => decide (a.1 ≤ b.1)))

/-- meaning of a parsed term: coefficient value and (name, exponent value) pairs in stored order -/
def ITerm.sem (t : ITerm) : ℚ × List (String × ℚ) :=
  (numVal t.coef, t.vars.map fun v => (v.1, numVal v.2))

/-! ### what the parser builds (syntactic level) -/

def Coef.num (neg : Bool) : Coef → Num
  | .none => if neg then Num.negOne else Num.one
  | .dec u => .dec ⟨neg, u.mant, u.fp.length⟩
  | .frac a b => .div (.dec ⟨neg, a.mant, a.fp.length⟩) (.dec ⟨false, b.mant, b.fp.length⟩)

def Expo.num : Expo → Num
  | .dec neg u => .dec ⟨neg, u.mant, u.fp.length⟩
  | .frac neg a b => .div (.dec ⟨neg, a.mant, a.fp.length⟩) (.dec ⟨false, b.mant, b.fp.length⟩)

def Factor.num (f : Factor) : Num := match f.exp with | none => Num.one | some e => e.num

def Factor.entry (f : Factor) : String × Num := (String.singleton f.letter, f.num)

/-- the term the parser returns for a written term -/
def TermSyn.toITerm (t : TermSyn) : ITerm :=
  ⟨t.coef.num t.neg, (t.factors.map Factor.entry).mergeSort leName⟩

/-- the part of the normalised text that belongs to a term: `-` if negative, then the body -/
def TermSyn.piece (t : TermSyn) : List Char := signChars t.neg ++ t.body

theorem numVal_coefNum (neg : Bool) (c : Coef) : numVal (c.num neg) = sgn neg * c.value := by
  cases c with
  | none => cases neg <;> simp [Coef.num, Coef.value, sgn]
  | dec u => simp only [Coef.num, numVal, decVal_mk, sgn, Coef.value]
  | frac a b =>
    simp only [Coef.num, numVal, decVal_mk, sgn, Coef.value, Bool.false_eq_true, if_false, one_mul]
    rw [mul_div_assoc]

theorem numVal_expoNum (e : Expo) : numVal e.num = e.value := by
  cases e with
  | dec neg u => simp only [Expo.num, numVal, decVal_mk, sgn, Expo.value]
  | frac neg a b =>
    simp only [Expo.num, numVal, decVal_mk, sgn, Expo.value, Bool.false_eq_true, if_false, one_mul]

theorem numVal_factorNum (f : Factor) : numVal f.num = f.expValue := by
  unfold Factor.num Factor.expValue
  cases f.exp with
  | none => simp
  | some e => exact numVal_expoNum e

/-- the returned term means what was written -/
theorem sem_toITerm (t : TermSyn) : t.toITerm.sem = t.sem := by
  unfold ITerm.sem TermSyn.sem TermSyn.toITerm
  simp only [numVal_coefNum]
  congr 1
  rw [List.map_mergeSort (r := leName) (s := fun (a b : String × ℚ) => decide (a.1 ≤ b.1))
    (f := fun v : String × Num => (v.1, numVal v.2)) (fun a _ b _ => rfl)]
  congr 1
  rw [List.map_map]
  apply List.map_congr_left
  intro f _
  simp [Factor.entry, numVal_factorNum]

/-! ### characters of a rendering -/

/-- the characters a term body is made of -/
def BodyChar (c : Char) : Prop :=
  isAsciiDigit c = true ∨ isAsciiLetter c = true ∨ c = '.' ∨ c = '/' ∨ c = '-' ∨ c = '^'

theorem BodyChar.ne_plus {c : Char} (h : BodyChar c) : c ≠ '+' := by
  rcases h with h | h | h | h | h | h
  · exact digit_ne_plus h
  · exact letter_ne_plus h
  all_goals (subst h; decide)

theorem BodyChar.not_ws {cc : CharClass} (hcc : Sane cc) {c : Char} (h : BodyChar c) :
    cc.isWs c = false := by
  rcases h with h | h | h | h | h | h
  · exact hcc.digit_not_ws c h
  · exact hcc.letter_not_ws c h
  · subst h; exact hcc.sym_not_ws.1
  · subst h; exact hcc.sym_not_ws.2.1
  · subst h; exact hcc.sym_not_ws.2.2.1
  · subst h; exact hcc.sym_not_ws.2.2.2.2

theorem bodyChar_udec {u : UDec} (hu : u.WF) {c : Char} (hc : c ∈ u.render) : BodyChar c := by
  rcases UDec.mem_render hu hc with h | h
  · exact Or.inl h
  · exact Or.inr (Or.inr (Or.inl h))

theorem bodyChar_sign {neg : Bool} {c : Char} (hc : c ∈ signChars neg) : BodyChar c := by
  cases neg with
  | false => simp [signChars] at hc
  | true =>
    have : c = '-' := by simpa [signChars] using hc
    exact Or.inr (Or.inr (Or.inr (Or.inr (Or.inl this))))

theorem bodyChar_coef {k : Coef} (hk : k.WF) {c : Char} (hc : c ∈ k.render) : BodyChar c := by
  cases k with
  | none => simp [Coef.render] at hc
  | dec u => exact bodyChar_udec hk hc
  | frac a b =>
    simp only [Coef.render, List.mem_append, List.mem_cons] at hc
    rcases hc with h | h | h
    · exact bodyChar_udec hk.1 h
    · exact Or.inr (Or.inr (Or.inr (Or.inl h)))
    · exact bodyChar_udec hk.2.1 h

theorem bodyChar_expo {e : Expo} (he : e.WF) {c : Char} (hc : c ∈ e.render) : BodyChar c := by
  cases e with
  | dec neg u =>
    simp only [Expo.render, List.mem_append] at hc
    rcases hc with h | h
    · exact bodyChar_sign h
    · exact bodyChar_udec he h
  | frac neg a b =>
    simp only [Expo.render, List.mem_append, List.mem_cons] at hc
    rcases hc with (h | h) | h | h
    · exact bodyChar_sign h
    · exact bodyChar_udec he.1 h
    · exact Or.inr (Or.inr (Or.inr (Or.inl h)))
    · exact bodyChar_udec he.2.1 h

theorem bodyChar_factor {f : Factor} (hl : isAsciiLetter f.letter = true)
    (he : ∀ e, f.exp = some e → e.WF) {c : Char} (hc : c ∈ f.render) : BodyChar c := by
  unfold Factor.render at hc
  rcases List.mem_cons.1 hc with h | h
  · subst h; exact Or.inr (Or.inl hl)
  · cases hx : f.exp with
    | none => rw [hx] at h; simp at h
    | some e =>
      rw [hx] at h
      rcases List.mem_cons.1 h with h | h
      · exact Or.inr (Or.inr (Or.inr (Or.inr (Or.inr h))))
      · exact bodyChar_expo (he e hx) h

theorem bodyChar_body {t : TermSyn} (ht : t.WF) {c : Char} (hc : c ∈ t.body) : BodyChar c := by
  unfold TermSyn.body renderFactors at hc
  rcases List.mem_append.1 hc with h | h
  · exact bodyChar_coef ht.coef_wf h
  · obtain ⟨f, hf, hcf⟩ := List.mem_flatMap.1 h
    exact bodyChar_factor (ht.letters f hf) (ht.exps_wf f hf) hcf

theorem bodyChar_piece {t : TermSyn} (ht : t.WF) {c : Char} (hc : c ∈ t.piece) : BodyChar c := by
  unfold TermSyn.piece at hc
  rcases List.mem_append.1 hc with h | h
  · exact bodyChar_sign h
  · exact bodyChar_body ht h

theorem plus_not_mem_piece {t : TermSyn} (ht : t.WF) : '+' ∉ t.piece :=
  fun h => (bodyChar_piece ht h).ne_plus rfl

theorem Coef.render_ne_nil {k : Coef} (hk : k.WF) (hne : k ≠ .none) : k.render ≠ [] := by
  cases k with
  | none => exact absurd rfl hne
  | dec u => exact UDec.render_ne_nil hk
  | frac a b => simp [Coef.render]

theorem body_ne_nil {t : TermSyn} (ht : t.WF) : t.body ≠ [] := by
  unfold TermSyn.body
  rcases ht.nonempty with h | h
  · intro e
    exact Coef.render_ne_nil ht.coef_wf h (List.append_eq_nil_iff.1 e).1
  · cases hf : t.factors with
    | nil => exact absurd hf h
    | cons f fs => simp [renderFactors, Factor.render]

/-- a rendering contains no white space -/
theorem stripWs_render {cc : CharClass} (hcc : Sane cc) (lead : Bool) (ts : List TermSyn)
    (hwf : ∀ t ∈ ts, t.WF) : stripWs cc (render lead ts) = render lead ts := by
  apply stripWs_eq_self
  intro c hc
  cases ts with
  | nil => simp [render] at hc
  | cons t ts =>
    simp only [render, List.mem_append, List.mem_flatMap, List.mem_cons] at hc
    rcases hc with (h | h) | ⟨u, hu, h | h⟩
    · by_cases hn : t.neg = true
      · rw [if_pos hn] at h
        have : c = '-' := by simpa using h
        subst this; exact hcc.sym_not_ws.2.2.1
      · rw [if_neg hn] at h
        cases lead with
        | false => simp at h
        | true =>
          have : c = '+' := by simpa using h
          subst this; exact hcc.sym_not_ws.2.2.2.1
    · exact (bodyChar_body (hwf t (by simp)) h).not_ws hcc
    · subst h
      by_cases hn : u.neg = true
      · rw [if_pos hn]; exact hcc.sym_not_ws.2.2.1
      · rw [if_neg hn]; exact hcc.sym_not_ws.2.2.2.1
    · exact (bodyChar_body (hwf u (by simp [hu])) h).not_ws hcc

end SV.C02
