import SV.Lemmas.C19
import SV.Lemmas.C19Lex
/-!
# C19 — totality of the lexer and of the Pratt parser

The model recurses on fuel; the Rust code recurses without any bound.  The theorems below show that the
fuel the model gives itself (`tokens + 1`, `characters + 1`) is never what stops it:

* `parser_total`, `lex_total`: any larger amount of fuel gives the same answer — result *or* error —,
  so the model with fuel `n + 1` is the unbounded recursion of the source;
* `parser_spec`, `parser_error_spec`: results and errors of `parseTokens` are exactly those of the
  fuel-free big-step semantics `R` / `E` (`SV.Lemmas.C19`), whose only source of
  `PolynomialSyntaxError` is `parse_expr` called on an empty token stream (`E.empty`);
* `syntaxErr_source`: in terms of the input, `PolynomialSyntaxError` is only returned for an input that
  is empty or ends with an operator or `(`;
* `parse_consumes_all`: an accepted input was read to its end.

That `lex` and `parseTokens` return either a value or an error — never anything else — is their type
(`Except PErr _`); `result_or_error` records it.  The Rust counterpart (no panic on any input) is what
the totality requests of the correspondence check exercise.
-/
namespace SV.Props.C19Total
open SV SV.Text SV.C19

variable {N : Type}

/-- Fuel never stops the parser: with at least `tokens + 1` units of fuel the answer of `parse_expr`
(and of its operator loop) does not depend on the fuel. -/
theorem parser_total (ts : List (Tok N)) (minBp fuel : Nat) (h : ts.length + 1 ≤ fuel) :
    parseExpr fuel ts minBp = parseExpr (ts.length + 1) ts minBp ∧
    ∀ l : Expr N, binLoop fuel l ts minBp = binLoop (ts.length + 1) l ts minBp :=
  ⟨parseExpr_fuel_irrelevant ts minBp h, fun l => binLoop_fuel_irrelevant l ts minBp h⟩

/-- `parseTokens ts = ok e` iff the fuel-free semantics reads the whole implied-multiplied token list
as `e`. -/
theorem parser_spec (ts : List (Tok N)) (e : Expr N) :
    parseTokens ts = .ok e ↔ R .full (impliedMul ts) 0 e [] :=
  parseTokens_iff_R ts e

/-- Every error of `parseTokens` is an error of the fuel-free semantics: either `parse_expr` fails
(`E`), or it succeeds and tokens are left over (`UnexpectedToken`).  In particular the model's
fuel-exhaustion branch is never the reason. -/
theorem parser_error_spec (ts : List (Tok N)) (x : PErr) (h : parseTokens ts = .error x) :
    E .full (impliedMul ts) 0 x ∨
    (x = .unexpectedToken ∧ ∃ e t r, R .full (impliedMul ts) 0 e (t :: r)) := by
  unfold parseTokens at h
  simp only at h
  split at h
  · rename_i x' hx
    simp only [Except.error.injEq] at h; subst h
    exact Or.inl ((parse_error_sound _).1 _ _ _ (Nat.le_refl _) hx)
  · simp at h
  · rename_i e t r he
    simp only [Except.error.injEq] at h; subst h
    exact Or.inr ⟨rfl, e, t, r, (parse_sound _).1 _ _ _ _ he⟩

/-- `PolynomialSyntaxError` comes from an empty remaining input only: the token list is empty or
ends with an operator or an opening parenthesis. -/
theorem syntaxErr_source (ts : List (Tok N)) (h : parseTokens ts = .error .syntaxErr) :
    ts = [] ∨ ∃ p t, ts = p ++ [t] ∧ (t = .lp ∨ ∃ o, t = .op o) := by
  rcases parser_error_spec ts _ h with h | ⟨h, -⟩
  · rcases E_syntaxErr h rfl with h0 | h0
    · exact Or.inl ((impliedMul_nil_iff ts).mp h0)
    · exact Or.inr ((openEnd_impliedMul ts).mp h0)
  · cases h

/-- An accepted token list was consumed entirely: `parse_expr` at power 0 returns the tree and no
remaining token, with the model's fuel and with any larger one. -/
theorem parse_consumes_all (ts : List (Tok N)) (e : Expr N) (h : parseTokens ts = .ok e) :
    ∀ fuel, (impliedMul ts).length + 1 ≤ fuel → parseExpr fuel (impliedMul ts) 0 = .ok (e, []) := by
  intro fuel hf
  rw [parseExpr_fuel_irrelevant _ _ hf]
  exact (parseExpr_iff_R _ _ _ _).mpr ((parser_spec ts e).mp h)

/-- Fuel never stops the lexer: with at least `characters + 1` units the answer does not depend on it. -/
theorem lex_total (s : List Char) (acc : List (Tok Dec)) (fuel : Nat) (h : s.length + 1 ≤ fuel) :
    lexGo fuel s acc = lexGo (s.length + 1) s acc :=
  lexGo_fuel_irrelevant s acc h

/-- `lex` computes the fuel-free pass-by-pass semantics: all characters are consumed on success, and
an error is the error of some pass (`InvalidNumber` or `UnexpectedChar`, see `lexStep`). -/
theorem lex_spec (s : List Char) :
    (∀ out, lex s = .ok out ↔ Lexed (s.filter (· ≠ ' ')) out) ∧
    (∀ x, lex s = .error x ↔ LexErr (s.filter (· ≠ ' ')) x) :=
  ⟨lex_ok_iff s, lex_error_iff s⟩

/-- the lexer's only errors -/
theorem lex_error_kinds (s : List Char) (x : PErr) (h : lex s = .error x) :
    x = .invalidNumber ∨ x = .unexpectedChar := by
  have h2 := (lex_error_iff s x).mp h
  clear h
  generalize s.filter (· ≠ ' ') = t at h2
  induction h2 with
  | @here c cs x h =>
    unfold lexStep at h
    repeat' split at h
    all_goals first
      | (simp only [Except.error.injEq] at h; subst h; simp)
      | simp at h
  | later _ _ ih => exact ih

/-- by type: a value or an error, for every input -/
theorem result_or_error (s : List Char) (ts : List (Tok N)) :
    ((∃ out, lex s = .ok out) ∨ ∃ x, lex s = .error x) ∧
    ((∃ e, parseTokens ts = .ok e) ∨ ∃ x, parseTokens ts = .error x) := by
  constructor
  · cases lex s with
    | ok out => exact Or.inl ⟨out, rfl⟩
    | error x => exact Or.inr ⟨x, rfl⟩
  · cases parseTokens ts with
    | ok e => exact Or.inl ⟨e, rfl⟩
    | error x => exact Or.inr ⟨x, rfl⟩

/-! non-vacuity -/

example : parseTokens [Tok.num (2 : Nat), .op .add] = .error .syntaxErr := by rfl
example : parseTokens [Tok.num (2 : Nat), .var "x", .op .caret, .num 2] =
    .ok (.bin .mul (.num 2) (.bin .caret (.var "x") (.num 2) false) false) := by rfl
example : parseTokens ([] : List (Tok Nat)) = .error .syntaxErr := by rfl
example : lex "2x".toList = .ok [.num ⟨false, 2, 0⟩, .var "x"] := by rfl
example : lex "2#".toList = .error .unexpectedChar := by rfl
example : lex "1.2.3".toList = .error .invalidNumber := by rfl

end SV.Props.C19Total
