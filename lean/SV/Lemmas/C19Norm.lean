import SV.Lemmas.C19Eval
import SV.Lemmas.C19Print
import Mathlib.Tactic.FieldSimp
/-!
Lemmas for C19: `norm` does not change what a tree denotes — the canonical decimal has the same value
and the evaluator ignores `paren` flags.
-/
namespace SV.C19
open SV SV.Text

theorem canonGo_val (m s : Nat) :
    ((canonGo m s).1 : ℚ) / (10 : ℚ) ^ (canonGo m s).2 = (m : ℚ) / (10 : ℚ) ^ s := by
  induction s generalizing m with
  | zero => simp [canonGo]
  | succ n ih =>
    by_cases h : m % 10 = 0
    · simp only [canonGo, h, ↓reduceIte]
      rw [ih]
      have hm : (m : ℚ) = 10 * ((m / 10 : Nat) : ℚ) := by
        have : m = 10 * (m / 10) := by omega
        exact_mod_cast this
      rw [hm, pow_succ]
      have h10 : (10 : ℚ) ≠ 0 := by norm_num
      have hp : (10 : ℚ) ^ n ≠ 0 := pow_ne_zero _ h10
      field_simp
    · simp only [canonGo, h, ↓reduceIte]

theorem canon_val (d : Dec) : (canon d).val = d.val := by
  unfold Dec.val canon
  simp only
  rw [mul_div_assoc, canonGo_val, ← mul_div_assoc]

theorem map_norm (e : Expr Dec) : ∀ (S : Sem ℚ), eval S ((norm e).map Dec.val) = eval S (e.map Dec.val) := by
  intro S
  induction e with
  | num x => simp [norm, Expr.map, eval, canon_val]
  | var s => rfl
  | const c => rfl
  | func f i ih => simp only [norm, Expr.map, eval, ih]
  | pre o v ih => simp only [norm, Expr.map, eval, ih]
  | post o v ih => simp only [norm, Expr.map, eval, ih]
  | bin o l r p ihl ihr => simp only [norm, Expr.map, eval, ihl, ihr]

/-- trees with the same `norm` denote the same function -/
theorem eval_eq_of_norm_eq {e e' : Expr Dec} (h : norm e' = norm e) (S : Sem ℚ) :
    eval S (e'.map Dec.val) = eval S (e.map Dec.val) := by
  rw [← map_norm e', h, map_norm e]

end SV.C19
