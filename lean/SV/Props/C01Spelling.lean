import SV.Model.C01
import SV.Lemmas.Text
import SV.Lemmas.C01
import SV.Props.C01
/-!
# C01 — acceptance and meaning do not depend on how an exponent or a coefficient is SPELLED

The exponent reader of the model is `Text.parseUsizeCapped cap` (the text after `^` → `usize`, checked
against `MAX_POWER`); the coefficient reader is `Text.parseDec` with the value `Dec.val`.  Padding an
exponent with any number of leading zeros, padding the integer part of a coefficient with leading
zeros or its fraction part with trailing zeros, changes neither acceptance nor the value — for EVERY
amount of padding, so no rule about the *length* of such a text can be part of the behaviour.
-/
namespace SV.Props.C01Spelling
open SV SV.Poly SV.Text SV.C01 SV.Props.C01

/-! ## (1) the exponent reader -/

private theorem digitsVal_zeros (k : Nat) : digitsVal (List.replicate k '0') = 0 := by
  induction k with
  | zero => rfl
  | succ k ih =>
    rw [List.replicate_succ', digitsVal_append, ih]
    rfl

/-- Leading zeros do not change the number a digit string denotes (any text `ds`, any count `k`). -/
theorem digitsVal_leading_zeros (k : Nat) (ds : List Char) :
    digitsVal (List.replicate k '0' ++ ds) = digitsVal ds := by
  rw [digitsVal_append, digitsVal_zeros]; simp

private theorem all_zeros (k : Nat) : (List.replicate k '0').all isAsciiDigit = true := by
  rw [List.all_eq_true]
  intro c hc
  rw [List.eq_of_mem_replicate hc]; rfl

/-- **The exponent reader ignores leading zeros, however many.**  For every non-empty exponent text
`ds` (digits or not), every cap and every `k`, reading `0…0ds` (`k` zeros) gives exactly what reading
`ds` gives: the same power, or the same refusal (non-digit text, or value above `MAX_POWER`).  There is
no bound on `k`: an exponent text of 20, 100 or 10⁶ characters is read like its short spelling, also
when the value is 0. -/
theorem exponent_leading_zeros (cap k : Nat) {ds : List Char} (hne : ds ≠ []) :
    parseUsizeCapped cap (List.replicate k '0' ++ ds) = parseUsizeCapped cap ds := by
  unfold parseUsizeCapped
  have h1 : (List.replicate k '0' ++ ds ≠ []) = (ds ≠ []) := by
    simp [hne]
  simp only [digitsVal_leading_zeros, List.all_append, all_zeros, Bool.true_and, h1]

/-- The only text for which padding matters is the empty one: `x^` is refused, `x^0…0` is power 0. -/
theorem exponent_all_zeros (cap k : Nat) :
    parseUsizeCapped cap (List.replicate (k + 1) '0') = some 0 := by
  have h : List.replicate (k + 1) '0' = List.replicate k '0' ++ ['0'] := List.replicate_succ'
  rw [h, exponent_leading_zeros cap k (by simp)]
  rfl

/-! ## (2) the term reader and the whole parser -/

/-- **One term, any coefficient text.**  For the part `c v^ds` of the normalised text (`c` any text
without the variable letter — a valid coefficient or not), padding the exponent with `k` zeros does not
change what the term reader returns: the same `(coefficient, power)` or the same error. -/
theorem parseTerm_exponent_padding (cap k : Nat) (v : Char) {c ds : List Char} (hc : v ∉ c)
    (hne : ds ≠ []) :
    parseTerm cap (some v) (c ++ v :: '^' :: (List.replicate k '0' ++ ds)) =
      parseTerm cap (some v) (c ++ v :: '^' :: ds) := by
  simp only [parseTerm, splitAtChar_append _ hc, exponent_leading_zeros cap k hne]

/-- pad the exponent text (if the term has one) with `k` leading zeros -/
def padExp (k : Nat) (t : TermSyn) : TermSyn :=
  match t.body with
  | .varPow ds => { t with body := .varPow (List.replicate k '0' ++ ds) }
  | _ => t

/-- padding the exponent does not touch the coefficient expression the model computes for the term -/
theorem padExp_num (k : Nat) (t : TermSyn) : (padExp k t).num = t.num := by
  unfold padExp; split <;> rfl

/-- the padded term denotes the same power -/
theorem padExp_pow (k : Nat) (t : TermSyn) : (padExp k t).pow = t.pow := by
  rcases t with ⟨neg, coef, body⟩
  cases body with
  | const => rfl
  | var => rfl
  | varPow ds => simp only [padExp, TermSyn.pow, Body.pow, digitsVal_leading_zeros]

/-- the padded term writes the variable iff the original does -/
theorem padExp_writesVar (k : Nat) (t : TermSyn) : (padExp k t).body.writesVar = t.body.writesVar := by
  rcases t with ⟨neg, coef, body⟩
  cases body <;> rfl

/-- padding the exponent keeps a term inside the grammar (the cap is on the VALUE, not on the text) -/
theorem padExp_wf {cap : Nat} (k : Nat) {t : TermSyn} (ht : t.WF cap) : (padExp k t).WF cap := by
  rcases t with ⟨neg, coef, body⟩
  cases body with
  | const => exact ht
  | var => exact ht
  | varPow ds =>
    obtain ⟨h1, h2, h3⟩ := ht.exp_wf ds rfl
    refine ⟨ht.coef_wf, fun h => by simp [padExp] at h, ?_⟩
    intro ds' hds'
    simp only [padExp, Body.varPow.injEq] at hds'
    subst hds'
    refine ⟨by simp [h1], ?_, by rw [digitsVal_leading_zeros]; exact h3⟩
    intro c hc
    rcases List.mem_append.1 hc with hc | hc
    · rw [List.eq_of_mem_replicate hc]; rfl
    · exact h2 c hc

/-- what the padded term looks like in the text: `c v^0…0ds` -/
theorem padExp_render (k : Nat) (v : Char) (neg : Bool) (coef : Option UDec) (ds : List Char) :
    (padExp k ⟨neg, coef, .varPow ds⟩).renderAbs v =
      renderCoef coef ++ v :: '^' :: (List.replicate k '0' ++ ds) := rfl

/-- `ts'` is `ts` with every exponent text padded by its own number of leading zeros -/
def ExpPadded (ts ts' : List TermSyn) : Prop := List.Forall₂ (fun t t' => ∃ k, t' = padExp k t) ts ts'

private theorem expPadded_terms {ts ts' : List TermSyn} (h : ExpPadded ts ts') :
    (ts'.map fun t => (t.num, t.pow)) = (ts.map fun t => (t.num, t.pow)) ∧
      writesVar ts' = writesVar ts := by
  unfold writesVar
  induction h with
  | nil => exact ⟨rfl, rfl⟩
  | cons hd _ ih =>
    obtain ⟨k, rfl⟩ := hd
    simp only [List.map_cons, List.any_cons, padExp_num, padExp_pow, padExp_writesVar, ih.1, ih.2,
      and_self]

/-- a well-formed term list stays well formed when its exponents are padded -/
theorem expPadded_wf {cap : Nat} {ts ts' : List TermSyn} (h : ExpPadded ts ts')
    (hwf : WellFormed cap ts) : WellFormed cap ts' := by
  induction h with
  | nil => exact hwf
  | cons hd _ ih =>
    obtain ⟨k, rfl⟩ := hd
    intro t ht
    rcases List.mem_cons.1 ht with rfl | ht
    · exact padExp_wf k (hwf _ List.mem_cons_self)
    · exact ih (fun t ht => hwf t (List.mem_cons_of_mem _ ht)) t ht

/-- **Padding exponents never changes the parse result.**  For every well-formed term list (any
number of terms, any coefficients, any order), in any spacing and with either leading-sign convention:
if `s'` is the same polynomial text with each exponent padded by its own, arbitrary number of leading
zeros, then `parse` returns the SAME `Except` value on `s'` as on `s` — the same coefficient
expressions (hence bit-identical `f64` vector) and the same variable.  The number of zeros is
unbounded, so the result cannot depend on the length of an exponent text: a rule such as "exponents of
20 or more characters are refused" contradicts this theorem. -/
theorem parse_exponent_padding {cc : CharClass} (hcc : cc.Sane) (cap : Nat) {v : Char}
    (hv : cc.isAlpha v = true) (lead lead' : Bool) {ts ts' : List TermSyn} (hwf : WellFormed cap ts)
    (hpad : ExpPadded ts ts') {s s' : List Char} (hs : stripWs cc s = render v lead ts)
    (hs' : stripWs cc s' = render v lead' ts') :
    parse cc cap s' = parse cc cap s ∧ ∃ p, parse cc cap s = .ok p := by
  have hvo := VarOK.of_alpha hcc hv
  obtain ⟨h1, h2⟩ := expPadded_terms hpad
  rw [parse_render_eq hcc hvo (expPadded_wf hpad hwf) (fun _ => hv) hs',
    parse_render_eq hcc hvo hwf (fun _ => hv) hs, h1, h2]
  exact ⟨rfl, _, rfl⟩

/-- The concrete instance: an exponent written with 20 characters.  `2x^00000000000000000003 + 3x + 4`
is accepted by the model with the driver's character classes and `MAX_POWER`, and is `[4, 3, 0, 2]`
(evaluated by the kernel). -/
theorem twenty_char_exponent :
    parse stdClass SV.Gen.simpleMaxPower "2x^00000000000000000003 + 3x + 4".toList =
      .ok ⟨[.add .zero (.dec ⟨false, 4, 0⟩), .add .zero (.dec ⟨false, 3, 0⟩), .zero,
        .add .zero (.dec ⟨false, 2, 0⟩)], some 'x'⟩ := rfl

/-- … it is literally the result for `2x^3 + 3x + 4` … -/
theorem twenty_char_exponent_same :
    parse stdClass SV.Gen.simpleMaxPower "2x^00000000000000000003 + 3x + 4".toList =
      parse stdClass SV.Gen.simpleMaxPower "2x^3 + 3x + 4".toList := rfl

/-- … with values `[4, 3, 0, 2]`. -/
example : ∃ p, parse stdClass SV.Gen.simpleMaxPower "2x^00000000000000000003 + 3x + 4".toList = .ok p ∧
    p.coeffs.map Num.val = [4, 3, 0, 2] := by
  refine ⟨_, twenty_char_exponent, ?_⟩
  norm_num [Num.val, Dec.val, Num.zero]

/-- the exponent reader on a 10⁶-character text, by the theorem (no evaluation) -/
example : parseUsizeCapped 65536 (List.replicate 1000000 '0' ++ ['3']) = some 3 := by
  rw [exponent_leading_zeros _ _ (by simp)]; rfl

/-! ### … for every input text, accepted or not -/

private theorem parseDec_none_of_caret {s : List Char} (h : '^' ∈ s) : parseDec s = none := by
  have hall : ∀ t : List Char, '^' ∈ t → (t.all fun c => isAsciiDigit c || c = '.') = false := by
    intro t ht
    rw [List.all_eq_false]
    exact ⟨'^', ht, by decide⟩
  by_cases hd : s.head? = some '-'
  · cases s with
    | nil => simp at hd
    | cons c t =>
      simp only [List.head?_cons, Option.some.injEq] at hd
      subst hd
      have ht : '^' ∈ t := by
        rcases List.mem_cons.1 h with e | e
        · exact absurd e (by decide)
        · exact e
      rw [parseDec_dash, hall t ht]; simp
  · rw [parseDec_of_head hd, hall s h]; simp

private theorem usize_none_of_caret (cap : Nat) {s : List Char} (h : '^' ∈ s) :
    parseUsizeCapped cap s = none := by
  unfold parseUsizeCapped
  have : s.all isAsciiDigit = false := by
    rw [List.all_eq_false]; exact ⟨'^', h, by decide⟩
  simp [this]

/-- **One part of the normalised text, no side condition on the rest.**  For ANY text `l` before the
`^` and ANY text `f` after the first exponent digit `d` (valid or not), and any variable letter that is
not a digit or `^` (or no variable at all): padding the exponent with `k` zeros leaves the term reader's
answer unchanged — same `(coefficient, power)` or same error, in particular `InvalidExponent` for a value
above the cap however it is spelled. -/
theorem parseTerm_padding_any (cap k : Nat) (varc : Option Char)
    (hv : ∀ v, varc = some v → v ≠ '^' ∧ isAsciiDigit v = false) (l f : List Char) {d : Char}
    (hd : isAsciiDigit d = true) :
    parseTerm cap varc (l ++ '^' :: (List.replicate k '0' ++ d :: f)) =
      parseTerm cap varc (l ++ '^' :: d :: f) := by
  have hc1 : '^' ∈ l ++ '^' :: (List.replicate k '0' ++ d :: f) := by simp
  have hc2 : '^' ∈ l ++ '^' :: d :: f := by simp
  cases varc with
  | none => simp only [parseTerm, parseDec_none_of_caret hc1, parseDec_none_of_caret hc2]
  | some v =>
    obtain ⟨hv1, hv2⟩ := hv v rfl
    have hvd : v ≠ d := by rintro rfl; rw [hd] at hv2; exact absurd hv2 (by simp)
    have hvz : v ∉ List.replicate k '0' := by
      intro h; rw [List.eq_of_mem_replicate h] at hv2; exact absurd hv2 (by decide)
    by_cases hl : v ∈ l
    · obtain ⟨l1, l2, rfl, hl1⟩ := List.eq_append_cons_of_mem hl
      simp only [List.append_assoc, List.cons_append]
      simp only [parseTerm, splitAtChar_append _ hl1]
      cases l2 with
      | nil =>
        simp only [List.nil_append]
        rw [exponent_leading_zeros cap k (ds := d :: f) (by simp)]
      | cons e l2 =>
        by_cases he : e = '^'
        · subst he
          simp only [List.cons_append]
          rw [usize_none_of_caret cap (s := l2 ++ '^' :: (List.replicate k '0' ++ d :: f)) (by simp),
            usize_none_of_caret cap (s := l2 ++ '^' :: d :: f) (by simp)]
        · simp only [List.cons_append]
          split
          · rfl
          · split <;> split <;> simp_all
    · by_cases hf : v ∈ f
      · obtain ⟨f1, f2, rfl, hf1⟩ := List.eq_append_cons_of_mem hf
        have e1 : l ++ '^' :: (List.replicate k '0' ++ d :: (f1 ++ v :: f2)) =
            (l ++ '^' :: (List.replicate k '0' ++ d :: f1)) ++ v :: f2 := by simp
        have e2 : l ++ '^' :: d :: (f1 ++ v :: f2) = (l ++ '^' :: d :: f1) ++ v :: f2 := by simp
        have n1 : v ∉ l ++ '^' :: (List.replicate k '0' ++ d :: f1) := by
          simp only [List.mem_append, List.mem_cons, not_or]
          exact ⟨hl, hv1, hvz, hvd, hf1⟩
        have n2 : v ∉ l ++ '^' :: d :: f1 := by
          simp only [List.mem_append, List.mem_cons, not_or]
          exact ⟨hl, hv1, hvd, hf1⟩
        have c1 : '^' ∈ l ++ '^' :: (List.replicate k '0' ++ d :: f1) := by simp
        have c2 : '^' ∈ l ++ '^' :: d :: f1 := by simp
        have ne : ∀ t : List Char, '^' ∈ t → ¬ (t = [] ∨ t = ['+']) ∧ t ≠ ['-'] := by
          intro t ht
          refine ⟨?_, ?_⟩
          · rintro (rfl | rfl)
            · simp at ht
            · exact absurd ht (by decide)
          · rintro rfl; exact absurd ht (by decide)
        rw [e1, e2]
        simp only [parseTerm, splitAtChar_append _ n1, splitAtChar_append _ n2,
          if_neg (ne _ c1).1, if_neg (ne _ c2).1, if_neg (ne _ c1).2, if_neg (ne _ c2).2,
          parseDec_none_of_caret c1, parseDec_none_of_caret c2]
      · have n1 : v ∉ l ++ '^' :: (List.replicate k '0' ++ d :: f) := by
          simp only [List.mem_append, List.mem_cons, not_or]
          exact ⟨hl, hv1, hvz, hvd, hf⟩
        have n2 : v ∉ l ++ '^' :: d :: f := by
          simp only [List.mem_append, List.mem_cons, not_or]
          exact ⟨hl, hv1, hvd, hf⟩
        simp only [parseTerm, splitAtChar_of_not_mem n1, splitAtChar_of_not_mem n2,
          parseDec_none_of_caret hc1, parseDec_none_of_caret hc2]

private theorem parseTerms_congr_mid {cap : Nat} {varc : Option Char} {x x' : List Char}
    (h : parseTerm cap varc x' = parseTerm cap varc x) (pre post : List (List Char)) :
    parseTerms cap varc (pre ++ x' :: post) = parseTerms cap varc (pre ++ x :: post) := by
  induction pre with
  | nil => simp only [List.nil_append, parseTerms, h]
  | cons p pre ih => simp only [List.cons_append, parseTerms, ih]

private theorem splitOn_pref {sep : Char} {q : List Char} (h : sep ∉ q) {b f : List Char}
    {post : List (List Char)} (hb : splitOn sep b = f :: post) :
    splitOn sep (q ++ b) = (q ++ f) :: post := by
  induction q with
  | nil => simpa using hb
  | cons c q ih =>
    have hc : c ≠ sep := by intro e; apply h; simp [e]
    have hq : sep ∉ q := by intro e; apply h; simp [e]
    simp [splitOn, hc, ih hq]

private theorem splitOn_mid {sep : Char} {y y' w w' : List Char} {post : List (List Char)}
    (hy : splitOn sep w = y :: post) (hy' : splitOn sep w' = y' :: post) (a : List Char) :
    ∃ pre l, splitOn sep (a ++ w) = pre ++ (l ++ y) :: post ∧
      splitOn sep (a ++ w') = pre ++ (l ++ y') :: post := by
  induction a with
  | nil => exact ⟨[], [], by simpa using hy, by simpa using hy'⟩
  | cons c a ih =>
    obtain ⟨pre, l, h1, h2⟩ := ih
    by_cases hc : c = sep
    · exact ⟨[] :: pre, l, by simp [splitOn, hc, h1], by simp [splitOn, hc, h2]⟩
    · cases pre with
      | nil => exact ⟨[], c :: l, by simp [splitOn, hc, h1], by simp [splitOn, hc, h2]⟩
      | cons p pre => exact ⟨(c :: p) :: pre, l, by simp [splitOn, hc, h1], by simp [splitOn, hc, h2]⟩

private theorem find_zeros {p : Char → Bool} (hp : p '0' = false) (k : Nat) (r : List Char) :
    (List.replicate k '0' ++ r).find? p = r.find? p := by
  induction k with
  | zero => rfl
  | succ k ih => simp [List.replicate_succ, hp, ih]

/-- **Padding an exponent never changes the parse result — for EVERY input text.**  Let `s` be any text
(well formed or not) whose white-space-free form contains `^d…` with `d` an ASCII digit, and `s'` the
same text with `k` zeros inserted between that `^` and `d`.  Then the model returns the same `Except`
value on both: the same coefficient expressions and variable, or the same error (`InvalidExponent`
when the value exceeds `MAX_POWER`, or whatever error another part of the text causes).  `k` is
arbitrary, so no behaviour can depend on the length of the exponent text. -/
theorem parse_exponent_padding_any {cc : CharClass} (hcc : cc.Sane) (cap k : Nat) {a b : List Char}
    {d : Char} (hd : isAsciiDigit d = true) {s s' : List Char}
    (hs : stripWs cc s = a ++ '^' :: d :: b)
    (hs' : stripWs cc s' = a ++ '^' :: (List.replicate k '0' ++ d :: b)) :
    parse cc cap s' = parse cc cap s := by
  have hz : '-' ∉ List.replicate k '0' := by
    intro h; exact absurd (List.eq_of_mem_replicate h) (by decide)
  have hn : normalize cc s = dashToPlusDash a ++ ('^' :: d :: dashToPlusDash b) := by
    rw [normalize, hs, dashToPlusDash_append, dashToPlusDash_cons_of_ne (by decide),
      dashToPlusDash_cons_of_ne (digit_ne_dash hd)]
  have hn' : normalize cc s' =
      dashToPlusDash a ++ ('^' :: (List.replicate k '0' ++ d :: dashToPlusDash b)) := by
    rw [normalize, hs', dashToPlusDash_append, dashToPlusDash_cons_of_ne (by decide),
      dashToPlusDash_append, dashToPlusDash_of_not_mem hz,
      dashToPlusDash_cons_of_ne (digit_ne_dash hd)]
  generalize dashToPlusDash a = A at hn hn'
  generalize dashToPlusDash b = B at hn hn'
  obtain ⟨f, post, hB⟩ : ∃ f post, splitOn '+' B = f :: post := by
    cases h : splitOn '+' B with
    | nil => exact absurd h (splitOn_ne_nil _ _)
    | cons f post => exact ⟨f, post, rfl⟩
  have hq : '+' ∉ ['^', d] := by
    simp only [List.mem_cons, List.not_mem_nil, or_false, not_or]
    exact ⟨by decide, fun e => digit_ne_plus hd e.symm⟩
  have hq' : '+' ∉ '^' :: (List.replicate k '0' ++ [d]) := by
    simp only [List.mem_cons, List.mem_append, List.not_mem_nil, or_false, not_or]
    refine ⟨by decide, fun h => absurd (List.eq_of_mem_replicate h) (by decide),
      fun e => digit_ne_plus hd e.symm⟩
  have hw := splitOn_pref hq hB
  have hw' := splitOn_pref hq' hB
  obtain ⟨pre, l, h1, h2⟩ := splitOn_mid hw hw' A
  simp only [List.cons_append, List.nil_append, List.append_assoc] at h1 h2
  -- the parts
  obtain ⟨pre2, hp, hp'⟩ : ∃ pre2, parts (normalize cc s) = pre2 ++ (l ++ '^' :: d :: f) :: post ∧
      parts (normalize cc s') = pre2 ++ (l ++ '^' :: (List.replicate k '0' ++ d :: f)) :: post := by
    rw [hn, hn']
    unfold parts
    rw [h1, h2]
    cases pre with
    | nil =>
      refine ⟨[], ?_, ?_⟩
      · cases l <;> rfl
      · cases l <;> rfl
    | cons p pre =>
      cases p with
      | nil => exact ⟨pre, rfl, rfl⟩
      | cons c p => exact ⟨(c :: p) :: pre, rfl, rfl⟩
  have h0 : cc.isAlpha '0' = false := by
    cases h : cc.isAlpha '0' with
    | false => rfl
    | true => exact absurd (hcc.alpha_not_digit _ h) (by decide)
  have hfind : (normalize cc s').find? cc.isAlpha = (normalize cc s).find? cc.isAlpha := by
    rw [hn, hn']
    simp only [List.find?_append, List.find?_cons, find_zeros h0]
  have hvarc : ∀ v, (normalize cc s).find? cc.isAlpha = some v → v ≠ '^' ∧ isAsciiDigit v = false := by
    intro v h
    have hv := List.find?_some h
    exact ⟨(hcc.alpha_not_sym v hv).2.2.2, hcc.alpha_not_digit v hv⟩
  have hterm := parseTerm_padding_any cap k _ hvarc l f hd
  have hX : ∀ t : List Char, '^' ∈ t → decide (t = [] ∨ t = ['-']) = false := by
    intro t ht
    rw [decide_eq_false_iff_not]
    rintro (rfl | rfl)
    · simp at ht
    · exact absurd ht (by decide)
  simp only [parse, hp, hp', hfind, parseTerms_congr_mid hterm, List.any_append, List.any_cons,
    hX (l ++ '^' :: d :: f) (by simp), hX (l ++ '^' :: (List.replicate k '0' ++ d :: f)) (by simp)]

/-- the refusal of an over-large exponent is spelling-independent too: `x^0…070000` (10⁴ zeros) -/
example : parse stdClass 65536 ("3x^".toList ++ (List.replicate 10000 '0' ++ "70000 + 1".toList)) =
    .error .invalidExponent := by
  rw [parse_exponent_padding_any std_class_sane 65536 10000 (a := "3x".toList) (d := '7')
    (b := "0000+1".toList) (s := "3x^70000 + 1".toList) (by decide) (by decide)]
  · rfl
  · rw [stripWs, List.filter_append, List.filter_append, List.filter_replicate]
    rfl

/-! ## (3) coefficients: leading zeros of the integer part, trailing zeros of the fraction part -/

/-- the spelling `u` with `k` more leading zeros, `j` more trailing fraction zeros and the dot written
iff `d` (`7` → `007`, `7.`, `7.0`, `07.00`) -/
def padDec (k j : Nat) (d : Bool) (u : UDec) : UDec :=
  ⟨List.replicate k '0' ++ u.ip, u.fp ++ List.replicate j '0', d⟩

/-- a padded spelling is a plain decimal spelling again, provided the dot is written when there are
fraction digits -/
theorem padDec_wf {u : UDec} (hu : u.WF) (k j : Nat) {d : Bool}
    (hd : d = false → u.fp = [] ∧ j = 0) : (padDec k j d u).WF := by
  refine ⟨?_, ?_, ?_, ?_⟩
  · intro c hc
    rcases List.mem_append.1 hc with hc | hc
    · rw [List.eq_of_mem_replicate hc]; rfl
    · exact hu.ip_digits c hc
  · intro c hc
    rcases List.mem_append.1 hc with hc | hc
    · exact hu.fp_digits c hc
    · rw [List.eq_of_mem_replicate hc]; rfl
  · rcases hu.some_digit with h | h
    · left; simp [padDec, h]
    · right; simp [padDec, h]
  · intro h
    obtain ⟨h1, rfl⟩ := hd h
    simp [padDec, h1]

/-- **The value of a decimal spelling ignores padding zeros**: the model's decimal-value function
gives `0…0 ip . fp 0…0` (any `k` leading, any `j` trailing zeros, dot written or not) the value of
`ip . fp`. -/
theorem padDec_value (k j : Nat) (d : Bool) (u : UDec) : (padDec k j d u).value = u.value := by
  unfold UDec.value UDec.mant padDec
  have e : List.replicate k '0' ++ u.ip ++ (u.fp ++ List.replicate j '0') =
      (List.replicate k '0' ++ (u.ip ++ u.fp)) ++ List.replicate j '0' := by
    simp only [List.append_assoc]
  simp only [e, digitsVal_append (_ ++ _) (List.replicate j '0'), digitsVal_leading_zeros,
    digitsVal_zeros, List.length_append, List.length_replicate, Nat.add_zero, pow_add]
  push_cast
  exact mul_div_mul_right _ _ (pow_ne_zero _ (by norm_num))

/-- **The coefficient reader accepts every padded spelling and assigns it the same value.**  For a
plain decimal spelling `u` with optional `-`: `parseDec` accepts both the text of `u` and the text with
`k` leading zeros / `j` trailing fraction zeros, and the two `Dec`s it returns have the same exact
value (`Dec.val`, the rational that `f64::from_str` rounds).  So `7`, `007`, `7.`, `7.0`, `07.00` are
one coefficient. -/
theorem coefficient_padding {u : UDec} (hu : u.WF) (k j : Nat) {d : Bool}
    (hd : d = false → u.fp = [] ∧ j = 0) (neg : Bool) :
    ∃ a b, parseDec ((if neg then ['-'] else []) ++ u.render) = some a ∧
      parseDec ((if neg then ['-'] else []) ++ (padDec k j d u).render) = some b ∧
      b.val = a.val := by
  refine ⟨_, _, parseDec_render hu neg, parseDec_render (padDec_wf hu k j hd) neg, ?_⟩
  rw [Dec.val_mk, Dec.val_mk, padDec_value]

/-- the five spellings of seven, read by the model's coefficient reader and valued by `Dec.val` -/
example : (["7", "007", "7.", "7.0", "07.00"].map fun s => (parseDec s.toList).map Dec.val) =
    [some 7, some 7, some 7, some 7, some 7] := by
  have h : (["7", "007", "7.", "7.0", "07.00"].map fun s => parseDec s.toList) =
      [some ⟨false, 7, 0⟩, some ⟨false, 7, 0⟩, some ⟨false, 7, 0⟩, some ⟨false, 70, 1⟩,
        some ⟨false, 700, 2⟩] := by decide
  simp only [List.map_cons, List.map_nil, List.cons.injEq, and_true] at h ⊢
  obtain ⟨h1, h2, h3, h4, h5⟩ := h
  rw [h1, h2, h3, h4, h5]
  norm_num [Dec.val]

/-! ### … and inside a polynomial -/

/-- two terms that denote the same power and the same signed coefficient, and both write the variable or
both do not — i.e. they differ at most in how numbers are spelled -/
def Respelled (t t' : TermSyn) : Prop :=
  t'.pow = t.pow ∧ t'.value = t.value ∧ t'.body.writesVar = t.body.writesVar

/-- pad the coefficient of a term (if it has one) -/
def padCoef (k j : Nat) (d : Bool) (t : TermSyn) : TermSyn :=
  { t with coef := t.coef.map (padDec k j d) }

/-- a term with a padded coefficient denotes the same power and the same signed coefficient -/
theorem padCoef_respelled (k j : Nat) (d : Bool) (t : TermSyn) : Respelled t (padCoef k j d t) := by
  rcases t with ⟨neg, _ | u, body⟩
  · exact ⟨rfl, rfl, rfl⟩
  · refine ⟨rfl, ?_, rfl⟩
    show _ * (padDec k j d u).value = _ * u.value
    rw [padDec_value]
    rfl

/-- respellings compose -/
theorem Respelled.trans {a b c : TermSyn} (h1 : Respelled a b) (h2 : Respelled b c) : Respelled a c :=
  ⟨h2.1.trans h1.1, h2.2.1.trans h1.2.1, h2.2.2.trans h1.2.2⟩

/-- a term with a padded exponent denotes the same power and the same signed coefficient -/
theorem padExp_respelled (k : Nat) (t : TermSyn) : Respelled t (padExp k t) :=
  ⟨padExp_pow k t, by rw [← TermSyn.num_val, padExp_num, TermSyn.num_val], padExp_writesVar k t⟩

private theorem maxPow_respelled {ts ts' : List TermSyn} (h : List.Forall₂ Respelled ts ts') :
    maxPow ts' = maxPow ts := by
  unfold maxPow
  generalize 0 = m
  induction h generalizing m with
  | nil => rfl
  | cons hd _ ih => simp only [List.foldl_cons, hd.1, ih]

private theorem writesVar_respelled {ts ts' : List TermSyn} (h : List.Forall₂ Respelled ts ts') :
    writesVar ts' = writesVar ts := by
  unfold writesVar
  induction h with
  | nil => rfl
  | cons hd _ ih => simp only [List.any_cons, hd.2.2, ih]

private theorem sum_respelled {ts ts' : List TermSyn} (h : List.Forall₂ Respelled ts ts') (k : Nat) :
    ((ts'.filter fun t => decide (t.pow = k)).map TermSyn.value).sum =
      ((ts.filter fun t => decide (t.pow = k)).map TermSyn.value).sum := by
  induction h with
  | nil => rfl
  | cons hd _ ih =>
    simp only [List.filter_cons, hd.1]
    split <;> simp [hd.2.1, ih]

/-- **The meaning of a polynomial text does not depend on how its numbers are spelled.**  If two
well-formed term lists correspond term by term up to spelling (`Respelled`: same power, same signed
coefficient value — e.g. any `padExp`, any `padCoef`, or both), then in any spacing both texts are
accepted, with the same variable and the same vector of exact coefficient values (same length, same
entry at every position). -/
theorem parse_respelled {cc : CharClass} (hcc : cc.Sane) (cap : Nat) {v : Char}
    (hv : cc.isAlpha v = true) (lead lead' : Bool) {ts ts' : List TermSyn} (hwf : WellFormed cap ts)
    (hwf' : WellFormed cap ts') (h : List.Forall₂ Respelled ts ts') {s s' : List Char}
    (hs : stripWs cc s = render v lead ts) (hs' : stripWs cc s' = render v lead' ts') :
    ∃ p p', parse cc cap s = .ok p ∧ parse cc cap s' = .ok p' ∧ p'.var = p.var ∧
      p'.coeffs.map Num.val = p.coeffs.map Num.val := by
  obtain ⟨p, hp, hvar, hlen, hval⟩ := SV.Props.C01.parse_render hcc cap hv lead hwf hs
  obtain ⟨p', hp', hvar', hlen', hval'⟩ := SV.Props.C01.parse_render hcc cap hv lead' hwf' hs'
  refine ⟨p, p', hp, hp', ?_, ?_⟩
  · rw [hvar, hvar', writesVar_respelled h]
  · have hl : p'.coeffs.length = p.coeffs.length := by rw [hlen, hlen', maxPow_respelled h]
    apply List.ext_getElem (by simpa using hl)
    intro i h1 h2
    have e := hval' i
    rw [sum_respelled h i, ← hval i] at e
    simp only [List.length_map] at h1 h2
    simp only [List.getD_eq_getElem?_getD, List.getElem?_eq_getElem h1, List.getElem?_eq_getElem h2,
      Option.getD_some] at e
    simpa using e

/-- **Padding coefficients inside a polynomial**: each coefficient of a well-formed term list padded
with its own leading / trailing zeros (and the dot written or not, as long as the result is a plain
decimal spelling) — the text is still accepted and has the same variable and coefficient values. -/
theorem parse_coefficient_padding {cc : CharClass} (hcc : cc.Sane) (cap : Nat) {v : Char}
    (hv : cc.isAlpha v = true) (lead lead' : Bool) {ts ts' : List TermSyn} (hwf : WellFormed cap ts)
    (hwf' : WellFormed cap ts')
    (hpad : List.Forall₂ (fun t t' => ∃ k j d, t' = padCoef k j d t) ts ts') {s s' : List Char}
    (hs : stripWs cc s = render v lead ts) (hs' : stripWs cc s' = render v lead' ts') :
    ∃ p p', parse cc cap s = .ok p ∧ parse cc cap s' = .ok p' ∧ p'.var = p.var ∧
      p'.coeffs.map Num.val = p.coeffs.map Num.val := by
  refine parse_respelled hcc cap hv lead lead' hwf hwf' ?_ hs hs'
  exact hpad.imp fun t t' ⟨k, j, d, e⟩ => e ▸ padCoef_respelled k j d t

/-- `007.0x^002 + 003.0x + 004.0` is read like `7x^2 + 3x + 4` (instance of `parse_respelled`) -/
example : ∃ p p', parse stdClass 65536 "7x^2 + 3x + 4".toList = .ok p ∧
    parse stdClass 65536 "007.0x^002 + 003.0x + 004.0".toList = .ok p' ∧ p'.var = p.var ∧
      p'.coeffs.map Num.val = p.coeffs.map Num.val := by
  let ts : List TermSyn := [⟨false, some ⟨['7'], [], false⟩, .varPow ['2']⟩,
    ⟨false, some ⟨['3'], [], false⟩, .var⟩, ⟨false, some ⟨['4'], [], false⟩, .const⟩]
  have hwf : WellFormed 65536 ts := wellFormed_of_all (by decide)
  have hwf' : WellFormed 65536 (ts.map fun t => padExp 2 (padCoef 2 1 true t)) :=
    wellFormed_of_all (by decide)
  have h : List.Forall₂ Respelled ts (ts.map fun t => padExp 2 (padCoef 2 1 true t)) := by
    rw [List.forall₂_map_right_iff]
    exact List.forall₂_same.2 fun t _ => (padCoef_respelled 2 1 true t).trans (padExp_respelled 2 _)
  exact parse_respelled std_class_sane 65536 (v := 'x') (by decide) false false hwf hwf' h
    (by decide) (by decide)

end SV.Props.C01Spelling
