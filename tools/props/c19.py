"""C19 plug-in.  `lex` answers carry numbers as f<bits> (implementation) resp. exact decimals (model): compared
through their binary64 value.  `enum` answers are digests over every token sequence of a prefix class; on a
difference (or an oracle failure inside a class) the class is refined token by token down to one sequence."""
from oracle_util import *

ALPHABET = ["N2.5", "N0", "N1", "Vx", "Vy", "Cpi", "Fsin", "OAdd", "OSub", "OMul", "ODiv", "OCaret", "OFac", "LP", "RP"]
CHUNK_MIN = 64

RULE = ("(hardening 4: source texts are read by the harness's own reference tokeniser - a run of letters that spells a function or constant "
        "name in any case is that name, every other letter is the variable of exactly that letter, so XY is X*Y and never x*y - and the "
        "conventional reading is taken from THOSE words, with variables bound case-sensitively; 3 000 / 60 000 random trees with variables "
        "of both cases side by side [XY, xY, aBc, 2XY, X2Y, xY^2z, 2piX with the symbol, XE] and with the same sub-expression twice, "
        "against the generator's own tree; every ordered pair of the 52 letters [a sample in the quick tier] in 16 shapes; names in every "
        "case pattern glued to letters, digits and symbols; 4 000 / 60 000 token sequences with upper-case and repeated variables through "
        "parser, folder and printer) "
        "(hardening: 24 000 / 300 000 biased sequences of 4..16 tokens over the whole vocabulary [cos tan cot log ln, e tau phi, % and the dot operator], every function / constant name in lower, upper and mixed case and as symbol, nesting 200 / 500 / 2000 deep, literals of 16..57 significant digits and at the ends of the binary64 range through the lexer, literals next to 0 and 1 at every distance in every folding position; numeric comparisons also accept a difference explained by first-order rounding-error propagation) exhaustive: every token sequence of length <= 5 (quick) / 6 (thorough) over {2.5, 0, 1, x, y, pi, sin, +, -, *, /, ^, !, (, )} "
        "through implied multiplication, parser, folding, Display and re-parsing (digest per 2-token prefix class, refined to a single "
        "sequence on any difference); random conventional expression trees of depth <= 6 rendered with minimal and with redundant "
        "parentheses; arbitrary character strings up to 200 characters through lexer and parser. Non-trivial = a prefix class with at "
        "least one accepted sequence, or a single text/sequence the model parses; distinct = distinct request lines (each enum "
        "request stands for up to 15^(L-2) sequences, totals in coverage.notes)")

def compare(req, impl, model):
    from __main__ import default_compare
    r = req.split()
    if r[0] == "lex" and impl.startswith("ok") and model.startswith("ok"):
        ti, tm = impl.split(), model.split()
        if len(ti) != len(tm):
            return "different number of tokens"
        for k, (x, y) in enumerate(zip(ti, tm)):
            if x == y:
                continue
            if x.startswith("Nf") and y.startswith("Nd"):
                if same_float(tok_float(x[1:]), num_float(y[1:])):
                    continue
            return f"token {k - 2}: impl {x} model {y}"
        return None
    return default_compare(req, impl, model)

def nontrivial(req, model):
    r = req.split()
    if r[0] == "enum":
        return int(model.split()[1]) > 0
    return model.startswith("U ") or (r[0] == "lex" and model.startswith("ok") and len(model.split()) > 3)

def tag(req, model):
    r = req.split(); m = model.split()
    if r[0] == "enum":
        return "enum:" + ("some-accepted" if int(m[1]) > 0 else "all-rejected")
    head = m[0] if m else "empty"
    return r[0] + ":" + head + (":" + m[1] if head == "err" and len(m) > 1 else "")

def refine(req):
    r = req.split()
    if r[0] != "enum":
        return []
    maxlen = int(r[1]); n = int(r[2]); prefix = r[3:3 + n]
    subs = [f"toks {n} " + " ".join(prefix)]
    if n < maxlen:
        for t in ALPHABET:
            subs.append(f"enum {maxlen} {n + 1} " + " ".join(prefix + [t]))
    return subs

def finish(rows, tier):
    n = sum(int(m.split()[0]) for (r, i, o, m) in rows if r.startswith("enum"))
    a = sum(int(m.split()[1]) for (r, i, o, m) in rows if r.startswith("enum"))
    return [f"exhaustive enumeration covered {n} token sequences, {a} accepted by the model; implementation digests compared per prefix class"]
