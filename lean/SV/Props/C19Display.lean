import SV.Lemmas.C19Spell
import SV.Lemmas.C19Norm
/-!
# C19 — rendering a parsed tree to text and parsing that text again denotes the same function

`display fmtDec e` is the model of `Display for Expr` (`fmtDec` = the shortest decimal `{}` prints for an
exact decimal literal).  The theorems are about every *well-formed* tree `Wf e` (`SV.Lemmas.C19Print`):
literals unsigned, variables one ASCII letter other than `e`/`E`, prefix nodes unary minus, postfix nodes
`!`, binary nodes never the temporary `·` nor `!`.  `parse_wf` shows that these are the trees the pipeline
`lex`, `parseTokens`, `fold` produces, so nothing about the parser is assumed.

"The same" is `norm e' = norm e`: equal up to `paren` flags (the printer adds parentheses where folding
lost a flag) and up to the spelling of literals (`1.50` is printed `1.5`); `display_reparse_eval` turns this
into equality of values under every interpretation of variables, constants, functions, `!`, `%`, `^`.

* `display_lex`      the lexer reads the printed text as the tokens `undot (ri e).1` (`ri` = the printer on
                     tokens): number spellings lex back to the canonical literal, no two spellings run
                     into each other
* `display_tokens`   the Pratt parser reads those tokens back as a tree with the same `norm`: every operand
                     is re-read at the binding power at which `fmt_operand` decided about its parentheses
* `display_reparse`  both together, for every well-formed tree
* `display_reparse_pipeline`  …for the unfolded and for the folded result of parsing any text
* `display_reparse_eval`      …as equality of denotations
-/
namespace SV.Props.C19Display
open SV SV.Text SV.C19

/-- The trees of the pipeline are well formed: the lexer's tokens are, the parser keeps it, folding keeps it. -/
theorem parse_wf (s : List Char) (ts : List (Tok Dec)) (e : Expr Dec) (hl : lex s = .ok ts)
    (hp : parseTokens ts = .ok e) : Wf e ∧ Wf (fold decTests e) :=
  have h := parseTokens_wf hp (lex_wf hl)
  ⟨h, fold_wf h⟩

/-- The lexer inverts the printer's spelling: the printed text of a well-formed tree is lexed — without
error — as the printer's own token list. -/
theorem display_lex (e : Expr Dec) (h : Wf e) :
    lex (display fmtDec e).toList = .ok (undot (ri e).1) := by
  rw [lex_ok_iff]
  have hnm : ∀ x ∈ (ri e).1.getLast?, NoMerge x.1 [] := fun _ _ =>
    ⟨fun _ d ds he => (by cases he), fun _ d ds he => (by cases he)⟩
  have := (render_spelled h).1.1 [] [] .nil hnm
  simpa [display, despace] using this

/-- The Pratt parser re-reads the printed tokens of a well-formed tree as the same tree, up to `paren` flags
and the spelling of literals. -/
theorem display_tokens (e : Expr Dec) (h : Wf e) :
    ∃ e', parseTokens (undot (ri e).1) = .ok e' ∧ norm e' = norm e := by
  obtain ⟨e', hn, hr⟩ := reads_ri h
  refine ⟨e', ?_, hn⟩
  rw [parseTokens_iff_R, impliedMul_undot_ri h]
  have := hr.readsAt 0 [] e' [] (by omega) (fun hf => hf) (fun o tl he => by cases he)
    (.stop _ _ _ fun o tl he => by cases he)
  simpa using this

/-- the statement of the display clause, for one tree -/
def display_reparse_statement (e : Expr Dec) : Prop :=
  ∃ ts' e', lex (display fmtDec e).toList = .ok ts' ∧ parseTokens ts' = .ok e' ∧ norm e' = norm e

/-- **Rendering a well-formed tree to text and parsing that text again gives the same tree** up to `paren`
flags and literal spelling. -/
theorem display_reparse (e : Expr Dec) (h : Wf e) : display_reparse_statement e := by
  obtain ⟨e', hp, hn⟩ := display_tokens e h
  exact ⟨_, e', display_lex e h, hp, hn⟩

/-- For every text the pipeline accepts, both the unfolded tree and the folded tree (what `parser` returns)
are displayed as text that parses back to the same tree. -/
theorem display_reparse_pipeline (s : List Char) (ts : List (Tok Dec)) (e : Expr Dec) (hl : lex s = .ok ts)
    (hp : parseTokens ts = .ok e) :
    display_reparse_statement e ∧ display_reparse_statement (fold decTests e) :=
  have h := parse_wf s ts e hl hp
  ⟨display_reparse e h.1, display_reparse (fold decTests e) h.2⟩

/-- …and therefore denotes the same function: the re-parsed tree has the same value (or is undefined at
the same points) under every semantics of variables, constants, functions, `!`, `%` and `^`. -/
theorem display_reparse_eval (e : Expr Dec) (h : Wf e) :
    ∃ ts' e', lex (display fmtDec e).toList = .ok ts' ∧ parseTokens ts' = .ok e' ∧
      ∀ S : Sem ℚ, eval S (e'.map Dec.val) = eval S (e.map Dec.val) := by
  obtain ⟨ts', e', h1, h2, h3⟩ := display_reparse e h
  exact ⟨ts', e', h1, h2, eval_eq_of_norm_eq h3⟩

/-! non-vacuity: trees where folding lost the flag, a unary minus under `^`, a juxtaposition -/

/-- `(x + y + 0) * 2` after folding: the sum has lost its flag -/
def lostFlag : Expr Dec := .bin .mul (.bin .add (.var "x") (.var "y") false) (.num ⟨false, 2, 0⟩) false

example : display fmtDec lostFlag = "(x + y) * 2" := by rfl
example : (lex (display fmtDec lostFlag).toList).toOption.map parseTokens =
    some (.ok (.bin .mul (.bin .add (.var "x") (.var "y") true) (.num ⟨false, 2, 0⟩) false)) := by rfl
example : Wf lostFlag :=
  .bin _ (by decide) (by decide)
    (.bin _ (by decide) (by decide) (.var ⟨'x', rfl, by decide, by decide, by decide⟩)
      (.var ⟨'y', rfl, by decide, by decide, by decide⟩)) (.num rfl)

example : display fmtDec (.bin .caret (.pre .sub (.var "x")) (.num ⟨false, 150, 2⟩) false) = "(-x) ^ 1.5" := by rfl
example : display fmtDec (.bin .mul (.num ⟨false, 2, 0⟩) (.bin .caret (.var "x") (.num ⟨false, 2, 0⟩) false) false) =
    "2x^2" := by rfl
example : norm (.num ⟨false, 150, 2⟩) = .num ⟨false, 15, 1⟩ := by rfl

end SV.Props.C19Display
