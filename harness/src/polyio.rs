//! Wire format of polynomials (see lean/SV/Model/PolyWire.lean):
//!
//!     S <var code point | -> <n> c0 … c_{n-1}
//!     I <nterms> { <coef> <nvars> { <name> <pow> }* }* <nvariables> { <name> }*
//!
//! `<name>` = `len cp1 … cp_len`; floats as u64 bit patterns in requests, `f<bits>` in answers.
#![allow(dead_code)]
use crate::util::*;
use spindalis_core::polynomials::structs::{IntermediatePolynomial, SimplePolynomial};
use spindalis_core::polynomials::{PolynomialError, Term};

pub enum AnyPoly {
    S(SimplePolynomial),
    I(IntermediatePolynomial),
}

/// run a generic `PolynomialTraits` computation on either kind
#[macro_export]
macro_rules! with_poly {
    ($p:expr, $q:ident => $body:expr) => {
        match $p {
            $crate::polyio::AnyPoly::S($q) => $body,
            $crate::polyio::AnyPoly::I($q) => $body,
        }
    };
}

pub fn read_simple(t: &mut Toks) -> SimplePolynomial {
    let v = t.tok();
    let variable = v.parse::<u32>().ok().and_then(char::from_u32);
    let coefficients = t.vec_f64();
    SimplePolynomial { coefficients, variable }
}

pub fn read_inter(t: &mut Toks) -> IntermediatePolynomial {
    let n = t.usize();
    let mut terms = Vec::new();
    for _ in 0..n {
        let coefficient = t.f64();
        let nv = t.usize();
        let mut variables = Vec::new();
        for _ in 0..nv {
            let name = t.string();
            let pow = t.f64();
            variables.push((name, pow));
        }
        terms.push(Term { coefficient, variables });
    }
    let m = t.usize();
    let variables = (0..m).map(|_| t.string()).collect();
    IntermediatePolynomial { terms, variables }
}

pub fn read_any(t: &mut Toks) -> AnyPoly {
    match t.tok() {
        "S" => AnyPoly::S(read_simple(t)),
        "I" => AnyPoly::I(read_inter(t)),
        k => panic!("polynomial kind {k}"),
    }
}

fn name_tokens(s: &str) -> String {
    req_string(s)
}

/// answer-side (floats as f<bits>)
pub fn show_simple(p: &SimplePolynomial) -> String {
    let mut s = String::from("S ");
    match p.variable {
        Some(c) => s.push_str(&format!("{}", c as u32)),
        None => s.push('-'),
    }
    s.push_str(&format!(" {}", p.coefficients.len()));
    for c in &p.coefficients {
        s.push(' ');
        s.push_str(&fbits(*c));
    }
    s
}

pub fn show_inter(p: &IntermediatePolynomial) -> String {
    let mut s = format!("I {}", p.terms.len());
    for t in &p.terms {
        s.push_str(&format!(" {} {}", fbits(t.coefficient), t.variables.len()));
        for (v, e) in &t.variables {
            s.push_str(&format!(" {} {}", name_tokens(v), fbits(*e)));
        }
    }
    s.push_str(&format!(" {}", p.variables.len()));
    for v in &p.variables {
        s.push(' ');
        s.push_str(&name_tokens(v));
    }
    s
}

pub fn show_any(p: &AnyPoly) -> String {
    match p {
        AnyPoly::S(q) => show_simple(q),
        AnyPoly::I(q) => show_inter(q),
    }
}

/// request-side (floats as bare bits)
pub fn req_simple(p: &SimplePolynomial) -> String {
    show_simple(p).replace(" f", " ")
}
pub fn req_inter(p: &IntermediatePolynomial) -> String {
    show_inter(p).replace(" f", " ")
}
pub fn req_any(p: &AnyPoly) -> String {
    show_any(p).replace(" f", " ")
}

pub fn err_kind(e: &PolynomialError) -> &'static str {
    match e {
        PolynomialError::InvalidCoefficient { .. } => "InvalidCoefficient",
        PolynomialError::InvalidConstant => "InvalidConstant",
        PolynomialError::InvalidExponent { .. } => "InvalidExponent",
        PolynomialError::InvalidFractionalExponent { .. } => "InvalidFractionalExponent",
        PolynomialError::InvalidFraction { .. } => "InvalidFraction",
        PolynomialError::InvalidNumber { .. } => "InvalidNumber",
        PolynomialError::PolynomialSyntaxError => "PolynomialSyntaxError",
        PolynomialError::MissingVariable => "MissingVariable",
        PolynomialError::TooManyVariables { .. } => "TooManyVariables",
        PolynomialError::TooFewVariables { .. } => "TooFewVariables",
        PolynomialError::UnexpectedChar { .. } => "UnexpectedChar",
        PolynomialError::VariableNotFound { .. } => "VariableNotFound",
        PolynomialError::UnexpectedToken { .. } => "UnexpectedToken",
        PolynomialError::UnexpectedEndOfTokens => "UnexpectedEndOfTokens",
    }
}

pub fn show_eval(r: &Result<f64, PolynomialError>) -> String {
    match r {
        Ok(v) => format!("ok {}", fbits(*v)),
        Err(e) => format!("err {}", err_kind(e)),
    }
}

/// simple polynomial from coefficients (variable x)
pub fn simple_of(cs: &[f64]) -> AnyPoly {
    AnyPoly::S(SimplePolynomial { coefficients: cs.to_vec(), variable: Some('x') })
}

/// the same univariate polynomial as an IntermediatePolynomial (zero coefficients skipped unless
/// `keep_zeros`); exponent k as `x^k`, constant term without variable
pub fn inter_of(cs: &[f64], keep_zeros: bool) -> AnyPoly {
    let mut terms = Vec::new();
    for (k, c) in cs.iter().enumerate() {
        if *c == 0.0 && !keep_zeros {
            continue;
        }
        let variables = if k == 0 { vec![] } else { vec![("x".to_string(), k as f64)] };
        terms.push(Term { coefficient: *c, variables });
    }
    let has_var = terms.iter().any(|t| !t.variables.is_empty());
    AnyPoly::I(IntermediatePolynomial {
        terms,
        variables: if has_var { vec!["x".to_string()] } else { vec![] },
    })
}
