//! C05 — `definite_integral` (Simpson 1/3 + 3/8 splice, trapezoid for one segment) and
//! `romberg_definite`, for both polynomial types.
//!
//!     simpson <poly> <a> <b> <n>           → ok f… | err FunctionError <Kind> | panic
//!     romberg <poly> <a> <b> <cap> <tol>   → ok f… | err MaxIterationsReached | err FunctionError <Kind> | panic
//!
//! The numeric oracle (exact rationals) lives in tools/props/c05.py; here only "never a panic".
use crate::polyio::*;
use crate::util::*;
use spindalis::integrals::{IntegralError, definite_integral, romberg_definite};
use spindalis_core::polynomials::Term;
use spindalis_core::polynomials::structs::IntermediatePolynomial;

fn show(r: Option<Result<f64, IntegralError>>) -> Obs {
    match r {
        None => Obs::with("panic".into(), Err("the integrator panicked".into())),
        Some(Ok(v)) => Obs::plain(format!("ok {}", fbits(v))),
        Some(Err(IntegralError::MaxIterationsReached)) => Obs::plain("err MaxIterationsReached".into()),
        Some(Err(IntegralError::FunctionError(e))) => Obs::plain(format!("err FunctionError {}", err_kind(&e))),
    }
}

pub fn run(line: &str) -> Obs {
    let mut t = Toks::new(line);
    match t.tok() {
        "simpson" => {
            let p = read_any(&mut t);
            let a = t.f64();
            let b = t.f64();
            let n = t.usize();
            show(catch(|| with_poly!(&p, q => definite_integral(q, a, b, n))))
        }
        "romberg" => {
            let p = read_any(&mut t);
            let a = t.f64();
            let b = t.f64();
            let cap: u32 = t.tok().parse().expect("u32 cap");
            let tol = t.f64();
            show(catch(|| with_poly!(&p, q => romberg_definite(q, a, b, cap, tol))))
        }
        other => panic!("unknown C05 request {other}"),
    }
}

/// coefficients of a polynomial of exactly the given degree: small dyadic rationals
fn coeffs(rng: &mut Rng, deg: usize) -> Vec<f64> {
    let mut cs: Vec<f64> = (0..=deg)
        .map(|_| if rng.chance(1, 6) { 0.0 } else { rng.dyadic(24, 3) })
        .collect();
    while cs[deg] == 0.0 {
        cs[deg] = rng.dyadic(24, 3);
    }
    cs
}

fn interval(rng: &mut Rng, kind: u64) -> (f64, f64) {
    match kind {
        // dyadic, a < b — one in five of them of an extreme width (2^-70..2^-34 or 2^8..2^16): a guard or tolerance
        // in absolute units shows only there
        0 => {
            let a = rng.range(-32, 24) as f64 / 8.0;
            let w = rng.range(1, 40) as f64 / 8.0;
            match rng.below(10) {
                0 => {
                    let a0 = if rng.chance(1, 2) { 0.0 } else { a / 64.0 };
                    let w0 = 2f64.powi(-(rng.range(34, 70) as i32));
                    if rng.chance(1, 2) { (a0, a0 + w0) } else { (a0 + w0, a0) }
                }
                1 => (a, a + w * 2f64.powi(rng.range(8, 16) as i32)),
                _ => (a, a + w),
            }
        }
        // reversed
        1 => {
            let a = rng.range(-32, 24) as f64 / 8.0;
            let w = rng.range(1, 40) as f64 / 8.0;
            (a + w, a)
        }
        // empty
        2 => {
            let a = if rng.chance(1, 2) { rng.range(-24, 24) as f64 / 8.0 } else { rng.uniform(-3.0, 3.0) };
            (a, a)
        }
        // symmetric about 0 (odd polynomials integrate to 0)
        3 => {
            let c = rng.range(1, 24) as f64 / 8.0;
            if rng.chance(1, 4) { (c, -c) } else { (-c, c) }
        }
        // decimal end points (segment width and abscissae are rounded)
        4 => {
            let a = rng.range(-30, 20) as f64 / 10.0;
            let w = rng.range(1, 37) as f64 / 10.0;
            if rng.chance(1, 5) { (a + w, a) } else { (a, a + w) }
        }
        // arbitrary doubles
        _ => {
            let a = rng.uniform(-3.0, 3.0);
            let b = rng.uniform(-3.0, 3.0);
            (a, b)
        }
    }
}

fn repr(rng: &mut Rng, cs: &[f64], which: u64) -> AnyPoly {
    match which % 2 {
        0 => simple_of(cs),
        _ => inter_of(cs, rng.chance(1, 5)),
    }
}

/// intermediate polynomials whose evaluation fails: the error must come back as `FunctionError`
fn bad_polys() -> Vec<AnyPoly> {
    let t = |c: f64, vs: &[(&str, f64)]| Term {
        coefficient: c,
        variables: vs.iter().map(|(v, e)| (v.to_string(), *e)).collect(),
    };
    vec![
        // two variables
        AnyPoly::I(IntermediatePolynomial {
            terms: vec![t(1.0, &[("x", 2.0)]), t(2.0, &[("y", 1.0)])],
            variables: vec!["x".into(), "y".into()],
        }),
        // a term uses a variable the polynomial does not declare
        AnyPoly::I(IntermediatePolynomial { terms: vec![t(1.0, &[("x", 1.0)])], variables: vec![] }),
        // declared x, used y (only in the second term)
        AnyPoly::I(IntermediatePolynomial {
            terms: vec![t(3.0, &[("x", 1.0)]), t(1.0, &[("y", 2.0)])],
            variables: vec!["x".into()],
        }),
    ]
}

pub const TOLS: [f64; 9] = [-1.0, 0.0, 1e-12, 1e-9, 1e-6, 1e-3, 0.1, 1.0, 10.0];

pub fn generate(seed: u64, thorough: bool, emit: &mut dyn FnMut(String)) {
    let mut rng = Rng::new(seed ^ 0xC05);
    let simpson = |p: &AnyPoly, a: f64, b: f64, n: usize| format!("simpson {} {} {} {n}", req_any(p), rbits(a), rbits(b));
    let romberg = |p: &AnyPoly, a: f64, b: f64, cap: u64, tol: f64| {
        format!("romberg {} {} {} {cap} {}", req_any(p), rbits(a), rbits(b), rbits(tol))
    };

    // ---- Simpson / trapezoid
    // the named segment counts on every degree, both representations, four interval kinds
    for n in [1usize, 2, 3, 5, 4, 7] {
        for deg in 0..=8usize {
            for which in 0..2u64 {
                for kind in [0u64, 1, 2, 4] {
                    let cs = coeffs(&mut rng, deg);
                    let (a, b) = interval(&mut rng, kind);
                    emit(simpson(&repr(&mut rng, &cs, which), a, b, n));
                }
            }
        }
    }
    // every n in 1..=200
    let per_n = if thorough { 400 } else { 10 };
    for n in 1..=200usize {
        for r in 0..per_n {
            // half of the cases of degree <= 3 (exactness clause), the rest 4..8 (error bound)
            let deg = if r % 2 == 0 { rng.below(4) as usize } else { 4 + rng.below(5) as usize };
            let cs = coeffs(&mut rng, deg);
            let kind = rng.below(6);
            let (a, b) = interval(&mut rng, kind);
            let which = rng.below(2);
            emit(simpson(&repr(&mut rng, &cs, which), a, b, n));
        }
    }
    // n = 0 lies outside the property; model and code must still agree on it
    for deg in [0usize, 2, 5] {
        let cs = coeffs(&mut rng, deg);
        let (a, b) = interval(&mut rng, 0);
        emit(simpson(&simple_of(&cs), a, b, 0));
    }
    for (i, p) in bad_polys().iter().enumerate() {
        for n in [1usize, 2, 3, 6, 9] {
            emit(simpson(p, -1.0, 0.5 + i as f64, n));
        }
    }

    // ---- Romberg: every cap 0..=64 x every tolerance
    let fixed: Vec<(Vec<f64>, f64, f64)> = vec![
        (vec![0.0, 0.0, 0.0, 1.0], -1.0, 1.0),      // x^3 over [-1,1]: integral 0, never converges (D11)
        (vec![0.0, 1.0], -2.0, 2.0),                // x over [-2,2]
        (vec![1.0, 0.0, 0.0, 0.0, 0.0, 0.0, 1.0], 0.0, 1.5), // slow to converge
    ];
    let per_cell = if thorough { 60 } else { 4 };
    for cap in 0..=64u64 {
        for tol in TOLS {
            let (cs, a, b) = &fixed[(cap as usize + (tol.to_bits() >> 52) as usize) % fixed.len()];
            emit(romberg(&repr(&mut rng, cs, cap), *a, *b, cap, tol));
            for r in 0..per_cell {
                let deg = if r % 2 == 0 { rng.below(4) as usize } else { rng.below(9) as usize };
                let cs = coeffs(&mut rng, deg);
                let kind = rng.below(6);
                let (a, b) = interval(&mut rng, kind);
                let which = rng.below(2);
                emit(romberg(&repr(&mut rng, &cs, which), a, b, cap, tol));
            }
        }
    }
    // the fixed zero-integral inputs on every cap with the tolerance that never stops
    for cap in 0..=64u64 {
        for (cs, a, b) in &fixed {
            emit(romberg(&simple_of(cs), *a, *b, cap, -1.0));
        }
    }
    // caps far beyond the table
    for cap in [100u64, 1000, 65536, u32::MAX as u64] {
        for tol in [-1.0, 0.0, 1e-6] {
            for (cs, a, b) in &fixed {
                emit(romberg(&simple_of(cs), *a, *b, cap, tol));
            }
            let cs = coeffs(&mut rng, 5);
            let (a, b) = interval(&mut rng, 0);
            emit(romberg(&inter_of(&cs, false), a, b, cap, tol));
        }
    }
    for p in bad_polys().iter() {
        for cap in [0u64, 3, 20] {
            emit(romberg(p, 0.0, 1.0, cap, 1e-6));
        }
    }
}
