import SV.Model.C02
import SV.Lemmas.C02
import SV.Lemmas.C02Render
import Mathlib.Algebra.BigOperators.Group.List.Basic
import Mathlib.Algebra.Ring.Defs
import Mathlib.Tactic.Ring
/-!
# C02 — multivariate parser: grammar accepted, canonical form, evaluation matches maths

Property theorems only.  Evaluation half (any commutative semiring `R`, any power function `powf`):
under an assignment that binds every variable the value is `Σ_t c_t · Π_(v,e)∈t powf (σ v) e`; if a
variable of some term is unbound the result is `VariableNotFound` of an unbound variable — never a
number.  Parser half (below, about the model `SV.C02.parse` of `parse_intermediate_polynomial`):
`parse_canonical` / `parse_canonical_strict` (terms sorted by name without repetition, variable list =
sorted set of the names used), `parse_ok_variables_ascii` (every name is one ASCII letter),
`parse_render_inter` (every text of the documented language is accepted and each parsed term has the
value written), with the steps `normalize_render`, `parts_of_render`, `parsePart_of_render` visible.
-/
namespace SV.Props.C02
open SV SV.Poly

variable {R : Type} [CommSemiring R]

/-- value of one term under a total assignment `f` -/
def termVal (powf : R → R → R) (f : String → R) (t : Term R) : R :=
  t.coef * (t.vars.map fun p => powf (f p.1) p.2).prod

private theorem termValue_ok (powf : R → R → R) (σ : String → Option R) (f : String → R)
    (vars : List (String × R)) (acc : R) (h : ∀ p ∈ vars, σ p.1 = some (f p.1)) :
    termValue powf σ acc vars = .ok (acc * (vars.map fun p => powf (f p.1) p.2).prod) := by
  induction vars generalizing acc with
  | nil => simp [termValue]
  | cons p ps ih =>
    obtain ⟨v, e⟩ := p
    have hv : σ v = some (f v) := h (v, e) (by simp)
    simp only [termValue, hv, List.map_cons, List.prod_cons]
    rw [ih _ (fun q hq => h q (by simp [hq]))]
    congr 1; ring

private theorem evalTermsFrom_ok (powf : R → R → R) (σ : String → Option R) (f : String → R)
    (ts : List (Term R)) (acc : R) (h : ∀ t ∈ ts, ∀ p ∈ t.vars, σ p.1 = some (f p.1)) :
    evalTermsFrom powf σ acc ts = .ok (acc + (ts.map (termVal powf f)).sum) := by
  induction ts generalizing acc with
  | nil => simp [evalTermsFrom]
  | cons t ts ih =>
    simp only [evalTermsFrom, termValue_ok powf σ f t.vars t.coef (h t (by simp)), List.map_cons,
      List.sum_cons]
    rw [ih _ (fun u hu => h u (by simp [hu]))]
    congr 1; simp only [termVal]; ring

/-- Evaluation under any assignment binding every variable used equals the sum over the terms of
coefficient times the product of value^exponent. -/
theorem eval_eq_sum_prod (powf : R → R → R) (terms : List (Term R)) (σ : List (String × R))
    (f : String → R) (h : ∀ t ∈ terms, ∀ p ∈ t.vars, lookup σ p.1 = some (f p.1)) :
    evalTerms powf terms σ = .ok ((terms.map (termVal powf f)).sum) := by
  unfold evalTerms
  rw [evalTermsFrom_ok powf (lookup σ) f terms 0 h]
  simp

private theorem termValue_err (powf : R → R → R) (σ : String → Option R)
    (vars : List (String × R)) (acc : R) (h : ∃ p ∈ vars, σ p.1 = none) :
    ∃ v, termValue powf σ acc vars = .error (.variableNotFound v) ∧ σ v = none := by
  induction vars generalizing acc with
  | nil => simp at h
  | cons p ps ih =>
    obtain ⟨v, e⟩ := p
    cases hv : σ v with
    | none => exact ⟨v, by simp [termValue, hv], hv⟩
    | some x =>
      simp only [termValue, hv]
      apply ih
      obtain ⟨q, hq, hn⟩ := h
      rcases List.mem_cons.mp hq with rfl | hq'
      · simp [hv] at hn
      · exact ⟨q, hq', hn⟩

/-- Evaluating with a missing variable is an error naming an unbound variable — never a number. -/
theorem eval_missing_is_error (powf : R → R → R) (terms : List (Term R)) (σ : List (String × R))
    (h : ∃ t ∈ terms, ∃ p ∈ t.vars, lookup σ p.1 = none) :
    ∃ v, evalTerms powf terms σ = .error (.variableNotFound v) ∧ lookup σ v = none := by
  unfold evalTerms
  generalize (0 : R) = acc
  induction terms generalizing acc with
  | nil => simp at h
  | cons t ts ih =>
    by_cases ht : ∃ p ∈ t.vars, lookup σ p.1 = none
    · obtain ⟨v, hv, hn⟩ := termValue_err powf (lookup σ) t.vars t.coef ht
      exact ⟨v, by simp [evalTermsFrom, hv], hn⟩
    · have hall : ∀ p ∈ t.vars, ∃ x, lookup σ p.1 = some x := by
        intro p hp
        cases hl : lookup σ p.1 with
        | none => exact absurd ⟨p, hp, hl⟩ ht
        | some x => exact ⟨x, rfl⟩
      -- the term evaluates; the error comes from a later term
      have hok : ∃ tv, termValue powf (lookup σ) t.coef t.vars = .ok tv := by
        have : ∀ (vars : List (String × R)) (acc : R), (∀ p ∈ vars, ∃ x, lookup σ p.1 = some x) →
            ∃ tv, termValue powf (lookup σ) acc vars = .ok tv := by
          intro vars
          induction vars with
          | nil => intro acc _; exact ⟨acc, rfl⟩
          | cons p ps ihp =>
            intro acc hp
            obtain ⟨x, hx⟩ := hp p (by simp)
            obtain ⟨v, e⟩ := p
            simp only at hx
            simp only [termValue, hx]
            exact ihp _ (fun q hq => hp q (by simp [hq]))
        exact this t.vars t.coef hall
      obtain ⟨tv, htv⟩ := hok
      obtain ⟨u, hu, p, hp, hn⟩ := h
      rcases List.mem_cons.mp hu with rfl | hu'
      · exact absurd ⟨p, hp, hn⟩ ht
      · simp only [evalTermsFrom, htv]
        exact ih ⟨u, hu', p, hp, hn⟩ _

/-! ## Parser half: canonical form of every accepted text

`C02.parse` is the model of `parse_intermediate_polynomial` (validated against the Rust parser bit for
bit by the K phase).  The order facts used about `String` are exactly: `≤` is transitive and total
(for `List.mergeSort` to sort) and antisymmetric (for the strict version). -/
section Parser
open SV.Text SV.C02

/-- **Canonical form.**  In every accepted polynomial (a) each term's variables are sorted by name and
no name is repeated within a term; (b) the polynomial's variable list is sorted, duplicate-free, and
contains exactly the names that occur in some term. -/
theorem parse_canonical (cc : CharClass) (s : List Char) (p : IParsed) (h : C02.parse cc s = .ok p) :
    (∀ t ∈ p.terms, (t.vars.map (·.1)).Pairwise (· ≤ ·) ∧ (t.vars.map (·.1)).Nodup) ∧
    p.variables.Pairwise (· ≤ ·) ∧ p.variables.Nodup ∧
    ∀ n, n ∈ p.variables ↔ ∃ t ∈ p.terms, ∃ v ∈ t.vars, v.1 = n := by
  obtain ⟨hts, hvars⟩ := parse_ok_iff cc s p h
  have hterm := parseParts_ok cc _ _ hts
  refine ⟨fun t ht => ⟨(hterm t ht).1, (hterm t ht).2.1⟩, ?_, ?_, ?_⟩
  · rw [hvars]; exact variables_sorted _
  · rw [hvars]; exact (List.mergeSort_perm _ _).symm.nodup (nodup_eraseDups _)
  · intro n
    rw [hvars, List.mem_mergeSort, List.mem_eraseDups, List.mem_flatMap]
    constructor
    · rintro ⟨t, ht, hn⟩
      obtain ⟨v, hv, rfl⟩ := List.mem_map.1 hn
      exact ⟨t, ht, v, hv, rfl⟩
    · rintro ⟨t, ht, v, hv, rfl⟩
      exact ⟨t, ht, List.mem_map.2 ⟨v, hv, rfl⟩⟩

/-- The same with the strict order: names strictly increase along every term and along the
variable list (sorted + duplicate-free, by antisymmetry of `≤` on `String`). -/
theorem parse_canonical_strict (cc : CharClass) (s : List Char) (p : IParsed)
    (h : C02.parse cc s = .ok p) :
    (∀ t ∈ p.terms, (t.vars.map (·.1)).Pairwise (· < ·)) ∧ p.variables.Pairwise (· < ·) := by
  obtain ⟨h1, h2, h3, _⟩ := parse_canonical cc s p h
  exact ⟨fun t ht => pairwise_lt_of_le_of_nodup (h1 t ht).1 (h1 t ht).2,
    pairwise_lt_of_le_of_nodup h2 h3⟩

/-- Every variable name of an accepted polynomial — in the terms and in the variable list — is a
single ASCII letter. -/
theorem parse_ok_variables_ascii (cc : CharClass) (s : List Char) (p : IParsed)
    (h : C02.parse cc s = .ok p) :
    (∀ t ∈ p.terms, ∀ v ∈ t.vars, ∃ c : Char, isAsciiLetter c = true ∧ v.1 = String.singleton c) ∧
    ∀ n ∈ p.variables, ∃ c : Char, isAsciiLetter c = true ∧ n = String.singleton c := by
  obtain ⟨hts, _⟩ := parse_ok_iff cc s p h
  have hterm := parseParts_ok cc _ _ hts
  have h1 : ∀ t ∈ p.terms, ∀ v ∈ t.vars, ∃ c : Char, isAsciiLetter c = true ∧ v.1 = String.singleton c :=
    fun t ht v hv => (hterm t ht).2.2 v.1 (List.mem_map.2 ⟨v, hv, rfl⟩)
  refine ⟨h1, fun n hn => ?_⟩
  obtain ⟨t, ht, v, hv, rfl⟩ := ((parse_canonical cc s p h).2.2.2 n).1 hn
  exact h1 t ht v hv

end Parser

/-! ## Parser half: every string of the documented language is accepted and means what it says

Vocabulary (defined in `SV.Lemmas.C02Grammar`, namespace `SV.C02`): `TermSyn` — a written term (sign,
coefficient `Coef` = none | decimal | decimal/decimal with non-zero denominator, factors = ASCII letter
with optional exponent `Expo` = [-]decimal | [-]decimal/decimal); `TermSyn.WF` — spellings well formed,
letters distinct within the term, coefficient or at least one factor present; `render leadPlus ts` —
the text without white space; `TermSyn.sem` — (signed coefficient value, (letter, exponent value) pairs
sorted by letter) in ℚ; `ITerm.sem` — the same reading of a parsed term (`numVal` reads the `f64`
operations `/` as exact division).  `Sane cc` (in `SV.Lemmas.C02Text`) lists the facts about
`is_numeric` / `is_whitespace` that are used; `stdClass_sane` proves them for the driver's classes. -/
section Grammar
open SV.Text SV.C02

/-- **The sign-protection rewrite on a rendering**: after normalisation the text is the terms'
pieces (`-` + body for a negative term, the body otherwise) joined by `+`, with one leading `+` exactly
when the first term was written with a sign — no `-` that belongs to an exponent is touched, and no
other `-` survives without a `+` in front of it. -/
theorem normalize_render (cc : CharClass) (lead : Bool) (t : TermSyn) (ts : List TermSyn)
    (hwf : ∀ u ∈ t :: ts, u.WF) (s : List Char) (hs : stripWs cc s = render lead (t :: ts)) :
    C02.normalize cc s =
      (if t.neg = true ∨ lead = true then ['+'] else []) ++ t.piece ++
        ts.flatMap fun u => '+' :: u.piece := by
  unfold C02.normalize
  rw [hs]
  exact protectDash_render lead t ts hwf

/-- **The split** gives back exactly one part per written term. -/
theorem parts_of_render (cc : CharClass) (lead : Bool) (ts : List TermSyn) (hne : ts ≠ [])
    (hwf : ∀ u ∈ ts, u.WF) (s : List Char) (hs : stripWs cc s = render lead ts) :
    C02.parts (C02.normalize cc s) = ts.map TermSyn.piece := by
  unfold C02.normalize
  rw [hs]
  exact parts_render lead ts hne hwf

/-- **One part parses to the term it spells** (coefficient scan, fraction, variable loop with
exponents, sort). -/
theorem parsePart_of_render (cc : CharClass) (hcc : Sane cc) (t : TermSyn) (ht : t.WF) :
    ∃ it, C02.parsePart cc t.piece = .ok it ∧ it.sem = t.sem :=
  ⟨t.toITerm, parsePart_render hcc ht, sem_toITerm t⟩

/-- **Grammar completeness.**  For character classes satisfying `Sane`, every text `s` whose
non-white-space characters are the rendering of a non-empty list of well-formed terms — coefficient
forms `""`, `n`, `n.d`, `.d`, `n.`, `a/b`; exponent forms absent, `n`, `-n`, `n.d`, `a/b`, `-a/b`;
0..k distinct variables per term in any order; first term optionally signed; arbitrary white space —
is accepted; the result has one term per written term, term `i` has the coefficient value
`± value(coef)` (implicit `±1`) and its variables are the (letter, exponent value) pairs of written
term `i` sorted by letter; the variable list contains exactly the letters written.

Caveat inherited from the model (`Text.Dec.isZero`, validated by K only within the generators' 30
digits): "non-zero denominator" is `mant ≠ 0` here, whereas Rust tests `y != 0.0` on the rounded
binary64 — a denominator below 2^-1075 (e.g. `1/0.` + 400 zeros + `1x`) is `InvalidFraction` in the
real code although the model accepts it. -/
theorem parse_render_inter (cc : CharClass) (hcc : Sane cc) (lead : Bool) (ts : List TermSyn)
    (hne : ts ≠ []) (hwf : ∀ t ∈ ts, t.WF) (s : List Char) (hs : stripWs cc s = render lead ts) :
    ∃ p, C02.parse cc s = .ok p ∧ p.terms.length = ts.length ∧
      p.terms.map ITerm.sem = ts.map TermSyn.sem ∧
      ∀ n, n ∈ p.variables ↔ ∃ t ∈ ts, ∃ f ∈ t.factors, n = String.singleton f.letter := by
  refine ⟨_, parse_render hcc lead ts hne hwf s hs, by simp, ?_, mem_variablesOf_render ts⟩
  simp only [List.map_map]
  apply List.map_congr_left
  intro t _
  exact sem_toITerm t

/-- Term by term: the `i`-th parsed term has the coefficient value and the sorted
(letter, exponent value) list of the `i`-th written term. -/
theorem parse_render_inter_term (cc : CharClass) (hcc : Sane cc) (lead : Bool) (ts : List TermSyn)
    (hne : ts ≠ []) (hwf : ∀ t ∈ ts, t.WF) (s : List Char) (hs : stripWs cc s = render lead ts)
    (p : IParsed) (hp : C02.parse cc s = .ok p) (i : Nat) (hi : i < ts.length) :
    ∃ it, p.terms[i]? = some it ∧
      numVal it.coef = sgn ts[i].neg * ts[i].coef.value ∧
      (it.vars.map fun v => (v.1, numVal v.2)) =
        (ts[i].factors.map fun f => (String.singleton f.letter, f.expValue)).mergeSort
          (fun a b => decide (a.1 ≤ b.1)) := by
  obtain ⟨p', hp', hlen, hsem, _⟩ := parse_render_inter cc hcc lead ts hne hwf s hs
  rw [hp] at hp'
  cases hp'
  have hi' : i < p.terms.length := by omega
  refine ⟨p.terms[i], List.getElem?_eq_getElem hi', ?_⟩
  have h := congrArg (fun l => l[i]?) hsem
  simp only [List.getElem?_map, List.getElem?_eq_getElem hi', List.getElem?_eq_getElem hi,
    Option.map_some, Option.some.injEq] at h
  exact ⟨congrArg Prod.fst h, congrArg Prod.snd h⟩

/-- A rendering itself (no white space at all) is accepted: `Sane` makes the hypothesis of
`parse_render_inter` satisfiable by every rendering. -/
theorem parse_render_inter_nospace (cc : CharClass) (hcc : Sane cc) (lead : Bool) (ts : List TermSyn)
    (hne : ts ≠ []) (hwf : ∀ t ∈ ts, t.WF) :
    ∃ p, C02.parse cc (render lead ts) = .ok p ∧ p.terms.map ITerm.sem = ts.map TermSyn.sem := by
  obtain ⟨p, h1, _, h2, _⟩ :=
    parse_render_inter cc hcc lead ts hne hwf _ (stripWs_render hcc lead ts hwf)
  exact ⟨p, h1, h2⟩

/-- The driver's character classes (ASCII + the table of non-ASCII characters the generators use)
satisfy `Sane`, so the theorem applies to the configuration that K validates against the Rust parser. -/
theorem parse_render_inter_std (lead : Bool) (ts : List TermSyn)
    (hne : ts ≠ []) (hwf : ∀ t ∈ ts, t.WF) (s : List Char) (hs : stripWs stdClass s = render lead ts) :
    ∃ p, C02.parse stdClass s = .ok p ∧ p.terms.map ITerm.sem = ts.map TermSyn.sem := by
  obtain ⟨p, h1, _, h2, _⟩ := parse_render_inter stdClass stdClass_sane lead ts hne hwf s hs
  exact ⟨p, h1, h2⟩

/-- The empty text (or white space only) is accepted as the polynomial without terms — the one
accepted text outside `1..n` terms that the split itself produces (Rust: "an empty input leaves one
empty part in front", which is dropped). -/
theorem parse_empty (cc : CharClass) (s : List Char) (hs : stripWs cc s = []) :
    C02.parse cc s = .ok ⟨[], []⟩ := by
  have hp : C02.parts (C02.protectDash none []) = [] := rfl
  unfold C02.parse C02.normalize
  rw [hs]
  simp [hp, C02.parseParts]

/-! ### non-vacuity: two concrete texts go through the theorem -/

private def u1 : UDec := ⟨['1'], [], false⟩
private def u2 : UDec := ⟨['2'], [], false⟩
private def u3 : UDec := ⟨['3'], [], false⟩
private def p5 : UDec := ⟨[], ['5'], true⟩

private theorem u1_wf : u1.WF := ⟨by decide, by decide, by decide, by decide⟩
private theorem u2_wf : u2.WF := ⟨by decide, by decide, by decide, by decide⟩
private theorem u3_wf : u3.WF := ⟨by decide, by decide, by decide, by decide⟩
private theorem p5_wf : p5.WF := ⟨by decide, by decide, by decide, by decide⟩

/-- `2x^-2 - 3y^-1/2` -/
private def ex1 : List TermSyn :=
  [⟨false, .dec u2, [⟨'x', some (.dec true u2)⟩]⟩,
   ⟨true, .dec u3, [⟨'y', some (.frac true u1 u2)⟩]⟩]

private theorem ex1_wf : ∀ t ∈ ex1, t.WF := by
  intro t ht
  simp only [ex1, List.mem_cons, List.not_mem_nil, or_false] at ht
  rcases ht with rfl | rfl
  · refine ⟨u2_wf, by decide, ?_, by decide, by simp⟩
    intro f hf e he
    simp only [List.mem_cons, List.not_mem_nil, or_false] at hf
    subst hf; cases he
    exact u2_wf
  · refine ⟨u3_wf, by decide, ?_, by decide, by simp⟩
    intro f hf e he
    simp only [List.mem_cons, List.not_mem_nil, or_false] at hf
    subst hf; cases he
    exact ⟨u1_wf, u2_wf, by decide⟩

/-- `"2x^-2 - 3y^-1/2"` is accepted and means `2·x^(-2) + (-3)·y^(-1/2)`: the `-` after `^` stays in
the exponent, the other `-` separates the terms. -/
example : ∃ p, C02.parse stdClass
      ['2','x','^','-','2',' ','-',' ','3','y','^','-','1','/','2'] = .ok p ∧
    p.terms.map ITerm.sem = [(2, [("x", -2)]), (-3, [("y", -1/2)])] := by
  obtain ⟨p, h1, h2⟩ := parse_render_inter_std false ex1 (by simp [ex1]) ex1_wf
    ['2','x','^','-','2',' ','-',' ','3','y','^','-','1','/','2'] (by decide)
  refine ⟨p, h1, ?_⟩
  rw [h2]
  simp [ex1, TermSyn.sem, sgn, Coef.value, UDec.value, UDec.mant, u1, u2, u3, Factor.expValue,
    Expo.value, digitsVal, digitVal]

/-- `1/2yx^2 + .5` -/
private def ex2 : List TermSyn :=
  [⟨false, .frac u1 u2, [⟨'y', none⟩, ⟨'x', some (.dec false u2)⟩]⟩,
   ⟨false, .dec p5, []⟩]

private theorem ex2_wf : ∀ t ∈ ex2, t.WF := by
  intro t ht
  simp only [ex2, List.mem_cons, List.not_mem_nil, or_false] at ht
  rcases ht with rfl | rfl
  · refine ⟨⟨u1_wf, u2_wf, by decide⟩, by decide, ?_, by decide, by simp⟩
    intro f hf e he
    simp only [List.mem_cons, List.not_mem_nil, or_false] at hf
    rcases hf with rfl | rfl
    · cases he
    · cases he; exact u2_wf
  · exact ⟨p5_wf, by decide, by simp, by decide, by simp⟩

/-- `"1/2yx^2 + .5"` is accepted and means `(1/2)·x^2·y + 1/2` — variables come back sorted. -/
example : ∃ p, C02.parse stdClass ['1','/','2','y','x','^','2',' ','+',' ','.','5'] = .ok p ∧
    p.terms.map ITerm.sem = [(1/2, [("x", 2), ("y", 1)]), (1/2, [])] := by
  obtain ⟨p, h1, h2⟩ := parse_render_inter_std false ex2 (by simp [ex2]) ex2_wf
    ['1','/','2','y','x','^','2',' ','+',' ','.','5'] (by decide)
  refine ⟨p, h1, ?_⟩
  rw [h2]
  simp [ex2, TermSyn.sem, sgn, Coef.value, UDec.value, UDec.mant, u1, u2, p5, Factor.expValue,
    Expo.value, digitsVal, digitVal, List.mergeSort]
  norm_num

end Grammar

end SV.Props.C02
