import SV.Model.C07
import SV.Lemmas.C07
/-!
# C07 — Newton–Raphson: results are near-roots; monotone cases reach the right root

Property theorems only (helper lemmas are in `SV.Lemmas.C07`).  The same `SV.C07.newton` runs at
`Float` in the driver and is compared with `spindalis::solvers::newton_raphson_method` (outcome,
returned bits, number of passes) on every run of the check.

Reading guide.  `newton powf p x0 tol itermax mode : NRes K` is the call
`newton_raphson_method(&p, x0, itermax, tol, mode)`; `NRes.out` is its outcome, `NRes.passes` the
number of loop passes.  `newtonCore ev dv …` is the same loop for arbitrary evaluation functions of
the target function and of its derivative; `evOf g` is the evaluation function of a total `g`.  For a
dense (`SimplePolynomial`) input `newton_simple` identifies `newton … mode` with
`newtonCore (evOf P.eval) (evOf P'.eval) …` where `P = targetPoly cs mode` (the polynomial, or its
formal derivative in extrema mode) and `P'` its formal derivative.

The model contains one rule that is not an arithmetic identity: a vanishing derivative leads to
`MaxIterationsReached` (the IEEE consequence of dividing by zero, see `SV.Model.C07`); it is stated
below as `newton_zero_derivative` and validated by the correspondence run on inputs that hit it.
-/
set_option linter.unusedSectionVars false
set_option linter.unnecessarySeqFocus false

namespace SV.Props.C07
open SV SV.Poly SV.C07 Polynomial
open SV.C06 (SolveMode SErr target evOf targetPoly)

variable {K : Type} [Field K] [LinearOrder K] [IsStrictOrderedRing K]

/-! ## what an `ok` answer guarantees -/

/-- **Exit condition, any evaluation functions.**  A returned `x` is the Newton update
`x_old − g(x_old)/g'(x_old)` of the previous iterate, `g'(x_old) ≠ 0`, and the last step
`Δ = x − x_old` is below the requested relative tolerance, `|Δ|·100 < tol·|x|` — or the iteration
sits on `x = 0` and the step vanished (`Δ = 0`; the relative rule cannot be evaluated there). -/
theorem newton_exit_ev (ev dv : K → Except PErr K) (x0 tol : K) (itermax : Nat) (x : K)
    (h : (newtonCore ev dv x0 tol itermax).out = .ok x) :
    ∃ xo gv d, ev xo = .ok gv ∧ dv xo = .ok d ∧ d ≠ 0 ∧ x = xo - gv / d ∧
      ((x ≠ 0 ∧ |x - xo| * 100 < tol * |x|) ∨ (x = 0 ∧ x - xo = 0 ∧ 0 < tol)) := by
  obtain ⟨xo, gv, d, h1, h2, h3, h4, h5⟩ := newtonLoop_ok ev dv tol _ _ _ _ h
  refine ⟨xo, gv, d, h1, h2, h3, h4, ?_⟩
  rcases (converged_iff x xo tol).mp h5 with hc | ⟨e0, e1, ht⟩
  · exact Or.inl hc
  · exact Or.inr ⟨e0, by rw [e0, e1, sub_zero], ht⟩

/-- **Exit condition, both polynomial kinds and both modes.**  `q` is the polynomial the solver
works on (the input, or its derivative), `dq` the derivative `derivate_univariate` computed of it. -/
theorem newton_exit (powf : K → K → K) (p : AnyPoly K) (x0 tol : K) (itermax : Nat)
    (mode : SolveMode) (x : K) (h : (newton powf p x0 tol itermax mode).out = .ok x) :
    ∃ q dq xo gv d, target p mode = .ok q ∧ q.derivUni = .ok dq ∧
      q.evalUni powf xo = .ok gv ∧ dq.evalUni powf xo = .ok d ∧ d ≠ 0 ∧ x = xo - gv / d ∧
      ((x ≠ 0 ∧ |x - xo| * 100 < tol * |x|) ∨ (x = 0 ∧ x - xo = 0 ∧ 0 < tol)) := by
  cases hq : target p mode with
  | error e => unfold newton at h; rw [hq] at h; cases h
  | ok q =>
    cases hdq : q.derivUni with
    | error e => unfold newton at h; rw [hq] at h; simp only [hdq] at h; cases h
    | ok dq =>
      rw [newton_eq_core powf hq hdq] at h
      obtain ⟨xo, gv, d, h1, h2, h3, h4, h5⟩ := newton_exit_ev _ _ x0 tol itermax x h
      exact ⟨q, dq, xo, gv, d, rfl, hdq, h1, h2, h3, h4, h5⟩

/-- **Exit condition for dense polynomials, through Mathlib's `Polynomial`.** -/
theorem newton_exit_simple (powf : K → K → K) (cs : List K) (v : Option Char) (x0 tol : K)
    (itermax : Nat) (mode : SolveMode) (x : K)
    (h : (newton powf (.simple ⟨cs, v⟩) x0 tol itermax mode).out = .ok x) :
    ∃ xo, (derivative (targetPoly cs mode)).eval xo ≠ 0 ∧
      x = xo - (targetPoly cs mode).eval xo / (derivative (targetPoly cs mode)).eval xo ∧
      ((x ≠ 0 ∧ |x - xo| * 100 < tol * |x|) ∨ (x = 0 ∧ x - xo = 0 ∧ 0 < tol)) := by
  rw [newton_simple] at h
  obtain ⟨xo, gv, d, h1, h2, h3, h4, h5⟩ := newton_exit_ev _ _ x0 tol itermax x h
  simp only [evOf, Except.ok.injEq] at h1 h2
  subst h1 h2
  exact ⟨xo, h3, h4, h5⟩

/-- non-vacuity: `x² − 4` from `5/2` with a 10 % tolerance returns after two passes -/
example : (newtonCore (evOf fun x : ℚ => x ^ 2 - 4) (evOf fun x : ℚ => 2 * x) (5 / 2) 10 5).out
    = .ok (3281 / 1640) := by
  norm_num [newtonCore, newtonLoop, newtonStep, evOf, converged, sabs]

/-- **The NaN-poisoning rule of the model, made explicit**: a vanishing derivative at the current
iterate ends in `MaxIterationsReached` after all `max itermax 1` passes (in `f64`: `g/0` is `±inf`
or NaN, and no later stopping test can be true). -/
theorem newton_zero_derivative (g g' : K → K) (x0 tol : K) (itermax : Nat) (h0 : g' x0 = 0) :
    (newtonCore (evOf g) (evOf g') x0 tol itermax).out = .err .maxIterationsReached ∧
    (newtonCore (evOf g) (evOf g') x0 tol itermax).passes = max itermax 1 := by
  unfold newtonCore
  cases hi : itermax - 1 with
  | zero =>
    unfold newtonLoop
    rw [newtonStep_evOf, if_pos h0]
    exact ⟨rfl, by simp only; omega⟩
  | succ n =>
    unfold newtonLoop
    rw [newtonStep_evOf, if_pos h0]
    exact ⟨rfl, by simp only; omega⟩

/-! ## totality -/

theorem newton_total_ev (ev dv : K → Except PErr K) (x0 tol : K) (itermax : Nat) :
    (newtonCore ev dv x0 tol itermax).out ≠ .panic ∧
    (newtonCore ev dv x0 tol itermax).passes ≤ max itermax 1 := by
  unfold newtonCore
  refine ⟨newtonLoop_no_panic _ _ _ _ _ _, ?_⟩
  have := (newtonLoop_passes ev dv tol (itermax - 1) 0 x0).2
  omega

/-- Every call returns a value or an error value — never the `panic` outcome — after at most
`max itermax 1` loop passes (the loop body runs once even for `itermax = 0`). -/
theorem newton_total (powf : K → K → K) (p : AnyPoly K) (x0 tol : K) (itermax : Nat)
    (mode : SolveMode) :
    (newton powf p x0 tol itermax mode).out ≠ .panic ∧
    ((∃ x, (newton powf p x0 tol itermax mode).out = .ok x) ∨
      ∃ e, (newton powf p x0 tol itermax mode).out = .err e) ∧
    (newton powf p x0 tol itermax mode).passes ≤ max itermax 1 := by
  have key : (newton powf p x0 tol itermax mode).out ≠ .panic ∧
      (newton powf p x0 tol itermax mode).passes ≤ max itermax 1 := by
    cases hq : target p mode with
    | error e => unfold newton; rw [hq]; exact ⟨by simp, by simp⟩
    | ok q =>
      cases hdq : q.derivUni with
      | error e => unfold newton; rw [hq]; simp only [hdq]; exact ⟨by simp, by simp⟩
      | ok dq => rw [newton_eq_core powf hq hdq]; exact newton_total_ev _ _ x0 tol itermax
  refine ⟨key.1, ?_, key.2⟩
  cases h : (newton powf p x0 tol itermax mode).out with
  | ok x => exact Or.inl ⟨x, rfl⟩
  | err e => exact Or.inr ⟨e, rfl⟩
  | panic => exact absurd h key.1

/-! ## the residual of a returned value (ℝ) -/

/-- **Second-order residual bound.**  For a real polynomial `P` (the target function) a returned `x`
satisfies `|P(x)| ≤ (M/2)·(tol/100·|x|)²` for every bound `M` on `|P''|` between the previous iterate
and `x` — the last step really was below the requested relative tolerance, and Taylor's formula with
the Lagrange-size remainder turns that into a residual. -/
theorem newton_residual (P : ℝ[X]) (x0 tol : ℝ) (itermax : Nat) (x : ℝ)
    (h : (newtonCore (evOf fun t => P.eval t) (evOf fun t => (derivative P).eval t) x0 tol itermax).out
      = .ok x) :
    ∃ xo, (derivative P).eval xo ≠ 0 ∧ x = xo - P.eval xo / (derivative P).eval xo ∧
      ∀ M, (∀ t ∈ Set.uIcc xo x, |(derivative (derivative P)).eval t| ≤ M) →
        |P.eval x| ≤ M / 2 * (tol / 100 * |x|) ^ 2 := by
  obtain ⟨xo, gv, d, h1, h2, h3, h4, h5⟩ := newton_exit_ev _ _ x0 tol itermax x h
  simp only [evOf, Except.ok.injEq] at h1 h2
  subst h1 h2
  refine ⟨xo, h3, h4, ?_⟩
  intro M hM
  have hM0 : 0 ≤ M := le_trans (abs_nonneg _) (hM xo Set.left_mem_uIcc)
  have ht := taylor2 P xo x M hM
  -- the Newton step makes the first-order part vanish
  have hlin : P.eval xo + (derivative P).eval xo * (x - xo) = 0 := by
    rw [h4]; field_simp; ring
  have hres : |P.eval x| ≤ M / 2 * (x - xo) ^ 2 := by
    have e : P.eval x - P.eval xo - (derivative P).eval xo * (x - xo) = P.eval x := by linarith
    rwa [e] at ht
  have hstep : (x - xo) ^ 2 ≤ (tol / 100 * |x|) ^ 2 := by
    rw [← sq_abs (x - xo)]
    rcases h5 with ⟨_, hlt⟩ | ⟨_, hz, _⟩
    · apply pow_le_pow_left₀ (abs_nonneg _)
      linarith
    · rw [hz, abs_zero]
      have e0 : (0 : ℝ) ^ 2 = 0 := by norm_num
      rw [e0]; positivity
  calc |P.eval x| ≤ M / 2 * (x - xo) ^ 2 := hres
    _ ≤ M / 2 * (tol / 100 * |x|) ^ 2 := mul_le_mul_of_nonneg_left hstep (by linarith)

/-- the same for a dense polynomial given by its coefficient list, in either mode -/
theorem newton_residual_simple (powf : ℝ → ℝ → ℝ) (cs : List ℝ) (v : Option Char) (x0 tol : ℝ)
    (itermax : Nat) (mode : SolveMode) (x : ℝ)
    (h : (newton powf (.simple ⟨cs, v⟩) x0 tol itermax mode).out = .ok x) :
    ∃ xo, x = xo - (targetPoly cs mode).eval xo / (derivative (targetPoly cs mode)).eval xo ∧
      ∀ M, (∀ t ∈ Set.uIcc xo x, |(derivative (derivative (targetPoly cs mode))).eval t| ≤ M) →
        |(targetPoly cs mode).eval x| ≤ M / 2 * (tol / 100 * |x|) ^ 2 := by
  rw [newton_simple] at h
  obtain ⟨xo, _, h2, h3⟩ := newton_residual _ x0 tol itermax x h
  exact ⟨xo, h2, h3⟩

/-! ## the monotone case: all roots real, start to the right of the largest root -/

/-- **One step.**  For `g = c·Π(X − rᵢ)` (`c ≠ 0`, `n` roots, `m` the largest) and `x > m`: `g'(x) ≠ 0`,
the Newton update stays `≥ m` and moves left by at least `(x − m)/n`
(because `g/g' = 1/Σ 1/(x − rᵢ)`). -/
theorem newton_monotone_step (c : K) (hc : c ≠ 0) (rs : List K) (m x : K) (hm : m < x)
    (h : ∀ r ∈ rs, r ≤ m) (hmem : m ∈ rs) :
    (derivative (C c * rootsProd rs)).eval x ≠ 0 ∧
    m ≤ x - (C c * rootsProd rs).eval x / (derivative (C c * rootsProd rs)).eval x ∧
    x - (C c * rootsProd rs).eval x / (derivative (C c * rootsProd rs)).eval x
      ≤ x - (x - m) / rs.length :=
  newton_step_right c hc rs m x hm h hmem

/-- **Exit bound.**  Started at or to the right of the largest root `m`, whatever value the solver
returns lies in `[m, x0]` and within `(n − 1)·tol/100·|x|` of `m` — wherever `m` lies on the real
line, including `m = 0`, and for roots of any multiplicity. -/
theorem newton_monotone (c : K) (hc : c ≠ 0) (rs : List K) (m x0 tol : K) (itermax : Nat) (x : K)
    (h : ∀ r ∈ rs, r ≤ m) (hmem : m ∈ rs) (hx0 : m ≤ x0)
    (hout : (newtonCore (evOf fun t => (C c * rootsProd rs).eval t)
      (evOf fun t => (derivative (C c * rootsProd rs)).eval t) x0 tol itermax).out = .ok x) :
    m ≤ x ∧ x ≤ x0 ∧ x - m ≤ ((rs.length : K) - 1) * (tol / 100) * |x| :=
  newtonLoop_monotone c hc rs m tol h hmem _ _ x0 x hx0 hout

/-- **A value is returned** (positive, simple largest root `m`): the distance to `m` shrinks at least
by `q = 1 − 1/n` per pass, so with `(x0 − m)·100·q^(itermax−2) < tol·m` the relative stopping test
fires before the cap.  Over `ℝ` such an `itermax` always exists when `tol > 0` (for `n ≥ 2`, `q < 1`).

*Partial*: `m = 0` is excluded — in exact arithmetic the relative step towards a root at 0 never
drops below `100/(n−1)` %, so the exact model ends in `MaxIterationsReached`; the `f64` code reaches
`x = 0` through underflow and then stops with a vanishing step.  That case is covered by the
correspondence run and by the oracle (real-rooted polynomials incl. a root at 0, both sides, budget
≥ 2000); a largest root of either sign `≠ 0` and starts to the left of the smallest root are
`newton_monotone_returns` and `newton_monotone_returns_left` below. -/
theorem newton_monotone_returns_partial (c : K) (hc : c ≠ 0) (rs : List K) (m x0 tol : K)
    (itermax : Nat) (hmpos : 0 < m) (h : ∀ r ∈ rs, r ≤ m) (hmem : m ∈ rs)
    (hsimple : (derivative (C c * rootsProd rs)).eval m ≠ 0) (hx0 : m ≤ x0) (hiter : 2 ≤ itermax)
    (hbudget : (x0 - m) * 100 * (1 - 1 / (rs.length : K)) ^ (itermax - 2) < tol * m) :
    ∃ x, (newtonCore (evOf fun t => (C c * rootsProd rs).eval t)
      (evOf fun t => (derivative (C c * rootsProd rs)).eval t) x0 tol itermax).out = .ok x := by
  unfold newtonCore
  obtain ⟨n, rfl⟩ : ∃ n, itermax = n + 2 := ⟨itermax - 2, by omega⟩
  have e : n + 2 - 1 = n + 1 := by omega
  rw [e]
  exact newtonLoop_returns c hc rs m tol hmpos h hmem hsimple n 0 x0 hx0 (by simpa using hbudget)

/-- **Exit bound, other side.**  Started at or to the left of the smallest root `m`, whatever value
the solver returns lies in `[x0, m]` and within `(n − 1)·tol/100·|x|` of `m` (mirror image of
`newton_monotone` under `x ↦ −x`, proved through `newtonLoop_neg`). -/
theorem newton_monotone_left (c : K) (hc : c ≠ 0) (rs : List K) (m x0 tol : K) (itermax : Nat) (x : K)
    (h : ∀ r ∈ rs, m ≤ r) (hmem : m ∈ rs) (hx0 : x0 ≤ m)
    (hout : (newtonCore (evOf fun t => (C c * rootsProd rs).eval t)
      (evOf fun t => (derivative (C c * rootsProd rs)).eval t) x0 tol itermax).out = .ok x) :
    x0 ≤ x ∧ x ≤ m ∧ m - x ≤ ((rs.length : K) - 1) * (tol / 100) * |x| :=
  newtonLoop_monotone_left c hc rs m tol h hmem _ _ x0 x hx0 hout

/-- **A value is returned, simple extreme root `m ≠ 0` of either sign, start on the right.**  With
`q = 1 − 1/n` and `e = (x0 − m)·q^(itermax−2)`: if `e·100 < tol·|m|/2` and `2e ≤ |m|`, the relative
stopping test fires before the cap (once the distance to `m` is below `|m|/2` every iterate has
`|x| ≥ |m|/2`).  Over `ℝ` such an `itermax` always exists when `tol > 0` and `n ≥ 2`. -/
theorem newton_monotone_returns (c : K) (hc : c ≠ 0) (rs : List K) (m x0 tol : K)
    (itermax : Nat) (hm0 : m ≠ 0) (h : ∀ r ∈ rs, r ≤ m) (hmem : m ∈ rs)
    (hsimple : (derivative (C c * rootsProd rs)).eval m ≠ 0) (hx0 : m ≤ x0) (hiter : 2 ≤ itermax)
    (hb : (x0 - m) * (1 - 1 / (rs.length : K)) ^ (itermax - 2) * 100 < tol * (|m| / 2))
    (hn : (x0 - m) * (1 - 1 / (rs.length : K)) ^ (itermax - 2) * 2 ≤ |m|) :
    ∃ x, (newtonCore (evOf fun t => (C c * rootsProd rs).eval t)
      (evOf fun t => (derivative (C c * rootsProd rs)).eval t) x0 tol itermax).out = .ok x := by
  unfold newtonCore
  obtain ⟨n, rfl⟩ : ∃ n, itermax = n + 2 := ⟨itermax - 2, by omega⟩
  have e : n + 2 - 1 = n + 1 := by omega
  rw [e]
  exact newtonLoop_returns_ne c hc rs m tol hm0 h hmem hsimple n 0 x0 hx0 (by simpa using hb)
    (by simpa using hn)

/-- … and started on the left of the smallest root. -/
theorem newton_monotone_returns_left (c : K) (hc : c ≠ 0) (rs : List K) (m x0 tol : K)
    (itermax : Nat) (hm0 : m ≠ 0) (h : ∀ r ∈ rs, m ≤ r) (hmem : m ∈ rs)
    (hsimple : (derivative (C c * rootsProd rs)).eval m ≠ 0) (hx0 : x0 ≤ m) (hiter : 2 ≤ itermax)
    (hb : (m - x0) * (1 - 1 / (rs.length : K)) ^ (itermax - 2) * 100 < tol * (|m| / 2))
    (hn : (m - x0) * (1 - 1 / (rs.length : K)) ^ (itermax - 2) * 2 ≤ |m|) :
    ∃ x, (newtonCore (evOf fun t => (C c * rootsProd rs).eval t)
      (evOf fun t => (derivative (C c * rootsProd rs)).eval t) x0 tol itermax).out = .ok x := by
  unfold newtonCore
  obtain ⟨n, rfl⟩ : ∃ n, itermax = n + 2 := ⟨itermax - 2, by omega⟩
  have e : n + 2 - 1 = n + 1 := by omega
  rw [e]
  exact newtonLoop_returns_left c hc rs m tol hm0 h hmem hsimple n 0 x0 hx0 (by simpa using hb)
    (by simpa using hn)

/-- non-vacuity of the monotone theorems: `(X − 1)(X − 3)` from `x0 = 4` -/
example : ∃ x, (newtonCore (evOf fun t => (C (1 : ℚ) * rootsProd [1, 3]).eval t)
    (evOf fun t => (derivative (C (1 : ℚ) * rootsProd [1, 3])).eval t) 4 (1 / 10) 40).out = .ok x := by
  apply newton_monotone_returns_partial 1 one_ne_zero [1, 3] 3 4 (1 / 10) 40 (by norm_num)
  · intro r hr; simp at hr; rcases hr with rfl | rfl <;> norm_num
  · simp
  · simp [rootsProd]
    norm_num
  · norm_num
  · norm_num
  · norm_num

/-- … and from the left of the smallest root, which is negative: `(X + 3)(X − 1)` from `x0 = −5` -/
example : ∃ x, (newtonCore (evOf fun t => (C (1 : ℚ) * rootsProd [-3, 1]).eval t)
    (evOf fun t => (derivative (C (1 : ℚ) * rootsProd [-3, 1])).eval t) (-5) (1 / 10) 40).out = .ok x := by
  apply newton_monotone_returns_left 1 one_ne_zero [-3, 1] (-3) (-5) (1 / 10) 40 (by norm_num)
  · intro r hr; simp at hr; rcases hr with rfl | rfl <;> norm_num
  · simp
  · simp [rootsProd]
    norm_num
  · norm_num
  · norm_num
  · norm_num
  · norm_num

/-- **The convergence half at full strength** (every real-rooted polynomial with separated roots,
start on either side, the extreme root anywhere *including 0*): kept as a definition, because it is
false for the exact model when the extreme root is 0 (see `newton_monotone_returns_partial`) and
true of the `f64` code only through underflow.  Proved: the returned value is the right root within
`(n−1)·tol %` for any root position and multiplicity, both sides (`newton_monotone`,
`newton_monotone_left`); a value is returned for every simple extreme root `m ≠ 0`, both sides
(`newton_monotone_returns`, `newton_monotone_returns_left`; sharper budget for `m > 0` in
`newton_monotone_returns_partial`).  Missing: termination for `m = 0` — needs a model of `f64`
underflow; covered by the correspondence run and the oracle. -/
def newton_monotone_full : Prop :=
  ∀ (c : ℝ) (rs : List ℝ) (m x0 tol : ℝ), c ≠ 0 → rs.Nodup → m ∈ rs →
    ((∀ r ∈ rs, r ≤ m) ∧ m < x0 ∨ (∀ r ∈ rs, m ≤ r) ∧ x0 < m) → 0 < tol →
    ∃ N : Nat, ∀ itermax ≥ N, ∃ x,
      (newtonCore (evOf fun t => (C c * rootsProd rs).eval t)
        (evOf fun t => (derivative (C c * rootsProd rs)).eval t) x0 tol itermax).out = .ok x ∧
      |x - m| ≤ rs.length * (tol / 100) * |x|

end SV.Props.C07
