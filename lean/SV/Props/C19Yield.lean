import SV.Lemmas.C19Yield
/-!
# C19 — the tree is the conventional reading of exactly the given tokens

`PR e ts k` (`SV.Lemmas.C19Yield`) is the conventional precedence grammar as an inductive relation: the
tree `e` reads the token list `ts` and holds together at (doubled) level `k`.

* `parse_reading`: the tree `parseTokens` returns is a precedence reading of the whole
  implied-multiplied token list: binary nodes have a left operand at least as tight and a right operand
  strictly tighter than their operator (so `*` `/` bind tighter than `+` `-`, `^` tighter still, equal
  powers associate to the left — with `SV.Props.C19.precedence_order`), unary minus takes an operand
  tighter than `*` `/`, a function takes exactly its parenthesised argument, `!` a primary.
* `parse_yield`: read in order, the tree lists exactly the given tokens, parentheses dropped and `·`
  written `*`.
* The literal statement of the design notes — "the tree read in order *with parentheses where flagged* is
  the token string" — does not hold and is not what is proved: `(x)` and `x`, `((x+y))` and `(x+y)` give
  the same tree (`redundant_parens_same_tree`); the tree records a parenthesis only as the flag of a
  binary node.  `PR.paren` is the exact account: a parenthesised reading sets the flag of the tree it
  encloses.
* `unary_minus_operand`, `right_operand_tighter`, `left_operand_at_least`: the precedence facts read off a
  reading, for use without looking at `PR`.
-/
namespace SV.Props.C19Yield
open SV SV.C19

variable {N : Type}

/-- **The parsed tree is a conventional precedence reading of exactly the tokens given** (after the
implied-multiplication pass). -/
theorem parse_reading (ts : List (Tok N)) (e : Expr N) (h : parseTokens ts = .ok e) :
    ∃ k, PR e (impliedMul ts) k := by
  have hR := (parseTokens_iff_R ts e).mp h
  obtain ⟨p, k, h1, h2, -⟩ := R_pr hR
  rw [List.append_nil] at h1
  exact ⟨k, h1 ▸ h2⟩

/-- Read in order, the tree is the token list without its parentheses. -/
theorem parse_yield (ts : List (Tok N)) (e : Expr N) (h : parseTokens ts = .ok e) :
    flat e = stripParens (impliedMul ts) := by
  obtain ⟨k, hk⟩ := parse_reading ts e h
  exact hk.flat_eq

/-- parentheses around an atom, and doubled parentheses, leave no trace in the tree -/
theorem redundant_parens_same_tree :
    parseTokens [Tok.lp, .var "x", .rp] = parseTokens [Tok.var "x" (N := Nat)] ∧
    parseTokens [Tok.lp, .lp, .var "x", .op .add, .var "y", .rp, .rp] =
      parseTokens [Tok.lp, .var "x", .op .add, .var "y" (N := Nat), .rp] := by
  constructor <;> rfl

/-- In a reading, the operand of a unary minus is never an unparenthesised `+ - * /` node:
the minus applies to the following factor only. -/
theorem unary_minus_operand {o : Op} {l r : Expr N} {ts : List (Tok N)} {k : Nat}
    (h : PR (.pre .sub (.bin o l r false)) ts k) : o ≠ .add ∧ o ≠ .sub ∧ o ≠ .div ∧
      ∃ o0, o = (if o0 = .cdot then .mul else o0) ∧ SV.Gen.unaryMinPow ≤ bp o0 := by
  generalize he : Expr.pre Op.sub (.bin o l r false) = e at h
  induction h with
  | num | var | const | func | post | bin => cases he
  | paren h ih => exact ih (setParen_eq_pre he.symm).symm
  | neg M hv hM hk _ =>
    simp only [Expr.pre.injEq, true_and] at he
    obtain ⟨o0, ho0, ho, hlev⟩ := hv.unflagged_level he.symm
    have hb : SV.Gen.unaryMinPow ≤ bp o0 := by
      have := bp_le_five o0
      rcases hk with hk | hk
      · rw [hlev] at hk; unfold top at hk; omega
      · omega
    refine ⟨?_, ?_, ?_, o0, ho, hb⟩ <;>
    · rintro rfl
      cases o0 <;> first | (revert hb; decide) | (revert ho; decide)

/-- In a reading, an unparenthesised binary right operand binds strictly tighter than its parent
(so operators of equal power associate to the left). -/
theorem right_operand_tighter {o o' : Op} {a l r : Expr N} {ts : List (Tok N)} {k : Nat}
    (h : PR (.bin o a (.bin o' l r false) false) ts k) :
    ∃ p p', o = (if p = .cdot then .mul else p) ∧ o' = (if p' = .cdot then .mul else p') ∧ bp p < bp p' := by
  generalize he : Expr.bin o a (.bin o' l r false) false = e at h
  cases h with
  | num | var | const | func | post | neg => cases he
  | paren h => exact absurd he.symm (setParen_ne_unflagged _ _ _ _)
  | bin p hl hr hp hkl hkr =>
    simp only [Expr.bin.injEq, and_true] at he
    obtain ⟨p', -, ho', hlev⟩ := hr.unflagged_level he.2.2.symm
    exact ⟨p, p', he.1, ho', by omega⟩

/-- …and an unparenthesised binary left operand at least as tightly. -/
theorem left_operand_at_least {o o' : Op} {b l r : Expr N} {ts : List (Tok N)} {k : Nat}
    (h : PR (.bin o (.bin o' l r false) b false) ts k) :
    ∃ p p', o = (if p = .cdot then .mul else p) ∧ o' = (if p' = .cdot then .mul else p') ∧ bp p ≤ bp p' := by
  generalize he : Expr.bin o (.bin o' l r false) b false = e at h
  cases h with
  | num | var | const | func | post | neg => cases he
  | paren h => exact absurd he.symm (setParen_ne_unflagged _ _ _ _)
  | bin p hl hr hp hkl hkr =>
    simp only [Expr.bin.injEq, and_true] at he
    obtain ⟨p', -, ho', hlev⟩ := hl.unflagged_level he.2.1.symm
    exact ⟨p, p', he.1, ho', by omega⟩

/-! non-vacuity: `x / -y * z` is `(x / (-y)) * z`, `-x^2` is `-(x^2)`, `sin(x)^2` is `(sin x)^2` -/

example : parseTokens [Tok.var "x" (N := Nat), .op .div, .op .sub, .var "y", .op .mul, .var "z"] =
    .ok (.bin .mul (.bin .div (.var "x") (.pre .sub (.var "y")) false) (.var "z") false) := by rfl
example : parseTokens [Tok.op .sub (N := Nat), .var "x", .op .caret, .num 2] =
    .ok (.pre .sub (.bin .caret (.var "x") (.num 2) false)) := by rfl
example : parseTokens [Tok.func .sin (N := Nat), .lp, .var "x", .rp, .op .caret, .num 2] =
    .ok (.bin .caret (.func .sin (.var "x")) (.num 2) false) := by rfl

end SV.Props.C19Yield
