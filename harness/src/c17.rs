//! C17 — printed polynomials read back as the same polynomial, at every precision.
//!
//!   ds <prec|-> <var|-> <n> { <coef bits> <text> }*          Display for SimplePolynomial
//!   di <prec|-> <nterms> { <coef bits> <text> <nvars> { <name> <exp bits> <text> }* }*   Display for IntermediatePolynomial
//!   dt <coef bits> <text> <nvars> { <name> <exp bits> <text> }*   Display for Term
//!   dm <n> { <coef bits> <text> }*                           LinearModel::to_polynomial_string
//!
//! Any request may end with ` | fmt <flags> [<prec|->]` (ignored by the Lean driver): the harness then formats with
//! additional formatter flags (`{:+}`, `{:10}`, `{:<8}`, `{:>30}`, `{:*^12}`, `{:+012}`, `{:#}`; for `dt` also a
//! precision).  The printers of the repository ignore everything but the precision (Term ignores the precision too),
//! so the model's answer is the answer without flags; the property's oracle only judges what the statement speaks
//! of (flags 0 = precision only).
//!
//! `<text>` is what Rust's formatter printed for that single number (`{}` / `{:.p}` of the magnitude for the
//! polynomial printers, of the signed value for Term and the model string) — the Lean model takes the
//! spelling of numbers as given and must reproduce the sign / spacing / elision / trimming rules.
//! Observation: `<printed text> # <the real parser's answer on the printed text>`; the Python oracle compares
//! the parse-back with the original exactly (default) or within half a unit of the last decimal.
use crate::util::*;
use spindalis::regressors::linear::LinearModel;
use spindalis_core::polynomials::structs::{IntermediatePolynomial, PolynomialTraits, SimplePolynomial};
use spindalis_core::polynomials::Term;

fn fmt_num(x: f64, prec: Option<usize>) -> String {
    match prec {
        Some(p) => format!("{:.*}", p, x),
        None => format!("{}", x),
    }
}

fn prec_tok(p: Option<usize>) -> String {
    match p {
        Some(p) => format!("{p}"),
        None => "-".into(),
    }
}

fn read_prec(t: &mut Toks) -> Option<usize> {
    t.tok().parse::<usize>().ok()
}

/// `format!` with the formatter flags of menu entry `flags` and an optional precision
fn display_flagged<T: std::fmt::Display>(p: &T, prec: Option<usize>, flags: u32) -> String {
    match (flags, prec) {
        (1, None) => format!("{:+}", p),
        (1, Some(k)) => format!("{:+.*}", k, p),
        (2, None) => format!("{:10}", p),
        (2, Some(k)) => format!("{:10.*}", k, p),
        (3, None) => format!("{:<8}", p),
        (3, Some(k)) => format!("{:<8.*}", k, p),
        (4, None) => format!("{:>30}", p),
        (4, Some(k)) => format!("{:>30.*}", k, p),
        (5, None) => format!("{:*^12}", p),
        (5, Some(k)) => format!("{:*^12.*}", k, p),
        (6, None) => format!("{:+012}", p),
        (6, Some(k)) => format!("{:+012.*}", k, p),
        (7, None) => format!("{:#}", p),
        (7, Some(k)) => format!("{:#.*}", k, p),
        (8, None) => p.to_string(),
        (_, None) => format!("{}", p),
        (_, Some(k)) => format!("{:.*}", k, p),
    }
}

fn display_simple(p: &SimplePolynomial, prec: Option<usize>, flags: u32) -> String {
    display_flagged(p, prec, flags)
}
fn display_inter(p: &IntermediatePolynomial, prec: Option<usize>, flags: u32) -> String {
    display_flagged(p, prec, flags)
}

/// the ` | fmt <flags> [<prec|->]` suffix
fn read_suffix(line: &str) -> (&str, u32, Option<usize>) {
    match line.split_once(" | ") {
        Some((head, tail)) => {
            let mut t = tail.split_ascii_whitespace();
            assert_eq!(t.next(), Some("fmt"));
            let flags = t.next().and_then(|x| x.parse::<u32>().ok()).unwrap_or(0);
            let prec = t.next().and_then(|x| x.parse::<usize>().ok());
            (head, flags, prec)
        }
        None => (line, 0, None),
    }
}

pub fn run(line: &str) -> Obs {
    let (line, flags, term_prec) = read_suffix(line);
    let mut t = Toks::new(line);
    match t.tok() {
        "ds" => {
            let prec = read_prec(&mut t);
            let v = t.tok();
            let variable = v.parse::<u32>().ok().and_then(char::from_u32);
            let n = t.usize();
            let mut coefficients = Vec::new();
            for _ in 0..n {
                coefficients.push(t.f64());
                let _ = t.string();
            }
            let p = SimplePolynomial { coefficients, variable };
            match catch(|| {
                let text = display_simple(&p, prec, flags);
                let back = SimplePolynomial::parse(&text);
                format!("{} # {}", req_string(&text), crate::c01::show_parsed(&back))
            }) {
                Some(s) => Obs::plain(s),
                None => Obs::with("panic".into(), Err("printing or parsing back panicked".into())),
            }
        }
        "di" => {
            let prec = read_prec(&mut t);
            let p = read_inter_items(&mut t);
            match catch(|| {
                let text = display_inter(&p, prec, flags);
                let back = IntermediatePolynomial::parse(&text);
                format!("{} # {}", req_string(&text), crate::c02::show_parsed(&back))
            }) {
                Some(s) => Obs::plain(s),
                None => Obs::with("panic".into(), Err("printing or parsing back panicked".into())),
            }
        }
        "dt" => {
            let coefficient = t.f64();
            let _ = t.string();
            let nv = t.usize();
            let mut variables = Vec::new();
            for _ in 0..nv {
                let name = t.string();
                let e = t.f64();
                let _ = t.string();
                variables.push((name, e));
            }
            let term = Term { coefficient, variables };
            match catch(|| {
                let text = display_flagged(&term, term_prec, flags);
                let back = IntermediatePolynomial::parse(&text);
                format!("{} # {}", req_string(&text), crate::c02::show_parsed(&back))
            }) {
                Some(s) => Obs::plain(s),
                None => Obs::with("panic".into(), Err("printing or parsing back panicked".into())),
            }
        }
        "dm" => {
            let n = t.usize();
            let mut coefficients = Vec::new();
            for _ in 0..n {
                coefficients.push(t.f64());
                let _ = t.string();
            }
            let m = LinearModel { coefficients, std_err: 0.0, r2: 1.0 };
            match catch(|| {
                let text = m.to_polynomial_string();
                let back = SimplePolynomial::parse(&text);
                format!("{} # {}", req_string(&text), crate::c01::show_parsed(&back))
            }) {
                Some(s) => Obs::plain(s),
                None => Obs::with("panic".into(), Err("printing or parsing back panicked".into())),
            }
        }
        other => panic!("unknown C17 request {other}"),
    }
}

fn read_inter_items(t: &mut Toks) -> IntermediatePolynomial {
    let n = t.usize();
    let mut terms = Vec::new();
    for _ in 0..n {
        let coefficient = t.f64();
        let _ = t.string();
        let nv = t.usize();
        let mut variables = Vec::new();
        for _ in 0..nv {
            let name = t.string();
            let e = t.f64();
            let _ = t.string();
            variables.push((name, e));
        }
        terms.push(Term { coefficient, variables });
    }
    let mut variables: Vec<String> = terms.iter().flat_map(|t| t.variables.iter().map(|v| v.0.clone())).collect();
    variables.sort();
    variables.dedup();
    IntermediatePolynomial { terms, variables }
}

// ------------------------------------------------------------------------------------ generators

fn gen_coef(rng: &mut Rng) -> f64 {
    let mag = match rng.below(12) {
        0 => 0.0,
        1 => 1.0,
        2 => rng.range(2, 999) as f64,
        3 => rng.dyadic(512, 6).abs(),
        4 => rng.uniform(0.0, 1.0),
        5 => rng.uniform(0.0, 1000.0),
        6 => rng.uniform(1.0, 9.0) * 1e21,
        7 => rng.uniform(1.0, 9.0) * 1e-21,
        8 => (rng.uniform(0.0, 100.0) * 100.0).round() / 100.0,
        9 => *rng.pick(&[10.0, 100.0, 1000.0, 0.5, 0.05, 0.005, 0.0049999, 0.995, 0.9999999, 1.0000001, 9.5, 99.5, 1e15, 123456789.125]),
        10 => {
            if rng.chance(1, 2) {
                f64::from_bits(rng.next() % 0x7fe0_0000_0000_0000).abs().min(1e300)
            } else {
                // next to 1, 0 and the powers of ten, at every distance 10^-1..10^-17 and on both sides (unit
                // elision, zero skipping and digit trimming must use exact tests, not tolerances)
                let base = *rng.pick(&[1.0f64, 1.0, 1.0, 0.0, 10.0, 0.1, 100.0]);
                let d = rng.uniform(0.3, 0.99) * 10f64.powi(-(rng.range(1, 17) as i32));
                (base + if rng.chance(1, 2) { d } else { -d }).abs()
            }
        }
        _ => rng.uniform(0.0, 10.0),
    };
    if rng.chance(2, 5) { -mag } else { mag }
}

fn gen_exp(rng: &mut Rng) -> f64 {
    match rng.below(10) {
        0 => 1.0,
        1 => 0.0,
        2 => -(rng.range(1, 12) as f64),
        3 => 0.5,
        4 => rng.range(1, 7) as f64 / rng.range(2, 9) as f64,
        5 => -(rng.range(1, 7) as f64) / rng.range(2, 9) as f64,
        6 => *rng.pick(&[10.0, 100.0, 20.0, 0.1 + 0.2, 2.5, 0.005, 0.995, -0.004]),
        7 => rng.uniform(-3.0, 3.0),
        _ => rng.range(2, 30) as f64,
    }
}

fn gen_prec(rng: &mut Rng, k: u64) -> Option<usize> {
    let c = k % 19;
    let _ = rng;
    if c == 0 { None } else { Some((c - 1) as usize) }
}

pub fn generate(seed: u64, thorough: bool, emit: &mut dyn FnMut(String)) {
    let mut rng = Rng::new(seed ^ 0xC17);
    let n = if thorough { 60_000 } else { 3000 };
    for i in 0..n as u64 {
        let prec = gen_prec(&mut rng, i);
        // univariate
        let len = rng.below(9) as usize;
        let cs: Vec<f64> = (0..len).map(|_| gen_coef(&mut rng)).collect();
        let var = if rng.chance(1, 8) { None } else { Some(*rng.pick(&['x', 'y', 't', 'z', 'é', 'λ'])) };
        let mut s = format!("ds {} {} {len}", prec_tok(prec), var.map(|c| format!("{}", c as u32)).unwrap_or("-".into()));
        for c in &cs {
            s.push_str(&format!(" {} {}", rbits(*c), req_string(&fmt_num(c.abs(), prec))));
        }
        emit(s);
        // multivariate
        let nt = rng.below(5) as usize;
        let mut s = format!("di {} {nt}", prec_tok(prec));
        let mut first_term = String::new();
        for k in 0..nt {
            let c = gen_coef(&mut rng);
            let mut letters = vec!['a', 'x', 'y', 'z'];
            letters.retain(|_| rng.chance(1, 2));
            let mut ts = format!(" {} {} {}", rbits(c), req_string(&fmt_num(c.abs(), prec)), letters.len());
            let mut tt = format!("{} {} {}", rbits(c), req_string(&fmt_num(c, None)), letters.len());
            for l in &letters {
                let e = gen_exp(&mut rng);
                ts.push_str(&format!(" {} {} {}", req_string(&l.to_string()), rbits(e), req_string(&fmt_num(e, prec))));
                tt.push_str(&format!(" {} {} {}", req_string(&l.to_string()), rbits(e), req_string(&fmt_num(e, None))));
            }
            s.push_str(&ts);
            if k == 0 {
                first_term = tt;
            }
        }
        emit(s);
        if !first_term.is_empty() && i % 3 == 0 {
            emit(format!("dt {first_term}"));
        }
        // fitted model string
        if i % 2 == 0 {
            let len = 1 + rng.below(6) as usize;
            let cs: Vec<f64> = (0..len)
                .map(|_| match rng.below(8) {
                    0 => 1.0,
                    1 => -1.0,
                    2 => 0.0,
                    3 => rng.uniform(-1e-5, 1e-5),
                    6 | 7 => {
                        // next to +-1: between a tenth of a unit and ten units of the fifth decimal
                        let d = rng.uniform(0.1, 9.9) * 1e-6 * if rng.chance(1, 2) { 1.0 } else { 10.0 };
                        let v = 1.0 + if rng.chance(1, 2) { d } else { -d };
                        if rng.chance(1, 2) { v } else { -v }
                    }
                    _ => gen_coef(&mut rng),
                })
                .collect();
            let mut s = format!("dm {len}");
            for c in &cs {
                s.push_str(&format!(" {} {}", rbits(*c), req_string(&format!("{:.5}", c))));
            }
            emit(s);
        }
    }
    generate_hardening(seed, thorough, emit);
}

// ------------------------------------------------------------------------------------ hardening families

type TermSpec = (f64, Vec<(String, f64)>);

fn req_ds(prec: Option<usize>, var: Option<char>, cs: &[f64]) -> String {
    let mut s = format!("ds {} {} {}", prec_tok(prec), var.map(|c| format!("{}", c as u32)).unwrap_or("-".into()), cs.len());
    for c in cs {
        s.push_str(&format!(" {} {}", rbits(*c), req_string(&fmt_num(c.abs(), prec))));
    }
    s
}

fn term_items(t: &TermSpec, prec: Option<usize>, coef_abs: bool) -> String {
    let c = if coef_abs { t.0.abs() } else { t.0 };
    let mut s = format!("{} {} {}", rbits(t.0), req_string(&fmt_num(c, prec)), t.1.len());
    for (name, e) in &t.1 {
        s.push_str(&format!(" {} {} {}", req_string(name), rbits(*e), req_string(&fmt_num(*e, prec))));
    }
    s
}

fn req_di(prec: Option<usize>, terms: &[TermSpec]) -> String {
    let mut s = format!("di {} {}", prec_tok(prec), terms.len());
    for t in terms {
        s.push(' ');
        s.push_str(&term_items(t, prec, true));
    }
    s
}

/// Term ignores every formatter flag, the precision included: the number texts are always the default ones
fn req_dt(t: &TermSpec) -> String {
    format!("dt {}", term_items(t, None, false))
}

fn req_dm(cs: &[f64]) -> String {
    let mut s = format!("dm {}", cs.len());
    for c in cs {
        s.push_str(&format!(" {} {}", rbits(*c), req_string(&format!("{:.5}", c))));
    }
    s
}

/// a value next to `base` at distance ~10^-k, on either side
fn near(rng: &mut Rng, base: f64, k: i32) -> f64 {
    let d = rng.uniform(0.3, 0.99) * 10f64.powi(-k);
    base + if rng.chance(1, 2) { d } else { -d }
}

/// variable letters in byte order (the parser sorts the variables of a term that way)
fn letters_subset(rng: &mut Rng, max: usize) -> Vec<String> {
    let pool = ['A', 'K', 'X', 'Z', 'a', 'b', 'k', 't', 'x', 'y', 'z'];
    let mut out: Vec<String> = Vec::new();
    for l in pool {
        if out.len() < max && rng.chance(1, 3) {
            out.push(l.to_string());
        }
    }
    out
}

fn all_precs() -> Vec<Option<usize>> {
    let mut v = vec![None];
    v.extend((0..=17).map(Some));
    v
}

fn generate_hardening(seed: u64, thorough: bool, emit: &mut dyn FnMut(String)) {
    let mut rng = Rng::new(seed ^ 0xC17_5CA1E);
    let precs = all_precs();
    let rounds = if thorough { 12 } else { 1 };
    // ---- (1) exponents next to 1 and 0 at every distance 10^-1..10^-17 (the elision test must be exact), signed zero
    //      exponents, negative exponents: each with every precision
    for _ in 0..rounds {
        for k in 1..=17 {
            for base in [1.0f64, 0.0, -1.0, 2.0] {
                for prec in &precs {
                    let e = near(&mut rng, base, k);
                    let c = if rng.chance(1, 2) { gen_coef(&mut rng) } else { *rng.pick(&[1.0, -1.0, 2.0, -0.5]) };
                    let mut t: TermSpec = (c, vec![(rng.pick(&["x", "y", "t", "A"]).to_string(), e)]);
                    if rng.chance(1, 3) {
                        let (b2, k2) = (*rng.pick(&[1.0, 0.0]), rng.range(1, 17) as i32);
                        t.1.push(("z".to_string(), near(&mut rng, b2, k2)));
                    }
                    let second: TermSpec = (gen_coef(&mut rng), vec![("x".to_string(), gen_exp(&mut rng))]);
                    emit(req_di(*prec, &[t.clone(), second]));
                    if prec.is_none() {
                        emit(req_dt(&t));
                    }
                }
            }
        }
        // the immediate binary64 neighbours of 1, -1 and 0 (coefficients and exponents), default formatting and {:.17}
        for d in [1i64, -1, 2, -2, 4, -4, 1 << 20, -(1 << 20)] {
            for base in [1.0f64, -1.0] {
                let v = f64::from_bits((base.to_bits() as i64 + d) as u64);
                for prec in [None, Some(17), Some(16), Some(15)] {
                    emit(req_ds(prec, Some('x'), &[v, v, -v]));
                    emit(req_di(prec, &[(v, vec![("x".to_string(), v)]), (-v, vec![("y".to_string(), -v)]), (1.0, vec![("z".to_string(), v.abs())])]));
                }
                emit(req_dt(&(v, vec![("x".to_string(), v.abs())])));
                emit(req_dt(&(1.0, vec![("x".to_string(), v)])));
                emit(req_dm(&[v, v, -v, v]));
            }
            let z = f64::from_bits(d.unsigned_abs()) * if d < 0 { -1.0 } else { 1.0 };
            emit(req_ds(None, Some('x'), &[z, z, 1.0]));
            emit(req_di(None, &[(z, vec![("x".to_string(), z)]), (1.0, vec![("y".to_string(), -z)])]));
            emit(req_dt(&(z, vec![("x".to_string(), z)])));
        }
        // default formatting (the "identical" clause) gets its own share of these
        for k in 1..=17 {
            for base in [1.0f64, 0.0, -1.0, 2.0] {
                for _ in 0..3 {
                    let (c1, b1) = (*rng.pick(&[1.0, -1.0, 2.0, -0.5, 1.0]), *rng.pick(&[1.0, -1.0, 0.0]));
                    let t: TermSpec = (c1, vec![(rng.pick(&["x", "y", "t", "A"]).to_string(), near(&mut rng, base, k))]);
                    let u: TermSpec = (near(&mut rng, b1, k), vec![("x".to_string(), near(&mut rng, base, k)), ("y".to_string(), 1.0)]);
                    emit(req_di(None, &[t.clone(), u.clone()]));
                    emit(req_dt(&t));
                    emit(req_dt(&u));
                }
            }
        }
        let negs = [-1.0, -2.0, -0.5, -0.004, -0.005, -0.995, -9.996, -12.0, -1.0 / 3.0, -2.5, -0.0, -1e-9, -123.456, -0.9999999, -1.0000001];
        for e in negs {
            for prec in &precs {
                for c in [1.0, -1.0, 2.5, -0.0, 0.0] {
                    let t: TermSpec = (c, vec![("x".to_string(), e)]);
                    let u: TermSpec = (-c, vec![("a".to_string(), -e), ("y".to_string(), e)]);
                    emit(req_di(*prec, &[t.clone(), u.clone()]));
                    if prec.is_none() {
                        emit(req_dt(&t));
                        emit(req_dt(&u));
                    }
                }
            }
        }
    }
    // ---- (2) rounding carries: the digit after the requested precision is a 5 / 9 run ("9.996" at {:.2}, "0.9995"
    //      at {:.3}, "99.5" at {:.0}), so the printed text gains an integer digit or becomes exactly 1 / 0 / 10
    let carries = [
        9.996, 0.9995, 99.995, 0.095, 0.95, 0.5, 1.5, 2.5, 0.25, 0.35, 9.5, 99.5, 0.99999999, 19.999, 0.0005, 0.00049, 999.9996, 0.045,
        1.0000001, 0.9999999, 0.96, 0.996, 0.99996, 0.999995, 9.999995, 0.4, 0.6, 0.05, 0.005, 0.0000005, 1.05, 1.005, 10.5, 0.1 + 0.2,
        1e15 + 0.5, 4.35, 8.345, 1.45, 0.15, 0.000999, 999.5, 9999.99995, 0.49999999999999994, 0.99999999999999989, 1.0000000000000002,
    ];
    for (vi, v) in carries.iter().enumerate() {
        for prec in &precs {
            for sign in [1.0, -1.0] {
                let c = sign * v;
                // univariate: the value as constant, linear and higher coefficient
                let var = *rng.pick(&[Some('x'), Some('y'), Some('t'), Some('Q'), Some('λ')]);
                emit(req_ds(*prec, var, &[c, c, -c, 0.0, c]));
                // multivariate: the value as coefficient and as exponent
                let t: TermSpec = (c, vec![("x".to_string(), c)]);
                let u: TermSpec = (1.0, vec![("a".to_string(), *v), ("y".to_string(), -v)]);
                emit(req_di(*prec, &[t.clone(), u, (c, vec![])]));
                if prec.is_none() && sign > 0.0 {
                    emit(req_dt(&t));
                }
            }
        }
        // the fitted-model string has its own five decimals: carries around the fifth decimal
        let w = [0.999995, 9.999995, 0.000005, 0.0000049, 1.000005, 0.999994, 0.0000051, 99.999995, 0.123455, 0.123465, 1.0000049, 0.9999951];
        let a = w[vi % w.len()];
        emit(req_dm(&[a, -a, *v, -v, a]));
        emit(req_dm(&[-a, 1.0, -1.0, a]));
    }
    // ---- (3) long lists: 9..40 coefficients / terms (each length at least once), a few much longer
    let mut lens: Vec<usize> = (9..=40).collect();
    lens.extend([63, 64, 65, 100, 129, 257]);
    for _ in 0..rounds {
        for (li, len) in lens.iter().enumerate() {
            let prec = precs[(li * 7 + rng.below(19) as usize) % precs.len()];
            let cs: Vec<f64> = (0..*len).map(|_| gen_coef(&mut rng)).collect();
            let var = *rng.pick(&[Some('x'), Some('z'), Some('W'), None]);
            emit(req_ds(prec, var, &cs));
            emit(req_ds(None, var, &cs));
            // only the last coefficients non-zero / only the first
            let mut sparse = vec![0.0; *len];
            sparse[*len - 1] = gen_coef(&mut rng);
            sparse[0] = gen_coef(&mut rng);
            emit(req_ds(prec, var, &sparse));
            let terms: Vec<TermSpec> = (0..(*len).min(60))
                .map(|_| {
                    let vars = letters_subset(&mut rng, 4).into_iter().map(|l| (l, gen_exp(&mut rng))).collect();
                    (gen_coef(&mut rng), vars)
                })
                .collect();
            emit(req_di(prec, &terms));
            emit(req_di(None, &terms));
            if *len <= 40 {
                let ms: Vec<f64> = (0..*len).map(|_| if rng.chance(1, 6) { *rng.pick(&[1.0, -1.0, 0.0]) } else { gen_coef(&mut rng) }).collect();
                emit(req_dm(&ms));
            }
        }
    }
    // ---- (4) extreme magnitudes (subnormal, smallest normal, largest finite) with precision None, 0, 1, 17
    let extremes = [f64::from_bits(1), f64::from_bits(0xfffff), f64::MIN_POSITIVE, 1e-308, 1e-300, 1e300, 1e308, f64::MAX, 2f64.powi(-70), 2f64.powi(60), 2f64.powi(1000)];
    for v in extremes {
        for prec in [None, Some(0), Some(1), Some(17)] {
            for sign in [1.0, -1.0] {
                let c = sign * v;
                emit(req_ds(prec, Some('x'), &[c, -c, c]));
                emit(req_di(prec, &[(c, vec![("x".to_string(), 2.0)]), (-c, vec![])]));
                if v.abs() < 1e30 || v == 1e300 {
                    emit(req_di(prec, &[(1.0, vec![("x".to_string(), c)]), (2.0, vec![("y".to_string(), -c)])]));
                }
                emit(req_dm(&[c, -c, c]));
            }
        }
        emit(req_dt(&(v, vec![("x".to_string(), -v.min(1e30))])));
    }
    // ---- (5) precisions beyond 17 (out of the statement's range: compared with the model, and judged with the same
    //      half-unit rule, which the exact decimal expansion satisfies)
    for prec in [18usize, 19, 20, 25, 32, 60, 64, 100, 255, 256, 257, 300] {
        let cs: Vec<f64> = (0..5).map(|_| gen_coef(&mut rng)).collect();
        emit(req_ds(Some(prec), Some('x'), &cs));
        emit(req_ds(Some(prec), Some('x'), &[0.1, 1.0, -1.0, 0.5, 1.0 / 3.0]));
        emit(req_di(Some(prec), &[(1.0 / 3.0, vec![("x".to_string(), 0.1), ("y".to_string(), -2.0)]), (-1.0, vec![("y".to_string(), 1.0)]), (0.7, vec![])]));
    }
    // ---- (6) formatter flags other than the precision (sign, width, fill, alignment, zero padding, alternate) and
    //      Term with a precision: the printers ignore them
    let n = if thorough { 6000 } else { 500 };
    for i in 0..n {
        let flags = 1 + (i % 8) as u32;
        let prec = precs[(i / 8) % precs.len()];
        match i % 3 {
            0 => {
                let len = rng.below(6) as usize;
                let cs: Vec<f64> = (0..len).map(|_| gen_coef(&mut rng)).collect();
                emit(format!("{} | fmt {flags}", req_ds(prec, *rng.pick(&[Some('x'), Some('y'), None]), &cs)));
            }
            1 => {
                let nt = rng.below(4) as usize;
                let terms: Vec<TermSpec> = (0..nt)
                    .map(|_| (gen_coef(&mut rng), letters_subset(&mut rng, 3).into_iter().map(|l| (l, gen_exp(&mut rng))).collect()))
                    .collect();
                emit(format!("{} | fmt {flags}", req_di(prec, &terms)));
            }
            _ => {
                let t: TermSpec = (gen_coef(&mut rng), letters_subset(&mut rng, 3).into_iter().map(|l| (l, gen_exp(&mut rng))).collect());
                emit(format!("{} | fmt {flags} {}", req_dt(&t), prec_tok(prec)));
                // precision alone: the statement's "single term ... for every formatter precision"
                emit(format!("{} | fmt 0 {}", req_dt(&t), prec_tok(prec)));
            }
        }
    }
    for v in carries {
        for prec in &precs {
            let t: TermSpec = (v, vec![("x".to_string(), -v)]);
            emit(format!("{} | fmt 0 {}", req_dt(&t), prec_tok(*prec)));
        }
    }
    generate_duplicates(seed, thorough, emit);
    generate_round6(seed, thorough, emit);
}

// ------------------------------------------------------------------------------------ round-4 family: duplicates
//
// IDENTITY VERSUS EQUALITY.  Nothing in the statement says that the terms of a polynomial are pairwise different, and the
// parser itself produces repeated terms (`x + y + x` is three terms).  A printer that decides "is this the leading
// term?", "which power is this coefficient's?", "did I print this already?" by comparing VALUES instead of POSITIONS
// only fails when a later term / coefficient is equal to the first (or to another one) - which random coefficients never
// are.  Term lists of 2..6 terms with a later term equal to the first, to its neighbour, to another later term, all terms
// equal, `p + p`, a duplicated negative / unit / zero / constant term; coefficient vectors of 2..8 entries over a two- or
// three-letter alphabet (so that the leading, the constant and inner coefficients coincide); every printer, every
// precision None, 0..17 each.  The parse-back oracle compares term by term, position by position.

fn dup_alphabet() -> Vec<TermSpec> {
    let v = |name: &str, e: f64| (name.to_string(), e);
    vec![
        (1.0, vec![v("x", 1.0)]),
        (1.0, vec![v("y", 1.0)]),
        (7.0, vec![v("x", 2.0)]),
        (3.0, vec![]),
        (-2.0, vec![v("x", 1.0)]),
        (-1.0, vec![v("y", 1.0)]),
        (0.5, vec![v("a", -1.0), v("z", 0.5)]),
        (2.5, vec![v("x", 1.0), v("y", 2.0)]),
        (1.0, vec![]),
        (-1.0, vec![]),
        (0.0, vec![v("x", 1.0)]),
        (1.0 / 3.0, vec![v("t", 1.0 / 3.0)]),
        (1.0, vec![v("x", 2.0), v("z", 1.0)]),
        (0.125, vec![v("K", 3.0)]),
        (1e21, vec![v("x", 1.0)]),
        (2.0, vec![v("x", 0.0)]),
    ]
}

fn generate_duplicates(seed: u64, thorough: bool, emit: &mut dyn FnMut(String)) {
    let mut rng = Rng::new(seed ^ 0xC17_0004_D0B1);
    let precs = all_precs();
    let rounds = if thorough { 10 } else { 1 };
    let alphabet = dup_alphabet();
    let random_term = |rng: &mut Rng| -> TermSpec {
        if rng.chance(2, 3) {
            rng.pick(&alphabet).clone()
        } else {
            (gen_coef(rng), letters_subset(rng, 3).into_iter().map(|l| (l, gen_exp(rng))).collect())
        }
    };
    for round in 0..rounds {
        for (pi, prec) in precs.iter().enumerate() {
            for nt in 2..=6usize {
                for rep in 0..3usize {
                    let mut terms: Vec<TermSpec> = (0..nt).map(|_| random_term(&mut rng)).collect();
                    // the first term is one whose repetition is glued without a separator most of the time: a
                    // non-negative coefficient
                    if rep == 0 && terms[0].0 < 0.0 {
                        terms[0].0 = -terms[0].0;
                    }
                    match (pi + nt + rep + round) % 7 {
                        0 => {
                            // a later term equal to the first
                            let k = 1 + rng.below(nt as u64 - 1) as usize;
                            terms[k] = terms[0].clone();
                        }
                        1 => {
                            let k = nt - 1;
                            terms[k] = terms[0].clone();
                        }
                        2 => terms[1] = terms[0].clone(),
                        3 => {
                            let t = terms[0].clone();
                            for u in terms.iter_mut() {
                                *u = t.clone();
                            }
                        }
                        4 => {
                            // two later terms equal to each other (and, when there is room, not to the first)
                            if nt >= 3 {
                                let k = 1 + rng.below(nt as u64 - 2) as usize;
                                terms[k + 1] = terms[k].clone();
                            } else {
                                terms[1] = terms[0].clone();
                            }
                        }
                        5 => {
                            // the first term again, and once with the opposite sign
                            let k = 1 + rng.below(nt as u64 - 1) as usize;
                            terms[k] = terms[0].clone();
                            if nt >= 3 {
                                let j = 1 + (k % (nt - 1));
                                if j != k {
                                    terms[j] = (-terms[0].0, terms[0].1.clone());
                                }
                            }
                        }
                        _ => {
                            // p + p
                            let half: Vec<TermSpec> = terms[..nt.div_ceil(2)].to_vec();
                            terms = half.iter().chain(half.iter()).cloned().collect();
                        }
                    }
                    emit(req_di(*prec, &terms));
                    if prec.is_none() && rep == 0 {
                        emit(req_dt(&terms[0]));
                    }
                }
            }
            // coefficient vectors over a small alphabet: dense printer and fitted-model string
            for len in 2..=8usize {
                let letters: Vec<f64> = match rng.below(4) {
                    0 => vec![1.0, -1.0],
                    1 => vec![*rng.pick(&[3.0, 0.5, 2.25, 1.0, 12.0]), *rng.pick(&[5.0, -3.0, 0.5, -1.0, 0.0])],
                    2 => {
                        let c = gen_coef(&mut rng);
                        vec![c, -c, gen_coef(&mut rng)]
                    }
                    _ => vec![gen_coef(&mut rng), gen_coef(&mut rng)],
                };
                let mut cs: Vec<f64> = (0..len).map(|_| *rng.pick(&letters)).collect();
                match rng.below(4) {
                    0 => cs[0] = cs[len - 1],               // constant = leading
                    1 => cs[len - 2] = cs[len - 1],         // the two highest equal
                    2 => {
                        let c = cs[len - 1];
                        cs.iter_mut().for_each(|x| *x = c); // all equal
                    }
                    _ => {}
                }
                if cs[len - 1] == 0.0 {
                    cs[len - 1] = letters[0];
                }
                let var = *rng.pick(&[Some('x'), Some('y'), Some('t'), None, Some('λ')]);
                emit(req_ds(*prec, var, &cs));
                if pi % 3 == 0 {
                    emit(req_dm(&cs));
                }
            }
        }
    }
    // the literal texts of the lesson, through the parser first: `x + y + x` is three terms
    for text in ["x + y + x", "7x^2 - y + 7x^2", "3 + x + 3", "x + x", "2x^2 + 3y + 3y", "-2x + 3y - 2x", "x + y + x + y + x", "0.5 + 0.5 + 0.5", "xy + z + xy - xy"] {
        if let Ok(p) = IntermediatePolynomial::parse(text) {
            let terms: Vec<TermSpec> = p.terms.iter().map(|t| (t.coefficient, t.variables.clone())).collect();
            for prec in [None, Some(0), Some(2), Some(17)] {
                emit(req_di(prec, &terms));
            }
        }
    }
}

// ------------------------------------------------------------------------------------ round-6 families
//
// O. BLOCK BOUNDARIES: the number of coefficients (ds, dm) and the number of terms (di) at blk-1, blk, blk+1, blk+2 and
//    2*blk+1 for blk = 16, 32, 64, 128, 256, with all-different values (a chunk of the list that is printed twice, dropped,
//    reversed or joined without its separator changes the polynomial that is read back), dense and with exact zeros on
//    both sides of each boundary (elided terms next to a chunk edge).
// P. EXACT RELATIONS: coefficients and exponents that are EXACT decimal ties at the requested precision (odd / 2^k has
//    exactly k decimals, the last one a 5: at precision k - 1 the distance to both neighbours is exactly half a unit, which
//    the statement still allows), and 1 / -1 / 0 missed by one ulp and by 2^-40 relative (the elision rules must be exact).
fn generate_round6(seed: u64, thorough: bool, emit: &mut dyn FnMut(String)) {
    let mut rng = Rng::new(seed ^ 0xC17_0006_B10C);
    let precs = all_precs();
    let mut sizes: Vec<usize> = vec![];
    for b in [16usize, 32, 64, 128, 256] {
        sizes.extend([b - 1, b, b + 1, b + 2, 2 * b + 1]);
    }
    sizes.sort();
    sizes.dedup();
    let edges = [15usize, 16, 17, 31, 32, 33, 63, 64, 65, 127, 128, 129, 255, 256, 257];
    for (li, &len) in sizes.iter().enumerate() {
        if len > 258 && !thorough {
            continue;
        }
        let prec = precs[(li * 5 + rng.below(19) as usize) % precs.len()];
        // all-different coefficients: k + a fraction, alternating signs irregularly
        let cs: Vec<f64> = (0..len).map(|k| (k as f64 + 1.0 + 0.25 * ((k * k) % 3) as f64) * if (k * k + k / 3) % 3 == 0 { -1.0 } else { 1.0 }).collect();
        let var = *rng.pick(&[Some('x'), Some('z'), None]);
        emit(req_ds(prec, var, &cs));
        emit(req_ds(None, var, &cs));
        // exact zeros / units on both sides of every boundary
        let mut holes = cs.clone();
        for (ei, &e) in edges.iter().enumerate() {
            if e < len {
                holes[e] = [0.0, 1.0, -1.0, -0.0][(ei + li) % 4];
            }
        }
        emit(req_ds(prec, var, &holes));
        // only the positions next to the boundaries are non-zero
        let mut sparse = vec![0.0; len];
        for &e in edges.iter() {
            if e < len {
                sparse[e] = cs[e];
            }
        }
        sparse[len - 1] = cs[len - 1];
        emit(req_ds(None, var, &sparse));
        // as many terms: one variable with exponents 0, 1, 2, ... (the univariate polynomial as a term list), then
        // mixed variables
        let uni: Vec<TermSpec> = (0..len).map(|k| (cs[k], if k == 0 { vec![] } else { vec![("x".to_string(), k as f64)] })).collect();
        emit(req_di(None, &uni));
        emit(req_di(prec, &uni));
        let mixed: Vec<TermSpec> = (0..len)
            .map(|k| {
                let vars: Vec<(String, f64)> = letters_subset(&mut rng, 4).into_iter().enumerate().map(|(vi, l)| (l, (1 + (k + vi) % 7) as f64 * if (k + vi) % 5 == 0 { -0.5 } else { 1.0 })).collect();
                (if edges.contains(&k) { [1.0, -1.0, cs[k]][k % 3] } else { cs[k] }, vars)
            })
            .collect();
        emit(req_di(prec, &mixed));
        if len <= 130 || thorough {
            emit(req_dm(&cs));
            emit(req_dm(&holes));
        }
    }
    // ---- exact ties
    for k in 1..=18i32 {
        let unit = 2f64.powi(-k);
        for odd in [1.0, 3.0, 5.0, 7.0, 9.0, 11.0, 13.0, 15.0, 17.0, 19.0] {
            let v = odd * unit;
            for base in [0.0, 1.0, 2.0, 7.0, 99.0] {
                let c = base + v;
                if !thorough && (odd as i32 + k + base as i32) % 3 != 0 {
                    continue;
                }
                for p in [k - 2, k - 1, k] {
                    if !(0..=17).contains(&p) {
                        continue;
                    }
                    let prec = Some(p as usize);
                    emit(req_ds(prec, Some('x'), &[c, -c, 1.0, c]));
                    emit(req_di(prec, &[(c, vec![("x".to_string(), c)]), (-c, vec![("y".to_string(), -c)]), (c, vec![])]));
                }
                if k <= 6 {
                    emit(req_dm(&[c, -c, c]));
                }
            }
        }
    }
    // ---- 1, -1 and 0 missed by one ulp and by 2^-40
    let mut nearly: Vec<f64> = vec![];
    for b in [1.0f64, -1.0] {
        nearly.extend([b, f64::from_bits(b.to_bits() + 1), f64::from_bits(b.to_bits() - 1), b * (1.0 + 2f64.powi(-40)), b * (1.0 - 2f64.powi(-40))]);
    }
    nearly.extend([0.0, -0.0, f64::from_bits(1), -f64::from_bits(1), 2f64.powi(-40), -(2f64.powi(-40))]);
    for &a in &nearly {
        for prec in [None, Some(0), Some(5), Some(12), Some(16), Some(17)] {
            emit(req_ds(prec, Some('x'), &[a, a, -a, a]));
            emit(req_di(prec, &[(a, vec![("x".to_string(), 2.0)]), (2.0, vec![("x".to_string(), a)]), (a, vec![("y".to_string(), a)]), (a, vec![])]));
        }
        emit(req_dt(&(a, vec![("x".to_string(), a)])));
        emit(req_dm(&[a, -a, a]));
    }
}
