import SV.Model.C09
import SV.Lemmas.Mat
import Mathlib.Algebra.Order.Field.Basic
import Mathlib.Algebra.Group.End
import Mathlib.Algebra.BigOperators.Ring.Finset
import Mathlib.Tactic.Ring
import Mathlib.Tactic.FieldSimp
import Mathlib.Tactic.Linarith
import Mathlib.LinearAlgebra.Matrix.Determinant.Basic
import Mathlib.LinearAlgebra.Matrix.Block
import Mathlib.LinearAlgebra.Matrix.NonsingularInverse
import Mathlib.LinearAlgebra.Matrix.Nondegenerate
import Mathlib.Algebra.Ring.Int.Units
/-!
Helper lemmas for C09: the loop combinator, the accumulation loops as `Finset` sums, the loop
invariants of the Doolittle and the partial-pivoting factorisations and their preservation by one
pass of the outer loop.  The property theorems in `SV.Props.C09` are read off the invariants at
`i = n`.
-/
set_option linter.unusedSectionVars false

namespace SV.C09
open SV Finset

/-! ### generic helpers -/

theorem iter_inv {σ : Type} (step : σ → Nat → Option σ) (Inv : Nat → σ → Prop) (n : Nat)
    (hstep : ∀ i s s', i < n → Inv i s → step s i = some s' → Inv (i+1) s') :
    ∀ k i s s', i + k ≤ n → Inv i s → iter step k i s = some s' → Inv (i+k) s' := by
  intro k
  induction k with
  | zero =>
    intro i s s' _ hI h
    simp only [iter, Option.some.injEq] at h
    subst h
    simpa using hI
  | succ k ih =>
    intro i s s' hle hI h
    simp only [iter] at h
    cases hs : step s i with
    | none => simp [hs] at h
    | some s1 =>
      simp only [hs] at h
      have := ih (i+1) s1 s' (by omega) (hstep i s s1 (by omega) hI hs) h
      have e : i + 1 + k = i + (k + 1) := by omega
      rwa [e] at this

variable {K : Type} [Field K] [LinearOrder K] [IsStrictOrderedRing K]

theorem sabs_eq_abs (x : K) : sabs x = |x| := by
  unfold sabs
  split_ifs with h
  · exact (abs_of_neg h).symm
  · exact (abs_of_nonneg (not_lt.mp h)).symm

/-- changing the `i`-th factor pair of a dot product whose old `i`-th term vanishes -/
theorem sum_rank_one {n i : Nat} (hi : i < n) (f g f' g' : Nat → K)
    (hf : ∀ k, k < n → k ≠ i → f' k = f k) (hg : ∀ k, k < n → k ≠ i → g' k = g k)
    (h0 : f i * g i = 0) :
    ∑ k ∈ range n, f' k * g' k = ∑ k ∈ range n, f k * g k + f' i * g' i := by
  have hm : i ∈ range n := mem_range.2 hi
  rw [← Finset.add_sum_erase _ _ hm, ← Finset.add_sum_erase (range n) (fun k => f k * g k) hm, h0,
    zero_add, add_comm]
  congr 1
  apply Finset.sum_congr rfl
  intro k hk
  have hk' := Finset.mem_erase.1 hk
  rw [hf k (mem_range.1 hk'.2) hk'.1, hg k (mem_range.1 hk'.2) hk'.1]

/-- a sum whose terms vanish from `i` on -/
theorem sum_range_tail_zero {n i : Nat} (hin : i ≤ n) (f : Nat → K)
    (h0 : ∀ k, i ≤ k → k < n → f k = 0) :
    ∑ k ∈ range n, f k = ∑ k ∈ range i, f k := by
  symm
  apply Finset.sum_subset (Finset.range_subset_range.2 hin)
  intro k hk hk'
  exact h0 k (by simpa using hk') (mem_range.1 hk)

variable [Inhabited K]

/-! ### `lu` -/

theorem luUpper_get (n : Nat) (A L U : Mat K) (i : Nat) {r c : Nat} (hr : r < n) (hc : c < n) :
    (luUpper n A L U i).get r c =
      if r = i ∧ i ≤ c then A.get i c - ∑ j ∈ range i, L.get i j * U.get j c else U.get r c := by
  unfold luUpper
  rw [Mat.get_tab _ hr hc, sumFrom_zero]

theorem luLower_get (n : Nat) (A L U' : Mat K) (i : Nat) {r c : Nat} (hr : r < n) (hc : c < n) :
    (luLower n A L U' i).get r c =
      if c = i ∧ i ≤ r then
        (if r = i then 1 else (A.get r i - ∑ j ∈ range i, L.get r j * U'.get j i) / U'.get i i)
      else L.get r c := by
  unfold luLower
  rw [Mat.get_tab _ hr hc, sumFrom_zero]

/-- State after `i` passes of `lu_decomposition`: columns `< i` of `lower` and rows `< i` of `upper`
are final, everything else is still zero, and `lower · upper` agrees with the input on the rows
`< i` and on the columns `< i`. -/
structure LuInv (n : Nat) (A : Mat K) (eps : K) (i : Nat) (st : Mat K × Mat K) : Prop where
  dims : (st.1.h = n ∧ st.1.w = n ∧ st.1.WF) ∧ (st.2.h = n ∧ st.2.w = n ∧ st.2.WF)
  Lz : ∀ r c, r < n → c < n → (i ≤ c ∨ r < c) → st.1.get r c = 0
  Ld : ∀ r, r < n → r < i → st.1.get r r = 1
  Uz : ∀ r c, r < n → c < n → (i ≤ r ∨ c < r) → st.2.get r c = 0
  prod : ∀ r c, r < n → c < n → (r < i ∨ c < i) →
    ∑ k ∈ range n, st.1.get r k * st.2.get k c = A.get r c
  piv : ∀ k, k + 1 < n → k < i → eps ≤ |st.2.get k k|

theorem luInv_init (n : Nat) (A : Mat K) (eps : K) :
    LuInv n A eps 0 (Mat.tab n n fun _ _ => (0:K), Mat.tab n n fun _ _ => (0:K)) where
  dims := ⟨⟨rfl, rfl, Mat.tab_WF _ _ _⟩, ⟨rfl, rfl, Mat.tab_WF _ _ _⟩⟩
  Lz := fun r c hr hc _ => Mat.get_tab _ hr hc
  Ld := fun r _ h => by omega
  Uz := fun r c hr hc _ => Mat.get_tab _ hr hc
  prod := fun r c _ _ h => by omega
  piv := fun k _ h => by omega

theorem luStep_inv {n : Nat} {A : Mat K} {eps : K} (heps : 0 < eps) {i : Nat}
    {st st' : Mat K × Mat K} (hi : i < n) (h : LuInv n A eps i st)
    (hs : luStep eps n A st i = some st') : LuInv n A eps (i+1) st' := by
  obtain ⟨L, U⟩ := st
  unfold luStep at hs
  dsimp only at hs
  split_ifs at hs with hg
  simp only [Option.some.injEq] at hs
  subst hs
  set U' := luUpper n A L U i with hU'
  have hL := h.Lz; have hLd := h.Ld; have hUz := h.Uz; have hP := h.prod; have hpiv := h.piv
  simp only at hL hLd hUz hP hpiv
  -- the guard: a pivot that later rows are divided by is at least eps in size
  have hguard : i + 1 < n → eps ≤ |U'.get i i| := by
    intro h1
    rw [not_and] at hg
    have := hg h1
    rw [sabs_eq_abs] at this
    exact not_lt.mp this
  have Uold : ∀ r c, r < n → c < n → r ≠ i → U'.get r c = U.get r c := by
    intro r c hr hc hne
    rw [hU', luUpper_get n A L U i hr hc, if_neg (fun h => hne h.1)]
  have Urow : ∀ c, c < n → i ≤ c →
      U'.get i c = A.get i c - ∑ j ∈ range i, L.get i j * U.get j c := by
    intro c hc hic
    rw [hU', luUpper_get n A L U i hi hc, if_pos ⟨rfl, hic⟩]
  have Urow0 : ∀ c, c < n → c < i → U'.get i c = 0 := by
    intro c hc hci
    rw [hU', luUpper_get n A L U i hi hc, if_neg (by omega)]
    exact hUz i c hi hc (Or.inl (le_refl i))
  set L' := luLower n A L U' i with hL'
  have Lold : ∀ r c, r < n → c < n → c ≠ i → L'.get r c = L.get r c := by
    intro r c hr hc hne
    rw [hL', luLower_get n A L U' i hr hc, if_neg (fun h => hne h.1)]
  have Lcol0 : ∀ r, r < n → r < i → L'.get r i = 0 := by
    intro r hr hri
    rw [hL', luLower_get n A L U' i hr hi, if_neg (by omega)]
    exact hL r i hr hi (Or.inl (le_refl i))
  have Ldiag : L'.get i i = 1 := by
    rw [hL', luLower_get n A L U' i hi hi, if_pos ⟨rfl, le_refl i⟩, if_pos rfl]
  have Lcol : ∀ r, r < n → i < r →
      L'.get r i = (A.get r i - ∑ j ∈ range i, L.get r j * U.get j i) / U'.get i i := by
    intro r hr hir
    rw [hL', luLower_get n A L U' i hr hi, if_pos ⟨rfl, le_of_lt hir⟩, if_neg (by omega)]
    congr 2
    apply Finset.sum_congr rfl
    intro j hj
    rw [Uold j i (by have := mem_range.1 hj; omega) hi (by have := mem_range.1 hj; omega)]
  -- product after the pass = product before + (new column i of L) * (new row i of U)
  have hprod : ∀ r c, r < n → c < n →
      ∑ k ∈ range n, L'.get r k * U'.get k c
        = ∑ k ∈ range n, L.get r k * U.get k c + L'.get r i * U'.get i c := by
    intro r c hr hc
    apply sum_rank_one hi (fun k => L.get r k) (fun k => U.get k c)
    · intro k hk hne; exact Lold r k hr hk hne
    · intro k hk hne; exact Uold k c hk hc hne
    · rw [hL r i hr hi (Or.inl (le_refl i)), zero_mul]
  -- the old product only runs over k < i
  have hprefix : ∀ r c, r < n → c < n →
      ∑ k ∈ range n, L.get r k * U.get k c = ∑ k ∈ range i, L.get r k * U.get k c := by
    intro r c hr hc
    apply sum_range_tail_zero (le_of_lt hi)
    intro k hik hk
    rw [hL r k hr hk (Or.inl hik), zero_mul]
  refine ⟨⟨⟨rfl, rfl, Mat.tab_WF _ _ _⟩, ⟨rfl, rfl, Mat.tab_WF _ _ _⟩⟩, ?_, ?_, ?_, ?_, ?_⟩
  · -- Lz
    intro r c hr hc hcond
    by_cases hci : c = i
    · subst hci
      rcases hcond with h1 | h1
      · omega
      · exact Lcol0 r hr h1
    · rw [Lold r c hr hc hci]
      apply hL r c hr hc
      rcases hcond with h1 | h1
      · left; omega
      · right; exact h1
  · -- Ld
    intro r hr hri
    by_cases hr' : r = i
    · subst hr'; exact Ldiag
    · rw [Lold r r hr hr hr']
      exact hLd r hr (by omega)
  · -- Uz
    intro r c hr hc hcond
    by_cases hri : r = i
    · subst hri
      rcases hcond with h1 | h1
      · omega
      · exact Urow0 c hc h1
    · rw [Uold r c hr hc hri]
      apply hUz r c hr hc
      rcases hcond with h1 | h1
      · left; omega
      · right; exact h1
  · -- prod
    intro r c hr hc hcond
    rw [hprod r c hr hc]
    by_cases hri : r < i
    · rw [Lcol0 r hr hri, zero_mul, add_zero]
      exact hP r c hr hc (Or.inl hri)
    · by_cases hci : c < i
      · rw [Urow0 c hc hci, mul_zero, add_zero]
        exact hP r c hr hc (Or.inr hci)
      · have hri' : i ≤ r := not_lt.mp hri
        have hci' : i ≤ c := not_lt.mp hci
        by_cases hre : r = i
        · subst hre
          rw [Ldiag, one_mul, Urow c hc hci', hprefix r c hr hc]
          ring
        · have hce : c = i := by omega
          subst hce
          have hir : c < r := by omega
          have hd : U'.get c c ≠ 0 := by
            have := hguard (by omega)
            intro h0
            rw [h0, abs_zero] at this
            exact absurd (lt_of_lt_of_le heps this) (lt_irrefl _)
          rw [Lcol r hr hir, hprefix r c hr hc, div_mul_cancel₀ _ hd]
          ring
  · -- piv
    intro k hk hki
    by_cases hke : k = i
    · subst hke; exact hguard hk
    · rw [Uold k k (by omega) (by omega) hke]
      exact hpiv k hk (by omega)

/-! ### `plu`: the pivot search -/

/-- the search loop: keeps the first maximum of `v` over `start :: l` -/
theorem pivot_fold (v : Nat → K) (l : List Nat) (acc : Nat × K) (hacc : acc.2 = v acc.1) :
    let res := l.foldl (fun (acc : Nat × K) k => if acc.2 < v k then (k, v k) else acc) acc
    res.2 = v res.1 ∧ (res.1 = acc.1 ∨ res.1 ∈ l) ∧ v acc.1 ≤ v res.1 ∧ ∀ k ∈ l, v k ≤ v res.1 := by
  induction l generalizing acc with
  | nil => simp [hacc]
  | cons a l ih =>
    simp only [List.foldl_cons]
    by_cases hlt : acc.2 < v a
    · rw [if_pos hlt]
      have := ih (a, v a) rfl
      simp only at this
      obtain ⟨h1, h2, h3, h4⟩ := this
      refine ⟨h1, ?_, ?_, ?_⟩
      · right
        rcases h2 with h2 | h2
        · rw [h2]; exact List.mem_cons_self
        · exact List.mem_cons_of_mem _ h2
      · rw [← hacc]; exact le_trans (le_of_lt hlt) h3
      · intro k hk
        rcases List.mem_cons.1 hk with hk | hk
        · rw [hk]; exact h3
        · exact h4 k hk
    · rw [if_neg hlt]
      have := ih acc hacc
      simp only at this
      obtain ⟨h1, h2, h3, h4⟩ := this
      refine ⟨h1, ?_, h3, ?_⟩
      · rcases h2 with h2 | h2
        · left; exact h2
        · right; exact List.mem_cons_of_mem _ h2
      · intro k hk
        rcases List.mem_cons.1 hk with hk | hk
        · rw [hk]; rw [hacc] at hlt; exact le_trans (not_lt.mp hlt) h3
        · exact h4 k hk

theorem pivotRow_spec (lu : Mat K) (n i : Nat) (hi : i < n) :
    i ≤ pivotRow lu n i ∧ pivotRow lu n i < n ∧
      ∀ k, i ≤ k → k < n → |lu.get k i| ≤ |lu.get (pivotRow lu n i) i| := by
  have := pivot_fold (fun k => sabs (lu.get k i)) (List.range' (i+1) (n - (i+1)))
    (i, sabs (lu.get i i)) rfl
  simp only at this
  obtain ⟨_, h2, h3, h4⟩ := this
  have hdef : pivotRow lu n i = ((List.range' (i+1) (n - (i+1))).foldl
      (fun (acc : Nat × K) k => if acc.2 < sabs (lu.get k i) then (k, sabs (lu.get k i)) else acc)
      (i, sabs (lu.get i i))).1 := rfl
  rw [← hdef] at h2 h3 h4
  have hmem : ∀ k, k ∈ List.range' (i+1) (n - (i+1)) ↔ i + 1 ≤ k ∧ k < n := by
    intro k
    rw [List.mem_range'_1]
    omega
  refine ⟨?_, ?_, ?_⟩
  · rcases h2 with h2 | h2
    · omega
    · have := (hmem _).1 h2; omega
  · rcases h2 with h2 | h2
    · omega
    · exact ((hmem _).1 h2).2
  · intro k hik hk
    rw [← sabs_eq_abs, ← sabs_eq_abs]
    rcases Nat.eq_or_lt_of_le hik with h | h
    · rw [← h]; exact h3
    · exact h4 k ((hmem k).2 ⟨h, hk⟩)

/-! ### `plu`: the loop invariant -/

/-- State after `i` passes of `lu_pivot_decomposition`, `st = (lu, permutation)`, with the row
permutation `σ` applied so far (row `r` of the work matrix started as row `σ r` of the input):
entries that are still "U / Schur complement" entries equal the input entry minus the
eliminations applied to that row; multiplier entries times their pivot equal the entry they
eliminated; multipliers are at most 1 in size and finished pivots at least `eps`. -/
structure PluInv (n : Nat) (A : Mat K) (eps : K) (i : Nat) (st : Mat K × Mat K)
    (σ : Equiv.Perm ℕ) : Prop where
  hh : st.1.h = n
  hw : st.1.w = n
  ph : st.2.h = n
  pw : st.2.w = n
  pwf : st.2.WF
  fix : ∀ x, n ≤ x → σ x = x
  perm : ∀ r c, r < n → c < n → st.2.get r c = if c = σ r then 1 else 0
  up : ∀ r c, r < n → c < n → min r i ≤ c →
    st.1.get r c = A.get (σ r) c - ∑ k ∈ range (min r i), st.1.get r k * st.1.get k c
  lo : ∀ r c, r < n → c < min r i →
    st.1.get r c * st.1.get c c = A.get (σ r) c - ∑ k ∈ range c, st.1.get r k * st.1.get k c
  mult : ∀ r c, r < n → c < min r i → |st.1.get r c| ≤ 1
  piv : ∀ k, k < i → eps ≤ |st.1.get k k|

theorem pluInv_init (A : Mat K) (eps : K) (n : Nat) (hh : A.h = n) (hw : A.w = n) :
    PluInv n A eps 0 (A, Mat.ident n) 1 where
  hh := hh
  hw := hw
  ph := rfl
  pw := rfl
  pwf := Mat.tab_WF _ _ _
  fix := fun x _ => rfl
  perm := fun r c hr hc => by
    rw [Equiv.Perm.one_apply, Mat.get_ident hr hc]
    by_cases h : r = c
    · simp [h]
    · rw [if_neg h, if_neg (fun h' => h h'.symm)]
  up := fun r c _ _ _ => by simp
  lo := fun r c _ h => by simp at h
  mult := fun r c _ h => by simp at h
  piv := fun k h => by omega

theorem swapRows_get (M : Mat K) {n : Nat} (hh : M.h = n) (hw : M.w = n) (p q : Nat) {x c : Nat}
    (hx : x < n) (hc : c < n) :
    (M.swapRows p q).get x c = M.get (Equiv.swap p q x) c := by
  unfold Mat.swapRows
  rw [Mat.get_tab _ (by omega) (by omega), Equiv.swap_apply_def]
  by_cases h1 : x = p
  · simp [h1]
  · by_cases h2 : x = q
    · rw [if_neg h1, if_pos h2, if_neg h1, if_pos h2]
    · simp [h1, h2]

/-- the pivot search and row swap: the invariant survives with `σ ∘ swap`, and afterwards the
diagonal entry is the largest of its column from the diagonal down -/
theorem pluSwap_inv {n : Nat} {A : Mat K} {eps : K} {i : Nat} {st : Mat K × Mat K}
    {σ : Equiv.Perm ℕ} (hi : i < n) (h : PluInv n A eps i st σ) :
    ∃ σ', PluInv n A eps i (pluSwap n st i) σ' ∧
      ∀ k, i ≤ k → k < n → |(pluSwap n st i).1.get k i| ≤ |(pluSwap n st i).1.get i i| := by
  obtain ⟨lu, p⟩ := st
  obtain ⟨hir, hrn, hmax⟩ := pivotRow_spec lu n i hi
  set r := pivotRow lu n i with hr
  set τ : Equiv.Perm ℕ := Equiv.swap r i with hτ
  have h_hh := h.hh; have h_hw := h.hw; have h_ph := h.ph; have h_pw := h.pw
  simp only at h_hh h_hw h_ph h_pw
  -- facts about τ
  have τlt : ∀ k, k < i → τ k = k := by
    intro k hk
    rw [hτ, Equiv.swap_apply_of_ne_of_ne (by omega) (by omega)]
  have τge : ∀ x, n ≤ x → τ x = x := by
    intro x hx
    rw [hτ, Equiv.swap_apply_of_ne_of_ne (by omega) (by omega)]
  have τcases : ∀ x, (x = r ∧ τ x = i) ∨ (x = i ∧ τ x = r) ∨ (x ≠ r ∧ x ≠ i ∧ τ x = x) := by
    intro x
    by_cases h1 : x = r
    · left; exact ⟨h1, by rw [h1, hτ, Equiv.swap_apply_left]⟩
    · by_cases h2 : x = i
      · right; left; exact ⟨h2, by rw [h2, hτ, Equiv.swap_apply_right]⟩
      · right; right; exact ⟨h1, h2, by rw [hτ, Equiv.swap_apply_of_ne_of_ne h1 h2]⟩
  have τbound : ∀ x, x < n → τ x < n := by
    intro x hx
    rcases τcases x with ⟨_, e⟩ | ⟨_, e⟩ | ⟨_, _, e⟩ <;> rw [e] <;> omega
  have τmin : ∀ x, min (τ x) i = min x i := by
    intro x
    rcases τcases x with ⟨e1, e⟩ | ⟨e1, e⟩ | ⟨_, _, e⟩ <;> rw [e] <;> omega
  have τrange : ∀ x, i ≤ x → i ≤ τ x := by
    intro x hx
    rcases τcases x with ⟨_, e⟩ | ⟨_, e⟩ | ⟨_, _, e⟩ <;> rw [e] <;> omega
  -- the state after the swap reads the old state through τ
  have hget : ∀ x c, x < n → c < n →
      (pluSwap n (lu, p) i).1.get x c = lu.get (τ x) c ∧
      (pluSwap n (lu, p) i).2.get x c = p.get (τ x) c := by
    intro x c hx hc
    unfold pluSwap
    simp only
    by_cases hri : pivotRow lu n i = i
    · rw [if_pos hri]
      have : τ = Equiv.refl ℕ := by rw [hτ, hr, hri, Equiv.swap_self]
      rw [this]
      simp
    · rw [if_neg hri]
      simp only
      exact ⟨swapRows_get lu h_hh h_hw _ _ hx hc, swapRows_get p h_ph h_pw _ _ hx hc⟩
  have hdims : (pluSwap n (lu, p) i).1.h = n ∧ (pluSwap n (lu, p) i).1.w = n ∧
      (pluSwap n (lu, p) i).2.h = n ∧ (pluSwap n (lu, p) i).2.w = n ∧
      (pluSwap n (lu, p) i).2.WF := by
    unfold pluSwap
    simp only
    by_cases hri : pivotRow lu n i = i
    · rw [if_pos hri]; exact ⟨h_hh, h_hw, h_ph, h_pw, h.pwf⟩
    · rw [if_neg hri]
      simp only [Mat.swapRows, Mat.tab_h, Mat.tab_w]
      exact ⟨h_hh, h_hw, h_ph, h_pw, Mat.tab_WF _ _ _⟩
  refine ⟨σ * τ, ⟨hdims.1, hdims.2.1, hdims.2.2.1, hdims.2.2.2.1, hdims.2.2.2.2,
    ?_, ?_, ?_, ?_, ?_, ?_⟩, ?_⟩
  · intro x hx
    rw [Equiv.Perm.mul_apply, τge x hx, h.fix x hx]
  · intro x c hx hc
    rw [(hget x c hx hc).2, Equiv.Perm.mul_apply]
    exact h.perm (τ x) c (τbound x hx) hc
  · intro x c hx hc hmin
    rw [(hget x c hx hc).1, Equiv.Perm.mul_apply]
    have := h.up (τ x) c (τbound x hx) hc (by rw [τmin]; exact hmin)
    simp only at this
    rw [this, τmin]
    congr 1
    apply Finset.sum_congr rfl
    intro k hk
    have hk' : k < min x i := mem_range.1 hk
    have hkn : k < n := by omega
    rw [(hget x k hx hkn).1, (hget k c hkn hc).1, τlt k (by omega)]
  · intro x c hx hc
    have hcn : c < n := by omega
    have hci : c < i := by omega
    rw [(hget x c hx hcn).1, (hget c c hcn hcn).1, τlt c hci, Equiv.Perm.mul_apply]
    have := h.lo (τ x) c (τbound x hx) (by rw [τmin]; exact hc)
    simp only at this
    rw [this]
    congr 1
    apply Finset.sum_congr rfl
    intro k hk
    have hk' : k < c := mem_range.1 hk
    have hkn : k < n := by omega
    rw [(hget x k hx hkn).1, (hget k c hkn hcn).1, τlt k (by omega)]
  · intro x c hx hc
    have hcn : c < n := by omega
    rw [(hget x c hx hcn).1]
    exact h.mult (τ x) c (τbound x hx) (by rw [τmin]; exact hc)
  · intro k hk
    have hkn : k < n := by omega
    rw [(hget k k hkn hkn).1, τlt k hk]
    exact h.piv k hk
  · intro k hik hk
    rw [(hget k i hk hi).1, (hget i i hi hi).1]
    have e : τ i = r := by rw [hτ, Equiv.swap_apply_right]
    rw [e]
    exact hmax (τ k) (τrange k hik) (τbound k hk)

theorem pluElim_get (n : Nat) (lu : Mat K) (i : Nat) {x c : Nat} (hx : x < n) (hc : c < n) :
    (pluElim n lu i).get x c =
      if i < x then
        (if c = i then lu.get x i / lu.get i i
         else if i < c then lu.get x c - lu.get x i / lu.get i i * lu.get i c else lu.get x c)
      else lu.get x c := by
  unfold pluElim
  rw [Mat.get_tab _ hx hc]

/-- the elimination below a non-zero pivot that dominates its column -/
theorem pluElim_inv {n : Nat} {A : Mat K} {eps : K} (heps : 0 < eps) {i : Nat}
    {st : Mat K × Mat K} {σ : Equiv.Perm ℕ} (hi : i < n) (h : PluInv n A eps i st σ)
    (hmax : ∀ k, i ≤ k → k < n → |st.1.get k i| ≤ |st.1.get i i|)
    (hpiv : eps ≤ |st.1.get i i|) :
    PluInv n A eps (i+1) (pluElim n st.1 i, st.2) σ := by
  obtain ⟨lu, p⟩ := st
  simp only at hmax hpiv ⊢
  have hup := h.up; have hlo := h.lo; have hmult := h.mult; have hpv := h.piv
  simp only at hup hlo hmult hpv
  have hd : lu.get i i ≠ 0 := by
    intro h0
    rw [h0, abs_zero] at hpiv
    exact absurd (lt_of_lt_of_le heps hpiv) (lt_irrefl _)
  set lu' := pluElim n lu i with hlu'
  -- rows ≤ i are untouched
  have rowle : ∀ x c, x < n → c < n → x ≤ i → lu'.get x c = lu.get x c := by
    intro x c hx hc hxi
    rw [hlu', pluElim_get n lu i hx hc, if_neg (by omega)]
  -- columns < i are untouched
  have collt : ∀ x c, x < n → c < n → c < i → lu'.get x c = lu.get x c := by
    intro x c hx hc hci
    rw [hlu', pluElim_get n lu i hx hc]
    split_ifs <;> first | rfl | omega
  have colm : ∀ x, x < n → i < x → lu'.get x i = lu.get x i / lu.get i i := by
    intro x hx hix
    rw [hlu', pluElim_get n lu i hx hi, if_pos hix, if_pos rfl]
  have colgt : ∀ x c, x < n → c < n → i < x → i < c →
      lu'.get x c = lu.get x c - lu.get x i / lu.get i i * lu.get i c := by
    intro x c hx hc hix hic
    rw [hlu', pluElim_get n lu i hx hc, if_pos hix, if_neg (by omega), if_pos hic]
  refine ⟨rfl, rfl, h.ph, h.pw, h.pwf, h.fix, h.perm, ?_, ?_, ?_, ?_⟩
  · -- up
    intro x c hx hc hmin
    by_cases hxi : x ≤ i
    · have e1 : min x (i+1) = x := by omega
      have e2 : min x i = x := by omega
      rw [e1] at hmin ⊢
      rw [rowle x c hx hc hxi, hup x c hx hc (by omega), e2]
      congr 1
      apply Finset.sum_congr rfl
      intro k hk
      have hk' : k < x := mem_range.1 hk
      rw [rowle x k hx (by omega) hxi, rowle k c (by omega) hc (by omega)]
    · have hix : i < x := by omega
      have e1 : min x (i+1) = i + 1 := by omega
      have e2 : min x i = i := by omega
      rw [e1] at hmin ⊢
      rw [colgt x c hx hc hix (by omega), Finset.sum_range_succ, colm x hx hix,
        rowle i c hi hc (le_refl i), hup x c hx hc (by omega), e2]
      have : ∑ k ∈ range i, lu'.get x k * lu'.get k c = ∑ k ∈ range i, lu.get x k * lu.get k c := by
        apply Finset.sum_congr rfl
        intro k hk
        have hk' : k < i := mem_range.1 hk
        rw [collt x k hx (by omega) hk', rowle k c (by omega) hc (by omega)]
      rw [this]
      ring
  · -- lo
    intro x c hx hc
    have hcn : c < n := by omega
    by_cases hci : c < i
    · have hsum : ∑ k ∈ range c, lu'.get x k * lu'.get k c
          = ∑ k ∈ range c, lu.get x k * lu.get k c := by
        apply Finset.sum_congr rfl
        intro k hk
        have hk' : k < c := mem_range.1 hk
        rw [collt x k hx (by omega) (by omega), collt k c (by omega) hcn hci]
      rw [collt x c hx hcn hci, collt c c hcn hcn hci, hsum]
      exact hlo x c hx (by omega)
    · have hce : c = i := by omega
      subst hce
      have hix : c < x := by omega
      have hsum : ∑ k ∈ range c, lu'.get x k * lu'.get k c
          = ∑ k ∈ range c, lu.get x k * lu.get k c := by
        apply Finset.sum_congr rfl
        intro k hk
        have hk' : k < c := mem_range.1 hk
        rw [collt x k hx (by omega) hk', rowle k c (by omega) hcn (by omega)]
      have e2 : min x c = c := by omega
      rw [colm x hx hix, rowle c c hcn hcn (le_refl c), hsum, div_mul_cancel₀ _ hd]
      have := hup x c hx hcn (by omega)
      rw [e2] at this
      exact this
  · -- mult
    intro x c hx hc
    have hcn : c < n := by omega
    by_cases hci : c < i
    · rw [collt x c hx hcn hci]
      exact hmult x c hx (by omega)
    · have hce : c = i := by omega
      subst hce
      have hix : c < x := by omega
      rw [colm x hx hix, abs_div]
      exact div_le_one_of_le₀ (hmax x (by omega) hx) (abs_nonneg _)
  · -- piv
    intro k hk
    have hkn : k < n := by omega
    rw [rowle k k hkn hkn (by omega)]
    by_cases hki : k < i
    · exact hpv k hki
    · have : k = i := by omega
      rw [this]; exact hpiv

theorem pluStep_inv {n : Nat} {A : Mat K} {eps : K} (heps : 0 < eps) {i : Nat}
    {st st' : Mat K × Mat K} (hi : i < n) (h : ∃ σ, PluInv n A eps i st σ)
    (hs : pluStep eps n st i = some st') : ∃ σ, PluInv n A eps (i+1) st' σ := by
  obtain ⟨σ, h⟩ := h
  obtain ⟨σ', h', hmax⟩ := pluSwap_inv hi h
  unfold pluStep at hs
  dsimp only at hs
  split_ifs at hs with hg
  simp only [Option.some.injEq] at hs
  subst hs
  rw [sabs_eq_abs] at hg
  exact ⟨σ', pluElim_inv heps hi h' hmax (not_lt.mp hg)⟩


/-! ### reading the invariants off a successful run -/

theorem lu_ok {eps : K} (heps : 0 < eps) {A L U : Mat K} (h : lu eps A = .ok (L, U)) :
    A.h = A.w ∧ LuInv A.h A eps A.h (L, U) := by
  unfold lu at h
  split_ifs at h with hsq
  dsimp only at h
  cases hit : iter (luStep eps A.h A) A.h 0
      (Mat.tab A.h A.h fun _ _ => (0:K), Mat.tab A.h A.h fun _ _ => (0:K)) with
  | none => simp [hit] at h
  | some st =>
    simp only [hit, Outcome.ok.injEq] at h
    subst h
    refine ⟨not_not.mp hsq, ?_⟩
    have := iter_inv (luStep eps A.h A) (LuInv A.h A eps) A.h
      (fun i s s' hi hI hs => luStep_inv heps hi hI hs) A.h 0 _ _ (by omega)
      (luInv_init A.h A eps) hit
    simpa using this

theorem lu_outcome (eps : K) (A : Mat K) :
    (A.h ≠ A.w → lu eps A = .err .nonSquare) ∧
    (A.h = A.w → lu eps A = .err .singular ∨ ∃ L U, lu eps A = .ok (L, U)) := by
  constructor
  · intro h; unfold lu; rw [if_pos h]
  · intro h
    unfold lu
    rw [if_neg (not_not.mpr h)]
    dsimp only
    cases iter (luStep eps A.h A) A.h 0
      (Mat.tab A.h A.h fun _ _ => (0:K), Mat.tab A.h A.h fun _ _ => (0:K)) with
    | none => left; rfl
    | some st => right; exact ⟨st.1, st.2, rfl⟩

theorem plu_ok {eps : K} (heps : 0 < eps) {A L U P : Mat K} (h : plu eps A = .ok (L, U, P)) :
    A.h = A.w ∧ ∃ lu σ, PluInv A.h A eps A.h (lu, P) σ ∧ L = splitL A.h lu ∧ U = splitU A.h lu := by
  unfold plu at h
  split_ifs at h with hsq
  dsimp only at h
  have hsq' : A.h = A.w := not_not.mp hsq
  cases hit : iter (pluStep eps A.h) A.h 0 (A, Mat.ident A.h) with
  | none => simp [hit] at h
  | some st =>
    simp only [hit, Outcome.ok.injEq, Prod.mk.injEq] at h
    obtain ⟨h1, h2, h3⟩ := h
    refine ⟨hsq', ?_⟩
    have := iter_inv (pluStep eps A.h) (fun i st => ∃ σ, PluInv A.h A eps i st σ) A.h
      (fun i s s' hi hI hs => pluStep_inv heps hi hI hs) A.h 0 _ _ (by omega)
      ⟨1, pluInv_init A eps A.h rfl hsq'.symm⟩ hit
    simp only [Nat.zero_add] at this
    obtain ⟨σ, hσ⟩ := this
    refine ⟨st.1, σ, ?_, h1.symm, h2.symm⟩
    rw [← h3]
    exact hσ

theorem plu_outcome (eps : K) (A : Mat K) :
    (A.h ≠ A.w → plu eps A = .err .nonSquare) ∧
    (A.h = A.w → plu eps A = .err .singular ∨ ∃ L U P, plu eps A = .ok (L, U, P)) := by
  constructor
  · intro h; unfold plu; rw [if_pos h]
  · intro h
    unfold plu
    rw [if_neg (not_not.mpr h)]
    dsimp only
    cases iter (pluStep eps A.h) A.h 0 (A, Mat.ident A.h) with
    | none => left; rfl
    | some st => right; exact ⟨_, _, _, rfl⟩

theorem splitL_get (n : Nat) (lu : Mat K) {r c : Nat} (hr : r < n) (hc : c < n) :
    (splitL n lu).get r c = if r = c then 1 else if c < r then lu.get r c else 0 := by
  unfold splitL; rw [Mat.get_tab _ hr hc]

theorem splitU_get (n : Nat) (lu : Mat K) {r c : Nat} (hr : r < n) (hc : c < n) :
    (splitU n lu).get r c = if r ≤ c then lu.get r c else 0 := by
  unfold splitU; rw [Mat.get_tab _ hr hc]

/-- the final split multiplies back to the permuted input -/
theorem split_prod {n : Nat} {A : Mat K} {eps : K} {lu p : Mat K} {σ : Equiv.Perm ℕ}
    (h : PluInv n A eps n (lu, p) σ) {r c : Nat} (hr : r < n) (hc : c < n) :
    ∑ k ∈ range n, (splitL n lu).get r k * (splitU n lu).get k c = A.get (σ r) c := by
  have hup := h.up; have hlo := h.lo
  simp only at hup hlo
  have e : ∑ k ∈ range n, (splitL n lu).get r k * (splitU n lu).get k c
      = ∑ k ∈ range n, (if r = k then 1 else if k < r then lu.get r k else 0)
          * (if k ≤ c then lu.get k c else 0) := by
    apply Finset.sum_congr rfl
    intro k hk
    have hk' : k < n := mem_range.1 hk
    rw [splitL_get n lu hr hk', splitU_get n lu hk' hc]
  rw [e]
  by_cases hrc : r ≤ c
  · rw [sum_range_tail_zero (i := r + 1) (by omega)]
    · rw [Finset.sum_range_succ, if_pos rfl, if_pos hrc, one_mul]
      have e2 : ∑ k ∈ range r, (if r = k then 1 else if k < r then lu.get r k else 0)
            * (if k ≤ c then lu.get k c else 0)
          = ∑ k ∈ range r, lu.get r k * lu.get k c := by
        apply Finset.sum_congr rfl
        intro k hk
        have hk' : k < r := mem_range.1 hk
        rw [if_neg (by omega), if_pos hk', if_pos (by omega)]
      rw [e2, hup r c hr hc (by omega)]
      have : min r n = r := by omega
      rw [this]
      ring
    · intro k hk _
      rw [if_neg (by omega), if_neg (by omega), zero_mul]
  · have hcr : c < r := by omega
    rw [sum_range_tail_zero (i := c + 1) (by omega)]
    · rw [Finset.sum_range_succ, if_neg (by omega), if_pos hcr, if_pos (le_refl c)]
      have e2 : ∑ k ∈ range c, (if r = k then 1 else if k < r then lu.get r k else 0)
            * (if k ≤ c then lu.get k c else 0)
          = ∑ k ∈ range c, lu.get r k * lu.get k c := by
        apply Finset.sum_congr rfl
        intro k hk
        have hk' : k < c := mem_range.1 hk
        rw [if_neg (by omega), if_pos (by omega), if_pos (by omega)]
      rw [e2, hlo r c hr (by omega)]
      ring
    · intro k hk _
      rw [if_neg (show ¬ k ≤ c by omega), mul_zero]

/-! ### permutations of `ℕ` fixing everything from `n` on, as permutations of `Fin n` -/

theorem perm_lt {σ : Equiv.Perm ℕ} {n : Nat} (hfix : ∀ x, n ≤ x → σ x = x) {x : Nat} (hx : x < n) :
    σ x < n := by
  by_contra hge
  have h1 : σ (σ x) = σ x := hfix _ (not_lt.mp hge)
  have h2 : σ x = x := σ.injective h1
  omega

theorem perm_symm_lt {σ : Equiv.Perm ℕ} {n : Nat} (hfix : ∀ x, n ≤ x → σ x = x) {x : Nat}
    (hx : x < n) : σ.symm x < n := by
  by_contra hge
  have h1 : σ (σ.symm x) = σ.symm x := hfix _ (not_lt.mp hge)
  rw [Equiv.apply_symm_apply] at h1
  omega

/-- restriction to `Fin n` -/
def permFin (σ : Equiv.Perm ℕ) (n : Nat) (hfix : ∀ x, n ≤ x → σ x = x) : Equiv.Perm (Fin n) where
  toFun x := ⟨σ x.val, perm_lt hfix x.isLt⟩
  invFun x := ⟨σ.symm x.val, perm_symm_lt hfix x.isLt⟩
  left_inv x := by ext; simp
  right_inv x := by ext; simp

@[simp] theorem permFin_val (σ : Equiv.Perm ℕ) (n : Nat) (hfix : ∀ x, n ≤ x → σ x = x)
    (x : Fin n) : (permFin σ n hfix x).val = σ x.val := rfl


/-! ### completeness: a regular matrix always offers a non-zero pivot -/

theorem iter_snoc {σ : Type} (step : σ → Nat → Option σ) :
    ∀ k i s, iter step (k+1) i s = (iter step k i s).bind (fun s' => step s' (i+k)) := by
  intro k
  induction k with
  | zero =>
    intro i s
    simp only [iter, Nat.add_zero, Option.bind_some]
    cases step s i <;> rfl
  | succ k ih =>
    intro i s
    rw [iter]
    cases hs : step s i with
    | none => simp [iter, hs]
    | some s1 =>
      simp only
      rw [ih (i+1) s1]
      have e : i + 1 + k = i + (k + 1) := by omega
      rw [e]
      conv_rhs => rw [iter]
      simp only [hs]

/-- the guard is the only place the threshold is used: a pass that succeeds succeeds with the same
result for every smaller threshold -/
theorem pluStep_mono {eps eps' : K} (hle : eps' ≤ eps) {n i : Nat} {st st' : Mat K × Mat K}
    (h : pluStep eps n st i = some st') : pluStep eps' n st i = some st' := by
  unfold pluStep at h ⊢
  dsimp only at h ⊢
  split_ifs at h with hg
  rw [if_neg (fun h' => hg (lt_of_lt_of_le h' hle))]
  exact h

theorem iter_pluStep_mono {eps eps' : K} (hle : eps' ≤ eps) {n : Nat} :
    ∀ k i (st st' : Mat K × Mat K), iter (pluStep eps n) k i st = some st' →
      iter (pluStep eps' n) k i st = some st' := by
  intro k
  induction k with
  | zero => intro i st st' h; exact h
  | succ k ih =>
    intro i st st' h
    rw [iter] at h ⊢
    cases hs : pluStep eps n st i with
    | none => simp [hs] at h
    | some s1 =>
      simp only [hs] at h
      rw [pluStep_mono hle hs]
      exact ih (i+1) s1 st' h

/-- If, at the start of pass `i`, column `i` is zero from the diagonal down, the input is
singular: the conceptual `L_i · W_i = P A` has a kernel vector supported on the columns `≤ i`. -/
theorem plu_zero_column_det {n : Nat} {A : Mat K} {eps : K} (heps : 0 < eps) {i : Nat}
    {st : Mat K × Mat K} {σ : Equiv.Perm ℕ} (hi : i < n) (h : PluInv n A eps i st σ)
    (hz : ∀ k, i ≤ k → k < n → st.1.get k i = 0) : (A.toMatrix n n).det = 0 := by
  obtain ⟨lu, p⟩ := st
  have hup := h.up; have hlo := h.lo; have hpv := h.piv
  simp only at hup hlo hpv hz
  -- the unit lower factor and the "U / Schur complement" part of the packed array
  set Lm : Matrix (Fin n) (Fin n) K := fun r k =>
    if k.val < min r.val i then lu.get r.val k.val else if k.val = r.val then 1 else 0 with hLm
  set W : Matrix (Fin n) (Fin n) K := fun r c =>
    if min r.val i ≤ c.val then lu.get r.val c.val else 0 with hW
  have hLW : Lm * W = (A.toMatrix n n).submatrix (permFin σ n h.fix) id := by
    funext r c
    rw [Matrix.mul_apply]
    simp only [Matrix.submatrix_apply, id_eq, Mat.toMatrix, permFin_val, hLm, hW]
    rw [← Finset.sum_range (f := fun k => (if k < min r.val i then lu.get r.val k
        else if k = r.val then 1 else 0) * (if min k i ≤ c.val then lu.get k c.val else 0))]
    obtain ⟨r, hr⟩ := r
    obtain ⟨c, hc⟩ := c
    simp only
    set m := min r i with hm
    have hmn : m ≤ n := by omega
    -- split every term into its multiplier part and its diagonal part
    have esplit : ∀ k ∈ range n,
        (if k < m then lu.get r k else if k = r then 1 else 0)
            * (if min k i ≤ c then lu.get k c else 0)
          = (if k < m then lu.get r k * (if k ≤ c then lu.get k c else 0) else 0)
            + (if k = r then (if m ≤ c then lu.get r c else 0) else 0) := by
      intro k _
      by_cases h1 : k < m
      · have e1 : min k i = k := by omega
        have h2 : k ≠ r := by omega
        rw [if_pos h1, if_pos h1, if_neg h2, add_zero, e1]
      · rw [if_neg h1, if_neg h1, zero_add]
        by_cases h2 : k = r
        · subst h2
          rw [if_pos rfl, if_pos rfl, one_mul]
        · rw [if_neg h2, if_neg h2, zero_mul]
    rw [Finset.sum_congr rfl esplit, Finset.sum_add_distrib, Finset.sum_ite_eq' (range n) r,
      if_pos (mem_range.2 hr)]
    rw [sum_range_tail_zero hmn (fun k => if k < m then lu.get r k * (if k ≤ c then lu.get k c else 0)
        else 0) (fun k hk _ => by rw [if_neg (by omega)])]
    have e1 : ∑ k ∈ range m, (if k < m then lu.get r k * (if k ≤ c then lu.get k c else 0) else 0)
        = ∑ k ∈ range m, lu.get r k * (if k ≤ c then lu.get k c else 0) := by
      apply Finset.sum_congr rfl
      intro k hk
      rw [if_pos (mem_range.1 hk)]
    rw [e1]
    by_cases hmc : m ≤ c
    · rw [if_pos hmc, hup r c hr hc hmc]
      have e2 : ∑ k ∈ range m, lu.get r k * (if k ≤ c then lu.get k c else 0)
          = ∑ k ∈ range m, lu.get r k * lu.get k c := by
        apply Finset.sum_congr rfl
        intro k hk
        have := mem_range.1 hk
        rw [if_pos (by omega)]
      rw [e2]
      ring
    · have hcm : c < m := by omega
      rw [if_neg hmc, add_zero, sum_range_tail_zero (i := c + 1) (by omega)
        (fun k => lu.get r k * (if k ≤ c then lu.get k c else 0))
        (fun k hk _ => by rw [if_neg (by omega), mul_zero]),
        Finset.sum_range_succ, if_pos (le_refl c), hlo r c hr hcm]
      have e2 : ∑ k ∈ range c, lu.get r k * (if k ≤ c then lu.get k c else 0)
          = ∑ k ∈ range c, lu.get r k * lu.get k c := by
        apply Finset.sum_congr rfl
        intro k hk
        have := mem_range.1 hk
        rw [if_pos (by omega)]
      rw [e2]
      ring
  -- the finished i × i upper triangular block is invertible
  set U11 : Matrix (Fin i) (Fin i) K := fun r c => if r ≤ c then lu.get r.val c.val else 0 with hU11
  have hU11det : U11.det ≠ 0 := by
    rw [Matrix.det_of_isUpperTriangular]
    · rw [Finset.prod_ne_zero_iff]
      intro r _ h0
      simp only [hU11, le_refl, if_true] at h0
      have := hpv r.val r.isLt
      rw [h0, abs_zero] at this
      exact absurd (lt_of_lt_of_le heps this) (lt_irrefl _)
    · intro r c hrc
      have hrc' : c < r := hrc
      simp only [hU11]
      rw [if_neg (not_le.mpr hrc')]
  set w : Fin i → K := fun r => lu.get r.val i with hw
  set y : Fin i → K := U11⁻¹.mulVec (-w) with hy
  have hUy : U11.mulVec y = -w := by
    rw [hy, Matrix.mulVec_mulVec, Matrix.mul_nonsing_inv _ (isUnit_iff_ne_zero.2 hU11det),
      Matrix.one_mulVec]
  set xN : ℕ → K := fun c => if hc : c < i then y ⟨c, hc⟩ else if c = i then 1 else 0 with hxN
  set x : Fin n → K := fun c => xN c.val with hx
  have hx0 : x ≠ 0 := by
    intro h0
    have := congrFun h0 ⟨i, hi⟩
    simp [hx, hxN] at this
  have hWx : W.mulVec x = 0 := by
    funext r
    obtain ⟨r, hr⟩ := r
    simp only [Matrix.mulVec, dotProduct, hW, hx, Pi.zero_apply]
    rw [← Finset.sum_range (f := fun c => (if min r i ≤ c then lu.get r c else 0) * xN c)]
    by_cases hri : i ≤ r
    · apply Finset.sum_eq_zero
      intro c hc
      have hcn := mem_range.1 hc
      have em : min r i = i := by omega
      rw [em]
      by_cases h1 : c < i
      · rw [if_neg (by omega), zero_mul]
      · by_cases h2 : c = i
        · rw [h2, if_pos (le_refl i), hz r hri hr, zero_mul]
        · simp only [hxN]
          rw [dif_neg h1, if_neg h2, mul_zero]
    · have hri' : r < i := by omega
      have em : min r i = r := by omega
      rw [em, sum_range_tail_zero (i := i + 1) (by omega)
        (fun c => (if r ≤ c then lu.get r c else 0) * xN c)
        (fun c hc _ => by
          simp only [hxN]
          rw [dif_neg (show ¬ c < i by omega), if_neg (show ¬ c = i by omega), mul_zero]),
        Finset.sum_range_succ, if_pos (by omega)]
      have exi : xN i = 1 := by simp [hxN]
      rw [exi, mul_one, Finset.sum_range]
      have e3 : ∑ c : Fin i, (if r ≤ c.val then lu.get r c.val else 0) * xN c.val
          = (U11.mulVec y) ⟨r, hri'⟩ := by
        simp only [Matrix.mulVec, dotProduct, hU11]
        apply Finset.sum_congr rfl
        intro c _
        have : xN c.val = y c := by simp [hxN]
        rw [this]
        simp only [Fin.le_def]
      rw [e3, hUy]
      simp [hw]
  have hker : ((A.toMatrix n n).submatrix (permFin σ n h.fix) id).mulVec x = 0 := by
    rw [← hLW, ← Matrix.mulVec_mulVec, hWx, Matrix.mulVec_zero]
  by_contra hdet
  have hdet' : ((A.toMatrix n n).submatrix (permFin σ n h.fix) id).det ≠ 0 := by
    rw [Matrix.det_permute]
    apply mul_ne_zero _ hdet
    rcases Int.units_eq_one_or (Equiv.Perm.sign (permFin σ n h.fix)) with h1 | h1 <;> simp [h1]
  exact hx0 (Matrix.eq_zero_of_mulVec_eq_zero hdet' hker)


/-- for a regular matrix every pass finds a non-zero pivot, so below some positive threshold all
`k` passes succeed, with a state that does not depend on the threshold -/
theorem plu_iter_regular {n : Nat} {A : Mat K} (hh : A.h = n) (hw : A.w = n)
    (hdet : (A.toMatrix n n).det ≠ 0) :
    ∀ k, k ≤ n → ∃ e : K, 0 < e ∧ ∃ s, ∀ eps, 0 < eps → eps ≤ e →
      iter (pluStep eps n) k 0 (A, Mat.ident n) = some s := by
  intro k
  induction k with
  | zero => intro _; exact ⟨1, one_pos, _, fun _ _ _ => rfl⟩
  | succ k ih =>
    intro hk
    obtain ⟨e, he, s, hs⟩ := ih (by omega)
    have hkn : k < n := by omega
    have hit := hs e he le_rfl
    have hinv := iter_inv (pluStep e n) (fun i st => ∃ σ, PluInv n A e i st σ) n
      (fun i s s' hi hI hs => pluStep_inv he hi hI hs) k 0 _ _ (by omega)
      ⟨1, pluInv_init A e n hh hw⟩ hit
    simp only [Nat.zero_add] at hinv
    obtain ⟨σ, hσ⟩ := hinv
    obtain ⟨σ', h', hmax⟩ := pluSwap_inv hkn hσ
    have hpv : (pluSwap n s k).1.get k k ≠ 0 := by
      intro h0
      apply hdet
      apply plu_zero_column_det he hkn h'
      intro r hkr hr
      have := hmax r hkr hr
      rw [h0, abs_zero] at this
      exact abs_eq_zero.1 (le_antisymm this (abs_nonneg _))
    refine ⟨min e |(pluSwap n s k).1.get k k|, lt_min he (abs_pos.2 hpv),
      (pluElim n (pluSwap n s k).1 k, (pluSwap n s k).2), ?_⟩
    intro eps h0 hle
    rw [iter_snoc, hs eps h0 (le_trans hle (min_le_left _ _))]
    simp only [Option.bind_some, Nat.zero_add]
    unfold pluStep
    dsimp only
    rw [if_neg]
    rw [sabs_eq_abs]
    exact not_lt.mpr (le_trans hle (min_le_right _ _))


/-! ### completeness of plain LU: non-zero leading minors give non-zero pivots -/

theorem luStep_mono {eps eps' : K} (hle : eps' ≤ eps) {n i : Nat} {A : Mat K}
    {st st' : Mat K × Mat K} (h : luStep eps n A st i = some st') :
    luStep eps' n A st i = some st' := by
  unfold luStep at h ⊢
  dsimp only at h ⊢
  split_ifs at h with hg
  rw [if_neg (fun h' => hg ⟨h'.1, lt_of_lt_of_le h'.2 hle⟩)]
  exact h

theorem iter_luStep_mono {eps eps' : K} (hle : eps' ≤ eps) {n : Nat} {A : Mat K} :
    ∀ k i (st st' : Mat K × Mat K), iter (luStep eps n A) k i st = some st' →
      iter (luStep eps' n A) k i st = some st' := by
  intro k
  induction k with
  | zero => intro i st st' h; exact h
  | succ k ih =>
    intro i st st' h
    rw [iter] at h ⊢
    cases hs : luStep eps n A st i with
    | none => simp [hs] at h
    | some s1 =>
      simp only [hs] at h
      rw [luStep_mono hle hs]
      exact ih (i+1) s1 st' h

/-- the pivot computed in pass `i` times the earlier pivots is the leading minor of order `i+1`;
in particular a zero pivot means a vanishing leading minor -/
theorem lu_zero_pivot_minor {n : Nat} {A : Mat K} {eps : K} {i : Nat} {st : Mat K × Mat K}
    (hi : i < n) (h : LuInv n A eps i st)
    (hz : (luUpper n A st.1 st.2 i).get i i = 0) : (A.toMatrix (i+1) (i+1)).det = 0 := by
  obtain ⟨L, U⟩ := st
  simp only at hz
  have hL := h.Lz; have hLd := h.Ld; have hUz := h.Uz; have hP := h.prod
  simp only at hL hLd hUz hP
  set U' := luUpper n A L U i with hU'
  have Uold : ∀ r c, r < n → c < n → r ≠ i → U'.get r c = U.get r c := by
    intro r c hr hc hne
    rw [hU', luUpper_get n A L U i hr hc, if_neg (fun h => hne h.1)]
  have Urow0 : ∀ c, c < n → c < i → U'.get i c = 0 := by
    intro c hc hci
    rw [hU', luUpper_get n A L U i hi hc, if_neg (by omega)]
    exact hUz i c hi hc (Or.inl (le_refl i))
  have Uii : U'.get i i = A.get i i - ∑ j ∈ range i, L.get i j * U.get j i := by
    rw [hU', luUpper_get n A L U i hi hi, if_pos ⟨rfl, le_refl i⟩]
  set Lt : Matrix (Fin (i+1)) (Fin (i+1)) K := fun r k =>
    if k.val = i then (if r.val = i then 1 else 0) else L.get r.val k.val with hLt
  set Ut : Matrix (Fin (i+1)) (Fin (i+1)) K := fun k c => U'.get k.val c.val with hUt
  have hprefix : ∀ r c, r < n → c < n →
      ∑ k ∈ range n, L.get r k * U.get k c = ∑ k ∈ range i, L.get r k * U.get k c := by
    intro r c hr hc
    apply sum_range_tail_zero (le_of_lt hi)
    intro k hik hk
    rw [hL r k hr hk (Or.inl hik), zero_mul]
  have hA : A.toMatrix (i+1) (i+1) = Lt * Ut := by
    funext r c
    rw [Matrix.mul_apply]
    simp only [Mat.toMatrix, hLt, hUt]
    rw [← Finset.sum_range (f := fun k => (if k = i then (if r.val = i then 1 else 0)
        else L.get r.val k) * U'.get k c.val)]
    obtain ⟨r, hr⟩ := r
    obtain ⟨c, hc⟩ := c
    simp only
    rw [Finset.sum_range_succ, if_pos rfl]
    have e1 : ∑ k ∈ range i, (if k = i then (if r = i then (1:K) else 0) else L.get r k) * U'.get k c
        = ∑ k ∈ range i, L.get r k * U.get k c := by
      apply Finset.sum_congr rfl
      intro k hk
      have hk' := mem_range.1 hk
      rw [if_neg (by omega), Uold k c (by omega) (by omega) (by omega)]
    rw [e1, ← hprefix r c (by omega) (by omega)]
    by_cases hri : r = i
    · rw [if_pos hri, one_mul]
      by_cases hci : c = i
      · rw [hri, hci, Uii, hprefix i i hi hi]; ring
      · rw [Urow0 c (by omega) (by omega), add_zero]
        exact (hP r c (by omega) (by omega) (Or.inr (by omega))).symm
    · rw [if_neg hri, zero_mul, add_zero]
      exact (hP r c (by omega) (by omega) (Or.inl (by omega))).symm
  have hLdet : Lt.det = 1 := by
    rw [Matrix.det_of_isLowerTriangular]
    · apply Finset.prod_eq_one
      intro r _
      simp only [hLt]
      by_cases hri : r.val = i
      · rw [if_pos hri, if_pos hri]
      · rw [if_neg hri]
        exact hLd r.val (by omega) (by omega)
    · intro r k hrk
      have hrk' : r.val < k.val := hrk
      simp only [hLt]
      by_cases hki : k.val = i
      · rw [if_pos hki, if_neg (by omega)]
      · rw [if_neg hki]
        exact hL r.val k.val (by omega) (by omega) (Or.inr hrk')
  have hUdet : Ut.det = 0 := by
    rw [Matrix.det_of_isUpperTriangular]
    · apply Finset.prod_eq_zero (Finset.mem_univ (⟨i, by omega⟩ : Fin (i+1)))
      simp only [hUt]
      exact hz
    · intro k c hck
      have hck' : c.val < k.val := hck
      simp only [hUt]
      by_cases hki : k.val = i
      · rw [hki]
        exact Urow0 c.val (by omega) (by omega)
      · rw [Uold k.val c.val (by omega) (by omega) hki]
        exact hUz k.val c.val (by omega) (by omega) (Or.inr hck')
  rw [hA, Matrix.det_mul, hLdet, hUdet, mul_zero]

/-- non-zero leading minors of order `< n`: below some positive threshold all `k` passes succeed,
with a state that does not depend on the threshold -/
theorem lu_iter_regular {n : Nat} {A : Mat K}
    (hmin : ∀ k, 1 ≤ k → k < n → (A.toMatrix k k).det ≠ 0) :
    ∀ k, k ≤ n → ∃ e : K, 0 < e ∧ ∃ s, ∀ eps, 0 < eps → eps ≤ e →
      iter (luStep eps n A) k 0
        (Mat.tab n n fun _ _ => (0:K), Mat.tab n n fun _ _ => (0:K)) = some s := by
  intro k
  induction k with
  | zero => intro _; exact ⟨1, one_pos, _, fun _ _ _ => rfl⟩
  | succ k ih =>
    intro hk
    obtain ⟨e, he, s, hs⟩ := ih (by omega)
    have hkn : k < n := by omega
    have hit := hs e he le_rfl
    have hinv := iter_inv (luStep e n A) (LuInv n A e) n
      (fun i s s' hi hI hs => luStep_inv he hi hI hs) k 0 _ _ (by omega)
      (luInv_init n A e) hit
    simp only [Nat.zero_add] at hinv
    by_cases hlast : k + 1 < n
    · have hpv : (luUpper n A s.1 s.2 k).get k k ≠ 0 := by
        intro h0
        exact hmin (k+1) (by omega) hlast (lu_zero_pivot_minor hkn hinv h0)
      refine ⟨min e |(luUpper n A s.1 s.2 k).get k k|, lt_min he (abs_pos.2 hpv),
        (luLower n A s.1 (luUpper n A s.1 s.2 k) k, luUpper n A s.1 s.2 k), ?_⟩
      intro eps h0 hle
      rw [iter_snoc, hs eps h0 (le_trans hle (min_le_left _ _))]
      simp only [Option.bind_some, Nat.zero_add]
      unfold luStep
      dsimp only
      rw [if_neg]
      rw [sabs_eq_abs]
      intro hg
      exact absurd hg.2 (not_lt.mpr (le_trans hle (min_le_right _ _)))
    · refine ⟨e, he,
        (luLower n A s.1 (luUpper n A s.1 s.2 k) k, luUpper n A s.1 s.2 k), ?_⟩
      intro eps h0 hle
      rw [iter_snoc, hs eps h0 hle]
      simp only [Option.bind_some, Nat.zero_add]
      unfold luStep
      dsimp only
      rw [if_neg (fun hg => hlast hg.1)]


end SV.C09
