import SV.Model.C15
import SV.Lemmas.C15
import SV.Props.C15
import Mathlib.Algebra.Order.Field.Basic
import Mathlib.Tactic.Ring
import Mathlib.Tactic.FieldSimp
/-!
# C15 — the line fits are equivariant under affine maps of the responses

Replacing every response `yᵢ` by `c·yᵢ + t` (a change of unit and of origin of the measured quantity) maps the fitted
line `a + b·x` to `(c·a + t) + (c·b)·x`, leaves `r²` unchanged (`c ≠ 0`) and scales the standard error by `|c|`:

  `lsFit sqrt x (affY c t y)          = (lsFit sqrt x y).map (affFit c t)`            (`ls_affine`)
  `gdFit sqrt steps α x (affY c t y)  = (gdFit sqrt steps α x y).map (affFit c t)`    (`gd_affine`)

for every data set (`ls_affine`: with `x.length = y.length`; `gd_affine`: any two lists), every `c ≠ 0`, every `t`, every
step size and every number of passes; "undefined" (`none`) is mapped to "undefined".  The coefficient parts hold for every `c`, `c = 0` included (`ls_affine_coeffs`,
`gd_affine_coeffs`), and gradient descent is equivariant pass by pass (`gdStep_affine`, `gdLoop_affine`) without any
hypothesis on the lengths of the two lists.  The only thing assumed of the `sqrt` parameter is the one instance
`sqrt (c² v) = |c| sqrt v` of its homogeneity that is used.

Consequence: no ABSOLUTE threshold on a response, a residual, a gradient, a coefficient or a sum of squares (an "is the
slope / the gradient / SST practically zero" test against a constant) can be part of these algorithms: such a test is
not invariant under `y ↦ c·y + t`, while every test the algorithms make (`n = 0`, `D = 0` — a function of `x` alone —,
`SST = 0`, `n = 2`) is.

Further: `poly_affine_stats` (polynomial fit of every order with any sound solver: SSE scales by `c²`, `r²` unchanged,
standard error times `|c|`, no uniqueness assumption), `normalEqs_affCoeffs`, `poly1_affine_coeffs`; `ls_affine_x`
(affine change `x ↦ s·x + u` of the abscissae: `D ↦ s²·D`, same line, same statistics); `ls_perm`, `gd_perm` (both
fits depend on the multiset of pairs `(xᵢ, yᵢ)` only, not on the order of accumulation).
-/
set_option linter.unusedSectionVars false

namespace SV.Props.C15Affine
open SV SV.C15 SV.C18 Finset

variable {K : Type} [Field K] [LinearOrder K] [IsStrictOrderedRing K] [Inhabited K]

/-- the responses after the affine change `v ↦ c·v + t` -/
def affY (c t : K) (y : List K) : List K := y.map fun v => c * v + t

/-- what the change does to a coefficient list (constant term first): the polynomial `p` becomes `c·p + t` -/
def affCoeffs (c t : K) : List K → List K
  | [] => []
  | a :: bs => (c * a + t) :: bs.map fun b => c * b

/-- what the change does to a fit: coefficients as above, standard error times `|c|`, `r²` unchanged -/
def affFit (c t : K) (f : Fit K) : Fit K :=
  { coeffs := affCoeffs c t f.coeffs, stdErr := f.stdErr.map fun s => |c| * s, r2 := f.r2 }

/-! ### sums over the transformed data -/

private theorem length_affY (c t : K) (y : List K) : (affY c t y).length = y.length := by
  unfold affY
  rw [List.length_map]

private theorem zip_aff_map {γ : Type} (c t : K) (x y : List K) (g : K × K → γ) :
    (x.zip (affY c t y)).map g = (x.zip y).map fun p => g (p.1, c * p.2 + t) := by
  unfold affY
  rw [List.zip_map_right, List.map_map]
  apply List.map_congr_left
  intro p _
  rfl

private theorem sum_affY (c t : K) (y : List K) :
    (affY c t y).sum = c * y.sum + (y.length : K) * t := by
  unfold affY
  induction y with
  | nil => simp
  | cons a l ih =>
    simp only [List.map_cons, List.sum_cons, List.length_cons, Nat.cast_succ]
    rw [ih]
    ring

private theorem zip_fst_sum (x y : List K) (hxy : x.length = y.length) :
    ((x.zip y).map fun p => p.1).sum = x.sum := by
  have := map_zip_fst x y (fun t => t) (le_of_eq hxy)
  simp only [List.map_id'] at this
  rw [this]

private theorem sumxy_aff (c t : K) (x y : List K) (hxy : x.length = y.length) :
    ((x.zip (affY c t y)).map fun p => p.1 * p.2).sum
      = c * ((x.zip y).map fun p => p.1 * p.2).sum + t * x.sum := by
  rw [zip_aff_map]
  have e : ((x.zip y).map fun p => (p.1, c * p.2 + t).1 * (p.1, c * p.2 + t).2)
      = (x.zip y).map fun p => c * (p.1 * p.2) + t * p.1 := by
    apply List.map_congr_left
    intro p _
    ring
  rw [e, sum_map_add', sum_map_mul_left' (x.zip y) (fun p => p.1 * p.2) c,
    sum_map_mul_left' (x.zip y) (fun p => p.1) t, zip_fst_sum x y hxy]

/-! ### the closed forms -/

/-- the closed-form slope of the transformed data is `c` times the slope (for every `c`, also when `D = 0`) -/
theorem lsSlope_aff (c t : K) (x y : List K) (hxy : x.length = y.length) :
    lsSlope x (affY c t y) = c * lsSlope x y := by
  unfold lsSlope
  rw [sumxy_aff c t x y hxy, sum_affY, ← hxy]
  ring

/-- the closed-form intercept of the transformed data is `c·a + t` -/
theorem lsIntercept_aff (c t : K) (x y : List K) (hxy : x.length = y.length) (hn : x.length ≠ 0) :
    lsIntercept x (affY c t y) = c * lsIntercept x y + t := by
  have hnK : (x.length : K) ≠ 0 := Nat.cast_ne_zero.mpr hn
  unfold lsIntercept
  rw [lsSlope_aff c t x y hxy, sum_affY, ← hxy]
  field_simp
  ring

/-- the residual sum of squares of the transformed line on the transformed data is `c²` times the original one -/
theorem sse_aff (c t a b : K) (x y : List K) :
    sse [c * a + t, c * b] x (affY c t y) = c ^ 2 * sse [a, b] x y := by
  unfold sse
  rw [zip_aff_map, ← sum_map_mul_left']
  congr 1
  apply List.map_congr_left
  intro p _
  simp only [predict_pair]
  ring

/-- the total sum of squares of the transformed responses is `c²` times the original one -/
theorem sst_aff (c t : K) (y : List K) : sst (affY c t y) = c ^ 2 * sst y := by
  unfold sst
  rw [sum_affY, length_affY]
  by_cases hn : y.length = 0
  · have : y = [] := List.eq_nil_of_length_eq_zero hn
    subst this
    simp [affY]
  · have hnK : (y.length : K) ≠ 0 := Nat.cast_ne_zero.mpr hn
    have hm : (c * y.sum + (y.length : K) * t) / (y.length : K) = c * (y.sum / (y.length : K)) + t := by
      field_simp
    rw [hm]
    unfold affY
    rw [List.map_map, ← sum_map_mul_left']
    congr 1
    apply List.map_congr_left
    intro v _
    simp only [Function.comp]
    ring

/-- `r²` of the transformed line on the transformed data is the original `r²` (`c ≠ 0`) -/
theorem r2Spec_aff (c t a b : K) (hc : c ≠ 0) (x y : List K) :
    r2Spec [c * a + t, c * b] x (affY c t y) = r2Spec [a, b] x y := by
  unfold r2Spec
  rw [sse_aff, sst_aff]
  have hc2 : c ^ 2 ≠ 0 := pow_ne_zero 2 hc
  by_cases h : sst y = 0
  · rw [if_pos h, if_pos (by rw [h, mul_zero])]
  · rw [if_neg h, if_neg (mul_ne_zero hc2 h), ← mul_sub, mul_div_mul_left _ _ hc2]

/-- the standard error of the transformed line on the transformed data is `|c|` times the original one, given that
the `sqrt` parameter satisfies `sqrt (c² v) = |c| sqrt v` -/
theorem stdErrSpec_aff (sqrt : K → K) (c t a b : K) (hs : ∀ v, sqrt (c ^ 2 * v) = |c| * sqrt v) (x y : List K) :
    stdErrSpec sqrt [c * a + t, c * b] x (affY c t y)
      = (stdErrSpec sqrt [a, b] x y).map fun s => |c| * s := by
  unfold stdErrSpec
  rw [sse_aff, length_affY]
  by_cases h : y.length = 2
  · rw [if_pos h, if_pos h]
    rfl
  · rw [if_neg h, if_neg h, mul_div_assoc, hs]
    rfl

/-! ### `lsFit` -/

private theorem lsFit_some (sqrt : K → K) (x y : List K) (hxy : x.length = y.length)
    (h0 : x.length ≠ 0) (hD : lsD x ≠ 0) :
    lsFit sqrt x y = some
      { coeffs := [lsIntercept x y, lsSlope x y],
        stdErr := stdErrSpec sqrt [lsIntercept x y, lsSlope x y] x y,
        r2 := r2Spec [lsIntercept x y, lsSlope x y] x y } := by
  rw [lsFit_eq, if_neg h0, if_neg hD, hxy,
    mkFit_spec sqrt _ _ x y (fun t => (predict_pair _ _ t).symm)]

/-- **the line fit is undefined on the transformed responses exactly when it is on the original ones** — for every
`c` and `t`, whatever the lengths: definedness (`n ≠ 0`, `D ≠ 0`) is a function of `x` alone -/
theorem ls_affine_none_iff (sqrt : K → K) (c t : K) (x y : List K) :
    lsFit sqrt x (affY c t y) = none ↔ lsFit sqrt x y = none := by
  rw [SV.Props.C15.ls_defined_iff, SV.Props.C15.ls_defined_iff]

/-- **coefficients of `LeastSquaresRegression::fit` under `y ↦ c·y + t`**, every `c` (also `c = 0`): if the fit of
`(x, y)` is defined, so is the fit of `(x, c·y + t)`, the original coefficients are a pair `[a, b]` and the new ones
are `[c·a + t, c·b]` -/
theorem ls_affine_coeffs (sqrt : K → K) (c t : K) (x y : List K) (hxy : x.length = y.length) (f : Fit K)
    (h : lsFit sqrt x y = some f) :
    ∃ f' a b, lsFit sqrt x (affY c t y) = some f' ∧ f.coeffs = [a, b] ∧ f'.coeffs = [c * a + t, c * b] := by
  obtain ⟨h0, hD, hco⟩ := SV.Props.C15.ls_coeffs sqrt x y f h
  have hxy' : x.length = (affY c t y).length := by rw [length_affY, hxy]
  refine ⟨_, lsIntercept x y, lsSlope x y, lsFit_some sqrt x (affY c t y) hxy' h0 hD, hco, ?_⟩
  simp only
  rw [lsIntercept_aff c t x y hxy h0, lsSlope_aff c t x y hxy]

/-- the same in the words of `LinearModel::intercept` / `LinearModel::slope`: the reported intercept becomes
`c·a + t`, the reported slope `c·b` (every `c`) -/
theorem ls_affine_intercept_slope (sqrt : K → K) (c t : K) (x y : List K) (hxy : x.length = y.length) (f : Fit K)
    (h : lsFit sqrt x y = some f) :
    ∃ f', lsFit sqrt x (affY c t y) = some f' ∧
      intercept f'.coeffs = (intercept f.coeffs).map (fun a => c * a + t) ∧
      slope f'.coeffs = (slope f.coeffs).map (fun b => c * b) ∧
      (intercept f.coeffs).isSome ∧ (slope f.coeffs).isSome := by
  obtain ⟨f', a, b, h', hf, hf'⟩ := ls_affine_coeffs sqrt c t x y hxy f h
  refine ⟨f', h', ?_⟩
  rw [hf, hf']
  exact ⟨rfl, rfl, rfl, rfl⟩

/-- **`LeastSquaresRegression::fit` is equivariant under `y ↦ c·y + t`, `c ≠ 0`**: the whole outcome on the
transformed responses is the image of the outcome on the original ones — undefined stays undefined, the intercept
becomes `c·a + t`, the slope `c·b`, `r²` is unchanged and the standard error is multiplied by `|c|` -/
theorem ls_affine (sqrt : K → K) (c t : K) (hc : c ≠ 0) (hs : ∀ v, sqrt (c ^ 2 * v) = |c| * sqrt v)
    (x y : List K) (hxy : x.length = y.length) :
    lsFit sqrt x (affY c t y) = (lsFit sqrt x y).map (affFit c t) := by
  have hxy' : x.length = (affY c t y).length := by rw [length_affY, hxy]
  by_cases h0 : x.length = 0
  · rw [(SV.Props.C15.ls_defined_iff sqrt x _).mpr (Or.inl h0),
      (SV.Props.C15.ls_defined_iff sqrt x _).mpr (Or.inl h0)]
    rfl
  · by_cases hD : lsD x = 0
    · rw [(SV.Props.C15.ls_defined_iff sqrt x _).mpr (Or.inr hD),
        (SV.Props.C15.ls_defined_iff sqrt x _).mpr (Or.inr hD)]
      rfl
    · rw [lsFit_some sqrt x (affY c t y) hxy' h0 hD, lsFit_some sqrt x y hxy h0 hD, Option.map_some,
        lsIntercept_aff c t x y hxy h0, lsSlope_aff c t x y hxy]
      unfold affFit
      simp only [Option.some.injEq, Fit.mk.injEq]
      exact ⟨rfl, stdErrSpec_aff sqrt c t _ _ hs x y, r2Spec_aff c t _ _ hc x y⟩

/-! ### gradient descent -/

private theorem gsum0_aff (c t w1 w2 : K) (x y : List K) :
    ((x.zip (affY c t y)).map fun p => (c * w1 + t) + (c * w2) * p.1 - p.2).sum
      = c * ((x.zip y).map fun p => w1 + w2 * p.1 - p.2).sum := by
  rw [zip_aff_map, ← sum_map_mul_left']
  congr 1
  apply List.map_congr_left
  intro p _
  ring

private theorem gsum1_aff (c t w1 w2 : K) (x y : List K) :
    ((x.zip (affY c t y)).map fun p => ((c * w1 + t) + (c * w2) * p.1 - p.2) * p.1).sum
      = c * ((x.zip y).map fun p => (w1 + w2 * p.1 - p.2) * p.1).sum := by
  rw [zip_aff_map, ← sum_map_mul_left']
  congr 1
  apply List.map_congr_left
  intro p _
  ring

/-- **one pass of the descent loop is equivariant**: on the responses `c·y + t`, from the weights
`(c·w₁ + t, c·w₂)`, the pass gives `(c·w₁' + t, c·w₂')` where `(w₁', w₂')` is the pass on `y` from `(w₁, w₂)` — every
`c`, `t`, step size, and every pair of lists (no hypothesis on the lengths, the empty lists included) -/
theorem gdStep_affine (α c t : K) (x y : List K) (w : K × K) :
    gdStep α x (affY c t y) (c * w.1 + t, c * w.2)
      = (c * (gdStep α x y w).1 + t, c * (gdStep α x y w).2) := by
  rw [gdStep_eq, gdStep_eq]
  simp only
  rw [gsum0_aff, gsum1_aff, length_affY, Prod.mk.injEq]
  constructor <;> ring

/-- **the descent loop is equivariant**, for every number of passes -/
theorem gdLoop_affine (α c t : K) (x y : List K) (k : Nat) (w : K × K) :
    gdLoop α x (affY c t y) k (c * w.1 + t, c * w.2)
      = (c * (gdLoop α x y k w).1 + t, c * (gdLoop α x y k w).2) := by
  induction k generalizing w with
  | zero => rfl
  | succ k ih => rw [gdLoop, gdLoop, gdStep_affine, ih]

private theorem gd_start_aff (c t : K) (y : List K) (hn : y.length ≠ 0) :
    ((affY c t y).sum / ((affY c t y).length : K), (0 : K))
      = (c * (y.sum / (y.length : K), (0 : K)).1 + t, c * (y.sum / (y.length : K), (0 : K)).2) := by
  have hnK : (y.length : K) ≠ 0 := Nat.cast_ne_zero.mpr hn
  rw [sum_affY, length_affY, Prod.mk.injEq]
  constructor
  · simp only
    field_simp
  · simp

/-- **coefficients of `GradientDescentRegression::fit` under `y ↦ c·y + t`**, every `c` (also `c = 0`), every step
size and number of passes: the code's starting point `(mean y, 0)` is mapped to the starting point of the transformed
problem, so the returned weights `(w₁, w₂)` become `(c·w₁ + t, c·w₂)` -/
theorem gd_affine_coeffs (α c t : K) (x y : List K) (hn : y.length ≠ 0) (steps : Nat) :
    gdLoop α x (affY c t y) steps ((affY c t y).sum / ((affY c t y).length : K), 0)
      = (c * (gdLoop α x y steps (y.sum / (y.length : K), 0)).1 + t,
         c * (gdLoop α x y steps (y.sum / (y.length : K), 0)).2) := by
  rw [gd_start_aff c t y hn, gdLoop_affine]

/-- **`GradientDescentRegression::fit` is equivariant under `y ↦ c·y + t`, `c ≠ 0`**: the whole outcome on the
transformed responses is the image of the outcome on the original ones (undefined stays undefined, intercept
`c·a + t`, slope `c·b`, `r²` unchanged, standard error times `|c|`) — every step size, every number of passes, no
hypothesis on the lengths -/
theorem gd_affine (sqrt : K → K) (c t : K) (hc : c ≠ 0) (hs : ∀ v, sqrt (c ^ 2 * v) = |c| * sqrt v)
    (steps : Nat) (α : K) (x y : List K) :
    gdFit sqrt steps α x (affY c t y) = (gdFit sqrt steps α x y).map (affFit c t) := by
  rw [gdFit_eq, gdFit_eq, length_affY]
  by_cases h0 : y.length = 0
  · rw [if_pos h0, if_pos h0]
    rfl
  · rw [if_neg h0, if_neg h0]
    have hl := gd_affine_coeffs α c t x y h0 steps
    rw [length_affY] at hl
    simp only [Option.map_some, Option.some.injEq]
    rw [hl]
    unfold affFit
    simp only [Fit.mk.injEq]
    exact ⟨rfl, stdErrSpec_aff sqrt c t _ _ hs x y, r2Spec_aff c t _ _ hc x y⟩

/-! ### what `affCoeffs` means -/

private theorem terms_map_sum (c q : K) (k : Nat) (bs : List K) :
    (terms q k (bs.map fun b => c * b)).sum = c * (terms q k bs).sum := by
  induction bs generalizing k with
  | nil => simp [terms]
  | cons b bs ih =>
    simp only [List.map_cons, terms, List.sum_cons, ih]
    ring

/-- `affCoeffs c t` is the coefficient list of the polynomial `c·p + t`: `LinearModel::predict` with the transformed
coefficients is `c·(old prediction) + t` at every point, for every (non-empty) coefficient list -/
theorem predict_affCoeffs (c t a : K) (bs : List K) (q : K) :
    predict (affCoeffs c t (a :: bs)) q = c * predict (a :: bs) q + t := by
  unfold predict affCoeffs
  rw [fsum_eq, fsum_eq]
  simp only [terms, List.sum_cons, terms_map_sum, powi_eq_pow, pow_zero]
  ring

/-! ### every polynomial order: residuals, normal equations and statistics -/

private theorem resid_aff (c t a : K) (bs : List K) (u v : K) :
    (c * v + t) - predict (affCoeffs c t (a :: bs)) u = c * (v - predict (a :: bs) u) := by
  rw [predict_affCoeffs]
  ring

/-- for every (non-empty) coefficient list — every polynomial order — the residual sum of squares of `c·p + t` on the
responses `c·y + t` is `c²` times that of `p` on `y` -/
theorem sse_affCoeffs (c t a : K) (bs : List K) (x y : List K) :
    sse (affCoeffs c t (a :: bs)) x (affY c t y) = c ^ 2 * sse (a :: bs) x y := by
  unfold sse
  rw [zip_aff_map, ← sum_map_mul_left']
  congr 1
  apply List.map_congr_left
  intro p _
  simp only
  rw [resid_aff]
  ring

/-- **the normal equations are equivariant**: if the coefficient list `p` (any order) solves the normal equations of
`(x, y)`, then `c·p + t` solves those of `(x, c·y + t)` — what a correct `PolynomialRegression::fit` (any solver that
solves the moment system) must therefore return on the transformed responses, up to the uniqueness of the solution -/
theorem normalEqs_affCoeffs (c t a : K) (bs : List K) (x y : List K) (h : NormalEqs (a :: bs) x y) :
    NormalEqs (affCoeffs c t (a :: bs)) x (affY c t y) := by
  intro j hj
  have hj' : j < (a :: bs).length := by
    simpa [affCoeffs] using hj
  have e : ((x.zip (affY c t y)).map fun p => (p.2 - predict (affCoeffs c t (a :: bs)) p.1) * p.1 ^ j)
      = (x.zip y).map fun p => c * ((p.2 - predict (a :: bs) p.1) * p.1 ^ j) := by
    rw [zip_aff_map]
    apply List.map_congr_left
    intro p _
    simp only
    rw [resid_aff]
    ring
  rw [e, sum_map_mul_left', h j hj', mul_zero]

/-- `r²` of `c·p + t` on `c·y + t` is `r²` of `p` on `y` (`c ≠ 0`), every polynomial order -/
theorem r2Spec_affCoeffs (c t a : K) (bs : List K) (hc : c ≠ 0) (x y : List K) :
    r2Spec (affCoeffs c t (a :: bs)) x (affY c t y) = r2Spec (a :: bs) x y := by
  unfold r2Spec
  rw [sse_affCoeffs, sst_aff]
  have hc2 : c ^ 2 ≠ 0 := pow_ne_zero 2 hc
  by_cases h : sst y = 0
  · rw [if_pos h, if_pos (by rw [h, mul_zero])]
  · rw [if_neg h, if_neg (mul_ne_zero hc2 h), ← mul_sub, mul_div_mul_left _ _ hc2]

/-- the standard error of `c·p + t` on `c·y + t` is `|c|` times that of `p` on `y`, every polynomial order -/
theorem stdErrSpec_affCoeffs (sqrt : K → K) (c t a : K) (bs : List K)
    (hs : ∀ v, sqrt (c ^ 2 * v) = |c| * sqrt v) (x y : List K) :
    stdErrSpec sqrt (affCoeffs c t (a :: bs)) x (affY c t y)
      = (stdErrSpec sqrt (a :: bs) x y).map fun s => |c| * s := by
  unfold stdErrSpec
  rw [sse_affCoeffs, length_affY]
  by_cases h : y.length = 2
  · rw [if_pos h, if_pos h]
    rfl
  · rw [if_neg h, if_neg h, mul_div_assoc, hs]
    rfl

/-- `c = 0` (all responses replaced by the constant `t`): `SST = 0`, so `r²` is undefined whatever the coefficients -/
theorem r2Spec_const (t : K) (cs : List K) (x y : List K) : r2Spec cs x (affY 0 t y) = none := by
  unfold r2Spec
  rw [sst_aff, if_pos (by ring)]

/-! ### `PolynomialRegression::fit`, every order, every sound solver -/

private theorem r2Spec_of_sse (c t : K) (hc : c ≠ 0) (cs cs' : List K) (x y : List K)
    (h : sse cs' x (affY c t y) = c ^ 2 * sse cs x y) :
    r2Spec cs' x (affY c t y) = r2Spec cs x y := by
  unfold r2Spec
  rw [h, sst_aff]
  have hc2 : c ^ 2 ≠ 0 := pow_ne_zero 2 hc
  by_cases h0 : sst y = 0
  · rw [if_pos h0, if_pos (by rw [h0, mul_zero])]
  · rw [if_neg h0, if_neg (mul_ne_zero hc2 h0), ← mul_sub, mul_div_mul_left _ _ hc2]

private theorem stdErrSpec_of_sse (sqrt : K → K) (c t : K) (hs : ∀ v, sqrt (c ^ 2 * v) = |c| * sqrt v)
    (cs cs' : List K) (x y : List K) (h : sse cs' x (affY c t y) = c ^ 2 * sse cs x y) :
    stdErrSpec sqrt cs' x (affY c t y) = (stdErrSpec sqrt cs x y).map fun s => |c| * s := by
  unfold stdErrSpec
  rw [h, length_affY]
  by_cases h2 : y.length = 2
  · rw [if_pos h2, if_pos h2]
    rfl
  · rw [if_neg h2, if_neg h2, mul_div_assoc, hs]
    rfl

private theorem affY_inv (c t : K) (hc : c ≠ 0) (y : List K) : affY c⁻¹ (-(t / c)) (affY c t y) = y := by
  unfold affY
  rw [List.map_map]
  conv_rhs => rw [← List.map_id y]
  apply List.map_congr_left
  intro v _
  simp only [Function.comp, id]
  field_simp
  ring

private theorem length_affCoeffs (c t : K) (cs : List K) : (affCoeffs c t cs).length = cs.length := by
  cases cs with
  | nil => rfl
  | cons a bs => simp [affCoeffs]

/-- **the polynomial fit of every order, with any solver that solves the moment system** (`SolveSound`; C08 proves it
of `gaussian_elimination`), under `y ↦ c·y + t`, `c ≠ 0`: whenever both fits succeed, the residual sum of squares of
the returned coefficients is multiplied by exactly `c²`, the reported `r²` is unchanged and the reported standard error
is multiplied by `|c|` — with no uniqueness assumption on the least-squares solution (the *minimum* is equivariant even
where the minimiser is not unique) -/
theorem poly_affine_stats (sqrt : K → K) (solve : Mat K → List K → Option (List K)) (hsol : SolveSound solve)
    (c t : K) (hc : c ≠ 0) (hs : ∀ v, sqrt (c ^ 2 * v) = |c| * sqrt v)
    (order : Nat) (x y : List K) (hxy : x.length = y.length) (f f' : Fit K)
    (h : polyFit sqrt solve order x y = .ok f) (h' : polyFit sqrt solve order x (affY c t y) = .ok f') :
    sse f'.coeffs x (affY c t y) = c ^ 2 * sse f.coeffs x y ∧
      f'.r2 = f.r2 ∧ f'.stdErr = f.stdErr.map fun s => |c| * s := by
  have hxy' : x.length = (affY c t y).length := by rw [length_affY, hxy]
  obtain ⟨hl, _⟩ := SV.Props.C15.poly_fit_normal_eqs sqrt solve hsol order x y hxy f h
  obtain ⟨hl', _⟩ := SV.Props.C15.poly_fit_normal_eqs sqrt solve hsol order x _ hxy' f' h'
  obtain ⟨a, bs, hf⟩ : ∃ a bs, f.coeffs = a :: bs := by
    cases hfc : f.coeffs with
    | nil => rw [hfc] at hl; simp at hl
    | cons a bs => exact ⟨a, bs, rfl⟩
  obtain ⟨a', bs', hf'⟩ : ∃ a' bs', f'.coeffs = a' :: bs' := by
    cases hfc : f'.coeffs with
    | nil => rw [hfc] at hl'; simp at hl'
    | cons a bs => exact ⟨a, bs, rfl⟩
  have hc2 : (0 : K) < c ^ 2 := by positivity
  -- the transformed old coefficients compete on the new data
  have le1 : sse f'.coeffs x (affY c t y) ≤ c ^ 2 * sse f.coeffs x y := by
    have := SV.Props.C15.poly_fit_optimal sqrt solve hsol order x _ hxy' f' h' (affCoeffs c t f.coeffs)
      (by rw [length_affCoeffs, hl])
    rw [hf, sse_affCoeffs] at this
    rw [hf]
    exact this
  -- the back-transformed new coefficients compete on the old data
  have le2 : sse f.coeffs x y ≤ (c⁻¹) ^ 2 * sse f'.coeffs x (affY c t y) := by
    have := SV.Props.C15.poly_fit_optimal sqrt solve hsol order x y hxy f h (affCoeffs c⁻¹ (-(t / c)) f'.coeffs)
      (by rw [length_affCoeffs, hl'])
    have e := sse_affCoeffs c⁻¹ (-(t / c)) a' bs' x (affY c t y)
    rw [affY_inv c t hc] at e
    rw [hf', e] at this
    rw [hf']
    exact this
  have hsse : sse f'.coeffs x (affY c t y) = c ^ 2 * sse f.coeffs x y := by
    apply le_antisymm le1
    have := mul_le_mul_of_nonneg_left le2 (le_of_lt hc2)
    have e : c ^ 2 * ((c⁻¹) ^ 2 * sse f'.coeffs x (affY c t y)) = sse f'.coeffs x (affY c t y) := by
      field_simp
    rw [e] at this
    exact this
  obtain ⟨r, se⟩ := SV.Props.C15.stats_are_functions_of_coeffs_poly sqrt solve order x y f h
  obtain ⟨r', se'⟩ := SV.Props.C15.stats_are_functions_of_coeffs_poly sqrt solve order x _ f' h'
  refine ⟨hsse, ?_, ?_⟩
  · rw [r, r', r2Spec_of_sse c t hc _ _ x y hsse]
  · rw [se, se', stdErrSpec_of_sse sqrt c t hs _ _ x y hsse]

/-- order 1 with a sound solver, where the line fit is defined (`n ≠ 0`, `D ≠ 0`, which makes the solution unique):
the coefficients returned by `PolynomialRegression::fit` on `c·y + t` are `[c·a + t, c·b]`, every `c` -/
theorem poly1_affine_coeffs (sqrt : K → K) (solve : Mat K → List K → Option (List K)) (hsol : SolveSound solve)
    (c t : K) (x y : List K) (hxy : x.length = y.length) (hn : x.length ≠ 0) (hD : lsD x ≠ 0) (f f' : Fit K)
    (h : polyFit sqrt solve 1 x y = .ok f) (h' : polyFit sqrt solve 1 x (affY c t y) = .ok f') :
    f'.coeffs = affCoeffs c t f.coeffs := by
  have hxy' : x.length = (affY c t y).length := by rw [length_affY, hxy]
  have e := SV.Props.C15.order1_eq_line_fit sqrt solve hsol x y hxy f _ h (lsFit_some sqrt x y hxy hn hD)
  have e' := SV.Props.C15.order1_eq_line_fit sqrt solve hsol x _ hxy' f' _ h'
    (lsFit_some sqrt x (affY c t y) hxy' hn hD)
  rw [e, e']
  simp only
  rw [lsIntercept_aff c t x y hxy hn, lsSlope_aff c t x y hxy]
  rfl

/-! ### affine maps of the abscissae -/

/-- what the change `x ↦ s·x + u` of the abscissae does to the coefficients of a line: `a + b·x = a' + b'·(s·x + u)`
with `b' = b/s`, `a' = a − b·u/s` (other lists are left alone; the line fit returns pairs only) -/
def reparam (s u : K) : List K → List K
  | [a, b] => [a - b * u / s, b / s]
  | cs => cs

private theorem zip_affx_map {γ : Type} (s u : K) (x y : List K) (g : K × K → γ) :
    ((affY s u x).zip y).map g = (x.zip y).map fun p => g (s * p.1 + u, p.2) := by
  unfold affY
  rw [List.zip_map_left, List.map_map]
  apply List.map_congr_left
  intro p _
  rfl

private theorem zip_snd_sum (x y : List K) (hxy : x.length = y.length) :
    ((x.zip y).map fun p => p.2).sum = y.sum := by
  have := map_zip_snd x y (fun t => t) (le_of_eq hxy.symm)
  simp only [List.map_id'] at this
  rw [this]

private theorem sumsq_affx (s u : K) (x : List K) :
    ((affY s u x).map fun xi => xi ^ 2).sum
      = s ^ 2 * (x.map fun xi => xi ^ 2).sum + 2 * s * u * x.sum + (x.length : K) * u ^ 2 := by
  unfold affY
  induction x with
  | nil => simp
  | cons a l ih =>
    simp only [List.map_cons, List.sum_cons, List.length_cons, Nat.cast_succ]
    rw [ih]
    ring

/-- the determinant `D = n Σx² − (Σx)²` of the transformed abscissae is `s²·D`: shifting does not change it, scaling
scales it quadratically — so `D = 0` is the only test on `D` that is invariant -/
theorem lsD_affx (s u : K) (x : List K) : lsD (affY s u x) = s ^ 2 * lsD x := by
  unfold lsD
  rw [sumsq_affx, sum_affY, length_affY]
  ring

private theorem sumxy_affx (s u : K) (x y : List K) (hxy : x.length = y.length) :
    (((affY s u x).zip y).map fun p => p.1 * p.2).sum
      = s * ((x.zip y).map fun p => p.1 * p.2).sum + u * y.sum := by
  rw [zip_affx_map]
  have e : ((x.zip y).map fun p => (s * p.1 + u, p.2).1 * (s * p.1 + u, p.2).2)
      = (x.zip y).map fun p => s * (p.1 * p.2) + u * p.2 := by
    apply List.map_congr_left
    intro p _
    ring
  rw [e, sum_map_add', sum_map_mul_left' (x.zip y) (fun p => p.1 * p.2) s,
    sum_map_mul_left' (x.zip y) (fun p => p.2) u, zip_snd_sum x y hxy]

/-- the closed-form slope after `x ↦ s·x + u` is `b/s` -/
theorem lsSlope_affx (s u : K) (hs : s ≠ 0) (x y : List K) (hxy : x.length = y.length) :
    lsSlope (affY s u x) y = lsSlope x y / s := by
  unfold lsSlope
  rw [lsD_affx, sumxy_affx s u x y hxy, sum_affY, length_affY]
  by_cases hD : lsD x = 0
  · rw [hD]; simp
  · field_simp
    ring

/-- the closed-form intercept after `x ↦ s·x + u` is `a − b·u/s` -/
theorem lsIntercept_affx (s u : K) (hs : s ≠ 0) (x y : List K) (hxy : x.length = y.length)
    (hn : x.length ≠ 0) :
    lsIntercept (affY s u x) y = lsIntercept x y - lsSlope x y * u / s := by
  have hnK : (x.length : K) ≠ 0 := Nat.cast_ne_zero.mpr hn
  unfold lsIntercept
  rw [lsSlope_affx s u hs x y hxy, sum_affY, length_affY]
  field_simp
  ring

/-- the reparametrised line has the same residuals on the transformed abscissae -/
theorem sse_affx (s u a b : K) (hs : s ≠ 0) (x y : List K) :
    sse [a - b * u / s, b / s] (affY s u x) y = sse [a, b] x y := by
  unfold sse
  rw [zip_affx_map]
  congr 1
  apply List.map_congr_left
  intro p _
  simp only [predict_pair]
  congr 1
  field_simp
  ring

/-- **`LeastSquaresRegression::fit` under an affine change `x ↦ s·x + u` of the abscissae, `s ≠ 0`**: undefined stays
undefined (`D` becomes `s²·D`), the fitted line is the same line written in the new abscissa (slope `b/s`, intercept
`a − b·u/s`), and `r²` and the standard error are unchanged.  No absolute threshold on `D`, on the spread of `x` or on
the slope can therefore be part of the algorithm. -/
theorem ls_affine_x (sqrt : K → K) (s u : K) (hs : s ≠ 0) (x y : List K) (hxy : x.length = y.length) :
    lsFit sqrt (affY s u x) y
      = (lsFit sqrt x y).map fun f => { f with coeffs := reparam s u f.coeffs } := by
  have hxy' : (affY s u x).length = y.length := by rw [length_affY, hxy]
  have hD' : lsD (affY s u x) = 0 ↔ lsD x = 0 := by
    rw [lsD_affx]
    constructor
    · intro h
      rcases mul_eq_zero.mp h with h | h
      · exact absurd h (pow_ne_zero 2 hs)
      · exact h
    · intro h
      rw [h, mul_zero]
  by_cases h0 : x.length = 0
  · rw [(SV.Props.C15.ls_defined_iff sqrt _ _).mpr (Or.inl (by rw [length_affY]; exact h0)),
      (SV.Props.C15.ls_defined_iff sqrt x _).mpr (Or.inl h0)]
    rfl
  · by_cases hD : lsD x = 0
    · rw [(SV.Props.C15.ls_defined_iff sqrt _ _).mpr (Or.inr (hD'.mpr hD)),
        (SV.Props.C15.ls_defined_iff sqrt x _).mpr (Or.inr hD)]
      rfl
    · rw [lsFit_some sqrt (affY s u x) y hxy' (by rw [length_affY]; exact h0) (fun h => hD (hD'.mp h)),
        lsFit_some sqrt x y hxy h0 hD, Option.map_some,
        lsIntercept_affx s u hs x y hxy h0, lsSlope_affx s u hs x y hxy]
      simp only [Option.some.injEq, Fit.mk.injEq, reparam]
      refine ⟨trivial, ?_, ?_⟩
      · unfold stdErrSpec
        rw [sse_affx s u _ _ hs]
      · unfold r2Spec
        rw [sse_affx s u _ _ hs]

/-! ### the order of the data points -/

private theorem zip_fst_snd (l : List (K × K)) : (l.map Prod.fst).zip (l.map Prod.snd) = l := by
  induction l with
  | nil => rfl
  | cons a l ih => simp only [List.map_cons, List.zip_cons_cons, ih]

private theorem perm_sum {γ : Type} {l l' : List γ} (h : l.Perm l') (g : γ → K) :
    (l.map g).sum = (l'.map g).sum := (h.map g).sum_eq

/-- **the closed-form fit depends on the multiset of data points only**: listing the pairs `(xᵢ, yᵢ)` in another order
gives the same outcome of `LeastSquaresRegression::fit` — same definedness, coefficients, `r²` and standard error -/
theorem ls_perm (sqrt : K → K) (l l' : List (K × K)) (h : l.Perm l') :
    lsFit sqrt (l.map Prod.fst) (l.map Prod.snd) = lsFit sqrt (l'.map Prod.fst) (l'.map Prod.snd) := by
  have hlen : l.length = l'.length := h.length_eq
  have hx : (l.map Prod.fst).sum = (l'.map Prod.fst).sum := perm_sum h _
  have hy : (l.map Prod.snd).sum = (l'.map Prod.snd).sum := perm_sum h _
  have hD : lsD (l.map Prod.fst) = lsD (l'.map Prod.fst) := by
    unfold lsD
    rw [List.map_map, List.map_map, List.length_map, List.length_map, hx, hlen, perm_sum h]
  have hS : lsSlope (l.map Prod.fst) (l.map Prod.snd) = lsSlope (l'.map Prod.fst) (l'.map Prod.snd) := by
    unfold lsSlope
    rw [hD, zip_fst_snd, zip_fst_snd, List.length_map, List.length_map, hx, hy, hlen, perm_sum h]
  have hI : lsIntercept (l.map Prod.fst) (l.map Prod.snd)
      = lsIntercept (l'.map Prod.fst) (l'.map Prod.snd) := by
    unfold lsIntercept
    rw [hS, List.length_map, List.length_map, hx, hy, hlen]
  have hsse : ∀ c : List K, sse c (l.map Prod.fst) (l.map Prod.snd)
      = sse c (l'.map Prod.fst) (l'.map Prod.snd) := by
    intro c
    unfold sse
    rw [zip_fst_snd, zip_fst_snd, perm_sum h]
  have hsst : sst (l.map Prod.snd) = sst (l'.map Prod.snd) := by
    unfold sst
    rw [hy, List.length_map, List.length_map, hlen, List.map_map, List.map_map, perm_sum h]
  have hl1 : (l.map Prod.fst).length = (l.map Prod.snd).length := by
    rw [List.length_map, List.length_map]
  have hl2 : (l'.map Prod.fst).length = (l'.map Prod.snd).length := by
    rw [List.length_map, List.length_map]
  by_cases h0 : (l.map Prod.fst).length = 0
  · have h0' : (l'.map Prod.fst).length = 0 := by
      rw [List.length_map, ← hlen, ← List.length_map Prod.fst]; exact h0
    rw [(SV.Props.C15.ls_defined_iff sqrt _ _).mpr (Or.inl h0),
      (SV.Props.C15.ls_defined_iff sqrt _ _).mpr (Or.inl h0')]
  · have h0' : (l'.map Prod.fst).length ≠ 0 := by
      rw [List.length_map, ← hlen, ← List.length_map Prod.fst]; exact h0
    by_cases hD0 : lsD (l.map Prod.fst) = 0
    · rw [(SV.Props.C15.ls_defined_iff sqrt _ _).mpr (Or.inr hD0),
        (SV.Props.C15.ls_defined_iff sqrt _ _).mpr (Or.inr (hD ▸ hD0))]
    · rw [lsFit_some sqrt _ _ hl1 h0 hD0, lsFit_some sqrt _ _ hl2 h0' (hD ▸ hD0), hI, hS]
      unfold stdErrSpec r2Spec
      rw [hsse, hsst, List.length_map, List.length_map, hlen]

/-- one pass of gradient descent depends on the multiset of data points only -/
theorem gdStep_perm (α : K) (l l' : List (K × K)) (h : l.Perm l') (w : K × K) :
    gdStep α (l.map Prod.fst) (l.map Prod.snd) w = gdStep α (l'.map Prod.fst) (l'.map Prod.snd) w := by
  rw [gdStep_eq, gdStep_eq, zip_fst_snd, zip_fst_snd, List.length_map, List.length_map, h.length_eq,
    perm_sum h, perm_sum h]

/-- **gradient descent depends on the multiset of data points only**: listing the pairs `(xᵢ, yᵢ)` in another order
gives the same outcome of `GradientDescentRegression::fit`, for every step size and number of passes -/
theorem gd_perm (sqrt : K → K) (steps : Nat) (α : K) (l l' : List (K × K)) (h : l.Perm l') :
    gdFit sqrt steps α (l.map Prod.fst) (l.map Prod.snd)
      = gdFit sqrt steps α (l'.map Prod.fst) (l'.map Prod.snd) := by
  have hlen : l.length = l'.length := h.length_eq
  have hy : (l.map Prod.snd).sum = (l'.map Prod.snd).sum := perm_sum h _
  have hloop : ∀ (k : Nat) (w : K × K), gdLoop α (l.map Prod.fst) (l.map Prod.snd) k w
      = gdLoop α (l'.map Prod.fst) (l'.map Prod.snd) k w := by
    intro k
    induction k with
    | zero => intro w; rfl
    | succ k ih => intro w; rw [gdLoop, gdLoop, gdStep_perm α l l' h, ih]
  have hsse : ∀ c : List K, sse c (l.map Prod.fst) (l.map Prod.snd)
      = sse c (l'.map Prod.fst) (l'.map Prod.snd) := by
    intro c
    unfold sse
    rw [zip_fst_snd, zip_fst_snd, perm_sum h]
  have hsst : sst (l.map Prod.snd) = sst (l'.map Prod.snd) := by
    unfold sst
    rw [hy, List.length_map, List.length_map, hlen, List.map_map, List.map_map, perm_sum h]
  rw [gdFit_eq, gdFit_eq]
  simp only [hloop, hy, List.length_map, hlen]
  unfold stdErrSpec r2Spec
  simp only [hsse, hsst, List.length_map, hlen]

/-! ### non-vacuity -/

/-- the fit of `x = [0,1,2,3]`, `y = [1,3,4,8]` is defined, with coefficients `[7/10, 11/5]` … -/
example : (lsFit (fun _ : ℚ => 0) [0, 1, 2, 3] [1, 3, 4, 8]).map (·.coeffs) = some [7 / 10, 11 / 5] := by
  decide +kernel

/-- … and the fit of `y ↦ -3·y + 5` has coefficients `[-3·(7/10) + 5, -3·(11/5)]`, as `ls_affine_coeffs` says -/
example : (lsFit (fun _ : ℚ => 0) [0, 1, 2, 3] (affY (-3) 5 [1, 3, 4, 8])).map (·.coeffs)
    = some [-3 * (7 / 10) + 5, -3 * (11 / 5)] := by
  decide +kernel

/-- an instance of `ls_affine` (the hypothesis on `sqrt` is satisfiable: here by the zero function) -/
example : lsFit (fun _ : ℚ => 0) [0, 1, 2, 3] (affY (-3) 5 [1, 3, 4, 8])
    = (lsFit (fun _ : ℚ => 0) [0, 1, 2, 3] [1, 3, 4, 8]).map (affFit (-3) 5) :=
  ls_affine _ (-3) 5 (by norm_num) (fun _ => by simp) _ _ rfl

/-- two passes of gradient descent on the same data move the weights (the loop equivariance is not about a constant) -/
example : gdLoop (1 / 10 : ℚ) [0, 1, 2, 3] [1, 3, 4, 8] 2 (4, 0) ≠ (4, 0) := by
  decide +kernel

/-- an instance of `ls_affine_x`: abscissae `x ↦ 2·x − 7` -/
example : (lsFit (fun _ : ℚ => 0) (affY 2 (-7) [0, 1, 2, 3]) [1, 3, 4, 8]).map (·.coeffs)
    = some [7 / 10 - 11 / 5 * (-7) / 2, 11 / 5 / 2] := by
  decide +kernel

end SV.Props.C15Affine
