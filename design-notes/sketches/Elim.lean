import Mathlib.Tactic.Ring
import Mathlib.Tactic.FieldSimp
import Mathlib.Tactic.Linarith
import Mathlib.Tactic.LinearCombination
import Mathlib.Algebra.BigOperators.Intervals
import Mathlib.Algebra.BigOperators.Ring.Finset
import Mathlib.Algebra.Order.Field.Basic

namespace Elim
open Finset
variable {K : Type} [Field K]

/-- one elimination step of gaussian_elim.rs at column `k`, on function-valued matrices:
only entries right of column k in rows below k change; column k below the diagonal keeps its garbage -/
def elimA (k : ℕ) (A : ℕ → ℕ → K) : ℕ → ℕ → K :=
  fun i j => if k < i ∧ k < j then A i j - A i k / A k k * A k j else A i j
def elimB (k : ℕ) (A : ℕ → ℕ → K) (b : ℕ → K) : ℕ → K :=
  fun i => if k < i then b i - A i k / A k k * b k else b i

/-- the matrix the algorithm *means* after k finished columns: zeros below the diagonal there -/
def conc (k : ℕ) (A : ℕ → ℕ → K) : ℕ → ℕ → K :=
  fun i j => if j < k ∧ j < i then 0 else A i j

def Solves (n : ℕ) (A : ℕ → ℕ → K) (b : ℕ → K) (x : ℕ → K) : Prop :=
  ∀ i, i < n → ∑ j ∈ range n, A i j * x j = b i

/-- row i (> k) of the new conceptual matrix is (old row i) − f·(old row k), entrywise -/
theorem conc_elim_row (k : ℕ) (A : ℕ → ℕ → K) (hp : A k k ≠ 0) (i j : ℕ) (hi : k < i) :
    conc (k+1) (elimA k A) i j = conc k A i j - A i k / A k k * conc k A k j := by
  unfold conc elimA
  by_cases h1 : j < k
  · have h5 : j < k + 1 := by omega
    have h2 : j < i := by omega
    have h6 : ¬ k < j := by omega
    simp [h1, h2, h5, h6]
  · by_cases h2 : j = k
    · subst h2
      have : j < j + 1 := by omega
      simp [hi, this]
      field_simp
      ring
    · have h3 : k < j := by omega
      have h4 : ¬ j < k + 1 := by omega
      simp [h1, h3, h4, hi]

theorem conc_elim_row_le (k : ℕ) (A : ℕ → ℕ → K) (i j : ℕ) (hi : i ≤ k) :
    conc (k+1) (elimA k A) i j = conc k A i j := by
  unfold conc elimA
  have h1 : ¬ k < i := by omega
  by_cases h2 : j < i
  · have : j < k := by omega
    have : j < k + 1 := by omega
    simp [h1, h2, *]
  · simp [h1, h2]

/-- the step preserves the solution set -/
theorem elim_preserves (n k : ℕ) (hk : k < n) (A : ℕ → ℕ → K) (b x : ℕ → K) (hp : A k k ≠ 0) :
    Solves n (conc k A) b x ↔ Solves n (conc (k+1) (elimA k A)) (elimB k A b) x := by
  have rowk : ∑ j ∈ range n, conc (k+1) (elimA k A) k j * x j = ∑ j ∈ range n, conc k A k j * x j := by
    apply sum_congr rfl; intro j _; rw [conc_elim_row_le k A k j (le_refl k)]
  constructor
  · intro h i hi
    by_cases hik : k < i
    · have e : ∑ j ∈ range n, conc (k+1) (elimA k A) i j * x j
            = ∑ j ∈ range n, conc k A i j * x j - A i k / A k k * ∑ j ∈ range n, conc k A k j * x j := by
        rw [mul_sum, ← sum_sub_distrib]
        apply sum_congr rfl; intro j _
        rw [conc_elim_row k A hp i j hik]; ring
      rw [e, h i hi, h k hk]; simp [elimB, hik]
    · have e : ∑ j ∈ range n, conc (k+1) (elimA k A) i j * x j = ∑ j ∈ range n, conc k A i j * x j := by
        apply sum_congr rfl; intro j _; rw [conc_elim_row_le k A i j (by omega)]
      rw [e, h i hi]; simp [elimB, hik]
  · intro h i hi
    have hkk := h k hk
    rw [rowk] at hkk
    have hbk : elimB k A b k = b k := by simp [elimB]
    rw [hbk] at hkk
    by_cases hik : k < i
    · have e : ∑ j ∈ range n, conc (k+1) (elimA k A) i j * x j
            = ∑ j ∈ range n, conc k A i j * x j - A i k / A k k * ∑ j ∈ range n, conc k A k j * x j := by
        rw [mul_sum, ← sum_sub_distrib]
        apply sum_congr rfl; intro j _
        rw [conc_elim_row k A hp i j hik]; ring
      have hi' := h i hi
      rw [e, hkk] at hi'
      simp only [elimB, hik, if_true] at hi'
      linear_combination hi'
    · have e : ∑ j ∈ range n, conc (k+1) (elimA k A) i j * x j = ∑ j ∈ range n, conc k A i j * x j := by
        apply sum_congr rfl; intro j _; rw [conc_elim_row_le k A i j (by omega)]
      have hi' := h i hi
      rw [e] at hi'
      simpa [elimB, hik] using hi'

end Elim
