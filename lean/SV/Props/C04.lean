import SV.Model.C04
import SV.Lemmas.C04
import SV.Props.C03
import Mathlib.MeasureTheory.Integral.IntervalIntegral.FundThmCalculus
/-!
# C04 — indefinite integrals are antiderivatives; the definite integral is F(b) − F(a)

Property theorems only (helpers: `SV.Lemmas.Poly`, `SV.Lemmas.C03`, `SV.Lemmas.C04`).  They speak about
the shared model `SV.Model.Poly` — `simpleInteg` (`indefinite_integral_simple`), `integInter`
(`indefinite_integral_intermediate`), `integUni` (the trait wrapper), `partialDeriv`, `evalTerms` — and
about `SV.C04.analytical` (`analytical_integral`), the same definitions the driver runs at `Float`.
"Up to rounding" is proved with rounding error 0 (exact field arithmetic); the rounding envelope is
measured by the check's exact-rational oracle, not proved.

Reading guide: DESIGN.md §6 "C04".
-/
namespace SV.Props.C04
open SV SV.Poly SV.C03 SV.C04 SV.Props.C03 Polynomial

/-! ### the dense univariate type -/

/-- **Differentiating the indefinite integral gives the coefficients back, exactly** (any field of
characteristic 0, every length), and the constant of integration is zero: position 0 of the result
is `0`. -/
theorem simple_deriv_integ {K : Type} [Field K] [CharZero K] (cs : List K) :
    simpleDeriv (simpleInteg cs) = cs ∧ (simpleInteg cs).head? = some 0 :=
  ⟨by simp only [simpleInteg, simpleDeriv]; exact derivFrom_integFrom 0 cs, rfl⟩

/-- zero constant of integration as a value: the integral vanishes at 0 -/
theorem simple_integ_at_zero {K : Type} [Field K] (cs : List K) :
    evalSimple (simpleInteg cs) 0 = 0 := by
  rw [evalSimple_eq]
  simp [simpleInteg, ofCoeffs, ofCoeffsFrom, ofCoeffsFrom_eval_zero]

/-- the integral of the dense type is an antiderivative over ℝ -/
theorem simple_integ_hasDerivAt (cs : List ℝ) (x : ℝ) :
    HasDerivAt (fun t => evalSimple (simpleInteg cs) t) (evalSimple cs x) x := by
  have h := simple_deriv_hasDerivAt (simpleInteg cs) x
  rwa [(simple_deriv_integ cs).1] at h

/-! ### the sparse multivariate type -/

section inter
variable {K : Type} [Field K] [LinearOrder K]

/-- **d/dv ∫ p dv = p in value.**  For a polynomial with well-formed terms, any variable name `v`
(present, absent, fresh) such that no term carries `v^(-1)`, and every binding list that covers the
names the polynomial uses: evaluating `partial_derivative(indefinite_integral(p, v), v)` succeeds and
gives the value of `p`.  `powf` is arbitrary up to `powf x 0 = 1` (used only where a term carries a
literal `v^0`, which comes back as "no `v`"); `v` itself need not be bound. -/
theorem inter_deriv_integ (powf : K → K → K) (hp0 : ∀ x, powf x 0 = 1)
    (p : IPoly K) (hwf : TermsWF p.terms) (v : String)
    (hne : ∀ t ∈ p.terms, ∀ q, (v, q) ∈ t.vars → q ≠ -1)
    (bs : List (String × K)) (hb : ∀ w ∈ termNames p.terms, (lookup bs w).isSome) :
    ∃ y, evalTerms powf p.terms bs = .ok y ∧
      evalTerms powf (partialDeriv (integInter p.terms v).terms v).terms bs = .ok y := by
  have hne' : ∀ t ∈ p.terms, ∀ q, (v, q) ∈ t.vars → q + 1 ≠ 0 :=
    fun t ht q hq h => hne t ht q hq (eq_neg_of_add_eq_zero_left h)
  obtain ⟨hval, hnm, _⟩ := roundtrip_terms powf hp0 (valuation bs) v p.terms hwf hne'
  refine ⟨_, evalTerms_eq powf p.terms bs hb, ?_⟩
  rw [evalTerms_eq powf _ bs]
  · congr 1
    unfold partialDeriv integInter
    simp only [polyVal_sortVars]
    exact hval
  · intro w hw
    unfold partialDeriv integInter at hw
    rw [mem_termNames_sorted] at hw
    exact hb w (hnm w hw)

/-- **… and structurally**: for a well-formed polynomial in which `v` occurs neither as `v^(-1)` nor
as a literal `v^0`, differentiating the integral returns the polynomial itself — coefficients,
exponents, order of the variables inside every term, order of the terms, variable list (the
appended `v^1` is removed again; sortedness restores the original order). -/
theorem inter_deriv_integ_struct (p : IPoly K) (hwf : WF p) (v : String)
    (hne : ∀ t ∈ p.terms, ∀ q, (v, q) ∈ t.vars → q ≠ -1)
    (hn0 : ∀ t ∈ p.terms, ∀ q, (v, q) ∈ t.vars → q ≠ 0) :
    partialDeriv (integInter p.terms v).terms v = p := by
  have hne' : ∀ t ∈ p.terms, ∀ q, (v, q) ∈ t.vars → q + 1 ≠ 0 :=
    fun t ht q hq h => hne t ht q hq (eq_neg_of_add_eq_zero_left h)
  obtain ⟨_, _, hstruct⟩ :=
    roundtrip_terms (fun _ _ => (1 : K)) (fun _ => rfl) (fun _ => 0) v p.terms hwf.1.1 hne'
  have hterms := hstruct hn0
  obtain ⟨ts, vars⟩ := p
  unfold partialDeriv integInter
  simp only at hterms ⊢
  rw [hterms]
  congr 1
  apply strictSorted_ext (strictSorted_variablesOf _) hwf.1.2.1
  intro w
  rw [mem_variablesOf, ← mem_termNames_sorted, hterms]
  exact ⟨fun h => hwf.1.2.2 w h, fun h => hwf.2 w h⟩

/-- **The integral is a well-formed polynomial again** (by-name entry point): sorted `NodupVars`
terms — a fresh variable is inserted at its sorted position —, variable list sorted, duplicate-free,
exactly the names in use; every term contains the integration variable (no constant of integration);
no other variable is introduced; bindings that evaluate the source and bind `v` evaluate it. -/
theorem integ_closed (powf : K → K → K) (p : IPoly K) (h : Usable p) (v : String) :
    WF (integInter p.terms v) ∧
    (∀ t ∈ (integInter p.terms v).terms, v ∈ names t.vars) ∧
    (∀ w ∈ (integInter p.terms v).variables, w ∈ p.variables ∨ w = v) ∧
    (∀ bs : List (String × K), (∀ w ∈ p.variables, (lookup bs w).isSome) → (lookup bs v).isSome →
      ∃ y, evalTerms powf (integInter p.terms v).terms bs = .ok y) := by
  have hwf := integInter_wf p.terms v h.1
  refine ⟨hwf, ?_, ?_, ?_⟩
  · intro t ht
    unfold integInter at ht
    simp only [List.map_map, List.mem_map, Function.comp] at ht
    obtain ⟨u, _, rfl⟩ := ht
    exact (names_sortVars_perm _).mem_iff.2 (integTerm_mem v u)
  · intro w hw
    rcases integInter_names p.terms v w (hwf.2 w hw) with h1 | h1
    · exact Or.inl (h.2.2 w h1)
    · exact Or.inr h1
  · intro bs hbs hv
    refine ⟨_, evalTerms_eq powf _ bs (fun w hw => ?_)⟩
    rcases integInter_names p.terms v w hw with h1 | h1
    · exact hbs w (h.2.2 w h1)
    · rw [h1]; exact hv

/-- the univariate entry point: `Ok` on every usable polynomial with at most one variable (none
included: a constant is integrated in `x`), and the result is well-formed with at most one variable,
so it can be evaluated, differentiated and integrated again (`SV.Props.C03.uni_chain_ok`) -/
theorem integ_uni_closed (p : IPoly K) (h : UniOK p) :
    ∃ q, integUni p = .ok q ∧ WF q ∧ UniOK q :=
  (uni_closed (fun _ _ => (0 : K)) p h).2.2

end inter

/-! ### `analytical_integral` -/

section analytical
variable {K : Type} [Field K] [LinearOrder K]

omit [LinearOrder K] in
/-- shape of the model of `analytical_integral`: `Ok` exactly when the integral and both
evaluations are `Ok`, and then it is `F(b) − F(a)` -/
theorem analytical_ok_iff (powf : K → K → K) (p : AnyPoly K) (a b u : K) :
    analytical powf p a b = .ok u ↔
      ∃ F fa fb, p.integUni = .ok F ∧ F.evalUni powf a = .ok fa ∧ F.evalUni powf b = .ok fb ∧
        u = fb - fa := by
  unfold analytical
  constructor
  · intro h
    split at h
    · cases h
    · rename_i F hF
      split at h
      · cases h
      · rename_i fa hfa
        split at h
        · cases h
        · rename_i fb hfb
          cases h
          exact ⟨F, fa, fb, hF, hfa, hfb, rfl⟩
  · rintro ⟨F, fa, fb, hF, hfa, hfb, rfl⟩
    simp only [hF, hfa, hfb]

omit [LinearOrder K] in
/-- **Additivity over adjacent intervals** for the model of `analytical_integral`, both polynomial
kinds, any split point `c` (inside or outside `[a,b]`): whenever the two partial integrals are `Ok`,
so is the whole one and it is their sum. -/
theorem analytical_additive (powf : K → K → K) (p : AnyPoly K) (a b c u w : K)
    (h1 : analytical powf p a c = .ok u) (h2 : analytical powf p c b = .ok w) :
    analytical powf p a b = .ok (u + w) := by
  obtain ⟨F, fa, fc, hF, hfa, hfc, rfl⟩ := (analytical_ok_iff powf p a c u).1 h1
  obtain ⟨F', fc', fb, hF', hfc', hfb, rfl⟩ := (analytical_ok_iff powf p c b w).1 h2
  rw [hF] at hF'
  cases hF'
  rw [hfc] at hfc'
  cases hfc'
  exact (analytical_ok_iff powf p a b _).2 ⟨F, fa, fb, hF, hfa, hfb, by ring⟩

omit [LinearOrder K] in
/-- **Swapping the bounds changes the sign.** -/
theorem analytical_swap (powf : K → K → K) (p : AnyPoly K) (a b u : K)
    (h : analytical powf p a b = .ok u) : analytical powf p b a = .ok (-u) := by
  obtain ⟨F, fa, fb, hF, hfa, hfb, rfl⟩ := (analytical_ok_iff powf p a b u).1 h
  exact (analytical_ok_iff powf p b a _).2 ⟨F, fb, fa, hF, hfb, hfa, by ring⟩

/-- **Error cases**: the dense type never fails; the sparse type is `Ok` on every usable polynomial
with at most one variable (constants included) and `TooManyVariables` with two or more — whatever
the bounds. -/
theorem analytical_total (powf : K → K → K) (a b : K) :
    (∀ q : SPoly K, ∃ u, analytical powf (.simple q) a b = .ok u) ∧
    (∀ q : IPoly K, UniOK q → ∃ u, analytical powf (.inter q) a b = .ok u) ∧
    (∀ q : IPoly K, q.variables.length > 1 →
      analytical powf (.inter q) a b = .error .tooManyVariables) := by
  refine ⟨fun q => ⟨_, rfl⟩, ?_, ?_⟩
  · intro q hq
    obtain ⟨F, hF, _, hFok⟩ := integ_uni_closed q hq
    obtain ⟨fa, hfa⟩ := (uni_closed powf F hFok).1 a
    obtain ⟨fb, hfb⟩ := (uni_closed powf F hFok).1 b
    exact ⟨fb - fa, (analytical_ok_iff powf _ a b _).2
      ⟨.inter F, fa, fb, by simp [AnyPoly.integUni, hF, Except.map], hfa, hfb, rfl⟩⟩
  · intro q hq
    simp [analytical, AnyPoly.integUni, integUni, hq, Except.map]

/-- additivity and sign change, unconditionally, on everything the univariate interface accepts -/
theorem analytical_additive_total (powf : K → K → K) (q : IPoly K) (hq : UniOK q) (a b c : K) :
    ∃ u w, analytical powf (.inter q) a c = .ok u ∧ analytical powf (.inter q) c b = .ok w ∧
      analytical powf (.inter q) a b = .ok (u + w) ∧ analytical powf (.inter q) b a = .ok (-(u + w)) := by
  obtain ⟨u, hu⟩ := (analytical_total powf a c).2.1 q hq
  obtain ⟨w, hw⟩ := (analytical_total powf c b).2.1 q hq
  have h := analytical_additive powf _ a b c u w hu hw
  exact ⟨u, w, hu, hw, h, analytical_swap powf _ a b _ h⟩

end analytical

/-! ### extension: the analytical integral *is* the integral (dense type, ℝ) -/

/-- `analytical_integral` of a dense polynomial equals `∫ x in a..b, p(x)` for all real bounds in
either order (fundamental theorem of calculus applied to `simple_integ_hasDerivAt`). -/
theorem analytical_is_integral (cs : List ℝ) (var : Option Char) (a b : ℝ) :
    analytical Real.rpow (.simple ⟨cs, var⟩) a b = .ok (∫ x in a..b, evalSimple cs x) := by
  have hcont : Continuous fun x => evalSimple cs x := by
    have : (fun x => evalSimple cs x) = fun x => (ofCoeffs cs).eval x := by
      funext x; exact evalSimple_eq cs x
    rw [this]
    exact continuous_iff_continuousAt.2 (fun x => ((ofCoeffs cs).hasDerivAt x).continuousAt)
  have hftc := intervalIntegral.integral_eq_sub_of_hasDerivAt
    (f := fun t => evalSimple (simpleInteg cs) t) (f' := fun x => evalSimple cs x) (a := a) (b := b)
    (fun x _ => simple_integ_hasDerivAt cs x) (hcont.intervalIntegrable a b)
  rw [hftc]
  rfl

/-- The same for the sparse type, on intervals of positive reals (where every real power is
differentiable, so zero, negative and fractional exponents are covered), no exponent `-1`:
`analytical_integral` of a usable polynomial with at most one variable equals the integral of the
function `eval_univariate` computes, bounds in either order. -/
theorem analytical_is_integral_inter (p : IPoly ℝ) (h : UniOK p)
    (hne : ∀ t ∈ p.terms, ∀ w q, (w, q) ∈ t.vars → q ≠ -1) (a b : ℝ) (ha : 0 < a) (hb : 0 < b) :
    ∃ f : ℝ → ℝ, (∀ x, evalUni Real.rpow p x = .ok (f x)) ∧
      analytical Real.rpow (.inter p) a b = .ok (∫ x in a..b, f x) := by
  obtain ⟨hu, h1⟩ := h
  have hgt : ¬ p.variables.length > 1 := by omega
  -- the integration variable the wrapper chooses, and the fact that it covers every name in use
  obtain ⟨v, hv, hF⟩ : ∃ v, (∀ w ∈ termNames p.terms, w = v) ∧ integUni p = .ok (integInter p.terms v) := by
    cases hvs : p.variables with
    | nil =>
      exact ⟨"x", fun w hw => by have := hu.2.2 w hw; simp [hvs] at this, by simp [integUni, hvs]⟩
    | cons w r =>
      rw [hvs] at h1
      have hr : r = [] := by cases r with | nil => rfl | cons _ _ => simp at h1
      subst hr
      exact ⟨w, fun u hmu => by have := hu.2.2 u hmu; rw [hvs] at this; simpa using this,
        by simp [integUni, hvs]⟩
  set σ : String → ℝ := valuation [] with hσ
  have hFwf := integInter_wf p.terms v hu.1
  have hFok : UniOK (integInter p.terms v) := by
    refine ⟨hFwf.1, length_le_one_of_subset_singleton hFwf.1.2.1 v (fun w hw => ?_)⟩
    rcases integInter_names p.terms v w (hFwf.2 w hw) with h' | h'
    · exact hv w h'
    · exact h'
  have hFnames : ∀ w ∈ termNames (integInter p.terms v).terms, w = v := fun w hw => by
    rcases integInter_names p.terms v w hw with h' | h'
    · exact hv w h'
    · exact h'
  -- the two value functions
  let f : ℝ → ℝ := fun x => polyVal Real.rpow (Function.update σ v x) p.terms
  let g : ℝ → ℝ := fun x => polyVal Real.rpow (Function.update σ v x) (integInter p.terms v).terms
  have hf : ∀ x, evalUni Real.rpow p x = .ok (f x) := fun x => evalUni_eq Real.rpow p hu h1 v hv x
  have hg : ∀ x, evalUni Real.rpow (integInter p.terms v) x = .ok (g x) :=
    fun x => evalUni_eq Real.rpow _ hFok.1 hFok.2 v hFnames x
  -- g' = f away from 0
  have hderiv : ∀ x, x ≠ 0 → HasDerivAt g (f x) x := by
    intro x hx
    have hd := hasDerivAt_partialDeriv σ v x (integInter p.terms v).terms hFwf.1.1
      (fun _ _ _ _ => Or.inl hx)
    refine hd.congr_deriv ?_
    have hrt := (roundtrip_terms Real.rpow (fun y => Real.rpow_zero y) (Function.update σ v x) v p.terms hu.1
      (fun t ht q hq hq1 => hne t ht v q hq (eq_neg_of_add_eq_zero_left hq1))).1
    unfold partialDeriv integInter
    simp only [polyVal_sortVars]
    exact hrt
  have hcont : ∀ x, x ≠ 0 → ContinuousAt f x := fun x hx =>
    (hasDerivAt_partialDeriv σ v x p.terms hu.1 (fun _ _ _ _ => Or.inl hx)).continuousAt
  have hpos : ∀ x ∈ Set.uIcc a b, x ≠ 0 := by
    intro x hx
    have : min a b ≤ x := (Set.mem_uIcc.1 hx).elim (fun h => le_trans (min_le_left _ _) h.1)
      (fun h => le_trans (min_le_right _ _) h.1)
    exact ne_of_gt (lt_of_lt_of_le (lt_min ha hb) this)
  have hint : IntervalIntegrable f MeasureTheory.volume a b :=
    ContinuousOn.intervalIntegrable (fun x hx => (hcont x (hpos x hx)).continuousWithinAt)
  have hftc := intervalIntegral.integral_eq_sub_of_hasDerivAt (f := g) (f' := f)
    (fun x hx => hderiv x (hpos x hx)) hint
  refine ⟨f, hf, ?_⟩
  rw [hftc]
  exact (analytical_ok_iff Real.rpow _ a b _).2
    ⟨.inter (integInter p.terms v), g a, g b, by simp [AnyPoly.integUni, hF, Except.map], hg a, hg b, rfl⟩

/-! ### non-vacuity -/

/-- `"3x^2 - 2x + 1"` as the dense parser returns it: integral `x^3 - x^2 + x`, derivative back -/
example : simpleInteg ([1, -2, 3] : List ℚ) = [0, 1, -1, 1] := by
  norm_num [simpleInteg, integFrom]

/-- `"2xy"` integrated in `x` then differentiated in `x` is `"2xy"` again (the structural theorem
applies: `WF`, no `x^0`, no `x^(-1)`) -/
example : WF (⟨[⟨2, [("x", 1), ("y", 1)]⟩], ["x", "y"]⟩ : IPoly ℚ) := by decide

/-- integrating the constant `5` in the fresh variable `x` and `y^2` in `x`: the new variable is
inserted in sorted position -/
example : (integInter [(⟨1, [("y", 2)]⟩ : Term ℚ)] "x").terms.map (fun t => (t.coef, t.vars))
    = [(1, [("x", 1), ("y", 2)])] := by
  have h : sortVars [("y", (2 : ℚ)), ("x", 1)] = [("x", 1), ("y", 2)] := by
    simp [sortVars, List.mergeSort, List.MergeSort.Internal.splitInTwo]
  simp [integInter, integTerm, integVars, h]

/-- the hypotheses of `analytical_is_integral_inter` are satisfiable with a fractional and a negative
exponent: `"x^1/2 - 3x^-2"` over `[1, 4]` -/
example : ∃ f : ℝ → ℝ,
    (∀ x, evalUni Real.rpow ⟨[⟨1, [("x", 1 / 2)]⟩, ⟨-3, [("x", -2)]⟩], ["x"]⟩ x = .ok (f x)) ∧
    analytical Real.rpow (.inter ⟨[⟨1, [("x", 1 / 2)]⟩, ⟨-3, [("x", -2)]⟩], ["x"]⟩) 1 4
      = .ok (∫ x in (1 : ℝ)..4, f x) := by
  refine analytical_is_integral_inter _ ⟨⟨?_, by decide, ?_⟩, by decide⟩ ?_ 1 4 one_pos (by norm_num)
  · intro t ht
    simp only [List.mem_cons, List.not_mem_nil, or_false] at ht
    rcases ht with rfl | rfl <;> decide
  · intro w hw
    simp only [termNames, names, List.flatMap_cons, List.flatMap_nil, List.map_cons, List.map_nil,
      List.append_nil, List.cons_append, List.nil_append, List.mem_cons, List.not_mem_nil, or_false,
      or_self] at hw
    simp [hw]
  · intro t ht w q hq
    simp only [List.mem_cons, List.not_mem_nil, or_false] at ht
    rcases ht with rfl | rfl
    · simp only [List.mem_singleton, Prod.mk.injEq] at hq
      rw [hq.2]; norm_num
    · simp only [List.mem_singleton, Prod.mk.injEq] at hq
      rw [hq.2]; norm_num

end SV.Props.C04
