#!/usr/bin/env python3
"""reeval_seeds.py [-j N] [ids...]: re-run the CURRENT checks against every kept seeded change
(/verif/seeded/<id>/patch.diff), breaking (-s*) and property-preserving (-b*), and refresh meta.json.

Each job uses a private scratch worktree of /repo under /tmp/reeval/<id> and a private copy of /verif
under /tmp/reeval/v<k> (so the registered evidence, the registered harness build and /repo itself are
never touched); both are removed at the end.  Nothing here is used by a registered command."""
import json, os, subprocess, sys, shutil, time
from concurrent.futures import ThreadPoolExecutor
import queue

ROOT = os.path.dirname(os.path.dirname(os.path.abspath(__file__)))
BASE = "/tmp/reeval"


def sh(cmd, cwd=None, env=None, timeout=7200):
    e = dict(os.environ)
    e["CARGO_NET_OFFLINE"] = "true"
    if env:
        e.update(env)
    p = subprocess.run(cmd, cwd=cwd, env=e, stdout=subprocess.PIPE, stderr=subprocess.STDOUT, text=True, timeout=timeout)
    return p.returncode, p.stdout


def job(sid, copies):
    prop = sid.split("-")[0]
    v = copies.get()
    w = f"{BASE}/{sid}"
    try:
        sh(["git", "-C", "/repo", "worktree", "remove", "--force", w])
        rc, out = sh(["git", "-C", "/repo", "worktree", "add", "--detach", "-q", w, "HEAD"])
        if rc != 0:
            return sid, {"error": "worktree: " + out[-300:]}
        rc, out = sh(["git", "apply", f"{ROOT}/seeded/{sid}/patch.diff"], cwd=w)
        if rc != 0:
            rc, out = sh(["git", "apply", "--3way", f"{ROOT}/seeded/{sid}/patch.diff"], cwd=w)
        if rc != 0:
            return sid, {"error": "patch does not apply to the current /repo HEAD: " + out[-300:]}
        res = {}
        t0 = time.time()
        rc, out = sh(["./check", prop], cwd=v, env={"VERIF_REPO": w})
        tail = "\n".join(out.strip().split("\n")[-5:])
        viol = [l for l in out.split("\n") if l.startswith("VIOLATION")]
        res["quick"] = {"alarm": bool(viol), "exit": rc, "no_failing_input": any("no-failing-input-found" in l for l in viol),
                        "tail": tail[-900:], "wall_s": round(time.time() - t0, 1)}
        if not viol and "-s" in sid:
            t0 = time.time()
            rc, out = sh(["./check", prop, "--tier", "thorough"], cwd=v, env={"VERIF_REPO": w})
            viol = [l for l in out.split("\n") if l.startswith("VIOLATION")]
            res["thorough"] = {"alarm": bool(viol), "exit": rc, "no_failing_input": any("no-failing-input-found" in l for l in viol),
                               "tail": "\n".join(out.strip().split("\n")[-5:])[-900:], "wall_s": round(time.time() - t0, 1)}
        return sid, res
    finally:
        sh(["git", "-C", "/repo", "worktree", "remove", "--force", w])
        copies.put(v)


def main():
    args = sys.argv[1:]
    j = 4
    if args and args[0] == "-j":
        j = int(args[1]); args = args[2:]
    ids = args or sorted(d for d in os.listdir(f"{ROOT}/seeded") if os.path.exists(f"{ROOT}/seeded/{d}/patch.diff"))
    os.makedirs(BASE, exist_ok=True)
    copies = queue.Queue()
    for k in range(j):
        v = f"{BASE}/v{k}"
        sh(["rsync", "-a", "--delete", "--exclude", ".git", "--exclude", "replays", ROOT + "/", v + "/"])
        copies.put(v)
    rev = sh(["git", "-C", "/repo", "rev-parse", "--short", "HEAD"])[1].strip()
    vrev = sh(["git", "-C", ROOT, "rev-parse", "--short", "HEAD"])[1].strip()
    with ThreadPoolExecutor(j) as ex:
        for sid, res in ex.map(lambda s: job(s, copies), ids):
            mp = f"{ROOT}/seeded/{sid}/meta.json"
            meta = json.load(open(mp)) if os.path.exists(mp) else {"id": sid, "property": sid.split("-")[0]}
            meta["current"] = dict(res, repo_rev=rev, verif_rev=vrev + "+")
            json.dump(meta, open(mp, "w"), indent=1)
            q = res.get("quick", {})
            t = res.get("thorough")
            print(sid, "ERROR " + res["error"] if "error" in res else
                  f"quick alarm={q.get('alarm')} nfi={q.get('no_failing_input')}" + (f" thorough alarm={t['alarm']} nfi={t['no_failing_input']}" if t else ""), flush=True)
    shutil.rmtree(BASE, ignore_errors=True)
    sh(["git", "-C", "/repo", "worktree", "prune"])


if __name__ == "__main__":
    main()
