import SV.Props.C08
/-!
# C08 — algebraic laws of the Gaussian-elimination model

Corollaries of soundness + uniqueness (`SV.Props.C08.gauss_sound`, `gauss_unique`) that hold for
every size, every matrix and every positive tolerance: the answer is linear in the right-hand side,
zero for the zero right-hand side, and does not depend on the order in which the equations are
written.  A "robustness tweak" that special-cases particular right-hand sides, rows or magnitudes
breaks one of these.
-/
set_option linter.unusedSectionVars false

namespace SV.Props.C08Laws
open SV SV.C08 SV.Subst SV.Gauss SV.Props.C08 Finset

variable {K : Type} [Field K] [LinearOrder K] [IsStrictOrderedRing K] [Inhabited K]

/-- **Linearity in the right-hand side.**  If the solver answers `x` for `(A, b)`, `y` for `(A, c)`
and `z` for `(A, d)` where `d = α b + β c` entrywise, then `z = α x + β y` entrywise — for every
size and every positive tolerance. -/
theorem gauss_linear_rhs (A : Mat K) (b c d : Array K) (tol α β : K) (x y z : Array K)
    (htol : 0 < tol)
    (hd : ∀ i, i < A.h → vget d i = α * vget b i + β * vget c i)
    (hx : gaussSolve A b tol = .ok x) (hy : gaussSolve A c tol = .ok y)
    (hz : gaussSolve A d tol = .ok z) :
    ∀ i, i < A.h → vget z i = α * vget x i + β * vget y i := by
  obtain ⟨_, sx⟩ := gauss_sound A b tol x htol hx
  obtain ⟨_, sy⟩ := gauss_sound A c tol y htol hy
  intro i hi
  refine (gauss_unique A d tol z htol hz (fun j => α * vget x j + β * vget y j) ?_ i hi).symm
  intro r hr
  rw [hd r hr, ← sx r hr, ← sy r hr, Finset.mul_sum, Finset.mul_sum, ← Finset.sum_add_distrib]
  apply Finset.sum_congr rfl
  intro j _
  ring

/-- **Zero right-hand side.**  An accepted system whose right-hand side is zero in every entry is
answered with the zero vector. -/
theorem gauss_zero_rhs (A : Mat K) (b : Array K) (tol : K) (x : Array K) (htol : 0 < tol)
    (hb : ∀ i, i < A.h → vget b i = 0) (hx : gaussSolve A b tol = .ok x) :
    ∀ i, i < A.h → vget x i = 0 := by
  intro i hi
  refine (gauss_unique A b tol x htol hx (fun _ => 0) ?_ i hi).symm
  intro r hr
  rw [hb r hr]
  simp

/-- **Homogeneity** (the case `β = 0` of linearity, without a second solve): scaling the right-hand
side by `α` scales the answer by `α`. -/
theorem gauss_smul_rhs (A : Mat K) (b d : Array K) (tol α : K) (x z : Array K) (htol : 0 < tol)
    (hd : ∀ i, i < A.h → vget d i = α * vget b i)
    (hx : gaussSolve A b tol = .ok x) (hz : gaussSolve A d tol = .ok z) :
    ∀ i, i < A.h → vget z i = α * vget x i := by
  obtain ⟨_, sx⟩ := gauss_sound A b tol x htol hx
  intro i hi
  refine (gauss_unique A d tol z htol hz (fun j => α * vget x j) ?_ i hi).symm
  intro r hr
  rw [hd r hr, ← sx r hr, Finset.mul_sum]
  apply Finset.sum_congr rfl
  intro j _
  ring

/-- **The order of the equations does not matter.**  `(A', b')` lists equations of `(A, b)`: row
`i` of `A'` is row `σ i` of `A` and `b'[i] = b[σ i]` (in particular: `σ` a permutation of the row
indices).  If both calls return a vector, the two vectors are equal entry by entry. -/
theorem gauss_row_permutation_of_ok (A A' : Mat K) (b b' : Array K) (tol tol' : K) (σ : ℕ → ℕ)
    (x x' : Array K) (htol : 0 < tol) (htol' : 0 < tol')
    (hh : A'.h = A.h) (hσ : ∀ i, i < A.h → σ i < A.h)
    (hA : ∀ i j, i < A.h → j < A.h → A'.get i j = A.get (σ i) j)
    (hb : ∀ i, i < A.h → vget b' i = vget b (σ i))
    (hx : gaussSolve A b tol = .ok x) (hx' : gaussSolve A' b' tol' = .ok x') :
    ∀ i, i < A.h → vget x' i = vget x i := by
  obtain ⟨_, sx⟩ := gauss_sound A b tol x htol hx
  intro i hi
  refine (gauss_unique A' b' tol' x' htol' hx' (fun j => vget x j) ?_ i (hh ▸ hi)).symm
  intro r hr
  rw [hh] at hr ⊢
  rw [hb r hr, ← sx (σ r) (hσ r hr)]
  apply Finset.sum_congr rfl
  intro j hj
  rw [hA r j hr (by simpa using hj)]

/-- The returned arrays themselves are equal (same length, same entries). -/
theorem gauss_row_permutation_of_ok_array (A A' : Mat K) (b b' : Array K) (tol tol' : K)
    (σ : ℕ → ℕ) (x x' : Array K) (htol : 0 < tol) (htol' : 0 < tol')
    (hh : A'.h = A.h) (hσ : ∀ i, i < A.h → σ i < A.h)
    (hA : ∀ i j, i < A.h → j < A.h → A'.get i j = A.get (σ i) j)
    (hb : ∀ i, i < A.h → vget b' i = vget b (σ i))
    (hx : gaussSolve A b tol = .ok x) (hx' : gaussSolve A' b' tol' = .ok x') : x' = x := by
  have h := gauss_row_permutation_of_ok A A' b b' tol tol' σ x x' htol htol' hh hσ hA hb hx hx'
  have s1 := (gauss_sound A b tol x htol hx).1
  have s2 := (gauss_sound A' b' tol' x' htol' hx').1
  apply Array.ext (by omega)
  intro i h1 h2
  have := h i (by omega)
  simpa [vget, Array.getD_eq_getD_getElem?, h1, h2] using this

/-! ## acceptance does not read the right-hand side -/

/-- the two runs hold the same matrix and the same scale vector (the right-hand sides are free) -/
private def MRel (st st' : St K) : Prop := st.m = st'.m ∧ st.s = st'.s

/-- both runs are flagged, or both go on with the same matrix state -/
private def ORel : Option (St K) → Option (St K) → Prop
  | none, none => True
  | some a, some b => MRel a b
  | _, _ => False

private theorem partialPivot_mrel {st st' : St K} (n k : ℕ) (h : MRel st st') :
    MRel (partialPivot st n k) (partialPivot st' n k) := by
  obtain ⟨hm, hs⟩ := h
  unfold partialPivot
  rw [hm, hs]
  dsimp only
  split
  · exact ⟨hm, hs⟩
  · exact ⟨rfl, rfl⟩

private theorem elimStep_mrel {st st' : St K} (n k : ℕ) (h : MRel st st') :
    MRel (elimStep st n k) (elimStep st' n k) := by
  obtain ⟨hm, hs⟩ := h
  exact ⟨by simp only [elimStep, hm], by simp only [elimStep, hs]⟩

private theorem pivotSmall_mrel {st st' : St K} (tol : K) (k : ℕ) (h : MRel st st') :
    pivotSmall st tol k = pivotSmall st' tol k := by
  obtain ⟨hm, hs⟩ := h
  simp only [pivotSmall, hm, hs]

private theorem feLoop_mrel (tol : K) (n : ℕ) :
    ∀ (t k : ℕ) (st st' : St K), MRel st st' →
      ORel (feLoop tol n t k st) (feLoop tol n t k st') := by
  intro t
  induction t with
  | zero =>
    intro k st st' h
    simpa [feLoop, ORel] using h
  | succ t ih =>
    intro k st st' h
    have h1 := partialPivot_mrel n k h
    simp only [feLoop]
    rw [pivotSmall_mrel tol k h1]
    split
    · simp [ORel]
    · exact ih (k + 1) _ _ (elimStep_mrel n k h1)

/-- `forward_elimination` started on the same matrix and scales with two right-hand sides is flagged
for both or for neither, and ends with the same matrix. -/
private theorem forwardElim_mrel (tol : K) (n : ℕ) {st st' : St K} (h : MRel st st') :
    ORel (forwardElim tol n st) (forwardElim tol n st') := by
  have hl := feLoop_mrel tol n (n - 1) 0 st st' h
  unfold forwardElim
  cases h1 : feLoop tol n (n - 1) 0 st <;> cases h2 : feLoop tol n (n - 1) 0 st' <;>
    rw [h1, h2] at hl
  · simp [ORel]
  · simp [ORel] at hl
  · simp [ORel] at hl
  · rename_i a b
    have hab : MRel a b := by simpa [ORel] using hl
    dsimp only
    rw [pivotSmall_mrel tol (n - 1) hab]
    split
    · simp [ORel]
    · simpa [ORel] using hab

private theorem gaussSolve_eq (A : Mat K) (b : Array K) (tol : K)
    (h1 : A.h = A.w) (h2 : A.h = b.size) (h3 : A.h ≠ 0) :
    gaussSolve A b tol =
      if (List.range A.h).any (fun i => vget (vtab A.h (rowScale A A.h)) i == 0) then
        .err .singular
      else
        match forwardElim tol A.h (St.mk A b (vtab A.h (rowScale A A.h))) with
        | none => .err .singular
        | some st =>
          match backSubst st.m A.h st.r (vtab A.h fun _ => 0) with
          | .ok x => .ok x
          | _ => .panic := by
  unfold gaussSolve
  rw [if_neg (by simpa using h1), if_neg (by simpa using h2), if_neg h3]
  rfl

private theorem singular_transfer (A : Mat K) (b c : Array K) (tol : K)
    (h1 : A.h = A.w) (h2 : A.h = b.size) (h2' : A.h = c.size) (h3 : A.h ≠ 0)
    (h : gaussSolve A b tol = .err .singular) : gaussSolve A c tol = .err .singular := by
  rw [gaussSolve_eq A b tol h1 h2 h3] at h
  rw [gaussSolve_eq A c tol h1 h2' h3]
  split
  · rfl
  · rename_i hany
    rw [if_neg hany] at h
    have hr := forwardElim_mrel tol A.h
      (st := St.mk A b (vtab A.h (rowScale A A.h))) (st' := St.mk A c (vtab A.h (rowScale A A.h)))
      ⟨rfl, rfl⟩
    cases e1 : forwardElim tol A.h (St.mk A b (vtab A.h (rowScale A A.h))) <;>
      cases e2 : forwardElim tol A.h (St.mk A c (vtab A.h (rowScale A A.h))) <;>
      rw [e1, e2] at hr
    · simp [ORel] at hr
    · rw [e1] at h
      dsimp only at h
      split at h <;> cases h

/-- **Acceptance does not depend on the right-hand side.**  For every matrix (any shape), every
tolerance (any sign) and any two right-hand sides of the same length, the solver refuses both with
the same error or answers both with a vector: the pivot search, the row exchanges and the tolerance
tests read the matrix and the scale vector only. -/
theorem gauss_acceptance_independent_of_rhs (A : Mat K) (b c : Array K) (tol : K)
    (hbc : b.size = c.size) :
    (∀ e, gaussSolve A b tol = .err e ↔ gaussSolve A c tol = .err e) ∧
    ((∃ x, gaussSolve A b tol = .ok x) ↔ (∃ y, gaussSolve A c tol = .ok y)) := by
  by_cases h1 : A.h = A.w
  · by_cases h2 : A.h = b.size
    · have h2' : A.h = c.size := by omega
      by_cases h3 : A.h = 0
      · have eb := (gauss_shape_errors A b tol).2.2.1 h1 h2 h3
        have ec := (gauss_shape_errors A c tol).2.2.1 h1 h2' h3
        rw [eb, ec]
        exact ⟨fun _ => Iff.rfl, by simp⟩
      · have t1 := singular_transfer A b c tol h1 h2 h2' h3
        have t2 := singular_transfer A c b tol h1 h2' h2 h3
        rcases gaussSolve_cases A b tol h1 h2 h3 with hb | ⟨x, hb⟩
        · rw [hb, t1 hb]
          exact ⟨fun _ => Iff.rfl, by simp⟩
        · rcases gaussSolve_cases A c tol h1 h2' h3 with hc | ⟨y, hc⟩
          · rw [t2 hc] at hb; cases hb
          · rw [hb, hc]
            exact ⟨fun e => by simp, by simp⟩
    · have eb := (gauss_shape_errors A b tol).2.1 h1 h2
      have ec := (gauss_shape_errors A c tol).2.1 h1 (by omega)
      rw [eb, ec, hbc]
      exact ⟨fun _ => Iff.rfl, by simp⟩
  · have eb := (gauss_shape_errors A b tol).1 h1
    have ec := (gauss_shape_errors A c tol).1 h1
    rw [eb, ec]
    exact ⟨fun _ => Iff.rfl, by simp⟩

/-- The singular verdict in particular: `(A, b)` is refused as singular iff `(A, c)` is. -/
theorem gauss_singular_independent_of_rhs (A : Mat K) (b c : Array K) (tol : K)
    (hbc : b.size = c.size) :
    gaussSolve A b tol = .err .singular ↔ gaussSolve A c tol = .err .singular :=
  (gauss_acceptance_independent_of_rhs A b c tol hbc).1 .singular

/-! ## the identity matrix -/

/-- the `n × n` identity matrix -/
def identity (n : ℕ) : Mat K := Mat.tab n n fun i j => if i = j then 1 else 0

/-- **Identity system (partial).**  Whenever the solver answers the system `I x = b` with a positive
tolerance, the answer is `b` itself, entry by entry, for every size.  Missing relative to the target
`gauss_identity`: the proof that the identity is accepted for every `n ≥ 1` and `0 < tol ≤ 1` (it is
checked for `n = 1, 2, 3` by the examples below; by `gauss_acceptance_independent_of_rhs` acceptance
for one right-hand side of length `n` gives it for all). -/
theorem gauss_identity_partial (n : ℕ) (b : Array K) (tol : K) (x : Array K) (htol : 0 < tol)
    (hx : gaussSolve (identity n) b tol = .ok x) : ∀ i, i < n → vget x i = vget b i := by
  obtain ⟨_, sx⟩ := gauss_sound (identity n) b tol x htol hx
  intro i hi
  have h := sx i hi
  have hh : (identity (K := K) n).h = n := rfl
  rw [hh] at h
  rw [← h, Finset.sum_eq_single i]
  · rw [identity, Mat.get_tab _ hi hi]; simp
  · intro j hj hji
    rw [identity, Mat.get_tab _ hi (by simpa using hj), if_neg (Ne.symm hji), zero_mul]
  · intro hni; exact absurd (by simpa using hi) hni

/-- **Identity system, given acceptance for one right-hand side (partial).**  If the identity of
size `n` is accepted for some right-hand side `c`, then for every `b` of the same length the solver
returns exactly the array `b`.  Missing relative to `gauss_identity`: acceptance itself for every
`n ≥ 1`, `0 < tol ≤ 1` (checked for `n = 1, 2, 3` below). -/
theorem gauss_identity_of_accepted_partial (n : ℕ) (b c : Array K) (tol : K) (htol : 0 < tol)
    (hbc : b.size = c.size) (hc : ∃ y, gaussSolve (identity n) c tol = .ok y) :
    gaussSolve (identity n) b tol = .ok b := by
  obtain ⟨x, hx⟩ := (gauss_acceptance_independent_of_rhs (identity n) b c tol hbc).2.mpr hc
  have hent := gauss_identity_partial n b tol x htol hx
  have s1 : x.size = n := (gauss_sound (identity n) b tol x htol hx).1
  have s2 : n = b.size := (gaussSolve_ok hx).2.1
  rw [hx]
  congr 1
  apply Array.ext (by omega)
  intro i h1 h2
  have := hent i (by omega)
  simpa [vget, Array.getD_eq_getD_getElem?, h1, h2] using this

/-! ## non-vacuity over ℚ -/

/-- the identity is accepted and answered with `b` (n = 1, 2, 3; tolerance 1) -/
example : gaussSolve (identity 1 : Mat ℚ) #[7] 1 = .ok #[7] := by decide +kernel
example : gaussSolve (identity 2 : Mat ℚ) #[7, -3] 1 = .ok #[7, -3] := by decide +kernel
example : gaussSolve (identity 3 : Mat ℚ) #[7, -3, 1 / 2] 1 = .ok #[7, -3, 1 / 2] := by
  decide +kernel

/-- linearity instantiated: `[[3,6],[5,-8]]` with `b = [12,2]`, `c = [3,5]`, `d = 2b + 3c` -/
example : ∀ i, i < 2 → vget (#[7, 2] : Array ℚ) i = 2 * vget (#[2, 1] : Array ℚ) i
    + 3 * vget (#[1, 0] : Array ℚ) i :=
  gauss_linear_rhs (⟨2, 2, #[3, 6, 5, -8]⟩ : Mat ℚ) #[12, 2] #[3, 5] #[33, 19]
    (1 / 1000000000000) 2 3 #[2, 1] #[1, 0] #[7, 2] (by norm_num)
    (by decide +kernel) (by decide +kernel) (by decide +kernel) (by decide +kernel)

/-- the equations in the other order give the same answer -/
example : gaussSolve (⟨2, 2, #[5, -8, 3, 6]⟩ : Mat ℚ) #[2, 12] (1 / 1000000000000) = .ok #[2, 1] := by
  decide +kernel

end SV.Props.C08Laws
