#!/bin/sh
# MANIFEST.setup_cmd — offline build of the framework from files on disk only.
set -e
cd "$(dirname "$0")"
export CARGO_NET_OFFLINE=true
python3 tools/extract_consts.py >/dev/null
(cd lean && lake build SV svdriver)
sed 's#@REPO@#/repo#g' harness/Cargo.toml.in > harness/Cargo.toml
cp -n /repo/Cargo.lock harness/Cargo.lock 2>/dev/null || true
(cd harness && cargo build --release --offline)
