//! C08 — `gaussian_elimination` (every accepted container kind), `back_substitution`,
//! `forward_substitution`.
//!
//! Requests (numbers are `i<int>` for small integers or the decimal u64 of the f64 bit pattern):
//!   gauss <kind> <h> <w> a… <nb> b… <tol>
//!   gaussjag <kind> <rows> <len₀> a… <len₁> a… … <nb> b… <tol>      (nested Vec, any row lengths)
//!   back|forward <h> <w> a… <size> <nb> b… <ns>                      (ns = length of the solution slice;
//!                                                                     the slice is handed over full of NaN, and the call is
//!                                                                     repeated on a used buffer and on one full of -inf)
//! Observations: `ok n f<bits>…` | `err nonsquare|numargs|singular|invalid|other` | `panic`.
//!
//! The harness's own verdict is the clause "identically for every accepted container type of the
//! same numbers": every other applicable container kind must give the same answer bit for bit.
//! The numerical clauses (backward error, singular ⇒ refused, well-conditioned ⇒ accepted, no
//! panic) are decided in exact rational arithmetic by tools/props/c08.py.
use crate::util::*;
use spindalis::solvers::{SolverError, gaussian_elimination};
use spindalis::utils::{Arr2D, back_substitution, forward_substitution};

// ---------------------------------------------------------------- wire

fn num(t: &mut Toks) -> f64 {
    let s = t.tok();
    match s.strip_prefix('i') {
        Some(r) => r.parse::<i64>().expect("int") as f64,
        None => f64::from_bits(s.parse::<u64>().expect("f64 bits")),
    }
}
fn show_num(x: f64) -> String {
    if x == x.trunc() && x.abs() <= 1e9 && (x != 0.0 || x.is_sign_positive()) {
        format!("i{}", x as i64)
    } else {
        format!("{}", x.to_bits())
    }
}
fn req_vec(xs: &[f64]) -> String {
    let mut s = format!("{}", xs.len());
    for x in xs {
        s.push(' ');
        s.push_str(&show_num(*x));
    }
    s
}

#[derive(Clone)]
struct Grid {
    h: usize,
    w: usize,
    v: Vec<f64>,
}
impl Grid {
    fn read(t: &mut Toks) -> Self {
        let h = t.usize();
        let w = t.usize();
        let v = (0..h * w).map(|_| num(t)).collect();
        Grid { h, w, v }
    }
    fn req(&self) -> String {
        let mut s = format!("{} {}", self.h, self.w);
        for x in &self.v {
            s.push(' ');
            s.push_str(&show_num(*x));
        }
        s
    }
    fn nested<T: Copy>(&self, f: impl Fn(f64) -> T) -> Vec<Vec<T>> {
        (0..self.h).map(|i| (0..self.w).map(|j| f(self.v[i * self.w + j])).collect()).collect()
    }
    fn arr<T: Copy>(&self, zero: T, f: impl Fn(f64) -> T) -> Arr2D<T> {
        let mut a = Arr2D::full(zero, self.h, self.w);
        for i in 0..self.h {
            for j in 0..self.w {
                a[(i, j)] = f(self.v[i * self.w + j]);
            }
        }
        a
    }
}
fn read_vec(t: &mut Toks) -> Vec<f64> {
    let n = t.usize();
    (0..n).map(|_| num(t)).collect()
}

fn fits_i32(x: f64) -> bool {
    x.abs() < 2e9 && ((x as i32) as f64).to_bits() == x.to_bits()
}
fn fits_f32(x: f64) -> bool {
    ((x as f32) as f64).to_bits() == x.to_bits()
}
fn fits_u8(x: f64) -> bool {
    (0.0..=255.0).contains(&x) && ((x as u8) as f64).to_bits() == x.to_bits()
}

fn show(r: Option<Result<Vec<f64>, SolverError>>) -> String {
    match r {
        None => "panic".into(),
        Some(Ok(x)) => format!("ok {}", fmt_vec_f(&x)),
        Some(Err(SolverError::NonSquareMatrix)) => "err nonsquare".into(),
        Some(Err(SolverError::NumArgumentsMismatch { .. })) => "err numargs".into(),
        Some(Err(SolverError::SingularMatrix)) => "err singular".into(),
        Some(Err(SolverError::InvalidVector(_))) => "err invalid".into(),
        Some(Err(_)) => "err other".into(),
    }
}

pub const KINDS: [&str; 9] = ["vf", "rvf", "raf", "rvi", "rai", "rvs", "ras", "rvu", "rau"];

/// Call the real solver through the named container kind; `None` = this kind cannot hold the numbers.
/// The right-hand side travels as `&[i32]` / `&[f32]` with the integer / single-precision kinds
/// whenever it is representable, as `&[f64]` otherwise.
fn solve(kind: &str, g: &Grid, b: &[f64], tol: f64) -> Option<String> {
    let elem = kind.chars().last().unwrap();
    // nested Vec cannot express 0 x w (w > 0)
    if kind.contains('v') && g.h == 0 && g.w > 0 {
        return None;
    }
    match elem {
        'f' => {}
        'i' => {
            if !g.v.iter().all(|x| fits_i32(*x)) {
                return None;
            }
        }
        's' => {
            if !g.v.iter().all(|x| fits_f32(*x)) {
                return None;
            }
        }
        'u' => {
            if !g.v.iter().all(|x| fits_u8(*x)) {
                return None;
            }
        }
        _ => panic!("kind"),
    }
    let bi: Option<Vec<i32>> = if b.iter().all(|x| fits_i32(*x)) { Some(b.iter().map(|x| *x as i32).collect()) } else { None };
    let bs: Option<Vec<f32>> = if b.iter().all(|x| fits_f32(*x)) { Some(b.iter().map(|x| *x as f32).collect()) } else { None };
    let bu: Option<Vec<u8>> = if b.iter().all(|x| fits_u8(*x)) { Some(b.iter().map(|x| *x as u8).collect()) } else { None };
    let r = match kind {
        "rvu" => {
            let m = g.nested(|x| x as u8);
            match &bu {
                Some(bu) => catch(|| gaussian_elimination(&m, bu, tol)),
                None => catch(|| gaussian_elimination(&m, b, tol)),
            }
        }
        "rau" => {
            let m = g.arr(0u8, |x| x as u8);
            match &bu {
                Some(bu) => catch(|| gaussian_elimination(&m, bu, tol)),
                None => catch(|| gaussian_elimination(&m, b, tol)),
            }
        }
        "vf" => {
            let m = g.nested(|x| x);
            catch(move || gaussian_elimination(m, b, tol))
        }
        "rvf" => {
            let m = g.nested(|x| x);
            catch(|| gaussian_elimination(&m, b, tol))
        }
        "raf" => {
            let m = g.arr(0.0f64, |x| x);
            catch(|| gaussian_elimination(&m, b, tol))
        }
        "rvi" => {
            let m = g.nested(|x| x as i32);
            match &bi {
                Some(bi) => catch(|| gaussian_elimination(&m, bi, tol)),
                None => catch(|| gaussian_elimination(&m, b, tol)),
            }
        }
        "rai" => {
            let m = g.arr(0i32, |x| x as i32);
            match &bi {
                Some(bi) => catch(|| gaussian_elimination(&m, bi, tol)),
                None => catch(|| gaussian_elimination(&m, b, tol)),
            }
        }
        "rvs" => {
            let m = g.nested(|x| x as f32);
            match &bs {
                Some(bs) => catch(|| gaussian_elimination(&m, bs, tol)),
                None => catch(|| gaussian_elimination(&m, b, tol)),
            }
        }
        "ras" => {
            let m = g.arr(0f32, |x| x as f32);
            match &bs {
                Some(bs) => catch(|| gaussian_elimination(&m, bs, tol)),
                None => catch(|| gaussian_elimination(&m, b, tol)),
            }
        }
        _ => panic!("unknown container kind {kind}"),
    };
    Some(show(r))
}

pub fn run(line: &str) -> Obs {
    let mut t = Toks::new(line);
    let cmd = t.tok();
    match cmd {
        "gauss" => {
            let kind = t.tok();
            let g = Grid::read(&mut t);
            let b = read_vec(&mut t);
            let tol = num(&mut t);
            let obs = solve(kind, &g, &b, tol).expect("requested container kind cannot hold these numbers");
            let mut verdict = Ok(());
            for k in KINDS {
                if k == kind {
                    continue;
                }
                if let Some(o) = solve(k, &g, &b, tol) {
                    if o != obs {
                        verdict = Err(format!("container kind {k} answers `{o}` but {kind} answers `{obs}` for the same numbers"));
                        break;
                    }
                }
            }
            Obs::with(obs, verdict)
        }
        "gaussjag" => {
            let kind = t.tok();
            let rows = t.usize();
            let m: Vec<Vec<f64>> = (0..rows).map(|_| read_vec(&mut t)).collect();
            let b = read_vec(&mut t);
            let tol = num(&mut t);
            let r = match kind {
                "vf" => {
                    let mm = m.clone();
                    catch(|| gaussian_elimination(mm, &b, tol))
                }
                _ => catch(|| gaussian_elimination(&m, &b, tol)),
            };
            Obs::plain(show(r))
        }
        "back" | "forward" => {
            let g = Grid::read(&mut t);
            let size = t.usize();
            let b = read_vec(&mut t);
            let ns = t.usize();
            let a = g.arr(0.0f64, |x| x);
            let is_back = cmd == "back";
            let call = |rhs: &[f64], sol: &mut [f64]| {
                if is_back {
                    back_substitution(&a, size, rhs, sol);
                } else {
                    forward_substitution(&a, size, rhs, sol);
                }
            };
            let r = catch(|| {
                // pre-filled with NaN: the routines must write every entry they are responsible for
                let mut sol = vec![f64::NAN; ns];
                call(&b, &mut sol);
                sol
            });
            // the same call on a buffer that an earlier call (another right-hand side) has used, and on a
            // buffer full of infinities: the answer must not depend on what the buffer held
            let mut verdict = Ok(());
            if let Some(fresh) = &r {
                const MARK: f64 = 7.5;
                let b2: Vec<f64> = b.iter().rev().map(|x| x * 3.0 + 1.0).collect();
                let reused = catch(|| {
                    let mut sol = vec![MARK; ns];
                    call(&b2, &mut sol);
                    call(&b, &mut sol);
                    sol
                });
                let inf = catch(|| {
                    let mut sol = vec![f64::NEG_INFINITY; ns];
                    call(&b, &mut sol);
                    sol
                });
                for (what, other, mark) in [("a reused buffer", &reused, MARK), ("a buffer pre-filled with -inf", &inf, f64::NEG_INFINITY)] {
                    match other {
                        None => {
                            verdict = Err(format!("the call panicked on {what} although it returned on a fresh one"));
                        }
                        Some(o) => {
                            let _ = mark;
                            for k in 0..size.min(ns) {
                                let want = fresh[k];
                                if o[k].to_bits() != want.to_bits() && !(o[k].is_nan() && want.is_nan()) {
                                    verdict = Err(format!(
                                        "component {k} is {} on {what} but {} on a fresh NaN-filled one: the result depends on the previous contents of the output slice",
                                        o[k], want
                                    ));
                                    break;
                                }
                            }
                        }
                    }
                    if verdict.is_err() {
                        break;
                    }
                }
            }
            Obs::with(
                match r {
                    None => "panic".into(),
                    Some(s) => format!("ok {}", fmt_vec_f(&s)),
                },
                verdict,
            )
        }
        _ => panic!("unknown C08 request {cmd}"),
    }
}

// ---------------------------------------------------------------- generators

fn pow2(e: i64) -> f64 {
    // exact for every exponent: `powi` computes the positive power first, so it gives 0 below 2^-1023
    let e = e as i32;
    if e > 1023 {
        f64::INFINITY
    } else if e >= -1022 {
        f64::from_bits(((e + 1023) as u64) << 52)
    } else if e >= -1074 {
        f64::from_bits(1u64 << (e + 1074))
    } else {
        0.0
    }
}

struct Gen<'a> {
    rng: Rng,
    emit: &'a mut dyn FnMut(String),
    count: usize,
}

impl<'a> Gen<'a> {
    /// emit one gauss request; the kind rotates over those that can hold the numbers
    fn gauss(&mut self, g: &Grid, b: &[f64], tol: f64) {
        let ints = g.v.iter().all(|x| fits_i32(*x));
        let singles = g.v.iter().all(|x| fits_f32(*x));
        let mut kinds: Vec<&str> = vec!["vf", "rvf", "raf"];
        if ints {
            kinds.extend(["rvi", "rai"]);
        }
        if singles {
            kinds.extend(["rvs", "ras"]);
        }
        if g.v.iter().all(|x| fits_u8(*x)) {
            kinds.extend(["rvu", "rau"]);
        }
        if g.h == 0 && g.w > 0 {
            kinds.retain(|k| !k.contains('v'));
        }
        let kind = kinds[self.count % kinds.len()];
        self.count += 1;
        (self.emit)(format!("gauss {kind} {} {} {}", g.req(), req_vec(b), show_num(tol)));
    }
    fn tol(&mut self) -> f64 {
        *self.rng.pick(&[1e-12, 1e-9])
    }
    fn scaled_rows(&mut self, g: &mut Grid, b: &mut [f64], emax: i64) {
        for i in 0..g.h {
            let s = pow2(self.rng.range(-emax, emax));
            for j in 0..g.w {
                g.v[i * g.w + j] *= s;
            }
            if i < b.len() {
                b[i] *= s;
            }
        }
    }
    fn rhs(&mut self, n: usize) -> Vec<f64> {
        match self.rng.below(8) {
            0 => vec![0.0; n],
            1 => (0..n).map(|_| self.rng.range(-3, 3) as f64).collect(),
            _ => (0..n).map(|_| self.rng.uniform(-4.0, 4.0)).collect(),
        }
    }
}

fn small_rhs(rng: &mut Rng, n: usize) -> Vec<f64> {
    (0..n).map(|_| rng.range(-3, 3) as f64).collect()
}

pub fn generate(seed: u64, thorough: bool, emit: &mut dyn FnMut(String)) {
    let mut gn = Gen { rng: Rng::new(seed ^ 0xC08), emit, count: 0 };

    // --- shapes: every h x w in 0..4 with every rhs length 0..4 (non-square, mismatched, empty)
    for h in 0..=4usize {
        for w in 0..=4usize {
            for nb in 0..=4usize {
                let v: Vec<f64> = (0..h * w).map(|k| if k % (w + 1) == 0 { 3.0 } else { ((k * 7 + 1) % 5) as f64 - 2.0 }).collect();
                let g = Grid { h, w, v };
                let b: Vec<f64> = (0..nb).map(|k| (k as f64) - 1.0).collect();
                gn.gauss(&g, &b, 1e-12);
            }
        }
    }
    // jagged nested Vecs
    for (k, lens) in [vec![2usize, 1], vec![1, 2], vec![3, 3, 2], vec![0, 1], vec![2, 2, 2], vec![2, 2], vec![], vec![0], vec![3, 0, 3]].iter().enumerate() {
        let mut s = format!("gaussjag {} {}", if k % 2 == 0 { "vf" } else { "rvf" }, lens.len());
        for (r, l) in lens.iter().enumerate() {
            let row: Vec<f64> = (0..*l).map(|c| if c == r { 4.0 } else { 1.0 }).collect();
            s.push(' ');
            s.push_str(&req_vec(&row));
        }
        let b: Vec<f64> = (0..lens.len()).map(|k| k as f64 + 1.0).collect();
        (gn.emit)(format!("{s} {} {}", req_vec(&b), show_num(1e-12)));
    }

    // --- 1 x 1 systems and tolerance corners
    for a in [0.0, -0.0, 1.0, -3.0, 1e-20, -1e20, 1e-300, 1e300, 0.1] {
        for tol in [1e-12, 1e-9, 0.0, -1.0, 1e-300, 0.5, 1.0, 2.0] {
            for b in [0.0, 1.0, -2.5] {
                gn.gauss(&Grid { h: 1, w: 1, v: vec![a] }, &[b], tol);
            }
        }
    }

    // --- exhaustive: all 2 x 2 matrices with entries -2..2, four right-hand sides, both tolerances
    for code in 0..625usize {
        let mut c = code;
        let v: Vec<f64> = (0..4).map(|_| { let e = (c % 5) as f64 - 2.0; c /= 5; e }).collect();
        let g = Grid { h: 2, w: 2, v };
        for b in [[1.0, 1.0], [1.0, -2.0], [0.0, 0.0], [3.0, 2.0]] {
            for tol in [1e-12, 1e-9] {
                gn.gauss(&g, &b, tol);
            }
        }
        // tolerance corners on the same matrices (correspondence only below rounding level)
        let tol = *gn.rng.pick(&[0.0, 1e-300, -1.0, 0.3, 1.0]);
        gn.gauss(&g, &[1.0, 2.0], tol);
    }

    // --- all (thorough) / a sample (quick) of the 3 x 3 matrices with entries -2..2
    let total3 = 1_953_125usize;
    let n3 = if thorough { total3 } else { 30_000 };
    for idx in 0..n3 {
        let code = if thorough { idx } else { gn.rng.below(total3 as u64) as usize };
        let mut c = code;
        let v: Vec<f64> = (0..9).map(|_| { let e = (c % 5) as f64 - 2.0; c /= 5; e }).collect();
        let g = Grid { h: 3, w: 3, v };
        let b = match code % 4 {
            0 => vec![1.0, 1.0, 1.0],
            1 => vec![1.0, -2.0, 3.0],
            2 => vec![0.0, 0.0, 0.0],
            _ => small_rhs(&mut gn.rng, 3),
        };
        let tol = if (code / 4) % 2 == 0 { 1e-12 } else { 1e-9 };
        gn.gauss(&g, &b, tol);
    }

    let reps = if thorough { 10 } else { 1 };

    // --- random real matrices, n <= 10, rows scaled by 2^-30..2^30
    for _ in 0..1500 * reps {
        let n = gn.rng.range(1, 10) as usize;
        let v: Vec<f64> = (0..n * n).map(|_| gn.rng.uniform(-1.0, 1.0)).collect();
        let mut g = Grid { h: n, w: n, v };
        let mut b = gn.rhs(n);
        gn.scaled_rows(&mut g, &mut b, 30);
        let tol = if gn.rng.chance(1, 10) { *gn.rng.pick(&[1e-6, 1e-15, 0.0, 1e-3]) } else { gn.tol() };
        gn.gauss(&g, &b, tol);
    }
    // --- well-conditioned by construction: strictly diagonally dominant rows (factor 2), scaled
    for _ in 0..600 * reps {
        let n = gn.rng.range(1, 10) as usize;
        let mut v: Vec<f64> = (0..n * n).map(|_| gn.rng.uniform(-1.0, 1.0)).collect();
        for i in 0..n {
            let off: f64 = (0..n).filter(|j| *j != i).map(|j| v[i * n + j].abs()).sum();
            let d = 2.0 * off + gn.rng.uniform(0.25, 1.0);
            v[i * n + i] = if gn.rng.chance(1, 2) { -d } else { d };
        }
        let mut g = Grid { h: n, w: n, v };
        let mut b = gn.rhs(n);
        gn.scaled_rows(&mut g, &mut b, 30);
        let tol = *gn.rng.pick(&[1e-12, 1e-9, 1e-6]);
        gn.gauss(&g, &b, tol);
    }
    // --- small-integer matrices (n <= 3, entries -2..2) with scaled rows: invertible ones must be accepted
    for _ in 0..600 * reps {
        let n = gn.rng.range(1, 3) as usize;
        let v: Vec<f64> = (0..n * n).map(|_| gn.rng.range(-2, 2) as f64).collect();
        let mut g = Grid { h: n, w: n, v };
        let mut b = small_rhs(&mut gn.rng, n);
        gn.scaled_rows(&mut g, &mut b, 30);
        let tol = *gn.rng.pick(&[1e-12, 1e-9, 1e-6]);
        gn.gauss(&g, &b, tol);
    }
    // --- exactly singular by construction (all arithmetic below is exact: small dyadic entries,
    //     power-of-two factors): zero row/column, repeated row/column, row = sum of two rows,
    //     product of thin integer factors
    for _ in 0..900 * reps {
        let n = gn.rng.range(2, 10) as usize;
        let mut v: Vec<f64> = (0..n * n).map(|_| gn.rng.dyadic(64, 4)).collect();
        let i = gn.rng.below(n as u64) as usize;
        let mut j = gn.rng.below(n as u64) as usize;
        if j == i {
            j = (i + 1) % n;
        }
        let f = pow2(gn.rng.range(-3, 3)) * if gn.rng.chance(1, 2) { -1.0 } else { 1.0 };
        match gn.rng.below(6) {
            0 => (0..n).for_each(|c| v[i * n + c] = 0.0),
            1 => (0..n).for_each(|r| v[r * n + i] = 0.0),
            2 => (0..n).for_each(|c| v[i * n + c] = f * v[j * n + c]),
            3 => (0..n).for_each(|r| v[r * n + i] = f * v[r * n + j]),
            4 if n >= 3 => {
                let l = (0..n).find(|l| *l != i && *l != j).unwrap();
                (0..n).for_each(|c| v[i * n + c] = v[j * n + c] + f * v[l * n + c]);
            }
            _ => {
                // (n x (n-1)) . ((n-1) x n) with entries -2..2
                let p: Vec<i64> = (0..n * (n - 1)).map(|_| gn.rng.range(-2, 2)).collect();
                let q: Vec<i64> = (0..n * (n - 1)).map(|_| gn.rng.range(-2, 2)).collect();
                for r in 0..n {
                    for c in 0..n {
                        v[r * n + c] = (0..n - 1).map(|k| p[r * (n - 1) + k] * q[k * n + c]).sum::<i64>() as f64;
                    }
                }
            }
        }
        let mut g = Grid { h: n, w: n, v };
        let mut b = gn.rhs(n);
        if gn.rng.chance(1, 2) {
            gn.scaled_rows(&mut g, &mut b, 30);
        }
        let tol = gn.tol();
        gn.gauss(&g, &b, tol);
    }
    // --- pivot ties: +-1 matrices, small integers, equal scaled ratios after row scaling
    for _ in 0..900 * reps {
        let n = gn.rng.range(2, 7) as usize;
        let style = gn.rng.below(3);
        let v: Vec<f64> = (0..n * n)
            .map(|_| match style {
                0 => if gn.rng.chance(1, 2) { 1.0 } else { -1.0 },
                1 => gn.rng.range(-3, 3) as f64,
                _ => gn.rng.range(-1, 1) as f64,
            })
            .collect();
        let mut g = Grid { h: n, w: n, v };
        let mut b = small_rhs(&mut gn.rng, n);
        if gn.rng.chance(1, 2) {
            gn.scaled_rows(&mut g, &mut b, 30);
        }
        let tol = gn.tol();
        gn.gauss(&g, &b, tol);
    }

    // --- triangular substitution
    for _ in 0..1200 * reps {
        let back = gn.rng.chance(1, 2);
        let n = gn.rng.range(1, 10) as usize;
        let garbage = gn.rng.chance(1, 2);
        let mut v = vec![0.0; n * n];
        for i in 0..n {
            let s = pow2(gn.rng.range(-30, 30));
            for j in 0..n {
                let in_tri = if back { j >= i } else { j <= i };
                let x = if i == j {
                    gn.rng.uniform(0.5, 2.0) * if gn.rng.chance(1, 2) { -1.0 } else { 1.0 }
                } else if in_tri || garbage {
                    gn.rng.uniform(-1.0, 1.0)
                } else {
                    0.0
                };
                v[i * n + j] = x * s;
            }
        }
        let b = gn.rhs(n);
        let ns = if gn.rng.chance(1, 6) { n + gn.rng.below(3) as usize } else { n };
        (gn.emit)(format!("{} {} {} {} {}", if back { "back" } else { "forward" }, Grid { h: n, w: n, v }.req(), n, req_vec(&b), ns));
    }
    // small-integer triangular systems, leading sub-systems (size < dimension), zero diagonal,
    // and the calls that panic (size 0 for back, size beyond a dimension, short slices)
    for _ in 0..400 * reps {
        let back = gn.rng.chance(1, 2);
        let h = gn.rng.range(0, 4) as usize;
        let w = if gn.rng.chance(3, 4) { h } else { gn.rng.range(0, 4) as usize };
        let v: Vec<f64> = (0..h * w).map(|k| if k % (w + 1) == 0 && !gn.rng.chance(1, 12) { *gn.rng.pick(&[1.0, -1.0, 2.0, -4.0, 0.5]) } else { gn.rng.range(-3, 3) as f64 }).collect();
        let size = if gn.rng.chance(2, 3) { h.min(w) } else { gn.rng.range(0, 5) as usize };
        let nb = if gn.rng.chance(3, 4) { size } else { gn.rng.range(0, 5) as usize };
        let ns = if gn.rng.chance(3, 4) { size } else { gn.rng.range(0, 5) as usize };
        let b = small_rhs(&mut gn.rng, nb);
        (gn.emit)(format!("{} {} {} {} {}", if back { "back" } else { "forward" }, Grid { h, w, v }.req(), size, req_vec(&b), ns));
    }
    harden(&mut gn, thorough);
}

// ---------------------------------------------------------------- families added after the seeded-change rounds

fn sign(rng: &mut Rng) -> f64 {
    if rng.chance(1, 2) { -1.0 } else { 1.0 }
}

fn dense(rng: &mut Rng, n: usize) -> Vec<f64> {
    (0..n * n).map(|_| rng.uniform(-1.0, 1.0)).collect()
}

/// strictly diagonally dominant rows (factor 2)
fn dominant(rng: &mut Rng, n: usize) -> Vec<f64> {
    let mut v = dense(rng, n);
    for i in 0..n {
        let off: f64 = (0..n).filter(|j| *j != i).map(|j| v[i * n + j].abs()).sum();
        v[i * n + i] = (2.0 * off + rng.uniform(0.25, 1.0)) * sign(rng);
    }
    v
}

fn emit_subst(gn: &mut Gen, back: bool, g: &Grid, size: usize, b: &[f64], ns: usize) {
    (gn.emit)(format!("{} {} {} {} {}", if back { "back" } else { "forward" }, g.req(), size, req_vec(b), ns));
}

fn harden(gn: &mut Gen, thorough: bool) {
    let reps = if thorough { 10 } else { 1 };

    // ---- RARE PATHS: nested vectors of every row-length tuple 0..4 for 2..4 rows, owned and borrowed (a
    // conversion that only compares the total with rows x len(first row), or only the last row, re-cuts these)
    for r in 2..=4usize {
        let mut lens = vec![0usize; r];
        let mut k = 0usize;
        loop {
            let mut s = format!("gaussjag {} {}", if k % 2 == 0 { "vf" } else { "rvf" }, r);
            k += 1;
            for (i, l) in lens.iter().enumerate() {
                let row: Vec<f64> = (0..*l).map(|c| if c == i { 4.0 } else { ((i + 2 * c) % 3) as f64 - 1.0 }).collect();
                s.push(' ');
                s.push_str(&req_vec(&row));
            }
            let nb = if k % 5 == 0 { lens[0] } else { r };
            let b: Vec<f64> = (0..nb).map(|k| k as f64 + 1.0).collect();
            (gn.emit)(format!("{s} {} {}", req_vec(&b), show_num(1e-12)));
            // next tuple
            let mut i = 0;
            while i < r {
                lens[i] += 1;
                if lens[i] <= 4 {
                    break;
                }
                lens[i] = 0;
                i += 1;
            }
            if i == r {
                break;
            }
        }
    }
    // unsigned bytes (the `rvu`/`rau` kinds rotate in whenever every entry is an integer in 0..=255)
    for _ in 0..150 * reps {
        let n = gn.rng.range(1, 6) as usize;
        let v: Vec<f64> = (0..n * n).map(|_| if gn.rng.chance(1, 3) { gn.rng.range(0, 255) } else { gn.rng.range(0, 3) } as f64).collect();
        let b: Vec<f64> = (0..n).map(|_| if gn.rng.chance(1, 4) { gn.rng.uniform(-4.0, 4.0) } else { gn.rng.range(0, 9) as f64 }).collect();
        let tol = gn.tol();
        gn.gauss(&Grid { h: n, w: n, v }, &b, tol);
    }

    // ---- SIZE: every order 11..=40 once (blocked / unrolled loops, fixed-size scratch arrays), 48 and 64
    for n in (11..=40usize).chain([48, 64]) {
        if n > 40 && !thorough {
            continue;
        }
        let v = if n % 3 == 0 { dominant(&mut gn.rng, n) } else { dense(&mut gn.rng, n) };
        let mut g = Grid { h: n, w: n, v };
        let mut b = gn.rhs(n);
        gn.scaled_rows(&mut g, &mut b, 30);
        gn.gauss(&g, &b, 1e-12);
        // a singular one of the same order (repeated row, scaled)
        if n % 4 == 0 {
            let mut v = dense(&mut gn.rng, n);
            let (i, j) = (n / 3, n - 1);
            for c in 0..n {
                v[i * n + c] = 0.25 * v[j * n + c];
            }
            let mut g = Grid { h: n, w: n, v };
            let mut b = gn.rhs(n);
            gn.scaled_rows(&mut g, &mut b, 30);
            gn.gauss(&g, &b, 1e-9);
        }
        // triangular solves of the same order
        for back in [true, false] {
            let mut v = vec![0.0; n * n];
            for i in 0..n {
                for j in 0..n {
                    let in_tri = if back { j >= i } else { j <= i };
                    v[i * n + j] = if i == j { gn.rng.uniform(0.5, 2.0) * sign(&mut gn.rng) } else if in_tri { gn.rng.uniform(-1.0, 1.0) / n as f64 } else { f64::NAN };
                }
            }
            let b = gn.rhs(n);
            emit_subst(gn, back, &Grid { h: n, w: n, v }, n, &b, n);
        }
    }

    // larger non-square shapes and right-hand sides one too short / too long at the orders 10 and 40
    for (h, w) in [(10usize, 9usize), (9, 10), (1, 10), (10, 1), (7, 3), (17, 16), (40, 39), (39, 40)] {
        let v: Vec<f64> = (0..h * w).map(|_| gn.rng.uniform(-1.0, 1.0)).collect();
        for nb in [h, w] {
            let b = gn.rhs(nb);
            gn.gauss(&Grid { h, w, v: v.clone() }, &b, 1e-12);
        }
    }
    for n in [10usize, 40] {
        let v = dominant(&mut gn.rng, n);
        for nb in [n - 1, n + 1, 0, 2 * n] {
            let b = gn.rhs(nb);
            gn.gauss(&Grid { h: n, w: n, v: v.clone() }, &b, 1e-12);
        }
    }

    // ---- SCALE
    for k in 0..700 * reps {
        let n = gn.rng.range(1, 10) as usize;
        let mut v = if k % 3 == 0 { dominant(&mut gn.rng, n) } else { dense(&mut gn.rng, n) };
        let mut b = gn.rhs(n);
        match k % 7 {
            // rows scaled by 2^-70..2^70 and by 2^-200..2^200 (the right-hand side with them)
            0 | 1 => {
                let mut g = Grid { h: n, w: n, v };
                gn.scaled_rows(&mut g, &mut b, if k % 7 == 0 { 70 } else { 200 });
                v = g.v;
            }
            // the whole system at one magnitude 2^e, e = -250..250, the right-hand side at another
            2 => {
                let e = gn.rng.range(-250, 250);
                let f = (e + gn.rng.range(-60, 60)).clamp(-300, 300);
                v.iter_mut().for_each(|x| *x *= pow2(e));
                b.iter_mut().for_each(|x| *x *= pow2(f));
            }
            // columns scaled (the unknowns differ by up to 2^60), rows scaled on top
            3 => {
                let emax = *gn.rng.pick(&[10, 30]);
                for j in 0..n {
                    let s = pow2(gn.rng.range(-emax, emax));
                    for i in 0..n {
                        v[i * n + j] *= s;
                    }
                }
                let mut g = Grid { h: n, w: n, v };
                if gn.rng.chance(1, 2) {
                    gn.scaled_rows(&mut g, &mut b, 30);
                }
                v = g.v;
            }
            // a right-hand side of tiny / huge / mixed magnitude against a matrix of order 1
            4 => {
                let style = gn.rng.below(3);
                for x in b.iter_mut() {
                    let e = match style {
                        0 => -gn.rng.range(40, 200),
                        1 => gn.rng.range(40, 200),
                        _ => gn.rng.range(-60, 60),
                    };
                    *x *= pow2(e);
                }
            }
            // one tiny row, one huge row, the rest of order 1; or one tiny / huge column
            5 => {
                let i = gn.rng.below(n as u64) as usize;
                let j = gn.rng.below(n as u64) as usize;
                let e = gn.rng.range(40, 120) * if gn.rng.chance(1, 2) { -1 } else { 1 };
                if gn.rng.chance(1, 2) {
                    for c in 0..n {
                        v[i * n + c] *= pow2(e);
                    }
                    b[i] *= pow2(e);
                    if i != j {
                        for c in 0..n {
                            v[j * n + c] *= pow2(-e);
                        }
                        b[j] *= pow2(-e);
                    }
                } else {
                    for r in 0..n {
                        v[r * n + j] *= pow2(e);
                    }
                }
            }
            // single entries far below / above the rest (2^-60 .. 2^-20 and 2^20): an absolute "is it zero?" test
            _ => {
                for x in v.iter_mut() {
                    if gn.rng.chance(1, 4) {
                        *x *= pow2(-gn.rng.range(20, 60));
                    }
                }
            }
        }
        let tol = if gn.rng.chance(1, 8) { *gn.rng.pick(&[1e-6, 1e-3]) } else { gn.tol() };
        gn.gauss(&Grid { h: n, w: n, v }, &b, tol);
    }
    // graded columns: below the diagonal a column holds 10^-t (t = 1..17) of its head, i.e. the matrix is already
    // (nearly) reduced; exact zeros below the diagonal in some columns
    for k in 0..170 * reps {
        let n = gn.rng.range(2, 10) as usize;
        let t = (k % 17 + 1) as i32;
        let mut v = dense(&mut gn.rng, n);
        for j in 0..n {
            let mode = gn.rng.below(3);
            for i in j + 1..n {
                match mode {
                    0 => v[i * n + j] *= 10f64.powi(-t),
                    1 => v[i * n + j] = 0.0,
                    _ => {}
                }
            }
            v[j * n + j] = gn.rng.uniform(0.5, 1.0) * sign(&mut gn.rng);
        }
        let mut g = Grid { h: n, w: n, v };
        let mut b = gn.rhs(n);
        if k % 2 == 0 {
            // shuffle the rows: the pivot search has to find the heads again
            for i in (1..n).rev() {
                let j = gn.rng.below(i as u64 + 1) as usize;
                for c in 0..n {
                    g.v.swap(i * n + c, j * n + c);
                }
                b.swap(i, j);
            }
        }
        if k % 3 == 0 {
            gn.scaled_rows(&mut g, &mut b, 30);
        }
        let tol = gn.tol();
        gn.gauss(&g, &b, tol);
    }
    // the last scaled pivot at every distance 10^-1 .. 10^-17 from 0: A = L0 U0 in small integers with
    // U0[n-1][n-1] = d (accepted or refused according to the tolerance; correspondence decides the boundary,
    // the oracle the residual of whatever is returned)
    for k in 0..170 * reps {
        let n = gn.rng.range(2, 6) as usize;
        let d = 10f64.powi(-((k % 17) as i32 + 1)) * if k % 2 == 0 { 1.0 } else { -1.0 };
        let mut l0 = vec![0.0; n * n];
        let mut u0 = vec![0.0; n * n];
        for i in 0..n {
            for j in 0..n {
                if i == j {
                    l0[i * n + j] = 1.0;
                    u0[i * n + j] = if i == n - 1 { d } else { *gn.rng.pick(&[-2.0, -1.0, 1.0, 2.0]) };
                } else if i > j {
                    l0[i * n + j] = gn.rng.range(-1, 1) as f64;
                } else {
                    u0[i * n + j] = gn.rng.range(-2, 2) as f64;
                }
            }
        }
        let mut v = vec![0.0; n * n];
        for i in 0..n {
            for j in 0..n {
                v[i * n + j] = (0..n).map(|t| l0[i * n + t] * u0[t * n + j]).sum();
            }
        }
        let b = small_rhs(&mut gn.rng, n);
        let tol = *gn.rng.pick(&[1e-12, 1e-9, 1e-6, 1e-3]);
        gn.gauss(&Grid { h: n, w: n, v }, &b, tol);
    }
    // a scaled pivot exactly equal to a dyadic tolerance (the test is `<`): [[2,1],[1,1/2+t]] has second scaled
    // pivot t; and one ulp on either side
    for e in [-10, -20, -30, -39] {
        let t = pow2(e);
        for tt in [t, t * (1.0 + f64::EPSILON), t * (1.0 - f64::EPSILON / 2.0)] {
            gn.gauss(&Grid { h: 2, w: 2, v: vec![2.0, 1.0, 1.0, 0.5 + t] }, &[1.0, 1.0], tt);
            gn.gauss(&Grid { h: 3, w: 3, v: vec![4.0, 0.0, 0.0, 0.0, 2.0, 1.0, 0.0, 1.0, 0.5 + t] }, &[1.0, 1.0, -1.0], tt);
        }
    }
    // subnormal and near-overflow systems (the oracle's rounding model does not apply: correspondence only)
    for k in 0..40 * reps {
        let n = gn.rng.range(1, 5) as usize;
        let e = if k % 2 == 0 { -gn.rng.range(1000, 1070) } else { gn.rng.range(960, 1020) };
        let v: Vec<f64> = dominant(&mut gn.rng, n).iter().map(|x| x * 0.125 * pow2(e)).collect();
        let b: Vec<f64> = (0..n).map(|_| gn.rng.uniform(-1.0, 1.0) * pow2(if k % 4 < 2 { e } else { 0 })).collect();
        let tol = gn.tol();
        gn.gauss(&Grid { h: n, w: n, v }, &b, tol);
    }

    // ---- ZEROS / SIGNS / TIES
    for k in 0..400 * reps {
        let n = gn.rng.range(1, 9) as usize;
        let mut v = dense(&mut gn.rng, n);
        let mut b = gn.rhs(n);
        match k % 10 {
            // every entry negative
            0 => v.iter_mut().for_each(|x| *x = -x.abs() - 0.01),
            // the entry of largest magnitude of every row is negative, the others are small and positive
            1 => {
                for i in 0..n {
                    let j = gn.rng.below(n as u64) as usize;
                    for c in 0..n {
                        v[i * n + c] = if c == j { -gn.rng.uniform(2.0, 4.0) } else { gn.rng.uniform(0.0, 1.0) };
                    }
                }
            }
            // the entry of largest magnitude of every column is negative
            2 => {
                for j in 0..n {
                    let i = gn.rng.below(n as u64) as usize;
                    for r in 0..n {
                        v[r * n + j] = if r == i { -gn.rng.uniform(2.0, 4.0) } else { gn.rng.uniform(0.0, 1.0) };
                    }
                }
            }
            // upper / lower triangular / diagonal input (columns already reduced), rows possibly shuffled below
            3 => (0..n * n).for_each(|t| if t / n > t % n { v[t] = 0.0 }),
            4 => (0..n * n).for_each(|t| if t / n < t % n { v[t] = 0.0 }),
            5 => (0..n * n).for_each(|t| if t / n != t % n { v[t] = if gn.rng.chance(1, 2) { 0.0 } else { -0.0 } }),
            // first column zero except one row; first row zero except one column
            6 => {
                let i = gn.rng.below(n as u64) as usize;
                for r in 0..n {
                    if r != i {
                        v[r * n] = 0.0;
                    }
                }
            }
            // a scaled permutation matrix with signed zeros elsewhere
            7 => {
                let mut p: Vec<usize> = (0..n).collect();
                for i in (1..n).rev() {
                    let j = gn.rng.below(i as u64 + 1) as usize;
                    p.swap(i, j);
                }
                for i in 0..n {
                    for j in 0..n {
                        v[i * n + j] = if p[i] == j { gn.rng.uniform(0.5, 2.0) * sign(&mut gn.rng) } else if (i + j) % 2 == 0 { 0.0 } else { -0.0 };
                    }
                }
            }
            // dense, but the right-hand side has leading / trailing / signed zeros or is a unit vector
            8 => {
                let z = gn.rng.below(n as u64 + 1) as usize;
                for (i, x) in b.iter_mut().enumerate() {
                    if i < z {
                        *x = if i % 2 == 0 { 0.0 } else { -0.0 };
                    }
                }
            }
            _ => {
                let z = gn.rng.below(n as u64) as usize;
                for (i, x) in b.iter_mut().enumerate() {
                    *x = if i == z { sign(&mut gn.rng) } else { 0.0 };
                }
            }
        }
        let mut g = Grid { h: n, w: n, v };
        if (3..=5).contains(&(k % 10)) && gn.rng.chance(1, 2) {
            for i in (1..n).rev() {
                let j = gn.rng.below(i as u64 + 1) as usize;
                for c in 0..n {
                    g.v.swap(i * n + c, j * n + c);
                }
                b.swap(i, j);
            }
        }
        if gn.rng.chance(1, 3) {
            gn.scaled_rows(&mut g, &mut b, 30);
        }
        let tol = gn.tol();
        gn.gauss(&g, &b, tol);
    }
    // near ties in the pivot column: scaled ratios that differ by 10^-1 .. 10^-17 (and exactly equal after rounding)
    for k in 0..170 * reps {
        let n = gn.rng.range(2, 6) as usize;
        let d = 10f64.powi(-((k % 17) as i32 + 1));
        let mut v = dense(&mut gn.rng, n);
        for i in 0..n {
            // every row has maximum 1 (in a column other than 0 when n > 1) and first entry 1/2 (1 +- d)
            let j = 1 + gn.rng.below(n as u64 - 1) as usize;
            for c in 0..n {
                v[i * n + c] *= 0.9;
            }
            v[i * n + j] = sign(&mut gn.rng);
            v[i * n] = 0.5 * (1.0 + d * gn.rng.range(-1, 1) as f64) * sign(&mut gn.rng);
        }
        let mut g = Grid { h: n, w: n, v };
        let mut b = gn.rhs(n);
        if k % 2 == 0 {
            gn.scaled_rows(&mut g, &mut b, 30);
        }
        let tol = gn.tol();
        gn.gauss(&g, &b, tol);
    }

    // ---- NaN / infinities in the input, in the right-hand side, as tolerance (correspondence only)
    for k in 0..120 * reps {
        let n = gn.rng.range(1, 4) as usize;
        let mut v = dense(&mut gn.rng, n);
        let mut b = gn.rhs(n);
        let bad = *gn.rng.pick(&[f64::NAN, f64::INFINITY, f64::NEG_INFINITY, 1e308, -1e308, 1e-320]);
        let mut tol = gn.tol();
        match k % 4 {
            0 | 1 => {
                let t = gn.rng.below((n * n) as u64) as usize;
                v[t] = bad;
            }
            2 => {
                let t = gn.rng.below(n as u64) as usize;
                b[t] = bad;
            }
            _ => tol = if bad.abs() == 1e308 || bad == 1e-320 { f64::NAN } else { bad },
        }
        gn.gauss(&Grid { h: n, w: n, v }, &b, tol);
    }

    // ---- triangular substitution: wide magnitudes, NaN / inf in the triangle that must not be read, zeros
    for k in 0..600 * reps {
        let back = k % 2 == 0;
        let n = gn.rng.range(1, 10) as usize;
        let garbage = [f64::NAN, f64::INFINITY, 0.0, -0.0, 1e300][k / 2 % 5];
        let emax = [0i64, 30, 70, 200][k / 10 % 4];
        let ge = if k % 7 == 0 { gn.rng.range(-250, 250) } else { 0 };
        let mut v = vec![0.0; n * n];
        let zero_style = gn.rng.below(4);
        for i in 0..n {
            let s = pow2(gn.rng.range(-emax, emax) + ge);
            for j in 0..n {
                let in_tri = if back { j >= i } else { j <= i };
                v[i * n + j] = if i == j {
                    gn.rng.uniform(0.5, 2.0) * sign(&mut gn.rng) * s
                } else if in_tri {
                    (match zero_style {
                        0 if gn.rng.chance(1, 2) => 0.0,
                        1 => -gn.rng.uniform(0.0, 1.0),
                        2 if gn.rng.chance(1, 3) => gn.rng.uniform(-1.0, 1.0) * pow2(-gn.rng.range(20, 60)),
                        _ => gn.rng.uniform(-1.0, 1.0),
                    }) * s
                } else {
                    garbage
                };
            }
        }
        let mut b = gn.rhs(n);
        match k % 5 {
            // leading zeros, trailing zeros, a unit vector
            0 => {
                let z = gn.rng.below(n as u64 + 1) as usize;
                b.iter_mut().take(z).for_each(|x| *x = 0.0);
            }
            1 => {
                let z = gn.rng.below(n as u64 + 1) as usize;
                b.iter_mut().skip(n - z).for_each(|x| *x = -0.0);
            }
            2 => {
                let z = gn.rng.below(n as u64) as usize;
                b.iter_mut().enumerate().for_each(|(i, x)| *x = if i == z { 1.0 } else { 0.0 });
            }
            3 => b.iter_mut().for_each(|x| *x *= pow2(ge + gn.rng.range(-40, 40))),
            _ => {}
        }
        // leading sub-systems and longer slices
        let size = if gn.rng.chance(1, 5) { gn.rng.range(1, n as i64) as usize } else { n };
        let ns = if gn.rng.chance(1, 5) { size + gn.rng.below(3) as usize } else { size };
        emit_subst(gn, back, &Grid { h: n, w: n, v }, size, &b, ns);
    }
    tiny_times_huge(gn, thorough);
    edge_of_range(gn, thorough);
    mixed_extremes(gn, thorough);
    sparsity(gn, thorough);
    block_boundaries(gn, thorough);
    resonant(gn, thorough);
}

/// SPARSITY PATTERNS (fifth seeded round): matrices whose EXACT ZEROS follow a pattern an "optimised" elimination could
/// exploit - banded with lower and upper half bandwidth 0..4 independently (diagonal, bidiagonal, tridiagonal,
/// pentadiagonal, Hessenberg-like, one-sided bands), orders 5..12, exact-zero corners only, arrowhead, block-diagonal,
/// and row / symmetric permutations of those - with entries that FORCE row exchanges (the scaled pivot search prefers a row
/// one to four rows below the diagonal, so that fill-in reaches l + u super-diagonals) as well as ones that need none.
/// Real, small-integer, unsigned-byte and dyadic entries (every container kind rotates in; the harness itself runs all
/// applicable kinds on each request); unknowns of order one (b = A * ones, exact for the integer styles) or a random
/// right-hand side.  Judged by the backward-error clauses 1 / 1b of the plug-in.
fn sparsity(gn: &mut Gen, thorough: bool) {
    let reps = if thorough { 8 } else { 1 };
    // one entry of the given style: 0 real, 1 small integer, 2 byte, 3 dyadic
    fn entry(rng: &mut Rng, style: usize) -> f64 {
        match style {
            0 => {
                let x = rng.uniform(0.1, 1.0);
                if rng.chance(1, 2) { -x } else { x }
            }
            1 => {
                let x = rng.range(1, 4) as f64;
                if rng.chance(1, 2) { -x } else { x }
            }
            2 => rng.range(1, 9) as f64,
            _ => {
                let x = rng.range(1, 16) as f64 / 8.0;
                if rng.chance(1, 2) { -x } else { x }
            }
        }
    }
    fn finish(gn: &mut Gen, n: usize, v: Vec<f64>, style: usize, k: usize) {
        let g = Grid { h: n, w: n, v };
        // b = A * ones (exact for integer / dyadic entries), A * (1, -2, 3, ..), or anything
        let b: Vec<f64> = match k % 3 {
            0 => (0..n).map(|i| (0..n).map(|j| g.v[i * n + j]).sum()).collect(),
            1 => (0..n).map(|i| (0..n).map(|j| g.v[i * n + j] * ((j % 5) as f64 - 2.0)).sum()).collect(),
            _ => {
                if style == 0 { gn.rhs(n) } else { small_rhs(&mut gn.rng, n) }
            }
        };
        let tol = gn.tol();
        gn.gauss(&g, &b, tol);
    }
    let mut k = 0usize;
    for _ in 0..reps {
        // (a) banded, every (l, u) in 0..=4 x 0..=4 and every order 5..=12, four entry styles rotating, three ways of
        // (not) forcing exchanges
        for n in 5..=12usize {
            for l in 0..=4usize {
                for u in 0..=4usize {
                    for force in 0..3usize {
                        k += 1;
                        let style = k % 4;
                        let mut v = vec![0.0; n * n];
                        for i in 0..n {
                            for j in 0..n {
                                if (j <= i && i - j <= l) || (j > i && j - i <= u) {
                                    v[i * n + j] = entry(&mut gn.rng, style);
                                }
                            }
                        }
                        match force {
                            // as drawn: exchanges happen where the scaled ratios say so
                            0 => {}
                            // the entry d rows below the diagonal (d = l, or anything in 1..=l) is the largest of its row
                            // and column, the diagonal entry is small within its row: the pivot comes from row k + d
                            1 if l > 0 => {
                                for c in 0..n {
                                    let d = if gn.rng.chance(1, 2) { l } else { 1 + gn.rng.below(l as u64) as usize };
                                    if c + d < n && gn.rng.chance(3, 4) {
                                        let big = match style { 0 => gn.rng.uniform(2.0, 4.0), 1 => gn.rng.range(5, 9) as f64, 2 => gn.rng.range(20, 255) as f64, _ => 4.0 };
                                        v[(c + d) * n + c] = big * if style == 2 { 1.0 } else { sign(&mut gn.rng) };
                                    }
                                }
                            }
                            // rows of very different scale (the SCALED ratio decides, not the entry) in a random order
                            _ => {
                                for i in 0..n {
                                    if style != 2 && gn.rng.chance(1, 2) {
                                        let s = pow2(gn.rng.range(-3, 3));
                                        for j in 0..n {
                                            v[i * n + j] *= s;
                                        }
                                    }
                                    // weak diagonal
                                    if gn.rng.chance(1, 2) && style != 2 {
                                        v[i * n + i] *= 0.125;
                                    } else if style == 2 && gn.rng.chance(1, 2) {
                                        v[i * n + i] = 1.0;
                                        if i + l < n && l > 0 {
                                            v[(i + l) * n + i] = gn.rng.range(9, 99) as f64;
                                        }
                                    }
                                }
                            }
                        }
                        finish(gn, n, v, style, k);
                    }
                }
            }
        }
        // (b) exact-zero corners only (half bandwidths n-2, n-3 on either side), arrowheads, block-diagonal matrices, and
        // row / symmetric / column permutations of banded matrices; orders 5..=12
        for n in 5..=12usize {
            for shape in 0..12usize {
                k += 1;
                let style = k % 4;
                let mut v = vec![0.0; n * n];
                let mut set = |v: &mut Vec<f64>, i: usize, j: usize, rng: &mut Rng| v[i * n + j] = entry(rng, style);
                match shape {
                    0 | 1 | 2 => {
                        // zero corners of side c (1..=3) in both, the upper or the lower corner
                        let c = 1 + gn.rng.below(3) as usize;
                        for i in 0..n {
                            for j in 0..n {
                                let up = j > i && j - i >= n - c;
                                let lo = i > j && i - j >= n - c;
                                if !((up && shape != 2) || (lo && shape != 1)) {
                                    set(&mut v, i, j, &mut gn.rng);
                                }
                            }
                        }
                    }
                    3 | 4 => {
                        // arrowhead pointing up-left or down-right, weak or strong tip
                        let t = if shape == 3 { 0 } else { n - 1 };
                        for i in 0..n {
                            set(&mut v, i, i, &mut gn.rng);
                            set(&mut v, t, i, &mut gn.rng);
                            set(&mut v, i, t, &mut gn.rng);
                        }
                        if gn.rng.chance(1, 2) {
                            v[t * n + t] *= 0.125;
                        }
                    }
                    5 | 6 => {
                        // block diagonal: dense blocks of order 1..=4 (shape 6: one coupling entry between neighbours)
                        let mut s = 0;
                        while s < n {
                            let m = (1 + gn.rng.below(4) as usize).min(n - s);
                            for i in s..s + m {
                                for j in s..s + m {
                                    set(&mut v, i, j, &mut gn.rng);
                                }
                            }
                            if shape == 6 && s > 0 {
                                set(&mut v, s, s - 1, &mut gn.rng);
                            }
                            s += m;
                        }
                    }
                    _ => {
                        // a banded matrix (l, u in 1..=3, dominant-free) with rows, columns or both permuted
                        let l = 1 + gn.rng.below(3) as usize;
                        let u = 1 + gn.rng.below(3) as usize;
                        let mut w = vec![0.0; n * n];
                        for i in 0..n {
                            for j in 0..n {
                                if (j <= i && i - j <= l) || (j > i && j - i <= u) {
                                    w[i * n + j] = entry(&mut gn.rng, style);
                                }
                            }
                        }
                        let mut p: Vec<usize> = (0..n).collect();
                        match shape % 3 {
                            // one exchange of two rows, a cyclic shift, a full shuffle
                            0 => {
                                let a = gn.rng.below(n as u64) as usize;
                                let b = gn.rng.below(n as u64) as usize;
                                p.swap(a, b);
                            }
                            1 => p.rotate_left(1 + gn.rng.below(2) as usize),
                            _ => {
                                for i in (1..n).rev() {
                                    let j = gn.rng.below(i as u64 + 1) as usize;
                                    p.swap(i, j);
                                }
                            }
                        }
                        let sym = shape >= 10;
                        for i in 0..n {
                            for j in 0..n {
                                v[i * n + j] = w[p[i] * n + if sym { p[j] } else { j }];
                            }
                        }
                    }
                }
                finish(gn, n, v, style, k);
            }
        }
        // (c) the classical difference / spline / smoothing stencils with rows of a stronger neighbour below: second and
        // fourth differences (1 -4 6 -4 1), (1 4 1) / 6, upwind (−1 1), with one sub-diagonal replaced by a large value
        for n in 5..=12usize {
            for (sl, st) in [(2usize, vec![1.0, -4.0, 6.0, -4.0, 1.0]), (1, vec![1.0, -2.0, 1.0]), (2, vec![1.0, 2.0, 1.0, 2.0, 1.0]), (3, vec![2.0, 0.0, 1.0, 1.0, 0.0, 3.0, 1.0]), (2, vec![4.0, 1.0, 2.0, 1.0, 2.0])] {
                k += 1;
                let mut v = vec![0.0; n * n];
                for i in 0..n {
                    for (t, c) in st.iter().enumerate() {
                        let j = i as i64 + t as i64 - sl as i64;
                        if j >= 0 && (j as usize) < n {
                            v[i * n + j as usize] = *c;
                        }
                    }
                }
                // a strong entry two or three rows below the diagonal in some columns
                for c in 0..n {
                    if c + sl < n && gn.rng.chance(1, 2) {
                        v[(c + sl) * n + c] = gn.rng.range(5, 9) as f64;
                    }
                }
                finish(gn, n, v, 1, k);
            }
        }
    }
}

/// MIXED EXTREMES INSIDE ONE OBJECT (fourth seeded round): rows near the bottom of the number range (entries 2^-1056 ..
/// 2^-1000: subnormal, a handful to 50 significant bits) OR near the top (2^900 .. 2^1010) next to ordinary rows (2^-4 ..
/// 2^4) in the SAME system, so that forward elimination multiplies a tiny (often subnormal) multiplier - tiny entry over
/// ordinary pivot, or ordinary entry over huge pivot - by a pivot-row entry that is 2^1000 times larger and subtracts the
/// product from an entry of its own magnitude.  (Tiny and huge entries inside ONE row are refused by the scaled pivot
/// test, and tiny rows next to huge rows lose the multiplier itself to underflow: a few of those are generated for the
/// comparison with the model.)  Unknowns of order 1 (or graded against a column scaling 2^0 .. 2^20 on the huge side), the
/// right-hand side computed from them or drawn at the magnitude of its row; orders 2..6, dense / dominant / graded /
/// small-integer / dyadic bases, rows in order or shuffled, every container kind that holds f64.  Judged by the plug-in's
/// clause 1b in `tiny_regime` (exact |L||U| of scaled partial pivoting, absolute allowance for gradual underflow).
fn mixed_extremes(gn: &mut Gen, thorough: bool) {
    let reps = if thorough { 10 } else { 1 };
    for k in 0..360 * reps {
        let n = 2 + k % 5;
        let huge = k % 2 == 1;
        let style = k / 2 % 5;
        let exact = style >= 3;
        let mut v: Vec<f64> = match style {
            0 => dense(&mut gn.rng, n),
            1 => dominant(&mut gn.rng, n).iter().map(|x| x * 0.25).collect(),
            2 => {
                let t = gn.rng.range(1, 6) as i32;
                let mut v = dense(&mut gn.rng, n);
                for j in 0..n {
                    for i in j + 1..n {
                        v[i * n + j] *= 10f64.powi(-t);
                    }
                    v[j * n + j] = gn.rng.uniform(0.5, 1.0) * sign(&mut gn.rng);
                }
                v
            }
            3 => {
                let mut v: Vec<f64> = (0..n * n).map(|_| gn.rng.range(-3, 3) as f64).collect();
                for i in 0..n {
                    v[i * n + i] = 4.0 * sign(&mut gn.rng);
                }
                v
            }
            _ => {
                let mut v: Vec<f64> = (0..n * n).map(|_| gn.rng.dyadic(8, 2)).collect();
                for i in 0..n {
                    v[i * n + i] = (n as f64 + 1.0) * sign(&mut gn.rng);
                }
                v
            }
        };
        // which rows are extreme: 1 .. n-1 of them; (k % 24 == 23: tiny AND huge rows in one system - model comparison only)
        let both_ends = k % 24 == 23;
        let m = 1 + gn.rng.below(n as u64 - 1) as usize;
        let mut extreme = vec![false; n];
        let mut left = m;
        while left > 0 {
            let i = gn.rng.below(n as u64) as usize;
            if !extreme[i] {
                extreme[i] = true;
                left -= 1;
            }
        }
        // column scaling on the huge side (the unknowns are scaled the other way: every term keeps its magnitude)
        let cs: Vec<i64> = (0..n).map(|_| if huge && !exact && k % 3 == 0 { gn.rng.range(0, 20) } else { 0 }).collect();
        let mut x: Vec<f64> = (0..n).map(|_| if exact { gn.rng.range(-3, 3) as f64 } else { gn.rng.uniform(-2.0, 2.0) }).collect();
        for j in 0..n {
            x[j] *= pow2(-cs[j]);
        }
        let mut rs = vec![0i64; n];
        for i in 0..n {
            rs[i] = if !extreme[i] {
                // next to tiny rows the other rows stay below 2^-46: a multiplier "ordinary entry over tiny pivot" must
                // itself be a number (above a ratio of 2^1023 between two rows the unmodified code answers with NaN / inf:
                // k % 24 == 11 keeps a few of those for the comparison with the model and the note of the plug-in)
                if huge || k % 24 == 11 { gn.rng.range(-4, 4) } else { gn.rng.range(-70, -50) }
            } else if huge && !(both_ends && i % 2 == 0) {
                gn.rng.range(900, 988)
            } else if exact {
                -gn.rng.range(1000, 1040)
            } else {
                -gn.rng.range(1000, 1050)
            };
            for j in 0..n {
                v[i * n + j] *= pow2(rs[i] + cs[j]);
            }
        }
        let mut b: Vec<f64> = if gn.rng.chance(2, 3) {
            (0..n).map(|i| (0..n).map(|j| v[i * n + j] * x[j]).sum()).collect()
        } else {
            (0..n).map(|i| gn.rng.uniform(-1.0, 1.0) * pow2(rs[i].max(-1060))).collect()
        };
        let mut g = Grid { h: n, w: n, v };
        if k % 3 != 1 {
            for i in (1..n).rev() {
                let j = gn.rng.below(i as u64 + 1) as usize;
                for c in 0..n {
                    g.v.swap(i * n + c, j * n + c);
                }
                b.swap(i, j);
            }
        }
        let tol = gn.tol();
        gn.gauss(&g, &b, tol);
    }
    // the smallest instances, spelled out: [[p, c], [e, d]] x = b with e / p subnormal and (e / p) c of the size of d, for every
    // tiny exponent; and [[P, C], [a, d]] with a / P subnormal and (a / P) C of the size of d, for the huge ones
    for t in 0..=50i64 {
        for (c, d) in [(1.0, 3.0), (-1.5, 1.0), (0.75, -2.0)] {
            let e = pow2(-1000 - t);
            let o = pow2(-60);
            gn.gauss(&Grid { h: 2, w: 2, v: vec![o, c * o, e, d * e] }, &[o + c * o, e + d * e], 1e-12);
            gn.gauss(&Grid { h: 2, w: 2, v: vec![e, d * e, 2.0 * o, 2.0 * c * o] }, &[e - d * e, 2.0 * o - 2.0 * c * o], 1e-9);
            gn.gauss(&Grid { h: 3, w: 3, v: vec![2.0 * o, 0.5 * o, c * o, 0.25 * o, o, 0.0, e, -e, d * e] }, &[(2.5 + c) * o, 1.25 * o, d * e], 1e-12);
            if t % 10 == 0 {
                // a ratio above 2^1023 between two rows: the multiplier 1 / e overflows when the tiny row is the pivot row
                gn.gauss(&Grid { h: 2, w: 2, v: vec![e, d * e, 2.0, 2.0 * c] }, &[e - d * e, 2.0 - 2.0 * c], 1e-9);
            }
            let p = pow2(960 + t);
            gn.gauss(&Grid { h: 2, w: 2, v: vec![p, c * p, 1.0, d] }, &[p + c * p, 1.0 + d], 1e-12);
            gn.gauss(&Grid { h: 2, w: 2, v: vec![0.5, d, p, c * p] }, &[0.5 - d, p - c * p], 1e-9);
            gn.gauss(&Grid { h: 3, w: 3, v: vec![p, 0.5 * p, c * p, 0.25, 1.0, 0.0, 1.0, -1.0, d] }, &[(1.5 + c) * p, 1.25, d], 1e-12);
        }
    }
}

/// 2^e exactly, for every e from -1074 (the smallest subnormal) to 1023
fn exp2i(e: i64) -> f64 {
    if e >= -1022 { f64::from_bits(((e + 1023) as u64) << 52) } else { f64::from_bits(1u64 << (e + 1074)) }
}

/// THE EDGE OF THE NUMBER RANGE (third seeded round): whole systems at magnitude 2^-341 .. 2^-1074 (around 2^-1024, where a
/// reciprocal overflows, and down to entries with a handful of significant bits) and 2^900 .. 2^1015, not only
/// diagonally dominant ones: dense (pivoting needed), graded columns (a wrong pivot choice costs accuracy), small
/// integers and dyadics times 2^e (exact).  The tiny side is judged by the plug-in's `tiny_regime` clause, the huge side is
/// compared with the model only.
fn edge_of_range(gn: &mut Gen, thorough: bool) {
    let reps = if thorough { 10 } else { 1 };
    for k in 0..320 * reps {
        let n = gn.rng.range(1, 6) as usize;
        let e = match k % 4 {
            0 => -gn.rng.range(1000, 1074),
            1 => -gn.rng.range(1016, 1032),
            2 => -gn.rng.range(341, 1000),
            _ => gn.rng.range(900, 1015),
        };
        let style = k / 4 % 5;
        let exact = style >= 3;
        let mut v: Vec<f64> = match style {
            0 => dense(&mut gn.rng, n),
            1 => dominant(&mut gn.rng, n).iter().map(|x| x * 0.125).collect(),
            2 => {
                // graded columns: below the diagonal 10^-t of the head
                let t = gn.rng.range(1, 12) as i32;
                let mut v = dense(&mut gn.rng, n);
                for j in 0..n {
                    for i in j + 1..n {
                        v[i * n + j] *= 10f64.powi(-t);
                    }
                    v[j * n + j] = gn.rng.uniform(0.5, 1.0) * sign(&mut gn.rng);
                }
                v
            }
            3 => {
                let mut v: Vec<f64> = (0..n * n).map(|_| gn.rng.range(-3, 3) as f64).collect();
                for i in 0..n {
                    v[i * n + i] = 4.0 * sign(&mut gn.rng);
                }
                v
            }
            _ => {
                let mut v: Vec<f64> = (0..n * n).map(|_| gn.rng.dyadic(8, 2)).collect();
                for i in 0..n {
                    v[i * n + i] = (n as f64 + 1.0) * sign(&mut gn.rng);
                }
                v
            }
        };
        let x: Vec<f64> = (0..n).map(|_| if exact { gn.rng.range(-3, 3) as f64 } else { gn.rng.uniform(-2.0, 2.0) }).collect();
        // keep the dyadic styles exact: no bits may fall off the subnormal grid
        let e = if exact && e < -1070 { -1070 } else { e };
        let p = exp2i(e);
        v.iter_mut().for_each(|a| *a *= p);
        let mut b: Vec<f64> = match gn.rng.below(3) {
            // the unknowns are of order 1
            0 | 1 => (0..n).map(|i| (0..n).map(|j| v[i * n + j] * x[j]).sum()).collect(),
            // the right-hand side at a neighbouring magnitude
            _ => {
                let f = exp2i((e + gn.rng.range(-20, 20)).clamp(-1074, 1015));
                (0..n).map(|_| gn.rng.uniform(-1.0, 1.0) * f).collect()
            }
        };
        let mut g = Grid { h: n, w: n, v };
        if gn.rng.chance(1, 2) {
            for i in (1..n).rev() {
                let j = gn.rng.below(i as u64 + 1) as usize;
                for c in 0..n {
                    g.v.swap(i * n + c, j * n + c);
                }
                b.swap(i, j);
            }
        }
        if e > -1050 && gn.rng.chance(1, 3) {
            gn.scaled_rows(&mut g, &mut b, 8);
        }
        let tol = gn.tol();
        gn.gauss(&g, &b, tol);
    }
}

/// TWO RARE THINGS AT ONCE (third seeded round): an entry that is non-zero but 2^-53 .. 2^-90 of the largest entry of its
/// own row (invisible to every test of the form `|a_ik| / scale_i < EPSILON`, "this row already has a zero here") in a
/// column whose unknown is so large that the term still matters (`|a_ik x_k|` comparable with the other terms of
/// equation i).  Sizes 2..10, every container kind that can hold the numbers (the small-dyadic styles fit `f32`), any
/// row scaling, rows in order or shuffled.  Two shapes: (A) tiny entries in the column of a huge unknown; (B) one huge
/// entry in a row (all its other entries are then below rounding level relative to it) whose unknown is tiny.
fn tiny_times_huge(gn: &mut Gen, thorough: bool) {
    let reps = if thorough { 10 } else { 1 };
    for k in 0..900 * reps {
        let n = gn.rng.range(2, 10) as usize;
        let style = k % 5;
        let exact = style >= 3;
        let mut v: Vec<f64> = match style {
            0 => dense(&mut gn.rng, n),
            1 => dominant(&mut gn.rng, n),
            2 => {
                // banded / (block) triangular
                let mut v = dense(&mut gn.rng, n);
                let lower = gn.rng.chance(1, 2);
                for t in 0..n * n {
                    let (i, j) = (t / n, t % n);
                    if i == j {
                        v[t] = gn.rng.uniform(0.5, 1.0) * sign(&mut gn.rng);
                    } else if (lower && j > i + 1) || (!lower && i > j + 1) {
                        v[t] = 0.0;
                    }
                }
                v
            }
            3 => {
                let mut v: Vec<f64> = (0..n * n).map(|_| gn.rng.range(-3, 3) as f64).collect();
                for i in 0..n {
                    v[i * n + i] = 4.0 * sign(&mut gn.rng);
                }
                v
            }
            _ => {
                let mut v: Vec<f64> = (0..n * n).map(|_| gn.rng.dyadic(8, 2)).collect();
                for i in 0..n {
                    v[i * n + i] = (n as f64) * sign(&mut gn.rng);
                }
                v
            }
        };
        let mut x: Vec<f64> = (0..n).map(|_| if exact { gn.rng.range(-3, 3) as f64 } else { gn.rng.uniform(-2.0, 2.0) }).collect();
        let t = gn.rng.range(53, 90);
        let r = if t > 80 { gn.rng.range(0, 4) } else { gn.rng.range(-4, 4) };
        let unit = |rng: &mut Rng| -> f64 {
            if exact { *rng.pick(&[1.0, -1.0, 0.5, -0.5, 1.5, -3.0, 2.0]) } else { rng.uniform(0.5, 1.0) * sign(rng) }
        };
        if k % 2 == 0 {
            // (A) column c belongs to a huge unknown; some rows hold a tiny entry there
            let c = gn.rng.below(n as u64) as usize;
            let mut must = gn.rng.below(n as u64 - 1) as usize;
            if must >= c {
                must += 1;
            }
            let lonely = gn.rng.chance(1, 3);
            for i in 0..n {
                if i == c {
                    continue;
                }
                if i == must || gn.rng.chance(1, 2) {
                    let mut rowmax = (0..n).filter(|j| *j != c).map(|j| v[i * n + j].abs()).fold(0.0, f64::max);
                    if rowmax == 0.0 {
                        v[i * n + i] = 1.0;
                        rowmax = 1.0;
                    }
                    let ti = if gn.rng.chance(1, 2) { t } else { gn.rng.range(53, 90) };
                    v[i * n + c] = unit(&mut gn.rng) * rowmax * pow2(-ti);
                } else if lonely {
                    v[i * n + c] = 0.0;
                }
            }
            if v[c * n + c] == 0.0 {
                v[c * n + c] = 1.0;
            }
            x[c] = unit(&mut gn.rng) * pow2(t + r);
        } else {
            // (B) one huge entry in row i, column j; its unknown is tiny
            let i = gn.rng.below(n as u64) as usize;
            let j = gn.rng.below(n as u64) as usize;
            v[i * n + j] = unit(&mut gn.rng) * pow2(t);
            x[j] = unit(&mut gn.rng) * pow2(-t + r);
            if gn.rng.chance(1, 3) {
                // a second row of the same kind
                let i2 = (i + 1) % n;
                let j2 = (j + 1 + gn.rng.below(n as u64 - 1) as usize) % n;
                let t2 = gn.rng.range(53, 90);
                v[i2 * n + j2] = unit(&mut gn.rng) * pow2(t2);
                x[j2] = unit(&mut gn.rng) * pow2(-t2 + gn.rng.range(-2, 2));
            }
        }
        // right-hand side b = A x (in floating point), sometimes with a few components replaced by ordinary numbers
        let mut b: Vec<f64> = (0..n).map(|i| (0..n).map(|j| v[i * n + j] * x[j]).sum()).collect();
        if gn.rng.chance(1, 6) {
            let z = gn.rng.below(n as u64) as usize;
            b[z] = if exact { gn.rng.range(-3, 3) as f64 } else { gn.rng.uniform(-4.0, 4.0) };
        }
        let mut g = Grid { h: n, w: n, v };
        if gn.rng.chance(1, 2) {
            for i in (1..n).rev() {
                let j = gn.rng.below(i as u64 + 1) as usize;
                for c in 0..n {
                    g.v.swap(i * n + c, j * n + c);
                }
                b.swap(i, j);
            }
        }
        match gn.rng.below(4) {
            0 => gn.scaled_rows(&mut g, &mut b, 30),
            1 => gn.scaled_rows(&mut g, &mut b, if exact { 8 } else { 100 }),
            _ => {}
        }
        let tol = *gn.rng.pick(&[1e-12, 1e-12, 1e-9, 1e-6]);
        gn.gauss(&g, &b, tol);
    }
    // the smallest instances, spelled out: [[1, a], [2^-t, 1]] x = [2^t, c] and [[1, 1], [1, 2^t]] x = [1, 2] for every t
    for t in 50..=95i64 {
        for (a, c) in [(0.0, 2.0), (0.5, 1.0), (-1.0, 3.0)] {
            gn.gauss(&Grid { h: 2, w: 2, v: vec![1.0, a, pow2(-t), 1.0] }, &[pow2(t), c], 1e-12);
            gn.gauss(&Grid { h: 2, w: 2, v: vec![pow2(-t), 1.0, 1.0, a] }, &[c, pow2(t)], 1e-12);
        }
        gn.gauss(&Grid { h: 2, w: 2, v: vec![1.0, 1.0, 1.0, pow2(t)] }, &[1.0, 2.0], 1e-12);
        gn.gauss(&Grid { h: 2, w: 2, v: vec![1.0, 1.0, 1.0, 6.022 * pow2(t)] }, &[1.0, 2.0], 1e-9);
        gn.gauss(&Grid { h: 3, w: 3, v: vec![2.0, 1.0, 0.0, pow2(-t), 1.0, 0.5, 0.0, pow2(-t), 1.0] }, &[pow2(t + 1), 2.0, 1.0], 1e-12);
    }
    // triangular solves of the same kind: off-diagonal entries 2^-53..2^-90 of the diagonal in the column of a huge unknown
    for k in 0..300 * reps {
        let back = k % 2 == 0;
        let n = gn.rng.range(2, 10) as usize;
        let t = gn.rng.range(53, 90);
        // the huge unknown is solved first: the last one for back substitution, the first for forward substitution
        let c = if gn.rng.chance(2, 3) { if back { n - 1 } else { 0 } } else { gn.rng.below(n as u64) as usize };
        let mut v = vec![f64::NAN; n * n];
        let mut x: Vec<f64> = (0..n).map(|_| gn.rng.uniform(-2.0, 2.0)).collect();
        x[c] = gn.rng.uniform(0.5, 1.0) * sign(&mut gn.rng) * pow2(t + gn.rng.range(-3, 3));
        for i in 0..n {
            let s = if k % 3 == 0 { pow2(gn.rng.range(-30, 30)) } else { 1.0 };
            for j in 0..n {
                let in_tri = if back { j >= i } else { j <= i };
                if i == j {
                    v[i * n + j] = gn.rng.uniform(0.5, 1.0) * sign(&mut gn.rng) * s;
                } else if in_tri {
                    let e = if j == c { -gn.rng.range(53, 90) } else { 0 };
                    v[i * n + j] = gn.rng.uniform(-1.0, 1.0) * pow2(e) * s;
                }
            }
        }
        let b: Vec<f64> = (0..n)
            .map(|i| (0..n).filter(|j| if back { *j >= i } else { *j <= i }).map(|j| v[i * n + j] * x[j]).sum())
            .collect();
        emit_subst(gn, back, &Grid { h: n, w: n, v }, n, &b, n);
    }
}

/// random permutation of 0..n
fn perm_of(rng: &mut Rng, n: usize) -> Vec<usize> {
    let mut p: Vec<usize> = (0..n).collect();
    for i in (1..n).rev() {
        let j = rng.below(i as u64 + 1) as usize;
        p.swap(i, j);
    }
    p
}

/// small-integer, NON-symmetric, strictly row-dominant matrix (every entry and every sum exact in binary64)
fn int_dominant(rng: &mut Rng, n: usize) -> Vec<f64> {
    let mut v: Vec<f64> = (0..n * n).map(|_| rng.range(-2, 2) as f64).collect();
    for i in 0..n {
        let off: f64 = (0..n).filter(|j| *j != i).map(|j| v[i * n + j].abs()).sum();
        v[i * n + i] = (off + 1.0 + rng.below(3) as f64) * sign(rng);
    }
    v
}

fn times(v: &[f64], n: usize, x: &[f64]) -> Vec<f64> {
    (0..n).map(|i| (0..n).map(|j| v[i * n + j] * x[j]).sum()).collect()
}

/// BLOCK BOUNDARIES (sixth seeded round, category O): a blocked / panelled / unrolled elimination, pivot search, scale-factor
/// loop or substitution changes behaviour exactly when the order passes 16, 32, 64, 128, 256: every order blk-1, blk, blk+1,
/// blk+2, 2 blk+1 with non-constant, non-symmetric data: exact small-integer dominant systems with integer unknowns (b = A x
/// exactly), the same with permuted and power-of-two-scaled rows (a row exchange at every step, across blocks), real dense
/// systems, exactly singular ones (repeated row / zero column in different blocks), triangular solves (full and leading
/// sub-system of exactly the block size).  Judged by the plug-in's backward-error and singularity clauses; above order 24 the
/// exact |L||U| form is not evaluated (clause 1 with |A| only).
fn block_boundaries(gn: &mut Gen, thorough: bool) {
    for &blk in &[16usize, 32, 64, 128, 256] {
        for n in [blk - 1, blk, blk + 1, blk + 2, 2 * blk + 1] {
            if n > 258 || (n > 130 && !thorough) {
                continue;
            }
            // exact integer system, unknowns -3..3 (non-constant)
            let v = int_dominant(&mut gn.rng, n);
            let x: Vec<f64> = (0..n).map(|i| ((i * 5 + 1) % 7) as f64 - 3.0).collect();
            let b = times(&v, n, &x);
            gn.gauss(&Grid { h: n, w: n, v: v.clone() }, &b, 1e-12);
            if n > 66 && !thorough {
                // quick tier: the exact integer system only at the orders 127..130 (255..258 in the thorough tier)
                continue;
            }
            // rows permuted and scaled by powers of two: a row exchange at (nearly) every step
            let p = perm_of(&mut gn.rng, n);
            let mut pv = vec![0.0; n * n];
            let mut pb = vec![0.0; n];
            for i in 0..n {
                let s = pow2(gn.rng.range(-8, 8));
                for j in 0..n {
                    pv[i * n + j] = v[p[i] * n + j] * s;
                }
                pb[i] = b[p[i]] * s;
            }
            gn.gauss(&Grid { h: n, w: n, v: pv }, &pb, 1e-9);
            // real dense
            if n <= 130 {
                let v = dense(&mut gn.rng, n);
                let mut g = Grid { h: n, w: n, v };
                let mut b = gn.rhs(n);
                gn.scaled_rows(&mut g, &mut b, 20);
                gn.gauss(&g, &b, 1e-12);
            }
            // exactly singular, sparse (cheap to certify exactly at every order): permuted bidiagonal with a repeated row or a
            // zero column placed next to the block boundary
            {
                let mut v = vec![0.0; n * n];
                for i in 0..n {
                    v[i * n + i] = (1 + (i % 3)) as f64 * if i % 2 == 0 { 1.0 } else { -1.0 };
                    if i + 1 < n {
                        v[i * n + i + 1] = (1 + (i % 2)) as f64;
                    }
                    if i >= 2 {
                        v[i * n] = ((i % 3) as f64) - 1.0;
                    }
                }
                // the regular matrix itself, rows permuted: the only admissible pivot of a column may sit in any block
                {
                    let p = perm_of(&mut gn.rng, n);
                    let mut pv = vec![0.0; n * n];
                    for i in 0..n {
                        for j in 0..n {
                            pv[i * n + j] = v[p[i] * n + j];
                        }
                    }
                    let x: Vec<f64> = (0..n).map(|i| ((i * 3 + 2) % 5) as f64 - 2.0).collect();
                    let b = times(&pv, n, &x);
                    gn.gauss(&Grid { h: n, w: n, v: pv }, &b, 1e-12);
                }
                let r = (blk - 1).min(n - 2);
                if n % 2 == 0 {
                    for j in 0..n {
                        v[r * n + j] = v[(r + 1) * n + j];
                    }
                } else {
                    for i in 0..n {
                        v[i * n + r] = 0.0;
                    }
                }
                let p = perm_of(&mut gn.rng, n);
                let mut pv = vec![0.0; n * n];
                for i in 0..n {
                    for j in 0..n {
                        pv[i * n + j] = v[p[i] * n + j];
                    }
                }
                let b = small_rhs(&mut gn.rng, n);
                gn.gauss(&Grid { h: n, w: n, v: pv }, &b, 1e-9);
            }
            // exactly singular, dense small integers: a repeated row, the two copies in different blocks
            if n <= 34 || (thorough && n <= 66) {
                let mut v: Vec<f64> = (0..n * n).map(|_| gn.rng.range(-2, 2) as f64).collect();
                let (i, j) = (blk - 2, n - 1);
                for c in 0..n {
                    v[i * n + c] = 2.0 * v[j * n + c];
                }
                let b = small_rhs(&mut gn.rng, n);
                gn.gauss(&Grid { h: n, w: n, v }, &b, 1e-12);
            }
            // triangular solves of the order, and the leading sub-system of exactly the block size inside it
            for back in [true, false] {
                let mut v = vec![0.0; n * n];
                for i in 0..n {
                    for j in 0..n {
                        let in_tri = if back { j >= i } else { j <= i };
                        v[i * n + j] = if i == j { gn.rng.uniform(0.5, 2.0) * sign(&mut gn.rng) } else if in_tri { gn.rng.uniform(-1.0, 1.0) / n as f64 } else { f64::NAN };
                    }
                }
                let b = gn.rhs(n);
                let g = Grid { h: n, w: n, v };
                emit_subst(gn, back, &g, n, &b, n);
                if n > blk && n < 2 * blk {
                    emit_subst(gn, back, &g, blk, &b[..blk], blk);
                }
            }
        }
    }
}

/// RESONANT / EXACT-RELATION DATA (sixth seeded round, category P): A = P L0 U0 in small integers / dyadics so that every
/// elimination step is exact: multipliers exactly +-1, +-2, +-1/2 or 0, entries exactly equal to l*u so that an update
/// cancels to exactly 0 (U0 with exact zeros above the diagonal, also a zero LAST pivot = exactly singular), a pivot exactly
/// equal to the tolerance - and the same relations missed by one ulp, 2^-50, 2^-40, 2^-30 relative in one entry.  Unknowns
/// are small integers (b = A x exactly for the unperturbed matrix).
fn resonant(gn: &mut Gen, thorough: bool) {
    let reps = if thorough { 10 } else { 1 };
    for k in 0..600 * reps {
        let n = gn.rng.range(2, 8) as usize;
        let mut l0 = vec![0.0; n * n];
        let mut u0 = vec![0.0; n * n];
        let singular = k % 6 == 5;
        for i in 0..n {
            for j in 0..n {
                if i == j {
                    l0[i * n + j] = 1.0;
                    u0[i * n + j] = *gn.rng.pick(&[-4.0, -2.0, -1.0, 1.0, 2.0, 4.0]);
                } else if i > j {
                    l0[i * n + j] = *gn.rng.pick(&[-1.0, 1.0, 0.0, -1.0, 1.0, 0.5, -0.5, 2.0, -2.0]);
                } else {
                    u0[i * n + j] = if gn.rng.chance(1, 3) { 0.0 } else { gn.rng.range(-3, 3) as f64 };
                }
            }
        }
        if singular {
            let z = if gn.rng.chance(1, 2) { n - 1 } else { gn.rng.below(n as u64) as usize };
            u0[z * n + z] = 0.0;
        }
        let p = perm_of(&mut gn.rng, n);
        let mut v = vec![0.0; n * n];
        for i in 0..n {
            for j in 0..n {
                v[p[i] * n + j] = (0..n).map(|t| l0[i * n + t] * u0[t * n + j]).sum();
            }
        }
        let x: Vec<f64> = (0..n).map(|_| gn.rng.range(-3, 3) as f64).collect();
        let mut b = times(&v, n, &x);
        if k % 4 == 3 {
            b = small_rhs(&mut gn.rng, n);
        }
        // the relation missed by a little, in one entry (every second instance)
        match k % 10 {
            1 | 6 => {
                let t = gn.rng.below((n * n) as u64) as usize;
                let e = v[t];
                let d = *gn.rng.pick(&[f64::EPSILON, -f64::EPSILON / 2.0, pow2(-50), -pow2(-40), pow2(-40), pow2(-30), -pow2(-45)]);
                v[t] = if e == 0.0 { d } else { e * (1.0 + d) };
            }
            3 => {
                // rows scaled by powers of two: every relation stays exact
                let mut g = Grid { h: n, w: n, v };
                gn.scaled_rows(&mut g, &mut b, 40);
                v = g.v;
            }
            _ => {}
        }
        let tol = *gn.rng.pick(&[1e-12, 1e-9, 1e-12, 1e-6]);
        gn.gauss(&Grid { h: n, w: n, v }, &b, tol);
    }
    // a scaled pivot exactly equal to the tolerance after an exact cancellation, n = 3..6: the last pivot of
    // diag-dominant-free integer data is t * scale exactly (dyadic t), one ulp below and above
    for n in 3..=6usize {
        for e in [-10i64, -20, -30, -39] {
            let t = pow2(e);
            for tt in [t, t * (1.0 + f64::EPSILON), t * (1.0 - f64::EPSILON / 2.0)] {
                // A = L0 U0, L0 unit lower with l = 1 in the first column, U0 = 2 I + e_0 ones^T, last pivot replaced by 2 t
                let mut v = vec![0.0; n * n];
                for i in 0..n {
                    for j in 0..n {
                        let u_ij = |a: usize, c: usize| if a == c { if a == n - 1 { 2.0 * t } else { 2.0 } } else if a == 0 { 1.0 } else { 0.0 };
                        v[i * n + j] = u_ij(i, j) + if i > 0 { 0.5 * u_ij(0, j) } else { 0.0 };
                    }
                }
                let b: Vec<f64> = (0..n).map(|i| (i % 3) as f64 - 1.0).collect();
                gn.gauss(&Grid { h: n, w: n, v }, &b, tt);
            }
        }
    }
}
