import SV.Props.C20
/-!
# C20, the token printer made explicit

`SV.Props.C20` proves *macro = runtime parser* for every token printer `tp` that changes only what
the parser's character class calls white space (`stripWs cc (tp s) = stripWs cc s`).  What `rustc`'s
printer really guarantees is weaker and about a *different* class: the text a procedural macro
receives differs from the source only in **tokenizer** white space (Unicode `Pattern_White_Space`),
whereas the runtime parsers drop `char::is_whitespace` (Unicode `White_Space`).  This file states the
printer's contract (`PrinterSpec`), derives the hypothesis of `SV.Props.C20` from it whenever every
tokenizer white-space character is parser white space, shows that the two Unicode classes differ on
exactly U+200E and U+200F inside the tokenizer's set, and exhibits the resulting counterexample of the
*unrestricted* statement on the model (known finding `F-C20-lrm`, replayed on the implementation by
`corpus/C20.txt`).  A change of the parser's white-space filter to ASCII only (seed `C20-s3`) is the
same phenomenon for U+000B, U+0085, U+2028, U+2029 — `ascii_filter_counterexample`.
-/
namespace SV.Props.C20Tokens
open SV SV.Text SV.C20

/-- Unicode `Pattern_White_Space`: what the Rust tokenizer skips between tokens -/
def rustWs (c : Char) : Bool :=
  c = '\t' || c = '\n' || c = '\x0B' || c = '\x0C' || c = '\r' || c = ' ' || c = '\u0085' ||
  c = '\u200e' || c = '\u200f' || c = '\u2028' || c = '\u2029'

/-- Unicode `White_Space` = `char::is_whitespace` -/
def whiteSpace (c : Char) : Bool :=
  ('\t' ≤ c && c ≤ '\r') || c = ' ' || c = '\u0085' || c = '\u00a0' || c = '\u1680' ||
  ('\u2000' ≤ c && c ≤ '\u200a') || c = '\u2028' || c = '\u2029' || c = '\u202f' || c = '\u205f' ||
  c = '\u3000'

/-- the contract of the token printer: the text handed to the macro differs from the source text only
in tokenizer white space (inserted, removed or replaced) -/
def PrinterSpec (tp : List Char → List Char) : Prop :=
  ∀ s, (tp s).filter (fun c => !rustWs c) = s.filter (fun c => !rustWs c)

theorem strip_factor (cc : CharClass) (hsub : ∀ c, rustWs c = true → cc.isWs c = true)
    (s : List Char) : stripWs cc s = stripWs cc (s.filter fun c => !rustWs c) := by
  unfold stripWs
  rw [List.filter_filter]
  apply List.filter_congr
  intro c _
  cases h : rustWs c with
  | false => simp
  | true => simp [hsub c h]

/-- **From the printer's contract to the hypothesis of `SV.Props.C20`**: if every tokenizer
white-space character is white space to the parser, any printer obeying `PrinterSpec` is invisible to
the parsers. -/
theorem strip_of_printerSpec (cc : CharClass) (hsub : ∀ c, rustWs c = true → cc.isWs c = true)
    (tp : List Char → List Char) (h : PrinterSpec tp) (s : List Char) :
    stripWs cc (tp s) = stripWs cc s := by
  rw [strip_factor cc hsub (tp s), strip_factor cc hsub s, h s]

/-- macro = runtime parser for every printer obeying the contract, under the class inclusion -/
theorem macro_eq_runtime_of_contract (cc : CharClass)
    (hsub : ∀ c, rustWs c = true → cc.isWs c = true) (cap : Nat)
    (tp : List Char → List Char) (h : PrinterSpec tp) (s : List Char) :
    macroSimple cc cap tp s = C01.parse cc cap s ∧ macroInter cc tp s = C02.parse cc s :=
  ⟨SV.Props.C20.macro_simple_eq_runtime cc cap tp (strip_of_printerSpec cc hsub tp h) s,
   SV.Props.C20.macro_inter_eq_runtime cc tp (strip_of_printerSpec cc hsub tp h) s⟩

/-- the same without the class inclusion, for source texts (and printed texts) free of the characters
on which the classes disagree: `bad` is any set of characters containing every tokenizer white-space
character that the parser does not drop -/
theorem macro_eq_runtime_avoiding (cc : CharClass) (bad : Char → Bool)
    (hsub : ∀ c, rustWs c = true → bad c = false → cc.isWs c = true) (cap : Nat)
    (tp : List Char → List Char) (h : PrinterSpec tp) (s : List Char)
    (hs : ∀ c ∈ s, bad c = false) (hts : ∀ c ∈ tp s, bad c = false) :
    macroSimple cc cap tp s = C01.parse cc cap s ∧ macroInter cc tp s = C02.parse cc s := by
  -- a class that agrees with `cc` off `bad` and contains all tokenizer white space
  let cc' : CharClass := { cc with isWs := fun c => cc.isWs c || (rustWs c && bad c) }
  have hsub' : ∀ c, rustWs c = true → cc'.isWs c = true := by
    intro c hc
    show (cc.isWs c || (rustWs c && bad c)) = true
    cases hb : bad c with
    | false => simp [hsub c hc hb]
    | true => simp [hc]
  have hstrip : ∀ t : List Char, (∀ c ∈ t, bad c = false) → stripWs cc t = stripWs cc' t := by
    intro t ht
    unfold stripWs
    apply List.filter_congr
    intro c hc
    show (!cc.isWs c) = !(cc.isWs c || (rustWs c && bad c))
    simp [ht c hc]
  have key : stripWs cc (tp s) = stripWs cc s := by
    rw [hstrip (tp s) hts, hstrip s hs]
    exact strip_of_printerSpec cc' hsub' tp h s
  exact ⟨by unfold macroSimple; exact (SV.Props.C16.parse_ws_insensitive cc cap (tp s) s key).1,
         by unfold macroInter; exact (SV.Props.C16.parse_ws_insensitive cc 0 (tp s) s key).2⟩

/-- **Where the two Unicode classes disagree** inside the tokenizer's set: exactly the two
directional marks. -/
theorem rustWs_gap (c : Char) (h : rustWs c = true) :
    whiteSpace c = true ∨ c = '\u200e' ∨ c = '\u200f' := by
  unfold rustWs at h
  simp only [Bool.or_eq_true, decide_eq_true_eq] at h
  rcases h with ((((((((((h | h) | h) | h) | h) | h) | h) | h) | h) | h) | h) <;> subst h <;>
    first
      | (left; decide)
      | (right; left; rfl)
      | (right; right; rfl)

theorem marks_not_whiteSpace : whiteSpace '\u200e' = false ∧ whiteSpace '\u200f' = false := by
  constructor <;> decide

/-- a printer that obeys the contract and really does what `rustc`'s does to exotic white space:
every tokenizer white-space character becomes a plain space -/
def spacePrinter (s : List Char) : List Char := s.map fun c => if rustWs c then ' ' else c

theorem spacePrinter_spec : PrinterSpec spacePrinter := by
  intro s
  unfold spacePrinter
  induction s with
  | nil => rfl
  | cons c cs ih =>
    cases h : rustWs c with
    | true =>
      have : rustWs ' ' = true := by decide
      simp [h, this] at ih ⊢
      exact ih
    | false =>
      simp [h] at ih ⊢
      exact ih

/-- the parser class of the real code on the characters that matter here: `char::is_whitespace` -/
def realClass : CharClass := { stdClass with isWs := whiteSpace }

/-- **Known finding F-C20-lrm on the model** (the unrestricted statement of C20 is false of the
code): the source text `2x<U+200E>+ 1` tokenizes, the macro receives `2x + 1` and expands to a
polynomial, while the runtime parser rejects the same source text. -/
theorem lrm_counterexample :
    (match macroSimple realClass 65536 spacePrinter ['2', 'x', '\u200e', '+', ' ', '1'] with
      | .ok _ => true | .error _ => false) = true ∧
    (match C01.parse realClass 65536 ['2', 'x', '\u200e', '+', ' ', '1'] with
      | .ok _ => false | .error _ => true) = true ∧
    (match macroInter realClass spacePrinter ['2', 'x', '\u200f', '+', ' ', '1'] with
      | .ok _ => true | .error _ => false) = true ∧
    (match C02.parse realClass ['2', 'x', '\u200f', '+', ' ', '1'] with
      | .ok _ => false | .error _ => true) = true := by
  refine ⟨?_, ?_, ?_, ?_⟩ <;> decide +kernel

/-- the class of seed `C20-s3`: the univariate parser filters ASCII white space only -/
def asciiClass : CharClass := { stdClass with isWs := fun c => c = ' ' || c = '\t' || c = '\n' || c = '\x0C' || c = '\r' }

/-- **Seed C20-s3 on the model**: with an ASCII-only filter the same happens for U+2028 (and U+000B,
U+0085, U+2029): macro accepts, runtime parser rejects. -/
theorem ascii_filter_counterexample :
    (match macroSimple asciiClass 65536 spacePrinter ['x', '^', '2', '\u2028', '+', '1'] with
      | .ok _ => true | .error _ => false) = true ∧
    (match C01.parse asciiClass 65536 ['x', '^', '2', '\u2028', '+', '1'] with
      | .ok _ => false | .error _ => true) = true := by
  refine ⟨?_, ?_⟩ <;> decide +kernel

/-- and for the real class the texts of the seed agree, as `macro_eq_runtime_of_contract` predicts on
texts free of the two marks -/
example :
    macroSimple realClass 65536 spacePrinter ['x', '^', '2', '\u2028', '+', '1'] =
      C01.parse realClass 65536 ['x', '^', '2', '\u2028', '+', '1'] :=
  (macro_eq_runtime_avoiding realClass (fun c => c = '\u200e' || c = '\u200f')
    (by
      intro c hc hb
      rcases rustWs_gap c hc with h | h | h
      · exact h
      · subst h; simp at hb
      · subst h; simp at hb)
    65536 spacePrinter spacePrinter_spec _ (by decide) (by decide)).1

end SV.Props.C20Tokens
