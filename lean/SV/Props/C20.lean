import SV.Model.C20
import SV.Props.C16
/-!
# C20 — compile-time polynomial macros produce exactly what the runtime parsers produce

Property theorems only.  A macro invocation runs the runtime parser on `input.to_string()`, the text
rustc's token printer produces for the invocation's tokens.  What can be proved about the model: if the
printer changes white space only — the hypothesis that stands for the compiler, measured on every case
by the correspondence run through the `verif_token_text!` hook — the macro's result is the runtime
parser's result on the source text, value or error alike (a rejected text is then a `compile_error!`).
The theorem is false for a parser that strips only `' '` (the repaired defect: the printer breaks long
inputs with `'\\n'`).
-/
namespace SV.Props.C20
open SV SV.Text SV.C20

/-- Univariate macro = runtime parser, for every token printer that only changes white space. -/
theorem macro_simple_eq_runtime (cc : CharClass) (cap : Nat) (tp : List Char → List Char)
    (htp : ∀ s, stripWs cc (tp s) = stripWs cc s) (s : List Char) :
    macroSimple cc cap tp s = C01.parse cc cap s :=
  (SV.Props.C16.parse_ws_insensitive cc cap (tp s) s (htp s)).1

/-- Multivariate macro = runtime parser, under the same hypothesis. -/
theorem macro_inter_eq_runtime (cc : CharClass) (tp : List Char → List Char)
    (htp : ∀ s, stripWs cc (tp s) = stripWs cc s) (s : List Char) :
    macroInter cc tp s = C02.parse cc s :=
  (SV.Props.C16.parse_ws_insensitive cc 0 (tp s) s (htp s)).2

/-- In particular a text the runtime parser rejects is rejected by the macro with the same error
(which the macro turns into `compile_error!`), and an accepted text yields the same polynomial. -/
theorem macro_error_iff_runtime_error (cc : CharClass) (cap : Nat) (tp : List Char → List Char)
    (htp : ∀ s, stripWs cc (tp s) = stripWs cc s) (s : List Char) (e : Poly.PErr) :
    (macroSimple cc cap tp s = .error e ↔ C01.parse cc cap s = .error e) ∧
    (macroInter cc tp s = .error e ↔ C02.parse cc s = .error e) := by
  rw [macro_simple_eq_runtime cc cap tp htp, macro_inter_eq_runtime cc tp htp]
  exact ⟨Iff.rfl, Iff.rfl⟩

/-- The hypothesis is satisfiable by a printer that really reformats: one that inserts a line break
after every character. -/
example : ∀ s, stripWs stdClass ((fun t : List Char => t.flatMap fun c => [c, '\n']) s) = stripWs stdClass s := by
  intro s
  induction s with
  | nil => rfl
  | cons c cs ih =>
    simp only [List.flatMap_cons, stripWs] at ih ⊢
    simp only [List.cons_append, List.nil_append, List.filter_cons]
    have hn : stdClass.isWs '\n' = true := by decide
    simp only [hn, Bool.not_true]
    split <;> simp_all [stripWs]

end SV.Props.C20
