"""C16 plug-in: arbitrary text through both parser models.  `parse1`/`parse2` answers are compared like C01/C02
`parse` (the model's exact decimal expressions evaluated in binary64 must equal the implementation's f64).
`enum` answers are digests over every string of a prefix class; a differing digest or a failing oracle inside a
class is refined prefix by prefix down to a single string (`refine`)."""
import os, importlib.util
from oracle_util import *

_here = os.path.dirname(os.path.abspath(__file__))
def _load(name):
    spec = importlib.util.spec_from_file_location("prop_" + name, os.path.join(_here, name + ".py"))
    m = importlib.util.module_from_spec(spec); spec.loader.exec_module(m); return m
_c01, _c02 = _load("c01"), _load("c02")

ALPHABET = ['x', 'y', '2', '3', '0', '.', '^', '+', '-', '/', '*', '(', ')', ' ', '#']
CHUNK_MIN = 64   # enum requests are heavy: spread them over all cores

RULE = ("(hardening 4: every accepted text is also evaluated with every variable = 1 and with every variable = 2, where both the "
        "polynomial and the reading are exact up to a few roundings, and must agree within a few units in the last place per character "
        "[plus the exponents' own rounding amplified by |exponent| ln 2] - the three general points allow 1e-9; coefficients and "
        "exponents spelled a relative 1e-1..1e-17 next to 1, 2, 3, 10, 100, 1/2, 1/3, 2/3, 5/2 and 0 as decimals, as ratios of huge "
        "integers [2000000001/2000000000, (v 2^53 +- 1)/2^53] and as merged exponents of repeated variables [x^0.5000000001x^0.5, "
        "x^0.6x^0.3x^0.1, x^1/4x^1/4], in 25 places of a term, through both parsers) "
        "exhaustive: every string of length <= 5 (quick) / 6 (thorough) over {x,y,2,3,0,.,^,+,-,/,*,(,),space,#} through both "
        "parsers (digest per 2-symbol prefix class, refined to a single string on any difference), plus grammatical strings "
        "mutated with arbitrary Unicode and extreme exponent magnitudes; exhaustive also over {x,X,y,k,e-acute,Omega,2,^,+,-,.,space} to "
        "length 5/6, over all 52 ASCII letters + {2,^,+,-,.,space,/,e-acute} to length 3/4 and over {x,y,2,^,+,-,.,/} to length 6/7; "
        "two/three-letter templates in either case; oracle-only texts with characters of every Unicode class (look-alikes of the "
        "operators, non-ASCII digits, letters of every UTF-8 width, all white space) and texts of 10^5..10^6 characters / "
        "thousands of terms with their exact meaning; every text through the trait and the free-function entry points; long "
        "fragments (every byte length 1..80, 130, 200, 260) at 24 places of a term (exponent, coefficient, fraction parts, constant, "
        "letter run, junk after the variable, white space ...) holding a 2-, 3- or 4-byte character of every class (letter, number, "
        "symbol, white space, none) at every byte offset, alone and together with a second one at the start / end of the fragment "
        "(`long <parser> <100+site> <char>` sweeps, refined to the single text), the same as single texts where the character lies "
        "across byte 16 / 32 / 64 from either end; words and literal forms of other number parsers (inf, nan, infinity, e in every "
        "case, 1e5, 0x10, 1_000, 1f32, 3j ...) in every position of a term. Non-trivial = a prefix class in which at least one "
        "string is accepted, or a single text the model accepts; distinct = distinct request lines (each enum request stands for "
        "15^(L-2)-ish distinct strings, counted in coverage.notes)")

def compare(req, impl, model):
    from __main__ import default_compare
    r = req.split()
    if r[0] in ("o1", "o2", "long"):
        return None  # judged by the harness oracle alone (the model's character table does not cover these texts)
    if impl.startswith("err") and model.startswith("err"):
        return None  # "returns a value or an error": the statement names no error kind (the enum digests hash `err` only)
    if r[0] == "parse1":
        return _c01.compare("parse 0 " + " ".join(r[1:]), impl, model)
    if r[0] == "parse2":
        return _c02.compare("parse 0 " + " ".join(r[1:]), impl, model)
    return default_compare(req, impl, model)

def nontrivial(req, model):
    r = req.split()
    if r[0] in ("enum", "enumx"):
        return int(model.split()[1]) > 0
    if r[0] in ("o1", "o2", "long"):
        return True
    return model.startswith("ok")

def tag(req, model):
    r = req.split(); m = model.split()
    if r[0] in ("enum", "enumx"):
        return f"{r[0]}{r[1]}:" + ("some-accepted" if int(m[1]) > 0 else "all-rejected")
    if r[0] == "long":
        return f"long{r[1]}:kind{r[2]}"
    return r[0] + ":" + (m[0] if m else "empty") + (":" + m[1] if m and m[0] == "err" else "")

FRAG_LENGTHS = list(range(1, 81)) + [130, 200, 260]   # harness/src/c16.rs `frag_lengths`

def refine(req):
    """sub-requests that together cover an enum / sweep request; [] when it cannot be refined further"""
    r = req.split()
    if r[0] == "long" and 100 <= int(r[2]) < 200:
        # a sweep of long fragments: one request per (byte length, byte offset) - the harness answers `-` where the
        # character does not fit
        # (twin = 0: one multi-byte character; 1 / 2: the fragment also begins / ends with it, lengths <= 80 only)
        return [f"long {r[1]} {int(r[2]) + 100} {((tw * 100 + int(r[3])) * 1000 + L) * 1000 + p}"
                for tw in (0, 1, 2) for L in FRAG_LENGTHS if tw == 0 or L <= 80 for p in range(L - 1)]
    if r[0] not in ("enum", "enumx"):
        return []
    parser, maxlen = r[1], int(r[2])
    def enc(s):
        return f"{len(s)} " + " ".join(str(ord(c)) for c in s) if s else "0"
    if r[0] == "enumx":
        alpha, i = read_string(r, 3)
        prefix, _ = read_string(r, i)
        head = f"enumx {parser} {maxlen} {enc(alpha)}"
    else:
        alpha = ALPHABET
        prefix, _ = read_string(r, 3)
        head = f"enum {parser} {maxlen}"
    subs = [f"parse{parser} {enc(prefix)}"]
    if len(prefix) < maxlen:
        for c in alpha:
            subs.append(f"{head} {enc(prefix + c)}")
    return subs

def finish(rows, tier):
    n = sum(int(m.split()[0]) for (r, i, o, m) in rows if r.startswith("enum"))
    a = sum(int(m.split()[1]) for (r, i, o, m) in rows if r.startswith("enum"))
    nl = sum(1 for (r, i, o, m) in rows if r.startswith("long"))
    no = sum(1 for (r, i, o, m) in rows if r.startswith("o1") or r.startswith("o2"))
    return [f"exhaustive enumeration covered {n} (parser, string) pairs, {a} accepted by the model; implementation digests compared per prefix class",
            f"{no} texts with characters of every Unicode class and {nl} texts of up to 10^5 (quick) / 10^6 (thorough) characters judged by the oracle alone"]
