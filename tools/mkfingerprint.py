#!/usr/bin/env python3
"""mkfingerprint.py: record the sha256 of /repo's library sources (the tree the checks were validated on).
./check compares the current tree with it and, when they differ, adds two generator seeds to a quick run."""
import json, os, subprocess, sys, importlib.machinery, importlib.util
ROOT = os.path.dirname(os.path.dirname(os.path.abspath(__file__)))
loader = importlib.machinery.SourceFileLoader("svcheck", os.path.join(ROOT, "check"))
spec = importlib.util.spec_from_loader("svcheck", loader)
m = importlib.util.module_from_spec(spec)
loader.exec_module(m)
rev = subprocess.run(["git", "-C", m.REPO, "rev-parse", "--short", "HEAD"], capture_output=True, text=True).stdout.strip()
json.dump({"repo_rev": rev, "sha256": m.source_fingerprint()}, open(os.path.join(ROOT, "tools", "fingerprint.json"), "w"), indent=1)
print(open(os.path.join(ROOT, "tools", "fingerprint.json")).read())
