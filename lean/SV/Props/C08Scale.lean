import SV.Model.C08
import SV.Lemmas.Subst
import SV.Lemmas.Gauss
import SV.Props.C08
/-!
# C08 — Gaussian elimination with scaled partial pivoting is invariant under row scaling

Multiplying row `i` of the system `(A, b)` by a non-zero factor `d i` (positive or negative) changes
nothing in what the solver does: the same rows are chosen as pivots in every step, the scaled-pivot
test `|a_kk| / scale_k < tol` gives the same verdict in every step, and the returned vector is the
same.  `gauss_row_scaling` is the equality of the complete outcomes — errors included, for every
tolerance, every shape; `gauss_row_scaling_pos` is the special case of positive factors.

That is the reason a test on an *absolute* quantity (`|a_kk| < tol`, `|factor| < tol`,
`|a_ik| < EPSILON`) cannot be part of this algorithm, while the *scaled* pivot test can: the former is
not invariant under the row scaling the algorithm is designed to be blind to
(`absolute_pivot_test_not_invariant`, `factor_test_not_invariant`).

Proof: a simulation between the two runs.  The two elimination states `{m, r, s}` stay related by
`m' i j = e i * m i j`, `r' i = e i * r i`, `s' i = |e i| * s i` for a vector `e` of non-zero factors
(`RowRel`; `e = d` at the start; a row exchange exchanges the same two rows in both runs, hence two
entries of `e`).  The ratios `|m i k / s i|` coincide, so the pivot search and the tolerance test
coincide (`pivotSearch_row_scaling`, `pivotSmall_row_scaling`); the elimination factor
`m i k / m k k` is multiplied by `e i / e k`, so the relation is kept (`elimStep_row_scaling`); each
row of back substitution is `(e b - e Σ) / (e u) = (b - Σ) / u` (`backSubst_row_scaling`).
-/
set_option linter.unusedSectionVars false

namespace SV.Props.C08Scale
open SV SV.C08 SV.Subst SV.Gauss Finset

variable {K : Type} [Field K] [LinearOrder K] [IsStrictOrderedRing K] [Inhabited K]

/-- row `i` of the matrix multiplied by `d i` -/
def rowScaled (d : ℕ → K) (A : Mat K) : Mat K := Mat.tab A.h A.w fun i j => d i * A.get i j

/-- entry `i` of the vector multiplied by `d i` -/
def vecScaled (d : ℕ → K) (b : Array K) : Array K := vtab b.size fun i => d i * vget b i

@[simp] theorem rowScaled_h (d : ℕ → K) (A : Mat K) : (rowScaled d A).h = A.h := rfl
@[simp] theorem rowScaled_w (d : ℕ → K) (A : Mat K) : (rowScaled d A).w = A.w := rfl
@[simp] theorem vecScaled_size (d : ℕ → K) (b : Array K) : (vecScaled d b).size = b.size := by
  simp [vecScaled, vtab]

theorem get_rowScaled (d : ℕ → K) (A : Mat K) {i j : ℕ} (hi : i < A.h) (hj : j < A.w) :
    (rowScaled d A).get i j = d i * A.get i j := Mat.get_tab _ hi hj

theorem vget_vecScaled (d : ℕ → K) (b : Array K) {i : ℕ} (hi : i < b.size) :
    vget (vecScaled d b) i = d i * vget b i := vget_vtab _ hi

/-! ## the semantic route: equal answers whenever both runs answer -/

/-- If the solver answers both the system and the row-scaled system (any factors, positive
tolerance), the two answers are the same vector: by `gauss_sound` the first answer solves the scaled
system too, and by `gauss_unique` the scaled system has no other solution.  (Superseded by
`gauss_row_scaling`, which also shows that the two runs answer or refuse together and needs no
assumption on the tolerance.) -/
theorem gauss_ok_row_scaling_of_ok (A : Mat K) (b : Array K) (tol : K) (d : ℕ → K) (x x' : Array K)
    (htol : 0 < tol) (h : gaussSolve A b tol = .ok x)
    (h' : gaussSolve (rowScaled d A) (vecScaled d b) tol = .ok x') : x' = x := by
  obtain ⟨hsq, hb, _, _⟩ := gaussSolve_ok h
  obtain ⟨hsz, hx⟩ := C08.gauss_sound A b tol x htol h
  obtain ⟨hsz', _⟩ := C08.gauss_sound _ _ tol x' htol h'
  have hu := C08.gauss_unique _ _ tol x' htol h' (fun j => vget x j) (by
    intro i hi
    rw [rowScaled_h] at hi
    rw [rowScaled_h, vget_vecScaled d b (by omega), ← hx i hi, Finset.mul_sum]
    apply Finset.sum_congr rfl
    intro j hj
    rw [Finset.mem_range] at hj
    rw [get_rowScaled d A hi (by omega), mul_assoc])
  rw [rowScaled_h] at hsz' hu
  apply Array.ext (by omega)
  intro i h1 h2
  have := hu i (by omega)
  simp only [vget, Array.getD_eq_getD_getElem?] at this
  rw [Array.getElem?_eq_getElem h1, Array.getElem?_eq_getElem h2] at this
  simpa using this.symm

/-! ## the direct route: a simulation between the two runs -/

private theorem sabs_mul (e x : K) : sabs (e * x) = |e| * sabs x := by
  rw [sabs_eq_abs, sabs_eq_abs, abs_mul]

private theorem sabs_ratio {e : K} (he : e ≠ 0) (a s : K) :
    sabs (e * a / (|e| * s)) = sabs (a / s) := by
  rw [sabs_eq_abs, sabs_eq_abs, abs_div, abs_div, abs_mul, abs_mul, abs_abs,
    mul_div_mul_left _ _ (abs_ne_zero.mpr he)]

private theorem rowScale_fold {e : K} (he : 0 < e) (f g : ℕ → K) (l : List ℕ)
    (hfg : ∀ j ∈ l, g j = e * f j) (init : K) :
    l.foldl (fun sc j => if sc < g j then g j else sc) (e * init)
      = e * l.foldl (fun sc j => if sc < f j then f j else sc) init := by
  induction l generalizing init with
  | nil => rfl
  | cons a l ih =>
    simp only [List.foldl_cons]
    rw [hfg a (by simp)]
    have ih' := ih (fun j hj => hfg j (by simp [hj]))
    by_cases hlt : init < f a
    · rw [if_pos hlt, if_pos (mul_lt_mul_of_pos_left hlt he)]
      exact ih' _
    · rw [if_neg hlt, if_neg (fun hc => hlt (lt_of_mul_lt_mul_left hc he.le))]
      exact ih' _

/-- the scale factor of a row is multiplied by the row factor -/
theorem rowScale_rowScaled (d : ℕ → K) (A : Mat K) (hsq : A.h = A.w) {i : ℕ} (hi : i < A.h)
    (hd : d i ≠ 0) : rowScale (rowScaled d A) A.h i = |d i| * rowScale A A.h i := by
  unfold rowScale
  rw [get_rowScaled d A hi (by omega), sabs_mul]
  exact rowScale_fold (abs_pos.mpr hd) (fun j => sabs (A.get i j)) (fun j => sabs ((rowScaled d A).get i j)) _
    (fun j hj => by
      rw [List.mem_range'_1] at hj
      rw [get_rowScaled d A hi (by omega), sabs_mul]) _

/-- the state `st'` is the state `st` with row `i` of the matrix and of the right-hand side multiplied
by `e i`, and the scale entry `i` by `|e i|` -/
def RowRel (n : ℕ) (e : ℕ → K) (st st' : St K) : Prop :=
  (∀ i j, i < n → j < n → st'.m.get i j = e i * st.m.get i j) ∧
  (∀ i, i < n → vget st'.r i = e i * vget st.r i) ∧
  (∀ i, i < n → vget st'.s i = |e i| * vget st.s i)

/-- both states have the right sizes and are related by some vector of non-zero factors -/
def RowInv (n : ℕ) (st st' : St K) : Prop :=
  Shape n st ∧ Shape n st' ∧ ∃ e : ℕ → K, (∀ i, i < n → e i ≠ 0) ∧ RowRel n e st st'

/-- related states: the pivot search of step `k` finds the same row (and the same ratio) -/
theorem pivotSearch_row_scaling {n k : ℕ} {e : ℕ → K} {st st' : St K} (hk : k < n)
    (he : ∀ i, i < n → e i ≠ 0) (h : RowRel n e st st') :
    pivotSearch st'.m st'.s n k = pivotSearch st.m st.s n k := by
  obtain ⟨hm, _, hs⟩ := h
  unfold pivotSearch
  rw [hm k k hk hk, hs k hk, sabs_ratio (he k hk)]
  apply List.foldl_ext
  intro pb ii hii
  rw [List.mem_range'_1] at hii
  have hii' : ii < n := by omega
  simp only [hm ii k hii' hk, hs ii hii', sabs_ratio (he ii hii')]

/-- related states: the scaled-pivot tolerance test gives the same verdict -/
theorem pivotSmall_row_scaling {n k : ℕ} {e : ℕ → K} {st st' : St K} (tol : K) (hk : k < n)
    (he : ∀ i, i < n → e i ≠ 0) (h : RowRel n e st st') :
    pivotSmall st' tol k = pivotSmall st tol k := by
  obtain ⟨hm, _, hs⟩ := h
  unfold pivotSmall
  rw [hm k k hk hk, hs k hk, sabs_ratio (he k hk)]

/-- related states stay related through `partial_pivot` (the same two rows are exchanged) -/
theorem partialPivot_row_scaling {n k : ℕ} {st st' : St K} (hk : k < n) (h : RowInv n st st') :
    RowInv n (partialPivot st n k) (partialPivot st' n k) := by
  obtain ⟨hs, hs', e, he, hrel⟩ := h
  have hp := pivotSearch_row_scaling hk he hrel
  have hpn : (pivotSearch st.m st.s n k).1 < n := by
    rcases pivotSearch_range st.m st.s n k with h | h <;> omega
  refine ⟨partialPivot_shape k hs, partialPivot_shape k hs', ?_⟩
  unfold partialPivot
  dsimp only
  rw [hp]
  generalize (pivotSearch st.m st.s n k).1 = p at hpn
  by_cases hpk : p = k
  · rw [if_pos hpk, if_pos hpk]; exact ⟨e, he, hrel⟩
  · rw [if_neg hpk, if_neg hpk]
    obtain ⟨hm, hr, hsc⟩ := hrel
    obtain ⟨s1, s2, s3, s4⟩ := hs
    obtain ⟨t1, t2, t3, t4⟩ := hs'
    refine ⟨fun i => if i = p then e k else if i = k then e p else e i, ?_, ?_, ?_, ?_⟩
    · intro i hi
      dsimp only
      split_ifs
      · exact he k hk
      · exact he p hpn
      · exact he i hi
    · intro i j hi hj
      dsimp only
      rw [get_swapRows _ _ _ (by omega) (by omega), get_swapRows _ _ _ (by omega) (by omega)]
      split_ifs
      · exact hm k j hk hj
      · exact hm p j hpn hj
      · exact hm i j hi hj
    · intro i hi
      dsimp only
      rw [vget_vswap _ _ _ (by omega), vget_vswap _ _ _ (by omega)]
      split_ifs
      · exact hr k hk
      · exact hr p hpn
      · exact hr i hi
    · intro i hi
      dsimp only
      rw [vget_vswap _ _ _ (by omega), vget_vswap _ _ _ (by omega)]
      split_ifs
      · exact hsc k hk
      · exact hsc p hpn
      · exact hsc i hi

private theorem scale_elim {ei ek : K} (hek : ek ≠ 0) (a c p q : K) :
    ei * a - ei * c / (ek * p) * (ek * q) = ei * (a - c / p * q) := by
  by_cases hp : p = 0
  · subst hp; simp
  · field_simp

/-- related states stay related through the elimination loops of step `k`, with the same factors -/
theorem elimStep_row_scaling {n k : ℕ} {st st' : St K} (hk : k < n) (h : RowInv n st st') :
    RowInv n (elimStep st n k) (elimStep st' n k) := by
  obtain ⟨hs, hs', e, he, hm, hr, hsc⟩ := h
  refine ⟨elimStep_shape k hs, elimStep_shape k hs', e, he, ?_, ?_, ?_⟩
  · intro i j hi hj
    simp only [elimStep]
    rw [Mat.get_tab _ hi hj, Mat.get_tab _ hi hj]
    split_ifs with hc
    · rw [hm i j hi hj, hm i k hi hk, hm k k hk hk, hm k j hk hj]
      exact scale_elim (he k hk) _ _ _ _
    · exact hm i j hi hj
  · intro i hi
    simp only [elimStep]
    rw [vget_vtab _ hi, vget_vtab _ hi]
    split_ifs with hc
    · rw [hr i hi, hm i k hi hk, hm k k hk hk, hr k hk]
      exact scale_elim (he k hk) _ _ _ _
    · exact hr i hi
  · exact hsc

/-- both runs are flagged, or both go on with related states -/
def RunRel (n : ℕ) : Option (St K) → Option (St K) → Prop
  | none, none => True
  | some a, some b => RowInv n a b
  | _, _ => False

/-- the elimination loop on related states: flagged together, or related results -/
theorem feLoop_row_scaling (tol : K) (n : ℕ) :
    ∀ (t k : ℕ) (st st' : St K), k + t < n → RowInv n st st' →
      RunRel n (feLoop tol n t k st) (feLoop tol n t k st') := by
  intro t
  induction t with
  | zero =>
    intro k st st' _ h
    simpa [feLoop, RunRel] using h
  | succ t ih =>
    intro k st st' hk h
    have h1 := partialPivot_row_scaling (k := k) (by omega) h
    obtain ⟨_, _, e, he, hrel⟩ := id h1
    simp only [feLoop]
    rw [pivotSmall_row_scaling tol (by omega : k < n) he hrel]
    split
    · simp [RunRel]
    · exact ih (k + 1) _ _ (by omega) (elimStep_row_scaling (by omega) h1)

/-- `forward_elimination` on related states: flagged together, or related results -/
theorem forwardElim_row_scaling (tol : K) {n : ℕ} (hn : 0 < n) {st st' : St K}
    (h : RowInv n st st') : RunRel n (forwardElim tol n st) (forwardElim tol n st') := by
  have hl := feLoop_row_scaling tol n (n - 1) 0 st st' (by omega) h
  unfold forwardElim
  cases h1 : feLoop tol n (n - 1) 0 st <;> cases h2 : feLoop tol n (n - 1) 0 st' <;>
    rw [h1, h2] at hl
  · simp [RunRel]
  · simp [RunRel] at hl
  · simp [RunRel] at hl
  · rename_i a b
    have hab : RowInv n a b := by simpa [RunRel] using hl
    obtain ⟨_, _, e, he, hrel⟩ := id hab
    dsimp only
    rw [pivotSmall_row_scaling tol (by omega : n - 1 < n) he hrel]
    split
    · simp [RunRel]
    · simpa [RunRel] using hab

private theorem backStep_eq {n : ℕ} {e : ℕ → K} {st st' : St K} (he : ∀ i, i < n → e i ≠ 0)
    (hrel : RowRel n e st st') (sol : Array K) {i : ℕ} (hi : i < n) :
    backStep st'.m n st'.r sol i = backStep st.m n st.r sol i := by
  obtain ⟨hm, hr, _⟩ := hrel
  unfold backStep
  congr 1
  have hsum : sumFrom 0 (i + 1) n (fun j => st'.m.get i j * vget sol j)
      = e i * sumFrom 0 (i + 1) n (fun j => st.m.get i j * vget sol j) := by
    rw [sumFrom_eq, sumFrom_eq, zero_add, zero_add, Finset.mul_sum]
    apply Finset.sum_congr rfl
    intro k hk
    rw [Finset.mem_range] at hk
    rw [hm i (i + 1 + k) hi (by omega), mul_assoc]
  rw [hsum, hr i hi, hm i i hi hi, ← mul_sub, mul_div_mul_left _ _ (he i hi)]

private theorem backLoop_eq {n : ℕ} {e : ℕ → K} {st st' : St K} (he : ∀ i, i < n → e i ≠ 0)
    (hrel : RowRel n e st st') :
    ∀ (t : ℕ) (sol : Array K), t ≤ n →
      backLoop st'.m n st'.r t sol = backLoop st.m n st.r t sol := by
  intro t
  induction t with
  | zero => intro sol _; rfl
  | succ t ih =>
    intro sol ht
    simp only [backLoop]
    rw [backStep_eq he hrel sol (by omega : t < n)]
    exact ih _ (by omega)

/-- back substitution returns the same vector for related states -/
theorem backSubst_row_scaling {n : ℕ} (hn : 0 < n) {st st' : St K} (h : RowInv n st st')
    (sol : Array K) (hsol : n ≤ sol.size) :
    backSubst st'.m n st'.r sol = backSubst st.m n st.r sol := by
  obtain ⟨⟨s1, s2, s3, _⟩, ⟨t1, t2, t3, _⟩, e, he, hrel⟩ := h
  rw [backSubst_eq_ok _ n _ sol hn (by omega) (by omega) (by omega) hsol,
    backSubst_eq_ok _ n _ sol hn (by omega) (by omega) (by omega) hsol]
  congr 1
  unfold backCore
  rw [backLoop_eq he hrel _ _ (by omega)]
  obtain ⟨hm, hr, _⟩ := hrel
  have hn1 : n - 1 < n := by omega
  rw [hr _ hn1, hm _ _ hn1 hn1, mul_div_mul_left _ _ (he _ hn1)]

/-- the start states are related by the factor vector `d` -/
theorem init_row_scaling (A : Mat K) (b : Array K) (d : ℕ → K) (hsq : A.h = A.w)
    (hb : A.h = b.size) (hd : ∀ i, i < A.h → d i ≠ 0) :
    RowInv A.h { m := A, r := b, s := vtab A.h (rowScale A A.h) }
      { m := rowScaled d A, r := vecScaled d b,
        s := vtab A.h (rowScale (rowScaled d A) A.h) } := by
  refine ⟨⟨rfl, hsq.symm, hb.symm, by simp [vtab]⟩,
    ⟨rfl, hsq.symm, by simpa using hb.symm, by simp [vtab]⟩, d, hd, ?_, ?_, ?_⟩
  · intro i j hi hj
    exact get_rowScaled d A hi (by omega)
  · intro i hi
    exact vget_vecScaled d b (by omega)
  · intro i hi
    dsimp only
    rw [vget_vtab _ hi, vget_vtab _ hi, rowScale_rowScaled d A hsq hi (hd i hi)]

private theorem gaussSolve_eq (A : Mat K) (b : Array K) (tol : K) (n : ℕ) (hn : A.h = n)
    (h1 : A.h = A.w) (h2 : A.h = b.size) (h3 : A.h ≠ 0) :
    gaussSolve A b tol =
      if (List.range n).any (fun i => vget (vtab n (rowScale A n)) i == 0) then
        .err .singular
      else
        match forwardElim tol n (St.mk A b (vtab n (rowScale A n))) with
        | none => .err .singular
        | some st =>
          match backSubst st.m n st.r (vtab n fun _ => 0) with
          | .ok x => .ok x
          | _ => .panic := by
  subst hn
  unfold gaussSolve
  rw [if_neg (by simpa using h1), if_neg (by simpa using h2), if_neg h3]
  rfl

/-- **Invariance under row scaling.**  For every linearly ordered field, every matrix `A`
(any shape), right-hand side `b`, tolerance `tol` (any sign) and row factors `d` that are non-zero
on the rows of `A`, the solver returns for the row-scaled system `(D A, D b)` exactly what it returns
for `(A, b)`: the same error, or the same vector.  In particular the pivot order and the singularity
verdict do not depend on the scaling of the equations. -/
theorem gauss_row_scaling (A : Mat K) (b : Array K) (tol : K) (d : ℕ → K)
    (hd : ∀ i, i < A.h → d i ≠ 0) :
    gaussSolve (rowScaled d A) (vecScaled d b) tol = gaussSolve A b tol := by
  by_cases h1 : A.h = A.w
  swap
  · rw [(C08.gauss_shape_errors A b tol).1 h1]
    exact (C08.gauss_shape_errors _ _ tol).1 h1
  by_cases h2 : A.h = b.size
  swap
  · rw [(C08.gauss_shape_errors A b tol).2.1 h1 h2]
    have := (C08.gauss_shape_errors (rowScaled d A) (vecScaled d b) tol).2.1 h1
      (by simpa using h2)
    simpa using this
  by_cases h3 : A.h = 0
  · rw [(C08.gauss_shape_errors A b tol).2.2.1 h1 h2 h3]
    exact (C08.gauss_shape_errors (rowScaled d A) (vecScaled d b) tol).2.2.1 h1
      (by simpa using h2) h3
  have hsq : A.h = A.w := h1
  have hb : A.h = b.size := h2
  have hn : 0 < A.h := Nat.pos_of_ne_zero h3
  rw [gaussSolve_eq A b tol A.h rfl h1 h2 h3,
    gaussSolve_eq (rowScaled d A) (vecScaled d b) tol A.h rfl h1 (by simpa using h2) h3]
  have hinit := init_row_scaling A b d hsq hb hd
  have hany : (List.range A.h).any (fun i => vget (vtab A.h (rowScale (rowScaled d A) A.h)) i == 0)
      = (List.range A.h).any (fun i => vget (vtab A.h (rowScale A A.h)) i == 0) := by
    rw [Bool.eq_iff_iff]
    simp only [List.any_eq_true, List.mem_range, beq_iff_eq]
    constructor
    · rintro ⟨i, hi, h⟩
      refine ⟨i, hi, ?_⟩
      rw [vget_vtab _ hi] at h ⊢
      rw [rowScale_rowScaled d A hsq hi (hd i hi)] at h
      rcases mul_eq_zero.mp h with h | h
      · exact absurd (abs_eq_zero.mp h) (hd i hi)
      · exact h
    · rintro ⟨i, hi, h⟩
      refine ⟨i, hi, ?_⟩
      rw [vget_vtab _ hi] at h ⊢
      rw [rowScale_rowScaled d A hsq hi (hd i hi), h, mul_zero]
  rw [hany]
  split
  · rfl
  · have hfe := forwardElim_row_scaling tol hn hinit
    generalize forwardElim tol A.h (St.mk A b (vtab A.h (rowScale A A.h))) = o1 at hfe ⊢
    generalize forwardElim tol A.h (St.mk (rowScaled d A) (vecScaled d b)
      (vtab A.h (rowScale (rowScaled d A) A.h))) = o2 at hfe ⊢
    cases o1 <;> cases o2
    · rfl
    · simp [RunRel] at hfe
    · simp [RunRel] at hfe
    · rename_i sa sb
      have hab : RowInv A.h sa sb := by simpa [RunRel] using hfe
      dsimp only
      rw [backSubst_row_scaling hn hab _ (by simp [vtab])]

/-- The statement for positive factors. -/
theorem gauss_row_scaling_pos (A : Mat K) (b : Array K) (tol : K) (d : ℕ → K)
    (hd : ∀ i, i < A.h → 0 < d i) :
    gaussSolve (rowScaled d A) (vecScaled d b) tol = gaussSolve A b tol :=
  gauss_row_scaling A b tol d fun i hi => ne_of_gt (hd i hi)

/-- The run of `forward_elimination` itself: on the row-scaled system it is flagged exactly when it
is flagged on the original system, and otherwise the two final states (triangular matrix, right-hand
side, scale vector) are related by non-zero row factors. -/
theorem forwardElim_row_scaling_init (A : Mat K) (b : Array K) (tol : K) (d : ℕ → K)
    (hsq : A.h = A.w) (hb : A.h = b.size) (hn : A.h ≠ 0) (hd : ∀ i, i < A.h → d i ≠ 0) :
    RunRel A.h (forwardElim tol A.h { m := A, r := b, s := vtab A.h (rowScale A A.h) })
      (forwardElim tol A.h { m := rowScaled d A, r := vecScaled d b,
                             s := vtab A.h (rowScale (rowScaled d A) A.h) }) :=
  forwardElim_row_scaling tol (Nat.pos_of_ne_zero hn) (init_row_scaling A b d hsq hb hd)

/-- The singularity verdict does not depend on the scaling of the equations. -/
theorem gauss_singular_row_scaling (A : Mat K) (b : Array K) (tol : K) (d : ℕ → K)
    (hd : ∀ i, i < A.h → d i ≠ 0) :
    gaussSolve (rowScaled d A) (vecScaled d b) tol = .err .singular ↔
      gaussSolve A b tol = .err .singular := by
  rw [gauss_row_scaling A b tol d hd]

/-! ## absolute tests are not invariant -/

/-- A test of the pivot against an absolute threshold, `|a_kk| < tol`, is *not* invariant under
positive row scaling: `[[1]]` passes `tol = 1/100`, the same equation multiplied by `1/1000` does
not.  (The scaled test `|a_kk| / scale_k < tol` of the algorithm is: `pivotSmall_row_scaling`.) -/
theorem absolute_pivot_test_not_invariant :
    ∃ (A : Mat ℚ) (d : ℕ → ℚ) (tol : ℚ), (∀ i, 0 < d i) ∧
      ¬ (sabs ((rowScaled d A).get 0 0) < tol ↔ sabs (A.get 0 0) < tol) := by
  refine ⟨⟨1, 1, #[1]⟩, fun _ => 1 / 1000, 1 / 100, fun _ => by norm_num, ?_⟩
  decide +kernel

/-- A test of the elimination factor against an absolute threshold, `|a_ik / a_kk| < tol`, is not
invariant either: the factor of row `1` of `[[1,0],[1,1]]` is `1`, after multiplying row `1` by
`1/1000` it is `1/1000`. -/
theorem factor_test_not_invariant :
    ∃ (A : Mat ℚ) (d : ℕ → ℚ) (tol : ℚ), (∀ i, 0 < d i) ∧
      ¬ (sabs ((rowScaled d A).get 1 0 / (rowScaled d A).get 0 0) < tol ↔
          sabs (A.get 1 0 / A.get 0 0) < tol) := by
  refine ⟨⟨2, 2, #[1, 0, 1, 1]⟩, fun i => if i = 0 then 1 else 1 / 1000, 1 / 100, fun i => ?_, ?_⟩
  · dsimp only; split_ifs <;> norm_num
  · decide +kernel

/-! ## non-vacuity: concrete systems over ℚ -/

/-- the second unit test of gaussian_elim.rs with row 0 multiplied by 1024 and row 1 by 1/3 -/
example : gaussSolve (rowScaled (fun i => if i = 0 then 1024 else 1 / 3) (⟨2, 2, #[3, 6, 5, -8]⟩ : Mat ℚ))
    (vecScaled (fun i => if i = 0 then 1024 else 1 / 3) #[12, 2]) (1 / 1000000000000)
    = .ok #[2, 1] := by
  decide +kernel
/-- the same with a negative factor -/
example : gaussSolve (rowScaled (fun i => if i = 0 then -7 else 1 / 3) (⟨2, 2, #[3, 6, 5, -8]⟩ : Mat ℚ))
    (vecScaled (fun i => if i = 0 then -7 else 1 / 3) #[12, 2]) (1 / 1000000000000)
    = .ok #[2, 1] := by
  decide +kernel
/-- the theorem applied: whatever the (positive) factors, the answer is that of the unscaled system -/
example (d : ℕ → ℚ) (hd : ∀ i, 0 < d i) :
    gaussSolve (rowScaled d (⟨2, 2, #[3, 6, 5, -8]⟩ : Mat ℚ)) (vecScaled d #[12, 2])
      (1 / 1000000000000) = .ok #[2, 1] := by
  rw [gauss_row_scaling_pos _ _ _ d fun i _ => hd i]
  decide +kernel
/-- a singular system stays refused, however its rows are scaled -/
example (d : ℕ → ℚ) (hd : ∀ i, d i ≠ 0) :
    gaussSolve (rowScaled d (⟨2, 2, #[1, 2, 2, 4]⟩ : Mat ℚ)) (vecScaled d #[1, 1])
      (1 / 1000000000000) = .err .singular := by
  rw [gauss_row_scaling _ _ _ d fun i _ => hd i]
  decide +kernel
/-- a zero factor is excluded for a reason: it turns a regular system into a singular one -/
example : gaussSolve (rowScaled (fun _ => 0) (⟨2, 2, #[3, 6, 5, -8]⟩ : Mat ℚ))
    (vecScaled (fun _ => 0) #[12, 2]) (1 / 1000000000000) = .err .singular := by
  decide +kernel

end SV.Props.C08Scale
